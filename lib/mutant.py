#!/usr/bin/env python3
"""Sensitivity helper: apply a textual mutation in a scratch worktree and run a check against it.

usage: mutant.py <ID> <file relative to repo> <old text> <new text> [--tier quick] [--only regex]
Creates /tmp/mut-<ID>-<pid> (worktree of /repo HEAD), replaces the first occurrence of old by new,
runs VERIF_REPO=<worktree> /verif/check <ID>, prints the verdict line, removes the worktree.
Replay files the run writes are moved to /tmp/mut-replays (mutant violations are not findings).
"""
import os
import shutil
import subprocess
import sys

pid, rel, old, new = sys.argv[1:5]
extra = sys.argv[5:]
wt = "/tmp/mut-%s-%d" % (pid, os.getpid())
subprocess.run(["git", "-C", "/repo", "worktree", "add", "-q", "--detach", wt, "HEAD"], check=True)
try:
    p = os.path.join(wt, rel)
    s = open(p).read()
    if old not in s:
        print("MUTANT-ERROR: old text not found in", rel)
        sys.exit(3)
    open(p, "w").write(s.replace(old, new, 1))
    env = dict(os.environ, VERIF_REPO=wt, GOFLAGS="-mod=mod", GOPROXY="off")
    r = subprocess.run(["/verif/check", pid] + extra, env=env, capture_output=True, text=True, cwd="/verif")
    out = r.stdout + r.stderr
    lines = out.strip().splitlines()
    fails = [l for l in lines if "failed after" in l or "--- FAIL" in l or "VIOLATION" in l][:6]
    print("\n".join(fails))
    print("MUTANT-RESULT %s exit=%d %s" % (pid, r.returncode, "DETECTED" if r.returncode == 1 else ("INCONCLUSIVE" if r.returncode == 2 else "MISSED")))
    if r.returncode == 2:
        print("\n".join(lines[-30:]))
finally:
    subprocess.run(["git", "-C", "/repo", "worktree", "remove", "--force", wt])
    subprocess.run(["git", "-C", "/repo", "worktree", "prune"])
    # the evidence file was rewritten by the mutant run; the caller should re-run the real check
