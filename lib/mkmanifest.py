#!/usr/bin/env python3
"""Regenerates /verif/MANIFEST.json from lib/props.py."""
import json
import os
import sys

VERIF = os.path.dirname(os.path.dirname(os.path.abspath(__file__)))
sys.path.insert(0, os.path.join(VERIF, "lib"))
from props import PROPS  # noqa: E402

ALL = [json.loads(l)["id"] for l in open(os.path.join(VERIF, "properties.jsonl"))]

checks = []
for pid in ALL:
    cfg = PROPS.get(pid)
    if not cfg or not cfg.get("claimed", True):
        continue
    checks.append({
        "property_id": pid,
        "quick_cmd": "./check %s --tier quick" % pid,
        "thorough_cmd": "./check %s --tier thorough" % pid,
        "evidence_file": "/verif/evidence/%s.json" % pid,
        "replay_cmd_template": "./check %s --replay {path}" % pid,
        "engine": "rapid-overlay-harness",
        "level_claimed": {
            "category": cfg["level"],
            "text": cfg["level_text"] + (" " + cfg["level_text_more"] if cfg.get("level_text_more") else ""),
            "design_ref": "DESIGN.md section 4, " + pid,
        },
        "level_note": cfg["level_note"],
        "technique": cfg["technique"],
    })

na = []
for pid in ALL:
    cfg = PROPS.get(pid)
    if cfg and cfg.get("claimed", True):
        continue
    na.append({"property_id": pid, "reason": (cfg or {}).get(
        "na_reason", "check not built yet in this session; the design (DESIGN.md section 4) applies the technique to it")})

manifest = {
    "version": 1,
    "setup_cmd": "./check --warm",
    "hooks": {
        "guard": "verif",
        "enable": "no source hooks: harness _test.go files (//go:build verif) are injected with `go test -tags verif "
                  "-overlay` from /verif/harness into the packages of /repo's working tree; /repo itself is not modified",
        "baseline_off_cmd": "cd /repo && GOFLAGS=-mod=mod go test -json -vet=off -count=1 -timeout 25m ./...",
        "source_commits": [],
        "add_only": True,
    },
    "engines": [{
        "name": "rapid-overlay-harness",
        "path": "/verif/check",
        "serves_properties": [c["property_id"] for c in checks],
        "kind_free_text": "pgregory.net/rapid v1.3.0 property-based tests (stateful t.Repeat machines and input "
                          "generators) compiled in-package against /repo's working tree through a build overlay, "
                          "sharded by seed over the cores by a Python driver that merges measured coverage into evidence",
    }],
    "checks": checks,
    "not_applicable": na,
    "notes": "Every check rebuilds its harness from /repo's current working tree. Exit 0 held / 1 violation / 2 "
             "inconclusive (harness build failure, timeout, generator starvation). Genuine defects repaired by fix: "
             "commits in /repo are listed in /verif/known_findings.json.",
}
with open(os.path.join(VERIF, "MANIFEST.json"), "w") as f:
    json.dump(manifest, f, indent=1)
    f.write("\n")
print("MANIFEST.json: %d checks, %d not_applicable" % (len(checks), len(na)))
