#!/usr/bin/env python3
"""Writes the prompts of a defect-hunt round (DESIGN 10.9): one per property, from lib/hunt_prompt.txt.

usage: mkhuntprompts.py <outdir> <worktree-prefix> [--second]

A hunter gets the text of the property, the findings already known for it (known_findings.json) and -- in a second
hunt -- the hints of the first one that were judged to lie outside the statement (DECLINED below), plus the path of
its own scratch worktree of /repo.  Nothing from /verif is named in a prompt.  What a hunter reports is a hint: it
counts only after a check of /verif reproduces it against /repo.
"""
import json
import os
import sys

DECLINED = {
    "C01": ["labels with characters outside [a-z0-9_.-] slipping past ||d^ rules"],
    "C02": ["$dnsrewrite rules on a response name switching response blocking off",
            "DNS64 synthesising AAAA from a blocked A"],
    "C04": ["a MAC-shaped ClientID attributing a request to two clients",
            "the same CIDR accepted twice when spelled with other host bits"],
    "C06": ["CNAME rewrite pointing at a pass-through exception entry",
            "exact-name entry of the other family not shadowing wildcard entries",
            "SERVFAIL carrying the rewritten question after an upstream failure"],
    "C08": ["the ECS field of a logged query not being anonymised"],
    "C09": ["queries counted between the hour change and the next one-second flush poll booked into the old hour"],
    "C10": ["hostname index left stale after an ICMP conflict blocklists a recycled lease"],
    "C11": ["a failed first-run installation keeping the administrator it created while install endpoints stay open",
            "first-run check outside the control lock", "empty-body POST without content type accepted"],
    "C12": ["fixed one-minute window anchored at the first failure letting 2*(limit-1) failures through"],
    "C14": ["Windows non-atomic writes", "temp-file litter"],
    "C15": ["checksum ignoring line boundaries", "HTML pages that the HTML heuristic misses"],
    "C16": ["domain part of the server name compared case-sensitively"],
    "C18": ["sub-nanosecond bounds truncated", "nil schedule from a hand-edited file"],
    "C19": ["ICANN suffixes hashed for names under a private suffix (pinned by an existing unit test)"],
}

MORE = {'C01': ['hosts-style / plain-domain rule lines with capitals never matching (rule library index)'], 'C03': ['ClientID lost when the TLS server name differs from the configured one in letter case only'], 'C05': ['DHCP set_config / reset racing with DNS requests (DHCP reconfiguration is outside the statement)'], 'C07': ['records longer than 16 KiB breaking cursor paging (listed as an open finding)'], 'C08': ['||domain^ on the ignore list missing labels with unusual octets (rule library)', 'statistics keeping full addresses recorded before anonymisation was switched on'], 'C10': ['set_config wiping the lease table (DHCP reconfiguration is outside the quantifier)'], 'C12': ['block_auth_min above 153722867 overflowing to a negative block'], 'C13': ['plain scalars of string settings re-typed by the upgrade (listed as an open finding)', 'step 25->26 forgetting dns.cache_time'], 'C17': ['a malformed pattern accepted at start panicking later without reading anything']}
MORE3 = {
    "C01": ["a persistent client stored as fe80::1 not found for fe80::1%eth0 (attribution, both readings admitted)"],
    "C03": ["*.example.org being an unanchored pattern of the rule library"],
    "C04": ["an IPv6 catch-all network beating the exact IPv4 identifier for an IPv4-mapped source address",
            "a client's blocked_services without schedule in a hand-edited file"],
    "C05": ["readers holding the server lock for a whole upstream exchange (no latency bound)",
            "dns_config / TLS restarts racing with unlocked reads of the server configuration"],
    "C07": ["a search overlapping the automatic flush missing the batch being written",
            "older_than between two stored records returning nothing once they are on disk"],
    "C15": ["configuration files with one list identifier used twice (hand-numbered or written by an older version)"],
}
for _k, _v in MORE3.items():
    MORE.setdefault(_k, []).extend(_v)
for _k, _v in MORE.items():
    DECLINED.setdefault(_k, []).extend(_v)

outdir, prefix = sys.argv[1], sys.argv[2]
second = "--second" in sys.argv
here = os.path.dirname(os.path.abspath(__file__))
tmpl = open(os.path.join(here, "hunt_prompt.txt")).read()
props = [json.loads(l) for l in open(os.path.join(here, "..", "properties.jsonl"))]
known = json.load(open(os.path.join(here, "..", "known_findings.json")))["findings"]
os.makedirs(outdir, exist_ok=True)
for p in props:
    pid = p["id"]
    ks = [f["what"] for f in known if f["property"] == pid]
    txt = "; ".join(ks) if ks else "nothing yet for this property"
    if second:
        if DECLINED.get(pid):
            txt += ". ALSO ALREADY REPORTED AND JUDGED OUTSIDE THE STATEMENT (do not report again): " + "; ".join(DECLINED[pid])
        txt += (". NOTE: this is a further hunt; one or two hunters have been here already (and the defects "
                "listed above were repaired in your worktree), so go for interplay between features, run-time "
                "reconfiguration through the admin API followed by restart, rarely used request shapes, and sequences "
                "of three or more operations.")
    s = (tmpl.replace("{WT}", "%s-%s" % (prefix, pid.lower())).replace("{OUT}", os.path.join(outdir, pid))
         .replace("{ID}", pid).replace("{PROPERTY}", json.dumps(p, indent=1)).replace("{KNOWN}", txt))
    s += "\nIf a tool refuses to write report.md, write it through the shell (cat > file) instead.\n"
    open(os.path.join(outdir, "prompt_%s.txt" % pid), "w").write(s)
print("wrote %d prompts to %s" % (len(props), outdir))
