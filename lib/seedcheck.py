#!/usr/bin/env python3
"""Confirms a seeded breakage delivered by an independent sub-agent and runs the /verif check against it.

usage: seedcheck.py <ID> <a|b> [--tier quick|thorough] [--no-store]

Input: /tmp/seedwork/<ID>/<a|b>/{patch.diff, demo/*, meta.json}
Steps (all in a scratch worktree /tmp/sv-<id><x> of /repo HEAD, removed afterwards):
  1. git apply patch.diff; go build ./...; existing tests of the touched packages must pass
  2. demo files copied into place: the demo must FAIL with the patch and PASS without it
  3. VERIF_REPO=<worktree> /verif/check <ID> --tier <tier>: exit 1 = detected
Output: /verif/seeded/<ID><x>/{patch.diff, demo/, meta.json} with the confirmation results added.
"""
import json
import os
import re
import shutil
import subprocess
import sys

pid, which = sys.argv[1], sys.argv[2]
tier = "quick"
store = True
if "--tier" in sys.argv:
    tier = sys.argv[sys.argv.index("--tier") + 1]
if "--no-store" in sys.argv:
    store = False
src = "/tmp/seedwork/%s/%s" % (pid, which)
if not os.path.exists(src) and os.path.exists("/verif/seeded/%s%s" % (pid, which)):
    src = "/verif/seeded/%s%s" % (pid, which)
wt = "/tmp/sv-%s%s" % (pid.lower(), which)
env = dict(os.environ, GOFLAGS="-mod=mod", GOPROXY="off")


def run(cmd, cwd=None, timeout=3600, extra_env=None):
    e = dict(env)
    if extra_env:
        e.update(extra_env)
    r = subprocess.run(cmd, cwd=cwd, env=e, shell=isinstance(cmd, str), capture_output=True, text=True, timeout=timeout)
    return r.returncode, r.stdout + r.stderr


meta = json.load(open(os.path.join(src, "meta.json")))
patch = os.path.join(src, "patch.diff")
result = {"build_ok": False, "existing_tests_pass": False, "demo_fails_with_change": False,
          "demo_passes_without": False, "check_tier": tier, "check_exit": None, "detected": False}

subprocess.run(["git", "-C", "/repo", "worktree", "remove", "--force", wt], capture_output=True)
subprocess.run(["git", "-C", "/repo", "worktree", "add", "-q", "--detach", wt, "HEAD"], check=True)
try:
    rc, out = run(["git", "apply", patch], cwd=wt)
    if rc != 0:
        print("SEED %s%s: patch does not apply: %s" % (pid, which, out))
        sys.exit(3)
    rc, out = run("git diff --name-only", cwd=wt)
    changed = [l for l in out.split() if l.endswith(".go")]
    pkgs = sorted({"./" + os.path.dirname(f) for f in changed})
    rc, out = run("go build ./...", cwd=wt)
    result["build_ok"] = rc == 0
    if rc != 0:
        print("SEED %s%s: build failed:\n%s" % (pid, which, out[-2000:]))
    else:
        rc, out = run(["go", "test", "-count=1", "-vet=off"] + [p + "/..." for p in pkgs], cwd=wt, timeout=3000)
        result["existing_tests_pass"] = rc == 0
        result["existing_tests_cmd"] = "go test -count=1 " + " ".join(p + "/..." for p in pkgs)
        if rc != 0:
            print("SEED %s%s: existing tests fail:\n%s" % (pid, which, out[-3000:]))

    # demo
    demo_dir = os.path.join(src, "demo")
    demo_cmd = meta.get("demo_cmd", "")
    placed = []
    for root, _, files in os.walk(demo_dir):
        for fn in files:
            p = os.path.join(root, fn)
            rel = os.path.relpath(p, demo_dir)
            dest = None
            if os.path.dirname(rel):
                dest = os.path.join(wt, rel)
            else:
                # find the package from the "package" clause + comment, else from the changed files
                head = open(p, errors="replace").read(2000)
                m = re.search(r"internal/[A-Za-z0-9_/]+", head)
                pk = m.group(0) if m else None
                if pk and os.path.isdir(os.path.join(wt, pk)) and not pk.endswith(".go"):
                    dest = os.path.join(wt, pk, fn)
                elif pk and pk.endswith(".go"):
                    dest = os.path.join(wt, os.path.dirname(pk), fn)
                elif changed:
                    dest = os.path.join(wt, os.path.dirname(changed[0]), fn)
            if dest:
                os.makedirs(os.path.dirname(dest), exist_ok=True)
                shutil.copy(p, dest)
                placed.append(os.path.relpath(dest, wt))
    result["demo_files"] = placed
    if demo_cmd:
        # the demo files are already placed: drop a leading "cp demo/... &&"
        demo_cmd = re.sub(r"^\s*cp\s+\S+\s+\S+\s*&&\s*", "", demo_cmd)
        demo_cmd = demo_cmd.split("#")[0].strip()
        cmd = demo_cmd.replace("/tmp/seed-%s" % pid.lower(), wt)
        cmd = re.sub(r"cd\s+\S+\s*&&\s*", "", cmd) if "cd " in cmd and wt not in cmd else cmd
        rc1, out1 = run(cmd, cwd=wt, timeout=1800)
        result["demo_fails_with_change"] = rc1 != 0
        # without the change
        run(["git", "checkout", "--"] + changed, cwd=wt)
        rc2, out2 = run(cmd, cwd=wt, timeout=1800)
        result["demo_passes_without"] = rc2 == 0
        rc3, out3 = run(["git", "apply", patch], cwd=wt)
        if rc3 != 0:
            print("SEED %s%s: could not re-apply the patch: %s" % (pid, which, out3))
            sys.exit(3)
        result["demo_cmd_used"] = cmd
        if rc1 == 0:
            print("SEED %s%s: demo does not fail with the change:\n%s" % (pid, which, out1[-1500:]))
        if rc2 != 0:
            print("SEED %s%s: demo does not pass without the change:\n%s" % (pid, which, out2[-1500:]))
    # remove the demo files before running the check (they are not part of the change)
    for rel in placed:
        try:
            os.remove(os.path.join(wt, rel))
        except OSError:
            pass

    rcd, outd = run("git diff --stat", cwd=wt)
    result["diff_stat_at_check"] = outd.strip().splitlines()[-1] if outd.strip() else "EMPTY"
    if result["build_ok"]:
        rc, out = run(["/verif/check", pid, "--tier", tier], cwd="/verif", timeout=4 * 3600, extra_env={"VERIF_REPO": wt})
        result["check_exit"] = rc
        result["detected"] = rc == 1
        lines = [l for l in out.splitlines() if "failed after" in l or "VIOLATION" in l or l.startswith("--- FAIL")]
        result["check_output_excerpt"] = lines[:8]
        if rc == 2:
            print("SEED %s%s: check inconclusive:\n%s" % (pid, which, "\n".join(out.splitlines()[-25:])))
finally:
    subprocess.run(["git", "-C", "/repo", "worktree", "remove", "--force", wt], capture_output=True)
    subprocess.run(["git", "-C", "/repo", "worktree", "prune"], capture_output=True)

confirmed = all(result[k] for k in ("build_ok", "existing_tests_pass", "demo_fails_with_change", "demo_passes_without"))
result["confirmed"] = confirmed
print("SEED %s%s confirmed=%s detected=%s (check exit %s, tier %s, diff at check: %s)" % (pid, which, confirmed, result["detected"], result["check_exit"], tier, result.get("diff_stat_at_check")))
for l in result.get("check_output_excerpt", [])[:4]:
    print("   ", l[:300])

if store and confirmed:
    dst = "/verif/seeded/%s%s" % (pid, which)
    if os.path.abspath(src) != os.path.abspath(dst):
        shutil.rmtree(dst, ignore_errors=True)
        shutil.copytree(src, dst)
    meta_out = dict(meta)
    runs = meta_out.get("verif_runs", [])
    runs.append(result)
    meta_out["verif_runs"] = runs
    meta_out["confirmed_by_coordinator"] = confirmed
    meta_out["detected_by_check"] = any(r.get("detected") for r in runs)
    with open(os.path.join(dst, "meta.json"), "w") as f:
        json.dump(meta_out, f, indent=1)
