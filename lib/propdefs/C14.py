"""C14 check configuration (three parts: lease database, filter lists, configuration file)."""

PROP = {
    "level": "fault_enumeration",
    "technique": "generated save sequences (rapid) observed at kernel level: inotify event history per save enumerates "
                 "the crash points; strace syscall-order oracle for durability; concurrent reader sampling",
    "level_text": "For each of the three kinds of file the real writers run on generated content (0 B to MBs in quick, "
                  "tens of MB in thorough; 1-6 successive saves incl. unchanged content): dhcpd writeDB (the function "
                  "every lease store goes through) and the one-shot legacy migration; the filter-list refresh path "
                  "(tryRefreshFilters against a local list server; a quarter of the later refreshes is an interrupted "
                  "download -- full Content-Length announced, connection dropped at a drawn offset -- after which the "
                  "stored list must be the complete previous version); configuration.write (also through "
                  "onConfigModified, the path every API change takes) and the rewrite after a schema upgrade "
                  "(parseConfig). An inotify watch on the destination directory and on the staging directory records "
                  "the complete event history of every save; the crash points are the gaps between events, and the "
                  "destination name may only ever see MOVED_TO (plus attribute changes): any MODIFY / CLOSE_WRITE / "
                  "CREATE / DELETE / MOVED_FROM on it means some crash point shows an empty, truncated, mixed or "
                  "missing file. After each save the content is the new version and no temporary file survives. "
                  "Per file kind a traced child (strace) shows that every rename onto the destination is preceded by "
                  "an fsync of the renamed file after its last write and that the destination is never opened for "
                  "writing. Reader goroutines re-read the path during the saves and must only ever see saved versions."
                  " Overlapping stores of the lease database (2-4 writers; differential against undisturbed stores) and overlapping configuration saves (savers mark both ends of the file; a judging reader) are run under the same inotify oracle.",
    "level_note": "Crash model: rename is atomic, data not fsynced may be lost or partial; the kernel and the file "
                  "system are trusted (no power is cut). inotify events are queued inside the causing syscall, so the "
                  "history is complete and schedule-independent. Lease stores are exercised at writeDB (dbStore only "
                  "collects the leases before calling it).",
    "parts": [
        {"name": "leasedb", "pkg": "internal/dhcpd", "files": ["dhcpd/c14_db_test.go"],
         "tests": [("TestVFC14LeaseDB", (150, 400)), ("TestVFC14LeaseMigration", (60, 200)),
                   ("TestVFC14LeaseDBConcurrent", (60, 250))],
         "plain": ["TestVFC14LeaseDBSyscalls"]},
        {"name": "filterlist", "pkg": "internal/filtering", "files": ["filtering/c14_list_test.go"],
         "tests": [("TestVFC14FilterList", (40, 150)), ("TestVFC14LargeList", (2, 4), {"shards": (2, 4), "thorough_scale": 1})],
         "plain": ["TestVFC14FilterListSyscalls"]},
        {"name": "config", "pkg": "internal/home", "files": ["home/common_assembly_test.go", "home/c14_config_test.go"],
         "tests": [("TestVFC14ConfigWrite", (40, 120)), ("TestVFC14ConfigUpgrade", (60, 150)),
                   ("TestVFC14ConfigConcurrent", (30, 150))],
         "plain": ["TestVFC14ConfigSyscalls"]},
        # the process runs into its file-size limit during one save (the limit is in force for that call only, but for
        # the whole process: a process of its own)
        {"name": "config_nospace", "pkg": "internal/home",
         "files": ["home/common_assembly_test.go", "home/c14_config_test.go", "home/c14_nospace_test.go"],
         "tests": [("TestVFC14ConfigNoSpace", (40, 160))]},
    ],
    "shards": (1, 16),
    "workers": (4, 16),
    "timeout": (900, 7200),
    "rule": "evaluations = saves observed (+ renames checked in the syscall traces); the class crash_points is the number "
            "of enumerated crash points (event gaps) over all saves. Non-trivial = a save that replaces existing, "
            "different content (or a migration / upgrade rewrite); distinct = (file kind, previous content, new "
            "content size/generation, position in the sequence).",
    "assumptions": ["rename(2) is atomic; data is durable only after fsync; the kernel reports every event through inotify",
                    "strace reports the syscalls of all threads of the child (-f)"],
    "require_classes": {"thorough": ["leasedb:replace_different", "leasedb:overlapping_stores", "config:overlapping_saves", "filterlist:replace_different", "config:replace_different",
                                      "config:upgrade_rewrite", "leasedb:migration", "leasedb:syscall_checked_renames",
                                      "filterlist:syscall_checked_renames", "config:syscall_checked_renames"]},
}
