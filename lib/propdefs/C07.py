"""C07 check configuration (see lib/props.py for the field meanings)."""

PROP = {
    "pkg": "internal/querylog",
    "files": ["querylog/c07_model_test.go", "querylog/c07_machine_test.go", "querylog/c07_props_test.go"],
    "level": "exploration",
    "technique": "TODO",
    "level_text": "TODO",
    "level_note": "TODO",
    "tests": [
        ("TestVFC07History", (100, 1000), {"steps": 30}),
        ("TestVFC07Layout", (100, 1000)),
        ("TestVFC07Params", (100, 1000)),
        ("TestVFC07StoredLine", (1000, 10000)),
    ],
    "plain": ["TestVFC07RegressCursor", "TestVFC07RegressBounds"],
    "shards": (4, 16),
    "workers": (4, 16),
    "rule": "TODO",
    "assumptions": [],
    "claimed": False,
}
