"""C07 check configuration (see lib/props.py for the field meanings)."""

PROP = {
    "level_text_more": "The part 'home' runs the whole program (the histories of the C09 part of that name: real installation, real DNS server, queries over UDP, POST /control/dns_config restarts of which some fail and leave the server stopped, production cleanup()): every entry GET /control/querylog listed before the clean shutdown must be in querylog.json(.1) afterwards. Client names of several words are searched for by lower-case words, and TestVFC07RegressLongRecord pages through files holding one record of generated size (11-48 KB answer) at a generated position: records above the reader's 16 KiB entry size are a listed open finding.",
    "thorough_scale": 4,
    "level": "exploration",
    "technique": "property-based testing (rapid): a state machine over record / flush / rotate / clear / settings "
                 "change / restart against a reference model of the retained entries; every read goes through the "
                 "registered handler of GET /control/querylog and is compared in both directions with the model "
                 "(expected API item built from the recorded parameters, independent reference for search terms and "
                 "response_status); metamorphic oracle (API form of an entry identical in memory, current file, "
                 "rotated file and after restart); constructed memory/file/rotated-file layouts read with every page "
                 "size by cursor and by offset; hostile-parameter crash oracle; round trip of the stored line through "
                 "the hand-written decoder",
    "level_text": "Generated histories (about 30 steps) of Add, shutdown-style flush, rotation (direct and through the "
                  "rotation check), clear and settings changes over HTTP, restart on the same directory with another "
                  "memory size (0, 1, 2-9, 20-50), memory-only mode; entries of every filtering reason with 0-3 rules "
                  "(negative list ids, host-style rules with addresses), $dnsrewrite payloads (A/AAAA/PTR/MX/TXT/SRV, "
                  "bare RCODE, empty), CNAME / address-list rewrites, blocked-service names, all client protocols, "
                  "cached/AD flags, ECS, ClientID, IDN names, mixed-case wire names, the root name, real dns.Msg "
                  "answers and original answers, timestamps owned by the model (gaps 1 ns .. 25 h, changing UTC "
                  "offsets). After every step one large read must return exactly the retained entries, once each, "
                  "newest first, each item equal to the form expected from the recorded parameters and to the form seen "
                  "at any earlier time; the log files must hold exactly the lines the model places there. Drawn and "
                  "systematic reads: every page size 1..n+1 by the returned older_than cursor (followed until the API "
                  "reports no older entries) and by offset/limit, with and without search (substring, quoted exact, "
                  "Unicode IDN labels, punycode, ClientID, client name, address) and all ten response_status values; "
                  "pages must add up to the unpaged sequence. Hostile limit / offset / older_than / search / "
                  "response_status values and malformed query strings must give 200 or 400 without a panic, and a 200 "
                  "answer must be sound. Exploration: no absence claim."
                  " One action clears the log right after the queries that filled the memory buffer, before the flush they started can run; a flush flag that never clears afterwards is a failure.",
    "level_note": "White-box only to drive: Add is called with the flush lock held so that the model's instant replaces "
                  "time.Now() before anything can read the entry, and a flush started by Add is awaited before the next "
                  "step (the excluded 'flush pending' window is never entered; the number of awaited flushes is "
                  "reported). All verdicts are taken at the HTTP JSON and at the bytes of querylog.json(.1), except the "
                  "stored-line test, which calls the decoder directly. Weakened to stated validity predicates: "
                  "older_than values that are not a returned cursor (only soundness: returned entries are retained, "
                  "older than the value, in order); client_info next to an anonymised address and null-vs-absent "
                  "client_info; response_status for reason/IsFiltered pairs the filtering module does not produce; "
                  "whether 'processed' covers safe browsing / parental / safe search / invalid; ASCII search terms "
                  "holding a partial 'xn--' label; negative limit/offset (200 or 400 accepted). Not covered: ignored "
                  "hosts and per-client ignore flags at read time (C08), lines of 16 KiB and more (C20), the 50000-line "
                  "scan limit of unfiltered cursor reads, concurrent readers/writers (C05), host names holding a quote or a "
                  "backslash.",
    "parts": [
        {"name": "querylog", "pkg": "internal/querylog",
         "files": ["querylog/c07_model_test.go", "querylog/c07_machine_test.go", "querylog/c07_props_test.go", "querylog/c07_budget_test.go", "querylog/c07_longline_test.go"],
         "tests": [
             ("TestVFC07History", (80, 400), {"steps": 30}),
             ("TestVFC07Layout", (80, 400)),
             ("TestVFC07Params", (300, 2000)),
             ("TestVFC07StoredLine", (1500, 15000)),
             ("TestVFC07RegressLongRecord", (40, 150), {"shards": (1, 4)}),
         ],
         "plain": ["TestVFC07RegressCursor", "TestVFC07RegressBounds", "TestVFC07RegressEscaped", "TestVFC07ScanBudget"]},
        # the whole program (written for C09): installation, real DNS server, dns_config restarts (some failing),
        # production cleanup(); one history per process
        {"name": "home", "pkg": "internal/home",
         "files": ["home/common_assembly_test.go", "home/c11_test.go", "home/c11_raw_test.go", "home/c11_shutdown_test.go",
                   "home/c11_install_test.go", "home/c09_home_test.go"],
         "tests": [("TestVFC07HomeShutdown", (1, 1), {"shards": (8, 32), "shrinktime": "0s", "thorough_scale": 1})]},
    ],
    "shards": (4, 16),
    "workers": (4, 16),
    "timeout": (900, 3600),
    "rule": "One evaluation = one generated case: a history (state machine, ~30 steps, with the full-read and file "
            "invariant after every step and drawn filtered / paged reads), a constructed layout (0-6 entries each in "
            "rotated file, current file and memory, optional restarts, then every page size by cursor and by offset "
            "plus drawn filters and all status values), a hostile-parameter case (0-10 entries, 4-12 requests) or one "
            "stored line. Non-trivial = a paged read (>= 2 pages) whose sequence spans at least two of memory / "
            "current file / rotated file and in which a page border falls on a storage boundary or a page straddles "
            "one, distinct by (layout sizes, cursor|offset, page size, filter kind); a request with at least one "
            "hostile parameter value, distinct by (layout, query string); a stored line carrying rules, a rewrite "
            "payload, a canonical name, an address list or a service name, distinct by the line. Classes count the "
            "individual requests and boundary kinds.",
    "assumptions": [
        "miekg/dns packs/unpacks and prints resource records correctly (the expected 'value' texts are the "
        "presentation forms the records were built from)",
        "encoding/json, net, time and x/net/idna are trusted (decoding API answers and stored lines, IDNA forms of terms)",
        "the query log compares stored instants only with each other and with older_than, so replacing the "
        "time.Now() stamp of an entry right after Add is equivalent to running at that instant; the only clock "
        "comparison (rotation due) is made deterministic by placing all entries years in the past",
        "a flush started by Add finishes within 20 s (else the run is inconclusive, never a violation)",
    ],
    "env": {"GOGC": "1000"},
    "require_classes": {"thorough": [
        "history:rotation", "history:rotation_ages_out_entries", "history:restart", "history:clear",
        "history:logging_disabled_for_a_while", "history:memory_only", "history:mem_size_0",
        "history:final_locations=3", "layout:locations=3",
        "paged_cursor:page_border_on_memory/file_boundary", "paged_cursor:page_border_on_file/rotated_boundary",
        "paged_cursor:page_border_on_memory/rotated_boundary", "paged_cursor:page_straddles_boundary",
        "paged_offset:page_border_on_memory/file_boundary", "paged_offset:page_straddles_boundary",
        "nontrivial:filtered_paged_read_across_boundary", "nontrivial:paged_read_across_memory_file_and_rotated_file",
        "metamorphic:same_form_memory->file", "metamorphic:same_form_file->rotated",
        "filter:idn_unicode_labels", "filter:idn_unicode_exact", "filter:clientname_substring", "filter:clientid_exact",
        "filter:ip_exact", "filter:host_exact", "filter:status_only",
        "params:hostile_limit", "params:hostile_offset", "params:hostile_older_than", "params:hostile_search",
        "params:status_200", "params:status_400",
        "stored_line:dnsrewrite_payload", "stored_line:several_rules",
    ]},
}
