"""C12 check configuration."""

PROP = {
    "level_text_more": "Bursts of parallel wrong Basic attempts from one address are part of the HTTP limiter histories: no more passwords may be evaluated than the limit allows (read from the limiter's failure count) and the address must be blocked afterwards.",
    "thorough_scale": 4,
    "pkg": "internal/home",
    "files": ["home/common_assembly_test.go", "home/c11_test.go", "home/c12_test.go"],
    "level": "exploration",
    "technique": "stateful property-based testing (rapid t.Repeat) of timed login / session histories against reference "
                 "models written from the statement; clock advanced by shifting stored instants",
    "level_text": "TestVFC12RateLimitHTTP: histories of failed / correct / unknown-user logins from three addresses "
                  "(IPv4, IPv6) through the real POST /control/login handler behind the real mux, with generated attempt "
                  "limit (1-5) and block duration, interleaved with clock advances (55 s, 65 s, block+-5 s, hours); "
                  "model: failures counted while the record of the first failure lives (1 min), limit reached => "
                  "blocked for the block duration, while blocked every attempt (correct password included) gets 429 "
                  "with a sane Retry-After and creates no session, a success before the limit clears the count. "
                  "TestVFC12RateLimitModel: the same model against the limiter's methods with an explicit clock, "
                  "long histories, ms-granular advances. TestVFC12Sessions: login / use / logout / advance / restart "
                  "(close + reopen of sessions.db) histories with generated TTL; envelope oracle: a token must "
                  "authenticate while not logged out and younger than the TTL, must not when logged out, never issued "
                  "or unused for >= TTL; in between (daily refresh granularity) either. Login attempts carry forged "
                  "X-Real-IP / X-Forwarded-For / CF-Connecting-IP / True-Client-IP headers naming trusted-proxy addresses "
                  "(the default trusted proxies are configured): throttling stays per TCP peer. TestVFC12LogoutRace: "
                  "requests using a cookie race with its logout (through the mux and with the handler invoked directly) "
                  "while the stored expiry is a day stale (refresh-store path); after logout and restart the token must "
                  "not authenticate."
                  " Bursts of wrong logins from up to 1100 other addresses are part of the HTTP limiter histories, and so are "
                  "credentials presented as HTTP Basic with an API request (wrong ones count as failed logins, a "
                  "blocked address is refused whatever it presents, correct ones clear the count).",
    "level_note": "Time is advanced by moving stored instants back (limiter records, session expiries incl. the bbolt "
                  "records). Clock advances are kept >= 3 s (HTTP) / 1 ms (explicit clock) away from record boundaries "
                  "because the statement does not decide the boundary instant. bcrypt uses minimum-cost hashes.",
    "tests": [
        ("TestVFC12RateLimitHTTP", (300, 1200)),
        ("TestVFC12RateLimitModel", (20000, 100000)),
        ("TestVFC12Sessions", (300, 1200)),
        ("TestVFC12LogoutRace", (25, 120)),
    ],
    "shards": (2, 16),
    "workers": (4, 16),
    "rule": "evaluations = login attempts / token uses judged. Non-trivial = limiter history that reaches the limit and "
            "then tries a correct password while blocked or crosses the end of the block; session history that uses a "
            "token after its expiry, or restarts and uses a logged-out token; distinct = full history trace.",
    "assumptions": ["shifting stored instants is equivalent to advancing the clock (the code only compares stored "
                    "instants with time.Now())"],
    "require_classes": {"thorough": ["limiter:correct_password_while_blocked", "limiter:block_elapsed",
                                      "limiter:success_clears_count", "session:used_after_expiry", "session:restart"]},
}
