"""C04 check configuration (see lib/props.py for the field meanings)."""

PROP = {
    "level_text_more": "In the HTTP part identifiers are compared by what they denote when the program reads them (address, network, hardware address, ClientID), hardware addresses of 8 and 20 bytes are in the vocabulary, and a client is sent back with its identifiers as listed (what the web interface does when another setting changes); in the 'effective' part source addresses also arrive in IPv4-mapped form.",
    "parts": [
        {"name": "storage", "pkg": "internal/client", "files": ["client/c04_model_test.go",
        "client/c04_machine_test.go",
        "client/c04_precedence_test.go",],
         "tests": [("TestVFC04Machine", (1000, 3500), {"steps": 40, "shards": (3, 16)}),
                   ("TestVFC04Precedence", (6000, 25000), {"shards": (1, 16)})]},
        {"name": "http", "pkg": "internal/home", "files": ["home/common_assembly_test.go", "home/c04_http_test.go"],
         "tests": [("TestVFC04HTTP", (250, 1000), {"steps": 30, "shards": (1, 8)})]},
        {"name": "effective", "pkg": "internal/dnsforward", "files": ["dnsforward/common_world_test.go", "dnsforward/c01_test.go", "dnsforward/c03_test.go", "dnsforward/c04_effective_test.go"],
         "tests": [("TestVFC04EffectiveSettings", (600, 4000), {"shards": (2, 16)})]},
    ],
    "level": "exploration",
    "technique": "property-based testing (rapid): stateful machine over client.Storage against a reference model "
                 "of the registry; constructive precedence cases for ApplyClientFiltering",
    "level_text": "Generated histories of add / update (rename, drop, add, move identifiers) / remove / DHCP lease "
                  "change / reload-from-own-content over a small colliding vocabulary (IPs incl. zoned and IPv4-mapped, overlapping CIDRs, "
                  "MACs of 6/8/20 bytes, ClientIDs); after every step the registry dump, every lookup by name, "
                  "identifier and address, and the effective settings of requests are compared with a reference "
                  "model written from the statement; operations must be accepted exactly when they share no name "
                  "or identifier with another client and rejected ones must change nothing. Separately, "
                  "registries built so that the owner of a request is known by construction (nested networks at "
                  "arbitrary prefix lengths, decoys, exact address, ClientID, lease MAC; drawn insertion order). "
                  "The part 'effective' (package dnsforward) decides the second sentence of the statement on real "
                  "requests: global and per-client filtering / safe browsing / parental control (checker doubles) / "
                  "blocked services with pause schedules, clients known by IP, CIDR, lease MAC and ClientID; a request "
                  "must be blocked exactly when the level in force (own iff opted out of the global one) blocks it. "
                  "Exploration: no absence claim.",
    "level_note": "Sequential behaviour only; concurrency is C05's subject. Safe search per client is not "
                  "part of the 'effective' part. Trusts net/netip for "
                  "network containment.",
    "plain": [],
    "shards": (2, 16),
    "workers": (4, 16),
    "rule": "One evaluation = one generated history (TestVFC04Machine; about 40 operations, every one followed by "
            "the full sweep of lookups) or one constructed registry with its requests (TestVFC04Precedence). "
            "A history is non-trivial if it contains an accepted update that drops or moves an identifier, or an "
            "operation rejected because of a shared name/identifier, or a request decided by CIDR specificity "
            "among networks of different clients or by the DHCP lease's MAC; a precedence case is non-trivial if "
            "at least two precedence levels have a candidate, or at least two stored networks contain the address, "
            "or the lease's MAC decides. "
            "Distinct = FNV-64 of the full operation sequence with outcomes, resp. of (request, registry).",
    "assumptions": [
        "net/netip decides network containment and address identity (zones, IPv4-mapped) correctly",
        "the DHCP double answers MACByIP from the same lease map as the model",
        "where the statement is silent (two clients spelling the same network with different host bits; a zoned "
        "or IPv4-mapped address vs its plain form; an 8-byte MAC spelled with colons, which is also an IPv6 "
        "address) either reading is accepted and the case is counted as ambiguous",
    ],
    "require_classes": {
        "thorough": [
            "nontrivial:dropped_identifier", "nontrivial:moved_identifier", "nontrivial:rejected_clash",
            "nontrivial:cidr_specificity", "nontrivial:dhcp_mac",
            "decide:clientid", "decide:ip", "decide:cidr", "decide:dhcp_mac", "decide:none",
            "settings:own", "settings:global", "settings:own_blocked_services", "settings:global_blocked_services",
            "precedence:decided_by_clientid", "precedence:decided_by_ip", "precedence:decided_by_cidr",
            "precedence:decided_by_dhcp_mac", "precedence:decided_by_none",
        ],
    },
}
