"""C18 check configuration (see lib/props.py for the field meanings)."""

PROP = {
    "thorough_scale": 4,
    "parts": [
        {"name": "schedule", "pkg": "internal/schedule", "files": ["schedule/c18_test.go"],
         "tests": [("TestVFC18Contains", (4000, 40000)), ("TestVFC18FullAndEmptyDay", (300, 2500)),
                   ("TestVFC18RoundTrip", (3000, 20000)), ("TestVFC18Validation", (5000, 40000))],
         "plain": ["TestVFC18Regress"]},
        {"name": "services", "pkg": "internal/dnsforward",
         "files": ["dnsforward/common_world_test.go", "dnsforward/c01_test.go", "dnsforward/c18_services_test.go"],
         "tests": [("TestVFC18ServicesPause", (400, 1500)), ("TestVFC18UpdateVsRequests", (20, 60))], "shards": (2, 16)},
        # the schedule of a persistent client across the configuration file and a restart
        {"name": "home_clients", "pkg": "internal/home", "files": ["home/c18_clients_test.go"],
         "tests": [("TestVFC18ClientScheduleRestart", (300, 1500))], "shards": (2, 8)},
    ],
    "level": "exploration",
    "technique": "property-based testing (rapid) against a wall-clock reference model; round-trip and validity oracles",
    "level_text": "Generated (zone, schedule, instant) cases over all IANA zones of the Go tzdata with instants "
                  "concentrated at range edges, midnight and every offset transition 1970-2040, compared with a "
                  "wall-clock reference; JSON/YAML round-trip chains read back by an independent decoder; "
                  "accept/reject compared with the stated validity rule. Exploration: no absence claim, but the "
                  "input space that matters (transition days x edge instants) is covered densely."
                  " The services part also changes the global settings at run time through the deprecated (list only) and the current (list and schedule) API and compares what GET shows.",
    "level_note": "Trusts Go's time package/tzdata, encoding/json and yaml.v3. ApplyBlockedServices' use of the "
                  "schedule is exercised in C01 only for clock-free schedules.",
    "shards": (1, 16),
    "workers": (4, 16),
    "rule": "Cases: (IANA zone, weekly schedule in whole minutes, instant) with instants drawn uniformly, "
            "around range edges/midnight (incl. on transition days) and around every UTC-offset transition "
            "1970-2040 of the zone (found by bisection); whole-day walks over transition days; JSON/YAML "
            "round-trip chains; valid/invalid serialised schedules. Non-trivial = instant within 25h of an "
            "offset transition or within 1 min of a range edge/midnight; a round trip with >=1 non-empty day; "
            "an invalid serialised schedule. Distinct = FNV-64 of (zone, weekday, range, instant) resp. the "
            "schedule text.",
    "assumptions": [
        "Go's time package and embedded tzdata give the correct wall clock of an instant in a zone (reference oracle)",
        "encoding/json and yaml.v3 are trusted for decoding the marshalled form independently",
    ],
    "require_classes": {"thorough": ["nontrivial:near_transition", "nontrivial:edge", "validation:invalid"]},
}
