"""C01 check configuration."""

PROP = {
    "level_text_more": 'The services that can be blocked include one whose rules are restricted by query type (amazon: ||amazonaws.com^$dnstype=~CNAME); lists are also added and removed through the API at run time.',
    "thorough_scale": 4,
    "pkg": "internal/dnsforward",
    "files": ["dnsforward/common_world_test.go", "dnsforward/c01_test.go", "dnsforward/c01_runtime_test.go"],
    "level": "exploration",
    "technique": "property-based testing (rapid): generated rule configurations x queries through the production "
                 "request path with a recording upstream; constructive oracle + reference arrangement of the "
                 "trusted rule library; blocking-mode response table",
    "level_text": "Each case builds a real filtering.DNSFilter (lists loaded from files through the production "
                  "path, allow lists, custom rules, blocked services, a persistent client in a real client.Storage) "
                  "and a prepared dnsforward.Server, then sends generated queries through HandleBefore + "
                  "handleDNSRequest (and, in TestVFC01Wire, over real UDP/TCP sockets through dnsproxy). Both "
                  "directions are asserted: blocked => no upstream question at all, no upstream data, the "
                  "blocking-mode response table (A/AAAA exact, other qtypes validity); not blocked => exactly one "
                  "upstream question and the upstream answer, question, id and rcode intact. TestVFC01Runtime "
                  "additionally changes the configuration of a running server through the admin API between query "
                  "phases (lists switched off and on again, lists given another source -- also one that yields no "
                  "rules --, list sources rewritten by their publisher and then refreshed through the API or read "
                  "again when the list is switched on, set_rules, filtering/config, protection on/off/pause through "
                  "/control/protection and through /control/dns_config (also during a pause), blocking mode, blocked "
                  "services, updates of the persistent client's settings, the DNS response cache on or off) and checks every phase against the model "
                  "of the configuration then in force; since the engines are rebuilt in the background a deviating "
                  "outcome is retried for 4 s before it counts. Exploration level: "
                  "thousands of configurations, no absence claim.",
    "level_note": "Rule-matching semantics of urlfilter are trusted (fresh engines built by the harness give the "
                  "reference verdict; for the core grammar an independent matcher written from the documented syntax "
                  "must agree). Schedules of blocked services are only the two clock-free ones (empty, full week).",
    "tests": [
        ("TestVFC01Verdict", (300, 1500)),
        ("TestVFC01Wire", (40, 200)),
        ("TestVFC01Runtime", (150, 900)),
    ],
    "shards": (2, 16),
    "workers": (4, 16),
    "rule": "Case = one query against a generated configuration (0-3 block lists, 0-2 allow lists, 0-6 custom rules "
            "from ||d^, d, 'IP d', @@||d^, *.d, |d^ with $important/$dnstype/$client/$denyallow; 5 blocking modes; "
            "protection on/off/paused-until-future/paused-until-past; global filtering on/off; blocked services "
            "active/paused; optional persistent client by IP/CIDR/ClientID with own settings/own services); query "
            "name derived from a rule domain (equal/sub/subsub/super/sibling/lookalike, mixed case), 9 qtypes. "
            "evaluations = queries. Non-trivial = expected verdict is blocked, or allowed by allow list / "
            "exception; distinct = (rule-kind set, verdict class, qtype, mode, protection, client class).",
    "assumptions": [
        "urlfilter (rule matching) and miekg/dns are trusted",
        "queries are injected at dnsproxy's BeforeRequestHandler/RequestHandler boundary except in TestVFC01Wire",
        "the pause-until instants are 6h away from the wall clock (the only wall-clock dependence)",
    ],
    "require_classes": {"thorough": ["verdict:network", "verdict:hosts", "verdict:service", "verdict:allowlist",
                                      "verdict:exception", "wire:verdict:network",
                                      "rt:verdict:network", "rt:list_off_then_on_again", "rt:op:set_rules",
                                      "rt:op:protection", "rt:op:mode", "rt:op:services",
                                      "rt:op:repoint_block", "rt:op:refresh", "rt:repoint_block:accepted:rules=0",
                                      "rt:protection_via_dns_config"]},
}
