"""C19 check configuration (see lib/props.py for the field meanings)."""

PROP = {
    "thorough_scale": 4,
    "pkg": "internal/filtering/hashprefix",
    "files": ["filtering/hashprefix/c19_kit_test.go", "filtering/hashprefix/c19_test.go"],
    "level": "exploration",
    "technique": "property-based testing (rapid): independent parent-enumeration/verdict reference model against a "
                 "recording lookup-service double backed by a generated hash database; stateful histories over one "
                 "cache with clock advance by state shift, eviction, upstream failures and database changes",
    "level_text": "Generated host names (1-8 labels; ICANN one/two/three/four-label, wildcard and exception "
                  "suffixes, private and unlisted suffixes, IDN, numeric, mixed case through "
                  "filtering.DNSFilter.CheckHost with both services) against generated lookup-service databases "
                  "(own parents' hashes, excluded suffixes and too-deep parents, distinct hashes sharing a 2-byte "
                  "prefix found by brute force, non-lower-case hex, ten kinds of malformed TXT strings derived from "
                  "the own hashes, several TXT layouts). Privacy oracle on every request the double sees (single "
                  "TXT/IN question = service suffix preceded only by the 4-hex-digit prefixes of the independently "
                  "enumerated parents; nothing of the name in the wire form; a disabled service sees nothing); "
                  "verdict oracle in both directions; cache transparency over histories of ~25 steps sharing one "
                  "cache of 0 (unlimited) to 10 bytes with entries expiring or ageing, failures and database "
                  "changes. A failure of the service is either an error of the exchange or an answer with response code "
                  "SERVFAIL/REFUSED and no records; in both cases the service has revealed nothing and later checks "
                  "must not be answered from what that exchange left in the cache. Exploration: no absence claim; the input space that matters (suffix kind x depth x "
                  "what the database holds for an asked prefix x cache state) is small and covered densely.",
    "level_note": "Trusts crypto/sha256, encoding/hex, miekg/dns and x/net/publicsuffix (the latter also used by "
                  "the code under test: a wrong public-suffix table would be invisible). The clock is advanced by "
                  "rewriting the stored expiry of cache entries (DESIGN 3.4). The real upstream transport "
                  "(DoH bootstrap in home.go) is not exercised; the double returns exactly the hashes whose prefix "
                  "was asked, as the real service does.",
    "tests": [
        ("TestVFC19Question", (20000, 150000)),
        ("TestVFC19CheckHost", (5000, 40000)),
        ("TestVFC19CacheHistory", (20000, 120000)),
    ],
    "plain": ["TestVFC19RegressSmallCache"],
    "shards": (1, 16),
    "workers": (4, 16),
    "rule": "Evaluations = generated cases: (host, database, TXT suffix) for a fresh checker; (mixed-case host, two "
            "databases, settings) through DNSFilter.CheckHost; histories (2-9 related hosts incl. names whose hash "
            "collides in the first 2 bytes with a parent of another, database, cache size, ~25 steps of check / "
            "expire or age one or all prefixes / database change / flip an own hash + expire + recheck / upstream "
            "failure; one evaluation per history, the number of checks is the class history:checks). Non-trivial = "
            "(history) a later name shares a 2-byte prefix with an earlier, different name and their verdicts "
            "differ (class history:nontrivial, via a distinct hash: history:nontrivial_via_collision); (fresh "
            "question) the database holds a hash under a prefix that is asked; (CheckHost) a mixed-case name with at "
            "least one parent and an enabled service. Distinct = FNV-64 of the host(s), database description, "
            "cache size and step trace.",
    "assumptions": [
        "x/net/publicsuffix gives the ICANN/private public suffix of a name (used by the reference enumeration)",
        "the lookup service returns exactly the full hashes of its database whose 2-byte prefix is among the labels "
        "asked, plus possibly malformed strings (no hashes for prefixes that were not asked)",
        "an ICANN suffix below a private or unlisted public suffix (\"org\" for foo.dyndns.org) may or may not be "
        "looked up: the statement excludes ICANN suffixes, the repository's own tests expect it to be hashed; "
        "verdicts that depend only on such a hash, or only on a non-lower-case hex spelling of an own hash, are "
        "counted as ambiguous and not asserted",
        "after a database change, a verdict may follow an answer that is still cached and not expired; once the "
        "entries are expired the verdict must be the fresh one",
    ],
    "require_classes": {"thorough": [
        "history:nontrivial_via_collision", "history:expiry_decides_verdict", "history:partial_lookup",
        "history:answered_from_cache", "question:cut_to_four_labels", "question:ambiguous_icann_under_private",
        "question:host_icann_wildcard", "question:host_private", "db:malformed_txt", "db:collision_name",
        "checkhost:mixed_case", "checkhost:verdict_parental",
    ]},
}
