"""C19 check configuration (see lib/props.py for the field meanings)."""

PROP = {
    "pkg": "internal/filtering/hashprefix",
    "files": ["filtering/hashprefix/c19_kit_test.go", "filtering/hashprefix/c19_test.go"],
    "level": "exploration",
    "technique": "tbd",
    "level_text": "tbd",
    "level_note": "tbd",
    "tests": [
        ("TestVFC19Question", (20000, 150000)),
        ("TestVFC19CheckHost", (5000, 40000)),
        ("TestVFC19CacheHistory", (20000, 150000)),
    ],
    "plain": ["TestVFC19RegressSmallCache"],
    "shards": (1, 16),
    "workers": (4, 16),
    "rule": "tbd",
    "assumptions": [],
    "claimed": False,
}
