"""C03 check configuration."""

PROP = {
    "level_text_more": 'Blocked-host rules include regular expressions with classes written in upper case (\\\\D), and the networks include IPv4 networks spelled in IPv4-mapped form (::ffff:192.0.2.0/120).',
    "thorough_scale": 4,
    "pkg": "internal/dnsforward",
    "files": ["dnsforward/common_world_test.go", "dnsforward/c01_test.go", "dnsforward/c03_test.go"],
    "level": "exploration",
    "technique": "property-based testing (rapid): generated access lists x requests against a reference decision model "
                 "written from the statement; socket-level end-to-end layer with side-effect snapshots",
    "level_text": "TestVFC03Decision: lists (IPs, CIDRs of many prefix lengths incl. /0 /31 /32 /127 /128, ClientIDs, "
                  "blocked-host patterns) installed through the production Prepare and then replaced up to two times "
                  "through the POST /control/access/set handler while the same server keeps serving (clients seen "
                  "before a change come back after it); requests over all six protocols (TLS/QUIC/DoH doubles "
                  "carrying the ClientID in SNI or path, zoned link-local addresses) go through HandleBefore; the "
                  "outcome must equal the model: admitted => nil; excluded => plain error (no response) for "
                  "UDP/DNSCrypt, BeforeRequestError carrying a bare REFUSED for the others. TestVFC03Wire: a started "
                  "server with real query log, statistics and upstream double; clients bind generated 127.x source "
                  "addresses; excluded => no datagram / REFUSED over TCP and upstream log, query log and statistics "
                  "unchanged; admitted => served, logged and counted exactly once."
                  " Servers without a configured server name (only the DoH path carries a ClientID) are part of the draw, and the blocked-hosts list of the model is the one GET /control/access/list reports after start-up (defaults included). The vocabulary holds the same client in several spellings: IPv4 and 4-in-6 (::ffff:a.b.c.d) peers against IPv4 and mapped entries and networks, zoned link-local peers against zone-less entries, ClientID entries written with capitals against the lower-cased ClientID of the request; the model compares canonical forms.",
    "level_note": "A zoned client address against exact-address entries and unanchored host patterns ('*.d', '|d^') on "
                  "names the statement does not decide are tagged ambiguous and not asserted (counted in evidence). "
                  "4-in-6 client addresses never reach the hook (dnsproxy unmaps them) and are not generated. The UDP "
                  "silence check waits 250 ms: a later reply would be missed (can only hide a violation).",
    "tests": [
        ("TestVFC03Decision", (1500, 6000)),
        ("TestVFC03Wire", (60, 250)),
    ],
    "shards": (2, 16),
    "workers": (4, 16),
    "rule": "evaluations = access decisions checked. Non-trivial = the decision differs from 'everything admitted', or "
            "depends on the ClientID, or allow mode holds only ClientIDs; wire: excluded requests. Distinct = (mode, "
            "decision kind, protocol, ClientID present/decisive, zoned, installation path).",
    "assumptions": ["dnsproxy calls HandleBefore before any processing and drops/answers as its handleBefore documents "
                    "(exercised for real in TestVFC03Wire)"],
    "require_classes": {"thorough": ["want:excluded:client", "want:excluded:host", "clientid_decides", "via:http_set", "client_seen_before_lists_changed",
                                      "wire:excluded:udp", "wire:excluded:tcp", "wire:admitted:udp"]},
}
