"""C08 check configuration."""

PROP = {
    "thorough_scale": 4,
    "parts": [
        {"name": "server", "pkg": "internal/dnsforward",
         "files": ["dnsforward/common_world_test.go", "dnsforward/c01_test.go", "dnsforward/c08_test.go"],
         "tests": [("TestVFC08Ignore", (400, 1500))]},
        {"name": "home_adapters", "pkg": "internal/home",
         "files": ["home/common_assembly_test.go", "home/c08_adapters_test.go"],
         "tests": [("TestVFC08HomeAdapters", (1500, 6000))], "shards": (1, 8)},
    ],
    "level": "exploration",
    "technique": "property-based testing (rapid): constructive expectation (names built from ignore rules, clients from "
                 "flagged persistent clients) checked on every observation surface: log API, log file bytes, stats API, "
                 "stats.db bytes",
    "level_text": "Each case builds a server with the real query log, real statistics and a real client.Storage "
                  "(persistent clients keyed by IP, CIDR, DHCP MAC, ClientID with ignore-log / ignore-stats flags), "
                  "generated ignore lists for the log and for statistics (plain, ||d^, *.d, |.^, any letter case), "
                  "anonymisation on/off (in a third of the cases switched to its final value at run time through PUT "
                  "/control/querylog/config/update; in a quarter followed by a partial update through the deprecated POST "
                  "/control/querylog_config that must leave the unnamed settings in force), and sends 4-14 queries (names derived from the rule domains, mixed "
                  "case, the root, several clients, a quarter of the IPv4 clients seen through 4-in-6 addresses). It then compares, as multisets of (name, stored client address), what the "
                  "log API returns from memory, what it returns after the flush, the decoded lines of "
                  "querylog.json(.1), the stats API (totals, per-domain, per-client) and the raw bytes of stats.db "
                  "with the expectation: ignored => absent everywhere, not ignored => present exactly once; with "
                  "anonymisation on every address anywhere has its last 16/80 bits zero."
                  " Configurations may hold overlapping CIDR clients (the most specific owns an address), queries may carry a ClientID no client is registered for, and after the flush a client may be marked ignore-querylog: the log API must then hide exactly its entries (only judged without anonymisation; with it, entries whose masked address falls under a currently ignored identifier are not asserted at the API level). Names and clients can also be ignored 'for a while' or only after records were taken: records still in the memory buffer must then be hidden exactly like the ones in the files. The part 'home_adapters' runs home's ShouldLog/ShouldCount adapters (shouldLogClient, shouldCountClient) against a real registry including clients identified by zoned link-local addresses, which dnsforward reports without their zone.",
    "level_note": "The two adapter functions of internal/home/clients.go (findMultiple, shouldCountClient) cannot be "
                  "imported into dnsforward; the server part restates them (FindLoose / Find over the real storage) and "
                  "the home_adapters part checks the real ones against the same ownership model. Wildcard rules on "
                  "names that merely contain the pattern are tagged ambiguous. Changing the ignore list while entries "
                  "are in memory is not asserted.",
    "shards": (2, 16),
    "workers": (4, 16),
    "rule": "evaluations = queries sent. Non-trivial = configuration with >=1 ignored and >=1 fully recorded query; "
            "distinct = (configuration, per-query class and expectation). Classes track client kind x anonymisation.",
    "assumptions": ["home's client adapters behave as restated in the harness (FindLoose/Find based)",
                    "requests injected at the dnsproxy handler boundary"],
    "require_classes": {"thorough": ["client:ip/anonymize=true", "client:cidr/anonymize=true", "client:mac/anonymize=true",
                                      "client:clientid/anonymize=true", "checked:file_bytes", "checked:stats_db_bytes"]},
}
