"""C05 check configuration."""

PROP = {
    "level_text_more": "The part 'home' runs the modules wired the way home wires them (the real assembly of C11) under the race detector: admin calls changing filtering settings || configuration saves from background goroutines (onConfigModified, as the protection re-enable worker and the filter refresh do) || read-only endpoints || host checks.",
    "thorough_scale": 2,
    "race": True,
    "parts": [
        {"name": "server", "pkg": "internal/dnsforward",
         "files": ["dnsforward/common_world_test.go", "dnsforward/c01_test.go", "dnsforward/c05_test.go",
                   "dnsforward/c05_pause_test.go"],
         "tests": [("TestVFC05Programs", (100, 400)), ("TestVFC05SafeSearchToggle", (6, 30)),
                   ("TestVFC05PauseWorkerVsAdmin", (20, 80))]},
        # the statistics module's own updater || hourly flush || reader programs (written for C09) re-run under the
        # race detector: its verdict counts for C05, its coverage counters stay with C09
        {"name": "stats", "pkg": "internal/stats", "files": ["stats/c09_seq_test.go", "stats/c09_conc_test.go"],
         "tests": [("TestVFC09Concurrent", (25, 120))], "shards": (2, 16)},
        {"name": "querylog", "pkg": "internal/querylog", "files": ["querylog/c05_qlog_test.go"],
         "tests": [("TestVFC05QueryLogPrograms", (60, 300))], "shards": (2, 16)},
        {"name": "clients", "pkg": "internal/client", "files": ["client/c04_model_test.go", "client/c05_storage_test.go"],
         "tests": [("TestVFC05ClientStoragePrograms", (60, 300))], "shards": (2, 16)},
        {"name": "dhcpd", "pkg": "internal/dhcpd", "files": ["dhcpd/c10_world_test.go", "dhcpd/c05_dhcp_test.go"],
         "tests": [("TestVFC05DHCPPrograms", (60, 300)), ("TestVFC05DHCPLastAddress", (30, 60))], "shards": (2, 16)},
        # the modules wired the way home wires them: admin calls || background configuration saves || readers
        {"name": "home", "pkg": "internal/home",
         "files": ["home/common_assembly_test.go", "home/c04_http_test.go", "home/c05_home_test.go"],
         "tests": [("TestVFC05HomePrograms", (40, 200))], "shards": (2, 16)},
    ],
    "level": "exploration",
    "technique": "generated concurrent programs (rapid) executed under the Go race detector with halt_on_error; "
                 "well-formedness of every reply; stall watchdog; program file written before execution as replay",
    "level_text": "A program = 2-6 DNS goroutines (3-25 queries each through HandleBefore + handleDNSRequest, over "
                  "UDP/TCP/DoT/DoH contexts, with and without ClientIDs) || 1-4 admin goroutines driving the real HTTP "
                  "handlers of dnsforward, filtering, rewrites, blocked services, safe search, safe browsing/parental, "
                  "query log and statistics plus client.Storage add/update/remove (24 operation kinds; mutating "
                  "operations are serialised with each other by a lock, as home's control lock does in production) || "
                  "0-2 reader goroutines (the configuration save that onConfigModified performs, and 11 read-only "
                  "endpoints) which run unserialised. Real query log (memory size 8, so flushes happen), real "
                  "statistics, real client storage, filter refresh and the protection re-enable goroutine take part; "
                  "HTTPS answers carry 24 address hints so that response filtering runs its nested per-hint lookups "
                  "while admin operations queue for the write lock. "
                  "The binary is built with -race and GORACE=halt_on_error: any reported race ends the process with "
                  "exit 66 and is a violation whose replay is the program.json written before the program ran; every "
                  "query must produce a packable response echoing id and question or be refused by the access "
                  "settings; no panic; no program may take longer than 90 s (normal: tens of ms). Every module gets "
                  "the configuration-save callback home gives it (it reads every module's configuration back, as "
                  "config.write does), so a callback invoked under a lock it needs shows as a stall. "
                  "Further parts, each its own race-enabled binary with generated programs: the statistics module "
                  "(updater || hourly flush || readers, the C09 programs); the query log (Add with memory sizes 1-1000 "
                  "|| GET /control/querylog with search and paging || config updates, legacy config, clear || flush, "
                  "rotation check, WriteDiskConfig, ShouldLog); the client registry (ApplyClientFiltering by "
                  "ClientID / address / network / MAC of the DHCP lease, Find*, Range*, runtime clients, upstream "
                  "configurations || Add / Update / RemoveByName / UpdateDHCP / UpdateAddress); the DHCP server "
                  "(DISCOVER+REQUEST, REQUEST, DECLINE, RELEASE, one goroutine per message as server4 does || "
                  "add/update/remove static lease and reset_leases through the HTTP handlers || HostByIP, IPByHost, "
                  "MACByIP, Leases, status, WriteDiskConfig), whose end state must also hold every address and "
                  "hardware address at most once. After a query-log program the records stored in the files must be in time order (the file reader searches by time). TestVFC05DHCPLastAddress lets two clients compete for the last free address (REQUEST for an offer || DISCOVER of another client, with static-lease calls in between): no address may be acknowledged to two clients, and leases.json must equal the table in memory at the end.",
    "level_note": "Schedule sampling, not schedule exploration: a missing lock is detected only if both accesses "
                  "happen in the same run. Queries enter at the dnsproxy handler boundary. DHCP configuration changes "
                  "(set_config, reset) are not driven (the statement names DHCP leases); DHCPv6 message handling is "
                  "not driven.",
    "shards": (4, 16),
    "workers": (4, 16),
    "replay_artifacts": ["program.json"],
    "rule": "evaluations = programs executed. Non-trivial = a program in which at least one mutating admin operation "
            "ran while a query was in flight (measured with in-flight counters); distinct = the program JSON. The "
            "classes overlap:<operation> count, per admin operation kind, how often it overlapped an in-flight query.",
    "assumptions": ["the Go race detector reports every race between accesses that both execute in a run",
                    "mutating admin API calls are serialised by home's control lock in production (mirrored here)"],
    "require_classes": {"thorough": ["overlap:access_set", "overlap:set_rules", "overlap:dns_config", "overlap:client_update",
                                      "overlap:rewrite_add", "overlap:blocked_services", "overlap:querylog_config",
                                      "overlap:stats_config", "overlap:refresh", "overlap:protection_pause"]},
}
