"""C13 check configuration (see lib/props.py for the field meanings)."""

PROP = {
    "pkg": "internal/configmigrate",
    "files": [
        "configmigrate/c13_model_test.go",
        "configmigrate/c13_gen_test.go",
        "configmigrate/c13_props_test.go",
        "configmigrate/c13_regress_test.go",
    ],
    "extra_overlay": {"internal/home/zz_verif_c13_load.go": "home/c13_load.go"},
    "level": "exploration",
    "technique": "tbd",
    "level_text": "tbd",
    "level_note": "tbd",
    "tests": [
        ("TestVFC13Valid", (300, 2500)),
        ("TestVFC13Shape", (700, 6000)),
        ("TestVFC13Bytes", (1500, 10000)),
        ("TestVFC13Auth", (30, 100), {"shards": (1, 8)}),
    ],
    "plain": ["TestVFC13RegressNullObject", "TestVFC13RegressNullDocument"],
    "shards": (2, 16),
    "workers": (4, 16),
    "rule": "tbd",
    "assumptions": [],
    "claimed": False,
}
