"""C13 check configuration (see lib/props.py for the field meanings).

Packaging note.  One propdef builds one package, but C13 has to observe two: configmigrate.Migrate and
the current loader of package home (type configuration, validateConfig).  The harness therefore lives in
the *external* test package configmigrate_test (files injected into internal/configmigrate as usual;
Migrate/New/Config are exported, so nothing white-box is needed), which - unlike the in-package tests -
may import internal/home.  The unexported loader is reached through a 60-line shim,
harness/home/c13_load.go, overlaid as the NON-test file internal/home/zz_verif_c13_load.go (build tag
"verif", "extra_overlay" below): VFC13Load(body) repeats the three calls parseConfig makes after the
upgrade (yaml.Unmarshal over a fresh copy of the default configuration, validateConfig,
validateTLSCipherIDs).  So the loadability clause is checked in the same rapid case that produced the
upgraded document, by the real loader, and no second propdef/package is needed.
"""

PROP = {
    "level_text_more": 'Mistyped values include integers spelled as integral floats (10.0). TestVFC13SpellingPreserved gives string settings of recent historical configurations another plain spelling and compares the running configuration after the upgrading start with the one of a start on an already current file with the same spelling; spellings an untyped reader takes for numbers, dates or null are a listed open finding and kept out by construction.',
    "parts": [
        {"name": "migrate", "pkg": "internal/configmigrate",
         "files": [
             "configmigrate/c13_model_test.go",
             "configmigrate/c13_gen_test.go",
             "configmigrate/c13_props_test.go",
             "configmigrate/c13_regress_test.go",
         ],
         "extra_overlay": {"internal/home/zz_verif_c13_load.go": "home/c13_load.go"},
         "tests": [
             ("TestVFC13Valid", (300, 1000)),
             ("TestVFC13Shape", (600, 2500)),
             ("TestVFC13Bytes", (1200, 4000)),
             ("TestVFC13BigUnsigned", (200, 600)),
             ("TestVFC13Auth", (30, 60), {"shards": (1, 8), "shrinktime": "5s"}),
         ],
     "plain": ["TestVFC13RegressNullObject", "TestVFC13RegressNullDocument", "TestVFC13Golden"]},
        {"name": "startup", "pkg": "internal/home", "files": ["home/common_assembly_test.go", "home/c13_startup_test.go"],
         "tests": [("TestVFC13StartupUpgrade", (300, 2000)), ("TestVFC13SpellingPreserved", (150, 1000))], "shards": (2, 8), "plain": ["TestVFC13NullLeaves"]},
    ],
    "level": "exploration",
    "technique": "property-based testing (rapid): metamorphic oracles (every split point of the version range, "
                 "idempotence), frame oracle from a table of the keys each step names, constructive expectation "
                 "for documents valid under their own schema (settings rendered in the layout of schema v vs the "
                 "layout of schema 29), crash/error oracles on shape-fuzzed and byte-edited documents, and the "
                 "real loader of package home on the upgraded bytes",
    "level_text": "Generated configuration documents of every schema version 0..29: (a) shape fuzz - a valid "
                  "document with 1-3 mutations (key null / deleted / wrong scalar / list for map / map for list / "
                  "null or mistyped list element / key of another schema / unknown key), hostile schema_version "
                  "values, sparse documents, byte-level edits from a YAML token dictionary; (b) documents valid "
                  "under their own schema, rendered from abstract settings in the layout the step documentation "
                  "gives for that schema, with unknown keys at every level, shuffled key order, flow style, "
                  "optional keys dropped. Asserted per document: no panic; error => returned bytes identical to "
                  "the input and upgraded=false; success => stamped 29, upgraded flag right, a second upgrade is a "
                  "byte-identical no-op; for EVERY split point k in (v,29): Migrate(Migrate(x,k),29) equals "
                  "Migrate(x,29) as YAML trees, and a failing one-run upgrade never succeeds when split; keys no "
                  "step between v and 29 names are unchanged (top level and inside dns/dhcp/clients/querylog/"
                  "statistics/http/filtering), nothing unnamed appears; for class (b): the upgrade succeeds, equals "
                  "the documented result, and package home's loader accepts the bytes and reads schema 29. "
                  "Exploration, no absence claim."
                  " The part 'startup' runs the real start-up path (parseConfig: read, upgrade, write back, load) on the repository's historical configurations of every schema version with generated deletions: the start that upgrades must end with the same running configuration as the next start, the file is stamped and not changed again, a failing start leaves an old or a current file.",
    "level_note": "Trusts yaml.v3 (decoding, and encoding of the generated input) and x/crypto/bcrypt. Step 5 "
                  "(bcrypt, ~50 ms/hash) is entered only by TestVFC13Auth (30 quick / 8x60 thorough cases, two split "
                  "points each); all other cases of schemas 0..4 carry no auth_pass. Documents using YAML "
                  "anchors/aliases/merge keys get only the crash/error/stamp/idempotence oracles (shared sub-trees "
                  "are outside the quantifier). The file-level half of 'leaving the file content unchanged' "
                  "(home.parseConfig not rewriting the file on error) is implied by Migrate returning the input "
                  "bytes and is not observed on disk here (C14 covers that writer). Measured cost is ~60-100 ms per "
                  "document (about 60 Migrate calls for an old document), an order of magnitude above the design "
                  "estimate, hence the smaller case counts.",
    "shards": (2, 16),
    "workers": (4, 16),
    "rule": "One evaluation = one generated document put through the upgrade with all oracles (plus 17 frozen "
            "regression documents and the repository's 28 golden inputs, upgraded all the way). Cases: schema version uniform in 0..29; class (a) = a valid document of that "
            "schema with 1-3 shape mutations and/or a hostile schema_version, or a valid text with 1-3 byte-level "
            "edits; class (b) = abstract settings rendered in the schema's layout with validity-preserving edits. "
            "Non-trivial = the document holds at least one non-null top-level key that some step between its "
            "version and 29 reads (so a step actually works on it); byte-edited texts count only when they still "
            "parse. Distinct = FNV-64 of (layout version, claimed version, schema_version kind, sorted "
            "(path:mutation kind) list) for class (a), of (version, dropped keys, text style, branch-steering "
            "settings: IPv6 bind host, auth, users/clients/filters counts, QUIC upstream, absolute filter path, "
            "'.' in ignored lists, statistics on/off and interval, all_servers/fastest_addr, EDNS, safe search) "
            "for class (b), of the text for byte edits.",
    "assumptions": [
        "yaml.v3 decodes a document the same way for the harness and for Migrate, and re-reads what it encodes (checked per case: VERIF-INCONCLUSIVE otherwise)",
        "numbers keep their value, not their YAML type: a float without fraction may come back as an integer (0. -> 0), which yaml.v3's encoder does",
        "schema_version absent or null means schema 0",
        "the BEFORE/AFTER blocks in the doc comments of internal/configmigrate/v1.go..v29.go (and CHANGELOG.md for upstream_mode) are the documentation of what a step concerns",
        "the loader shim repeats parseConfig's post-upgrade calls on a fresh copy of the default configuration",
    ],
    "require_classes": {
        "thorough": [
            "class:a_shape", "class:a_bytes", "class:b_valid", "class:b_auth", "shape:upgraded", "shape:refused",
            "valid:exact_expectation", "valid:optional_keys_dropped", "outcome:already_current",
            "bytes:parses_and_upgraded", "mutation:null", "mutation:list_for_map", "mutation:map_for_list",
            "mutation:nested_null", "mutation:inject", "mutation:scalar", "version:00-04", "version:05-14",
            "version:15-22", "version:23-28", "version:current", "version:not_historical",
        ],
    },
}
