"""C16 check configuration."""

PROP = {
    "level_text_more": 'The histories keep some DoT connections open and send further queries on them later, also after a reconfiguration (the old proxy still serves them); a third of the histories begin with such a client.',
    "thorough_scale": 4,
    "parts": [
        {"name": "server", "pkg": "internal/dnsforward",
         "files": ["dnsforward/common_world_test.go", "dnsforward/c01_test.go", "dnsforward/c16_test.go", "dnsforward/c16_history_test.go"],
         "tests": [
             ("TestVFC16Extract", (30000, 150000)),
             ("TestVFC16EndToEnd", (300, 1000)),
             ("TestVFC16History", (120, 300)),
             ("TestVFC16Volume", (60, 400)),
         ]},
        {"name": "home_tls", "pkg": "internal/home", "files": ["home/common_assembly_test.go", "home/c16_tls_test.go"],
         "tests": [("TestVFC16StrictSNISurvivesTLSSave", (25, 150))], "shards": (1, 4)},
    ],
    "level": "exploration",
    "technique": "property-based testing (rapid): grammar-generated server names, DoH paths and Host headers against a "
                 "reference extraction function written from the statement, plus universal validity invariants",
    "level_text": "TestVFC16Extract drives the production pre-request hook (HandleBefore) for all six protocols with "
                  "TLS/QUIC/HTTP doubles and reads the ClientID the server attached to the request; expected value / "
                  "failure comes from a reference written from the statement (own path normalisation, RFC 1123 label "
                  "check). Universal invariants hold for every case incl. ambiguous ones: a ClientID appears only on "
                  "DoH/DoT/DoQ, is a lower-case valid label, equals the single extra path segment or left-most label, "
                  "and a failed extraction answers SERVFAIL. TestVFC16EndToEnd shows the extracted id is the one the "
                  "request is processed with (a persistent client keyed by that ClientID flips the filtering verdict). "
                  "TestVFC16History runs generated histories on a started server over real sockets (DoT handshakes with "
                  "drawn server names, plain UDP/TCP, Server.Reconfigure in between) and requires every request to be "
                  "attributed (at the per-request client-settings callback) to the ClientID it carries itself, whatever "
                  "was served before. TestVFC16Volume does the same in-process after thousands of earlier requests of "
                  "the kinds the server answers by itself (canary, health check, AAAA when switched off). The part "
                  "home_tls saves TLS settings through POST /control/tls/configure and requires the file-only option "
                  "strict_sni_check to survive in the running configuration, in what the DNS server is given and "
                  "in the file written back. The reference model applies the strict clause to every request: a DoH request with an identifier in its path and a server name outside the configured one must fail under strict checking like any other (names that differ in letter case only, or lie more than one label under the configured name, are classed as unclear).",
    "level_note": "Server names whose domain part differs only in letter case from the configured name, and the "
                  "empty-label form '.<server name>', are tagged ambiguous (the statement does not decide them); "
                  "malformed Host headers are not generated.",
    "shards": (2, 16),
    "workers": (4, 16),
    "rule": "Case = (protocol, configured server name of 0-4 labels, strict on/off, client server name form out of 14, "
            "DoH path out of 18 spellings x 18 id candidates incl. invalid labels, Host with/without port, TLS state "
            "present/absent). Non-trivial = the protocol can carry a ClientID or the expected outcome is an id, an "
            "error or ambiguous; distinct by all of these fields.",
    "assumptions": ["TLS/QUIC connection doubles stand for the connection state dnsproxy passes"],
    "require_classes": {"thorough": ["want:error", "want:id_from_path", "want:id_from_sni", "want:none"]},
}
