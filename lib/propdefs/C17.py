"""C17 check configuration (see lib/props.py for the field meanings)."""

PROP = {
    "thorough_scale": 4,
    "pkg": "internal/filtering",
    "files": ["filtering/c17_world_test.go", "filtering/c17_paths_test.go"],
    "level": "exploration",
    "technique": "property-based testing (rapid) with constructive expectations: the generator builds tree, "
                 "pattern list and location spelling from a known target, an independent glob matcher decides "
                 "membership; marker-rule tracing as the 'was this file read' oracle; stateful histories",
    "level_text": "Per case a temporary tree (14 files in 6 directories incl. look-alike and nested directories, "
                  "each file holding a unique marker rule and title; valid, HTML, binary and empty contents) and a "
                  "generated safe_fs_patterns list (none; exact paths; * ? [..] [^..] classes, escaped "
                  "metacharacters, multi-level and root-depth globs, relative, unclean, trailing-slash, "
                  "upper-case and prefix patterns). Locations are built from a target (tree file, directory, "
                  "missing name, /etc file) by target-preserving spellings ('.', doubled and leading '//' "
                  "separators, 'name/..' detours incl. through allowed directories and missing names, climbs "
                  "above the root, trailing '/' and '/.', and decoys whose written form matches a pattern segment by segment "
                  "while the cleaned path does not) and as relative paths, file:/ftp:/other-scheme and "
                  "scheme-less host-looking strings, http(s) URLs. They are sent through the real handlers POST "
                  "add_url and set_url (block and allow lists, enabled and disabled-then-enabled) and are "
                  "pre-seeded into the configuration before refreshes (handler, forced, due-only), alone and in "
                  "histories with content changes, removals and restarts under another pattern list. Both "
                  "directions are asserted: target outside the patterns (or no patterns) => 400 / stored copy "
                  "and rules_count unchanged and the file's marker nowhere (any file under the data directory, "
                  "status answer, response bodies, check_host); target inside and a valid list => 200 and the "
                  "marker rule stored, counted and in force. The HTTP client is a recording stub. Exploration: no "
                  "absence claim."
                  " The server's data directory lies inside the generated tree; configured lists may be switched off; an inotify IN_OPEN watch on the tree is the kernel's record that no file outside the patterns was even opened by any API call or refresh.",
    "level_note": "Symlinks and /proc/self/fd-style aliases are outside the quantifier (symlink-free); races "
                  "between check and open are not examined. Only the Unix path rules are exercised. The stub "
                  "transport refuses non-http schemes the way net/http's transport does, so a file:// location "
                  "reaching the HTTP client at refresh is not counted as a read. Relative, URL-looking and "
                  "malformed-http locations whose possible target lies inside the patterns are judged by the "
                  "safety direction only (the statement does not say whether they must be accepted).",
    "tests": [
        ("TestVFC17AddSetURL", (700, 2500)),
        ("TestVFC17Refresh", (600, 1800)),
        ("TestVFC17History", (120, 300), {"steps": 12}),
    ],
    "plain": ["TestVFC17Examples"],
    "shards": (2, 16),
    "workers": (4, 16),
    # The code under test forces a garbage collection (debug.FreeOSMemory) on every engine reload; with many
    # Ps on a loaded machine that dominates the wall time, with one P it is negligible. Nothing here is concurrent.
    "env": {"GOMAXPROCS": "1"},
    "rule": "One evaluation = one (pattern list, location, entry point) decision: an add_url or set_url request, "
            "or one configured list at one refresh that is due for it (lists not due are only watched). "
            "Targets are drawn with a bias to both sides of the pattern boundary (allowed / denied partitions of "
            "the tree under the drawn patterns). Non-trivial = the location is not the plain cleaned absolute "
            "path of its target (any spelling transformation, relative, URL-looking) or it must be refused "
            "under a non-empty pattern list. Distinct = FNV-64 of (entry point, sorted pattern kinds, target role "
            "in the tree, family, URL/relative form, spelling transformations with coarse positions, expected "
            "outcome) - temporary directory names do not count.",
    "assumptions": [
        "path.Clean and path.Match of the Go standard library are trusted: every generated spelling is verified "
        "to clean to its target, and every decision of the harness' own glob matcher (written from the "
        "path.Match documentation) is cross-checked against path.Match (a disagreement is inconclusive)",
        "a local file was read iff its unique marker token (rule host, title, comment) shows up in a file under "
        "the data directory, the status answer, a response body or as a name the filter blocks/allows, or the "
        "stored copy / rules_count of the list changed",
        "the decision is a function of the cleaned absolute path: every absolute spelling of an allowed valid "
        "list must be accepted (guards against a vacuous reject-everything)",
        "list IDs are re-seeded per start by the harness (the code seeds them from the wall clock; two starts "
        "within one second would collide, which only a test can do)",
    ],
    "require_classes": {
        "quick": ["expect:accept", "expect:reject", "patterns:empty", "reject:raw_under_pattern_dir",
                  "reject:raw_matches_pattern"],
        "thorough": [
            "expect:accept", "expect:reject", "expect:accept_http", "expect:open", "patterns:empty",
            "family:abs", "family:rel", "family:url", "family:http", "family:odd",
            "spell:dot", "spell:dbl", "spell:detour", "spell:trail", "spell:climb", "spell:via",
            "reject:raw_under_pattern_dir", "reject:raw_matches_pattern", "reject:lookalike_dir",
            "accept:unclean_spelling", "spell:decoy",
            "entry:add_block", "entry:add_allow", "entry:set_block", "entry:set_allow", "entry:set_disabled",
            "entry:set_enable", "entry:refresh_handler_block", "entry:refresh_handler_allow",
            "entry:refresh_direct_forced", "entry:refresh_direct_due", "entry:history_add", "entry:history_set",
            "history:restart", "history:remove", "target:file", "target:dir", "target:missing", "target:system",
            "content:html", "content:binary", "content:empty",
        ],
    },
}
