"""C15 check configuration (see lib/props.py for the field meanings)."""

PROP = {
    "level_text_more": 'Lists are also added through the API in the refresh histories (which contain restarts): the new list must get an identifier, and so a file, of its own; TestVFC15RefreshVsRebuildInProgress runs the real worker goroutine: a forced refresh stores a small version 2 while the rebuild queued by the previous admin call is still compiling a list of 150000-300000 rules, and after all builds have ended version 2 must be in force. TestVFC15LargeSource covers the size of the source: a block or allow list, served over HTTP (Content-Length or chunked) or read from a local file, gets a small first version and then two versions whose source is 16-112 MiB long (thorough: up to 160 MiB), mostly comments of a drawn length and blank lines, LF or CRLF, with a rule every 9th or 150th line and the rule for the probe name of the version on the last line; forced, scheduled and API refreshes; after each one the oracle of TestVFC15Refresh (file = normal form of the whole source, rules_count, checksum, re-parse, probe names in force) is applied.',
    "pkg": "internal/filtering",
    "files": ["filtering/c15_model_test.go", "filtering/c15_parser_test.go", "filtering/c15_refresh_test.go", "filtering/c15_admin_test.go", "filtering/c15_rebuild_test.go",
              "filtering/c15_regress_test.go", "filtering/c15_large_test.go"],
    "level": "exploration",
    "technique": "property-based testing (rapid): reference model of the list normal form and of 'last successfully "
                 "stored list'; fixed-point (round-trip) oracle; stateful histories of refreshes against a scripted "
                 "list server with fault injection at the enumerated transfer points",
    "level_text": "Parser: generated list texts (mixed LF/CRLF/lone CR endings, padding, blank lines, #/! comments, "
                  "titles, control bytes at the start/middle/end of lines, HTML openings, binary blobs, texts cut at "
                  "an arbitrary byte, lines around the 1 KiB/4 KiB read buffers and the 64 KiB token limit, byte-wise "
                  "and chunked readers, several buffer sizes) are parsed by rulelist.Parser and compared with an "
                  "independent line classifier (normal form bytes, rule count, CRC-32, rejected line => nothing after "
                  "it stored or counted, never a partial line); every accepted output is parsed again and must "
                  "reproduce itself, its count and checksum. Refresh: histories (about 8 actions) over 1-3 block and "
                  "0-2 allow lists served over HTTP or from local files; per refresh and list the source succeeds "
                  "(new content, byte-identical content, same rules in other clothes, shifted line breaks, empty, via "
                  "redirect, gzip, chunked) or fails (reset before headers, death after headers / mid-line / at a "
                  "line boundary / before the last byte with Content-Length or chunked framing, truncated gzip, "
                  "404/500/.../304, redirect loop, HTML, binary after 0-n good lines, local file missing or a "
                  "directory); refreshes are started through POST /control/filtering/refresh and through "
                  "tryRefreshFilters (forced, scheduled with a drawn set of due lists), interleaved with restarts. "
                  "After every action: file bytes, rules_count of the status API, the checksum in the metadata, a "
                  "re-parse of the stored file, the inode of unchanged files, absence of temporary files and the "
                  "block/allow decision for one probe name per list version are compared with the model. "
                  "Exploration: no absence claim."
                  " TestVFC15ParserAfterManyRules puts the generated texts behind 100-3000 ordinary rules; TestVFC15RefreshVsAdmin runs an admin operation on another list inside the list server's handler of a drawn download (the rebuilds it queues are carried out afterwards by the harness-owned worker queue, as the scheduled refresh's goroutine would). A refused re-point of a list (POST /control/filtering/set_url to a source that answers 404/503, is missing or lies outside the safe patterns) is one more kind of failed download in the histories of TestVFC15Refresh; in TestVFC15RefreshVsAdmin the administrator may also give the list that is being refreshed another source, after which the list must be what that source delivered (administrator's calls run in their own goroutine; the download goes on when the call has ended or has come to wait for the refresh).",
    "level_note": "Where the statement is silent the check accepts any reading and counts the text as ambiguous: "
                  "Unicode (non-ASCII) white space at line ends, VT/FF at line ends, control bytes inside comments, "
                  "an HTML opening after accepted rules, a leading byte-order mark, lines of 64 KiB and more, and "
                  "whether 'checksum' covers the line feeds. A new content whose checksum equals the stored one "
                  "(rule lines joined/split differently) may be kept or replaced. last_updated and the file "
                  "modification time are not asserted. Atomicity/durability of the replacement is C14's subject; "
                  "timeouts of a hanging server are not generated (the connection is reset instead).",
    "tests": [
        ("TestVFC15Parser", (30000, 300000)),
        ("TestVFC15ParserLong", (400, 2000)),
        ("TestVFC15ParserAfterManyRules", (1500, 10000)),
        ("TestVFC15Refresh", (300, 1500), {"steps": 8, "shards": (4, 16)}),
        ("TestVFC15RefreshVsAdmin", (120, 800), {"shards": (2, 16)}),
        ("TestVFC15RefreshVsRebuildInProgress", (2, 6), {"shards": (1, 4)}),
        ("TestVFC15LargeSource", (3, 6), {"shards": (2, 4), "thorough_scale": 1}),
    ],
    "plain": ["TestVFC15RegressOtherKindAllFailed", "TestVFC15RegressFirstRefreshOtherKindFailed",
              "TestVFC15RegressSameKindMixed"],
    "shards": (2, 16),
    "workers": (4, 16),
    "env": {"GOMAXPROCS": "2"},
    "rule": "One evaluation = one generated list text (parser tests) or one generated refresh history (refresh "
            "test: 1-5 lists, on average 8 actions, each refresh drawing a source behaviour per targeted list). "
            "Parser texts are built line by line from a closed vocabulary of rule shapes and hostile constants "
            "(30 % of the texts also use the constructs the statement is silent on). Non-trivial parser case = the "
            "text holds at least one rule and differs from its normal form (something had to be dropped, trimmed "
            "or rejected); distinct = FNV-64 of the text. Non-trivial refresh case = a list whose history holds a "
            "successful replacement, later a failed refresh, later another successful replacement with different "
            "content; distinct = FNV-64 of (list kind, sequence of source behaviour and outcome per refresh).",
    "assumptions": [
        "hash/crc32, unicode.IsSpace, net/http, compress/gzip and httptest of the standard library are trusted "
        "(reference checksum, white space definition, list server double)",
        "urlfilter decides that the rule ||name^ of a list matches exactly the probe name (trusted library); the "
        "filler rules of the generated lists cannot match a probe name by construction",
        "a list is 'due' for a scheduled refresh when its stored last-update instant is older than the interval: "
        "set by shifting the stored instant, not by waiting",
    ],
    "require_classes": {
        "thorough": [
            "parser:nontrivial", "parser:rejected_after_rules", "parser:ambiguous", "parser:has:long:at_or_over_limit",
            "parser:has:long:just_under_limit", "parser:has:doc:html", "parser:has:doc:cut",
            "refresh:nontrivial", "refresh:act:cut:after_headers", "refresh:act:cut:mid_line",
            "refresh:act:cut:line_boundary", "refresh:act:cut:last_byte", "refresh:act:reset", "refresh:act:gzip_cut",
            "refresh:act:html", "refresh:act:binary", "refresh:act:missing", "refresh:act:dir",
            "refresh:act:redirect_loop", "refresh:act:status:404", "refresh:act:status:500",
            "refresh:act:ok:same", "refresh:act:ok:same_rules", "refresh:act:ok:shifted", "refresh:act:ok:empty",
            "refresh:list:allow_http:fail", "refresh:list:allow_local:fail", "refresh:list:block_http:fail",
            "refresh:list:block_local:fail", "refresh:mixed_outcomes_in_kind", "refresh:kind_all_failed",
            "refresh:fail_after_success", "refresh:restart", "refresh:mode:api", "refresh:mode:scheduled",
            "refresh:mode:forced",
        ],
    },
}
