"""C15 check configuration (see lib/props.py for the field meanings)."""

PROP = {
    "pkg": "internal/filtering",
    "files": ["filtering/c15_model_test.go", "filtering/c15_parser_test.go", "filtering/c15_refresh_test.go"],
    "level": "exploration",
    "claimed": False,
    "technique": "property-based testing (rapid)",
    "level_text": "",
    "level_note": "",
    "tests": [
        ("TestVFC15Parser", (8000, 40000)),
        ("TestVFC15ParserLong", (300, 1500)),
        ("TestVFC15Refresh", (200, 1000), {"steps": 8}),
    ],
    "plain": [],
    "shards": (2, 16),
    "workers": (4, 16),
    "rule": "",
    "assumptions": [],
    "env": {"GOMAXPROCS": "2"},
}
