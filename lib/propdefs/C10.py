"""C10 check configuration (see lib/props.py for the field meanings)."""

PROP = {
    "pkg": "internal/dhcpd",
    "files": ["dhcpd/c10_world_test.go", "dhcpd/c10_machine_test.go", "dhcpd/c10_regress_test.go"],
    "claimed": False,
    "level": "exploration",
    "technique": "property-based testing (rapid): stateful history machine against a reference model",
    "level_text": "tbd",
    "level_note": "tbd",
    "tests": [
        ("TestVFC10Machine", (500, 3000), {"steps": 40}),
        ("TestVFC10OfferWhenFree", (400, 2000)),
    ],
    "plain": ["TestVFC10Regress"],
    "shards": (4, 16),
    "workers": (4, 16),
    "rule": "tbd",
    "assumptions": [],
}
