"""C10 check configuration (see lib/props.py for the field meanings)."""

PROP = {
    "level_text_more": 'Two hardware addresses of 8 bytes that start like the 6-byte address of another client are part of the vocabulary.',
    "thorough_scale": 4,
    "level_text_more": "The part 'overlap' re-runs the concurrent DHCP programs of C05 (messages handled in goroutines of their own next to static-lease calls) for their end-state check: leases.json = table in memory, nothing twice.",
    "level": "exploration",
    "technique": "property-based testing (rapid): stateful history machine over the production DHCPv4 server "
                 "(wire packets through the packet handler, static leases through the HTTP handlers, real "
                 "leases.json) against a reference model of acknowledged leases and reservations; constructive "
                 "pool-filling cases; a shadow restart after every step",
    "level_text": "Generated histories (about 40 actions, 60 checked steps on average) of DISCOVER / REQUEST "
                  "(selecting with right or wrong server id, init-reboot, renew) / DECLINE / RELEASE from 3-10 "
                  "hardware addresses with matching, foreign, reserved, gateway, out-of-pool and out-of-subnet "
                  "addresses and colliding hostnames, interleaved with add / update / remove of static leases "
                  "(inside and outside the pool, on a client's current address, with a lease's current name), "
                  "clock steps that expire some leases and not others, and restarts, over pools of 2-8 addresses "
                  "so that exhaustion is common. After every step: Leases() must equal the model (accepted "
                  "reservations + acknowledged, unexpired, unreleased, unrevoked dynamic leases), with one lease per "
                  "address and per client, dynamic leases inside the pool and off the gateway; every OFFER/ACK must "
                  "carry the client's reserved address, or an unreserved pool address nobody else holds; a DISCOVER "
                  "of a client unknown to the server must be answered with an OFFER whenever a pool address appears "
                  "in no lease entry and no reservation; leases.json (read by an independent decoder) must list "
                  "exactly the in-memory table, each lease once; and a second server started from the data "
                  "directory must report the same table and the same HostByIP / IPByHost / MACByIP answers. "
                  "Separately, pools are filled by construction (reservations inside/outside the pool, some "
                  "removed again, restarts): exactly as many new clients as unreserved addresses must each be "
                  "offered a different address and one more gets none. Exploration: no absence claim.",
    "level_note": "Sequential histories only (concurrency is C05). ICMP probing is off, so the blocklisting of "
                  "addresses that answer a ping is not exercised. Hardware addresses are 6 bytes. Time is advanced "
                  "by shifting the stored expiry instants in memory and in leases.json (DESIGN 3.4); steps are "
                  "chosen so that no lease is ever within a minute of its expiry. The hostname of an entry that is "
                  "not a current lease (offered but never acknowledged, expired) and the name a nameless lease may "
                  "be given on load are not compared. Whether an exhausted pool may reuse entries of expired or "
                  "never acknowledged leases is left open (both outcomes accepted, the offer is checked like any "
                  "other). Trusts insomniacslk/dhcp for encoding/decoding packets, encoding/json, net/netip.",
    "parts": [
        {"name": "histories", "pkg": "internal/dhcpd",
         "files": ["dhcpd/c10_world_test.go", "dhcpd/c10_machine_test.go", "dhcpd/c10_regress_test.go"],
         "tests": [
             ("TestVFC10Machine", (500, 4000), {"steps": 40}),
             ("TestVFC10OfferWhenFree", (400, 2500)),
         ],
         "plain": ["TestVFC10Regress"]},
        # the generated concurrent programs written for C05 (one goroutine per DHCP message, as server4 runs them, next to
        # static-lease calls): at rest leases.json must list exactly the leases in memory and no address or hardware
        # address twice.  Their verdict counts for C10 too; their coverage counters stay with C05.
        {"name": "overlap", "pkg": "internal/dhcpd", "files": ["dhcpd/c10_world_test.go", "dhcpd/c05_dhcp_test.go"],
         "tests": [("TestVFC05DHCPPrograms", (60, 300)), ("TestVFC05DHCPLastAddress", (30, 60))], "shards": (2, 8)},
    ],
    "shards": (4, 16),
    "workers": (4, 16),
    "rule": "One evaluation = one generated history (TestVFC10Machine: drawn configuration (/24 or /28, pool of 2-8 "
            "addresses at drawn offsets), rapid state machine of ~40 actions, some of them composite "
            "(DISCOVER+REQUEST, all idle clients ask); TestVFC10OfferWhenFree: drawn reservations, then the pool is "
            "filled client by client) with every invariant checked after every single message / API call / clock "
            "step / restart (steps_checked counts them). A history is non-trivial if a new client asked when no "
            "pool address was free of lease entries, or when exactly one was, while at least one reservation "
            "existed; or a DECLINE hit an existing dynamic lease; or the server was restarted after the table had "
            "changed. Distinct = FNV-64 of the sequence of (step kind, outcome kind).",
    "assumptions": [
        "github.com/insomniacslk/dhcp encodes and decodes DHCPv4 packets correctly (requests are serialised and "
        "parsed before delivery, replies are parsed from the bytes written to the socket)",
        "moving every stored expiry instant back by d (memory and leases.json) is equivalent to the clock "
        "advancing by d: the server only compares stored instants with time.Now()",
        "the server identifier is the gateway address (what Start() would learn from the interface is set "
        "directly; no socket is opened)",
        "an ACK carrying an address is the acknowledgement of a lease of that address, including the ACK this "
        "server sends in reply to DECLINE",
        "an accepted static-lease request revokes the dynamic leases of that client and of that address; a "
        "rejected one changes nothing",
    ],
    "require_classes": {
        "quick": ["nontrivial", "history:exhausted_after_reservation", "history:decline_effective",
                  "history:restart_after_change", "history:offer_required"],
        "thorough": ["nontrivial", "history:exhausted_after_reservation", "history:last_free_after_reservation",
                     "history:decline_effective", "history:restart_after_change", "history:offer_required",
                     "history:recycled", "history:static_inside_pool", "history:static_outside_pool",
                     "history:static_evicts_holder", "history:static_removed", "history:dynamic_removed_via_api",
                     "history:release_effective", "history:reservation_inside_pool",
                     "history:reservation_outside_pool", "history:reservation_removed_again",
                     "history:offer_left_unacknowledged", "history:pool_filled",
                     "step:static_update=accepted", "step:req_renew=ack", "step:req_initreboot=ack"],
    },
}
