"""C09 check configuration (see lib/props.py for the field meanings)."""

PROP = {
    "level_text_more": "The part 'home' runs the whole program: the real first-run installation starts the real DNS server on a loopback port, queries are sent over UDP, POST /control/dns_config restarts the server (in some histories another program takes the port in the moment it is free, so that the restart fails and the server stays stopped), the production cleanup() runs, and the totals in a copy of the statistics database -- what the next start reads -- must equal what GET /control/stats reported last (one history per process, 12/48 processes). TestVFC09ResetAcrossHourStep holds the flush worker inside the clock function the module is configured with (after it has read the hour), lets the hour end and the statistics be reset, and demands every query counted afterwards; TestVFC09CloseVsFlush overlaps a clean shutdown with the worker's poll at the hour step in real goroutines (a round without progress for 60 s is a deadlock) and checks the totals after the restart.",
    "thorough_scale": 2,
    "level": "exploration",
    "technique": "property-based testing (rapid): stateful history machine against a per-hour reference model, "
                 "observed at GET /control/stats; concurrent updaters/flush/readers with bounds and conservation "
                 "at quiescence (schedule sampling)",
    "level_text": "Generated histories of updates (all five result categories, uncountable entries, 6 clients x 6 "
                  "domains, upstream stats), hour advances of 0..800 h followed by the body of the hourly worker, "
                  "clean shutdown + restart on the same file (with 0..800 h of downtime), retention changes through "
                  "both configuration endpoints (24 h .. 365 d, custom limits around the hour/day presentation "
                  "switch, rejected requests), disabling and clears, on a harness-owned hour clock. After every "
                  "step the statistics document is compared with a per-hour reference model: every total equals "
                  "the counted queries of the window (now-limit, now], each hourly entry equals its model hour, "
                  "hourly series sum to the totals, daily series do not exceed them, per-client and per-domain "
                  "tops add up, nothing outside the window is reported. Exploration: no absence claim. The "
                  "concurrent test samples real schedules of updaters, the single flush worker and readers."
                  " Restarts may shut down after the hour changed but before the flush worker saw it.",
    "level_note": "Hours that have been outside the retention window at any time may or may not have been dropped: "
                  "for them the oracle accepts 'reported completely' or 'not reported' (hour mode, then all "
                  "totals are exact again) resp. the interval [certain, all] (day mode). The same holds for what was "
                  "counted before POST stats_config {interval: 0} (documented only as 'statistics is disabled'): "
                  "it may be reported or not, per hour, but the first hourly read that shows such an hour decides: "
                  "counts seen kept must stay until their hour leaves the window, counts seen dropped must not come "
                  "back. Updates issued between a "
                  "clock step and the next run of the flush worker (<= 1 s in production) are not generated. "
                  "The concurrent part judges only schedules that occur and is not built with -race in the "
                  "registered tiers (4-5x slower; one manual -race run of the whole quick tier was clean). Trusts bbolt, encoding/json, net/http/httptest.",
    "parts": [
        {"name": "stats", "pkg": "internal/stats", "files": ["stats/c09_seq_test.go", "stats/c09_conc_test.go", "stats/c09_start_test.go"],
         "tests": [
             ("TestVFC09History", (400, 1500), {"steps": 40}),
             ("TestVFC09Concurrent", (120, 500)),
             ("TestVFC09ResetVsFlush", (400, 3000)),
             ("TestVFC09ResetAcrossHourStep", (100, 1000)),
             ("TestVFC09CloseVsFlush", (100, 150)),
             # New, counted queries, then Start: the start-up order of the application (DNS server before stats.Start)
             ("TestVFC09StartOrder", (150, 1500)),
         ],
         "plain": ["TestVFC09Scenarios"]},
        # the whole program: installation, real DNS server, dns_config restarts (some failing), production cleanup()
        {"name": "home", "pkg": "internal/home",
         "files": ["home/common_assembly_test.go", "home/c11_test.go", "home/c11_raw_test.go", "home/c11_shutdown_test.go",
                   "home/c11_install_test.go", "home/c09_home_test.go"],
         # one history per process: the DNS server registers its HTTP handlers once per process
         "tests": [("TestVFC09HomeShutdown", (1, 1), {"shards": (12, 48), "shrinktime": "0s", "thorough_scale": 1})]},
    ],
    "shards": (4, 16),
    "workers": (4, 16),
    "rule": "Cases: histories (rapid state machine, ~40 steps on average) over update / advance k hours + flush "
            "(k in 0,1,2,5,23,24,25,30,167,168,800) / clean restart with downtime / PUT stats/config/update / POST "
            "stats_config / POST stats_reset, with a checked GET /control/stats + GET /control/stats/config after "
            "every step; one evaluation = one history (reads_checked counts the compared documents). Non-trivial "
            "= at some read the window held counted queries of >= 2 different hours (a rollover happened between "
            "updates and both sides are visible), or a clean restart happened between two counted updates. "
            "Concurrent cases: 1-4 updaters x 10-300 updates || flush worker stepping 1-12 hours || 1-2 readers; "
            "non-trivial = the final hourly series shows counts in >= 2 hours (the unit swap fell between updates). "
            "Distinct = FNV-64 of the full operation trace resp. of the concurrent case parameters.",
    "assumptions": [
        "bbolt stores and returns what was committed (trusted dependency)",
        "the statistics module reads time only through Config.UnitID (true at the pinned commit: newUnitID is the "
        "only clock access and is replaced by the harness clock)",
        "the production flush worker is a single goroutine (periodicFlush), so one flusher is the realistic schedule",
    ],
    "require_classes": {
        "quick": ["nontrivial", "hist:mode_hours_with_data", "hist:mode_days_with_data",
                  "hist:restart_between_updates", "hist:two_hours_in_window"],
        "thorough": ["nontrivial", "hist:mode_hours_with_data", "hist:mode_days_with_data",
                     "hist:restart_between_updates", "hist:two_hours_in_window", "hist:gap_rollover_with_data",
                     "hist:same_hour_restart_with_data", "hist:downtime_restart", "hist:expired_with_data",
                     "hist:uncertain_in_window", "hist:legacy_disable_with_data", "hist:clear_with_data", "hist:limit_increase",
                     "hist:limit_decrease", "hist:disabled_update", "hist:invalid_update", "hist:config_rejected",
                     "conc:updates_spread_over_hours", "conc:restart_at_end"],
    },
}
