"""C11 check configuration."""

PROP = {
    "level_text_more": "The part 'shutdown' ends with a configuration save after the production cleanup() has closed the authentication module (what a state-changing call still running at shutdown does): the administrator must still be in the file the next start reads.",
    "thorough_scale": 4,
    "parts": [
        {"name": "mux", "pkg": "internal/home",
         "files": ["home/common_assembly_test.go", "home/c11_test.go", "home/c11_raw_test.go", "home/c11_shutdown_test.go"],
         "tests": [
             ("TestVFC11Unauthenticated", (6000, 30000)),
             ("TestVFC11Authenticated", (1500, 6000)),
             ("TestVFC11RawRequestLine", (1500, 8000)),
         ],
         "plain": ["TestVFC11PublicAndValid", "TestVFC11RouteCoverage"]},
        # cleanup() tears the assembled globals down: a process of its own
        {"name": "shutdown", "pkg": "internal/home",
         "files": ["home/common_assembly_test.go", "home/c11_test.go", "home/c11_raw_test.go", "home/c11_shutdown_test.go"],
         "plain": ["TestVFC11Shutdown"]},
        # the real first-run wizard call starts the DNS server: a process of its own
        {"name": "install", "pkg": "internal/home",
         "files": ["home/common_assembly_test.go", "home/c11_test.go", "home/c11_raw_test.go", "home/c11_shutdown_test.go", "home/c11_install_test.go"],
         "plain": ["TestVFC11Install"]},
        {"name": "install_fails", "pkg": "internal/home",
         "files": ["home/common_assembly_test.go", "home/c11_test.go", "home/c11_raw_test.go", "home/c11_shutdown_test.go", "home/c11_install_test.go"],
         "plain": ["TestVFC11InstallFails"]},
    ],
    "level": "exploration",
    "technique": "property-based testing (rapid) over (route x request shape x credential class x path spelling) against "
                 "the really assembled admin mux; routes enumerated dynamically from the mux; source scan as "
                 "generator-completeness meter",
    "level_text": "The harness runs the production registration code of every module (web API in first-run mode, then "
                  "completion of the installation, control handlers, auth, TLS, clients, DHCP, filtering, rewrites, "
                  "safe search, stats, query log, dnsforward) against the real ServeMux with a configured user, reads "
                  "all ~84 patterns (and their registration sites) back out of the mux by reflection, and sends "
                  "generated requests through the mux behind the production body-limit middleware. Without valid "
                  "credentials (none, unknown/malformed/empty cookie, expired session, logged-out session, wrong basic, "
                  "unknown user, empty password) every non-public route and every spelling that normalises to one must "
                  "end in 403 'Forbidden', the login redirect (only for / and /index.html) or the mux's redirect to "
                  "the clean path (followed), with an unchanged side-effect snapshot (config file hash, session table, "
                  "client registry, filter lists, custom rules, rewrites). With valid cookie/basic credentials a "
                  "method no route declares gets 405 and POST/PUT/DELETE with a non-JSON body get 405/415 (at most "
                  "one declared method) -- without ever running a state-changing handler; read-only endpoints answer "
                  "200; public routes are reachable; first-run routes answer 403 to everybody after installation; a "
                  "logged-out cookie is dead. TestVFC11RouteCoverage fails if a route literal in a registration call "
                  "anywhere under internal/ is unknown to the assembled mux."
                  " Bad credentials include accounts without a usable password hash (none, plaintext, md5crypt, truncated bcrypt); the authentication module is restarted on its session database after a logout; the part 'shutdown' runs the production cleanup() with open connections and sends unauthenticated requests while the servers drain.",
    "level_note": "Most requests are served in-process through mux.ServeHTTP; TestVFC11RawRequestLine writes raw "
                  "request lines (percent-encoded dot segments, letters and slashes, absolute-form and network-path "
                  "targets, path parameters, backslashes, HTTP/1.0 without Host) to a loopback net/http server with "
                  "the same handler and judges them the same way (net/http's own 400/505 pages count as refused). /control/version.json and the file server are registered without a "
                  "declared method by the code and are exempt from the 405/415 assertion (they still require "
                  "authentication). State-changing handlers are never executed with valid credentials.",
    "shards": (2, 16),
    "workers": (4, 16),
    "rule": "evaluations = requests judged (unauthenticated cases, authenticated guard probes, public/valid/install "
            "probes, source route literals). Non-trivial = every request without valid credentials to a non-public "
            "route; distinct = (route, credential class, read/write method class, spelling).",
    "assumptions": ["net/http's ServeMux path normalisation and request parsing are trusted",
                    "reflection over http.ServeMux internals is guarded by a self-test on a scratch mux (exit 2 if it breaks)"],
    "require_classes": {"thorough": ["cred:expired_session", "cred:logged_out_session", "spelling:via_assets",
                                      "verdict:normalise_redirect", "auth:write_route", "install_closed"]},
}
