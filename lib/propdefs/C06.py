"""C06 check configuration (see lib/props.py for the field meanings)."""

PROP = {
    "level_text_more": "The response part has a dimension 'name under the local domain of an enabled DHCP server without a lease of that name' (private client), and CNAME answers are also spelled with a trailing dot.",
    "thorough_scale": 4,
    "parts": [
        {"name": "table", "pkg": "internal/filtering",
         "files": ["filtering/c06_model_test.go", "filtering/c06_rewrites_test.go"],
         "tests": [("TestVFC06Table", (10000, 30000)), ("TestVFC06Cycles", (2000, 8000))],
         "plain": ["TestVFC06DocExamples", "TestVFC06RegressWildcardOtherTypeException"]},
        {"name": "response", "pkg": "internal/dnsforward",
         "files": ["dnsforward/common_world_test.go", "dnsforward/c01_test.go", "dnsforward/c06_response_test.go"],
         "tests": [("TestVFC06Response", (800, 3000))],
         "plain": ["TestVFC06RegressCNAMETargetWithoutValue"]},
    ],
    "level": "exploration",
    "technique": "property-based testing (rapid) against a reference resolver written from AGHTechDoc; "
                 "metamorphic order-independence check; watchdog termination oracle",
    "level_text": "Generated rewrite tables (0-12 entries: exact and 1-3 level wildcard patterns, A/AAAA/CNAME "
                  "answers, 'A'/'AAAA'/self exceptions, CNAME chains and cycles of length 1-7 with exact and "
                  "wildcard links, duplicates, upper-case patterns) and related questions (names equal to / "
                  "under / above patterns, case variants, A/AAAA/other types) are looked up through "
                  "DNSFilter.CheckHost in up to three orders of the table (built from the configuration, "
                  "through POST /control/rewrite/add, by editing placeholder entries of other kinds through PUT "
                  "/control/rewrite/update, with junk entries removed through POST /control/rewrite/delete, and from a configuration that also holds inert "
                  "entries - empty ones, ones lacking the domain or the answer, unrelated ones - before, between and after the "
                  "wanted entries) and compared with a reference resolver: exact equality "
                  "where the table is unambiguous for the question, the stated validity predicates otherwise; "
                  "every order must give the same result; each call runs under a watchdog (10 s of CPU time of the "
                  "process) and a panic trap. "
                  "Exploration: no absence claim.",
    "level_note": "Only the table semantics at filtering.CheckHost are decided here; response assembly "
                  "(CNAME record first, question restored, no upstream call for empty answers) is checked in "
                  "dnsforward. CheckHost cannot tell 'CNAME to a name the table does not know' from 'CNAME to a "
                  "name the table knows without a value for the type' (both: canonical name, no addresses). "
                  "CNAME answers written in upper case and trailing-dot names are outside the generated domain.",
    "shards": (2, 16),
    "workers": (4, 16),
    "rule": "One evaluation = one (table, question) decision, looked up in every drawn order of the table. "
            "Tables are built from CNAME chain/cycle gadgets plus related noise entries over a closed "
            "vocabulary of nested names; questions are derived from the table's patterns and targets. "
            "Non-trivial = the reference resolution takes >=1 CNAME hop, or meets a precedence conflict (CNAME "
            "vs address, exact vs wildcard, several wildcard levels), or a CNAME cycle. Distinct = FNV-64 of "
            "(question type class, per-hop multiset of matching entry forms and kinds, terminal, model tags, "
            "table shape = sorted multiset of (exact|wildcard, label count, answer kind)) - names and "
            "addresses themselves do not count.",
    "assumptions": [
        "net/netip decides what is an IPv4 / IPv6 address text (reference classification of answers)",
        "the reference resolver reads AGHTechDoc 'Rewrites' as: CNAME over address; exact over wildcard; "
        "longest wildcard; follow CNAME; self / 'A' / 'AAAA' entries pass through; cycles only need to terminate "
        "without addresses",
        "a call whose median is microseconds and that has not returned after the test process burnt 10 s of CPU "
        "time (user+system, getrusage) since it started is taken as non-terminating",
    ],
    "require_classes": {
        "thorough": [
            "cycle:through_queried_name", "cycle:not_through_queried_name", "chain_through_wildcard",
            "conflict:cname_vs_address", "conflict:exact_vs_wildcard_address", "conflict:wildcard_levels_address",
            "conflict:exact_vs_wildcard_cname", "terminal:matched_no_value", "terminal:type_exception",
            "terminal:self_exception", "terminal:cname_upstream", "hops:6", "qtype:other", "oracle:exact",
            "cycle_len:2", "cycle_len:6",
        ],
    },
}
