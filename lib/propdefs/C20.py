"""C20 check configuration (see lib/props.py for the field meanings)."""

PROP = {
    "level_text_more": 'Generated files may end with the beginning of a further record without a line break (a flush in progress or cut short): it is not a line, reads return the complete lines only and seeks keep to the three error classes.',
    "thorough_scale": 4,
    "pkg": "internal/querylog",
    "files": ["querylog/c20_gen_test.go", "querylog/c20_file_test.go", "querylog/c20_reader_test.go"],
    "level": "exploration",
    "technique": "property-based testing (rapid) against a reference model (the file's lines, reversed; a cursor "
                 "model for histories of seeks and reads over one or two files); files are built, not filtered, so "
                 "that the 1.6 MB reverse-reading window and the 32 KiB probe window cut lines at chosen offsets",
    "level_text": "Generated log files of 0..~450 lines (28 B .. 16383 B, strictly increasing timestamps with gaps "
                  "from 1 ns to days, three line flavours incl. the legacy \"Time\" key, several UTC offsets), from "
                  "empty up to 3.5 reading windows (5.7 MB), including files of exactly k*1638400+{-2..3} bytes, "
                  "files in which a longest-permitted line ends at entry-limit+{-4..4} bytes of a (first or moved) "
                  "reading window, and files whose first binary-search probe hits a chosen byte (first, last, line "
                  "break, inside) of a chosen long line. Complete reverse passes (also restarted mid-way) are compared "
                  "line by line with the reversed line list; every stored timestamp (all of them for files up to 24-60 "
                  "lines, a drawn subset biased to ends and aligned lines otherwise), a value in every gap, values "
                  "before the first and after the last are sought and the error class and the following reads are "
                  "compared with the model; a two-file reader (rotated + current; either may be missing or empty) "
                  "runs drawn histories of SeekStart / seek / read / read-to-end; a value between the last entry of the "
                  "rotated file and the first of the current one must either be reported absent or leave the reader "
                  "on the newest entry older than it, never in front of newer entries. Every operation runs under a watchdog "
                  "of 10 s CPU time and the probe count is bounded by 100. Exploration: no absence claim; the window-edge "
                  "arithmetic is covered by construction and the reached offsets are measured on the reader.",
    "level_note": "White-box: drives the unexported qLogFile/qLogReader and reads qLogFile.position/bufferStart for "
                  "coverage accounting only (never for the verdict). 'Without mis-positioning subsequent reads' is read as: "
                  "a seek that reports an error leaves the reader where it was (reads continue from the previous "
                  "position); nothing is demanded of a reader that was never positioned except that it returns "
                  "whole stored lines in order. For a reader-level seek of a value later than a file's last entry the "
                  "documented 'position at the start' and 'position on the newest older entry' are both accepted, as is one of "
                  "the three error classes. Lines of 16384 bytes and more, files without a final line break, and "
                  "unparsable timestamps are outside the property's domain and not generated. Trusts the time "
                  "package for formatting/parsing RFC 3339 timestamps and the OS for regular-file reads.",
    "tests": [
        ("TestVFC20FileReverse", (600, 4000)),
        ("TestVFC20FileSeek", (400, 2000)),
        ("TestVFC20Reader", (800, 4000)),
    ],
    "plain": ["TestVFC20Regress"],
    "shards": (4, 16),
    "workers": (4, 16),
    "rule": "One evaluation = one generated case: a file (or a rotated+current pair) plus the whole set/history of "
            "operations run on it (a complete reverse pass; 8-130 seeks each followed by reads; 2-24 reader "
            "operations). Files come from five builders: small (0-40 lines of every length class), medium (1-40 "
            "mostly 4-16 KiB lines), big (total beyond the 1.6 MB window, one third of them exactly k*window-2..+3 "
            "bytes), aligned_reverse (a long line placed entry-limit-4..+4 bytes into the first and the moved "
            "window), aligned_probe (file middle = chosen byte of a chosen long line). Non-trivial = the file is "
            "larger than the 1.6 MB window, or a line longer than 8 KiB starts/ends within 64 bytes of a window "
            "edge (measured on the reader for reverse passes, by construction for the first probe), or a two-file "
            "reader history contains a seek that must fall through to the rotated file or lands between the files. "
            "Distinct = FNV-64 of (base timestamp, list of line lengths, targets/history).",
    "assumptions": [
        "Go's time package formats and parses RFC 3339 timestamps consistently (reference timestamps are UnixNano values)",
        "reads of regular files return the requested bytes except at end of file",
        "the per-operation watchdog of 10 s of process CPU time separates termination from looping (operations take micro- to milliseconds of CPU)",
    ],
    "require_classes": {"thorough": [
        "file:>window", "file:>2_windows", "file:window_exact", "file:empty", "file:one_line",
        "reverse:window_moved", "reverse:long_line_at_window_edge", "reverse:line_starts_at_window_byte_1",
        "reverse:long_line_ends_at_limit+0", "reverse:long_line_ends_at_limit-1", "reverse:long_line_ends_at_limit-2",
        "probe_aligned:first_byte", "probe_aligned:line_break", "probe_aligned:max_line_end",
        "seek:present", "seek:absent_not_found", "seek:absent_too_early", "seek:absent_too_late",
        "reader_seek:present_in_rotated->found", "reader_seek:absent_gap->error", "reader_seek:absent_before_all->error",
        "reader_files:lines+lines", "reader_files:missing+lines",
    ]},
}
