"""C20 check configuration (see lib/props.py for the field meanings)."""

PROP = {
    "pkg": "internal/querylog",
    "files": ["querylog/c20_gen_test.go", "querylog/c20_file_test.go", "querylog/c20_reader_test.go"],
    "level": "exploration",
    "technique": "property-based testing (rapid) against a reference model (lines of the file, reversed; cursor "
                 "model for seek/read histories); files built so that read windows split lines at chosen offsets",
    "level_text": "TODO",
    "level_note": "TODO",
    "tests": [
        ("TestVFC20FileReverse", (300, 1500)),
        ("TestVFC20FileSeek", (400, 2500)),
        ("TestVFC20Reader", (400, 2500)),
    ],
    "plain": ["TestVFC20Regress"],
    "shards": (4, 16),
    "workers": (4, 16),
    "rule": "TODO",
    "assumptions": [],
    "require_classes": {},
    "claimed": False,
}
