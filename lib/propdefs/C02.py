"""C02 check configuration."""

PROP = {
    "thorough_scale": 4,
    "pkg": "internal/dnsforward",
    "files": ["dnsforward/common_world_test.go", "dnsforward/c01_test.go", "dnsforward/c02_test.go"],
    "level": "exploration",
    "technique": "property-based testing (rapid): generated upstream answer sections with planted offending records, "
                 "constructive expectation + per-record reference arrangement of the trusted rule library",
    "level_text": "Each case generates an upstream answer (CNAME chain 0-4, A/AAAA, HTTPS with ipv4hint/ipv6hint/alpn, "
                  "unrelated TXT/MX/NS, optionally shuffled), plants 0-2 blocking rules on values of that answer "
                  "(optionally overridden by an exception or allow-list rule for the same value, $important, $dnstype, "
                  "parent-domain forms) and sends the query through the production request path. Expected: first "
                  "filterable record (in answer order) whose value is blocked => the C01 blocking-mode response for "
                  "the question's type and no upstream record delivered, query-log entry carries original_answer; "
                  "otherwise, and under every gate (protection off, filtering off globally or for the client, query "
                  "allow-listed), the upstream answer unchanged (ipv6hint removal with AAAA disabled). In half of the "
                  "cases the proxy's DNS cache is on and the query is sent 2-3 times: answers served from the cache "
                  "must be judged like fresh ones. Answers are compared in wire form (SVCB parameters ordered by key). "
                  "Exploration.",
    "level_note": "urlfilter matching and miekg/dns are trusted; the rewritten-query gate is covered in C06's response "
                  "test, not here.",
    "tests": [
        ("TestVFC02Response", (1500, 6000)),
    ],
    "shards": (2, 16),
    "workers": (4, 16),
    "rule": "Case = (query, generated upstream answer, rule set, mode, gates). Non-trivial = answer has >=1 filterable "
            "value and >=1 planted rule touching a value; distinct = (expected class, record-kind sequence, qtype, mode, "
            "AAAA-disabled, planted rules).",
    "assumptions": ["urlfilter and miekg/dns trusted", "requests injected at the dnsproxy handler boundary"],
    "require_classes": {"thorough": ["expect:rr:a", "expect:rr:aaaa", "expect:rr:cname", "expect:rr:https",
                                      "expect:gate:query_allowlisted", "expect:clean", "log_checked"]},
}
