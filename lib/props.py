"""Per-property configuration of the /verif checks, one file per property in lib/propdefs/<ID>.py.

Each file defines PROP = {...} with:
  pkg            package directory of /repo the harness is compiled into (e.g. "internal/schedule")
  files          harness files relative to /verif/harness/ injected into that package as zz_verif_<name>_test.go
  extra_overlay  optional {path relative to /repo: file relative to /verif/harness/} for further overlay files
  race           build with -race
  level          evidence level (exploration | fault_enumeration | ...)
  technique, level_text, level_note   MANIFEST texts
  tests          [(rapid test name, (quick checks per shard, thorough checks per shard), {options})]
                 options: shards (q,t), timeout (q,t) seconds, steps, shrinktime
  plain          non-rapid tests (regression replays, enumerations) run once in both tiers
  shards         (quick, thorough) shards per rapid test (same binary, different -rapid.seed)
  workers        (quick, thorough) parallel processes
  rule           evidence "rule" sentence: how cases are generated and what makes one non-trivial/distinct
  assumptions    evidence assumptions
  require_classes {tier: [class names that must be non-zero, else exit 2]}
  env            extra environment for the test processes
  claimed        False => listed under not_applicable with na_reason
  parts          optional list of {name, pkg, files, tests, plain, race}: the property is checked by several harness
                 binaries (one per package); top-level fields are the defaults of every part
"""

import importlib.util
import os

PROPS = {}
_d = os.path.join(os.path.dirname(os.path.abspath(__file__)), "propdefs")
for _fn in sorted(os.listdir(_d)):
    if not _fn.endswith(".py"):
        continue
    _spec = importlib.util.spec_from_file_location("propdef_" + _fn[:-3], os.path.join(_d, _fn))
    _m = importlib.util.module_from_spec(_spec)
    _spec.loader.exec_module(_m)
    PROPS[_fn[:-3]] = _m.PROP
