//go:build verif

package configmigrate_test

// C13 harness, part 2: generators (every random choice is a rapid draw).

import (
	"fmt"
	"math"
	"sort"
	"strconv"
	"strings"
	"time"

	yaml "gopkg.in/yaml.v3"
	"pgregory.net/rapid"
)

var (
	vfIPv4s   = []string{"127.0.0.1", "0.0.0.0", "192.168.1.1", "10.0.0.53", "1.2.3.4"}
	vfIPv6s   = []string{"::1", "::", "2001:db8::1"}
	vfDomains = []string{"lan", "local", "home.arpa", "internal", ""}
	vfNames   = []string{"a", "b", "admin", "kid", "tv", "localhost", "x1", "Ünï", "with space", ""}
	vfSvcs    = []string{"500px", "youtube", "tiktok", "facebook", "9gag"}
	vfMACs    = []string{"aa:aa:aa:aa:aa:aa", "AA:BB:CC:DD:EE:FF", "00:00:00:00:00:01"}
	vfHosts   = []string{".", "a.test", "|.^", "*.example.com", "ads.example.org", ""}

	// vfUpstreamPool pairs an upstream as written before schema 10 with its
	// documented form afterwards ("inserts a port into QUIC upstream's hostname
	// if it is missing").
	vfUpstreamPool = []vfUpstream{
		{"tls://1.1.1.1", "tls://1.1.1.1"},
		{"8.8.8.8", "8.8.8.8"},
		{"8.8.8.8:53", "8.8.8.8:53"},
		{"https://dns.example/dns-query", "https://dns.example/dns-query"},
		{"quic://dns.example", "quic://dns.example:784"},
		{"quic://dns.example:853", "quic://dns.example:853"},
		{"quic://8.8.4.4", "quic://8.8.4.4:784"},
		{"[/lan/]quic://a.test", "[/lan/]quic://a.test:784"},
		{"[/lan/local/]tls://a.test", "[/lan/local/]tls://a.test"},
		{"# quic://commented.example", "# quic://commented.example"},
		{"[/corp/]10.0.0.1", "[/corp/]10.0.0.1"},
		{"sdns://AQcAAAAAAAAAAAAQMi5kbnNjcnlwdC1jZXJ0Lg", "sdns://AQcAAAAAAAAAAAAQMi5kbnNjcnlwdC1jZXJ0Lg"},
	}

	vfFilterURLs = []string{
		"https://adguardteam.github.io/HostlistsRegistry/assets/filter_1.txt",
		"http://lists.example/hosts.txt",
		"/etc/hosts.block",
		"/opt/lists/my list.txt",
		"relative/list.txt",
		"file:///etc/passwd",
		"",
	}
)

// rapid's integer and index generators are deliberately biased towards small
// values, which is welcome for setting values but not for structural choices
// (schema version, mutation kind, position in the text).  vfUniform spreads a
// (biased) 64-bit draw with a multiplicative hash; 0, the value rapid shrinks
// to, maps to 0.
func vfUniform(t *rapid.T, label string, n int) int {
	x := rapid.Uint64().Draw(t, label)

	return int(((x * 0x9E3779B97F4A7C15) >> 20) % uint64(n))
}

// vfChance is true in about pct percent of the draws and false when shrunk.
func vfChance(t *rapid.T, label string, pct int) bool {
	return vfUniform(t, label, 100) >= 100-pct
}

// vfPick draws an element about uniformly; shrinks to the first.
func vfPick[E any](t *rapid.T, label string, pool []E) E {
	return pool[vfUniform(t, label, len(pool))]
}

// vfHostileStrings are strings that a YAML round trip must not change.
var vfHostileStrings = []string{
	"", " ", "x", "null", "~", "true", "yes", "on", "No", "123", "0x1F", "0o17", "1e3", "1_000", ".inf", ".nan",
	"2001-01-01", "12:30:45", "<<", "=", "- x", "a: b", "#c", " lead", "trail ", "multi\nline\n", "tab\there",
	"é", "日本", "quote\"d", "it's", "{a: b}", "[1, 2]", "*alias", "&anchor", "!tag", "%dir", "@at", "`tick`",
	"back\\slash", " ", "very " + strings.Repeat("long ", 40),
	// multi-line values pasted with an empty line or a tab in front (keys, certificate chains)
	"\n-----BEGIN X-----\nabc\n-----END X-----\n", "\n\nx\ny", "\t-----BEGIN X-----\n\tabc\n", "\tx\ny",
	// shapes of upstream lines with a damaged domain part
	"[/]quic://dns.example.net", "[//]1.1.1.1", "[/", "[/a/", "[/a/]", "[/]", "quic://", "[/x/]quic://h.example:1", "]/[",
}

// vfScalarPool holds scalars of every type the YAML decoder can produce.
func vfScalarGen() *rapid.Generator[any] {
	return rapid.OneOf(
		rapid.Map(rapid.SampledFrom([]int{0, 1, -1, 42, 784, 65535, 65536, 1 << 40, math.MinInt64}), func(i int) any { return i }),
		rapid.Map(rapid.SampledFrom(vfHostileStrings), func(s string) any { return s }),
		rapid.Map(rapid.Bool(), func(b bool) any { return b }),
		rapid.Map(rapid.SampledFrom([]float64{0.5, -1.5, 1e100, math.Inf(1), math.NaN()}), func(f float64) any { return f }),
		rapid.Just[any](uint64(math.MaxUint64)),
		rapid.Just[any](time.Date(2023, 5, 6, 7, 8, 9, 0, time.UTC)),
		rapid.Just[any](nil),
	)
}

// vfValueGen draws a scalar or a small nested container (depth <= 2).
func vfValueGen(t *rapid.T, label string, depth int) any {
	k := rapid.IntRange(0, 9).Draw(t, label+"_kind")
	if depth <= 0 && k >= 7 {
		k = 0
	}
	switch k {
	case 7:
		n := rapid.IntRange(0, 3).Draw(t, label+"_n")
		l := vfList{}
		for i := 0; i < n; i++ {
			l = append(l, vfValueGen(t, fmt.Sprintf("%s_%d", label, i), depth-1))
		}

		return l
	case 8:
		n := rapid.IntRange(0, 3).Draw(t, label+"_n")
		m := vfMap{}
		for i := 0; i < n; i++ {
			key := rapid.SampledFrom([]string{"k", "name", "enabled", "ids", "x y", "1", "true", "null", ""}).Draw(t, fmt.Sprintf("%s_k%d", label, i))
			m[key] = vfValueGen(t, fmt.Sprintf("%s_%d", label, i), depth-1)
		}

		return m
	case 9:
		// a map with a non-string key, which the decoder hands out as
		// map[any]any instead of map[string]any
		return map[any]any{1: vfScalarGen().Draw(t, label+"_v"), "s": "t"}
	default:
		return vfScalarGen().Draw(t, label+"_scalar")
	}
}

// vfExtras draws 0-2 unknown keys (names no migration step mentions).
func vfExtras(t *rapid.T, label string, p int) (m vfMap) {
	m = vfMap{}
	if !vfChance(t, label+"_has", p) {
		return m
	}
	n := rapid.IntRange(1, 2).Draw(t, label+"_n")
	for i := 0; i < n; i++ {
		key := rapid.SampledFrom([]string{"x_vf_a", "x_vf_b", "x_vf_list", "X-VF weird key", "x_vf_ids", "zz_vf"}).Draw(t, fmt.Sprintf("%s_key%d", label, i))
		m[key] = vfValueGen(t, fmt.Sprintf("%s_val%d", label, i), 2)
	}

	return m
}

func vfSubset(t *rapid.T, label string, pool []string, maxN int) (out []string) {
	n := rapid.IntRange(0, maxN).Draw(t, label+"_n")
	for i := 0; i < n; i++ {
		out = append(out, rapid.SampledFrom(pool).Draw(t, fmt.Sprintf("%s_%d", label, i)))
	}

	return out
}

func vfFlags(t *rapid.T, label string) map[string]bool {
	m := map[string]bool{}
	allTrue := rapid.Bool().Draw(t, label+"_alltrue")
	for _, k := range vfSSKeys {
		m[k] = allTrue || rapid.Bool().Draw(t, label+"_"+k)
	}

	return m
}

func vfDrawIP(t *rapid.T, label string) string {
	if rapid.IntRange(0, 3).Draw(t, label+"_v6") == 0 {
		return rapid.SampledFrom(vfIPv6s).Draw(t, label)
	}

	return rapid.SampledFrom(vfIPv4s).Draw(t, label)
}

func vfDrawUpstreams(t *rapid.T, label string, maxN int) (ups []vfUpstream) {
	n := rapid.IntRange(0, maxN).Draw(t, label+"_n")
	for i := 0; i < n; i++ {
		ups = append(ups, rapid.SampledFrom(vfUpstreamPool).Draw(t, fmt.Sprintf("%s_%d", label, i)))
	}

	return ups
}

// vfDrawSettings draws settings that are valid for a document of schema v
// (e.g. a single bootstrap server before lists were introduced).  withAuth
// makes pre-5 documents carry auth_name/auth_pass (bcrypt: expensive).
func vfDrawSettings(t *rapid.T, v int, withAuth bool) (s *vfSettings) {
	b := func(l string) bool { return rapid.Bool().Draw(t, l) }
	n := func(l string, lo, hi int) int { return rapid.IntRange(lo, hi).Draw(t, l) }
	str := func(l string, pool []string) string { return rapid.SampledFrom(pool).Draw(t, l) }

	s = &vfSettings{
		ExplicitZero: b("explicit_zero"),
		BindHost:     vfDrawIP(t, "bind_host"),
		BindPort:     rapid.SampledFrom([]int{80, 3000, 8080, 1, 65535}).Draw(t, "bind_port"),
		SessionTTL:   rapid.SampledFrom([]int{1, 3, 720, 8760}).Draw(t, "session_ttl"),
		PProf:        b("pprof"),
		PProfPort:    rapid.SampledFrom([]int{6060, 6061}).Draw(t, "pprof_port"),
		Language:     str("language", []string{"", "en", "ru", "zh-cn"}),
		Rlimit:       rapid.SampledFrom([]int{0, 42, 8192}).Draw(t, "rlimit"),
		OSGroup:      str("os_group", []string{"", "nogroup"}),
		OSUser:       str("os_user", []string{"", "nobody"}),

		LogFile:       str("log_file", []string{"", "syslog", "/var/log/agh.log"}),
		LogMaxBackups: n("log_backups", 0, 3),
		LogMaxSize:    rapid.SampledFrom([]int{100, 1}).Draw(t, "log_size"),
		LogMaxAge:     n("log_age", 0, 7),
		LogCompress:   b("log_compress"),
		LogLocalTime:  b("log_localtime"),
		LogVerbose:    b("verbose"),

		DNSPort:         rapid.SampledFrom([]int{53, 5353}).Draw(t, "dns_port"),
		Ratelimit:       rapid.SampledFrom([]int{0, 20}).Draw(t, "ratelimit"),
		CacheSize:       rapid.SampledFrom([]int{0, 4194304}).Draw(t, "cache_size"),
		LocalDomain:     str("local_domain", vfDomains),
		Upstreams:       vfDrawUpstreams(t, "upstream", 4),
		LocalPTR:        vfDrawUpstreams(t, "local_ptr", 2),
		QlogEnabled:     b("qlog_enabled"),
		QlogFileEnabled: b("qlog_file_enabled"),
		QlogDays:        rapid.SampledFrom([]int{1, 7, 30, 90}).Draw(t, "qlog_days"),
		QlogMem:         rapid.SampledFrom([]int{0, 1000}).Draw(t, "qlog_mem"),
		QlogIgnored:     vfSubset(t, "qlog_ignored", vfHosts, 3),
		StatsIgnored:    vfSubset(t, "stats_ignored", vfHosts, 3),
		StatsEnabled:    b("stats_enabled"),
		StatsDays:       rapid.SampledFrom([]int{1, 7, 30, 90}).Draw(t, "stats_days"),
		EDNS:            b("edns"),
		EDNSUseCustom:   b("edns_use_custom"),
		EDNSCustomIP:    str("edns_custom_ip", []string{"", "1.2.3.4", "2001:db8::1"}),
		SafeSearch:      b("safesearch"),
		SSFlags:         vfFlags(t, "ss"),
		RDNS:            b("rdns"),
		SrcWHOIS:        b("src_whois"),
		SrcARP:          b("src_arp"),
		SrcDHCP:         b("src_dhcp"),
		SrcHosts:        b("src_hosts"),
		Blocked:         vfSubset(t, "blocked", vfSvcs, 3),
		BlockedTZ:       str("blocked_tz", []string{"Local", "UTC"}),
		AllServers:      b("all_servers"),
		FastestAddr:     b("fastest_addr"),
		UpstreamMode:    str("upstream_mode", []string{"load_balance", "parallel", "fastest_addr"}),
		SafePatterns:    vfSubset(t, "safe_patterns", []string{"/opt/AdGuardHome/data/userfilters/*", "/etc/hosts.block"}, 2),

		DHCPEnabled: false,
		DHCPIface:   str("dhcp_iface", []string{"", "eth0", "vboxnet0"}),
		DHCPGateway: str("dhcp_gw", []string{"", "192.168.56.1"}),
		DHCPMask:    str("dhcp_mask", []string{"", "255.255.255.0"}),
		DHCPStart:   str("dhcp_start", []string{"", "192.168.56.10"}),
		DHCPEnd:     str("dhcp_end", []string{"", "192.168.56.240"}),
		DHCPLease:   rapid.SampledFrom([]int{0, 86400, 1234}).Draw(t, "dhcp_lease"),
		DHCPICMP:    rapid.SampledFrom([]int{0, 10, 1000}).Draw(t, "dhcp_icmp"),
		UserRules:   vfSubset(t, "user_rules", []string{"||ads.test^", "@@||ok.test^", "# c", ""}, 3),
		TLS: vfMap{
			"enabled": false, "server_name": str("tls_sn", []string{"", "dns.example.org"}), "port_https": 443,
			"port_dns_over_tls": 853, "certificate_chain": "", "private_key": "",
		},
	}

	// Lists that had a single value in the oldest schemas.
	if v < 3 {
		s.Bootstrap = []string{str("bootstrap0", []string{"1.1.1.1", "8.8.8.8:53", "tls://dns.example"})}
	} else {
		s.Bootstrap = vfSubset(t, "bootstrap", []string{"1.1.1.1", "8.8.8.8:53", "tls://dns.example"}, 3)
	}
	if v < 8 {
		s.DNSBindHosts = []string{vfDrawIP(t, "dns_bind_host")}
	} else {
		k := n("dns_bind_hosts_n", 1, 3)
		for i := 0; i < k; i++ {
			s.DNSBindHosts = append(s.DNSBindHosts, vfDrawIP(t, fmt.Sprintf("dns_bind_host_%d", i)))
		}
	}

	s.Filt = vfMap{
		"filtering_enabled":         b("f_filtering_enabled"),
		"filters_update_interval":   rapid.SampledFrom([]int{24, 1, 12, 72, 168}).Draw(t, "f_update_ivl"),
		"parental_enabled":          b("f_parental"),
		"safebrowsing_enabled":      b("f_safebrowsing"),
		"safebrowsing_cache_size":   rapid.SampledFrom([]int{1048576, 0}).Draw(t, "f_sb_cache"),
		"safesearch_cache_size":     rapid.SampledFrom([]int{1048576, 1}).Draw(t, "f_ss_cache"),
		"parental_cache_size":       rapid.SampledFrom([]int{1048576, 2}).Draw(t, "f_pc_cache"),
		"protection_enabled":        b("f_protection"),
		"blocking_mode":             str("f_mode", []string{"default", "refused", "nxdomain", "null_ip", "custom_ip"}),
		"blocking_ipv4":             str("f_ipv4", []string{"", "1.2.3.4"}),
		"blocking_ipv6":             str("f_ipv6", []string{"", "1:2:3::4"}),
		"blocked_response_ttl":      rapid.SampledFrom([]int{10, 0, 3600}).Draw(t, "f_ttl"),
		"protection_disabled_until": nil,
		"parental_block_host":       str("f_pbh", []string{"family-block.dns.adguard.com", "p.dns.adguard.com"}),
		"safebrowsing_block_host":   str("f_sbh", []string{"standard-block.dns.adguard.com", "s.dns.adguard.com"}),
	}
	rw := vfList{}
	for i, k := 0, n("rewrites_n", 0, 2); i < k; i++ {
		rw = append(rw, vfMap{
			"domain": str(fmt.Sprintf("rw_dom_%d", i), []string{"a.test", "*.b.test"}),
			"answer": str(fmt.Sprintf("rw_ans_%d", i), []string{"1.2.3.4", "c.test", "A"}),
		})
	}
	s.Filt["rewrites"] = rw

	if v < 5 {
		if withAuth {
			s.Auth = &vfUser{
				Name:     str("auth_name", vfNames),
				Password: str("auth_pass", []string{"testpassword", "", "pässwörd", "p w", strings.Repeat("x", 72)}),
			}
		}
	} else {
		for i, k := 0, n("users_n", 0, 2); i < k; i++ {
			s.Users = append(s.Users, vfUser{
				Name:     str(fmt.Sprintf("user_name_%d", i), vfNames),
				Password: str(fmt.Sprintf("user_pass_%d", i), []string{"$2a$10$abcdefghijklmnopqrstuuJ6Gk9TqTe0m3cbl1qX5s8nZt3F0y1cK", "testpassword", ""}),
			})
		}
		if s.Users == nil && b("users_empty_list") {
			s.Users = []vfUser{}
		}
	}

	for i, k := 0, n("clients_n", 0, 3); i < k; i++ {
		l := fmt.Sprintf("client%d_", i)
		c := vfClient{
			Name:              str(l+"name", vfNames),
			UseGlobalBlocked:  b(l + "ugbs"),
			UseGlobalSettings: b(l + "ugs"),
			SafeSearch:        b(l + "safesearch"),
			SSFlags:           vfFlags(t, l+"ss"),
			HasBlocked:        b(l + "has_blocked"),
			Blocked:           vfSubset(t, l+"blocked", vfSvcs, 2),
			BlockedTZ:         str(l+"tz", []string{"Local", "UTC"}),
			Extra:             vfExtras(t, l+"extra", 25),
		}
		if v < 6 {
			// a client is identified by an address, a MAC, or both
			switch n(l+"idkind", 0, 2) {
			case 0:
				ip := vfDrawIP(t, l+"ip")
				c.IP = &ip
			case 1:
				mac := str(l+"mac", vfMACs)
				c.MAC = &mac
			default:
				ip, mac := vfDrawIP(t, l+"ip"), str(l+"mac", vfMACs)
				c.IP, c.MAC = &ip, &mac
			}
		} else {
			c.IDs = vfSubset(t, l+"ids", append(append([]string{"kid-laptop", "192.168.0.0/24"}, vfIPv4s...), vfMACs...), 3)
		}
		s.Clients = append(s.Clients, c)
	}

	for i, k := 0, n("filters_n", 0, 4); i < k; i++ {
		l := fmt.Sprintf("filter%d_", i)
		s.Filters = append(s.Filters, vfFilter{
			Enabled: b(l + "enabled"),
			URL:     str(l+"url", vfFilterURLs),
			Name:    str(l+"name", vfNames),
			ID:      rapid.SampledFrom([]int{1, 2, 1234, 1700000000}).Draw(t, l+"id"),
			Extra:   vfExtras(t, l+"extra", 15),
		})
	}

	s.TopExtra = vfExtras(t, "top_extra", 40)
	s.DNSExtra = vfExtras(t, "dns_extra", 40)
	s.DHCPExtra = vfExtras(t, "dhcp_extra", 25)
	s.HTTPExtra = vfExtras(t, "http_extra", 25)
	s.FiltExtra = vfExtras(t, "filtering_extra", 25)
	s.QlogExtra = vfExtras(t, "querylog_extra", 25)
	s.StatsExtra = vfExtras(t, "statistics_extra", 25)

	return s
}

// vfFingerprint is the part of the settings that steers which branches of the
// steps run; it goes into the distinctness key of class (b) cases.
func vfFingerprint(s *vfSettings) string {
	quic, absURL := false, false
	for _, u := range append(append([]vfUpstream{}, s.Upstreams...), s.LocalPTR...) {
		if u.Raw != u.Migrated {
			quic = true
		}
	}
	for _, f := range s.Filters {
		if strings.HasPrefix(f.URL, "/") {
			absURL = true
		}
	}
	dots := false
	for _, h := range append(append([]string{}, s.QlogIgnored...), s.StatsIgnored...) {
		if h == "." {
			dots = true
		}
	}

	return fmt.Sprintf("v6=%t auth=%t users=%d clients=%d filters=%d quic=%t abs=%t dots=%t stats=%t/%d all=%t fast=%t edns=%t ss=%t",
		strings.Contains(s.BindHost, ":"), s.Auth != nil, len(s.Users), len(s.Clients), len(s.Filters), quic, absURL, dots,
		s.StatsEnabled, s.StatsDays, s.AllServers, s.FastestAddr, s.EDNS, s.SafeSearch)
}

// ---------------------------------------------------------------------------
// shape mutations (class a)

// vfSlot addresses one entry of a container inside a document tree.
type vfSlot struct {
	m    vfMap
	l    vfList
	key  string
	idx  int
	path string // canonical: list indexes are written "[]"
	top  bool
}

func (s vfSlot) get() any {
	if s.m != nil {
		return s.m[s.key]
	}

	return s.l[s.idx]
}

func (s vfSlot) set(v any) {
	if s.m != nil {
		s.m[s.key] = v
	} else {
		s.l[s.idx] = v
	}
}

// vfSlots enumerates the entries of the tree up to the given depth, in a
// deterministic order.
func vfSlots(m vfMap, prefix string, depth int, out *[]vfSlot) {
	for _, k := range vfSortedKeys(m) {
		p := k
		if prefix != "" {
			p = prefix + "." + k
		}
		*out = append(*out, vfSlot{m: m, key: k, path: p, top: prefix == ""})
		if depth > 0 {
			vfSlotsIn(m[k], p, depth-1, out)
		}
	}
}

func vfSlotsIn(v any, p string, depth int, out *[]vfSlot) {
	switch x := v.(type) {
	case vfMap:
		vfSlots(x, p, depth, out)
	case vfList:
		for i := range x {
			*out = append(*out, vfSlot{l: x, idx: i, path: p + "[]"})
			if depth > 0 {
				vfSlotsIn(x[i], p+"[]", depth-1, out)
			}
		}
	}
}

// vfWrongScalar draws a scalar whose type differs from cur's.
func vfWrongScalar(t *rapid.T, cur any, label string) any {
	pool := []any{
		0, 1, -7, 65536, "str", "", "true", "12", true, false, 1.5, math.Inf(-1), uint64(math.MaxUint64),
		time.Date(2021, 2, 3, 0, 0, 0, 0, time.UTC),
	}
	var cands []any
	for _, c := range pool {
		if fmt.Sprintf("%T", c) != fmt.Sprintf("%T", cur) {
			cands = append(cands, c)
		}
	}
	if i, isInt := cur.(int); isInt && i > -1<<50 && i < 1<<50 {
		// the same number in the spelling of a float (24.0), which the typed
		// loaders of all schemas take for an integer setting
		cands = append(cands, float64(i), float64(i), float64(24), float64(500000))
	}

	return rapid.SampledFrom(cands).Draw(t, label)
}

// vfMutate applies one shape mutation to the document and returns its
// canonical description ("path:kind").  other is a valid document of another
// schema version used as a source of keys that do not belong here.
func vfMutate(t *rapid.T, doc vfMap, other vfMap, i int) (desc string) {
	l := fmt.Sprintf("mut%d_", i)
	var slots []vfSlot
	vfSlots(doc, "", 2, &slots)
	var tops []vfSlot
	for _, s := range slots {
		if s.top && s.key != "schema_version" {
			tops = append(tops, s)
		}
	}
	if len(tops) == 0 {
		doc["x_vf_only"] = nil

		return "x_vf_only:extra"
	}

	kind := vfPick(t, l+"kind", []string{
		"null", "null", "null", "delete", "scalar", "scalar", "swap_container", "swap_container", "nested_null",
		"nested_null", "empty", "inject", "inject", "extra", "list_elem", "list_elem", "list_elem",
		"null_section", "null_section",
	})

	switch kind {
	case "null_section":
		// "dns:" with nothing under it: a whole section (object or list) null
		var secs []vfSlot
		for _, s := range tops {
			switch s.get().(type) {
			case vfMap, vfList:
				secs = append(secs, s)
			}
		}
		if len(secs) == 0 {
			break
		}
		s := vfPick(t, l+"section", secs)
		s.set(nil)

		return s.path + ":null"
	case "list_elem":
		// an element of a list (clients, filters, upstreams, ignored hosts, ...)
		// that is null or of another type than its siblings
		var lists []vfSlot
		for _, s := range slots {
			if _, isList := s.get().(vfList); isList && s.m != nil {
				lists = append(lists, s)
			}
		}
		if len(lists) == 0 {
			break
		}
		s := vfPick(t, l+"list", lists)
		lst := s.get().(vfList)
		elem := vfPick(t, l+"elem", []any{nil, nil, 7, "str", true, vfMap{}, vfList{}, vfMap{"name": nil}, 1.5,
			// lines of an upstream list with a damaged domain part
			"[/]quic://dns.example.net", "[/]quic://dns.example.net", "[/", "[//]1.1.1.1", "[/a/", "quic://"})
		if len(lst) == 0 || vfChance(t, l+"elem_append", 40) {
			s.set(append(lst, vfClone(elem)))
		} else {
			lst[vfUniform(t, l+"elem_idx", len(lst))] = vfClone(elem)
		}

		return s.path + "[]:" + fmt.Sprintf("elem_%T", elem)
	case "inject":
		// a key of another schema's layout, at top level or inside dns
		keys := vfSortedKeys(other)
		k := vfPick(t, l+"inject_key", keys)
		if k == "schema_version" {
			k = "dns"
		}
		if od, ok := other[k].(vfMap); ok && rapid.Bool().Draw(t, l+"inject_sub") {
			dst, _ := doc[k].(vfMap)
			if dst == nil {
				if dd, isMap := doc["dns"].(vfMap); isMap && k == "coredns" {
					dst = dd
				} else if dd, isMap = doc["coredns"].(vfMap); isMap && k == "dns" {
					dst = dd
				}
			}
			if dst != nil && len(od) > 0 {
				sk := vfPick(t, l+"inject_subkey", vfSortedKeys(od))
				dst[sk] = vfClone(od[sk])

				return k + "." + sk + ":inject"
			}
		}
		doc[k] = vfClone(other[k])

		return k + ":inject"
	case "extra":
		var target vfMap
		where := "top"
		if rapid.Bool().Draw(t, l+"extra_top") {
			target = doc
		} else {
			s := vfPick(t, l+"extra_in", tops)
			if sm, ok := s.get().(vfMap); ok {
				target, where = sm, s.path
			} else {
				target = doc
			}
		}
		for k, v := range vfExtras(t, l+"extra", 100) {
			target[k] = v
		}

		return where + ":extra"
	}

	var s vfSlot
	if vfChance(t, l+"top", 40) {
		s = vfPick(t, l+"slot_top", tops)
	} else {
		s = vfPick(t, l+"slot", slots)
		if s.top && s.key == "schema_version" {
			s = tops[0]
		}
	}
	cur := s.get()

	switch kind {
	case "null", "list_elem", "null_section":
		kind = "null"
		s.set(nil)
	case "delete":
		if s.m != nil {
			delete(s.m, s.key)
		} else {
			s.set(nil)
			kind = "null"
		}
	case "scalar":
		s.set(vfWrongScalar(t, cur, l+"scalar"))
	case "swap_container":
		switch x := cur.(type) {
		case vfMap:
			// list instead of map
			lst := vfList{}
			if rapid.Bool().Draw(t, l+"swap_keep") {
				for _, k := range vfSortedKeys(x) {
					lst = append(lst, x[k])
				}
			}
			s.set(lst)
			kind = "list_for_map"
		case vfList:
			// map instead of list
			mp := vfMap{}
			if rapid.Bool().Draw(t, l+"swap_keep") {
				for i, e := range x {
					mp[fmt.Sprintf("k%d", i)] = e
				}
			}
			s.set(mp)
			kind = "map_for_list"
		default:
			if rapid.Bool().Draw(t, l+"swap_to_map") {
				s.set(vfMap{"value": cur})
				kind = "map_for_scalar"
			} else {
				s.set(vfList{cur})
				kind = "list_for_scalar"
			}
		}
	case "nested_null":
		switch x := cur.(type) {
		case vfMap:
			if len(x) == 0 {
				x["x_vf_null"] = nil
			} else {
				x[vfPick(t, l+"nested_key", vfSortedKeys(x))] = nil
			}
		case vfList:
			if len(x) == 0 || rapid.Bool().Draw(t, l+"nested_append") {
				s.set(append(x, nil))
			} else {
				x[rapid.IntRange(0, len(x)-1).Draw(t, l+"nested_idx")] = nil
			}
		default:
			s.set(nil)
			kind = "null"
		}
	case "empty":
		switch cur.(type) {
		case vfMap:
			s.set(vfMap{})
			kind = "empty_map"
		case vfList:
			s.set(vfList{})
			kind = "empty_list"
		default:
			s.set("")
			kind = "empty_string"
		}
	}

	return s.path + ":" + kind
}

// ---------------------------------------------------------------------------
// serialisation of a tree into YAML text (trusted library; the harness only
// chooses key order, flow/block style and harmless decorations)

type vfTextStyle struct {
	Shuffle bool
	Flow    bool
	Prolog  string
}

func vfDrawStyle(t *rapid.T) (st vfTextStyle) {
	st.Shuffle = vfChance(t, "text_shuffle", 25)
	st.Flow = vfChance(t, "text_flow", 15)
	st.Prolog = vfPick(t, "text_prolog", []string{"", "", "", "---\n", "# edited by hand\n", "%YAML 1.1\n---\n"})

	return st
}

func vfToNode(t *rapid.T, v any, st vfTextStyle, label string, depth int) (n *yaml.Node, err error) {
	switch x := v.(type) {
	case vfMap:
		n = &yaml.Node{Kind: yaml.MappingNode, Tag: "!!map"}
		if st.Flow && depth >= 2 {
			n.Style = yaml.FlowStyle
		}
		keys := vfSortedKeys(x)
		if st.Shuffle && len(keys) > 1 {
			keys = rapid.Permutation(keys).Draw(t, label+"_order")
		}
		for _, k := range keys {
			kn := &yaml.Node{}
			if err = kn.Encode(k); err != nil {
				return nil, err
			}
			var vn *yaml.Node
			vn, err = vfToNode(t, x[k], st, label+"."+k, depth+1)
			if err != nil {
				return nil, err
			}
			n.Content = append(n.Content, kn, vn)
		}

		return n, nil
	case vfList:
		n = &yaml.Node{Kind: yaml.SequenceNode, Tag: "!!seq"}
		if st.Flow && depth >= 2 {
			n.Style = yaml.FlowStyle
		}
		for i, e := range x {
			var en *yaml.Node
			en, err = vfToNode(t, e, st, fmt.Sprintf("%s[%d]", label, i), depth+1)
			if err != nil {
				return nil, err
			}
			n.Content = append(n.Content, en)
		}

		return n, nil
	case string:
		if sn, ok := vfEncodable(x).(*yaml.Node); ok {
			return sn, nil
		}
		n = &yaml.Node{}
		err = n.Encode(v)

		return n, err
	case time.Time:
		// Node.Encode would produce a quoted (string) scalar here.
		return &yaml.Node{Kind: yaml.ScalarNode, Tag: "!!timestamp", Value: x.Format(time.RFC3339Nano)}, nil
	case float64:
		if vfIntegralFloat(x) {
			// the encoder would print 24, which reads back as an integer
			return &yaml.Node{Kind: yaml.ScalarNode, Tag: "!!float", Value: strconv.FormatFloat(x, 'f', 1, 64)}, nil
		}
		n = &yaml.Node{}
		err = n.Encode(v)

		return n, err
	default:
		n = &yaml.Node{}
		err = n.Encode(vfEncodable(v))

		return n, err
	}
}

// vfIntegralFloat reports whether x is a float with an integral value that the
// YAML encoder would print like an integer.
func vfIntegralFloat(x float64) (ok bool) {
	return !math.IsInf(x, 0) && !math.IsNaN(x) && x == math.Trunc(x) && math.Abs(x) < 1e15
}

// vfHasIntegralFloat reports whether the tree holds such a value.
func vfHasIntegralFloat(v any) (ok bool) {
	switch x := v.(type) {
	case vfMap:
		for _, e := range x {
			if vfHasIntegralFloat(e) {
				return true
			}
		}
	case vfList:
		for _, e := range x {
			if vfHasIntegralFloat(e) {
				return true
			}
		}
	case float64:
		return vfIntegralFloat(x)
	}

	return false
}

// vfText serialises the document.
// vfEncodable returns a copy of the tree in which the strings that the YAML
// library does not write the way they read back (several lines, beginning with
// a line break or a tab) are nodes in the double-quoted style.  The harness
// needs valid text for what it generated; it says nothing about the code.
func vfEncodable(v any) any {
	switch x := v.(type) {
	case string:
		if strings.Contains(x, "\n") && (x[0] == '\n' || x[0] == '\t') {
			return &yaml.Node{Kind: yaml.ScalarNode, Tag: "!!str", Value: x, Style: yaml.DoubleQuotedStyle}
		}
	case vfMap:
		c := make(vfMap, len(x))
		for k, e := range x {
			c[k] = vfEncodable(e)
		}

		return c
	case vfList:
		c := make(vfList, len(x))
		for i, e := range x {
			c[i] = vfEncodable(e)
		}

		return c
	case map[any]any:
		c := make(map[any]any, len(x))
		for k, e := range x {
			c[k] = vfEncodable(e)
		}

		return c
	}

	return v
}

func vfText(t *rapid.T, doc vfMap, st vfTextStyle) (b []byte, err error) {
	if !st.Shuffle && !st.Flow && !vfHasIntegralFloat(doc) {
		b, err = yaml.Marshal(vfEncodable(doc))
	} else {
		var n *yaml.Node
		n, err = vfToNode(t, doc, st, "doc", 0)
		if err == nil {
			b, err = yaml.Marshal(n)
		}
		if err == nil {
			// The node encoder quotes some scalars (timestamps); if the text does
			// not read back as the intended tree, use the plain encoding.
			want, werr := vfNormalize(doc)
			got, gerr := vfDecode(b)
			if werr != nil || gerr != nil || vfDiff(want, got, "") != "" {
				b, err = yaml.Marshal(vfEncodable(doc))
			}
		}
	}
	if err != nil {
		return nil, err
	}

	return append([]byte(st.Prolog), b...), nil
}

func vfSortedDescs(d []string) string {
	c := append([]string{}, d...)
	sort.Strings(c)

	return strings.Join(c, ",")
}
