//go:build verif

package configmigrate_test

// C13 harness, part 4: frozen failing cases (plain tests, no rapid) and the
// known-findings protocol (HARNESS_GUIDE rule 10).

import (
	"fmt"
	"os"
	"path/filepath"
	"strings"
	"testing"

	"github.com/AdguardTeam/AdGuardHome/internal/vfkit"
	yaml "gopkg.in/yaml.v3"
)

const (
	// vfSigNullObject: a top-level section that the steps edit as an object
	// is an explicit null ("dns:" with nothing after it).
	vfSigNullObject = "null-object-section"
	// vfSigNullDocument: the whole document is an explicit null ("---", "~").
	vfSigNullDocument = "null-document"
)

// vfObjectSections are the top-level keys whose value the steps modify as an
// object.
var vfObjectSections = []string{"dns", "coredns", "dhcp", "statistics", "http", "filtering"}

// vfIsNullDocument reports whether the text holds a document whose root is an
// explicit null (as opposed to no document at all).
func vfIsNullDocument(body []byte) bool {
	var n yaml.Node
	if yaml.Unmarshal(body, &n) != nil || n.Kind != yaml.DocumentNode || len(n.Content) != 1 {
		return false
	}
	root := n.Content[0]

	return root.Kind == yaml.ScalarNode && root.Tag == "!!null"
}

// vfKnownShape returns the signature of the open known finding that the
// document falls under, or "".  Shapes are only ever excluded when
// /verif/known_findings.json lists the finding as open.
func vfKnownShape(body []byte, in vfMap) (sig string) {
	if _, open := vfkit.KnownOpen("C13", vfSigNullDocument); open && vfIsNullDocument(body) {
		return vfSigNullDocument
	}
	if _, open := vfkit.KnownOpen("C13", vfSigNullObject); open {
		for _, k := range vfObjectSections {
			if v, has := in[k]; has && v == nil {
				return vfSigNullObject
			}
		}
	}

	return ""
}

// vfRecorder collects the first failure instead of failing the test, so that a
// regression case can be reported as a known finding.
type vfRecorder struct{ msg string }

type vfAbort struct{}

func (r *vfRecorder) Fatalf(format string, args ...any) {
	r.msg = fmt.Sprintf(format, args...)
	panic(vfAbort{})
}

func (r *vfRecorder) Helper() {}

// vfRunRecorded runs fn and returns the failure message, "" if it passed.
func vfRunRecorded(fn func(t vfT)) (msg string) {
	r := &vfRecorder{}
	func() {
		defer func() {
			if p := recover(); p != nil {
				if _, ok := p.(vfAbort); !ok {
					panic(p)
				}
			}
		}()
		fn(r)
	}()

	return r.msg
}

type vfRegressCase struct {
	name string
	text string
}

func vfRunRegress(t *testing.T, sig string, cases []vfRegressCase) {
	what, open := vfkit.KnownOpen("C13", sig)
	for _, rc := range cases {
		msg := vfRunRecorded(func(rt vfT) {
			c := &vfCase{body: []byte(rc.text), ver: -1, dirs: vfNewDirs(rt)}
			defer c.dirs.remove()
			in, err := vfDecode(c.body)
			if err == nil {
				if in == nil {
					in = vfMap{}
				}
				c.in, c.ver = in, vfVersionOf(in)
			}
			vfC13.Eval()
			vfC13.Class("class:regression")
			vfC13.Nontrivial("regress|" + rc.name)
			res := vfCheckUpgrade(rt, c)
			if !res.ok {
				_, _, merr := vfMigrate(rt, c.dirs, c.body, vfLast)
				rt.Fatalf("%s: a document that only leaves sections empty was refused: %v\n%s", rc.name, merr, rc.text)
			}
			vfSample("regression", c, res, vfMap{"name": rc.name})
		})
		if msg == "" {
			continue
		}
		first, _, _ := strings.Cut(msg, "\n")
		if open {
			vfC13.KnownLine(fmt.Sprintf("signature=%s case=%q: %s (%s)", sig, rc.name, first, what))

			continue
		}
		t.Errorf("%s: %s", rc.name, msg)
	}
}

// TestVFC13RegressNullObject: "dns:" (and the other object sections) with an
// explicit null value made Migrate panic with "assignment to entry in nil map".
func TestVFC13RegressNullObject(t *testing.T) {
	vfkit.Begin(t)
	vfRunRegress(t, vfSigNullObject, []vfRegressCase{
		{"dns_null_no_version", "dns:\n"},
		{"dns_null_v11", "schema_version: 11\ndns:\n"},
		{"dns_null_v16", "schema_version: 16\ndns: null\n"},
		{"dns_null_v27", "schema_version: 27\ndns: ~\n"},
		{"coredns_null_v1", "schema_version: 1\ncoredns:\n"},
		{"dhcp_null_v6", "schema_version: 6\ndhcp:\n"},
		{"dhcp_null_v12_with_domain", "schema_version: 12\ndns:\n  local_domain_name: lan\ndhcp:\n"},
		{"statistics_null_v19", "schema_version: 19\nstatistics:\n"},
		{"http_null_v24", "schema_version: 24\nhttp:\n"},
		{"filtering_null_v28", "schema_version: 28\nfiltering:\nfilters:\n- url: /etc/hosts.block\n  name: x\n  enabled: true\n  id: 1\n"},
		{"everything_null_v0", "coredns:\ndhcp:\nclients:\nstatistics:\nhttp:\nfiltering:\nfilters:\nquerylog:\nusers:\n"},
	})
}

// TestVFC13RegressNullDocument: a configuration file that is an explicit null
// document made Migrate panic in the very first step.
func TestVFC13RegressNullDocument(t *testing.T) {
	vfkit.Begin(t)
	vfRunRegress(t, vfSigNullDocument, []vfRegressCase{
		{"document_start_only", "---\n"},
		{"tilde", "~\n"},
		{"null_word", "null\n"},
		{"comment_then_null", "# AdGuard Home configuration\n--- ~\n...\n"},
		{"empty_file", ""},
		{"only_comment", "# nothing here\n"},
	})
}

// TestVFC13Golden: the repository's own golden inputs (one per schema version,
// testdata/TestMigrateConfig_Migrate/vN/input.yml) are documents valid under
// their schema; unlike the repository's test, which applies one step to each,
// they are upgraded all the way here, with every oracle, and handed to the
// loader.  (Enumeration, no rapid.)
func TestVFC13Golden(t *testing.T) {
	vfkit.Begin(t)
	root := os.Getenv("VERIF_REPO")
	if root == "" {
		root = "/repo"
	}
	dir := filepath.Join(root, "internal", "configmigrate", "testdata", "TestMigrateConfig_Migrate")
	n := 0
	for v := 1; v <= vfLast; v++ {
		body, err := os.ReadFile(filepath.Join(dir, fmt.Sprintf("v%d", v), "input.yml"))
		if err != nil {
			// not every version has a golden file (v28 has none)
			continue
		}
		n++
		in, derr := vfDecode(body)
		if derr != nil || in == nil {
			t.Errorf("golden input v%d does not decode: %v", v, derr)

			continue
		}
		c := &vfCase{body: body, in: in, ver: vfVersionOf(in), dirs: vfNewDirs(t)}
		if pass, isStr := in["auth_pass"].(string); isStr && c.ver < 5 {
			// step 5 (bcrypt) is expensive: three split points only
			c.pass = &pass
			c.splits = []int{c.ver + 1, 5, vfLast - 1}
		}
		vfC13.Eval()
		vfC13.Class("class:b_golden")
		vfC13.Nontrivial(fmt.Sprintf("golden|v%d", v))
		res := vfCheckValid(t, c, nil)
		vfSample("golden_input", c, res, vfMap{"file": fmt.Sprintf("v%d/input.yml", v)})
		c.dirs.remove()
	}
	if n == 0 {
		t.Logf("no golden inputs found under %s", dir)
		vfC13.Class("golden:missing")
	}
}
