//go:build verif

package configmigrate_test

// C13 harness, part 3: oracles and tests.
//
// Property C13: upgrading a configuration file from any historical schema
// version never panics; it either fails with an error, leaving the content
// unchanged, or produces a document stamped with the current schema version,
// which the current loader accepts whenever the input was valid under its own
// schema.  The result does not depend on the upgrade being done in one run or
// in several partial runs, upgrading a current file changes nothing, and
// settings a step does not concern are preserved.

import (
	"bytes"
	"fmt"
	"io"
	"math"
	"os"
	"path/filepath"
	"runtime/debug"
	"strings"
	"sync"
	"testing"

	"github.com/AdguardTeam/AdGuardHome/internal/configmigrate"
	"github.com/AdguardTeam/AdGuardHome/internal/home"
	"github.com/AdguardTeam/AdGuardHome/internal/vfkit"
	"github.com/AdguardTeam/golibs/log"
	"golang.org/x/crypto/bcrypt"
	yaml "gopkg.in/yaml.v3"
	"pgregory.net/rapid"
)

var vfC13 = vfkit.For("C13")

var vfQuietOnce sync.Once

func vfQuiet() { vfQuietOnce.Do(func() { log.SetOutput(io.Discard) }) }

// vfT is what the oracles need from *rapid.T and *testing.T.
type vfT interface {
	Fatalf(format string, args ...any)
	Helper()
}

// vfDirs is the per-case working and data directory pair of the migrator.
type vfDirs struct{ root, work, data string }

func vfNewDirs(t vfT) (d vfDirs) {
	root, err := os.MkdirTemp("", "vfc13-")
	if err != nil {
		t.Fatalf("VERIF-INCONCLUSIVE cannot create temp dir: %v", err)
	}
	d = vfDirs{root: root, work: filepath.Join(root, "work"), data: filepath.Join(root, "work", "data")}
	if err = os.MkdirAll(d.data, 0o755); err != nil {
		t.Fatalf("VERIF-INCONCLUSIVE cannot create temp dir: %v", err)
	}

	return d
}

func (d vfDirs) remove() { _ = os.RemoveAll(d.root) }

// vfMigrate calls the code under test.  A panic becomes a test failure (so
// that rapid shrinks it); so does a modification of the caller's input slice.
func vfMigrate(t vfT, d vfDirs, body []byte, target uint) (out []byte, upgraded bool, err error) {
	t.Helper()
	vfQuiet()
	keep := bytes.Clone(body)
	func() {
		defer func() {
			if r := recover(); r != nil {
				t.Fatalf("panic in Migrate(target=%d): %v\ninput document:\n%s\n%s", target, r, keep, debug.Stack())
			}
		}()
		m := configmigrate.New(&configmigrate.Config{WorkingDir: d.work, DataDir: d.data})
		out, upgraded, err = m.Migrate(body, target)
	}()
	if !bytes.Equal(keep, body) {
		t.Fatalf("Migrate(target=%d) modified the caller's input bytes\nbefore:\n%s\nafter:\n%s", target, keep, body)
	}

	return out, upgraded, err
}

// vfCase is one document handed to the upgrade together with what the model
// knows about it.
type vfCase struct {
	body []byte
	// in is the document as decoded by the YAML library; nil if it is not a
	// mapping or does not parse.
	in vfMap
	// ver is the schema version the document claims: 0 when the key is absent
	// or null, the number for 0..29, -1 for anything else (not a historical
	// version: only the error-or-stamped disjunction is asserted).
	ver int
	// aliased documents share sub-trees between keys (YAML anchors); they are
	// outside the quantifier, only the crash/error/stamp oracles apply.
	aliased bool
	// pass is the clear-text password whose bcrypt hash step 5 produces.
	pass *string
	// splits lists the split points to try; nil means every k in (ver, 29).
	splits []int
	// legacyFiles makes the case plant dnsfilter.txt and Corefile.
	legacyFiles bool
	dirs        vfDirs
}

type vfResult struct {
	ok   bool // upgrade succeeded (or nothing to do)
	out  []byte
	tree vfMap
}

func vfVersionOf(in vfMap) int {
	val, ok := in["schema_version"]
	if !ok || val == nil {
		return 0
	}
	if i, isInt := val.(int); isInt && i >= 0 && i <= vfLast {
		return i
	}

	return -1
}

// vfVerifyHashes replaces every users[].password that is a bcrypt hash of pass
// by a placeholder, so that trees with differently salted hashes compare equal
// exactly when both hold a hash of the right password.
func vfVerifyHashes(tree vfMap, pass *string) {
	if pass == nil {
		return
	}
	users, _ := tree["users"].(vfList)
	for _, u := range users {
		um, _ := u.(vfMap)
		h, isStr := um["password"].(string)
		if isStr && strings.HasPrefix(h, "$2") && bcrypt.CompareHashAndPassword([]byte(h), []byte(*pass)) == nil {
			um["password"] = vfHashPlaceholder
		}
	}
}

func vfStamp(tree vfMap) string { return vfShow(tree["schema_version"]) }

// vfCheckUpgrade runs the upgrade of one document and asserts everything the
// property states for arbitrary documents.
func vfCheckUpgrade(t vfT, c *vfCase) (res vfResult) {
	t.Helper()

	if c.legacyFiles {
		for _, fn := range []string{"dnsfilter.txt", "Corefile"} {
			if err := os.WriteFile(filepath.Join(c.dirs.work, fn), []byte("legacy\n"), 0o644); err != nil {
				t.Fatalf("VERIF-INCONCLUSIVE cannot write %s: %v", fn, err)
			}
		}
	}

	out, upgraded, err := vfMigrate(t, c.dirs, c.body, vfLast)

	// --- failure: the content is unchanged -------------------------------
	if err != nil {
		vfC13.Class("outcome:error")
		if upgraded || !bytes.Equal(out, c.body) {
			t.Fatalf("Migrate failed (%v) but returned upgraded=%t and a body that differs from the input\ninput:\n%s\nreturned:\n%s",
				err, upgraded, c.body, out)
		}
		if c.ver < 0 || c.aliased || c.in == nil {
			return res
		}
		// path independence of a failure: no split run may succeed
		for _, k := range c.splitPoints() {
			mid, up1, err1 := vfMigrate(t, c.dirs, c.body, uint(k))
			if err1 != nil {
				if up1 || !bytes.Equal(mid, c.body) {
					t.Fatalf("Migrate(target=%d) failed (%v) but returned a changed body\ninput:\n%s\nreturned:\n%s", k, err1, c.body, mid)
				}

				continue
			}
			_, _, err2 := vfMigrate(t, c.dirs, mid, vfLast)
			if err2 == nil {
				t.Fatalf("upgrade in one run fails (%v) but succeeds when split at schema %d\ninput:\n%s\nintermediate:\n%s", err, k, c.body, mid)
			}
		}

		return res
	}

	// --- success ----------------------------------------------------------
	res.ok, res.out = true, out
	tree, derr := vfDecode(out)
	if derr != nil || tree == nil {
		t.Fatalf("Migrate succeeded but its output is not a YAML mapping: %v\ninput:\n%s\noutput:\n%s", derr, c.body, out)
	}
	res.tree = tree
	if v, isInt := tree["schema_version"].(int); !isInt || v != vfLast {
		t.Fatalf("Migrate succeeded but the result is stamped schema_version=%s, want %d\ninput:\n%s\noutput:\n%s",
			vfStamp(tree), vfLast, c.body, out)
	}

	if c.ver == vfLast {
		vfC13.Class("outcome:already_current")
		if upgraded || !bytes.Equal(out, c.body) {
			t.Fatalf("upgrading a current document changed it (upgraded=%t)\ninput:\n%s\noutput:\n%s", upgraded, c.body, out)
		}
	} else {
		vfC13.Class("outcome:upgraded")
		if !upgraded {
			t.Fatalf("Migrate produced a schema-%d document from %s but reports upgraded=false\ninput:\n%s", vfLast, vfStamp(c.in), c.body)
		}
	}

	// idempotence: upgrading the result changes nothing
	again, up2, err2 := vfMigrate(t, c.dirs, out, vfLast)
	if err2 != nil || up2 || !bytes.Equal(again, out) {
		t.Fatalf("upgrading the upgraded document is not a no-op: err=%v upgraded=%t\nfirst output:\n%s\nsecond output:\n%s", err2, up2, out, again)
	}

	if c.ver < 0 || c.aliased || c.in == nil {
		return res
	}

	if c.legacyFiles {
		// documented side effect of steps 1 and 2, and of no other step
		for fn, gone := range map[string]bool{"dnsfilter.txt": c.ver < 1, "Corefile": c.ver < 2} {
			_, serr := os.Stat(filepath.Join(c.dirs.work, fn))
			if gone != os.IsNotExist(serr) {
				t.Fatalf("after upgrading from schema %d: %s removed=%t, want removed=%t", c.ver, fn, os.IsNotExist(serr), gone)
			}
		}
	}

	vfVerifyHashes(tree, c.pass)

	// frame: what no step between ver and 29 names is preserved
	if d := vfCheckFrame(c.in, tree, c.ver); d != "" {
		t.Fatalf("a setting that no step between schema %d and %d concerns was not preserved: %s\ninput:\n%s\noutput:\n%s",
			c.ver, vfLast, d, c.body, out)
	}

	// a lower or equal target must not do anything
	if c.ver > 0 {
		low, upL, errL := vfMigrate(t, c.dirs, c.body, uint(c.ver-1))
		if errL == nil || upL || !bytes.Equal(low, c.body) {
			t.Fatalf("Migrate to the older schema %d: err=%v upgraded=%t, want an error and the unchanged body", c.ver-1, errL, upL)
		}
	}

	// split-point independence
	for _, k := range c.splitPoints() {
		mid, up1, err1 := vfMigrate(t, c.dirs, c.body, uint(k))
		if err1 != nil {
			t.Fatalf("upgrade in one run succeeds but the partial run to schema %d fails: %v\ninput:\n%s", k, err1, c.body)
		}
		midTree, merr := vfDecode(mid)
		if merr != nil {
			t.Fatalf("partial run to schema %d produced unparsable YAML: %v\n%s", k, merr, mid)
		}
		if v, isInt := midTree["schema_version"].(int); !isInt || v != k || !up1 {
			t.Fatalf("partial run to schema %d is stamped %s (upgraded=%t)\ninput:\n%s\noutput:\n%s", k, vfStamp(midTree), up1, c.body, mid)
		}
		fin, up3, err3 := vfMigrate(t, c.dirs, mid, vfLast)
		if err3 != nil {
			t.Fatalf("upgrade in one run succeeds but fails when split at schema %d: %v\ninput:\n%s\nintermediate:\n%s", k, err3, c.body, mid)
		}
		finTree, ferr := vfDecode(fin)
		if ferr != nil || !up3 {
			t.Fatalf("second half of the run split at %d: upgraded=%t decode error %v\n%s", k, up3, ferr, fin)
		}
		vfVerifyHashes(finTree, c.pass)
		if d := vfDiff(tree, finTree, ""); d != "" {
			t.Fatalf("result depends on the path: one run vs split at schema %d differ at %s\ninput:\n%s\none run:\n%s\nsplit run:\n%s",
				k, d, c.body, out, fin)
		}
	}
	vfC13.ClassN("split_points_checked", len(c.splitPoints()))

	return res
}

func (c *vfCase) splitPoints() (ks []int) {
	if c.splits != nil {
		return c.splits
	}
	for k := c.ver + 1; k < vfLast; k++ {
		ks = append(ks, k)
	}

	return ks
}

// vfSubFrame compares the sub-keys of a section that are not in named.
func vfSubFrame(name string, inSec vfMap, outVal any, named map[string]bool) string {
	outSec, ok := outVal.(vfMap)
	if !ok {
		return fmt.Sprintf("section %s was a mapping and became %s", name, vfShow(outVal))
	}
	keys := map[string]bool{}
	for k := range inSec {
		keys[k] = true
	}
	for k := range outSec {
		keys[k] = true
	}
	for _, k := range vfSortedKeys(vfBoolKeys(keys)) {
		if named[k] {
			continue
		}
		iv, iok := inSec[k]
		ov, ook := outSec[k]
		if iok != ook {
			return fmt.Sprintf("%s.%s: present before=%t after=%t (%s / %s)", name, k, iok, ook, vfShow(iv), vfShow(ov))
		}
		if d := vfDiff(iv, ov, name+"."+k); d != "" {
			return d
		}
	}

	return ""
}

func vfBoolKeys(m map[string]bool) vfMap {
	r := vfMap{}
	for k := range m {
		r[k] = nil
	}

	return r
}

// vfCheckFrame returns "" if everything the steps v+1..29 do not name is the
// same in the input and output trees, else a description of the difference.
func vfCheckFrame(in, out vfMap, v int) string {
	named := vfNamedSet(vfTopNamed, v)
	named["schema_version"] = true
	if d := vfSubFrame("", in, out, named); d != "" {
		return "top level: " + d
	}

	dnsKey := "dns"
	if _, has := in["coredns"]; has && v < 2 {
		dnsKey = "coredns"
	}
	if sec, ok := in[dnsKey].(vfMap); ok {
		if d := vfSubFrame("dns", sec, out["dns"], vfNamedSet(vfSubNamed["dns"], v)); d != "" {
			return d
		}
	}
	for _, name := range []string{"dhcp", "querylog", "statistics", "http", "filtering"} {
		sec, ok := in[name].(vfMap)
		if !ok || v < vfInPlaceFrom[name] {
			continue
		}
		if d := vfSubFrame(name, sec, out[name], vfNamedSet(vfSubNamed[name], v)); d != "" {
			return d
		}
	}

	var inClients vfList
	var haveClients bool
	if v < 14 {
		inClients, haveClients = in["clients"].(vfList)
	} else if sec, ok := in["clients"].(vfMap); ok {
		if d := vfSubFrame("clients", sec, out["clients"], map[string]bool{"persistent": true}); d != "" {
			return d
		}
		inClients, haveClients = sec["persistent"].(vfList)
	}
	if haveClients {
		outSec, _ := out["clients"].(vfMap)
		outClients, ok := outSec["persistent"].(vfList)
		if !ok || len(outClients) != len(inClients) {
			return fmt.Sprintf("clients: %d persistent clients before, after: %s", len(inClients), vfShow(out["clients"]))
		}
		clNamed := vfNamedSet(vfSubNamed["client"], v)
		for i := range inClients {
			name := fmt.Sprintf("clients.persistent[%d]", i)
			if cm, isMap := inClients[i].(vfMap); isMap {
				if d := vfSubFrame(name, cm, outClients[i], clNamed); d != "" {
					return d
				}
			} else if d := vfDiff(inClients[i], outClients[i], name); d != "" {
				return d
			}
		}
	}

	return ""
}

// vfHasAlias reports whether the text uses YAML aliases or merge keys.
func vfHasAlias(body []byte) bool {
	var n yaml.Node
	if yaml.Unmarshal(body, &n) != nil {
		return false
	}
	var walk func(*yaml.Node) bool
	walk = func(x *yaml.Node) bool {
		if x.Kind == yaml.AliasNode || x.Tag == "!!merge" {
			return true
		}
		for _, c := range x.Content {
			if walk(c) {
				return true
			}
		}

		return false
	}

	return walk(&n)
}

func vfVersionClass(v int) string {
	switch {
	case v < 0:
		return "version:not_historical"
	case v == vfLast:
		return "version:current"
	case v < 5:
		return "version:00-04"
	case v < 15:
		return "version:05-14"
	case v < 23:
		return "version:15-22"
	default:
		return "version:23-28"
	}
}

// vfLoad asks the current loader (package home) whether it accepts body.
func vfLoad(t vfT, body []byte) (err error) {
	err, setupErr := home.VFC13Load(body)
	if setupErr != nil {
		t.Fatalf("VERIF-INCONCLUSIVE loader shim: %v", setupErr)
	}

	return err
}

func vfSample(class string, c *vfCase, res vfResult, extra vfMap) {
	if !vfC13.WantSample(class) {
		return
	}
	s := vfMap{"schema_version_claimed": c.ver, "input": string(c.body), "upgraded_ok": res.ok}
	if res.ok {
		s["output"] = string(res.out)
	}
	for k, v := range extra {
		s[k] = v
	}
	vfC13.Sample(class, s)
}

// ---------------------------------------------------------------------------
// class (b): documents valid under their own schema

// vfValidCase builds a valid schema-v document; it returns the case, the tree
// the upgrade has to produce (nil when optional keys were dropped, which makes
// the exact outcome depend on defaults the documentation does not list) and a
// canonical description.
func vfValidCase(t *rapid.T, v int, withAuth bool) (c *vfCase, want vfMap, desc string) {
	s := vfDrawSettings(t, v, withAuth)
	doc := vfRender(s, v)

	var drops []string
	if vfChance(t, "drop_mode", 30) {
		var slots []vfSlot
		vfSlots(doc, "", 1, &slots)
		var cands []vfSlot
		for _, sl := range slots {
			if sl.m != nil && sl.path != "schema_version" {
				cands = append(cands, sl)
			}
		}
		n := rapid.IntRange(1, 3).Draw(t, "drop_n")
		for i := 0; i < n && len(cands) > 0; i++ {
			idx := vfUniform(t, fmt.Sprintf("drop_%d", i), len(cands))
			sl := cands[idx]
			delete(sl.m, sl.key)
			drops = append(drops, sl.path)
			cands = append(cands[:idx], cands[idx+1:]...)
		}
	}

	st := vfDrawStyle(t)
	body, err := vfText(t, doc, st)
	if err != nil {
		t.Fatalf("VERIF-INCONCLUSIVE cannot serialise generated document: %v", err)
	}
	in, err := vfDecode(body)
	norm, nerr := vfNormalize(doc)
	if err != nil || nerr != nil || vfDiff(norm, in, "") != "" {
		t.Fatalf("VERIF-INCONCLUSIVE the YAML library does not read back the generated document: %v %v %s\n%s",
			err, nerr, vfDiff(norm, in, ""), body)
	}

	c = &vfCase{body: body, in: in, ver: v, dirs: vfNewDirs(t)}
	c.legacyFiles = vfChance(t, "legacy_files", 25)

	if len(drops) == 0 {
		adv, hashOf := vfAdvance(s, v, c.dirs.data)
		c.pass = hashOf
		want, err = vfNormalize(vfRender(adv, vfLast))
		if err != nil {
			t.Fatalf("VERIF-INCONCLUSIVE cannot normalise expected document: %v", err)
		}
	} else if s.Auth != nil {
		p := s.Auth.Password
		c.pass = &p
	}

	desc = fmt.Sprintf("valid|v=%d|drops=%s|shuffle=%t|flow=%t|%s", v, vfSortedDescs(drops), st.Shuffle, st.Flow, vfFingerprint(s))

	return c, want, desc
}

// vfCheckValid asserts what the property states for a document that is valid
// under its own schema: the upgrade succeeds, gives the documented result, and
// the current loader accepts it.
func vfCheckValid(t vfT, c *vfCase, want vfMap) (res vfResult) {
	t.Helper()
	res = vfCheckUpgrade(t, c)
	if !res.ok {
		_, _, err := vfMigrate(t, c.dirs, c.body, vfLast)
		t.Fatalf("a document valid under schema %d was refused: %v\ninput:\n%s", c.ver, err, c.body)
	}
	if want != nil {
		if d := vfDiff(want, res.tree, ""); d != "" {
			t.Fatalf("upgrade of a valid schema-%d document differs from the documented result at %s (documented vs actual)\ninput:\n%s\noutput:\n%s",
				c.ver, d, c.body, res.out)
		}
	}
	if lerr := vfLoad(t, res.out); lerr != nil {
		t.Fatalf("the current loader rejects the upgraded form of a valid schema-%d document: %v\ninput:\n%s\noutput:\n%s",
			c.ver, lerr, c.body, res.out)
	}
	if sv, serr := home.VFC13LoadedSchema(res.out); serr != nil || sv != vfLast {
		t.Fatalf("the loader reads schema version %d (%v) from the upgraded document, want %d", sv, serr, vfLast)
	}

	return res
}

// TestVFC13Valid: class (b) of the design.
func TestVFC13Valid(t *testing.T) {
	vfkit.Begin(t)
	rapid.Check(t, func(t *rapid.T) {
		v := vfUniform(t, "version", vfLast+1)
		c, want, desc := vfValidCase(t, v, false)
		defer c.dirs.remove()

		vfC13.Eval()
		vfC13.Class("class:b_valid")
		vfC13.Class(vfVersionClass(v))
		if want != nil {
			vfC13.Class("valid:exact_expectation")
		} else {
			vfC13.Class("valid:optional_keys_dropped")
		}
		if vfReadsSomething(c.in, v) {
			vfC13.Nontrivial(desc)
			vfC13.Class("nontrivial:valid")
		}

		res := vfCheckValid(t, c, want)
		vfSample("valid_document", c, res, vfMap{"case": desc})
	})
}

// TestVFC13Auth: class (b) documents of schemas 0..4 that carry
// auth_name/auth_pass, i.e. enter step 5 (bcrypt, ~50 ms per hash); a bounded
// number of cases with two split points each, plus null/mistyped credentials.
func TestVFC13Auth(t *testing.T) {
	vfkit.Begin(t)
	rapid.Check(t, func(t *rapid.T) {
		v := vfUniform(t, "version", 5)
		c, want, desc := vfValidCase(t, v, true)
		defer c.dirs.remove()
		c.splits = []int{rapid.IntRange(v+1, 5).Draw(t, "split_before_or_at_5"), rapid.IntRange(5, vfLast-1).Draw(t, "split_after_5")}

		hostile := vfPick(t, "auth_shape", []string{"", "", "", "pass_null", "name_null", "name_int", "pass_list", "pass_long", "name_absent"})
		if hostile != "" {
			doc := vfClone(c.in).(vfMap)
			switch hostile {
			case "pass_null":
				doc["auth_pass"] = nil
				empty := ""
				c.pass = &empty
			case "name_null":
				doc["auth_name"] = nil
			case "name_int":
				doc["auth_name"] = 5
			case "pass_list":
				doc["auth_pass"] = vfList{"a"}
			case "pass_long":
				doc["auth_pass"] = strings.Repeat("p", 100)
				c.pass = nil
			case "name_absent":
				delete(doc, "auth_name")
			}
			body, err := yaml.Marshal(vfEncodable(doc))
			if err != nil {
				t.Fatalf("VERIF-INCONCLUSIVE %v", err)
			}
			c.body, want = body, nil
			c.in, _ = vfDecode(body)
		}

		vfC13.Eval()
		vfC13.Class("class:b_auth")
		vfC13.Class(vfVersionClass(v))
		vfC13.Class("auth_shape:" + hostile)
		vfC13.Nontrivial(desc + "|auth=" + hostile)

		var res vfResult
		if hostile == "" {
			res = vfCheckValid(t, c, want)
		} else {
			res = vfCheckUpgrade(t, c)
		}
		vfSample("auth_document", c, res, vfMap{"case": desc, "auth_shape": hostile})
	})
}

// ---------------------------------------------------------------------------
// class (a): shape fuzz

var vfSchemaKinds = []string{
	"as_is", "as_is", "as_is", "as_is", "as_is", "as_is", "as_is", "as_is",
	"other_version", "other_version", "absent", "null", "string", "float", "negative", "next", "huge", "uint64", "bool", "list",
}

// TestVFC13Shape: documents whose keys are present / absent / null / of an
// unexpected type, with keys of other schemas and unknown keys mixed in.
func TestVFC13Shape(t *testing.T) {
	vfkit.Begin(t)
	rapid.Check(t, func(t *rapid.T) {
		v := vfUniform(t, "version", vfLast+1)
		s := vfDrawSettings(t, v, false)
		doc := vfRender(s, v)
		other := vfRender(s, vfUniform(t, "other_version", vfLast+1))

		var descs []string
		if vfChance(t, "sparse", 12) {
			for _, k := range vfSortedKeys(doc) {
				if k != "schema_version" && rapid.Bool().Draw(t, "sparse_drop_"+k) {
					delete(doc, k)
				}
			}
			descs = append(descs, "sparse")
		}
		nmut := rapid.SampledFrom([]int{1, 1, 1, 2, 2, 3}).Draw(t, "mutations")
		for i := 0; i < nmut; i++ {
			descs = append(descs, vfMutate(t, doc, other, i))
		}

		kind := vfPick(t, "schema_kind", vfSchemaKinds)
		switch kind {
		case "other_version":
			doc["schema_version"] = vfUniform(t, "claimed_version", vfLast+1)
		case "absent":
			delete(doc, "schema_version")
		case "null":
			doc["schema_version"] = nil
		case "string":
			doc["schema_version"] = fmt.Sprint(v)
		case "float":
			doc["schema_version"] = float64(v) + 0.5
		case "negative":
			doc["schema_version"] = -1 - v
		case "next":
			doc["schema_version"] = vfLast + 1 + v
		case "huge":
			doc["schema_version"] = 1 << 40
		case "uint64":
			doc["schema_version"] = uint64(1<<63) + uint64(v)
		case "bool":
			doc["schema_version"] = true
		case "list":
			doc["schema_version"] = vfList{v}
		}

		if _, open := vfkit.KnownOpen("C13", vfSigNullObject); open {
			// an open known finding: build the document without that shape
			for _, k := range vfObjectSections {
				if val, has := doc[k]; has && val == nil {
					delete(doc, k)
					vfC13.Excluded(vfSigNullObject)
				}
			}
		}

		st := vfDrawStyle(t)
		body, err := vfText(t, doc, st)
		if err != nil {
			t.Fatalf("VERIF-INCONCLUSIVE cannot serialise generated document: %v", err)
		}
		in, err := vfDecode(body)
		norm, nerr := vfNormalize(doc)
		if err != nil || nerr != nil || vfDiff(norm, in, "") != "" {
			t.Fatalf("VERIF-INCONCLUSIVE the YAML library does not read back the generated document: %v %v %s\n%s",
				err, nerr, vfDiff(norm, in, ""), body)
		}

		c := &vfCase{body: body, in: in, ver: vfVersionOf(in), dirs: vfNewDirs(t)}
		defer c.dirs.remove()
		c.legacyFiles = vfChance(t, "legacy_files", 12)

		desc := fmt.Sprintf("shape|layout=%d|claimed=%d|schema=%s|%s", v, c.ver, kind, vfSortedDescs(descs))
		vfC13.Eval()
		vfC13.Class("class:a_shape")
		vfC13.Class(vfVersionClass(c.ver))
		vfC13.Class("schema_key:" + kind)
		for _, d := range descs {
			vfC13.Class("mutation:" + d[strings.LastIndex(d, ":")+1:])
		}
		if c.ver >= 0 && vfReadsSomething(in, c.ver) {
			vfC13.Nontrivial(desc)
			vfC13.Class("nontrivial:shape")
		}

		res := vfCheckUpgrade(t, c)
		if res.ok {
			vfC13.Class("shape:upgraded")
			vfSample("shape_upgraded", c, res, vfMap{"case": desc})
		} else {
			vfC13.Class("shape:refused")
			_, _, merr := vfMigrate(t, c.dirs, c.body, vfLast)
			vfSample("shape_refused", c, res, vfMap{"case": desc, "error": fmt.Sprint(merr)})
		}
	})
}

// ---------------------------------------------------------------------------
// byte-level edits of valid texts

var vfTokens = []string{
	":", ": ", "- ", "\n", "\n\n", "  ", "\t", "null", "~", "&a ", "*a", "!!str ", "!!int ", "!!binary ", "|", ">", "{", "}",
	"[", "]", "#", "'", "\"", ",", "?", "<<: ", "---\n", "...\n", "\r\n", "\x00", "\xff", "\ufeff", "0x", "1e999", "dns:", "filtering:",
	"schema_version: 5\n", "- null\n", "{}", "[]", "%TAG ! x\n",
}

// TestVFC13Bytes: a valid text with a few byte-level edits from a dictionary
// of YAML-significant tokens.  Most results do not parse (=> error, content
// unchanged); those that do are ordinary documents for all oracles.
func TestVFC13Bytes(t *testing.T) {
	vfkit.Begin(t)
	rapid.Check(t, func(t *rapid.T) {
		v := vfUniform(t, "version", vfLast+1)
		s := vfDrawSettings(t, v, false)
		body, err := yaml.Marshal(vfEncodable(vfRender(s, v)))
		if err != nil {
			t.Fatalf("VERIF-INCONCLUSIVE %v", err)
		}

		n := rapid.IntRange(1, 3).Draw(t, "edits")
		var descs []string
		for i := 0; i < n; i++ {
			l := fmt.Sprintf("edit%d_", i)
			pos := vfUniform(t, l+"pos", len(body)+1)
			if rapid.Bool().Draw(t, l+"at_line_start") {
				// move to the start of the line
				for pos > 0 && body[pos-1] != '\n' {
					pos--
				}
			}
			switch op := vfPick(t, l+"op", []string{"insert", "insert", "insert", "delete", "replace", "replace", "truncate"}); op {
			case "insert":
				tok := vfPick(t, l+"tok", vfTokens)
				body = append(body[:pos:pos], append([]byte(tok), body[pos:]...)...)
				descs = append(descs, "insert:"+tok)
			case "delete":
				k := rapid.IntRange(1, 12).Draw(t, l+"len")
				end := min(len(body), pos+k)
				body = append(body[:pos:pos], body[end:]...)
				descs = append(descs, "delete")
			case "replace":
				tok := vfPick(t, l+"tok", vfTokens)
				end := min(len(body), pos+len(tok))
				body = append(body[:pos:pos], append([]byte(tok), body[end:]...)...)
				descs = append(descs, "replace:"+tok)
			default:
				body = body[:pos]
				descs = append(descs, "truncate")
			}
		}

		c := &vfCase{body: body, ver: -1, dirs: vfNewDirs(t)}
		defer c.dirs.remove()
		in, derr := vfDecode(body)
		if derr == nil {
			if in == nil {
				// an empty or null document: no settings at all
				in = vfMap{}
			}
			c.in, c.ver = in, vfVersionOf(in)
		}
		c.aliased = vfHasAlias(body)
		if sig := vfKnownShape(body, in); sig != "" {
			// an open known finding; the regression tests demonstrate it
			vfC13.Excluded(sig)

			return
		}

		vfC13.Eval()
		vfC13.Class("class:a_bytes")
		switch {
		case derr != nil:
			vfC13.Class("bytes:does_not_parse")
		case len(in) == 0:
			vfC13.Class("bytes:empty_document")
		case c.aliased:
			vfC13.Class("bytes:parses_with_alias")
		default:
			vfC13.Class("bytes:parses")
			if c.ver >= 0 && vfReadsSomething(in, c.ver) {
				vfC13.Nontrivial(fmt.Sprintf("bytes|%d|%x", v, body))
			}
		}

		res := vfCheckUpgrade(t, c)
		if derr == nil && res.ok {
			vfC13.Class("bytes:parses_and_upgraded")
		}
		if derr != nil && res.ok {
			t.Fatalf("Migrate accepted a text the YAML library rejects (%v):\n%s", derr, body)
		}
		vfSample("byte_edited_text", c, res, vfMap{"edits": descs})
	})
}

// TestVFC13BigUnsigned: integer settings that a step moves, with values the
// unsigned fields of the configuration hold but a signed integer does not
// (rlimit_nofile: 18446744073709551615 is "unlimited").  The upgrade either
// fails and leaves the bytes alone, or the number arrives unchanged at the place
// the step moves it to -- never as another number.
func TestVFC13BigUnsigned(t *testing.T) {
	vfkit.Begin(t)
	type moved struct {
		key     string // where it is up to schema upTo
		section string // "" = top level
		upTo    int
	}
	settings := []moved{
		{"rlimit_nofile", "", 10},
		{"safebrowsing_cache_size", "dns", 25}, {"safesearch_cache_size", "dns", 25}, {"parental_cache_size", "dns", 25},
	}
	rapid.Check(t, func(t *rapid.T) {
		m := rapid.SampledFrom(settings).Draw(t, "setting")
		v := rapid.IntRange(max(0, m.upTo-6), m.upTo).Draw(t, "version")
		val := rapid.SampledFrom([]uint64{math.MaxUint64, math.MaxInt64 + 1, math.MaxUint64 - 4096, 1 << 63, 9223372036854775807, 8192}).Draw(t, "value")
		s := vfDrawSettings(t, v, false)
		doc := vfRender(s, v)
		if m.section == "" {
			doc[m.key] = val
		} else {
			sec, ok := doc[m.section].(vfMap)
			if !ok {
				sec = vfMap{}
				doc[m.section] = sec
			}
			sec[m.key] = val
		}
		body, err := yaml.Marshal(vfEncodable(doc))
		if err != nil {
			t.Fatalf("VERIF-INCONCLUSIVE %v", err)
		}
		dirs := vfNewDirs(t)
		defer dirs.remove()

		out, upgraded, merr := vfMigrate(t, dirs, body, vfLast)
		vfC13.Eval()
		vfC13.Class("big_unsigned:" + m.key)
		vfC13.Nontrivial(fmt.Sprintf("big_unsigned|%s|%d|%d", m.key, v, val))
		if merr != nil {
			vfC13.Class("big_unsigned:refused")
			if upgraded || !bytes.Equal(out, body) {
				t.Fatalf("Migrate failed (%v) for %s: %d at schema %d, but did not hand the input back unchanged", merr, m.key, val, v)
			}

			return
		}
		tree, derr := vfDecode(out)
		if derr != nil {
			t.Fatalf("Migrate succeeded for %s: %d at schema %d, but its output does not parse: %v", m.key, val, v, derr)
		}
		var found []any
		var walk func(x any)
		walk = func(x any) {
			switch y := x.(type) {
			case vfMap:
				for k, e := range y {
					if k == m.key {
						found = append(found, e)
					}
					walk(e)
				}
			case vfList:
				for _, e := range y {
					walk(e)
				}
			}
		}
		walk(tree)
		same := len(found) == 1 && fmt.Sprint(found[0]) == fmt.Sprint(val)
		if !same {
			t.Fatalf("%s: %d in a configuration of schema %d: after the upgrade the document holds %v for it\noutput:\n%s", m.key, val, v, found, out)
		}
		vfC13.Class("big_unsigned:carried")
	})
}
