//go:build verif

package configmigrate_test

// C13 harness, part 1: the *model* side.
//
//   - vfSettings: an abstract set of AdGuard Home settings, independent of any
//     schema version; vfRender lays it out the way configuration files of schema
//     version v look (written from the BEFORE/AFTER blocks in the doc comments of
//     the 29 migration steps, not from their code); vfAdvance applies to the
//     settings the value changes those comments document (added defaults, QUIC
//     port, "." -> "|.^", ...).  Hence for a document that is valid under its
//     own schema   Migrate(render(S, v)) must equal render(advance(S, v), 29).
//   - the frame tables: which top-level keys / section sub-keys the steps
//     between v and 29 name.  Everything else must come out untouched.
//   - YAML tree helpers (decode, deep equality, clone).
//
// Nothing in this file calls the code under test.

import (
	"fmt"
	"math"
	"sort"
	"strings"
	"time"

	yaml "gopkg.in/yaml.v3"
)

// vfLast is the current schema version according to the property text
// ("internal/configmigrate/configmigrate.go": 29).  It is a literal on purpose:
// the harness must notice if the constant under test changes.
const vfLast = 29

type (
	vfMap  = map[string]any
	vfList = []any
)

// ---------------------------------------------------------------------------
// settings

// vfUpstream is an upstream address as written before schema 10 and as it has
// to look afterwards (QUIC upstreams without a port get ":784").
type vfUpstream struct {
	Raw      string
	Migrated string
}

type vfClient struct {
	Name string
	// IP and MAC are the pre-schema-6 identifiers; nil means "key absent".
	IP, MAC *string
	// IDs is the schema>=6 identifier list.
	IDs               []string
	UseGlobalBlocked  bool
	UseGlobalSettings bool
	SafeSearch        bool
	SSFlags           map[string]bool
	HasBlocked        bool
	Blocked           []string
	BlockedTZ         string
	Extra             vfMap
}

type vfFilter struct {
	Enabled bool
	URL     string
	Name    string
	ID      int
	Extra   vfMap
}

type vfUser struct {
	Name, Password string
}

type vfSettings struct {
	ExplicitZero bool // write "schema_version: 0" instead of omitting it

	BindHost   string
	BindPort   int
	SessionTTL int // hours
	HTTPExtra  vfMap
	PProf      bool
	PProfPort  int

	// Auth is the pre-schema-5 name/password pair (nil: no authentication).
	Auth  *vfUser
	Users []vfUser

	Language string
	Rlimit   int
	OSGroup  string
	OSUser   string

	LogFile                                   string
	LogMaxBackups, LogMaxSize, LogMaxAge      int
	LogCompress, LogLocalTime, LogVerbose     bool
	DNSPort, Ratelimit, CacheSize             int
	Bootstrap, DNSBindHosts                   []string
	LocalDomain                               string
	Upstreams, LocalPTR                       []vfUpstream
	QlogEnabled, QlogFileEnabled              bool
	QlogDays, QlogMem                         int
	QlogIgnored, StatsIgnored                 []string
	QlogExtra, StatsExtra                     vfMap
	StatsEnabled                              bool
	StatsDays                                 int
	EDNS, EDNSUseCustom                       bool
	EDNSCustomIP                              string
	SafeSearch                                bool
	SSFlags                                   map[string]bool
	RDNS                                      bool
	SrcWHOIS, SrcARP, SrcDHCP, SrcHosts       bool
	Blocked                                   []string
	BlockedTZ                                 string
	Filt                                      vfMap // the 16 plain keys that step 26 moves from dns to filtering
	FiltExtra                                 vfMap
	AllServers, FastestAddr                   bool
	UpstreamMode                              string
	SafePatterns                              []string
	DNSExtra, TopExtra, DHCPExtra, TLS        vfMap
	Clients                                   []vfClient
	DHCPEnabled                               bool
	DHCPIface                                 string
	DHCPGateway, DHCPMask, DHCPStart, DHCPEnd string
	DHCPLease, DHCPICMP                       int
	Filters                                   []vfFilter
	UserRules                                 []string
}

var vfSSKeys = []string{"bing", "duckduckgo", "google", "pixabay", "yandex", "youtube"}

// vfFiltKeys are the plain (shape-preserving) keys named by step 26.
var vfFiltKeys = []string{
	"filtering_enabled", "filters_update_interval", "parental_enabled", "safebrowsing_enabled",
	"safebrowsing_cache_size", "safesearch_cache_size", "parental_cache_size", "rewrites",
	"protection_enabled", "blocking_mode", "blocking_ipv4", "blocking_ipv6", "blocked_response_ttl",
	"protection_disabled_until", "parental_block_host", "safebrowsing_block_host",
}

func vfStrs(ss []string) (l vfList) {
	l = vfList{}
	for _, s := range ss {
		l = append(l, s)
	}

	return l
}

func vfFirst(l []string) string {
	if len(l) == 0 {
		return ""
	}

	return l[0]
}

func vfHours(days int) string { return fmt.Sprintf("%dh", days*24) }

func vfMerge(dst, extra vfMap) vfMap {
	for k, v := range extra {
		dst[k] = vfClone(v)
	}

	return dst
}

func vfSafeSearchMap(enabled bool, flags map[string]bool) vfMap {
	m := vfMap{"enabled": enabled}
	for _, k := range vfSSKeys {
		m[k] = flags[k]
	}

	return m
}

func vfBlockedMap(ids []string, tz string) vfMap {
	return vfMap{"ids": vfStrs(ids), "schedule": vfMap{"time_zone": tz}}
}

func vfUpstreamList(ups []vfUpstream) (l vfList) {
	l = vfList{}
	for _, u := range ups {
		l = append(l, u.Raw)
	}

	return l
}

// vfRenderClient lays out one persistent client the way schema v stores it.
func vfRenderClient(c *vfClient, v int) (m vfMap) {
	m = vfMap{"name": c.Name, "use_global_settings": c.UseGlobalSettings}
	if c.IP != nil {
		m["ip"] = *c.IP
	}
	if c.MAC != nil {
		m["mac"] = *c.MAC
	}
	if v >= 6 {
		m["ids"] = vfStrs(c.IDs)
	}
	if v >= 4 {
		m["use_global_blocked_services"] = c.UseGlobalBlocked
	}
	if v < 19 {
		m["safesearch_enabled"] = c.SafeSearch
	} else {
		m["safe_search"] = vfSafeSearchMap(c.SafeSearch, c.SSFlags)
	}
	if c.HasBlocked {
		if v < 22 {
			m["blocked_services"] = vfStrs(c.Blocked)
		} else {
			m["blocked_services"] = vfBlockedMap(c.Blocked, c.BlockedTZ)
		}
	}

	return vfMerge(m, c.Extra)
}

func (s *vfSettings) renderDNS(v int) (d vfMap) {
	d = vfMap{"port": s.DNSPort, "ratelimit": s.Ratelimit, "cache_size": s.CacheSize}
	if v < 3 {
		d["bootstrap_dns"] = vfFirst(s.Bootstrap)
	} else {
		d["bootstrap_dns"] = vfStrs(s.Bootstrap)
	}
	if v < 8 {
		d["bind_host"] = vfFirst(s.DNSBindHosts)
	} else {
		d["bind_hosts"] = vfStrs(s.DNSBindHosts)
	}
	if v < 9 {
		d["autohost_tld"] = s.LocalDomain
	} else if v < 13 {
		d["local_domain_name"] = s.LocalDomain
	}
	d["upstream_dns"] = vfUpstreamList(s.Upstreams)
	d["local_ptr_upstreams"] = vfUpstreamList(s.LocalPTR)
	if v < 12 {
		d["querylog_interval"] = s.QlogDays
	} else if v < 15 {
		d["querylog_interval"] = vfHours(s.QlogDays)
	}
	if v < 15 {
		d["querylog_enabled"] = s.QlogEnabled
		d["querylog_file_enabled"] = s.QlogFileEnabled
		d["querylog_size_memory"] = s.QlogMem
	}
	if v < 14 {
		d["resolve_clients"] = s.RDNS
	}
	if v < 16 {
		if s.StatsEnabled {
			d["statistics_interval"] = s.StatsDays
		} else {
			d["statistics_interval"] = 0
		}
	}
	if v < 17 {
		d["edns_client_subnet"] = s.EDNS
	} else {
		d["edns_client_subnet"] = vfMap{"enabled": s.EDNS, "use_custom": s.EDNSUseCustom, "custom_ip": s.EDNSCustomIP}
	}
	if v < 18 {
		d["safesearch_enabled"] = s.SafeSearch
	} else if v < 26 {
		d["safe_search"] = vfSafeSearchMap(s.SafeSearch, s.SSFlags)
	}
	if v < 21 {
		d["blocked_services"] = vfStrs(s.Blocked)
	} else if v < 26 {
		d["blocked_services"] = vfBlockedMap(s.Blocked, s.BlockedTZ)
	}
	if v < 26 {
		vfMerge(d, s.Filt)
	}
	if v < 28 {
		d["all_servers"] = s.AllServers
		d["fastest_addr"] = s.FastestAddr
	} else {
		d["upstream_mode"] = s.UpstreamMode
	}

	return vfMerge(d, s.DNSExtra)
}

// vfAddrPort is the documented form of http.address ('1.2.3.4:8080'); IPv6
// hosts are bracketed as everywhere else.
func vfAddrPort(host string, port int) string {
	if strings.Contains(host, ":") {
		return fmt.Sprintf("[%s]:%d", host, port)
	}

	return fmt.Sprintf("%s:%d", host, port)
}

// vfRender lays the settings out as a configuration document of schema v.
func vfRender(s *vfSettings, v int) (m vfMap) {
	m = vfMap{}
	if v > 0 || s.ExplicitZero {
		m["schema_version"] = v
	}

	if v < 23 {
		m["bind_host"] = s.BindHost
		m["bind_port"] = s.BindPort
		m["web_session_ttl"] = s.SessionTTL
	} else {
		h := vfMap{"address": vfAddrPort(s.BindHost, s.BindPort), "session_ttl": fmt.Sprintf("%dh", s.SessionTTL)}
		if v >= 25 {
			h["pprof"] = vfMap{"enabled": s.PProf, "port": s.PProfPort}
		}
		m["http"] = vfMerge(h, s.HTTPExtra)
	}
	if v < 25 {
		m["debug_pprof"] = s.PProf
	}

	if v < 5 {
		if s.Auth != nil {
			m["auth_name"] = s.Auth.Name
			m["auth_pass"] = s.Auth.Password
		}
	} else if s.Users != nil {
		us := vfList{}
		for _, u := range s.Users {
			us = append(us, vfMap{"name": u.Name, "password": u.Password})
		}
		m["users"] = us
	}

	m["language"] = s.Language
	if v < 11 {
		m["rlimit_nofile"] = s.Rlimit
	} else {
		m["os"] = vfMap{"group": s.OSGroup, "rlimit_nofile": s.Rlimit, "user": s.OSUser}
	}

	if v < 24 {
		m["log_file"] = s.LogFile
		m["log_max_backups"] = s.LogMaxBackups
		m["log_max_size"] = s.LogMaxSize
		m["log_max_age"] = s.LogMaxAge
		m["log_compress"] = s.LogCompress
		m["log_localtime"] = s.LogLocalTime
		m["verbose"] = s.LogVerbose
	} else {
		m["log"] = vfMap{
			"file": s.LogFile, "max_backups": s.LogMaxBackups, "max_size": s.LogMaxSize, "max_age": s.LogMaxAge,
			"compress": s.LogCompress, "local_time": s.LogLocalTime, "verbose": s.LogVerbose,
		}
	}

	if v < 2 {
		m["coredns"] = s.renderDNS(v)
	} else {
		m["dns"] = s.renderDNS(v)
	}

	if v >= 26 {
		f := vfMap{
			"safe_search":      vfSafeSearchMap(s.SafeSearch, s.SSFlags),
			"blocked_services": vfBlockedMap(s.Blocked, s.BlockedTZ),
		}
		vfMerge(f, s.Filt)
		if v >= 29 {
			f["safe_fs_patterns"] = vfStrs(s.SafePatterns)
		}
		m["filtering"] = vfMerge(f, s.FiltExtra)
	}

	cl := vfList{}
	for i := range s.Clients {
		cl = append(cl, vfRenderClient(&s.Clients[i], v))
	}
	if v < 14 {
		m["clients"] = cl
	} else {
		m["clients"] = vfMap{
			"persistent": cl,
			"runtime_sources": vfMap{
				"whois": s.SrcWHOIS, "arp": s.SrcARP, "rdns": s.RDNS, "dhcp": s.SrcDHCP, "hosts": s.SrcHosts,
			},
		}
	}

	dh := vfMap{"enabled": s.DHCPEnabled, "interface_name": s.DHCPIface}
	v4 := vfMap{
		"gateway_ip": s.DHCPGateway, "subnet_mask": s.DHCPMask, "range_start": s.DHCPStart, "range_end": s.DHCPEnd,
		"lease_duration": s.DHCPLease, "icmp_timeout_msec": s.DHCPICMP,
	}
	if v < 7 {
		vfMerge(dh, v4)
	} else {
		dh["dhcpv4"] = v4
	}
	if v >= 13 {
		dh["local_domain_name"] = s.LocalDomain
	}
	m["dhcp"] = vfMerge(dh, s.DHCPExtra)

	if v >= 15 {
		m["querylog"] = vfMerge(vfMap{
			"enabled": s.QlogEnabled, "file_enabled": s.QlogFileEnabled, "interval": vfHours(s.QlogDays),
			"size_memory": s.QlogMem, "ignored": vfStrs(s.QlogIgnored),
		}, s.QlogExtra)
	}
	if v >= 16 {
		st := vfMap{"enabled": s.StatsEnabled, "ignored": vfStrs(s.StatsIgnored)}
		if v < 20 {
			st["interval"] = s.StatsDays
		} else {
			st["interval"] = vfHours(s.StatsDays)
		}
		m["statistics"] = vfMerge(st, s.StatsExtra)
	}

	fl := vfList{}
	for _, f := range s.Filters {
		fl = append(fl, vfMerge(vfMap{"enabled": f.Enabled, "url": f.URL, "name": f.Name, "id": f.ID}, f.Extra))
	}
	m["filters"] = fl
	m["user_rules"] = vfStrs(s.UserRules)
	m["tls"] = vfClone(s.TLS)

	return vfMerge(m, s.TopExtra)
}

func vfAllTrue() map[string]bool {
	m := map[string]bool{}
	for _, k := range vfSSKeys {
		m[k] = true
	}

	return m
}

func vfFixDots(in []string) (out []string) {
	for _, h := range in {
		if h == "." {
			h = "|.^"
		}
		out = append(out, h)
	}

	return out
}

// vfAdvance returns the settings as they have to be after the steps v0+1..29
// according to the steps' documentation.  hashOf is the clear-text password
// whose bcrypt hash must appear in users[0].password (step 5), if any.
func vfAdvance(in *vfSettings, v0 int, dataDir string) (s *vfSettings, hashOf *string) {
	cp := *in
	s = &cp
	s.Clients = append([]vfClient(nil), in.Clients...)
	for i := range s.Clients {
		c := &s.Clients[i]
		if v0 < 4 {
			// 'use_global_blocked_services': true is added to every client.
			c.UseGlobalBlocked = true
		}
		if v0 < 6 {
			// 'ids' is the list of the 'ip' and 'mac' values.
			c.IDs = nil
			if c.IP != nil && *c.IP != "" {
				c.IDs = append(c.IDs, *c.IP)
			}
			if c.MAC != nil && *c.MAC != "" {
				c.IDs = append(c.IDs, *c.MAC)
			}
		}
		if v0 < 19 {
			c.SSFlags = vfAllTrue()
		}
		if v0 < 22 {
			c.BlockedTZ = "Local"
		}
	}
	if v0 < 5 && s.Auth != nil {
		p := s.Auth.Password
		hashOf = &p
		s.Users = []vfUser{{Name: s.Auth.Name, Password: vfHashPlaceholder}}
	}
	if v0 < 10 {
		for _, l := range []*[]vfUpstream{&s.Upstreams, &s.LocalPTR} {
			n := make([]vfUpstream, 0, len(*l))
			for _, u := range *l {
				n = append(n, vfUpstream{Raw: u.Migrated, Migrated: u.Migrated})
			}
			*l = n
		}
	}
	if v0 < 11 {
		s.OSGroup, s.OSUser = "", ""
	}
	if v0 < 14 {
		s.SrcWHOIS, s.SrcARP, s.SrcDHCP, s.SrcHosts = true, true, true, true
	}
	if v0 < 15 {
		s.QlogIgnored = nil
		s.QlogExtra = nil
	}
	if v0 < 16 {
		s.StatsIgnored = nil
		s.StatsExtra = nil
		if !s.StatsEnabled {
			// "If statistics were disabled": enabled false, interval 1.
			s.StatsDays = 1
		}
	}
	if v0 < 17 {
		s.EDNSUseCustom, s.EDNSCustomIP = false, ""
	}
	if v0 < 18 {
		s.SSFlags = vfAllTrue()
	}
	if v0 < 21 {
		s.BlockedTZ = "Local"
	}
	if v0 < 23 {
		s.HTTPExtra = nil
	}
	if v0 < 25 {
		s.PProfPort = 6060
	}
	if v0 < 26 {
		s.FiltExtra = nil
	}
	if v0 < 27 {
		s.QlogIgnored = vfFixDots(s.QlogIgnored)
		s.StatsIgnored = vfFixDots(s.StatsIgnored)
	}
	if v0 < 28 {
		switch {
		case s.AllServers:
			s.UpstreamMode = "parallel"
		case s.FastestAddr:
			s.UpstreamMode = "fastest_addr"
		default:
			s.UpstreamMode = "load_balance"
		}
	}
	if v0 < 29 {
		s.SafePatterns = []string{dataDir + "/userfilters/*"}
		for _, f := range s.Filters {
			if strings.HasPrefix(f.URL, "/") {
				s.SafePatterns = append(s.SafePatterns, f.URL)
			}
		}
	}

	return s, hashOf
}

// vfHashPlaceholder stands for "a bcrypt hash of the expected password" in
// trees that are compared; see vfVerifyHashes.
const vfHashPlaceholder = "<bcrypt-hash-of-the-password>"

// ---------------------------------------------------------------------------
// frame tables (from the steps' documentation)

// vfTopNamed[k] lists the top-level keys step k (schema k-1 -> k) names.
var vfTopNamed = map[int][]string{
	1:  {"schema_version"},
	2:  {"coredns", "dns"},
	3:  {"dns"},
	4:  {"clients"},
	5:  {"auth_name", "auth_pass", "users"},
	6:  {"clients"},
	7:  {"dhcp"},
	8:  {"dns"},
	9:  {"dns"},
	10: {"dns"},
	11: {"rlimit_nofile", "os"},
	12: {"dns"},
	13: {"dns", "dhcp"},
	14: {"dns", "clients"},
	15: {"dns", "querylog"},
	16: {"dns", "statistics"},
	17: {"dns"},
	18: {"dns"},
	19: {"clients"},
	20: {"statistics"},
	21: {"dns"},
	22: {"clients"},
	23: {"bind_host", "bind_port", "web_session_ttl", "http"},
	24: {"log_file", "log_max_backups", "log_max_size", "log_max_age", "log_compress", "log_localtime", "verbose", "log"},
	25: {"debug_pprof", "http"},
	26: {"dns", "filtering"},
	27: {"querylog", "statistics"},
	28: {"dns"},
	29: {"filtering"},
}

// vfTopRead[k] lists the top-level keys step k reads (for the non-trivial rule).
var vfTopRead = map[int][]string{
	2: {"coredns"}, 3: {"dns"}, 4: {"clients"}, 5: {"auth_name", "auth_pass"}, 6: {"clients"}, 7: {"dhcp"},
	8: {"dns"}, 9: {"dns"}, 10: {"dns"}, 11: {"rlimit_nofile"}, 12: {"dns"}, 13: {"dns", "dhcp"},
	14: {"dns", "clients"}, 15: {"dns"}, 16: {"dns"}, 17: {"dns"}, 18: {"dns"}, 19: {"clients"},
	20: {"statistics"}, 21: {"dns"}, 22: {"clients"}, 23: {"bind_host", "bind_port", "web_session_ttl"},
	24: {"log_file", "log_max_backups", "log_max_size", "log_max_age", "log_compress", "log_localtime", "verbose"},
	25: {"debug_pprof", "http"}, 26: {"dns"}, 27: {"querylog", "statistics"}, 28: {"dns"},
	29: {"filters", "filtering"},
}

// vfSubNamed[section][k] lists the sub-keys of a section that step k names.
// "client" stands for every element of the persistent-client list.
var vfSubNamed = map[string]map[int][]string{
	"dns": {
		3: {"bootstrap_dns"}, 8: {"bind_host", "bind_hosts"}, 9: {"autohost_tld", "local_domain_name"},
		10: {"upstream_dns", "local_ptr_upstreams"}, 12: {"querylog_interval"}, 13: {"local_domain_name"},
		14: {"resolve_clients"},
		15: {"querylog_enabled", "querylog_file_enabled", "querylog_interval", "querylog_size_memory"},
		16: {"statistics_interval"}, 17: {"edns_client_subnet"}, 18: {"safesearch_enabled", "safe_search"},
		21: {"blocked_services"},
		26: append([]string{"safe_search", "blocked_services"}, vfFiltKeys...),
		28: {"all_servers", "fastest_addr", "upstream_mode"},
	},
	"dhcp": {
		7:  {"gateway_ip", "subnet_mask", "range_start", "range_end", "lease_duration", "icmp_timeout_msec", "dhcpv4"},
		13: {"local_domain_name"},
	},
	"client": {
		4: {"use_global_blocked_services"}, 6: {"ids"}, 19: {"safesearch_enabled", "safe_search"},
		22: {"blocked_services"},
	},
	"clients":    {},
	"querylog":   {27: {"ignored"}},
	"statistics": {20: {"interval"}, 27: {"ignored"}},
	"http":       {25: {"pprof"}},
	"filtering":  {29: {"safe_fs_patterns"}},
}

// vfInPlaceFrom[section] is the first schema version from which the steps
// only edit the section in place (before it, a step may replace it wholesale).
var vfInPlaceFrom = map[string]int{
	"dns": 0, "dhcp": 0, "querylog": 15, "statistics": 16, "http": 23, "filtering": 26, "clients": 14,
}

func vfNamedSet(tbl map[int][]string, v int) (set map[string]bool) {
	set = map[string]bool{}
	for k, keys := range tbl {
		if k > v {
			for _, key := range keys {
				set[key] = true
			}
		}
	}

	return set
}

// vfReadsSomething reports whether some step between v and 29 reads a
// top-level key that the document has (the non-trivial rule of C13).
func vfReadsSomething(doc vfMap, v int) bool {
	for k, keys := range vfTopRead {
		if k <= v {
			continue
		}
		for _, key := range keys {
			if val, ok := doc[key]; ok && val != nil {
				return true
			}
		}
	}

	return false
}

// ---------------------------------------------------------------------------
// tree helpers

func vfDecode(b []byte) (m vfMap, err error) {
	err = yaml.Unmarshal(b, &m)

	return m, err
}

func vfClone(v any) any {
	switch x := v.(type) {
	case vfMap:
		m := make(vfMap, len(x))
		for k, e := range x {
			m[k] = vfClone(e)
		}

		return m
	case map[any]any:
		m := make(map[any]any, len(x))
		for k, e := range x {
			m[k] = vfClone(e)
		}

		return m
	case vfList:
		l := make(vfList, len(x))
		for i, e := range x {
			l[i] = vfClone(e)
		}

		return l
	default:
		return v
	}
}

func vfNum(v any) (f float64, i int64, u uint64, kind int) {
	switch x := v.(type) {
	case int:
		return 0, int64(x), 0, 1
	case int64:
		return 0, x, 0, 1
	case uint64:
		if x <= math.MaxInt64 {
			return 0, int64(x), 0, 1
		}

		return 0, 0, x, 2
	case uint:
		return 0, int64(x), 0, 1
	case float64:
		return x, 0, 0, 3
	}

	return 0, 0, 0, 0
}

// vfDiff returns "" when the two decoded YAML values are equal, else the path
// and a description of the first difference found (maps are walked in key
// order, so the answer is deterministic).
func vfDiff(a, b any, path string) string {
	switch x := a.(type) {
	case vfMap:
		y, ok := b.(vfMap)
		if !ok {
			return fmt.Sprintf("%s: %s vs %s", path, vfShow(a), vfShow(b))
		}
		keys := map[string]bool{}
		for k := range x {
			keys[k] = true
		}
		for k := range y {
			keys[k] = true
		}
		sorted := make([]string, 0, len(keys))
		for k := range keys {
			sorted = append(sorted, k)
		}
		sort.Strings(sorted)
		for _, k := range sorted {
			xv, xok := x[k]
			yv, yok := y[k]
			if xok != yok {
				return fmt.Sprintf("%s.%s: present=%t (%s) vs present=%t (%s)", path, k, xok, vfShow(xv), yok, vfShow(yv))
			}
			if d := vfDiff(xv, yv, path+"."+k); d != "" {
				return d
			}
		}

		return ""
	case map[any]any:
		y, ok := b.(map[any]any)
		if !ok || len(x) != len(y) {
			return fmt.Sprintf("%s: %s vs %s", path, vfShow(a), vfShow(b))
		}
		// keys of such maps are scalars; compare through their printed form
		xs, ys := map[string]any{}, map[string]any{}
		for k, v := range x {
			xs[vfKeyString(k)] = v
		}
		for k, v := range y {
			ys[vfKeyString(k)] = v
		}

		return vfDiff(xs, ys, path)
	case vfList:
		y, ok := b.(vfList)
		if !ok {
			return fmt.Sprintf("%s: %s vs %s", path, vfShow(a), vfShow(b))
		}
		if len(x) != len(y) {
			return fmt.Sprintf("%s: list of %d vs list of %d: %s vs %s", path, len(x), len(y), vfShow(a), vfShow(b))
		}
		for i := range x {
			if d := vfDiff(x[i], y[i], fmt.Sprintf("%s[%d]", path, i)); d != "" {
				return d
			}
		}

		return ""
	case time.Time:
		y, ok := b.(time.Time)
		if !ok || !x.Equal(y) {
			return fmt.Sprintf("%s: %s vs %s", path, vfShow(a), vfShow(b))
		}

		return ""
	case nil:
		if b != nil {
			return fmt.Sprintf("%s: null vs %s", path, vfShow(b))
		}

		return ""
	}

	fa, ia, ua, ka := vfNum(a)
	fb, ib, ub, kb := vfNum(b)
	if ka != 0 || kb != 0 {
		same := ka == kb && ia == ib && ua == ub && (fa == fb || (math.IsNaN(fa) && math.IsNaN(fb)))
		// The YAML encoder writes a float without fraction like an integer
		// ("0." comes back as "0"); a number keeps its value, which is what
		// "preserved" can mean for it.
		if ka == 1 && kb == 3 {
			same = fb == math.Trunc(fb) && math.Abs(fb) < 1<<53 && int64(fb) == ia
		} else if ka == 3 && kb == 1 {
			same = fa == math.Trunc(fa) && math.Abs(fa) < 1<<53 && int64(fa) == ib
		}
		if !same {
			return fmt.Sprintf("%s: %s vs %s", path, vfShow(a), vfShow(b))
		}

		return ""
	}

	if a != b {
		return fmt.Sprintf("%s: %s vs %s", path, vfShow(a), vfShow(b))
	}

	return ""
}

// vfKeyString prints a non-string map key; numbers by value (see vfDiff on
// floats without fraction).
func vfKeyString(k any) string {
	if f, ok := k.(float64); ok && f == math.Trunc(f) && math.Abs(f) < 1<<53 {
		k = int(f)
	}
	if t, ok := k.(time.Time); ok {
		k = t.UTC().Format(time.RFC3339Nano)
	}

	return fmt.Sprintf("%T:%v", k, k)
}

func vfShow(v any) string {
	s := fmt.Sprintf("%T(%#v)", v, v)
	if len(s) > 200 {
		s = s[:200] + "..."
	}

	return s
}

// vfNormalize passes a tree built in Go through the (trusted) YAML library so
// that it has the same dynamic types as a decoded document.
func vfNormalize(m vfMap) (vfMap, error) {
	b, err := yaml.Marshal(vfEncodable(m))
	if err != nil {
		return nil, err
	}

	return vfDecode(b)
}

func vfSortedKeys(m vfMap) (keys []string) {
	for k := range m {
		keys = append(keys, k)
	}
	sort.Strings(keys)

	return keys
}
