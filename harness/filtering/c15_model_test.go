//go:build verif

package filtering

// Property C15, reference side: an independent classifier of filtering-rule
// list text, written from the property statement and the documentation of
// rulelist.Parser ("collects the checksum and the title, counts rules and
// removes comments"; "RulesCount excludes empty lines and comments"; "a line
// is a rule if it is not empty, not a comment, and contains only printable
// characters"), not from the implementation.  Where the statement leaves a
// reading open the model is parameterised by a policy bit, and the check
// accepts the behaviour of any policy (DESIGN 3.3); such texts are counted as
// ambiguous.

import (
	"bytes"
	"hash/crc32"
	"unicode"
	"unicode/utf8"
)

// vfC15Policy is a set of readings of what the statement leaves open.  The
// zero value is the plainest reading.
type vfC15Policy uint8

const (
	// vfC15PolASCIITrim: only ASCII white space is trimmed from a line
	// (default: all Unicode White_Space).
	vfC15PolASCIITrim vfC15Policy = 1 << iota
	// vfC15PolHTMLAnywhere: a line opening an HTML document rejects the list
	// wherever it stands (default: only when nothing was accepted before it).
	vfC15PolHTMLAnywhere
	// vfC15PolCommentCtl: a control byte inside a comment rejects the list
	// (default: comments are dropped unseen).
	vfC15PolCommentCtl
	// vfC15PolEdgeCtl: control bytes that are also white space (VT, FF) at the
	// edges of a line reject the list (default: they are trimmed).
	vfC15PolEdgeCtl
	// vfC15PolLongOK: a line at or beyond the 64 KiB token limit is accepted
	// (default: it rejects the list).
	vfC15PolLongOK
	// vfC15PolBOMStrip: a byte-order mark at the very start is not content
	// (default: it is an ordinary non-space character).
	vfC15PolBOMStrip

	vfC15PolAll = vfC15PolBOMStrip<<1 - 1
)

// vfC15LongLimit is the physical line length (bytes between two line feeds)
// from which the outcome is left open.
const vfC15LongLimit = 64 * 1024

// vfC15Expect is what a parse of a text must produce under one policy.
type vfC15Expect struct {
	// Norm is the normal form: the trimmed rule lines, each followed by LF, up
	// to the first rejected line.
	Norm []byte
	// Title is the first "! Title: " value seen before the end / rejection.
	Title string
	// Count is the number of rule lines in Norm.
	Count int
	// ErrLine is the 1-based number of the rejected line, 0 if none.
	ErrLine int
	// CRCLines is CRC-32 (IEEE) over the trimmed rule lines without line
	// feeds, CRCNorm over Norm; the statement does not say which one
	// "checksum" is, both are accepted.
	CRCLines, CRCNorm uint32
	// Err is true if the text is rejected.
	Err bool
	// Policy is the first policy that gave this expectation.
	Policy vfC15Policy
}

func vfC15IsCtl(b byte) bool {
	return (b < 0x20 || b == 0x7f) && b != '\n' && b != '\r' && b != '\t'
}

func vfC15HasCtl(b []byte) bool {
	for _, c := range b {
		if vfC15IsCtl(c) {
			return true
		}
	}

	return false
}

func vfC15ASCIISpace(b byte) bool {
	return b == ' ' || b == '\t' || b == '\r' || b == '\n' || b == '\v' || b == '\f'
}

// vfC15Trim removes white space from both ends of line.
func vfC15Trim(line []byte, asciiOnly bool) []byte {
	for len(line) > 0 {
		if vfC15ASCIISpace(line[0]) {
			line = line[1:]

			continue
		}
		if !asciiOnly && line[0] >= utf8.RuneSelf {
			r, n := utf8.DecodeRune(line)
			if r != utf8.RuneError && unicode.IsSpace(r) {
				line = line[n:]

				continue
			}
		}

		break
	}
	for len(line) > 0 {
		last := line[len(line)-1]
		if vfC15ASCIISpace(last) {
			line = line[:len(line)-1]

			continue
		}
		if !asciiOnly && last >= utf8.RuneSelf {
			r, n := utf8.DecodeLastRune(line)
			if r != utf8.RuneError && unicode.IsSpace(r) {
				line = line[:len(line)-n]

				continue
			}
		}

		break
	}

	return line
}

// vfC15IsHTMLStart reports whether a trimmed line opens an HTML document.
func vfC15IsHTMLStart(trimmed []byte) bool {
	for _, p := range []string{"<html", "<!doctype"} {
		if len(trimmed) >= len(p) && bytes.EqualFold(trimmed[:len(p)], []byte(p)) {
			return true
		}
	}

	return false
}

// vfC15Lines splits text at line feeds; a final piece without a line feed is a
// line unless it is empty.
func vfC15Lines(text []byte) [][]byte {
	lines := bytes.Split(text, []byte{'\n'})
	if len(lines[len(lines)-1]) == 0 {
		lines = lines[:len(lines)-1]
	}

	return lines
}

// vfC15Parse is the reference classifier under one policy.
func vfC15Parse(text []byte, pol vfC15Policy) (e vfC15Expect) {
	e.Policy = pol
	if pol&vfC15PolBOMStrip != 0 {
		text = bytes.TrimPrefix(text, []byte("\xef\xbb\xbf"))
	}

	titleSeen := false
	for i, raw := range vfC15Lines(text) {
		if len(raw) >= vfC15LongLimit && pol&vfC15PolLongOK == 0 {
			e.Err, e.ErrLine = true, i+1

			break
		}

		trimmed := vfC15Trim(raw, pol&vfC15PolASCIITrim != 0)
		checked := trimmed
		if pol&vfC15PolEdgeCtl != 0 {
			checked = raw
		}

		if len(trimmed) == 0 {
			if vfC15HasCtl(checked) {
				e.Err, e.ErrLine = true, i+1

				break
			}

			continue
		}

		if trimmed[0] == '#' || trimmed[0] == '!' {
			if pol&vfC15PolCommentCtl != 0 && vfC15HasCtl(checked) {
				e.Err, e.ErrLine = true, i+1

				break
			}

			const titlePrefix = "! Title: "
			if !titleSeen && bytes.HasPrefix(trimmed, []byte(titlePrefix)) {
				titleSeen = true
				e.Title = string(vfC15Trim(trimmed[len(titlePrefix):], pol&vfC15PolASCIITrim != 0))
			}

			continue
		}

		if vfC15IsHTMLStart(trimmed) && (e.Count == 0 || pol&vfC15PolHTMLAnywhere != 0) {
			e.Err, e.ErrLine = true, i+1

			break
		}

		if vfC15HasCtl(checked) {
			e.Err, e.ErrLine = true, i+1

			break
		}

		e.Count++
		e.CRCLines = crc32.Update(e.CRCLines, crc32.IEEETable, trimmed)
		e.Norm = append(e.Norm, trimmed...)
		e.Norm = append(e.Norm, '\n')
	}

	e.CRCNorm = crc32.ChecksumIEEE(e.Norm)

	return e
}

// vfC15Relevant returns the policy bits that can matter for text at all (a
// cheap over-approximation).
func vfC15Relevant(text []byte) (rel vfC15Policy) {
	lineLen := 0
	for _, c := range text {
		switch {
		case c == '\n':
			lineLen = -1
		case c >= utf8.RuneSelf:
			rel |= vfC15PolASCIITrim
		case c == '<':
			rel |= vfC15PolHTMLAnywhere
		case c == '\v' || c == '\f':
			rel |= vfC15PolCommentCtl | vfC15PolEdgeCtl
		case vfC15IsCtl(c):
			rel |= vfC15PolCommentCtl
		}
		lineLen++
		if lineLen >= vfC15LongLimit {
			rel |= vfC15PolLongOK
		}
	}
	if bytes.HasPrefix(text, []byte("\xef\xbb\xbf")) {
		rel |= vfC15PolBOMStrip
	}

	return rel
}

// vfC15Expectations returns the distinct expectations over all policies; the
// first one is that of the plainest reading.
func vfC15Expectations(text []byte) (exps []vfC15Expect) {
	rel := vfC15Relevant(text)
	for pol := vfC15Policy(0); pol <= vfC15PolAll; pol++ {
		if pol&^rel != 0 {
			continue
		}

		e := vfC15Parse(text, pol)
		dup := false
		for _, o := range exps {
			if o.Err == e.Err && o.Count == e.Count && bytes.Equal(o.Norm, e.Norm) {
				dup = true

				break
			}
		}
		if !dup {
			exps = append(exps, e)
		}
	}

	return exps
}

// vfC15IsNormalForm is the direct statement of "normal form": every line is
// terminated by LF, is not blank, carries no white space at its ends and is not
// a comment.
func vfC15IsNormalForm(b []byte) (why string) {
	if len(b) == 0 {
		return ""
	}
	if b[len(b)-1] != '\n' {
		return "last line not terminated"
	}
	for _, l := range bytes.Split(b[:len(b)-1], []byte{'\n'}) {
		switch {
		case len(l) == 0:
			return "blank line stored"
		case vfC15ASCIISpace(l[0]) || vfC15ASCIISpace(l[len(l)-1]):
			return "untrimmed line stored"
		case l[0] == '#' || l[0] == '!':
			return "comment stored"
		}
	}

	return ""
}
