//go:build verif

package filtering

// Property C17: the server opens a local file as a filter-list source only if
// its cleaned absolute path matches one of the configured safe patterns; at
// add, at set-url and at every refresh; for every spelling of the location.
//
// Oracle (constructive): the generator builds the tree, the patterns and the
// location from a known target, so the right answer is known: target outside
// the patterns => request refused and the file's unique marker appears
// nowhere; target inside => accepted and its marker rule is in force.

import (
	"fmt"
	"net/http"
	"os"
	"sort"
	"strings"
	"testing"
	"time"

	"github.com/AdguardTeam/AdGuardHome/internal/filtering/rulelist"
	"github.com/AdguardTeam/AdGuardHome/internal/vfkit"
	"pgregory.net/rapid"
)

// vfC17DrawWorld draws the content kinds and the patterns and makes the tree.
// The filter is not started yet.
func vfC17DrawWorld(t *rapid.T) (w *vfC17World) {
	kinds := make([]string, len(vfC17FileNames))
	for i := range kinds {
		if rapid.IntRange(0, 4).Draw(t, fmt.Sprintf("kind%d_invalid", i)) == 0 {
			kinds[i] = rapid.SampledFrom(vfC17InvalidKinds).Draw(t, fmt.Sprintf("kind%d", i))
		} else {
			kinds[i] = rapid.SampledFrom(vfC17ValidKinds).Draw(t, fmt.Sprintf("kind%d", i))
		}
	}
	w = vfC17NewWorld(t, kinds)
	w.patterns = vfC17DrawPatterns(t, w.root, "pat")

	return w
}

// drawTarget draws the file, directory or missing name a location points at.
func (w *vfC17World) drawTarget(t *rapid.T, label string) (tgt, role string) {
	kind := rapid.SampledFrom([]string{"file", "file", "file", "file", "file", "file", "file", "dir", "missing", "system"}).
		Draw(t, label+"_kind")
	switch kind {
	case "file":
		var in, out []string
		for _, f := range w.files {
			if w.allowed(w.root + "/" + f.Rel) {
				in = append(in, f.Rel)
			} else {
				out = append(out, f.Rel)
			}
		}
		pool := vfC17FileNames
		switch rapid.SampledFrom([]string{"allowed", "allowed", "allowed", "denied", "denied", "denied", "any"}).Draw(t, label+"_want") {
		case "allowed":
			if len(in) > 0 {
				pool = in
			}
		case "denied":
			if len(out) > 0 {
				pool = out
			}
		}
		rel := rapid.SampledFrom(pool).Draw(t, label+"_file")

		return w.root + "/" + rel, "file:" + rel
	case "dir":
		rel := rapid.SampledFrom(vfC17Dirs).Draw(t, label+"_dir")

		return w.root + "/" + rel, "dir:" + rel
	case "missing":
		rel := rapid.SampledFrom(vfC17MissingNames).Draw(t, label+"_missing")

		return w.root + "/" + rel, "missing:" + rel
	default:
		sys := vfC17SystemFiles()
		if len(sys) == 0 {
			return w.root + "/nodir/x", "missing:nodir/x"
		}
		p := rapid.SampledFrom(sys).Draw(t, label+"_system")

		return p, "system:" + p
	}
}

// drawLocation draws target and spelling and remembers the location.
func (w *vfC17World) drawLocation(t *rapid.T, label string) (loc vfC17Loc) {
	tgt, role := w.drawTarget(t, label)
	loc = w.drawLoc(t, tgt, role, "", label)
	if loc.Family == "http" && !vfC17PlainPath(loc.Target) {
		loc.Family = "odd"
	}
	w.locs[loc.Raw] = loc

	return loc
}

func vfC17PlainPath(p string) (ok bool) {
	for i := 0; i < len(p); i++ {
		c := p[i]
		if !(c >= 'a' && c <= 'z' || c >= 'A' && c <= 'Z' || c >= '0' && c <= '9' || strings.IndexByte("/._-", c) >= 0) {
			return false
		}
	}

	return true
}

// record counts one decision in the evidence.
func (w *vfC17World) record(entry string, loc vfC17Loc, e string, code int, body string) {
	s := vfC17
	s.Class("entry:" + entry)
	if entry == "refresh_skipped" {
		// A list that is not due or not on the refreshed side: no decision is
		// made for it, it is only watched (its stored copy must not change).
		return
	}
	s.Eval()
	s.Class("family:" + loc.Family)
	s.Class("expect:" + e)
	s.Class("target:" + strings.SplitN(loc.Role, ":", 2)[0])
	if len(w.patterns) == 0 {
		s.Class("patterns:empty")
	} else {
		s.Class("patterns:nonempty")
	}
	for _, p := range w.patterns {
		s.Class("patkind:" + p.Kind)
	}
	for _, tr := range loc.Transforms {
		s.Class("spell:" + strings.SplitN(tr, "@", 2)[0])
	}
	if loc.Form != "" {
		s.Class("form:" + loc.Form)
	}
	if f := w.fileAt(loc.Target); f != nil {
		s.Class("content:" + f.Kind)
	}

	traversal := false
	if e == "reject" {
		for _, p := range w.patterns {
			lit := p.Text
			if i := strings.IndexAny(lit, "*?[\\"); i >= 0 {
				lit = lit[:i]
			}
			if i := strings.LastIndexByte(lit, '/'); i >= 0 {
				lit = lit[:i+1]
			}
			if strings.HasPrefix(lit, w.root+"/") && len(lit) > len(w.root)+1 && strings.HasPrefix(loc.Raw, lit) {
				traversal = true
			}
		}
		if traversal {
			s.Class("reject:raw_under_pattern_dir")
		}
		if loc.Family == "abs" {
			for _, p := range w.patterns {
				if vfC17Glob(p.Text, loc.Raw) {
					s.Class("reject:raw_matches_pattern")

					break
				}
			}
		}
		if len(w.patterns) > 0 && loc.Family == "abs" {
			for _, d := range []string{"allowedx/", "secret/allowed/", "allowed/sub/"} {
				if strings.HasPrefix(loc.Target, w.root+"/"+d) {
					s.Class("reject:lookalike_dir")
				}
			}
		}
	}
	if e == "accept" && len(loc.Transforms) > 0 {
		s.Class("accept:unclean_spelling")
	}
	if code != 0 {
		s.Class(fmt.Sprintf("code:%d", code))
	}

	nontrivial := loc.Family != "abs" || len(loc.Transforms) > 0 || (e == "reject" && len(w.patterns) > 0)
	if nontrivial {
		s.Nontrivial(fmt.Sprintf("%s|%v|%s|%s|%s|%v|%s", entry, vfC17PatternKindsOf(w.patterns), loc.Role, loc.Family,
			loc.Form, loc.Transforms, e))
		s.Class("nontrivial")
	}

	// Samples are the actual cases, with the per-case temporary directory
	// (field "T") written as <T> to keep them readable.
	cls := strings.SplitN(entry, "_", 2)[0] + ":" + e
	sample := func() (v any) {
		short := strings.NewReplacer(w.base, "<T>")
		sl := loc
		sl.Raw = short.Replace(loc.Raw)
		var ps []string
		for _, p := range w.patterns {
			ps = append(ps, short.Replace(p.Text))
		}

		return map[string]any{
			"T": w.base, "entry": entry, "patterns": ps, "location": sl, "expect": e,
			"code": code, "body": short.Replace(vfC17Clip(body)),
		}
	}
	if s.WantSample(cls) {
		s.Sample(cls, sample())
	}
	if traversal && s.WantSample("traversal") {
		s.Sample("traversal", sample())
	}
}

const vfC17SeedURL = "http://seed.test/seed.txt"

// seed makes a configured list with a stored copy holding content.
func (w *vfC17World) seed(id int64, u, name string, enabled bool, content *string) (f FilterYAML) {
	f = FilterYAML{Enabled: enabled, URL: u, Name: name, Filter: Filter{ID: rulelist.URLFilterID(id)}}
	if content != nil {
		err := os.WriteFile(f.Path(w.dataDir), []byte(*content), 0o644)
		if err != nil {
			w.t.Fatalf("VERIF-INCONCLUSIVE writing stored copy: %v", err)
		}
	}

	return f
}

// add performs POST add_url and asserts both directions.  dup says that a list
// with this URL exists already (then the request must be refused anyway).
func (w *vfC17World) add(loc vfC17Loc, white, dup bool, entry string) {
	e := w.expect(loc)
	resp := w.call(http.MethodPost, "/control/filtering/add_url", map[string]any{
		"name": "", "url": loc.Raw, "whitelist": white,
	})
	w.settle()
	st, _ := w.status()
	w.record(entry, loc, e, resp.Code, resp.Body)
	what := fmt.Sprintf("add_url %q (whitelist %t) with patterns %q", loc.Raw, white, vfC17PatternTexts(w.patterns))

	switch {
	case dup:
		if resp.Code != http.StatusBadRequest {
			w.t.Fatalf("%s: a list with this URL exists, got %d %q, want 400", what, resp.Code, resp.Body)
		}
	case e == "reject":
		if resp.Code != http.StatusBadRequest {
			w.t.Fatalf("%s: the location matches no safe pattern, got %d %q, want 400", what, resp.Code, resp.Body)
		}
		if st.has(loc.Raw) {
			w.t.Fatalf("%s: refused with 400 but the list is configured now", what)
		}
	case e == "accept" || e == "accept_http":
		if resp.Code != http.StatusOK {
			w.t.Fatalf("%s: %s matches the safe patterns and is a valid list, got %d %q, want 200",
				what, loc.Target, resp.Code, resp.Body)
		}
		l := st.find(loc.Raw, white)
		if l == nil {
			w.t.Fatalf("%s: accepted with 200 but the list is not configured", what)
		}
		w.inForce(what, loc, l)
	}
	w.scan(what, resp.Body)
}

// setURL performs POST set_url on the list cur and asserts both directions.
func (w *vfC17World) setURL(cur vfC17ListJSON, loc vfC17Loc, enabled, dup bool, entry string) (code int) {
	e := w.expect(loc)
	same := cur.URL == loc.Raw
	resp := w.call(http.MethodPost, "/control/filtering/set_url", map[string]any{
		"url": cur.URL, "whitelist": cur.White,
		"data": map[string]any{"name": cur.Name, "url": loc.Raw, "enabled": enabled},
	})
	w.settle()
	st, _ := w.status()
	w.record(entry, loc, e, resp.Code, resp.Body)
	what := fmt.Sprintf("set_url of %q (whitelist %t) to %q enabled %t with patterns %q",
		cur.URL, cur.White, loc.Raw, enabled, vfC17PatternTexts(w.patterns))

	switch {
	case same:
		// The URL is not edited; the statement does not say whether it is
		// validated again.  Only the safety oracle applies.
		vfC17.Class("set_url:same_url")
	case dup:
		if resp.Code != http.StatusBadRequest {
			w.t.Fatalf("%s: another list has this URL, got %d %q, want 400", what, resp.Code, resp.Body)
		}
	case e == "reject":
		if resp.Code != http.StatusBadRequest {
			w.t.Fatalf("%s: the location matches no safe pattern, got %d %q, want 400", what, resp.Code, resp.Body)
		}
		if st.has(loc.Raw) || st.find(cur.URL, cur.White) == nil {
			w.t.Fatalf("%s: refused with 400 but the list's URL was changed", what)
		}
	case e == "accept" || e == "accept_http":
		if resp.Code != http.StatusOK {
			w.t.Fatalf("%s: %s matches the safe patterns and is a valid list, got %d %q, want 200",
				what, loc.Target, resp.Code, resp.Body)
		}
		l := st.find(loc.Raw, cur.White)
		if l == nil || l.Enabled != enabled {
			w.t.Fatalf("%s: accepted with 200 but the list is not configured so: %+v", what, l)
		}
		if enabled {
			w.inForce(what, loc, l)
		}
	}
	w.scan(what, resp.Body)

	return resp.Code
}

// vfC17Refresh names the ways a refresh is started.
var vfC17RefreshModes = []string{"handler_block", "handler_allow", "direct_forced", "direct_due"}

// refresh runs a refresh and asserts, per configured list, both directions.
// notDue lists the lists ("whitelist|url") whose stored copy is fresh (only for direct_due).
func (w *vfC17World) refresh(mode string, notDue map[string]bool) {
	before, _ := w.status()
	type snap struct {
		data string
		ok   bool
	}
	snaps := map[int64]snap{}
	for _, l := range before.all() {
		data, ok := w.cached(l.ID)
		snaps[l.ID] = snap{data, ok}
	}

	var resp vfC17Response
	updated := -1
	switch mode {
	case "handler_block", "handler_allow":
		resp = w.call(http.MethodPost, "/control/filtering/refresh", map[string]any{"whitelist": mode == "handler_allow"})
		if resp.Code != http.StatusOK {
			w.t.Fatalf("refresh (%s): %d %q", mode, resp.Code, resp.Body)
		}
		_, _ = fmt.Sscanf(resp.Body, `{"updated":%d}`, &updated)
	default:
		w.guard("tryRefreshFilters", func() {
			var ok bool
			updated, _, ok = w.d.tryRefreshFilters(true, true, mode == "direct_forced")
			if !ok {
				w.t.Fatalf("VERIF-INCONCLUSIVE tryRefreshFilters reports a refresh in progress")
			}
		})
	}
	// The refresh reloads the engine itself, except when every list of one
	// side failed; reload when a stored copy changed.
	for _, l := range before.all() {
		data, ok := w.cached(l.ID)
		if s := snaps[l.ID]; s.ok != ok || s.data != data {
			w.reload()

			break
		}
	}
	after, _ := w.status()

	maxUpdated := 0
	for _, l := range before.all() {
		loc, known := w.locs[l.URL]
		if !known {
			w.t.Fatalf("VERIF-INCONCLUSIVE list with unknown URL %q", l.URL)
		}
		refreshed := l.Enabled
		switch mode {
		case "handler_block":
			refreshed = refreshed && !l.White
		case "handler_allow":
			refreshed = refreshed && l.White
		case "direct_due":
			refreshed = refreshed && !notDue[fmt.Sprintf("%t|%s", l.White, l.URL)]
		}
		e := w.expect(loc)
		entry := "refresh_" + mode
		if !refreshed {
			entry = "refresh_skipped"
		}
		w.record(entry, loc, e, 0, resp.Body)
		what := fmt.Sprintf("refresh (%s) of list %q (id %d, whitelist %t, enabled %t) with patterns %q",
			mode, l.URL, l.ID, l.White, l.Enabled, vfC17PatternTexts(w.patterns))

		now := after.find(l.URL, l.White)
		if now == nil || now.ID != l.ID {
			w.t.Fatalf("%s: the list is gone after the refresh", what)
		}
		if refreshed && e != "reject" {
			maxUpdated++
		}
		switch {
		case refreshed && (e == "accept" || e == "accept_http"):
			w.inForce(what, loc, now)
		case !refreshed || e == "reject":
			data, ok := w.cached(l.ID)
			if s := snaps[l.ID]; s.ok != ok || s.data != data {
				w.t.Fatalf("%s: the location must not be read, yet the stored copy changed from %q (present %t) to %q (present %t)",
					what, vfC17Clip(s.data), s.ok, vfC17Clip(data), ok)
			}
			if now.RulesCount != l.RulesCount {
				w.t.Fatalf("%s: the location must not be read, yet rules_count changed from %d to %d",
					what, l.RulesCount, now.RulesCount)
			}
		}
	}
	if updated > maxUpdated {
		w.t.Fatalf("refresh (%s) with patterns %q reports %d updated lists, at most %d may be read",
			mode, vfC17PatternTexts(w.patterns), updated, maxUpdated)
	}
	w.scan(fmt.Sprintf("refresh (%s) with patterns %q", mode, vfC17PatternTexts(w.patterns)), resp.Body)
}

// TestVFC17AddSetURL: one location through add_url or set_url (and the refresh
// that follows).
func TestVFC17AddSetURL(t *testing.T) {
	vfkit.Begin(t)
	rapid.Check(t, func(t *rapid.T) {
		w := vfC17DrawWorld(t)
		defer w.cleanup()
		w.t = t

		entry := rapid.SampledFrom([]string{"add_block", "add_allow", "set_block", "set_allow", "set_disabled"}).
			Draw(t, "entry")
		loc := w.drawLocation(t, "loc")

		var block, allow []FilterYAML
		white := entry == "add_allow" || entry == "set_allow"
		if entry == "set_disabled" {
			white = rapid.Bool().Draw(t, "white")
		}
		if strings.HasPrefix(entry, "set_") {
			w.locs[vfC17SeedURL] = vfC17Loc{Raw: vfC17SeedURL, Family: "http", Role: "seed"}
			content := "||" + vfC17MarkerHost(w.stub.token(vfC17SeedURL)) + "^\n"
			seed := w.seed(1, vfC17SeedURL, "seed", true, &content)
			if white {
				allow = append(allow, seed)
			} else {
				block = append(block, seed)
			}
		}
		w.start(w.patterns, block, allow)
		w.scan("start")

		switch entry {
		case "add_block", "add_allow":
			w.add(loc, white, false, entry)
		default:
			st, _ := w.status()
			cur := st.find(vfC17SeedURL, white)
			if cur == nil {
				t.Fatalf("VERIF-INCONCLUSIVE seeded list is not configured")
			}
			cur.White = white
			code := w.setURL(*cur, loc, entry != "set_disabled", false, entry)
			if entry == "set_disabled" && code == http.StatusOK {
				// Enable it now: this is when the content is read.
				st, _ = w.status()
				cur = st.find(loc.Raw, white)
				if cur == nil {
					t.Fatalf("set_url to %q answered 200 but the list does not have this URL", loc.Raw)
				}
				cur.White = white
				e := w.expect(loc)
				resp := w.call(http.MethodPost, "/control/filtering/set_url", map[string]any{
					"url": cur.URL, "whitelist": white,
					"data": map[string]any{"name": cur.Name, "url": loc.Raw, "enabled": true},
				})
				w.settle()
				w.record("set_enable", loc, e, resp.Code, resp.Body)
				what := fmt.Sprintf("enabling list %q with patterns %q", loc.Raw, vfC17PatternTexts(w.patterns))
				if e == "accept" || e == "accept_http" {
					st, _ = w.status()
					l := st.find(loc.Raw, white)
					if resp.Code != http.StatusOK || l == nil || !l.Enabled {
						t.Fatalf("%s: got %d %q (%+v), want it enabled", what, resp.Code, resp.Body, l)
					}
					w.inForce(what, loc, l)
				}
				w.scan(what, resp.Body)
			}
		}

		// The refresh that follows, after the content of the target changed.
		if rapid.Bool().Draw(t, "then_refresh") {
			if f := w.fileAt(loc.Target); f != nil && rapid.Bool().Draw(t, "bump") {
				w.bump(f)
			}
			w.refresh(rapid.SampledFrom(vfC17RefreshModes[:3]).Draw(t, "refresh_mode"), nil)
		}
	})
}

// TestVFC17Refresh: lists with hostile locations are already configured (an
// edited configuration file, or a pattern list that got narrower); a refresh
// must read exactly those whose target matches the patterns.
func TestVFC17Refresh(t *testing.T) {
	vfkit.Begin(t)
	rapid.Check(t, func(t *rapid.T) {
		w := vfC17DrawWorld(t)
		defer w.cleanup()
		w.t = t

		mode := rapid.SampledFrom(vfC17RefreshModes).Draw(t, "refresh_mode")
		n := rapid.IntRange(1, 4).Draw(t, "n_lists")
		var block, allow []FilterYAML
		seen := map[string]bool{}
		notDue := map[string]bool{}
		old := time.Date(1971, 1, 1, 0, 0, 0, 0, time.UTC)
		for i := 0; i < n; i++ {
			label := fmt.Sprintf("list%d", i)
			loc := w.drawLocation(t, label)
			white := rapid.Bool().Draw(t, label+"_white")
			enabled := rapid.IntRange(0, 7).Draw(t, label+"_disabled") != 0
			stored := rapid.Bool().Draw(t, label+"_stored")
			fresh := rapid.IntRange(0, 3).Draw(t, label+"_fresh") == 0
			name := rapid.SampledFrom([]string{"", "seeded"}).Draw(t, label+"_name")
			key := fmt.Sprintf("%t|%s", white, loc.Raw)
			if seen[key] {
				continue
			}
			seen[key] = true

			var content *string
			if stored {
				c := fmt.Sprintf("||vfs%dz.marker.test^\n", i)
				content = &c
			}
			f := w.seed(int64(i+1), loc.Raw, name, enabled, content)
			if stored {
				if fresh {
					notDue[key] = true
				} else if err := os.Chtimes(f.Path(w.dataDir), old, old); err != nil {
					t.Fatalf("VERIF-INCONCLUSIVE chtimes: %v", err)
				}
			}
			if white {
				allow = append(allow, f)
			} else {
				block = append(block, f)
			}
		}
		// A list on both sides is due on both or on none.
		w.start(w.patterns, block, allow)
		w.scan("start")
		w.refresh(mode, notDue)

		if rapid.Bool().Draw(t, "again") {
			for _, f := range w.files {
				if rapid.IntRange(0, 2).Draw(t, "bump_"+f.Rel) == 0 {
					w.bump(f)
				}
			}
			w.refresh(rapid.SampledFrom(vfC17RefreshModes[:3]).Draw(t, "refresh_mode2"), nil)
		}
	})
}

// carry returns the lists of the running filter as configuration, the way the
// configuration file carries them over a restart.
func (w *vfC17World) carry() (block, allow []FilterYAML) {
	c := &Config{}
	w.d.WriteDiskConfig(c)
	for _, f := range c.Filters {
		block = append(block, FilterYAML{Enabled: f.Enabled, URL: f.URL, Name: f.Name, Filter: Filter{ID: f.ID}})
	}
	for _, f := range c.WhitelistFilters {
		allow = append(allow, FilterYAML{Enabled: f.Enabled, URL: f.URL, Name: f.Name, Filter: Filter{ID: f.ID}})
	}

	return block, allow
}

// TestVFC17History: histories of add, set-url, refresh, content changes,
// removals and restarts with another pattern list over one data directory.
func TestVFC17History(t *testing.T) {
	vfkit.Begin(t)
	rapid.Check(t, func(t *rapid.T) {
		w := vfC17DrawWorld(t)
		defer w.cleanup()
		w.t = t
		// Lists that are configured already, with any location.
		var block, allow []FilterYAML
		seen := map[string]bool{}
		for i, n := 0, rapid.IntRange(0, 3).Draw(t, "n_seeded"); i < n; i++ {
			label := fmt.Sprintf("seed%d", i)
			loc := w.drawLocation(t, label)
			if seen[loc.Raw] {
				continue
			}
			seen[loc.Raw] = true
			// some lists are configured but switched off: switching one on
			// again (set_url with its unchanged URL) reads its source
			f := w.seed(int64(i+1), loc.Raw, "", rapid.IntRange(0, 2).Draw(t, label+"_disabled") != 0, nil)
			if rapid.Bool().Draw(t, label+"_white") {
				allow = append(allow, f)
			} else {
				block = append(block, f)
			}
		}
		w.start(w.patterns, block, allow)
		steps := 0

		pick := func(t *rapid.T) (l *vfC17ListJSON) {
			st, _ := w.status()
			all := st.all()
			if len(all) == 0 {
				return nil
			}
			sort.Slice(all, func(i, j int) bool { return all[i].ID < all[j].ID })
			x := all[rapid.IntRange(0, len(all)-1).Draw(t, "list")]

			return &x
		}

		t.Repeat(map[string]func(*rapid.T){
			"add": func(t *rapid.T) {
				w.t = t
				loc := w.drawLocation(t, "loc")
				st, _ := w.status()
				w.add(loc, rapid.Bool().Draw(t, "white"), st.has(loc.Raw), "history_add")
				steps++
			},
			"set_url": func(t *rapid.T) {
				w.t = t
				cur := pick(t)
				if cur == nil {
					t.Skip("no list")
				}
				loc := w.drawLocation(t, "loc")
				if rapid.IntRange(0, 2).Draw(t, "same") == 0 {
					loc = w.locs[cur.URL]
				}
				st, _ := w.status()
				dup := loc.Raw != cur.URL && st.has(loc.Raw)
				enabled := rapid.IntRange(0, 3).Draw(t, "disabled") != 0
				w.setURL(*cur, loc, enabled, dup, "history_set")
				steps++
			},
			"refresh": func(t *rapid.T) {
				w.t = t
				w.refresh(rapid.SampledFrom(vfC17RefreshModes[:3]).Draw(t, "refresh_mode"), nil)
				steps++
			},
			"bump": func(t *rapid.T) {
				w.t = t
				w.bump(rapid.SampledFrom(w.files).Draw(t, "file"))
			},
			"remove": func(t *rapid.T) {
				w.t = t
				cur := pick(t)
				if cur == nil {
					t.Skip("no list")
				}
				resp := w.call(http.MethodPost, "/control/filtering/remove_url", map[string]any{
					"url": cur.URL, "whitelist": cur.White,
				})
				w.settle()
				if resp.Code != http.StatusOK {
					t.Fatalf("remove_url %q: %d %q", cur.URL, resp.Code, resp.Body)
				}
				vfC17.Class("history:remove")
			},
			"restart": func(t *rapid.T) {
				w.t = t
				block, allow := w.carry()
				// Every file gets new content, so that anything read from now
				// on is judged by the new pattern list alone.
				for _, f := range w.files {
					f.Ver++
					w.writeFile(f)
				}
				w.start(vfC17DrawPatterns(t, w.root, "newpat"), block, allow)
				vfC17.Class("history:restart")
			},
			"": func(t *rapid.T) {
				w.t = t
				w.scan("history invariant")
			},
		})

		if steps > 0 {
			vfC17.Class("history:with_decisions")
		}
	})
}

// TestVFC17Examples: the classic cases, fixed.
func TestVFC17Examples(t *testing.T) {
	vfkit.Begin(t)

	kinds := make([]string, len(vfC17FileNames))
	for i := range kinds {
		kinds[i] = "titled"
	}

	type tc struct {
		name     string
		patterns []string
		// loc is the location with <R> for the tree root.
		loc  string
		want int
	}
	cases := []tc{
		{"no_patterns_plain", nil, "<R>/allowed/list1.txt", 400},
		{"no_patterns_system", nil, "/etc/passwd", 400},
		{"star_plain", []string{"<R>/allowed/*"}, "<R>/allowed/list1.txt", 200},
		{"star_dot", []string{"<R>/allowed/*"}, "<R>/allowed/./list1.txt", 200},
		{"star_dotdot_out", []string{"<R>/allowed/*"}, "<R>/allowed/../secret/s.txt", 400},
		{"star_dotdot_in", []string{"<R>/allowed/*"}, "<R>/secret/../allowed/list1.txt", 200},
		{"star_double_sep", []string{"<R>/allowed/*"}, "<R>//allowed//list1.txt", 200},
		{"star_subdir", []string{"<R>/allowed/*"}, "<R>/allowed/sub/deep.txt", 400},
		{"star_lookalike", []string{"<R>/allowed/*"}, "<R>/allowedx/list1.txt", 400},
		{"star_dir_itself", []string{"<R>/allowed/*"}, "<R>/allowed", 400},
		{"exact_other", []string{"<R>/allowed/list1.txt"}, "<R>/allowed/list2.txt", 400},
		{"question", []string{"<R>/allowed/list?.txt"}, "<R>/allowed/list10.txt", 400},
		{"class", []string{"<R>/allowed/list[0-9].txt"}, "<R>/allowed/listA.txt", 400},
		{"case_name", []string{"<R>/allowed/list?.txt"}, "<R>/allowed/LIST2.txt", 400},
		{"case_dir", []string{"<R>/ALLOWED/*"}, "<R>/allowed/list1.txt", 400},
		{"file_scheme", []string{"<R>/allowed/*"}, "file://<R>/secret/s.txt", 400},
		{"relative", []string{"<R>/allowed/*"}, "<REL>/secret/s.txt", 400},
		{"deep_match_raw_only", []string{"<R>/allowed/*/*/*"}, "<R>/allowed/../secret/s.txt", 400},
	}
	for _, c := range cases {
		for _, entry := range []string{"add", "set", "refresh"} {
			func() {
				w := vfC17NewWorld(t, kinds)
				defer w.cleanup()

				rel, err := os.Getwd()
				if err != nil {
					t.Fatalf("VERIF-INCONCLUSIVE getwd: %v", err)
				}
				rel = strings.Repeat("../", strings.Count(rel, "/")) + strings.TrimPrefix(w.root, "/")
				repl := strings.NewReplacer("<R>", w.root, "<REL>", rel)
				var ps []vfC17Pattern
				for _, p := range c.patterns {
					ps = append(ps, vfC17Pattern{Kind: "example", Text: repl.Replace(p)})
				}
				raw := repl.Replace(c.loc)
				name := c.name + "/" + entry

				var block []FilterYAML
				switch entry {
				case "set":
					content := "||seed.test^\n"
					block = append(block, w.seed(1, vfC17SeedURL, "seed", true, &content))
				case "refresh":
					block = append(block, w.seed(1, raw, "hostile", true, nil))
				}
				w.start(ps, block, nil)

				var resp vfC17Response
				switch entry {
				case "add":
					resp = w.call(http.MethodPost, "/control/filtering/add_url", map[string]any{"name": "x", "url": raw})
				case "set":
					resp = w.call(http.MethodPost, "/control/filtering/set_url", map[string]any{
						"url": vfC17SeedURL, "data": map[string]any{"name": "x", "url": raw, "enabled": true},
					})
				case "refresh":
					resp = w.call(http.MethodPost, "/control/filtering/refresh", map[string]any{"whitelist": false})
				}
				w.settle()
				if entry == "refresh" {
					w.reload()
				}
				vfC17.Eval()
				vfC17.Class("example")

				if entry != "refresh" && resp.Code != c.want {
					t.Fatalf("%s: %q with patterns %q: got %d %q, want %d", name, raw, vfC17PatternTexts(ps), resp.Code, resp.Body, c.want)
				}
				st, _ := w.status()
				l := st.find(raw, false)
				if c.want == 200 {
					if l == nil || l.RulesCount != 2 {
						t.Fatalf("%s: %q with patterns %q: list not read: %+v", name, raw, vfC17PatternTexts(ps), l)
					}
					data, _ := w.cached(l.ID)
					if !strings.Contains(data, "vfq0x0z.marker.test") {
						t.Fatalf("%s: stored copy lacks the marker rule: %q", name, data)
					}
					if c := w.checkHost("vfq0x0z.marker.test"); c.Reason != "FilteredBlackList" {
						t.Fatalf("%s: marker rule not in force: %s", name, c.Reason)
					}
				} else if l != nil && (entry != "refresh" || l.RulesCount != 0) {
					t.Fatalf("%s: %q with patterns %q: list configured or read: %+v", name, raw, vfC17PatternTexts(ps), l)
				}
				w.scan(name, resp.Body)
			}()
		}
	}
}
