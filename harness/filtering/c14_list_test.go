//go:build verif && linux

package filtering

// C14 (filter list part): a refresh that downloads new list content replaces
// data/filters/<id>.txt atomically.

import (
	"fmt"
	"io"
	"net/http"
	"net/http/httptest"
	"net/netip"
	"os"
	"path/filepath"
	"strings"
	"sync"
	"testing"
	"time"

	"github.com/AdguardTeam/AdGuardHome/internal/schedule"
	"github.com/AdguardTeam/AdGuardHome/internal/vfkit"
	"github.com/AdguardTeam/golibs/log"
	"pgregory.net/rapid"
)

var vfC14 = vfkit.For("C14")

// vfC14List builds list text of n rules; gen varies the content.
func vfC14List(n, gen int) (s string) {
	sb := &strings.Builder{}
	fmt.Fprintf(sb, "! Title: generated list %d\n", gen)
	for i := 0; i < n; i++ {
		fmt.Fprintf(sb, "||host-%d-gen%d.example^\n", i, gen)
	}

	return sb.String()
}

// vfC14Server serves a mutable body.
type vfC14Server struct {
	mu   sync.Mutex
	body string
	// cutAt, if not negative, makes the server announce the full length and
	// drop the connection after that many bytes of the body.
	cutAt int
	// cutLeft is the number of further requests that are cut that way; the
	// requests after them are served completely (a transient fault).  A
	// negative value cuts every request.
	cutLeft int
	srv     *httptest.Server
}

func vfNewC14Server() (s *vfC14Server) {
	s = &vfC14Server{cutAt: -1, cutLeft: -1}
	s.srv = httptest.NewServer(http.HandlerFunc(func(w http.ResponseWriter, r *http.Request) {
		if strings.HasPrefix(r.URL.Path, "/gone") {
			// a source that does not deliver, after a moment
			time.Sleep(30 * time.Millisecond)
			http.Error(w, "gone", http.StatusServiceUnavailable)

			return
		}
		s.mu.Lock()
		b, cut := s.body, s.cutAt
		if cut >= 0 && s.cutLeft == 0 {
			// the fault has passed
			cut = -1
		} else if cut >= 0 && s.cutLeft > 0 {
			s.cutLeft--
		}
		s.mu.Unlock()
		if cut >= 0 && cut < len(b) {
			hj, ok := w.(http.Hijacker)
			if !ok {
				return
			}
			conn, buf, err := hj.Hijack()
			if err != nil {
				return
			}
			fmt.Fprintf(buf, "HTTP/1.1 200 OK\r\nContent-Type: text/plain\r\nContent-Length: %d\r\n\r\n", len(b))
			_, _ = buf.WriteString(b[:cut])
			_ = buf.Flush()
			_ = conn.Close()

			return
		}
		w.Header().Set("Content-Type", "text/plain")
		_, _ = io.WriteString(w, b)
	}))

	return s
}

func vfC14NewFilter(dir, url string) (d *DNSFilter, err error) {
	log.SetOutput(io.Discard)
	conf := &Config{
		DataDir:        dir,
		HTTPClient:     &http.Client{Timeout: 30 * time.Second},
		ConfigModified: func() {},
		BlockedServices: &BlockedServices{
			Schedule: schedule.EmptyWeekly(),
		},
		ApplyClientFiltering:       func(string, netip.Addr, *Settings) {},
		FiltersUpdateIntervalHours: 1,
		FilteringEnabled:           true,
		Filters: []FilterYAML{{
			Enabled: true, URL: url, Name: "list", Filter: Filter{ID: 7},
		}},
	}
	d, err = New(conf, nil)
	if err != nil {
		return nil, err
	}

	return d, nil
}

var vfC14ListSizes = []int{0, 1, 10, 500, 20000}

// TestVFC14FilterList: sequences of refreshes with generated content sizes.
func TestVFC14FilterList(t *testing.T) {
	vfkit.Begin(t)
	srv := vfNewC14Server()
	defer srv.srv.Close()

	rapid.Check(t, func(t *rapid.T) {
		dir, err := os.MkdirTemp("", "vfc14fl")
		if err != nil {
			t.Fatalf("VERIF-INCONCLUSIVE mkdir: %v", err)
		}
		defer os.RemoveAll(dir)
		d, err := vfC14NewFilter(dir, srv.srv.URL+"/list.txt")
		if err != nil {
			t.Fatalf("VERIF-INCONCLUSIVE filter: %v", err)
		}
		defer d.Close()

		fdir := filepath.Join(dir, filterDir)
		w, err := vfkit.NewWatcher(fdir, os.TempDir())
		if err != nil {
			t.Fatalf("VERIF-INCONCLUSIVE watcher: %v", err)
		}
		defer w.Close()

		name := "7.txt"
		path := filepath.Join(fdir, name)
		sizes := vfC14ListSizes
		if vfkit.Thorough() {
			sizes = append(append([]int{}, sizes...), 600000)
		}
		versions := map[string]bool{"ENOENT": true}
		rd := vfkit.StartReader(path, 2)

		nSaves := rapid.IntRange(1, 5).Draw(t, "n_refreshes")
		prevBody := "\x00none"
		for i := 0; i < nSaves; i++ {
			n := rapid.SampledFrom(sizes).Draw(t, fmt.Sprintf("r%d_n", i))
			gen := rapid.IntRange(0, 2).Draw(t, fmt.Sprintf("r%d_gen", i))
			body := vfC14List(n, gen)
			if rapid.IntRange(0, 4).Draw(t, fmt.Sprintf("r%d_same", i)) == 0 && i > 0 {
				body = prevBody
			}
			// an interrupted download: the announced length is not delivered
			cut := -1
			// duration of the fault: the number of successive requests that
			// break (1, 2), or all of them (-1); a source that breaks once and
			// then delivers is what a client that repeats a request meets
			faulty := -1
			if i > 0 && len(body) > 40 && body != prevBody && rapid.IntRange(0, 3).Draw(t, fmt.Sprintf("r%d_interrupted", i)) == 0 {
				cut = rapid.SampledFrom([]int{30, len(body) / 2, len(body) - 1, len(body) - 20}).Draw(t, fmt.Sprintf("r%d_cut", i))
				faulty = rapid.SampledFrom([]int{1, 1, 2, -1}).Draw(t, fmt.Sprintf("r%d_faulty_requests", i))
			}
			srv.mu.Lock()
			srv.body = body
			srv.cutAt = cut
			srv.cutLeft = faulty
			srv.mu.Unlock()
			if cut >= 0 {
				// a refresh that meets an interrupted download must leave the
				// complete previous version, or (if it asks again and the
				// source delivers by then) the complete new one
				before, _ := os.ReadFile(path)
				newForm := strings.SplitN(body, "\n", 2)[1]
				cp := vfkit.CheckSave(t, "interrupted filter refresh", w, fdir, name, func() error {
					_, _, _ = d.tryRefreshFilters(true, true, true)

					return nil
				}, false)
				after, _ := os.ReadFile(path)
				switch {
				case string(after) == string(before):
					// the complete previous version
				case faulty > 0 && string(after) == newForm:
					// the complete new version, fetched by a later request
					versions[vfkit.Sum(after)] = true
					prevBody = body
				default:
					t.Fatalf("a download cut after %d of %d bytes (%d faulty request(s), -1 = all) left %d bytes at the path, "+
						"which is neither the complete previous version (%d bytes) nor the complete new one (%d bytes, %d rules); it holds %d lines",
						cut, len(body), faulty, len(after), len(before), len(newForm), n, strings.Count(string(after), "\n"))
				}
				vfC14.Eval()
				vfC14.ClassN("crash_points", cp)
				vfC14.Class("filterlist:interrupted_download")
				if faulty > 0 {
					vfC14.Class("filterlist:transient_fault")
				}
				vfC14.Nontrivial(fmt.Sprintf("filterlist|cut|%d|%d|pos%d|faulty%d", cut, len(body), i, faulty))

				continue
			}

			// the stored form drops the title comment, so "changed" is judged on
			// the rule lines
			rules := func(s string) string { return strings.Join(strings.Split(s, "\n")[1:], "\n") }
			changed := i == 0 || rules(body) != rules(prevBody)
			if i == 0 && n == 0 {
				// an empty first download has the checksum of "nothing": the
				// code sees no change and writes nothing
				changed = false
			}
			cp := vfkit.CheckSave(t, "filter refresh", w, fdir, name, func() error {
				_, _, ok := d.tryRefreshFilters(true, true, true)
				if !ok {
					return fmt.Errorf("refresh did not run")
				}

				return nil
			}, changed)

			b, rerr := os.ReadFile(path)
			if rerr == nil {
				versions[vfkit.Sum(b)] = true
				if got := strings.Count(string(b), "\n"); changed && got != n {
					t.Fatalf("after refresh with %d rules the file holds %d lines", n, got)
				}
			} else if changed {
				t.Fatalf("after a changing refresh: %v", rerr)
			}

			vfC14.Eval()
			vfC14.ClassN("crash_points", cp)
			vfC14.Class(fmt.Sprintf("filterlist:size=%d", n))
			if i > 0 && changed {
				vfC14.Nontrivial(fmt.Sprintf("filterlist|%d|%d|pos%d|%s", n, gen, i, vfkit.Sum([]byte(prevBody))))
				vfC14.Class("filterlist:replace_different")
			}
			if !changed {
				vfC14.Class("filterlist:unchanged_refresh")
			}
			if vfC14.WantSample("filterlist") {
				vfC14.Sample("filterlist", map[string]any{"rules": n, "bytes": len(b), "crash_points": cp, "position": i, "changed": changed})
			}
			prevBody = body
		}

		// The administrator gives the list another source, which fails to
		// deliver: the request is refused, and at no instant may the stored list
		// be anything but the complete version it was (the readers keep
		// sampling during the attempt).
		if before, rerr := os.ReadFile(path); rerr == nil && len(before) > 0 && rapid.Bool().Draw(t, "failed_repoint") {
			_, _ = w.Drain()
			_, serr := d.filterSetProperties(srv.srv.URL+"/list.txt", FilterYAML{Enabled: true, URL: srv.srv.URL + "/gone/list.txt", Name: "list"}, false)
			if serr == nil {
				t.Fatalf("re-pointing the list to a source that answers 503 was accepted")
			}
			evs, _ := w.Drain()
			if _, _, aerr := vfkit.CheckAtomicHistory(evs, fdir, name); aerr != nil {
				t.Fatalf("refused re-point: %v", aerr)
			}
			after, _ := os.ReadFile(path)
			if string(after) != string(before) {
				t.Fatalf("a refused re-point of the list (new source answers 503) changed the stored list: %d -> %d bytes", len(before), len(after))
			}
			vfC14.Eval()
			vfC14.Class("filterlist:refused_repoint")
			vfC14.Nontrivial(fmt.Sprintf("filterlist|refused_repoint|%d", len(before)))
		}

		for k, c := range rd.Stop() {
			if !versions[k] {
				t.Fatalf("a concurrent reader saw %s (%d times), which is none of the stored versions", k, c)
			}
			vfC14.ClassN("reader_observations", c)
		}
	})
}

// TestVFC14FilterListStraceHelper is the traced child.
func TestVFC14FilterListStraceHelper(t *testing.T) {
	dir := os.Getenv("VERIF_C14_CHILD")
	if dir == "" {
		t.Skip("not a traced child")
	}
	srv := vfNewC14Server()
	defer srv.srv.Close()
	d, err := vfC14NewFilter(dir, srv.srv.URL+"/list.txt")
	if err != nil {
		t.Fatal(err)
	}
	defer d.Close()
	for i, n := range []int{3, 5000, 7, 100000} {
		srv.mu.Lock()
		srv.body = vfC14List(n, i)
		srv.mu.Unlock()
		if _, _, ok := d.tryRefreshFilters(true, true, true); !ok {
			t.Fatalf("refresh %d did not run", i)
		}
	}
}

// TestVFC14FilterListSyscalls checks write/fsync/rename order under strace.
func TestVFC14FilterListSyscalls(t *testing.T) {
	vfkit.Begin(t)
	dir, err := os.MkdirTemp("", "vfc14fs")
	if err != nil {
		t.Fatalf("VERIF-INCONCLUSIVE mkdir: %v", err)
	}
	defer os.RemoveAll(dir)
	n, serr := vfkit.StraceCheck(t, dir, "TestVFC14FilterListStraceHelper", filepath.Join(dir, filterDir, "7.txt"))
	if serr != nil {
		t.Fatalf("%v", serr)
	}
	vfC14.EvalN(n)
	vfC14.ClassN("filterlist:syscall_checked_renames", n)
	for i := 0; i < n; i++ {
		vfC14.Nontrivial(fmt.Sprintf("filterlist|strace|%d", i))
	}
}

// TestVFC14LargeList: "all content sizes from empty to tens of megabytes".  A
// list of 17-45 MB replaces a smaller one (and is replaced by one again): after
// each refresh the path holds the complete new version, every rule up to the
// last one, while readers keep sampling the path.
func TestVFC14LargeList(t *testing.T) {
	vfkit.Begin(t)
	srv := vfNewC14Server()
	defer srv.srv.Close()

	rapid.Check(t, func(t *rapid.T) {
		dir, err := os.MkdirTemp("", "vfc14big")
		if err != nil {
			t.Fatalf("VERIF-INCONCLUSIVE mkdir: %v", err)
		}
		defer os.RemoveAll(dir)
		d, err := vfC14NewFilter(dir, srv.srv.URL+"/list.txt")
		if err != nil {
			t.Fatalf("VERIF-INCONCLUSIVE filter: %v", err)
		}
		defer d.Close()
		path := filepath.Join(dir, filterDir, "7.txt")

		counts := []int{rapid.SampledFrom([]int{10, 20000}).Draw(t, "first_rules"),
			rapid.IntRange(600000, 1500000).Draw(t, "big_rules"), rapid.SampledFrom([]int{500, 640000}).Draw(t, "last_rules")}
		for i, n := range counts {
			body := vfC14List(n, i)
			srv.mu.Lock()
			srv.body, srv.cutAt = body, -1
			srv.mu.Unlock()
			if _, _, ok := d.tryRefreshFilters(true, true, true); !ok {
				t.Fatalf("VERIF-INCONCLUSIVE refresh %d did not run", i)
			}
			b, rerr := os.ReadFile(path)
			if rerr != nil {
				t.Fatalf("after the refresh with %d rules (%d bytes): %v", n, len(body), rerr)
			}
			want := strings.SplitN(body, "\n", 2)[1]
			vfC14.Eval()
			vfC14.Class(fmt.Sprintf("filterlist:large:%dMB", len(body)>>20))
			vfC14.Nontrivial(fmt.Sprintf("filterlist|large|%d|%d", i, n))
			if string(b) != want {
				last := b
				if len(last) > 60 {
					last = last[len(last)-60:]
				}
				t.Fatalf("after the refresh with %d rules (%d bytes of source) the path holds %d bytes, want the %d bytes of the complete new version; it ends with %q",
					n, len(body), len(b), len(want), last)
			}
		}
	})
}
