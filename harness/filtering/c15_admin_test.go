//go:build verif

package filtering

// C15 (refresh ‖ admin API): what a refresh does to a list does not depend on
// what the administrator does to *another* list while the downloads are in
// progress, and a list that gets another source meanwhile ends up with what
// that source delivered.  The admin operation (remove the list, switch it off,
// re-point it) is started from the list server's handler of a drawn download,
// so the interleaving is fixed, not timed; it runs in its own goroutine, and
// the download goes on when the call has ended or has come to wait.  For every list the operation did not touch: new content is
// stored in normal form, counted and in force; unchanged or failed content
// changes nothing; and a following refresh of identical content updates
// nothing and rewrites nothing.

import (
	"encoding/json"
	"fmt"
	"net/http"
	"os"
	"strings"
	"sync"
	"testing"
	"time"

	"github.com/AdguardTeam/AdGuardHome/internal/vfkit"
	"github.com/miekg/dns"
	"pgregory.net/rapid"
)

// vfC15RepointIdx is added to a list's index to name its second source.
const vfC15RepointIdx = 50

// vfC15AdminContent is version ver of list idx: source text and normal form.
func vfC15AdminContent(idx, ver int) (raw, nf []byte, count int) {
	rules := []string{fmt.Sprintf("||l%dv%d.probe.test^", idx, ver), fmt.Sprintf("||l%dcommon.probe.test^", idx)}
	for k := 0; k < ver; k++ {
		rules = append(rules, fmt.Sprintf("||l%dextra%d.probe.test^", idx, k))
	}
	raw = []byte("! Title: list " + fmt.Sprint(idx) + "\n# comment\n\n  " + strings.Join(rules, "  \r\n") + "\n")
	nf = []byte(strings.Join(rules, "\n") + "\n")

	return raw, nf, len(rules)
}

func TestVFC15RefreshVsAdmin(t *testing.T) {
	vfkit.Begin(t)
	vfC15Quiet()

	rapid.Check(t, func(t *rapid.T) {
		n := rapid.IntRange(2, 4).Draw(t, "n_lists")
		specs := make([]vfC15Spec, n)
		w := vfC15NewWorld(t, specs)
		defer w.close()
		// The refresh below plays the scheduled refresh, which runs in the
		// worker goroutine that also rebuilds the engines for the admin API
		// (updatesLoop): rebuilds asked for during the refresh are carried out
		// by that same goroutine afterwards.  (A refresh asked for through the
		// API cannot overlap another admin call: home serialises those.)  So
		// there is no second goroutine here: the harness owns the worker's
		// queue and works it off after the refresh, as the worker would.
		w.d.filtersInitializerChan = make(chan filtersInitializerParams, 1)
		worker := func() {
			for {
				select {
				case params := <-w.d.filtersInitializerChan:
					if ierr := w.d.initFilteringGen(params.gen, params.allowFilters, params.blockFilters); ierr != nil {
						t.Fatalf("rebuilding the engines: %v", ierr)
					}
				default:
					return
				}
			}
		}

		var hookMu sync.Mutex
		hookFor, hookDone := 0, false
		var hook func()
		inner := w.srv.srv.Config.Handler
		w.srv.srv.Config.Handler = http.HandlerFunc(func(rw http.ResponseWriter, r *http.Request) {
			var idx int
			if k, _ := fmt.Sscanf(r.URL.Path, "/l/%d", &idx); k == 1 {
				hookMu.Lock()
				run := hook != nil && idx == hookFor && !hookDone
				if run {
					hookDone = true
				}
				h := hook
				hookMu.Unlock()
				if run {
					h()
				}
			}
			inner.ServeHTTP(rw, r)
		})

		serve := func(l *vfC15List, ver int, fail bool) {
			raw, _, _ := vfC15AdminContent(l.Idx, ver)
			a := &vfC15Act{Kind: "ok", Variant: "fresh", Ver: ver, Body: raw}
			if fail {
				a = &vfC15Act{Kind: "status", Status: http.StatusInternalServerError, Body: []byte("boom")}
			}
			w.install(t, l, a)
		}
		refresh := func(what string) (updated int) {
			updated, _, ok := w.d.tryRefreshFilters(true, false, true)
			if !ok {
				t.Fatalf("VERIF-INCONCLUSIVE %s: refresh lock was held", what)
			}
			worker()

			return updated
		}
		blockedBy := func(host string) (id int, blocked bool) {
			res, err := w.d.CheckHost(host, dns.TypeA, &Settings{FilteringEnabled: true, ProtectionEnabled: true})
			if err != nil {
				t.Fatalf("CheckHost(%q): %v", host, err)
			}
			if res.Reason == FilteredBlockList && len(res.Rules) > 0 {
				return int(res.Rules[0].FilterListID), true
			}

			return 0, false
		}

		// 1. every list gets version 1
		for _, l := range w.lists {
			serve(l, 1, false)
		}
		if got := refresh("first refresh"); got != n {
			t.Fatalf("first refresh of %d new lists reports %d updated", n, got)
		}
		ver := map[int]int{}
		for _, l := range w.lists {
			ver[l.Idx] = 1
		}

		// 2. drawn server behaviour, drawn admin operation on another list
		// during a drawn download
		kinds := map[int]string{}
		for _, l := range w.lists {
			k := rapid.SampledFrom([]string{"new", "new", "same", "fail"}).Draw(t, fmt.Sprintf("l%d_server", l.Idx))
			kinds[l.Idx] = k
			switch k {
			case "new":
				serve(l, 2, false)
			case "same":
				serve(l, 1, false)
			default:
				serve(l, 2, true)
			}
		}
		op := rapid.SampledFrom([]string{"remove", "remove", "disable", "none", "repoint", "repoint"}).Draw(t, "admin_op")
		target := rapid.IntRange(1, n).Draw(t, "admin_target")
		during := rapid.IntRange(1, n).Draw(t, "during_download_of")
		adminDone := make(chan struct{})
		var adminCode int
		var adminResp []byte
		hookMu.Lock()
		hookFor = during
		if op != "none" {
			tl := w.lists[target-1]
			hook = func() {
				// The call is the administrator's, not the list server's: it
				// runs on its own, and the download goes on once the call has
				// ended or has visibly come to wait (for the refresh to end,
				// which is a legitimate way to order the two).
				path := "/control/filtering/set_url"
				var body []byte
				switch op {
				case "remove":
					path = "/control/filtering/remove_url"
					body, _ = json.Marshal(map[string]any{"url": tl.URL, "whitelist": false})
				case "repoint":
					// the list gets another source, which delivers at once
					raw, _, _ := vfC15AdminContent(vfC15RepointIdx+tl.Idx, 1)
					w.srv.mu.Lock()
					w.srv.acts[vfC15RepointIdx+tl.Idx] = &vfC15Act{Kind: "ok", Variant: "fresh", Ver: 1, Body: raw}
					w.srv.mu.Unlock()
					body, _ = json.Marshal(map[string]any{
						"url": tl.URL, "whitelist": false,
						"data": map[string]any{"name": "list", "url": fmt.Sprintf("%s/l/%d", w.srv.srv.URL, vfC15RepointIdx+tl.Idx), "enabled": true},
					})
				default:
					body, _ = json.Marshal(map[string]any{
						"url": tl.URL, "whitelist": false,
						"data": map[string]any{"name": "list", "url": tl.URL, "enabled": false},
					})
				}
				go func() {
					defer close(adminDone)
					adminCode, adminResp = w.call(vfC15Errorf{t}, http.MethodPost, path, body)
				}()
				select {
				case <-adminDone:
					vfC15.Class("admin:" + op + ":ran_during_the_download")
				case <-time.After(300 * time.Millisecond):
					vfC15.Class("admin:" + op + ":waited_for_the_refresh")
				}
			}
		}
		hookMu.Unlock()

		desc := fmt.Sprintf("lists %v; %s list %d during the download of list %d", kinds, op, target, during)
		refresh("second refresh")
		if op != "none" {
			select {
			case <-adminDone:
			case <-time.After(60 * time.Second):
				t.Fatalf("the admin call has not returned 60 s after the refresh ended (%s)", desc)
			}
			if adminCode != http.StatusOK {
				t.Fatalf("the admin call was refused: %d %s (%s)", adminCode, adminResp, desc)
			}
			// the rebuild it asked for
			worker()
		}
		hookMu.Lock()
		ran := hookDone
		hook = nil
		hookMu.Unlock()
		if op != "none" && !ran {
			t.Fatalf("VERIF-INCONCLUSIVE the admin operation did not run (%s)", desc)
		}

		vfC15.Eval()
		vfC15.Class("admin:op:" + op)
		if op != "none" && target < during {
			vfC15.Class("admin:earlier_list_touched_while_later_downloads")
		}
		anyNewLater := false

		// the engines may still be rebuilt in the background by the admin
		// operation: settle before judging what is in force
		check := func() (err error) {
			counts := w.statusCounts(t)
			for _, l := range w.lists {
				if op == "repoint" && l.Idx == target {
					// the list is what its new source delivered, whatever
					// the refresh was doing with the old one meanwhile
					_, nf, cnt := vfC15AdminContent(vfC15RepointIdx+l.Idx, 1)
					got, rerr := os.ReadFile(w.filterPath(l))
					if rerr != nil {
						return fmt.Errorf("re-pointed list %d: %w", l.Idx, rerr)
					}
					if string(got) != string(nf) {
						return fmt.Errorf("re-pointed list %d (old source: %s): the stored file is %q, want the normal form of what the new source delivered %q", l.Idx, kinds[l.Idx], got, nf)
					}
					if counts[int(l.ID)] != cnt {
						return fmt.Errorf("re-pointed list %d: rules_count is %d, the stored file has %d rules", l.Idx, counts[int(l.ID)], cnt)
					}
					if id, blocked := blockedBy(fmt.Sprintf("l%dv1.probe.test", vfC15RepointIdx+l.Idx)); !blocked || id != int(l.ID) {
						return fmt.Errorf("re-pointed list %d: the rules of the new source are not in force", l.Idx)
					}
					for v := 1; v <= 2; v++ {
						if _, blocked := blockedBy(fmt.Sprintf("l%dv%d.probe.test", l.Idx, v)); blocked {
							return fmt.Errorf("re-pointed list %d: version %d of the old source is in force", l.Idx, v)
						}
					}

					continue
				}
				if op != "none" && l.Idx == target {
					continue
				}
				want := 1
				if kinds[l.Idx] == "new" {
					want = 2
				}
				_, nf, cnt := vfC15AdminContent(l.Idx, want)
				got, rerr := os.ReadFile(w.filterPath(l))
				if rerr != nil {
					return fmt.Errorf("list %d: %w", l.Idx, rerr)
				}
				if string(got) != string(nf) {
					return fmt.Errorf("list %d (%s): the stored file is %q, want the normal form of version %d %q", l.Idx, kinds[l.Idx], got, want, nf)
				}
				if counts[int(l.ID)] != cnt {
					return fmt.Errorf("list %d (%s): rules_count is %d, the stored file has %d rules", l.Idx, kinds[l.Idx], counts[int(l.ID)], cnt)
				}
				for v := 1; v <= 2; v++ {
					host := fmt.Sprintf("l%dv%d.probe.test", l.Idx, v)
					id, blocked := blockedBy(host)
					if (v == want) != blocked || (blocked && id != int(l.ID)) {
						return fmt.Errorf("list %d (%s): %s blocked=%t (by list %d), want blocked=%t: version %d must be in force",
							l.Idx, kinds[l.Idx], host, blocked, id, v == want, want)
					}
				}
			}

			return nil
		}
		deadline := time.Now().Add(20 * time.Second)
		err := check()
		for err != nil && time.Now().Before(deadline) {
			time.Sleep(20 * time.Millisecond)
			err = check()
		}
		if err != nil {
			t.Fatalf("after the refresh (%s): %v", desc, err)
		}
		for _, l := range w.lists {
			if kinds[l.Idx] == "new" && op != "none" && l.Idx != target && l.Idx > target {
				anyNewLater = true
			}
		}
		if anyNewLater {
			vfC15.Class("admin:later_list_changed_after_touched_one")
		}
		vfC15.Nontrivial("admin|" + desc)
		if vfC15.WantSample("admin:" + op) {
			vfC15.Sample("admin:"+op, map[string]any{"server": kinds, "operation": op, "on_list": target, "during_download_of": during})
		}

		// 3. the same content again: nothing to update, nothing rewritten
		inode := map[int]os.FileInfo{}
		for _, l := range w.lists {
			if op != "none" && l.Idx == target {
				continue
			}
			fi, serr := os.Stat(w.filterPath(l))
			if serr != nil {
				t.Fatalf("stat: %v", serr)
			}
			inode[l.Idx] = fi
			if kinds[l.Idx] == "fail" {
				// the source recovers with the content the list already has
				serve(l, 1, false)
			}
		}
		if op != "none" {
			// a removed or switched-off list is not refreshed; whatever its
			// source serves is not the subject
			serve(w.lists[target-1], 1, false)
		}
		if updated := refresh("third refresh"); updated != 0 {
			t.Fatalf("a refresh of identical content reports %d updated lists (%s)", updated, desc)
		}
		for _, l := range w.lists {
			fi := inode[l.Idx]
			if fi == nil {
				continue
			}
			now, serr := os.Stat(w.filterPath(l))
			if serr != nil || !os.SameFile(fi, now) {
				t.Fatalf("list %d: a refresh of identical content rewrote the file (%s)", l.Idx, desc)
			}
		}
	})
}

// vfC15Errorf lets code that runs outside the test's goroutine report through
// a *rapid.T: Fatalf there must not be called from another goroutine.
type vfC15Errorf struct{ t *rapid.T }

func (e vfC15Errorf) Fatalf(format string, args ...any) { e.t.Errorf(format, args...) }
func (e vfC15Errorf) Errorf(format string, args ...any) { e.t.Errorf(format, args...) }
func (e vfC15Errorf) Logf(format string, args ...any)   { e.t.Logf(format, args...) }
func (e vfC15Errorf) Helper()                           {}
