//go:build verif

package filtering

// Property C17, support code: the file tree with marker rules, the reference
// glob matcher, the location spellings, the recording HTTP transport and the
// driver of one DNSFilter through its HTTP handlers.

import (
	"bytes"
	"encoding/json"
	"fmt"
	"io"
	"io/fs"
	"net/http"
	"net/http/httptest"
	"net/url"
	"os"
	"path"
	"path/filepath"
	"runtime/debug"
	"sort"
	"strings"
	"sync"

	"github.com/AdguardTeam/AdGuardHome/internal/vfkit"
	"github.com/AdguardTeam/golibs/log"
	"pgregory.net/rapid"
)

var vfC17 = vfkit.For("C17")

var vfC17Quiet sync.Once

// vfC17T is the part of *testing.T / *rapid.T the helpers need.
type vfC17T interface {
	Fatalf(format string, args ...any)
}

// ---------------------------------------------------------------------------
// The tree.

// vfC17Dirs are the directories of the tree, relative to its root.  "allowedx"
// and "secret/allowed" are look-alikes of "allowed".
// "data" is the data directory of the server itself: places below it are
// candidate locations like any other.
var vfC17Dirs = []string{"allowed", "allowed/sub", "allowedx", "secret", "secret/allowed", "userfilters", "data", "data/userfilters"}

// vfC17FileNames are the files of the tree, relative to its root.
var vfC17FileNames = []string{
	"allowed/list1.txt",
	"allowed/list2.txt",
	"allowed/listA.txt",
	"allowed/list10.txt",
	"allowed/rules",
	"allowed/sub/deep.txt",
	"allowedx/list1.txt",
	"secret/s.txt",
	"secret/list1.txt",
	"secret/allowed/list1.txt",
	"userfilters/x[1].txt",
	"userfilters/x1.txt",
	"data/own.txt",
	"data/userfilters/own.txt",
	"top.txt",
	"allowed/LIST2.txt",
}

// vfC17MissingNames are names of files that do not exist, relative to the root.
var vfC17MissingNames = []string{
	"allowed/list3.txt",
	"allowed/nofile",
	"secret/list9.txt",
	"nodir/list1.txt",
	"allowed\\..\\secret\\s.txt",
	"allowed/%2e%2e/secret/s.txt",
	"allowed/list1.txt\x00.png",
}

// Content kinds of a tree file.  The first four are valid rule lists.
var (
	vfC17ValidKinds   = []string{"plain", "titled", "hosts", "crlf"}
	vfC17InvalidKinds = []string{"html", "binary", "empty"}
)

// vfC17File is one file of the tree.
type vfC17File struct {
	Rel  string
	Kind string
	Ver  int
	idx  int
}

// token is the unique marker of the current version of the file.
func (f *vfC17File) token() (tok string) { return fmt.Sprintf("vfq%dx%dz", f.idx, f.Ver) }

// valid reports whether the file is a list the server can accept.
func (f *vfC17File) valid() (ok bool) { return vfC17RuleCount(f.Kind) > 0 }

// vfC17MarkerHost is the name blocked (or allowed) by the marker rule.
func vfC17MarkerHost(tok string) (host string) { return tok + ".marker.test" }

// vfC17Content is the text of a list of the given kind carrying the token in
// its rule, and where the kind has one, in its title.
func vfC17Content(kind, tok string) (text string) {
	switch kind {
	case "plain":
		return "||" + vfC17MarkerHost(tok) + "^\n"
	case "titled":
		return "! Title: T" + tok + "\n! comment " + tok + "\n||" + vfC17MarkerHost(tok) + "^\n||second-" + tok + ".test^\n"
	case "hosts":
		return "# hosts " + tok + "\n0.0.0.0 " + vfC17MarkerHost(tok) + "\n"
	case "crlf":
		return "||" + vfC17MarkerHost(tok) + "^\r\n\r\n# " + tok + "\r\n"
	case "html":
		return "<!DOCTYPE html>\n<html><body>||" + vfC17MarkerHost(tok) + "^</body></html>\n"
	case "binary":
		return "||" + vfC17MarkerHost(tok) + "^\n\x00\x01" + tok + "\x02\n||after-" + tok + ".test^\n"
	case "empty":
		return ""
	default:
		panic("vfC17Content: kind " + kind)
	}
}

// vfC17RuleCount is the number of rules of a valid list of the kind, 0 for the
// kinds that are not acceptable lists.
func vfC17RuleCount(kind string) (n int) {
	switch kind {
	case "plain", "hosts", "crlf":
		return 1
	case "titled":
		return 2
	default:
		return 0
	}
}

// ---------------------------------------------------------------------------
// Reference glob matcher, written from the documentation of path.Match:
// '*' any sequence of non-separator characters, '?' one non-separator
// character, '[' ['^'] ranges ']' a character class, '\\' c the character c,
// anything else itself.  Names and patterns of the harness are ASCII.

func vfC17Glob(p, s string) (ok bool) {
	if p == "" {
		return s == ""
	}

	switch p[0] {
	case '*':
		for i := 0; ; i++ {
			if vfC17Glob(p[1:], s[i:]) {
				return true
			}
			if i >= len(s) || s[i] == '/' {
				return false
			}
		}
	case '?':
		return s != "" && s[0] != '/' && vfC17Glob(p[1:], s[1:])
	case '[':
		end, match := vfC17Class(p, s)
		if end < 0 {
			panic("vfC17Glob: malformed class in " + p)
		}

		return match && vfC17Glob(p[end:], s[1:])
	case '\\':
		if len(p) < 2 {
			panic("vfC17Glob: trailing backslash in " + p)
		}

		return s != "" && s[0] == p[1] && vfC17Glob(p[2:], s[1:])
	default:
		return s != "" && s[0] == p[0] && vfC17Glob(p[1:], s[1:])
	}
}

// vfC17Class parses the class at the start of p and reports the index after
// its closing bracket and whether the first character of s is in it.
func vfC17Class(p, s string) (end int, match bool) {
	i := 1
	neg := false
	if i < len(p) && p[i] == '^' {
		neg = true
		i++
	}

	in := false
	n := 0
	for {
		if i >= len(p) {
			return -1, false
		}
		if p[i] == ']' && n > 0 {
			i++

			break
		}

		lo, ni := vfC17ClassChar(p, i)
		if ni < 0 {
			return -1, false
		}
		i = ni
		hi := lo
		if i+1 < len(p) && p[i] == '-' && p[i+1] != ']' {
			hi, ni = vfC17ClassChar(p, i+1)
			if ni < 0 {
				return -1, false
			}
			i = ni
		}
		if s != "" && lo <= s[0] && s[0] <= hi {
			in = true
		}
		n++
	}

	if s == "" {
		return i, false
	}

	return i, in != neg
}

func vfC17ClassChar(p string, i int) (c byte, next int) {
	if i >= len(p) {
		return 0, -1
	}
	if p[i] == '\\' {
		if i+1 >= len(p) {
			return 0, -1
		}

		return p[i+1], i + 2
	}

	return p[i], i + 1
}

// vfC17MatchesAny is the reference decision: the cleaned absolute path matches
// one of the patterns.  Every decision is cross-checked against the standard
// library's path.Match; a disagreement is a defect of the harness.
func vfC17MatchesAny(t vfC17T, patterns []string, clean string) (ok bool) {
	for _, p := range patterns {
		m := vfC17Glob(p, clean)
		std, err := path.Match(p, clean)
		if err != nil || std != m {
			t.Fatalf("VERIF-INCONCLUSIVE reference glob disagrees with path.Match: pattern %q name %q: model %t std %t err %v",
				p, clean, m, std, err)
		}
		if m {
			ok = true
		}
	}

	return ok
}

// ---------------------------------------------------------------------------
// Patterns.

// vfC17Pattern is one configured safe pattern and how it was built.
type vfC17Pattern struct {
	Kind string
	Text string
}

var vfC17PatternKinds = []string{
	"exact", "exact", "dirstar", "dirstar", "dirstar", "dirext", "question", "class", "classrange", "negclass",
	"anydir", "twostar", "deep", "relstar", "barestar", "dironly", "trailslash", "unclean", "rootdepth",
	"prefixstar", "prefixdir", "escaped", "classsep", "upper", "twostar", "deep", "rootdepth", "anydir",
}

// vfC17DrawPattern builds one pattern over the tree rooted at root.
func vfC17DrawPattern(t *rapid.T, root, label string) (p vfC17Pattern) {
	kind := rapid.SampledFrom(vfC17PatternKinds).Draw(t, label+"_kind")
	dirs := []string{"allowed", "allowed", "allowed", "allowed/sub", "allowedx", "secret", "secret/allowed", "userfilters"}
	d := rapid.SampledFrom(dirs).Draw(t, label+"_dir")
	p.Kind = kind
	switch kind {
	case "exact":
		f := rapid.SampledFrom(vfC17FileNames).Draw(t, label+"_file")
		p.Text = root + "/" + f
	case "dirstar":
		p.Text = root + "/" + d + "/*"
	case "dirext":
		p.Text = root + "/" + d + "/*.txt"
	case "question":
		p.Text = root + "/" + d + "/list?.txt"
	case "class":
		p.Text = root + "/" + d + "/list[0-9].txt"
	case "classrange":
		p.Text = root + "/" + d + "/[a-l]*"
	case "negclass":
		p.Text = root + "/" + d + "/[^s]*"
	case "anydir":
		p.Text = root + "/*/" + rapid.SampledFrom([]string{"list1.txt", "s.txt", "*.txt"}).Draw(t, label+"_name")
	case "twostar":
		p.Text = root + "/*/*"
	case "deep":
		p.Text = root + "/" + d + "/*/*"
	case "relstar":
		p.Text = d + "/*"
	case "barestar":
		p.Text = rapid.SampledFrom([]string{"*", "*.txt", "*/*", "**"}).Draw(t, label+"_bare")
	case "dironly":
		p.Text = root + "/" + d
	case "trailslash":
		p.Text = root + "/" + d + "/"
	case "unclean":
		p.Text = root + "/secret/../" + d + "/*"
	case "rootdepth":
		n := strings.Count(root, "/") + rapid.IntRange(1, 3).Draw(t, label+"_depth")
		p.Text = strings.Repeat("/*", n)
	case "prefixstar":
		p.Text = root + "/" + d + "*"
	case "prefixdir":
		p.Text = root + "/" + d + "*/list1.txt"
	case "escaped":
		p.Text = root + "/userfilters/x\\[1\\].txt"
	case "upper":
		// Matching is case-sensitive: this allows nothing of the tree but
		// <root>/allowed/LIST2.txt in its second form.
		p.Text = rapid.SampledFrom([]string{root + "/ALLOWED/*", root + "/allowed/LIST?.txt", root + "/allowed/List1.txt"}).
			Draw(t, label+"_upper")
	case "classsep":
		// A class may match the separator (path.Match puts no restriction on
		// classes), so this matches <root>/<d>/list1.txt.
		p.Text = root + "/" + d + "[/]list1.txt"
	default:
		panic("pattern kind " + kind)
	}

	return p
}

// vfC17DrawPatterns draws the pattern list of a configuration.
func vfC17DrawPatterns(t *rapid.T, root, label string) (ps []vfC17Pattern) {
	n := rapid.SampledFrom([]int{0, 0, 1, 1, 1, 1, 1, 2, 2, 2, 2, 3, 4}).Draw(t, label+"_n")
	for i := 0; i < n; i++ {
		ps = append(ps, vfC17DrawPattern(t, root, fmt.Sprintf("%s%d", label, i)))
	}

	return ps
}

func vfC17PatternTexts(ps []vfC17Pattern) (texts []string) {
	for _, p := range ps {
		texts = append(texts, p.Text)
	}

	return texts
}

func vfC17PatternKindsOf(ps []vfC17Pattern) (kinds []string) {
	for _, p := range ps {
		kinds = append(kinds, p.Kind)
	}
	sort.Strings(kinds)

	return kinds
}

// ---------------------------------------------------------------------------
// Locations.

// vfC17Loc is one candidate location of a list and how it was spelled.
type vfC17Loc struct {
	// Raw is the string given to the server.
	Raw string `json:"raw"`
	// Family: abs (begins with the separator), rel, url (scheme other than
	// http/https or scheme-less host-looking), http, odd (http-like, validity
	// not stated).
	Family string `json:"family"`
	// Form names the URL or relative form, "" for abs.
	Form string `json:"form,omitempty"`
	// Role is the target in tree terms: "file:allowed/list1.txt", "dir:…",
	// "missing:…", "system:/etc/passwd".
	Role string `json:"role"`
	// Target is the cleaned absolute path the absolute spelling denotes.
	Target string `json:"-"`
	// Transforms are the spelling transformations applied, in order.
	Transforms []string `json:"transforms,omitempty"`
	// Cands are the cleaned absolute paths a non-absolute location could be
	// read as (relative to the working directory; the path part of a URL).
	Cands []string `json:"-"`
}

// vfC17SystemFiles are existing files outside the tree.
var vfC17SystemFiles = sync.OnceValue(func() (files []string) {
	for _, p := range []string{"/etc/passwd", "/etc/hosts", "/etc/hostname"} {
		st, err := os.Stat(p)
		if err == nil && st.Mode().IsRegular() {
			files = append(files, p)
		}
	}

	return files
})

// vfC17DetourNames are the names used for "name/.." detours.
var vfC17DetourNames = []string{"allowed", "secret", "allowedx", "userfilters", "nonexistent", "...", "list1.txt", "sub"}

// vfC17SpellAbs spells the cleaned absolute path tgt in a way that keeps its
// cleaned form.  otherDirs are absolute directories to route through.
func vfC17SpellAbs(t *rapid.T, tgt string, otherDirs []string, label string, minTr int) (raw string, tr []string) {
	segs := strings.Split(tgt[1:], "/")
	n := len(segs)
	sep := make([]string, n)
	pre := make([]string, n)
	for i := range sep {
		sep[i] = "/"
	}
	suffix := ""
	prefix := ""

	k := rapid.IntRange(minTr, 3).Draw(t, label+"_ntr")
	for j := 0; j < k; j++ {
		kind := rapid.SampledFrom([]string{"dot", "dbl", "detour", "detour", "trail", "climb", "via", "via"}).
			Draw(t, fmt.Sprintf("%s_tr%d", label, j))
		// Positions near the end matter most: that is where the tree is.
		pos := n - 1 - rapid.SampledFrom([]int{0, 0, 1, 1, 2, 3, n - 1}).Draw(t, fmt.Sprintf("%s_pos%d", label, j))
		if pos < 0 {
			pos = 0
		}
		where := "mid"
		if pos == 0 {
			where = "first"
		} else if pos == n-1 {
			where = "last"
		}
		switch kind {
		case "dot":
			pre[pos] += "./"
			tr = append(tr, "dot@"+where)
		case "dbl":
			sep[pos] += "/"
			tr = append(tr, "dbl@"+where)
		case "detour":
			x := rapid.SampledFrom(vfC17DetourNames).Draw(t, fmt.Sprintf("%s_x%d", label, j))
			pre[pos] += x + "/../"
			tr = append(tr, "detour@"+where)
		case "trail":
			suffix += rapid.SampledFrom([]string{"/", "/.", "//", "/./"}).Draw(t, fmt.Sprintf("%s_sfx%d", label, j))
			tr = append(tr, "trail")
		case "climb":
			pre[0] += strings.Repeat("../", rapid.IntRange(1, 3).Draw(t, fmt.Sprintf("%s_up%d", label, j)))
			tr = append(tr, "climb")
		case "via":
			if prefix != "" || len(otherDirs) == 0 {
				pre[pos] += "./"
				tr = append(tr, "dot@"+where)

				continue
			}
			od := rapid.SampledFrom(otherDirs).Draw(t, fmt.Sprintf("%s_via%d", label, j))
			extra := rapid.IntRange(0, 2).Draw(t, fmt.Sprintf("%s_viaup%d", label, j))
			prefix = od + strings.Repeat("/..", strings.Count(od, "/")+extra)
			tr = append(tr, "via")
		}
	}

	sb := &strings.Builder{}
	sb.WriteString(prefix)
	for i, s := range segs {
		sb.WriteString(sep[i])
		sb.WriteString(pre[i])
		sb.WriteString(s)
	}
	sb.WriteString(suffix)
	raw = sb.String()

	if c := path.Clean(raw); c != tgt {
		t.Fatalf("VERIF-INCONCLUSIVE spelling %q cleans to %q, not to the target %q", raw, c, tgt)
	}

	return raw, tr
}

// vfC17Decoys returns spellings under root that match the pattern segment by
// segment as written, yet clean to tgt (a path under root).  At most 32 are
// returned, in a fixed order.
func vfC17Decoys(root, pattern, tgt string) (raws []string) {
	rootSegs := strings.Split(root[1:], "/")
	if !strings.HasPrefix(pattern, "/") || strings.Contains(pattern, "[/") {
		// Relative patterns match nothing; a class holding the separator
		// cannot be taken apart into segments.
		return nil
	}
	patSegs := strings.Split(pattern[1:], "/")
	if len(patSegs) <= len(rootSegs) {
		return nil
	}
	for i, rs := range rootSegs {
		if !vfC17Glob(patSegs[i], rs) {
			return nil
		}
	}
	patSegs = patSegs[len(rootSegs):]
	if len(patSegs) > 6 {
		return nil
	}
	tgtSegs := strings.Split(strings.TrimPrefix(tgt, root+"/"), "/")

	cands := []string{".", "..", "allowed", "secret", "sub", "allowedx", "userfilters"}
	for _, ts := range tgtSegs {
		if !vfC17In(cands, ts) {
			cands = append(cands, ts)
		}
	}

	var rec func(i int, stack, raw []string)
	rec = func(i int, stack, raw []string) {
		if len(raws) >= 32 {
			return
		}
		if i == len(patSegs) {
			if strings.Join(stack, "/") == strings.Join(tgtSegs, "/") {
				raws = append(raws, root+"/"+strings.Join(raw, "/"))
			}

			return
		}
		for _, c := range cands {
			if c == "" || !vfC17Glob(patSegs[i], c) {
				continue
			}
			next := stack
			switch c {
			case ".":
				// Stays.
			case "..":
				if len(stack) == 0 {
					continue
				}
				next = stack[:len(stack)-1]
			default:
				next = append(append([]string{}, stack...), c)
			}
			rec(i+1, next, append(append([]string{}, raw...), c))
		}
	}
	rec(0, nil, nil)

	return raws
}

func vfC17In(ss []string, s string) (ok bool) {
	for _, x := range ss {
		if x == s {
			return true
		}
	}

	return false
}

// URL-looking and relative forms of an absolute spelling.
var (
	vfC17URLForms = []string{
		"file://", "file:", "FILE://", "File://localhost", "file://localhost", "ftp://localhost", "ftp:/",
		"gopher://h", "unix://", "local:", "localhost", "example.org", "//localhost", "data:text/plain,",
		"jar:file://", "smb://host",
	}
	vfC17HTTPForms = []string{"http://localhost", "https://lists.test", "HTTP://localhost", "http://127.0.0.1:80"}
	vfC17OddForms  = []string{"http:", "https:/", "http://", "http://@", "http://:80"}
	vfC17RelForms  = []string{"rel_cwd", "rel_cwd_dot", "rel_strip", "rel_dot", "rel_space", "rel_tab", "rel_home"}
)

// vfC17DrawLoc draws a location for the target; fam is "" for a drawn family.
func (w *vfC17World) drawLoc(t *rapid.T, tgt, role, fam, label string) (loc vfC17Loc) {
	if fam == "" {
		fam = rapid.SampledFrom([]string{"abs", "abs", "abs", "abs", "abs", "abs", "rel", "url", "url", "http", "odd"}).
			Draw(t, label+"_family")
	}

	others := make([]string, 0, len(vfC17Dirs)+1)
	for _, d := range vfC17Dirs {
		others = append(others, w.root+"/"+d)
	}
	others = append(others, w.root, "/etc", "/nonexistent/dir")

	minTr := 0
	if fam == "abs" && rapid.IntRange(0, 4).Draw(t, label+"_plain") != 0 {
		minTr = 1
	}
	var abs string
	var tr []string
	// A decoy: a spelling that, taken as it is written, matches one of the
	// patterns, while the file it denotes does not.
	if strings.HasPrefix(tgt, w.root+"/") && len(w.patterns) > 0 && !w.allowed(tgt) {
		var decoys []string
		for _, p := range w.patterns {
			decoys = append(decoys, vfC17Decoys(w.root, p.Text, tgt)...)
		}
		if len(decoys) > 0 && rapid.IntRange(0, 3).Draw(t, label+"_decoy") != 0 {
			abs, tr = rapid.SampledFrom(decoys).Draw(t, label+"_decoy_raw"), []string{"decoy"}
			if c := path.Clean(abs); c != tgt {
				t.Fatalf("VERIF-INCONCLUSIVE decoy %q cleans to %q, not to the target %q", abs, c, tgt)
			}
		}
	}
	if abs == "" {
		abs, tr = vfC17SpellAbs(t, tgt, others, label, minTr)
	}
	loc = vfC17Loc{Raw: abs, Family: fam, Role: role, Target: tgt, Transforms: tr}

	switch fam {
	case "abs":
		// A file name that, percent-decoded, would be a way out of a directory
		// the patterns allow into a file they do not: the name is a name, no
		// file of that name exists, and the file it "decodes to" is not to be
		// touched.
		if strings.HasPrefix(tgt, w.root+"/") && len(w.patterns) > 0 && !w.allowed(tgt) && rapid.IntRange(0, 3).Draw(t, label+"_percent_encoded") == 0 {
			for _, d := range vfC17Dirs {
				rel, rerr := filepath.Rel(w.root+"/"+d, tgt)
				if rerr != nil {
					continue
				}
				enc := strings.ReplaceAll(rel, "/", rapid.SampledFrom([]string{"%2F", "%2f"}).Draw(t, label+"_enc_sep"))
				if rapid.Bool().Draw(t, label+"_enc_dots") {
					enc = strings.ReplaceAll(enc, "..", "%2E%2E")
				}
				cand := w.root + "/" + d + "/" + enc
				if w.allowed(cand) {
					loc.Raw, loc.Target, loc.Role, loc.Transforms = cand, cand, "encoded:"+role, []string{"percent_encoded"}

					break
				}
			}
		}
	case "rel":
		loc.Form = rapid.SampledFrom(vfC17RelForms).Draw(t, label+"_form")
		switch loc.Form {
		case "rel_cwd", "rel_cwd_dot":
			rel, err := filepath.Rel(w.cwd, tgt)
			if err != nil {
				t.Fatalf("VERIF-INCONCLUSIVE filepath.Rel(%q, %q): %v", w.cwd, tgt, err)
			}
			if loc.Form == "rel_cwd_dot" {
				rel = "./" + rel
			}
			loc.Raw = rel
		case "rel_strip":
			loc.Raw = strings.TrimLeft(abs, "/")
		case "rel_dot":
			loc.Raw = "." + abs
		case "rel_space":
			loc.Raw = " " + abs
		case "rel_tab":
			loc.Raw = "\t" + abs
		case "rel_home":
			loc.Raw = "~" + abs
		}
	case "url":
		loc.Form = rapid.SampledFrom(vfC17URLForms).Draw(t, label+"_form")
		loc.Raw = loc.Form + abs
	case "http":
		loc.Form = rapid.SampledFrom(vfC17HTTPForms).Draw(t, label+"_form")
		// Keep the URL path free of dot segments and spaces so that it is a
		// plain valid HTTP URL.
		loc.Raw = loc.Form + tgt
		loc.Transforms = nil
	case "odd":
		loc.Form = rapid.SampledFrom(vfC17OddForms).Draw(t, label+"_form")
		loc.Raw = loc.Form + abs
	}

	if fam != "abs" {
		if strings.HasPrefix(loc.Raw, "/") {
			// "//localhost/…" is an absolute path for the operating system.
			loc.Family = "abs"
			loc.Target = path.Clean(loc.Raw)
			loc.Role = "missing:" + loc.Form
		} else {
			loc.Cands = []string{path.Clean(w.cwd + "/" + loc.Raw), tgt}
		}
	}

	return loc
}

// ---------------------------------------------------------------------------
// The recording HTTP transport.  It never touches the file system and refuses
// schemes other than http and https the way net/http's transport does.

type vfC17Stub struct {
	mu       sync.Mutex
	requests []string
	urls     map[string]int
	fail     map[string]bool
}

func (s *vfC17Stub) token(u string) (tok string) {
	// The scheme is case-insensitive; net/url normalises it.
	if pu, err := url.Parse(u); err == nil {
		u = pu.String()
	}

	s.mu.Lock()
	defer s.mu.Unlock()

	i, ok := s.urls[u]
	if !ok {
		i = len(s.urls)
		s.urls[u] = i
	}

	return fmt.Sprintf("vfh%dz", i)
}

func (s *vfC17Stub) RoundTrip(r *http.Request) (resp *http.Response, err error) {
	u := r.URL.String()
	s.mu.Lock()
	s.requests = append(s.requests, u)
	fail := s.fail[u]
	s.mu.Unlock()

	if r.URL.Scheme != "http" && r.URL.Scheme != "https" {
		return nil, fmt.Errorf("unsupported protocol scheme %q", r.URL.Scheme)
	}
	if r.URL.Host == "" {
		return nil, fmt.Errorf("http: no Host in request URL")
	}

	code := http.StatusOK
	body := "||" + vfC17MarkerHost(s.token(u)) + "^\n"
	if fail {
		code = http.StatusNotFound
		body = "not found\n"
	}

	return &http.Response{
		Status:        fmt.Sprintf("%d %s", code, http.StatusText(code)),
		StatusCode:    code,
		Proto:         "HTTP/1.1",
		ProtoMajor:    1,
		ProtoMinor:    1,
		Header:        http.Header{"Content-Type": []string{"text/plain"}},
		Body:          io.NopCloser(strings.NewReader(body)),
		ContentLength: int64(len(body)),
		Request:       r,
	}, nil
}

func (s *vfC17Stub) nonHTTPRequests() (n int) {
	s.mu.Lock()
	defer s.mu.Unlock()

	for _, u := range s.requests {
		if !strings.HasPrefix(u, "http://") && !strings.HasPrefix(u, "https://") {
			n++
		}
	}

	return n
}

// ---------------------------------------------------------------------------
// The world of one case.

type vfC17World struct {
	t       vfC17T
	base    string
	root    string
	dataDir string
	cwd     string
	files   []*vfC17File

	patterns   []vfC17Pattern
	generation int
	d          *DNSFilter
	handlers   map[string]http.HandlerFunc
	stub       *vfC17Stub

	// opens watches the tree for files being opened.
	opens *vfkit.Watcher

	// locs remembers every location by its raw string.
	locs map[string]vfC17Loc
	// tokens are all tokens ever written into the tree; readable are those
	// that were, at some moment, the content of a file matching the patterns
	// in force.
	tokens   []string
	readable map[string]bool
}

// vfC17Response is what a handler answered.
type vfC17Response struct {
	Code int
	Body string
}

// vfC17NewWorld makes the temporary tree; kinds gives the content kind of each
// file of vfC17FileNames.
func vfC17NewWorld(t vfC17T, kinds []string) (w *vfC17World) {
	vfC17Quiet.Do(func() { log.SetOutput(io.Discard) })

	base, err := os.MkdirTemp("", "vfc17-")
	if err != nil {
		t.Fatalf("VERIF-INCONCLUSIVE temp dir: %v", err)
	}
	w = &vfC17World{
		t:        t,
		base:     base,
		root:     base + "/t",
		dataDir:  base + "/t/data",
		stub:     &vfC17Stub{urls: map[string]int{}, fail: map[string]bool{}},
		locs:     map[string]vfC17Loc{},
		readable: map[string]bool{},
	}
	if !strings.HasPrefix(base, "/") || path.Clean(base) != base || strings.ContainsAny(base, "*?[\\ \t\x00") {
		w.cleanup()
		t.Fatalf("VERIF-INCONCLUSIVE temp dir %q is not a clean absolute path free of pattern characters", base)
	}
	w.cwd, err = os.Getwd()
	if err != nil {
		w.cleanup()
		t.Fatalf("VERIF-INCONCLUSIVE getwd: %v", err)
	}

	for _, d := range vfC17Dirs {
		err = os.MkdirAll(w.root+"/"+d, 0o755)
		if err != nil {
			w.cleanup()
			t.Fatalf("VERIF-INCONCLUSIVE mkdir: %v", err)
		}
	}
	err = os.MkdirAll(w.dataDir+"/"+filterDir, 0o755)
	if err != nil {
		w.cleanup()
		t.Fatalf("VERIF-INCONCLUSIVE mkdir: %v", err)
	}
	for i, name := range vfC17FileNames {
		f := &vfC17File{Rel: name, Kind: kinds[i], idx: i}
		w.files = append(w.files, f)
		w.writeFile(f)
	}

	watch := []string{w.root}
	for _, d := range vfC17Dirs {
		watch = append(watch, w.root+"/"+d)
	}
	w.opens, err = vfkit.NewOpenWatcher(watch...)
	if err != nil {
		w.cleanup()
		t.Fatalf("VERIF-INCONCLUSIVE watching the tree: %v", err)
	}

	return w
}

func (w *vfC17World) writeFile(f *vfC17File) {
	tok := f.token()
	w.tokens = append(w.tokens, tok)
	err := os.WriteFile(w.root+"/"+f.Rel, []byte(vfC17Content(f.Kind, tok)), 0o644)
	if err != nil {
		w.t.Fatalf("VERIF-INCONCLUSIVE write %q: %v", f.Rel, err)
	}
}

// bump rewrites a file with a new version of its content.
func (w *vfC17World) bump(f *vfC17File) {
	f.Ver++
	w.writeFile(f)
	w.markReadable()
}

func (w *vfC17World) cleanup() {
	if w.opens != nil {
		w.opens.Close()
		w.opens = nil
	}
	if w.d != nil {
		w.d.Close()
		w.d = nil
	}
	_ = os.RemoveAll(w.base)
}

// fileAt returns the tree file with that cleaned absolute path, if any.
func (w *vfC17World) fileAt(clean string) (f *vfC17File) {
	for _, f = range w.files {
		if w.root+"/"+f.Rel == clean {
			return f
		}
	}

	return nil
}

// allowed is the reference decision for a cleaned absolute path under the
// patterns in force.
func (w *vfC17World) allowed(clean string) (ok bool) {
	return vfC17MatchesAny(w.t, vfC17PatternTexts(w.patterns), clean)
}

// markReadable notes the tokens that may legitimately be read now.
func (w *vfC17World) markReadable() {
	for _, f := range w.files {
		if w.allowed(w.root + "/" + f.Rel) {
			w.readable[f.token()] = true
		}
	}
}

// start builds the DNSFilter over the data directory with the patterns and
// the configured lists, and captures its HTTP handlers.
func (w *vfC17World) start(patterns []vfC17Pattern, block, allow []FilterYAML) {
	if w.d != nil {
		w.d.Close()
		w.d = nil
	}
	w.patterns = patterns
	w.handlers = map[string]http.HandlerFunc{}
	conf := &Config{
		FilteringEnabled:           true,
		ProtectionEnabled:          true,
		DataDir:                    w.dataDir,
		ConfigModified:             func() {},
		HTTPRegister:               func(method, u string, h http.HandlerFunc) { w.handlers[method+" "+u] = h },
		HTTPClient:                 &http.Client{Transport: w.stub},
		SafeFSPatterns:             vfC17PatternTexts(patterns),
		Filters:                    block,
		WhitelistFilters:           allow,
		FiltersUpdateIntervalHours: 24,
	}

	d, err := New(conf, nil)
	if err != nil {
		w.t.Fatalf("VERIF-INCONCLUSIVE filtering.New with patterns %q: %v", conf.SafeFSPatterns, err)
	}
	// The handlers hand the engine reload to the updates goroutine through
	// this channel; the harness does not start that goroutine (it would make
	// the moment of the reload depend on the scheduler) and reloads itself.
	d.filtersInitializerChan = make(chan filtersInitializerParams, 1)
	// New seeds the list IDs from the wall clock and does not look at the IDs
	// in use, so two starts within one second (which only a test does) hand
	// out the same IDs twice.  Give every start its own range instead; this
	// also keeps the clock out of the case.
	w.generation++
	d.idGen = newIDGenerator(int32(1000 * w.generation))
	d.RegisterFilteringHandlers()
	w.d = d
	if len(block)+len(allow) > 0 {
		w.reload()
	}
	w.markReadable()
}

// reload makes the engine use the lists of the configuration now.
func (w *vfC17World) reload() {
	w.guard("EnableFilters", func() { w.d.EnableFilters(false) })
}

// settle does the reload a handler asked the updates goroutine for, if any.
// (Each reload costs a forced garbage collection inside the code under test,
// so it is done only when something may have changed.)
func (w *vfC17World) settle() {
	select {
	case <-w.d.filtersInitializerChan:
		w.reload()
	default:
	}
}

// guard turns a panic of the code under test into a failure.
func (w *vfC17World) guard(what string, f func()) {
	defer func() {
		if r := recover(); r != nil {
			w.t.Fatalf("panic in %s: %v\n%s", what, r, debug.Stack())
		}
	}()

	if w.opens != nil {
		_, _ = w.opens.Drain()
	}
	f()
	w.checkOpens(what)
}

// checkOpens is the kernel-level half of "no local file outside the patterns
// is read": the server must not even have opened one (whatever it then did
// with the content, or with the error text it built from it).
func (w *vfC17World) checkOpens(what string) {
	if w.opens == nil {
		return
	}
	evs, err := w.opens.Drain()
	if err != nil {
		w.t.Fatalf("VERIF-INCONCLUSIVE inotify: %v", err)
	}
	for _, e := range evs {
		if !e.IsOpen() || e.Name == "" {
			continue
		}
		clean := e.Dir + "/" + e.Name
		f := w.fileAt(clean)
		if f == nil {
			continue
		}
		vfC17.Class("opens_observed")
		if !w.allowed(clean) {
			w.t.Fatalf("%s: the file %s was opened although it matches no safe pattern %q", what, clean, vfC17PatternTexts(w.patterns))
		}
	}
}

// call runs a captured handler.
func (w *vfC17World) call(method, p string, body any) (resp vfC17Response) {
	h := w.handlers[method+" "+strings.SplitN(p, "?", 2)[0]]
	if h == nil {
		w.t.Fatalf("VERIF-INCONCLUSIVE handler %s %s is not registered", method, p)
	}

	var rd io.Reader
	if body != nil {
		b, err := json.Marshal(body)
		if err != nil {
			w.t.Fatalf("VERIF-INCONCLUSIVE marshal: %v", err)
		}
		rd = bytes.NewReader(b)
	}
	r := httptest.NewRequest(method, p, rd)
	r.Header.Set("Content-Type", "application/json")
	rec := httptest.NewRecorder()
	w.guard(method+" "+p, func() { h(rec, r) })

	return vfC17Response{Code: rec.Code, Body: rec.Body.String()}
}

// vfC17ListJSON is one list of the status answer.
type vfC17ListJSON struct {
	URL        string `json:"url"`
	Name       string `json:"name"`
	ID         int64  `json:"id"`
	RulesCount int    `json:"rules_count"`
	Enabled    bool   `json:"enabled"`
	White      bool   `json:"-"`
}

type vfC17Status struct {
	Filters          []vfC17ListJSON `json:"filters"`
	WhitelistFilters []vfC17ListJSON `json:"whitelist_filters"`
}

func (st *vfC17Status) all() (ls []vfC17ListJSON) {
	for _, l := range st.Filters {
		ls = append(ls, l)
	}
	for _, l := range st.WhitelistFilters {
		l.White = true
		ls = append(ls, l)
	}

	return ls
}

func (st *vfC17Status) find(u string, white bool) (l *vfC17ListJSON) {
	for _, x := range st.all() {
		if x.URL == u && x.White == white {
			return &x
		}
	}

	return nil
}

func (st *vfC17Status) has(u string) (ok bool) {
	return st.find(u, false) != nil || st.find(u, true) != nil
}

// status reads GET /control/filtering/status.
func (w *vfC17World) status() (st *vfC17Status, raw string) {
	resp := w.call(http.MethodGet, "/control/filtering/status", nil)
	if resp.Code != http.StatusOK {
		w.t.Fatalf("GET /control/filtering/status: %d %s", resp.Code, resp.Body)
	}
	st = &vfC17Status{}
	err := json.Unmarshal([]byte(resp.Body), st)
	if err != nil {
		w.t.Fatalf("GET /control/filtering/status: %v: %s", err, resp.Body)
	}

	return st, resp.Body
}

// vfC17Check is the answer of check_host as far as the check needs it.
type vfC17Check struct {
	Reason string `json:"reason"`
	Rules  []struct {
		Text string `json:"text"`
		ID   int64  `json:"filter_list_id"`
	} `json:"rules"`
}

// checkHost asks GET /control/filtering/check_host.
func (w *vfC17World) checkHost(host string) (c vfC17Check) {
	resp := w.call(http.MethodGet, "/control/filtering/check_host?name="+url.QueryEscape(host), nil)
	if resp.Code != http.StatusOK {
		w.t.Fatalf("check_host %q: %d %s", host, resp.Code, resp.Body)
	}
	err := json.Unmarshal([]byte(resp.Body), &c)
	if err != nil {
		w.t.Fatalf("check_host %q: %v: %s", host, err, resp.Body)
	}

	return c
}

// cached returns the bytes of the stored copy of list id ("" when absent).
func (w *vfC17World) cached(id int64) (data string, ok bool) {
	b, err := os.ReadFile(fmt.Sprintf("%s/%s/%d.txt", w.dataDir, filterDir, id))
	if err != nil {
		return "", false
	}

	return string(b), true
}

// scan is the safety oracle: no token that was never legitimately readable
// shows up anywhere: in no file under the data directory, not in the status
// answer (names, counts), not in the given response bodies, not as a name the
// filter blocks or allows.
func (w *vfC17World) scan(what string, bodies ...string) {
	var forbidden []string
	for _, tok := range w.tokens {
		if !w.readable[tok] {
			forbidden = append(forbidden, tok)
		}
	}
	if len(forbidden) == 0 {
		return
	}

	_, stRaw := w.status()
	texts := map[string]string{"status answer": stRaw}
	for i, b := range bodies {
		texts[fmt.Sprintf("response %d", i)] = b
	}
	err := filepath.WalkDir(w.dataDir+"/"+filterDir, func(p string, e fs.DirEntry, err error) error {
		if err != nil || e.IsDir() {
			return err
		}
		b, rerr := os.ReadFile(p)
		if rerr != nil {
			return nil
		}
		texts["file "+strings.TrimPrefix(p, w.base)] = string(b)

		return nil
	})
	if err != nil {
		w.t.Fatalf("VERIF-INCONCLUSIVE walking data dir: %v", err)
	}

	for _, tok := range forbidden {
		for where, text := range texts {
			if strings.Contains(text, tok) {
				w.t.Fatalf("%s: content of %s, which matches no safe pattern %q, was read: its marker %s is in the %s: %q",
					what, w.tokenFile(tok), vfC17PatternTexts(w.patterns), tok, where, vfC17Clip(text))
			}
		}
		c := w.checkHost(vfC17MarkerHost(tok))
		if c.Reason != "NotFilteredNotFound" {
			w.t.Fatalf("%s: content of %s, which matches no safe pattern %q, is in force: %s is %s by %+v",
				what, w.tokenFile(tok), vfC17PatternTexts(w.patterns), vfC17MarkerHost(tok), c.Reason, c.Rules)
		}
	}
}

func (w *vfC17World) tokenFile(tok string) (name string) {
	var idx, ver int
	_, _ = fmt.Sscanf(tok, "vfq%dx%dz", &idx, &ver)
	if idx < len(w.files) {
		return fmt.Sprintf("<root>/%s (version %d)", w.files[idx].Rel, ver)
	}

	return tok
}

func vfC17Clip(s string) (c string) {
	if len(s) > 300 {
		return s[:300] + "…"
	}

	return s
}

// expect is the constructive expectation for a location under the patterns in
// force: "accept" (must be read), "accept_http" (must be fetched through the
// HTTP client), "reject" (must not be read and the request must be refused),
// "open" (the statement does not say; only the safety oracle applies).
func (w *vfC17World) expect(loc vfC17Loc) (e string) {
	switch loc.Family {
	case "http":
		return "accept_http"
	case "odd":
		return "open"
	case "abs":
		if !w.allowed(loc.Target) {
			return "reject"
		}
		if f := w.fileAt(loc.Target); f != nil && f.valid() {
			return "accept"
		}

		return "open"
	default:
		for _, c := range loc.Cands {
			if w.allowed(c) {
				return "open"
			}
		}

		return "reject"
	}
}

// inForce asserts that the current content of the target of an accepted list
// is what the list stores and what the filter applies.
func (w *vfC17World) inForce(what string, loc vfC17Loc, l *vfC17ListJSON) {
	var tok string
	var count int
	switch loc.Family {
	case "http":
		tok, count = w.stub.token(loc.Raw), 1
	default:
		f := w.fileAt(loc.Target)
		tok, count = f.token(), vfC17RuleCount(f.Kind)
	}

	data, ok := w.cached(l.ID)
	if !ok || !strings.Contains(data, vfC17MarkerHost(tok)) {
		w.t.Fatalf("%s: list %q (id %d) was accepted but its stored copy does not hold the marker rule of %s: %q (present: %t)",
			what, loc.Raw, l.ID, tok, vfC17Clip(data), ok)
	}
	if l.RulesCount != count {
		w.t.Fatalf("%s: list %q (id %d) has rules_count %d, want %d", what, loc.Raw, l.ID, l.RulesCount, count)
	}
	if !l.Enabled {
		return
	}

	// An allowlist rule wins over a blocklist rule.
	want := "FilteredBlackList"
	st, _ := w.status()
	for _, x := range st.WhitelistFilters {
		if xd, xok := w.cached(x.ID); x.Enabled && xok && strings.Contains(xd, vfC17MarkerHost(tok)) {
			want = "NotFilteredWhiteList"
		}
	}
	c := w.checkHost(vfC17MarkerHost(tok))
	if c.Reason != want {
		w.t.Fatalf("%s: list %q (id %d) was accepted but its marker rule is not in force: %s is %s, want %s",
			what, loc.Raw, l.ID, vfC17MarkerHost(tok), c.Reason, want)
	}
}
