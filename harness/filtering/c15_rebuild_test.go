//go:build verif

package filtering

// C15 (forced refresh vs a rebuild still in progress): admin calls are
// serialised with each other, but the rebuild of the engines that one of them
// has queued runs in the worker goroutine and may still be compiling a large
// list when the next call, a forced refresh, stores a new version and rebuilds
// the engines itself.  Whatever finishes last, the rules in force must be the
// ones of the last successful refresh.  The real worker goroutine runs here;
// the large list makes its build slow (seconds), the new version is small.

import (
	"encoding/json"
	"fmt"
	"net/http"
	"strings"
	"testing"
	"time"

	"github.com/AdguardTeam/AdGuardHome/internal/vfkit"
	"github.com/miekg/dns"
	"pgregory.net/rapid"
)

func TestVFC15RefreshVsRebuildInProgress(t *testing.T) {
	vfkit.Begin(t)
	vfC15Quiet()

	rapid.Check(t, func(t *rapid.T) {
		nBig := rapid.SampledFrom([]int{150000, 300000}).Draw(t, "rules_in_version_1")
		viaAdmin := rapid.SampledFrom([]string{"set_rules", "filtering_config"}).Draw(t, "queued_by")
		w := vfC15NewWorld(t, []vfC15Spec{{}})
		defer w.close()
		// the real worker goroutine
		w.d.Start()
		l := w.lists[0]

		sb := &strings.Builder{}
		for i := 0; i < nBig; i++ {
			fmt.Fprintf(sb, "||h%d.big.test^\n", i)
		}
		w.install(t, l, &vfC15Act{Kind: "ok", Variant: "fresh", Ver: 1, Body: []byte(sb.String())})
		if updated, _, ok := w.d.tryRefreshFilters(true, false, true); !ok || updated != 1 {
			t.Fatalf("VERIF-INCONCLUSIVE first refresh: updated=%d ok=%t", updated, ok)
		}

		blocked := func(host string) (ok bool) {
			res, err := w.d.CheckHost(host, dns.TypeA, &Settings{FilteringEnabled: true, ProtectionEnabled: true})
			if err != nil {
				t.Fatalf("CheckHost(%q): %v", host, err)
			}

			return res.IsFiltered
		}
		if !blocked("h1.big.test") {
			t.Fatalf("VERIF-INCONCLUSIVE version 1 is not in force after the first refresh")
		}

		// an admin call that queues a rebuild (the large list is compiled again)
		var body []byte
		path := "/control/filtering/set_rules"
		if viaAdmin == "set_rules" {
			body, _ = json.Marshal(map[string]any{"rules": []string{"||custom.probe.test^"}})
		} else {
			path = "/control/filtering/config"
			body, _ = json.Marshal(map[string]any{"enabled": true, "interval": 24})
		}
		if code, resp := w.call(t, http.MethodPost, path, body); code != http.StatusOK {
			t.Fatalf("VERIF-INCONCLUSIVE %s: %d %s", path, code, resp)
		}

		// the next admin call: a forced refresh that gets a small version 2
		w.install(t, l, &vfC15Act{Kind: "ok", Variant: "fresh", Ver: 2, Body: []byte("||v2only.probe.test^\n")})
		code, resp := w.call(t, http.MethodPost, "/control/filtering/refresh", []byte(`{"whitelist":false}`))
		if code != http.StatusOK || !strings.Contains(string(resp), `"updated":1`) {
			t.Fatalf("VERIF-INCONCLUSIVE forced refresh: %d %s", code, resp)
		}

		// let every build that is under way finish: the engines are settled
		// when they have not been replaced for three seconds
		cur := func() (p any) {
			w.d.engineLock.RLock()
			defer w.d.engineLock.RUnlock()

			return w.d.filteringEngine
		}
		last, lastChange, begun := cur(), time.Now(), time.Now()
		for time.Since(lastChange) < 3*time.Second && time.Since(begun) < 60*time.Second {
			time.Sleep(50 * time.Millisecond)
			if now := cur(); now != last {
				last, lastChange = now, time.Now()
			}
		}

		vfC15.Eval()
		vfC15.Class("rebuild_in_progress:" + viaAdmin)
		vfC15.Nontrivial(fmt.Sprintf("rebuild_in_progress|%d|%s", nBig, viaAdmin))
		if !blocked("v2only.probe.test") || blocked("h1.big.test") {
			t.Fatalf("a forced refresh stored version 2 of the list (1 rule) while the rebuild queued by %s was still compiling version 1 (%d rules); "+
				"after all builds have ended: v2only.probe.test blocked=%t (want true), h1.big.test blocked=%t (want false): the replaced version is in force",
				path, nBig, blocked("v2only.probe.test"), blocked("h1.big.test"))
		}
	})
}
