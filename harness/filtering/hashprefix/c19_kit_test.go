//go:build verif

package hashprefix

// Support code of the C19 check: the reference model (parent enumeration,
// verdict sets), the generated lookup-service database and the recording
// upstream double.  Nothing here calls the functions under test; the only
// trusted libraries are crypto/sha256, encoding/hex, miekg/dns and
// x/net/publicsuffix.

import (
	"crypto/sha256"
	"encoding/binary"
	"encoding/hex"
	"errors"
	"fmt"
	"sort"
	"strconv"
	"strings"
	"sync"
	"time"

	"github.com/AdguardTeam/AdGuardHome/internal/vfkit"
	"github.com/miekg/dns"
	"golang.org/x/net/publicsuffix"
	"pgregory.net/rapid"
)

var vfC19 = vfkit.For("C19")

// vfC19SigSmallCache is the known-findings signature of the defect "a cache too
// small for the positive entry of a response keeps a negative entry instead".
const vfC19SigSmallCache = "small-cache-negative-replaces-positive"

type (
	vfC19Hash [sha256.Size]byte
	vfC19Pfx  [2]byte
)

func vfC19Sum(s string) (h vfC19Hash) { return sha256.Sum256([]byte(s)) }

func (h vfC19Hash) pfx() (p vfC19Pfx) { return vfC19Pfx{h[0], h[1]} }

func (p vfC19Pfx) String() string { return hex.EncodeToString(p[:]) }

// vfC19Cand is one parent domain of a host whose hash prefix may be disclosed.
type vfC19Cand struct {
	Name string    `json:"name"`
	Hash vfC19Hash `json:"-"`
	// Amb is set for an ICANN public suffix lying below a private (or unlisted)
	// public suffix of the host, e.g. "org" for "foo.dyndns.org": the statement
	// says "ICANN public suffixes excluded" while the repository's own tests
	// expect them to be hashed in that situation, so both are accepted.
	Amb bool `json:"ambiguous,omitempty"`
}

// vfC19Candidates is the independent parent enumeration: the label suffixes of
// the (lower-case) host with at most four labels, without the ICANN public
// suffix of the host and anything shorter.
func vfC19Candidates(host string) (cands []vfC19Cand) {
	labels := strings.Split(host, ".")
	n := len(labels)
	start := 0
	if n > 4 {
		start = n - 4
	}

	ps, icann := publicsuffix.PublicSuffix(host)
	for i := start; i < n; i++ {
		name := strings.Join(labels[i:], ".")
		if icann && (name == ps || strings.HasSuffix(ps, "."+name)) {
			continue
		}

		c := vfC19Cand{Name: name, Hash: vfC19Sum(name)}
		if !icann {
			cps, cicann := publicsuffix.PublicSuffix(name)
			c.Amb = cicann && (name == cps || strings.HasSuffix(cps, "."+name))
		}
		cands = append(cands, c)
	}

	return cands
}

// vfC19NotCandidates returns the label suffixes of host that must NOT be
// looked up: those longer than four labels and the excluded public suffix part.
func vfC19NotCandidates(host string) (names []string) {
	labels := strings.Split(host, ".")
	is := map[string]bool{}
	for _, c := range vfC19Candidates(host) {
		is[c.Name] = true
	}
	for i := range labels {
		name := strings.Join(labels[i:], ".")
		if !is[name] {
			names = append(names, name)
		}
	}

	return names
}

// Encodings of a full hash in a TXT string.
const (
	vfC19EncLower = iota
	vfC19EncUpper
	vfC19EncMixed
)

// vfC19Entry is one full hash of the lookup-service database.
type vfC19Entry struct {
	H    vfC19Hash
	Enc  int
	Kind string
	Of   string
	// W is the weight with which the generator picks the entry.
	W int
}

func (e vfC19Entry) text() (s string) {
	s = hex.EncodeToString(e.H[:])
	switch e.Enc {
	case vfC19EncUpper:
		return strings.ToUpper(s)
	case vfC19EncMixed:
		b := []byte(s)
		for i := 5; i < len(b); i += 3 {
			if b[i] >= 'a' {
				b[i] -= 'a' - 'A'
			}
		}

		return string(b)
	default:
		return s
	}
}

func (e vfC19Entry) describe() (s string) {
	enc := [...]string{"", "/upper", "/mixed"}[e.Enc]

	return fmt.Sprintf("%s(%s)%s=%s..", e.Kind, e.Of, enc, hex.EncodeToString(e.H[:4]))
}

// vfC19DB is a generated lookup-service database together with the way the
// service lays out its answers.
type vfC19DB struct {
	entries []vfC19Entry
	// junk are malformed TXT strings sent along with every non-empty question.
	junk []string
	// perRR is the number of strings per TXT record; 0 means all in one.
	perRR int
	// junkFirst puts the malformed strings before the hashes.
	junkFirst bool
	// interleave makes the service list the hashes of the asked prefixes
	// round-robin instead of grouped by prefix (the order of an answer is the
	// service's business).
	interleave bool
	// otherRRs adds non-TXT records to the answer section.
	otherRRs bool
	// nxEmpty answers NXDOMAIN instead of NOERROR/NODATA when nothing matches.
	nxEmpty bool
}

func (db *vfC19DB) byPrefix(p vfC19Pfx) (es []vfC19Entry) {
	for _, e := range db.entries {
		if e.H.pfx() == p {
			es = append(es, e)
		}
	}

	return es
}

func (db *vfC19DB) index(h vfC19Hash, enc int) (i int) {
	for i, e := range db.entries {
		if e.H == h && e.Enc == enc {
			return i
		}
	}

	return -1
}

func (db *vfC19DB) describe() (out []string) {
	for _, e := range db.entries {
		out = append(out, e.describe())
	}

	return out
}

// vfC19Ask is one request seen by the upstream double.
type vfC19Ask struct {
	msg    *dns.Msg
	failed bool
}

// vfC19Ups is the recording lookup service.  It answers like the real one:
// every full hash of the database whose 2-byte prefix is among the labels of
// the question, as hexadecimal TXT strings.
type vfC19Ups struct {
	db       *vfC19DB
	suffix   string
	asked    []vfC19Ask
	failNext bool
	// failRcode, if not 0, makes the injected failure an answer with this
	// response code and no records (SERVFAIL, REFUSED) instead of an error of
	// the exchange.
	failRcode int
	// onAnswer tells the model what the service has just revealed for a prefix.
	onAnswer func(p vfC19Pfx, es []vfC19Entry)
}

var vfC19ErrInjected = errors.New("vf: injected upstream failure")

// vfC19ParsePrefixes splits the question name into the prefix labels before the
// service suffix.  ok is false when the name does not end with the suffix.
func vfC19ParsePrefixes(qname, suffix string) (labels []string, ok bool) {
	name := strings.ToLower(qname)
	suf := strings.ToLower(suffix)
	if !strings.HasSuffix(name, suf) {
		return nil, false
	}
	rest := strings.TrimSuffix(name, suf)
	if rest == "" {
		return nil, true
	}
	if !strings.HasSuffix(rest, ".") {
		return nil, false
	}

	return strings.Split(strings.TrimSuffix(rest, "."), "."), true
}

func vfC19LabelPrefix(l string) (p vfC19Pfx, ok bool) {
	if len(l) != 4 {
		return p, false
	}
	b, err := hex.DecodeString(l)
	if err != nil {
		return p, false
	}

	return vfC19Pfx{b[0], b[1]}, true
}

// Exchange implements the upstream.Upstream interface for *vfC19Ups.
func (u *vfC19Ups) Exchange(req *dns.Msg) (resp *dns.Msg, err error) {
	ask := vfC19Ask{msg: req.Copy()}
	if u.failNext {
		u.failNext = false
		ask.failed = true
		u.asked = append(u.asked, ask)
		if u.failRcode != 0 {
			resp = (&dns.Msg{}).SetRcode(req, u.failRcode)
			u.failRcode = 0

			return resp, nil
		}

		return nil, vfC19ErrInjected
	}
	u.asked = append(u.asked, ask)

	resp = (&dns.Msg{}).SetReply(req)
	if len(req.Question) != 1 {
		resp.Rcode = dns.RcodeFormatError

		return resp, nil
	}

	q := req.Question[0]
	labels, _ := vfC19ParsePrefixes(q.Name, u.suffix)
	var strs []string
	var groups [][]string
	seen := map[vfC19Pfx]bool{}
	for _, l := range labels {
		p, ok := vfC19LabelPrefix(l)
		if !ok || seen[p] {
			continue
		}
		seen[p] = true
		es := u.db.byPrefix(p)
		if u.onAnswer != nil {
			u.onAnswer(p, es)
		}
		var g []string
		for _, e := range es {
			g = append(g, e.text())
		}
		groups = append(groups, g)
	}
	if u.db.interleave {
		for i := 0; ; i++ {
			added := false
			for _, g := range groups {
				if i < len(g) {
					strs = append(strs, g[i])
					added = true
				}
			}
			if !added {
				break
			}
		}
	} else {
		for _, g := range groups {
			strs = append(strs, g...)
		}
	}
	if len(seen) > 0 {
		if u.db.junkFirst {
			strs = append(append([]string{}, u.db.junk...), strs...)
		} else {
			strs = append(strs, u.db.junk...)
		}
	}

	hdr := dns.RR_Header{Name: q.Name, Rrtype: dns.TypeTXT, Class: dns.ClassINET, Ttl: 300}
	if u.db.otherRRs {
		resp.Answer = append(resp.Answer, &dns.CNAME{
			Hdr:    dns.RR_Header{Name: q.Name, Rrtype: dns.TypeCNAME, Class: dns.ClassINET, Ttl: 300},
			Target: "txt.vf.example.",
		})
	}
	per := u.db.perRR
	if per <= 0 {
		per = len(strs)
	}
	for i := 0; i < len(strs); i += per {
		j := i + per
		if j > len(strs) {
			j = len(strs)
		}
		resp.Answer = append(resp.Answer, &dns.TXT{Hdr: hdr, Txt: append([]string{}, strs[i:j]...)})
	}
	if u.db.otherRRs {
		resp.Answer = append(resp.Answer, &dns.A{
			Hdr: dns.RR_Header{Name: q.Name, Rrtype: dns.TypeA, Class: dns.ClassINET, Ttl: 300},
			A:   []byte{192, 0, 2, 1},
		})
	}
	if len(strs) == 0 && u.db.nxEmpty {
		resp.Rcode = dns.RcodeNameError
	}

	return resp, nil
}

// Address implements the upstream.Upstream interface for *vfC19Ups.
func (u *vfC19Ups) Address() (addr string) { return "vf.c19.upstream.invalid" }

// Close implements the upstream.Upstream interface for *vfC19Ups.
func (u *vfC19Ups) Close() (err error) { return nil }

// vfC19Views gives the possible knowledge about a prefix: the current database
// content and, while a cached answer is alive, what the service said then.
type vfC19Views func(p vfC19Pfx) (views [][]vfC19Entry)

// vfC19VerdictSet tells which verdicts the statement admits for a host with
// these candidates: blocked exactly when the service returned (now, or in an
// answer that may still be cached) a full hash equal to one of the host's.
func vfC19VerdictSet(cands []vfC19Cand, views vfC19Views) (canTrue, canFalse bool) {
	canFalse = true
	var order []vfC19Pfx
	byP := map[vfC19Pfx][]vfC19Cand{}
	for _, c := range cands {
		p := c.Hash.pfx()
		if _, ok := byP[p]; !ok {
			order = append(order, p)
		}
		byP[p] = append(byP[p], c)
	}

	for _, p := range order {
		pCanFalse := false
		for _, view := range views(p) {
			def, may := false, false
			for _, c := range byP[p] {
				for _, e := range view {
					if e.H != c.Hash {
						continue
					}
					may = true
					if !c.Amb && e.Enc == vfC19EncLower {
						def = true
					}
				}
			}
			if may {
				canTrue = true
			}
			if !def {
				pCanFalse = true
			}
		}
		if !pCanFalse {
			canFalse = false
		}
	}

	return canTrue, canFalse
}

// vfC19Collisions maps every 2-byte prefix to two host names "v<i>.vf.test"
// whose SHA-256 starts with it (brute force, once per process).
var vfC19Collisions = sync.OnceValue(func() (pool *[65536][2]string) {
	pool = &[65536][2]string{}
	missing := 2 * 65536
	for i := 0; missing > 0 && i < 20_000_000; i++ {
		name := "v" + strconv.Itoa(i) + ".vf.test"
		h := sha256.Sum256([]byte(name))
		k := int(h[0])<<8 | int(h[1])
		switch {
		case pool[k][0] == "":
			pool[k][0] = name
			missing--
		case pool[k][1] == "":
			pool[k][1] = name
			missing--
		}
	}

	return pool
})

func vfC19Collide(p vfC19Pfx, which int) (name string) {
	return vfC19Collisions()[int(p[0])<<8|int(p[1])][which&1]
}

// Vocabulary (DESIGN 3.1): small, closed, collision-prone.
var vfC19Labels = []string{
	"a", "b", "c", "ads", "cdn", "www", "x1", "mail", "evil", "bad", "shop", "my-site", "a_b", "0", "1",
	"abcd", "00ff", "dns", "adguard", "sb", "pc", "xn--e1afmkfd",
}

type vfC19Suffix struct {
	S    string
	Kind string
}

var vfC19Suffixes = []vfC19Suffix{
	{"com", "icann1"}, {"org", "icann1"}, {"net", "icann1"}, {"de", "icann1"}, {"uk", "icann1"}, {"io", "icann1"},
	{"jp", "icann1"}, {"xn--p1ai", "icann1"},
	{"co.uk", "icann2"}, {"org.uk", "icann2"}, {"com.au", "icann2"}, {"co.jp", "icann2"}, {"ma.us", "icann2"},
	{"in-addr.arpa", "icann2"},
	{"x1.ck", "icann_wildcard"}, {"q.kawasaki.jp", "icann_wildcard"}, {"a.sch.uk", "icann_wildcard"},
	{"www.ck", "icann_exception"}, {"city.kawasaki.jp", "icann_exception"},
	{"k12.ma.us", "icann3"}, {"cc.ma.us", "icann3"}, {"pvt.k12.ma.us", "icann4"},
	{"dyndns.org", "private"}, {"github.io", "private"}, {"blogspot.com", "private"}, {"uk.com", "private"},
	{"herokuapp.com", "private"}, {"s3.amazonaws.com", "private3"},
	{"us-east-1.compute.amazonaws.com", "private4"},
	{"test", "unlisted"}, {"example", "unlisted"}, {"lan", "unlisted"}, {"internal", "unlisted"},
	{"localhost", "unlisted"}, {"ck", "unlisted"}, {"3.4", "unlisted"},
}

// vfC19DrawHost draws a lower-case host name of 1..8 labels.
func vfC19DrawHost(t *rapid.T, label string) (host, kind string) {
	suf := rapid.SampledFrom(vfC19Suffixes).Draw(t, label+"_suffix")
	nsuf := strings.Count(suf.S, ".") + 1
	// depth 0 (the suffix itself) is rare, 1..3 common, more than four labels in
	// total frequent enough to exercise the four-label cut.
	extra := rapid.SampledFrom([]int{0, 1, 1, 1, 2, 2, 2, 3, 3, 4, 4, 5, 6, 7}).Draw(t, label+"_depth")
	if nsuf+extra > 8 {
		extra = 8 - nsuf
	}
	parts := make([]string, 0, extra+1)
	for i := 0; i < extra; i++ {
		parts = append(parts, rapid.SampledFrom(vfC19Labels).Draw(t, label+"_label"))
	}
	parts = append(parts, suf.S)

	return strings.Join(parts, "."), suf.Kind
}

// vfC19DrawRelated derives a host from base: itself, a child, its parent, a
// sibling, or a deeper descendant.
func vfC19DrawRelated(t *rapid.T, base, label string) (host string) {
	labels := strings.Split(base, ".")
	switch rapid.IntRange(0, 5).Draw(t, label+"_rel") {
	case 0:
		return base
	case 1:
		if len(labels) < 8 {
			return rapid.SampledFrom(vfC19Labels).Draw(t, label+"_label") + "." + base
		}
	case 2:
		if len(labels) > 1 {
			return strings.Join(labels[1:], ".")
		}
	case 3:
		if len(labels) > 1 {
			return rapid.SampledFrom(vfC19Labels).Draw(t, label+"_label") + "." + strings.Join(labels[1:], ".")
		}
	case 4:
		if len(labels) < 7 {
			return rapid.SampledFrom(vfC19Labels).Draw(t, label+"_label") + "." +
				rapid.SampledFrom(vfC19Labels).Draw(t, label+"_label2") + "." + base
		}
	default:
		if len(labels) > 2 {
			return strings.Join(labels[2:], ".")
		}
	}

	return base
}

// vfC19MixCase changes the case of drawn letters of the host.
func vfC19MixCase(t *rapid.T, host string) (mixed string) {
	switch rapid.IntRange(0, 3).Draw(t, "case_kind") {
	case 0:
		return host
	case 1:
		return strings.ToUpper(host)
	}
	mask := rapid.Uint64().Draw(t, "case_mask")
	b := []byte(host)
	for i := range b {
		if b[i] >= 'a' && b[i] <= 'z' && mask>>(uint(i)%64)&1 == 1 {
			b[i] -= 'a' - 'A'
		}
	}

	return string(b)
}

// vfC19Universe lists the hashes worth having in a database for these hosts.
func vfC19Universe(hosts []string) (opts []vfC19Entry) {
	seen := map[string]bool{}
	add := func(h vfC19Hash, enc int, kind, of string) {
		k := string(h[:]) + string(rune('0'+enc))
		if seen[k] {
			return
		}
		seen[k] = true
		w := 2
		switch kind {
		case "own":
			// the own hashes are what decides the verdict
			w = 8
		case "collision_name":
			w = 3
		case "own_nonlower_hex", "own_ambiguous_suffix":
			w = 1
		}
		opts = append(opts, vfC19Entry{H: h, Enc: enc, Kind: kind, Of: of, W: w})
	}
	for _, host := range hosts {
		for i, c := range vfC19Candidates(host) {
			kind := "own"
			if c.Amb {
				kind = "own_ambiguous_suffix"
			}
			add(c.Hash, vfC19EncLower, kind, c.Name)
			if !c.Amb {
				add(c.Hash, vfC19EncUpper+i%2, "own_nonlower_hex", c.Name)
			}
			p := c.Hash.pfx()
			add(vfC19Sum(vfC19Collide(p, 0)), vfC19EncLower, "collision_name", vfC19Collide(p, 0))
			add(vfC19Sum(vfC19Collide(p, 1)), vfC19EncLower, "collision_name", vfC19Collide(p, 1))
			tail := c.Hash
			tail[31] ^= 0x01
			add(tail, vfC19EncLower, "collision_lastbit", c.Name)
			tail = c.Hash
			tail[2] ^= 0x80
			add(tail, vfC19EncLower, "collision_thirdbyte", c.Name)
		}
		for _, name := range vfC19NotCandidates(host) {
			add(vfC19Sum(name), vfC19EncLower, "not_candidate", name)
		}
		add(vfC19Sum("zz."+host), vfC19EncLower, "child", "zz."+host)
		add(vfC19Sum(host+"."), vfC19EncLower, "fqdn_form", host+".")
		add(vfC19Sum(strings.ToUpper(host)), vfC19EncLower, "uppercase_name", strings.ToUpper(host))
	}
	add(vfC19Sum("unrelated.example.net"), vfC19EncLower, "unrelated", "unrelated.example.net")

	return opts
}

// vfC19Junk builds malformed TXT strings, derived from the hosts' own hashes so
// that a lax decoder would turn them into matches.
func vfC19Junk(t *rapid.T, hosts []string) (junk []string) {
	var own []string
	for _, host := range hosts {
		for _, c := range vfC19Candidates(host) {
			own = append(own, hex.EncodeToString(c.Hash[:]))
		}
	}
	if len(own) == 0 {
		own = append(own, hex.EncodeToString(make([]byte, 32)))
	}
	n := rapid.SampledFrom([]int{0, 0, 1, 2, 3, 5}).Draw(t, "junk_n")
	for i := 0; i < n; i++ {
		h := rapid.SampledFrom(own).Draw(t, "junk_of")
		switch rapid.IntRange(0, 9).Draw(t, "junk_kind") {
		case 0:
			junk = append(junk, h[:63])
		case 1:
			junk = append(junk, h+"0")
		case 2:
			junk = append(junk, h+"ab")
		case 3:
			junk = append(junk, h[:62])
		case 4:
			junk = append(junk, h[:20]+"g"+h[21:])
		case 5:
			junk = append(junk, h[:4])
		case 6:
			junk = append(junk, "")
		case 7:
			junk = append(junk, " "+h)
		case 8:
			junk = append(junk, h+h)
		default:
			junk = append(junk, h[:63]+"z")
		}
	}

	return junk
}

// vfC19DrawEntry picks an entry of the universe by weight.
func vfC19DrawEntry(t *rapid.T, universe []vfC19Entry, label string) (e vfC19Entry) {
	total := 0
	for _, u := range universe {
		total += u.W
	}
	x := rapid.IntRange(0, total-1).Draw(t, label)
	for _, u := range universe {
		if x < u.W {
			return u
		}
		x -= u.W
	}

	return universe[len(universe)-1]
}

// vfC19DrawDB draws a database for the hosts.
func vfC19DrawDB(t *rapid.T, hosts []string, maxEntries int) (db *vfC19DB, universe []vfC19Entry) {
	universe = vfC19Universe(hosts)
	db = &vfC19DB{
		perRR:      rapid.SampledFrom([]int{0, 1, 1, 2, 3}).Draw(t, "db_per_rr"),
		junkFirst:  rapid.Bool().Draw(t, "db_junk_first"),
		interleave: rapid.Bool().Draw(t, "db_interleave"),
		otherRRs:   rapid.Bool().Draw(t, "db_other_rrs"),
		nxEmpty:    rapid.Bool().Draw(t, "db_nx_empty"),
	}
	n := rapid.IntRange(0, maxEntries).Draw(t, "db_n")
	for i := 0; i < n; i++ {
		e := vfC19DrawEntry(t, universe, "db_entry")
		if db.index(e.H, e.Enc) < 0 {
			db.entries = append(db.entries, e)
		}
	}
	db.junk = vfC19Junk(t, hosts)

	return db, universe
}

// vfC19QuestionReport is what the privacy oracle found in the requests of one
// Check call.
type vfC19QuestionReport struct {
	asked   map[vfC19Pfx]bool
	queries int
	names   []string
}

// vfC19CheckAsks applies the privacy oracle to the requests sent during one
// check of host (lower-case): one TXT/IN question whose name is the service
// suffix preceded only by 4-digit hexadecimal labels, each the 2-byte prefix of
// the hash of one of the host's candidates; nothing of the host anywhere in the
// message.
func vfC19CheckAsks(asks []vfC19Ask, host, suffix string, cands []vfC19Cand) (rep vfC19QuestionReport, err error) {
	rep.asked = map[vfC19Pfx]bool{}
	allowed := map[vfC19Pfx]bool{}
	for _, c := range cands {
		allowed[c.Hash.pfx()] = true
	}

	for _, a := range asks {
		m := a.msg
		rep.queries++
		if len(m.Question) != 1 {
			return rep, fmt.Errorf("request with %d questions", len(m.Question))
		}
		q := m.Question[0]
		rep.names = append(rep.names, q.Name)
		if q.Qtype != dns.TypeTXT || q.Qclass != dns.ClassINET {
			return rep, fmt.Errorf("question %q has type %d class %d, want TXT IN", q.Name, q.Qtype, q.Qclass)
		}
		labels, ok := vfC19ParsePrefixes(q.Name, suffix)
		if !ok {
			return rep, fmt.Errorf("question %q does not end with the service suffix %q", q.Name, suffix)
		}
		for _, l := range labels {
			p, isPfx := vfC19LabelPrefix(l)
			if !isPfx {
				return rep, fmt.Errorf("question %q: label %q is not a 2-byte hexadecimal prefix", q.Name, l)
			}
			if !allowed[p] {
				return rep, fmt.Errorf("question %q: prefix %s is not the SHA-256 prefix of any of %v",
					q.Name, l, vfC19CandNames(cands))
			}
			rep.asked[p] = true
		}
		if len(m.Answer)+len(m.Ns)+len(m.Extra) != 0 {
			return rep, fmt.Errorf("request for %q carries %d extra records", q.Name, len(m.Answer)+len(m.Ns)+len(m.Extra))
		}

		// nothing of the host in the wire form either
		c := m.Copy()
		c.Id = 0
		wire, perr := c.Pack()
		if perr != nil {
			return rep, fmt.Errorf("request for %q cannot be packed: %v", q.Name, perr)
		}
		lw := strings.ToLower(string(wire))
		lsuf := strings.ToLower(suffix)
		for _, l := range strings.Split(host, ".") {
			if len(l) < 3 || strings.Contains(lsuf, l) {
				continue
			}
			if len(l) <= 4 && strings.Trim(l, "0123456789abcdef") == "" {
				// could be part of a legitimate prefix label
				continue
			}
			if strings.Contains(lw, l) {
				return rep, fmt.Errorf("request %q contains the label %q of the host %q", q.Name, l, host)
			}
		}
	}

	return rep, nil
}

func vfC19CandNames(cands []vfC19Cand) (names []string) {
	for _, c := range cands {
		n := c.Name + "=" + c.Hash.pfx().String()
		if c.Amb {
			n += "(amb)"
		}
		names = append(names, n)
	}

	return names
}

// vfC19FreshQuestion checks, for a check that could not use any cache, that
// the prefixes asked are exactly those of the candidates (the ambiguous ones
// may or may not be there).
func vfC19FreshQuestion(rep vfC19QuestionReport, cands []vfC19Cand) (err error) {
	for _, c := range cands {
		if c.Amb {
			continue
		}
		if !rep.asked[c.Hash.pfx()] {
			return fmt.Errorf("prefix %s of %q was not asked (asked %v)", c.Hash.pfx(), c.Name, rep.names)
		}
	}

	return nil
}

func vfC19SortedPfx(m map[vfC19Pfx]bool) (out []string) {
	for p := range m {
		out = append(out, p.String())
	}
	sort.Strings(out)

	return out
}

// vfC19ShiftExpiry moves the stored expiry of the cache entry of a prefix back
// by d ("time travel by state shift", DESIGN 3.4).  It relies on the stored
// layout (8 bytes big-endian Unix seconds first) only to drive the cache.
func vfC19ShiftExpiry(c *Checker, p vfC19Pfx, d time.Duration) (ok bool) {
	key := []byte{p[0], p[1]}
	data := c.cache.Get(key)
	if len(data) < 8 {
		return false
	}
	nd := make([]byte, len(data))
	copy(nd, data)
	exp := int64(binary.BigEndian.Uint64(nd))
	binary.BigEndian.PutUint64(nd, uint64(exp-int64(d/time.Second)))
	c.cache.Set(key, nd)

	return true
}

// vfC19CacheSizes are the configured cache sizes in bytes (0 = unlimited).  An
// entry takes 2+8+32n bytes: 10 for a negative one, 42 for one hash.
var vfC19CacheSizes = []uint{0, 0, 1 << 20, 10, 20, 41, 42, 52, 62, 74, 100, 150, 300, 1000}

// vfC19ResponseBound is the largest number of cache bytes the entries of one
// answer can take for these hosts, whatever subset of the universe the
// database holds.
func vfC19ResponseBound(hosts []string, universe []vfC19Entry) (bound uint) {
	per := map[vfC19Pfx]uint{}
	for _, e := range universe {
		per[e.H.pfx()] += 32
	}
	for _, host := range hosts {
		seen := map[vfC19Pfx]bool{}
		var sum uint
		for _, c := range vfC19Candidates(host) {
			p := c.Hash.pfx()
			if !seen[p] {
				seen[p] = true
				sum += 10 + per[p]
			}
		}
		if sum > bound {
			bound = sum
		}
	}

	return bound
}

// vfC19DrawCacheSize draws the configured cache size.  While the small-cache
// defect is listed as an open known finding, exactly its shape is left out: the
// cache is then always large enough for the entries of any single answer
// (eviction between answers stays in).
func vfC19DrawCacheSize(t *rapid.T, hosts []string, universe []vfC19Entry) (size uint) {
	if _, open := vfkit.KnownOpen("C19", vfC19SigSmallCache); open {
		vfC19.Excluded(vfC19SigSmallCache)
		b := vfC19ResponseBound(hosts, universe)
		if b < 10 {
			b = 10
		}

		return rapid.SampledFrom([]uint{0, 0, 1 << 20, b, b, b + 10, 2 * b}).Draw(t, "cache_size")
	}

	return rapid.SampledFrom(vfC19CacheSizes).Draw(t, "cache_size")
}

var vfC19TXTSuffixes = []string{"sb.dns.adguard.com.", "pc.dns.adguard.com.", "hp.vf.example."}
