//go:build verif

package hashprefix

// C19: a safe-browsing / parental-control check discloses only 2-byte SHA-256
// prefixes of the name's parent domains, blocks exactly when the service returns
// one of the name's full hashes, and the cache never changes that verdict.

import (
	"fmt"
	"os"
	"sort"
	"strings"
	"testing"
	"time"

	"github.com/AdguardTeam/AdGuardHome/internal/filtering"
	"github.com/AdguardTeam/AdGuardHome/internal/vfkit"
	"github.com/miekg/dns"
	"pgregory.net/rapid"
)

// vfC19Static is the view of a database that never changed and of a checker
// that has nothing cached: only the current content.
func vfC19Static(db *vfC19DB) (v vfC19Views) {
	return func(p vfC19Pfx) (views [][]vfC19Entry) { return [][]vfC19Entry{db.byPrefix(p)} }
}

func vfC19VerdictClass(canTrue, canFalse bool) (class string) {
	switch {
	case canTrue && canFalse:
		return "ambiguous"
	case canTrue:
		return "blocked"
	default:
		return "clean"
	}
}

// vfC19DBClasses counts what the database holds relative to the candidates.
func vfC19DBClasses(db *vfC19DB) {
	kinds := map[string]bool{}
	for _, e := range db.entries {
		kinds[e.Kind] = true
	}
	for k := range kinds {
		vfC19.Class("db:" + k)
	}
	if len(db.junk) > 0 {
		vfC19.Class("db:malformed_txt")
	}
	if len(db.entries) == 0 {
		vfC19.Class("db:empty")
	}
}

// TestVFC19Question: one fresh checker, one host, one database.  Privacy: the
// requests of the first check carry exactly the prefixes of the independently
// enumerated parents and nothing else.  Verdict: blocked <=> the database holds
// a full hash of one of them.  A second check (now answered from the cache)
// gives the same verdict.
func TestVFC19Question(t *testing.T) {
	vfkit.Begin(t)
	vfC19Collisions()
	rapid.Check(t, func(t *rapid.T) {
		host, kind := vfC19DrawHost(t, "host")
		cands := vfC19Candidates(host)
		db, _ := vfC19DrawDB(t, []string{host}, 5)
		suffix := rapid.SampledFrom(vfC19TXTSuffixes).Draw(t, "txt_suffix")
		ups := &vfC19Ups{db: db, suffix: suffix}
		chk := New(&Config{
			Upstream:    ups,
			ServiceName: "vf",
			TXTSuffix:   suffix,
			CacheTime:   time.Hour,
			CacheSize:   0,
		})

		canTrue, canFalse := vfC19VerdictSet(cands, vfC19Static(db))
		vclass := vfC19VerdictClass(canTrue, canFalse)

		got, err := chk.Check(host)
		if err != nil {
			t.Fatalf("Check(%q) failed although the service answered: %v", host, err)
		}

		rep, qerr := vfC19CheckAsks(ups.asked, host, suffix, cands)
		if qerr != nil {
			t.Fatalf("privacy: Check(%q): %v", host, qerr)
		}
		if qerr = vfC19FreshQuestion(rep, cands); qerr != nil {
			t.Fatalf("fresh Check(%q), parents %v: %v", host, vfC19CandNames(cands), qerr)
		}
		if (got && !canTrue) || (!got && !canFalse) {
			t.Fatalf("Check(%q) = %t, want %s; parents %v; database %v; malformed %q; asked %v",
				host, got, vclass, vfC19CandNames(cands), db.describe(), db.junk, rep.names)
		}

		nq := len(ups.asked)
		again, err := chk.Check(host)
		if err != nil {
			t.Fatalf("second Check(%q) failed: %v", host, err)
		}
		if again != got {
			t.Fatalf("second Check(%q) = %t but the fresh lookup said %t; parents %v; database %v; malformed %q",
				host, again, got, vfC19CandNames(cands), db.describe(), db.junk)
		}
		if _, qerr = vfC19CheckAsks(ups.asked[nq:], host, suffix, cands); qerr != nil {
			t.Fatalf("privacy: second Check(%q): %v", host, qerr)
		}

		// measured coverage
		nl := strings.Count(host, ".") + 1
		vfC19.Eval()
		vfC19.Class("question:host_" + kind)
		vfC19.Class(fmt.Sprintf("question:labels_%d", nl))
		vfC19.Class(fmt.Sprintf("question:parents_%d", len(cands)))
		vfC19.Class("question:verdict_" + vclass)
		if nl > 4 {
			vfC19.Class("question:cut_to_four_labels")
		}
		for _, c := range cands {
			if c.Amb {
				vfC19.Class("question:ambiguous_icann_under_private")

				break
			}
		}
		if rep.queries == 0 {
			vfC19.Class("question:nothing_sent")
		}
		vfC19DBClasses(db)
		relevant := false
		for _, e := range db.entries {
			for _, c := range cands {
				if e.H.pfx() == c.Hash.pfx() {
					relevant = true
				}
			}
		}
		if relevant {
			// non-trivial: the service had something to say about a prefix asked
			vfC19.Nontrivial(fmt.Sprintf("q|%s|%s|%v|%q", host, suffix, db.describe(), db.junk))
			vfC19.Class("question:nontrivial")
		}
		cls := "question_" + vclass
		if vfC19.WantSample(cls) && (relevant || len(db.junk) > 0) {
			vfC19.Sample(cls, map[string]any{
				"host": host, "suffix_kind": kind, "parents": vfC19CandNames(cands), "questions": rep.names,
				"database": db.describe(), "malformed_txt": db.junk, "blocked": got,
			})
		}
	})
}

// TestVFC19CheckHost: the same through filtering.DNSFilter.CheckHost with
// mixed-case names and both services configured: each enabled service sees only
// prefixes of the lower-cased name, a disabled one sees nothing, and the result
// names the first service (safe browsing, then parental) whose database holds a
// full hash.
func TestVFC19CheckHost(t *testing.T) {
	vfkit.Begin(t)
	vfC19Collisions()
	rapid.Check(t, func(t *rapid.T) {
		host, kind := vfC19DrawHost(t, "host")
		mixed := vfC19MixCase(t, host)
		cands := vfC19Candidates(host)

		type svc struct {
			name    string
			suffix  string
			db      *vfC19DB
			ups     *vfC19Ups
			enabled bool
		}
		svcs := []*svc{{name: "safebrowsing", suffix: "sb.dns.adguard.com."}, {name: "parental", suffix: "pc.dns.adguard.com."}}
		for _, s := range svcs {
			s.db, _ = vfC19DrawDB(t, []string{host}, 4)
			s.ups = &vfC19Ups{db: s.db, suffix: s.suffix}
			s.enabled = rapid.IntRange(0, 3).Draw(t, s.name+"_enabled") != 0
		}
		protection := rapid.IntRange(0, 5).Draw(t, "protection_enabled") != 0

		dir, err := os.MkdirTemp("", "vfc19")
		if err != nil {
			t.Fatalf("VERIF-INCONCLUSIVE temp dir: %v", err)
		}
		defer func() { _ = os.RemoveAll(dir) }()

		newChk := func(s *svc) *Checker {
			return New(&Config{
				Upstream:    s.ups,
				ServiceName: s.name,
				TXTSuffix:   s.suffix,
				CacheTime:   time.Hour,
				CacheSize:   1 << 20,
			})
		}
		f, err := filtering.New(&filtering.Config{
			SafeBrowsingChecker:    newChk(svcs[0]),
			ParentalControlChecker: newChk(svcs[1]),
			DataDir:                dir,
		}, nil)
		if err != nil {
			t.Fatalf("VERIF-INCONCLUSIVE filtering.New: %v", err)
		}
		defer f.Close()

		setts := &filtering.Settings{
			ProtectionEnabled:   protection,
			FilteringEnabled:    rapid.Bool().Draw(t, "filtering_enabled"),
			SafeBrowsingEnabled: svcs[0].enabled,
			ParentalEnabled:     svcs[1].enabled,
		}
		qtype := rapid.SampledFrom([]uint16{dns.TypeA, dns.TypeAAAA, dns.TypeHTTPS}).Draw(t, "qtype")

		res, err := f.CheckHost(mixed, qtype, setts)
		if err != nil {
			t.Fatalf("CheckHost(%q): %v", mixed, err)
		}

		// expected: first enabled service that must block decides
		want := "clean"
		firm := true
		for _, s := range svcs {
			if !protection || !s.enabled {
				continue
			}
			canTrue, canFalse := vfC19VerdictSet(cands, vfC19Static(s.db))
			if canTrue && canFalse {
				firm = false

				break
			}
			if canTrue {
				want = s.name

				break
			}
		}
		got := "clean"
		switch res.Reason {
		case filtering.FilteredSafeBrowsing:
			got = "safebrowsing"
		case filtering.FilteredParental:
			got = "parental"
		case filtering.NotFilteredNotFound:
			// clean
		default:
			t.Fatalf("CheckHost(%q) gave reason %s with no rules configured", mixed, res.Reason)
		}
		if firm && got != want {
			t.Fatalf("CheckHost(%q) = %s (filtered %t), want %s; parents %v; sb database %v malformed %q; "+
				"parental database %v malformed %q; settings %+v",
				mixed, got, res.IsFiltered, want, vfC19CandNames(cands), svcs[0].db.describe(), svcs[0].db.junk,
				svcs[1].db.describe(), svcs[1].db.junk, *setts)
		}
		if firm && res.IsFiltered != (want != "clean") {
			t.Fatalf("CheckHost(%q): IsFiltered = %t with reason %s", mixed, res.IsFiltered, res.Reason)
		}

		for i, s := range svcs {
			if !protection || !s.enabled {
				if len(s.ups.asked) != 0 {
					t.Fatalf("privacy: %s is off (protection %t, enabled %t) but was asked %q for %q",
						s.name, protection, s.enabled, s.ups.asked[0].msg.Question, mixed)
				}

				continue
			}
			rep, qerr := vfC19CheckAsks(s.ups.asked, host, s.suffix, cands)
			if qerr != nil {
				t.Fatalf("privacy: %s lookup for %q: %v", s.name, mixed, qerr)
			}
			// The mixed-case spelling must not leak either.
			for _, a := range s.ups.asked {
				for _, l := range strings.Split(mixed, ".") {
					if len(l) >= 3 && l != strings.ToLower(l) && strings.Contains(a.msg.Question[0].Name, l) {
						t.Fatalf("privacy: %s question %q contains label %q of %q", s.name, a.msg.Question[0].Name, l, mixed)
					}
				}
			}
			// Parental is only consulted when safe browsing did not block; a
			// service that was consulted on a fresh cache asks for all parents.
			consulted := i == 0 || got != "safebrowsing"
			if consulted {
				if qerr = vfC19FreshQuestion(rep, cands); qerr != nil {
					t.Fatalf("%s lookup for %q, parents %v: %v", s.name, mixed, vfC19CandNames(cands), qerr)
				}
			}
		}

		vfC19.Eval()
		vfC19.Class("checkhost:host_" + kind)
		if firm {
			vfC19.Class("checkhost:verdict_" + want)
		} else {
			vfC19.Class("checkhost:verdict_ambiguous")
		}
		if mixed != host {
			vfC19.Class("checkhost:mixed_case")
		}
		if !protection {
			vfC19.Class("checkhost:protection_off")
		}
		for _, s := range svcs {
			if !s.enabled {
				vfC19.Class("checkhost:" + s.name + "_off")
			}
		}
		if mixed != host && len(cands) > 0 && protection && (svcs[0].enabled || svcs[1].enabled) {
			vfC19.Nontrivial(fmt.Sprintf("ch|%s|%v|%v|%t%t", mixed, svcs[0].db.describe(), svcs[1].db.describe(),
				svcs[0].enabled, svcs[1].enabled))
			vfC19.Class("checkhost:nontrivial")
		}
		cls := "checkhost_" + want
		if !firm {
			cls = "checkhost_ambiguous_" + got
		}
		if vfC19.WantSample(cls) && mixed != host {
			var qs []string
			for _, s := range svcs {
				for _, a := range s.ups.asked {
					qs = append(qs, a.msg.Question[0].Name)
				}
			}
			vfC19.Sample(cls, map[string]any{
				"host": mixed, "parents": vfC19CandNames(cands), "questions": qs, "reason": res.Reason.String(),
				"safebrowsing_db": svcs[0].db.describe(), "parental_db": svcs[1].db.describe(),
				"safebrowsing_on": svcs[0].enabled, "parental_on": svcs[1].enabled, "protection": protection,
			})
		}
	})
}

// vfC19Snap is what the service last revealed about a prefix and whether a
// cache entry made from it could still be alive.
type vfC19Snap struct {
	es   []vfC19Entry
	live bool
	aged time.Duration
}

// vfC19Past is an earlier check of a history.
type vfC19Past struct {
	host    string
	byPfx   map[vfC19Pfx]vfC19Hash
	blocked bool
}

// vfC19History is the state of one generated history.
type vfC19History struct {
	hosts    []string
	universe []vfC19Entry
	db       *vfC19DB
	ups      *vfC19Ups
	chk      *Checker
	suffix   string
	size     uint
	mutable  bool
	snaps    map[vfC19Pfx]*vfC19Snap
	allPfx   []vfC19Pfx
	past     []vfC19Past
	trace    []string
	dirty    bool

	nontrivial    bool
	viaCollision  bool
	expiryDecided bool
	checks        int
}

func (h *vfC19History) views(p vfC19Pfx) (views [][]vfC19Entry) {
	views = [][]vfC19Entry{h.db.byPrefix(p)}
	if s := h.snaps[p]; s != nil && s.live {
		views = append(views, s.es)
	}

	return views
}

func (h *vfC19History) fail(t *rapid.T, format string, args ...any) {
	t.Fatalf("%s\nhistory (cache size %d bytes, suffix %s):\n  %s\ndatabase now: %v\nmalformed TXT: %q",
		fmt.Sprintf(format, args...), h.size, h.suffix, strings.Join(h.trace, "\n  "), h.db.describe(), h.db.junk)
}

// check performs one Check step and applies the privacy, verdict and cache
// transparency oracles to it.
func (h *vfC19History) check(t *rapid.T) {
	h.checkHost(t, rapid.SampledFrom(h.hosts).Draw(t, "check_host"))
}

// checkHost is check for a chosen host.
func (h *vfC19History) checkHost(t *rapid.T, host string) {
	cands := vfC19Candidates(host)

	// The admissible verdicts are fixed by what the service says now and by
	// what it said in answers that may still be cached, before this call.
	canTrue, canFalse := vfC19VerdictSet(cands, h.views)
	vclass := vfC19VerdictClass(canTrue, canFalse)
	stale := false
	for _, c := range cands {
		if len(h.views(c.Hash.pfx())) > 1 {
			stale = true
		}
	}

	// Would an implementation that kept using expired entries say otherwise?
	// (Measures how often expiry decides the verdict.)
	expiryDecides := false
	if h.dirty {
		deadTrue, deadFalse := vfC19VerdictSet(cands, func(p vfC19Pfx) (views [][]vfC19Entry) {
			if s := h.snaps[p]; s != nil && !s.live {
				return [][]vfC19Entry{s.es}
			}

			return h.views(p)
		})
		expiryDecides = deadTrue != canTrue || deadFalse != canFalse
	}

	before := len(h.ups.asked)
	got, err := h.chk.Check(host)
	asks := h.ups.asked[before:]
	h.checks++

	var qs []string
	for _, a := range asks {
		if len(a.msg.Question) > 0 {
			qs = append(qs, a.msg.Question[0].Name)
		}
	}
	h.trace = append(h.trace, fmt.Sprintf("check %s -> blocked=%t err=%v asked=%v (model: %s, parents %v)",
		host, got, err, qs, vclass, vfC19CandNames(cands)))

	rep, qerr := vfC19CheckAsks(asks, host, h.suffix, cands)
	if qerr != nil {
		h.fail(t, "privacy: Check(%q): %v", host, qerr)
	}

	if err != nil {
		if len(asks) == 0 || !asks[len(asks)-1].failed {
			h.fail(t, "Check(%q) returned error %v although the service answered", host, err)
		}
		vfC19.Class("history:upstream_error")

		return
	}
	if len(asks) > 0 && asks[len(asks)-1].failed {
		// the service answered SERVFAIL / REFUSED: what this check says is
		// left open, what later checks say is not
		vfC19.Class("history:upstream_failure_answer")

		return
	}
	if (got && !canTrue) || (!got && !canFalse) {
		h.fail(t, "Check(%q) = %t, but a fresh lookup gives %s", host, got, vclass)
	}

	vfC19.Class("history:verdict_" + vclass)
	if rep.queries == 0 {
		vfC19.Class("history:answered_from_cache")
	} else if len(rep.asked) < len(cands) {
		vfC19.Class("history:partial_lookup")
	} else {
		vfC19.Class("history:full_lookup")
	}
	if stale && h.dirty {
		vfC19.Class("history:check_with_live_entry_after_db_change")
	}

	if canTrue && canFalse {
		return
	}

	if expiryDecides {
		vfC19.Class("history:expiry_decides_verdict")
		h.expiryDecided = true
	}

	// non-trivial: a later name shares a prefix with an earlier one and their
	// verdicts differ
	cur := vfC19Past{host: host, byPfx: map[vfC19Pfx]vfC19Hash{}, blocked: got}
	for _, c := range cands {
		cur.byPfx[c.Hash.pfx()] = c.Hash
	}
	for _, p := range h.past {
		if p.host == host || p.blocked == got {
			continue
		}
		for pf, hash := range cur.byPfx {
			ph, ok := p.byPfx[pf]
			if !ok {
				continue
			}
			h.nontrivial = true
			if ph != hash {
				h.viaCollision = true
			}
		}
	}
	h.past = append(h.past, cur)
}

// expire advances the clock for one or all cache entries.
func (h *vfC19History) expire(t *rapid.T) {
	all := rapid.IntRange(0, 2).Draw(t, "expire_all") == 0
	age := rapid.IntRange(0, 3).Draw(t, "expire_only_age") == 0
	var targets []vfC19Pfx
	if all {
		targets = h.allPfx
	} else {
		targets = []vfC19Pfx{rapid.SampledFrom(h.allPfx).Draw(t, "expire_prefix")}
	}

	n := 0
	for _, p := range targets {
		s := h.snaps[p]
		if age {
			// 20 of the 60 minutes pass twice at most: the entry stays alive
			if s != nil && s.aged >= 40*time.Minute {
				continue
			}
			if vfC19ShiftExpiry(h.chk, p, 20*time.Minute) {
				n++
			}
			if s != nil {
				s.aged += 20 * time.Minute
			}

			continue
		}
		if vfC19ShiftExpiry(h.chk, p, 2*time.Hour) {
			n++
		}
		if s != nil {
			s.live = false
		}
	}
	what := "expire"
	if age {
		what = "age20m"
	}
	h.trace = append(h.trace, fmt.Sprintf("%s all=%t prefixes=%v (entries touched: %d)", what, all, len(targets), n))
	vfC19.Class("history:step_" + what)
}

// flipAndRecheck makes the situation in which expiry decides the verdict: the
// service starts or stops listing a full hash of one of the host's parents,
// time passes (for all entries, for that prefix only, or not at all), and the
// host is checked again.
func (h *vfC19History) flipAndRecheck(t *rapid.T) {
	host := rapid.SampledFrom(h.hosts).Draw(t, "flip_host")
	cands := vfC19Candidates(host)
	if len(cands) == 0 {
		h.checkHost(t, host)

		return
	}
	c := rapid.SampledFrom(cands).Draw(t, "flip_parent")
	e := vfC19Entry{H: c.Hash, Enc: vfC19EncLower, Kind: "own", Of: c.Name, W: 1}
	if c.Amb {
		e.Kind = "own_ambiguous_suffix"
	}
	if i := h.db.index(e.H, e.Enc); i >= 0 {
		h.db.entries = append(h.db.entries[:i:i], h.db.entries[i+1:]...)
		h.trace = append(h.trace, "db remove "+e.describe())
	} else {
		h.db.entries = append(h.db.entries, e)
		h.trace = append(h.trace, "db add "+e.describe())
	}
	h.dirty = true
	vfC19.Class("history:step_db_flip_own")

	mode := rapid.SampledFrom([]string{"all", "all", "prefix", "none"}).Draw(t, "flip_expire")
	var targets []vfC19Pfx
	switch mode {
	case "all":
		targets = h.allPfx
	case "prefix":
		targets = []vfC19Pfx{c.Hash.pfx()}
	}
	n := 0
	for _, p := range targets {
		if vfC19ShiftExpiry(h.chk, p, 2*time.Hour) {
			n++
		}
		if s := h.snaps[p]; s != nil {
			s.live = false
		}
	}
	if mode != "none" {
		h.trace = append(h.trace, fmt.Sprintf("expire %s prefixes=%d (entries touched: %d)", mode, len(targets), n))
	}
	h.checkHost(t, host)
}

// mutate changes the service database (only in histories drawn as mutable).
func (h *vfC19History) mutate(t *rapid.T) {
	e := vfC19DrawEntry(t, h.universe, "mutate_entry")
	if i := h.db.index(e.H, e.Enc); i >= 0 {
		h.db.entries = append(h.db.entries[:i:i], h.db.entries[i+1:]...)
		h.trace = append(h.trace, "db remove "+e.describe())
	} else {
		h.db.entries = append(h.db.entries, e)
		h.trace = append(h.trace, "db add "+e.describe())
	}
	h.dirty = true
	vfC19.Class("history:step_db_change")
}

// TestVFC19CacheHistory: sequences of checks over one checker (one cache, from
// unlimited down to a few bytes) with clock advances (some or all entries
// expire, or merely age), upstream failures and, in half of the histories,
// changes of the service database.  Every check must give a verdict a fresh
// lookup could give: blocked exactly when the service returns a full hash of
// the name now -- or returned/withheld it in an answer that is still cached and
// not expired.  With an unchanged database that is exactly the fresh verdict.
// Every request sent at any point obeys the privacy oracle.
func TestVFC19CacheHistory(t *testing.T) {
	vfkit.Begin(t)
	vfC19Collisions()
	rapid.Check(t, func(t *rapid.T) {
		h := &vfC19History{snaps: map[vfC19Pfx]*vfC19Snap{}}

		// hosts: bases, relatives of them, and names colliding with their parents
		nb := rapid.IntRange(1, 3).Draw(t, "n_bases")
		for i := 0; i < nb; i++ {
			host, _ := vfC19DrawHost(t, "base")
			h.hosts = append(h.hosts, host)
		}
		nr := rapid.IntRange(0, 3).Draw(t, "n_related")
		for i := 0; i < nr; i++ {
			base := rapid.SampledFrom(h.hosts).Draw(t, "related_of")
			h.hosts = append(h.hosts, vfC19DrawRelated(t, base, "related"))
		}
		nc := rapid.IntRange(0, 3).Draw(t, "n_colliding")
		for i := 0; i < nc; i++ {
			base := rapid.SampledFrom(h.hosts).Draw(t, "colliding_with")
			cands := vfC19Candidates(base)
			if len(cands) == 0 {
				continue
			}
			c := rapid.SampledFrom(cands).Draw(t, "colliding_parent")
			h.hosts = append(h.hosts, vfC19Collide(c.Hash.pfx(), rapid.IntRange(0, 1).Draw(t, "colliding_which")))
		}

		h.db, h.universe = vfC19DrawDB(t, h.hosts, 8)
		h.suffix = rapid.SampledFrom(vfC19TXTSuffixes).Draw(t, "txt_suffix")
		h.size = vfC19DrawCacheSize(t, h.hosts, h.universe)
		h.mutable = rapid.Bool().Draw(t, "db_mutable")
		h.ups = &vfC19Ups{db: h.db, suffix: h.suffix}
		h.ups.onAnswer = func(p vfC19Pfx, es []vfC19Entry) {
			h.snaps[p] = &vfC19Snap{es: append([]vfC19Entry{}, es...), live: true}
		}
		h.chk = New(&Config{
			Upstream:    h.ups,
			ServiceName: "vf",
			TXTSuffix:   h.suffix,
			CacheTime:   time.Hour,
			CacheSize:   h.size,
		})

		seen := map[vfC19Pfx]bool{}
		for _, host := range h.hosts {
			for _, c := range vfC19Candidates(host) {
				if !seen[c.Hash.pfx()] {
					seen[c.Hash.pfx()] = true
					h.allPfx = append(h.allPfx, c.Hash.pfx())
				}
			}
		}
		sort.Slice(h.allPfx, func(i, j int) bool { return h.allPfx[i].String() < h.allPfx[j].String() })
		h.trace = append(h.trace, fmt.Sprintf("hosts %v; database %v", h.hosts, h.db.describe()))

		t.Repeat(map[string]func(*rapid.T){
			"": func(t *rapid.T) {},
			"step": func(t *rapid.T) {
				kind := rapid.SampledFrom([]string{
					"check", "check", "check", "check", "check", "check", "check", "check", "check", "check",
					"expire", "expire", "expire", "mutate", "mutate", "flip", "flip", "flip", "flip", "fail",
				}).Draw(t, "step_kind")
				switch {
				case kind == "check":
					h.check(t)
				case kind == "flip" && h.mutable:
					h.flipAndRecheck(t)
				case kind == "expire" && len(h.allPfx) > 0:
					h.expire(t)
				case kind == "mutate" && h.mutable:
					h.mutate(t)
				case kind == "fail":
					h.ups.failNext = true
					// the service is unreachable, or it answers that it cannot
					// answer: either way it has said nothing about any hash
					h.ups.failRcode = rapid.SampledFrom([]int{0, 0, dns.RcodeServerFailure, dns.RcodeRefused}).Draw(t, "fail_rcode")
					h.trace = append(h.trace, fmt.Sprintf("next upstream exchange fails (rcode %d; 0 = error)", h.ups.failRcode))
				default:
					h.check(t)
				}
			},
		})

		vfC19.Eval()
		vfC19.ClassN("history:checks", h.checks)
		switch _, open := vfkit.KnownOpen("C19", vfC19SigSmallCache); {
		case !open:
			vfC19.Class(fmt.Sprintf("history:cache_size_%d", h.size))
		case h.size == 0 || h.size == 1<<20:
			vfC19.Class(fmt.Sprintf("history:cache_size_%d", h.size))
		default:
			vfC19.Class("history:cache_size_one_or_two_answers")
		}
		if h.mutable {
			vfC19.Class("history:db_mutable")
		} else {
			vfC19.Class("history:db_static")
		}
		vfC19DBClasses(h.db)
		if h.expiryDecided {
			vfC19.Class("history:with_expiry_deciding")
			if vfC19.WantSample("history_expiry_decides") {
				vfC19.Sample("history_expiry_decides", map[string]any{
					"cache_size": h.size, "steps": h.trace, "malformed_txt": h.db.junk,
				})
			}
		}
		if h.nontrivial {
			vfC19.Nontrivial(fmt.Sprintf("h|%d|%s", h.size, strings.Join(h.trace, ";")))
			vfC19.Class("history:nontrivial")
			cls := "history_shared_parent"
			if h.viaCollision {
				vfC19.Class("history:nontrivial_via_collision")
				cls = "history_prefix_collision"
			}
			if vfC19.WantSample(cls) {
				vfC19.Sample(cls, map[string]any{"cache_size": h.size, "steps": h.trace, "malformed_txt": h.db.junk})
			}
		}
	})
}

// TestVFC19RegressSmallCache freezes the defect found by TestVFC19CacheHistory
// on the unchanged tree: with a cache too small to keep the positive entry of
// an answer (refused as too large, or evicted by the negative entries of the
// same answer), storeInCache stores a *negative* entry for the prefix the
// service has just returned a hash for, and the next check of the same blocked
// name is answered "not blocked" from the cache.
func TestVFC19RegressSmallCache(t *testing.T) {
	vfkit.Begin(t)
	for _, tc := range []struct {
		host string
		size uint
	}{
		{host: "b.com", size: 10},
		{host: "b.com", size: 41},
		{host: "a.b.com", size: 51},
	} {
		db := &vfC19DB{entries: []vfC19Entry{{H: vfC19Sum("b.com"), Kind: "own", Of: "b.com"}}}
		ups := &vfC19Ups{db: db, suffix: "sb.dns.adguard.com."}
		chk := New(&Config{
			Upstream:    ups,
			ServiceName: "vf",
			TXTSuffix:   "sb.dns.adguard.com.",
			CacheTime:   time.Hour,
			CacheSize:   tc.size,
		})
		first, err := chk.Check(tc.host)
		if err != nil || !first {
			t.Fatalf("cache size %d: fresh Check(%q) = %t, %v; want blocked", tc.size, tc.host, first, err)
		}
		second, err := chk.Check(tc.host)
		if err != nil {
			t.Fatalf("cache size %d: second Check(%q): %v", tc.size, tc.host, err)
		}
		vfC19.Eval()
		vfC19.Class("regress:small_cache")
		if second {
			continue
		}
		what := fmt.Sprintf("cache size %d bytes: Check(%q) is blocked on a fresh lookup and not blocked when repeated "+
			"(negative cache entry stored for a prefix the service returned a hash for)", tc.size, tc.host)
		if _, open := vfkit.KnownOpen("C19", vfC19SigSmallCache); open {
			vfC19.KnownLine(what)

			continue
		}
		t.Errorf("%s", what)
	}
}
