//go:build verif

package filtering

// Property C06 (table semantics part): DNSFilter.CheckHost over generated
// rewrite tables, compared with the reference model of c06_model_test.go.

import (
	"bytes"
	"encoding/json"
	"fmt"
	"io"
	"net/http"
	"net/http/httptest"
	"net/netip"
	"os"
	"runtime/debug"
	"sort"
	"strings"
	"sync"
	"sync/atomic"
	"syscall"
	"testing"
	"time"

	"github.com/AdguardTeam/AdGuardHome/internal/vfkit"
	"github.com/AdguardTeam/golibs/log"
	"pgregory.net/rapid"
)

var vfC06 = vfkit.For("C06")

var vfC06Quiet sync.Once

// vfC06Hung is set once a lookup did not return within the watchdog; later
// lookups (only shrinking follows) use a short watchdog.
var vfC06Hung atomic.Bool

const (
	vfC06Watchdog      = 10 * time.Second
	vfC06WatchdogShort = 500 * time.Millisecond
)

var (
	vfC06Labels = []string{"a", "b", "c", "www", "cdn", "x1"}
	vfC06Zones  = []string{"test", "host.test", "example", "x.example", "co.uk"}
	vfC06V4     = []string{"192.0.2.1", "192.0.2.2", "198.51.100.7", "0.0.0.0", "127.0.0.1"}
	vfC06V6     = []string{"2001:db8::1", "2001:db8::2", "::", "::1", "::ffff:192.0.2.1", "fe80::1%eth0"}
	// Other question types: TXT MX HTTPS CNAME PTR SRV ANY.
	vfC06OtherQTypes = []uint16{16, 15, 65, 5, 12, 33, 255}
)

// vfC06Gen builds one table over a small pool of related names.
type vfC06Gen struct {
	t    *rapid.T
	pool []string
	// heads are the names whose lookup exercises a gadget: chain starts and
	// the names precedence gadgets are built around.
	heads []string
	tab   []vfC06Entry
	n     int
}

func (g *vfC06Gen) lbl(what string) string {
	g.n++

	return fmt.Sprintf("%s%d", what, g.n)
}

func (g *vfC06Gen) remember(n string) {
	if !vfC06In(g.pool, n) {
		g.pool = append(g.pool, n)
	}
}

// name returns a name related to the ones already in the pool (same name,
// child, parent) or a fresh one.
func (g *vfC06Gen) name() (n string) {
	t := g.t
	if len(g.pool) > 0 && rapid.IntRange(0, 9).Draw(t, g.lbl("derive")) < 5 {
		base := rapid.SampledFrom(g.pool).Draw(t, g.lbl("base"))
		labels := strings.Split(base, ".")
		switch rapid.IntRange(0, 3).Draw(t, g.lbl("how")) {
		case 0:
			n = base
		case 1, 2:
			if len(labels) < 5 {
				n = rapid.SampledFrom(vfC06Labels).Draw(t, g.lbl("label")) + "." + base
			} else {
				n = base
			}
		default:
			if len(labels) >= 3 {
				n = strings.Join(labels[1:], ".")
			} else {
				n = base
			}
		}
	} else {
		n = rapid.SampledFrom(vfC06Zones).Draw(t, g.lbl("zone"))
		k := rapid.SampledFrom([]int{0, 1, 1, 2, 2, 3}).Draw(t, g.lbl("depth"))
		for i := 0; i < k; i++ {
			n = rapid.SampledFrom(vfC06Labels).Draw(t, g.lbl("label")) + "." + n
		}
	}
	g.remember(n)

	return n
}

// wildcardOver returns a wildcard pattern that covers name, up levels above it.
func vfC06WildcardOver(name string, up int) (pat string) {
	labels := strings.Split(name, ".")
	if up >= len(labels) {
		up = len(labels) - 1
	}
	if up <= 0 {
		return name
	}

	return "*." + strings.Join(labels[up:], ".")
}

// pattern returns an exact or wildcard pattern that covers name.
func (g *vfC06Gen) pattern(name string) (pat string) {
	if rapid.IntRange(0, 9).Draw(g.t, g.lbl("pat_exact")) < 6 {
		return name
	}

	return vfC06WildcardOver(name, rapid.IntRange(1, 3).Draw(g.t, g.lbl("pat_up")))
}

func (g *vfC06Gen) add(domain, answer string) {
	if len(g.tab) >= 12 {
		return
	}
	g.tab = append(g.tab, vfC06Entry{Domain: domain, Answer: answer})
}

func (g *vfC06Gen) v4() string { return rapid.SampledFrom(vfC06V4).Draw(g.t, g.lbl("v4")) }
func (g *vfC06Gen) v6() string { return rapid.SampledFrom(vfC06V6).Draw(g.t, g.lbl("v6")) }

// terminal puts address / exception entries on a name.
func (g *vfC06Gen) terminal(name string) {
	pat := g.pattern(name)
	switch rapid.IntRange(0, 13).Draw(g.t, g.lbl("terminal")) {
	case 0, 1, 2:
		g.add(pat, g.v4())
		g.add(pat, g.v6())
	case 3, 4:
		g.add(pat, g.v4())
	case 5:
		g.add(pat, g.v6())
	case 6:
		g.add(pat, g.v4())
		g.add(pat, g.v4())
		g.add(pat, g.v6())
	case 7:
		g.add(pat, g.v4())
		g.add(pat, "AAAA")
	case 8:
		g.add(pat, g.v6())
		g.add(pat, "A")
	case 9:
		g.add(pat, "A")
	case 10:
		g.add(pat, "AAAA")
	case 11:
		g.add(pat, "A")
		g.add(pat, "AAAA")
	case 12:
		// nothing: the canonical name is resolved upstream
	default:
		g.add(pat, pat)
	}
}

// chain builds a CNAME chain n0 -> n1 -> ... -> nL with exact or wildcard
// links, ended by a terminal or by a back edge (cycle).
func (g *vfC06Gen) chain() {
	t := g.t
	links := rapid.IntRange(1, 6).Draw(t, g.lbl("links"))
	nodes := make([]string, links+1)
	for i := range nodes {
		n := g.name()
		// Mostly distinct nodes, so that cycles are the ones asked for; a
		// repeated node (accidental cycle or self reference) stays possible.
		for tries := 0; vfC06In(nodes[:i], n) && tries < 3 && rapid.IntRange(0, 9).Draw(t, g.lbl("keep_repeat")) != 0; tries++ {
			n = g.name()
		}
		nodes[i] = n
	}
	for i := 0; i < links; i++ {
		g.add(g.pattern(nodes[i]), nodes[i+1])
	}
	g.heads = append(g.heads, nodes[0])
	if links > 1 {
		g.heads = append(g.heads, nodes[rapid.IntRange(1, links).Draw(t, g.lbl("head"))])
	}
	last := nodes[links]
	if rapid.IntRange(0, 3).Draw(t, g.lbl("cycle")) == 0 {
		back := rapid.IntRange(0, links).Draw(t, g.lbl("back"))
		g.add(g.pattern(last), nodes[back])
	} else {
		g.terminal(last)
	}
}

// precedence builds competing entries around one name: the exact name, one to
// three wildcard levels above it and a child, with address, exception and CNAME
// answers.
func (g *vfC06Gen) precedence() {
	t := g.t
	n := g.name()
	for len(strings.Split(n, ".")) < 3 {
		n = rapid.SampledFrom(vfC06Labels).Draw(t, g.lbl("label")) + "." + n
	}
	g.remember(n)
	g.heads = append(g.heads, n, rapid.SampledFrom(vfC06Labels).Draw(t, g.lbl("label"))+"."+n)
	if ls := strings.Split(n, "."); len(ls) > 2 {
		g.heads = append(g.heads, rapid.SampledFrom(vfC06Labels).Draw(t, g.lbl("label"))+"."+strings.Join(ls[1:], "."))
	}
	k := rapid.IntRange(2, 5).Draw(t, g.lbl("prec_n"))
	for i := 0; i < k; i++ {
		var pat string
		switch rapid.IntRange(0, 5).Draw(t, g.lbl("prec_pat")) {
		case 0, 1:
			pat = n
		case 2, 3:
			pat = vfC06WildcardOver(n, 1)
		case 4:
			pat = vfC06WildcardOver(n, 2)
		default:
			pat = vfC06WildcardOver(n, 3)
		}
		switch rapid.IntRange(0, 11).Draw(t, g.lbl("prec_ans")) {
		case 0, 1, 2, 3:
			g.add(pat, g.v4())
		case 4, 5, 6:
			g.add(pat, g.v6())
		case 7:
			g.add(pat, "A")
		case 8:
			g.add(pat, "AAAA")
		case 9, 10:
			g.add(pat, g.name())
		default:
			g.add(pat, pat)
		}
	}
}

// noise adds an entry related to the pool: address on a chain name, wildcard
// over it, competing CNAME, exception, self reference.
func (g *vfC06Gen) noise() {
	t := g.t
	pat := g.pattern(g.name())
	switch rapid.IntRange(0, 11).Draw(t, g.lbl("noise")) {
	case 0, 1, 2:
		g.add(pat, g.v4())
	case 3, 4:
		g.add(pat, g.v6())
	case 5, 6:
		g.add(pat, g.name())
	case 7:
		g.add(pat, "A")
	case 8:
		g.add(pat, "AAAA")
	case 9:
		g.add(pat, pat)
	default:
		// wildcard pointing at a name below itself (issue 4016 shape)
		w := vfC06WildcardOver(rapid.SampledFrom(vfC06Labels).Draw(t, g.lbl("label"))+"."+pat, 1)
		if strings.HasPrefix(pat, "*.") {
			w = pat
		}
		g.add(w, rapid.SampledFrom(vfC06Labels).Draw(t, g.lbl("label"))+"."+w[2:])
	}
}

// duplicate repeats an entry exactly, or adds a second value of the same kind
// under the same pattern.
func (g *vfC06Gen) duplicate() {
	if len(g.tab) == 0 {
		return
	}
	t := g.t
	e := g.tab[rapid.IntRange(0, len(g.tab)-1).Draw(t, g.lbl("dup_of"))]
	if rapid.Bool().Draw(t, g.lbl("dup_exact")) {
		g.add(e.Domain, e.Answer)

		return
	}
	switch vfC06Parse(e).kind {
	case vfC06IP4:
		g.add(e.Domain, g.v4())
	case vfC06IP6:
		g.add(e.Domain, g.v6())
	case vfC06CNAME:
		g.add(e.Domain, g.name())
	default:
		g.add(e.Domain, g.v4())
	}
}

func vfC06DrawTable(t *rapid.T) (tab []vfC06Entry, pool, heads []string) {
	g := &vfC06Gen{t: t}
	nGadgets := rapid.SampledFrom([]int{0, 1, 1, 1, 2, 2, 3}).Draw(t, "gadgets")
	for i := 0; i < nGadgets; i++ {
		if rapid.IntRange(0, 2).Draw(t, g.lbl("gadget")) == 0 {
			g.precedence()
		} else {
			g.chain()
		}
	}
	nNoise := rapid.IntRange(0, 4).Draw(t, "noise")
	for i := 0; i < nNoise; i++ {
		g.noise()
	}
	if rapid.IntRange(0, 3).Draw(t, "dups") == 0 {
		nd := rapid.IntRange(1, 2).Draw(t, "ndups")
		for i := 0; i < nd; i++ {
			g.duplicate()
		}
	}
	// Domain patterns are case-insensitive.
	for i := range g.tab {
		if rapid.IntRange(0, 19).Draw(t, g.lbl("upper")) == 0 {
			g.tab[i].Domain = strings.ToUpper(g.tab[i].Domain)
		}
		if rapid.IntRange(0, 14).Draw(t, g.lbl("dot_pattern")) == 0 {
			// the same name in its fully qualified spelling
			g.tab[i].Domain += "."
			vfC06.Class("table:pattern_with_trailing_dot")
		}
	}
	// ... and so are the host names in answers (an address or an exception
	// mark is left alone).
	for i := range g.tab {
		a := g.tab[i].Answer
		if _, perr := netip.ParseAddr(a); perr == nil || a == "A" || a == "AAAA" {
			continue
		}
		if rapid.IntRange(0, 9).Draw(t, g.lbl("upper_answer")) == 0 {
			g.tab[i].Answer = strings.ToUpper(a[:1]) + a[1:]
			vfC06.Class("table:cname_answer_with_upper_case")
		}
		if rapid.IntRange(0, 9).Draw(t, g.lbl("dot_answer")) == 0 {
			// the same name in its fully qualified spelling
			g.tab[i].Answer += "."
			vfC06.Class("table:cname_answer_with_trailing_dot")
		}
	}

	return g.tab, g.pool, g.heads
}

// vfC06DrawQuery draws a question related to the table.
func vfC06DrawQuery(t *rapid.T, tab []vfC06Entry, pool, heads []string, i int) (host string, qtype uint16) {
	l := func(s string) string { return fmt.Sprintf("q%d_%s", i, s) }
	label := func() string { return rapid.SampledFrom(vfC06Labels).Draw(t, l("label")) }

	src := rapid.IntRange(-4, 9).Draw(t, l("src"))
	switch {
	case len(heads) > 0 && src < 0:
		host = rapid.SampledFrom(heads).Draw(t, l("head"))
	case len(tab) > 0 && src >= 0 && src < 5:
		e := tab[rapid.IntRange(0, len(tab)-1).Draw(t, l("entry"))]
		// what callers look up never has the final dot
		host = strings.TrimSuffix(strings.ToLower(e.Domain), ".")
		if src == 4 && vfC06Parse(e).kind == vfC06CNAME {
			host = e.Answer
		}
		if strings.HasPrefix(host, "*.") {
			host = host[2:]
			k := rapid.IntRange(0, 2).Draw(t, l("under"))
			// k == 0: the wildcard's own apex, which it does not cover
			for j := 0; j < k; j++ {
				host = label() + "." + host
			}
		}
	case len(pool) > 0 && src < 8:
		host = rapid.SampledFrom(pool).Draw(t, l("pool"))
		switch rapid.IntRange(0, 3).Draw(t, l("rel")) {
		case 0:
			host = label() + "." + host
		case 1:
			if ls := strings.Split(host, "."); len(ls) > 1 {
				host = strings.Join(ls[1:], ".")
			}
		}
	default:
		host = label() + "." + rapid.SampledFrom(vfC06Zones).Draw(t, l("zone"))
	}

	switch rapid.IntRange(0, 9).Draw(t, l("case")) {
	case 0:
		host = strings.ToUpper(host)
	case 1:
		host = strings.ToUpper(host[:1]) + host[1:]
	}

	return host, vfC06DrawQType(t, l("qtype"))
}

// vfC06DrawQType draws A and AAAA four times out of five.
func vfC06DrawQType(t *rapid.T, label string) (qtype uint16) {
	switch k := rapid.IntRange(0, 9).Draw(t, label); {
	case k >= 8:
		return rapid.SampledFrom(vfC06OtherQTypes).Draw(t, label+"_other")
	case k%2 == 0:
		return vfC06TypeAAAA
	default:
		return vfC06TypeA
	}
}

// vfC06Fataler is the part of *testing.T / *rapid.T the helpers need.
type vfC06Fataler interface {
	Fatalf(format string, args ...any)
}

// vfC06TempDir makes the data directory of one case; the filters of a case
// share it (they only create the empty "filters" directory in it).
func vfC06TempDir(t vfC06Fataler) (dir string, cleanup func()) {
	dir, err := os.MkdirTemp("", "vfc06-")
	if err != nil {
		t.Fatalf("VERIF-INCONCLUSIVE temp dir: %v", err)
	}

	return dir, func() { _ = os.RemoveAll(dir) }
}

// vfC06Placeholders are what a table position holds before a run-time edit
// puts the wanted entry there: an address, an IPv6 address, a CNAME and an
// exception, so that an edit changes the kind of the entry in every direction.
var vfC06Placeholders = []string{"192.0.2.250", "2001:db8:ffff::250", "placeholder-target.invalid", "A", "AAAA"}

// vfC06Inert are entries that match no name that can be asked (the names that
// are looked up are never empty, and nothing asks for the inert-*.invalid
// names): an empty entry, as POST /control/rewrite/add with an empty object or
// a hand edit leaves it in the file, entries lacking the domain or the answer,
// and an unrelated complete one.  A table holding them must resolve every
// question as the table without them does.
var vfC06Inert = []vfC06Entry{
	{Domain: "", Answer: ""},
	{Domain: "", Answer: "192.0.2.250"},
	{Domain: "inert-a.invalid", Answer: ""},
	{Domain: "", Answer: "placeholder-target.invalid"},
	{Domain: "inert-b.invalid", Answer: "2001:db8:ffff::250"},
	{Domain: "", Answer: "AAAA"},
}

// vfC06Build makes a DNSFilter holding the table in the given order.  mode 0:
// from the configuration; 1: every entry through POST /control/rewrite/add;
// 2: first half from the configuration, the rest through the API; 3: every
// position first holds a placeholder entry (from the configuration or the API)
// and is then edited into the wanted entry through PUT /control/rewrite/update;
// 4: through the API with junk entries in between that are then removed through
// POST /control/rewrite/delete; 5 and 6: as 0 and 2, but the stored
// configuration also holds inert entries (vfC06Inert) before, between and after
// the wanted ones, as a file written by an older version or by hand does.
func vfC06Build(t vfC06Fataler, dir string, tab []vfC06Entry, mode int) (d *DNSFilter) {
	vfC06Quiet.Do(func() { log.SetOutput(io.Discard) })

	inert := mode == 5 || mode == 6
	split := len(tab)
	switch mode {
	case 1, 4:
		split = 0
	case 2, 6:
		split = len(tab) / 2
	case 3:
		split = (len(tab) + 1) / 2
	}

	placeholder := func(i int) (e vfC06Entry) {
		return vfC06Entry{Domain: fmt.Sprintf("placeholder-%d.invalid", i), Answer: vfC06Placeholders[i%len(vfC06Placeholders)]}
	}

	conf := &Config{
		DataDir:        dir,
		ConfigModified: func() {},
	}
	nInert := 0
	addInert := func() {
		e := vfC06Inert[(nInert+len(tab))%len(vfC06Inert)]
		nInert++
		conf.Rewrites = append(conf.Rewrites, &LegacyRewrite{Domain: e.Domain, Answer: e.Answer})
	}
	for i, e := range tab[:split] {
		if mode == 3 {
			e = placeholder(i)
		}
		if inert && i%2 == 0 {
			addInert()
			if i%4 == 2 {
				addInert()
			}
		}
		conf.Rewrites = append(conf.Rewrites, &LegacyRewrite{Domain: e.Domain, Answer: e.Answer})
	}
	if inert && len(tab)%2 == 0 {
		addInert()
	}

	d, err := New(conf, nil)
	if err != nil {
		t.Fatalf("VERIF-INCONCLUSIVE filtering.New: %v", err)
	}

	call := func(method, path string, h http.HandlerFunc, body any) {
		b, _ := json.Marshal(body)
		w := httptest.NewRecorder()
		h(w, httptest.NewRequest(method, path, bytes.NewReader(b)))
		if w.Code != http.StatusOK {
			d.Close()
			t.Fatalf("%s %s %s refused: %d %s", method, path, b, w.Code, w.Body.String())
		}
	}
	ent := func(e vfC06Entry) map[string]string { return map[string]string{"domain": e.Domain, "answer": e.Answer} }

	for i, e := range tab[split:] {
		if mode == 3 {
			e = placeholder(split + i)
		}
		if mode == 4 {
			call(http.MethodPost, "/control/rewrite/add", d.handleRewriteAdd, ent(vfC06Entry{
				Domain: fmt.Sprintf("junk-%d.invalid", i), Answer: vfC06Placeholders[i%len(vfC06Placeholders)],
			}))
		}
		call(http.MethodPost, "/control/rewrite/add", d.handleRewriteAdd, ent(e))
	}

	switch mode {
	case 3:
		for i, e := range tab {
			call(http.MethodPut, "/control/rewrite/update", d.handleRewriteUpdate, map[string]any{
				"target": ent(placeholder(i)), "update": ent(e),
			})
		}
	case 4:
		for i := range tab {
			call(http.MethodPost, "/control/rewrite/delete", d.handleRewriteDelete, ent(vfC06Entry{
				Domain: fmt.Sprintf("junk-%d.invalid", i), Answer: vfC06Placeholders[i%len(vfC06Placeholders)],
			}))
		}
	}

	if mode == 3 || mode == 4 {
		// what the list API shows must be the wanted table, in order
		w := httptest.NewRecorder()
		d.handleRewriteList(w, httptest.NewRequest(http.MethodGet, "/control/rewrite/list", nil))
		var listed []struct{ Domain, Answer string }
		if jerr := json.Unmarshal(w.Body.Bytes(), &listed); jerr != nil {
			d.Close()
			t.Fatalf("rewrite/list: %v: %s", jerr, w.Body.String())
		}
		if len(listed) != len(tab) {
			d.Close()
			t.Fatalf("after the edits rewrite/list has %d entries, want %d: %s", len(listed), len(tab), w.Body.String())
		}
		for i, e := range tab {
			// the same name, whatever its spelling
			if !strings.EqualFold(strings.TrimSuffix(listed[i].Domain, "."), strings.TrimSuffix(e.Domain, ".")) || !strings.EqualFold(listed[i].Answer, e.Answer) {
				d.Close()
				t.Fatalf("after the edits rewrite/list entry %d is %+v, want %+v", i, listed[i], e)
			}
		}
	}

	return d
}

// vfC06Lookup looks one question up in one filter.
func vfC06Lookup(t vfC06Fataler, d *DNSFilter, tab []vfC06Entry, host string, qtype uint16) (got vfC06Got) {
	return vfC06LookupAll(t, []*DNSFilter{d}, [][]vfC06Entry{tab}, host, qtype)[0]
}

// vfC06Ret is what one call of CheckHost gave.
type vfC06Ret struct {
	res   Result
	err   error
	pan   any
	stack []byte
}

// vfC06LookupAll calls CheckHost(host, qtype) on every filter under the
// watchdog (one goroutine for the batch) and turns panics and non-termination
// into failures.
func vfC06LookupAll(
	t vfC06Fataler,
	filters []*DNSFilter,
	orders [][]vfC06Entry,
	host string,
	qtype uint16,
) (gots []vfC06Got) {
	ch := make(chan []vfC06Ret, 1)
	var at atomic.Int32
	setts := &Settings{ProtectionEnabled: true, FilteringEnabled: true}
	go func() {
		rets := make([]vfC06Ret, len(filters))
		defer func() { ch <- rets }()
		for i, d := range filters {
			at.Store(int32(i))
			func() {
				defer func() {
					if p := recover(); p != nil {
						rets[i].pan, rets[i].stack = p, debug.Stack()
					}
				}()
				rets[i].res, rets[i].err = d.CheckHost(host, qtype, setts)
			}()
		}
	}()

	// Non-termination is a verdict only when this process itself has burnt the
	// watchdog budget in CPU time since the call started: a stalled or heavily
	// oversubscribed machine makes wall-clock time alone meaningless (a lookup
	// takes microseconds of CPU; a CNAME loop burns a full core).
	wd := vfC06Watchdog
	if vfC06Hung.Load() {
		wd = vfC06WatchdogShort
	}
	start, cpu0 := time.Now(), vfC06CPUTime()
	timer := time.NewTimer(wd)
	defer timer.Stop()

	var rets []vfC06Ret
	for rets == nil {
		select {
		case rets = <-ch:
		case <-timer.C:
			cpu := vfC06CPUTime()
			if cpu0 < 0 || cpu < 0 || cpu-cpu0 >= wd {
				vfC06Hung.Store(true)
				t.Fatalf("non-termination: CheckHost(%q, %d) did not return within %s of CPU time (%s wall); table %+v",
					host, qtype, wd, time.Since(start).Round(time.Millisecond), orders[at.Load()])
			}
			if time.Since(start) > 60*vfC06Watchdog {
				t.Fatalf("VERIF-INCONCLUSIVE machine stalled: CheckHost(%q, %d) pending for %s with %s of CPU used",
					host, qtype, time.Since(start), cpu-cpu0)
			}
			timer.Reset(wd / 4)
		}
	}

	gots = make([]vfC06Got, len(rets))
	for i, r := range rets {
		gots[i] = vfC06Observe(t, r, orders[i], host, qtype)
	}

	return gots
}

// vfC06CPUTime returns the CPU time (user+system) this process has used, or a
// negative value when it cannot be read.
func vfC06CPUTime() (d time.Duration) {
	var ru syscall.Rusage
	if err := syscall.Getrusage(syscall.RUSAGE_SELF, &ru); err != nil {
		return -1
	}

	return time.Duration(ru.Utime.Nano() + ru.Stime.Nano())
}

// vfC06Observe reduces a result to its observable part and checks its form.
func vfC06Observe(t vfC06Fataler, r vfC06Ret, tab []vfC06Entry, host string, qtype uint16) (got vfC06Got) {
	if r.pan != nil {
		t.Fatalf("panic in CheckHost(%q, %d): %v\ntable %+v\n%s", host, qtype, r.pan, tab, r.stack)
	}
	if r.err != nil {
		t.Fatalf("CheckHost(%q, %d) error: %v; table %+v", host, qtype, r.err, tab)
	}

	res := r.res
	switch res.Reason {
	case NotFilteredNotFound:
		if len(res.IPList) != 0 || res.CanonName != "" || res.IsFiltered || len(res.Rules) != 0 ||
			res.DNSRewriteResult != nil {
			t.Fatalf("CheckHost(%q, %d): not-rewritten result carries data: %+v; table %+v", host, qtype, res, tab)
		}
		got.Pass = true
	case Rewritten:
		if res.IsFiltered || len(res.Rules) != 0 || res.DNSRewriteResult != nil {
			t.Fatalf("CheckHost(%q, %d): rewritten result is marked filtered or carries rules: %+v; table %+v",
				host, qtype, res, tab)
		}
		got.Canon = res.CanonName
		seen := map[string]bool{}
		for _, ip := range res.IPList {
			if !ip.IsValid() {
				t.Fatalf("CheckHost(%q, %d): invalid address in the answer: %+v; table %+v", host, qtype, res, tab)
			}
			if s := ip.String(); !seen[s] {
				seen[s] = true
				got.IPs = append(got.IPs, s)
			}
		}
		sort.Strings(got.IPs)
	default:
		t.Fatalf("CheckHost(%q, %d): unexpected reason %s (%+v); table %+v", host, qtype, res.Reason, res, tab)
	}

	return got
}

// vfC06CheckOne compares the results of one question over all orders of the
// table with the reference model.
func vfC06CheckOne(
	t vfC06Fataler,
	tab []vfC06Entry,
	filters []*DNSFilter,
	orders [][]vfC06Entry,
	host string,
	qtype uint16,
	count bool,
) {
	m := vfC06Resolve(tab, host, qtype)

	if m.tags[vfC06ShapeOtherExc] {
		if _, open := vfkit.KnownOpen("C06", vfC06SigOtherExc); open {
			// Listed open finding: the shape is left out so that the search
			// goes on behind it (HARNESS_GUIDE rule 10).
			vfC06.Excluded(vfC06SigOtherExc)

			return
		}
	}

	gots := vfC06LookupAll(t, filters, orders, host, qtype)

	if count {
		vfC06Account(m, tab, host, qtype, gots[0])
	}

	for i, got := range gots {
		// Validity that holds for every table: no address that the table does
		// not hold for the finally resolved name and the requested family.
		final := got.Canon
		if final == "" {
			final = host
		}
		have := vfC06TableAddrs(tab, final, qtype)
		for _, ip := range got.IPs {
			if !have[ip] {
				t.Fatalf("CheckHost(%q, %d) = %s: address %s is not in the table for %q and this type\n"+
					"table (order %d): %+v", host, qtype, got, ip, final, i, orders[i])
			}
		}

		ok := false
		for _, o := range m.outcomes {
			if o.accepts(got) {
				ok = true

				break
			}
		}
		if !ok {
			t.Fatalf("CheckHost(%q, %d) = %s\nwant %v\nmodel tags %v\ntable (order %d): %+v",
				host, qtype, got, m.outcomes, vfC06Keys(m.tags), i, orders[i])
		}
	}

	// Order independence: when no two equally ranked entries compete, every
	// order of the table gives the same result.
	if !m.orderAmbiguous() {
		for i := 1; i < len(gots); i++ {
			if gots[i].String() != gots[0].String() {
				t.Fatalf("order dependence: CheckHost(%q, %d) = %s with table %+v\nbut %s with the same entries "+
					"ordered %+v", host, qtype, gots[0], orders[0], gots[i], orders[i])
			}
		}
	}
}

func vfC06Keys(m map[string]bool) (ks []string) {
	for k := range m {
		ks = append(ks, k)
	}
	sort.Strings(ks)

	return ks
}

// vfC06Account records coverage of one (table, question) decision.
func vfC06Account(m *vfC06Model, tab []vfC06Entry, host string, qtype uint16, got vfC06Got) {
	s := vfC06
	s.Eval()
	for k := range m.tags {
		s.Class(k)
	}
	s.Class(fmt.Sprintf("hops:%d", min(m.maxHops, 6)))
	if m.viaWild {
		s.Class("chain_through_wildcard")
	}
	switch qtype {
	case vfC06TypeA:
		s.Class("qtype:A")
	case vfC06TypeAAAA:
		s.Class("qtype:AAAA")
	default:
		s.Class("qtype:other")
	}
	if len(m.outcomes) == 1 && !m.outcomes[0].AnySubset && m.outcomes[0].CanonIn == nil {
		s.Class("oracle:exact")
	} else {
		s.Class("oracle:validity_only")
	}
	if m.orderAmbiguous() {
		s.Class("table:ambiguous_for_question")
	}
	switch {
	case got.Pass:
		s.Class("result:pass")
	case len(got.IPs) > 0 && got.Canon != "":
		s.Class("result:cname_and_addresses")
	case len(got.IPs) > 0:
		s.Class("result:addresses")
	case got.Canon != "":
		s.Class("result:cname_only")
	default:
		s.Class("result:empty")
	}
	s.Class(fmt.Sprintf("table_size:%02d", len(tab)))

	nontrivial := m.maxHops > 0 || m.conflict || m.cycle
	if !nontrivial {
		return
	}
	s.Class("nontrivial")
	qc := "o"
	if qtype == vfC06TypeA {
		qc = "A"
	} else if qtype == vfC06TypeAAAA {
		qc = "6"
	}
	s.Nontrivial(qc + "|" + strings.Join(m.shape, ">") + "|" + strings.Join(vfC06Keys(m.tags), ",") + "|" + vfC06TableSig(tab))

	cls := "lookup"
	switch {
	case m.cycle:
		cls = "lookup_cycle"
	case m.viaWild:
		cls = "lookup_chain_through_wildcard"
	case m.maxHops > 1:
		cls = "lookup_chain"
	case m.conflict:
		cls = "lookup_precedence_conflict"
	}
	if s.WantSample(cls) {
		s.Sample(cls, map[string]any{
			"table": tab, "host": host, "qtype": qtype, "result": got, "model": m.outcomes, "tags": vfC06Keys(m.tags),
		})
	}
}

// TestVFC06Table: for generated tables and questions the result of CheckHost
// is the one the reference resolver derives from the documentation (exactly
// where the table is unambiguous, else within the stated validity predicates),
// for every order of the table, it always terminates and never panics.
func TestVFC06Table(t *testing.T) {
	vfkit.Begin(t)
	rapid.Check(t, func(t *rapid.T) {
		tab, pool, heads := vfC06DrawTable(t)
		mode := rapid.IntRange(0, 6).Draw(t, "build_mode")
		if mode >= 5 {
			vfC06.Class("build:inert_entries_in_configuration")
		}

		orders := [][]vfC06Entry{tab}
		nOrders := rapid.IntRange(1, 2).Draw(t, "extra_orders")
		if len(tab) < 2 {
			nOrders = 0
		}
		for i := 0; i < nOrders; i++ {
			orders = append(orders, rapid.Permutation(tab).Draw(t, fmt.Sprintf("order%d", i)))
		}

		dir, cleanup := vfC06TempDir(t)
		defer cleanup()
		filters := make([]*DNSFilter, len(orders))
		for i, o := range orders {
			filters[i] = vfC06Build(t, dir, o, mode)
			defer filters[i].Close()
		}

		nq := rapid.IntRange(1, 6).Draw(t, "questions")
		for i := 0; i < nq; i++ {
			host, qtype := vfC06DrawQuery(t, tab, pool, heads, i)
			vfC06CheckOne(t, tab, filters, orders, host, qtype, true)
		}
	})
}

// TestVFC06Cycles: tables that are one CNAME cycle of length 1-6 (exact and
// wildcard links), entered at every position and from a tail outside of the
// cycle: the lookup terminates, yields no address and does not depend on the
// order of the entries.
func TestVFC06Cycles(t *testing.T) {
	vfkit.Begin(t)
	rapid.Check(t, func(t *rapid.T) {
		n := rapid.IntRange(1, 6).Draw(t, "cycle_len")
		zone := rapid.SampledFrom(vfC06Zones).Draw(t, "zone")
		names := make([]string, n)
		for i := range names {
			names[i] = fmt.Sprintf("n%d.%s.%s", i, rapid.SampledFrom(vfC06Labels).Draw(t, fmt.Sprintf("l%d", i)), zone)
		}
		var tab []vfC06Entry
		for i := range names {
			pat := names[i]
			if rapid.IntRange(0, 3).Draw(t, fmt.Sprintf("wild%d", i)) == 0 {
				pat = vfC06WildcardOver(pat, 1)
			}
			tab = append(tab, vfC06Entry{Domain: pat, Answer: names[(i+1)%n]})
		}
		// a tail that leads into the cycle
		tailLen := rapid.IntRange(0, 3).Draw(t, "tail_len")
		entry := rapid.IntRange(0, n-1).Draw(t, "tail_enters_at")
		tail := make([]string, tailLen)
		for i := range tail {
			tail[i] = fmt.Sprintf("t%d.%s", i, zone)
		}
		for i := range tail {
			next := names[entry]
			if i+1 < tailLen {
				next = tail[i+1]
			}
			tab = append(tab, vfC06Entry{Domain: tail[i], Answer: next})
		}
		// addresses on cycle members must never surface
		if rapid.Bool().Draw(t, "addr_on_member") {
			tab = append(tab, vfC06Entry{Domain: names[rapid.IntRange(0, n-1).Draw(t, "addr_at")], Answer: "192.0.2.1"})
		}

		orders := [][]vfC06Entry{tab, rapid.Permutation(tab).Draw(t, "order")}
		dir, cleanup := vfC06TempDir(t)
		defer cleanup()
		filters := make([]*DNSFilter, len(orders))
		for i, o := range orders {
			filters[i] = vfC06Build(t, dir, o, 0)
			defer filters[i].Close()
		}

		for _, host := range append(append([]string{}, names...), tail...) {
			qtype := vfC06DrawQType(t, "qtype_"+host)
			vfC06CheckOne(t, tab, filters, orders, host, qtype, true)
			for i, got := range vfC06LookupAll(t, filters, orders, host, qtype) {
				if len(got.IPs) != 0 {
					t.Fatalf("lookup of %q in a pure CNAME cycle yields addresses %v; table %+v", host, got.IPs, orders[i])
				}
			}
		}
	})
}

// vfC06DocCase is one example of AGHTechDoc.md §Rewrites, transcribed.
type vfC06DocCase struct {
	name  string
	tab   []vfC06Entry
	host  string
	qtype uint16
	want  vfC06Outcome
}

var vfC06DocCases = []vfC06DocCase{
	{"A record, A", []vfC06Entry{{"host.com", "1.2.3.4"}}, "host.com", 1, vfC06Outcome{IPs: []string{"1.2.3.4"}}},
	{"A record, AAAA empty", []vfC06Entry{{"host.com", "1.2.3.4"}}, "host.com", 28, vfC06Outcome{}},
	{"AAAA record, A empty", []vfC06Entry{{"host.com", "::1"}}, "host.com", 1, vfC06Outcome{}},
	{"AAAA record, AAAA", []vfC06Entry{{"host.com", "::1"}}, "host.com", 28, vfC06Outcome{IPs: []string{"::1"}}},
	{"CNAME record", []vfC06Entry{{"sub.host.com", "host.com"}}, "sub.host.com", 1, vfC06Outcome{Canon: "host.com"}},
	{
		"CNAME+A, A", []vfC06Entry{{"sub.host.com", "host.com"}, {"host.com", "1.2.3.4"}}, "sub.host.com", 1,
		vfC06Outcome{Canon: "host.com", IPs: []string{"1.2.3.4"}},
	},
	{
		"CNAME+A, AAAA", []vfC06Entry{{"sub.host.com", "host.com"}, {"host.com", "1.2.3.4"}}, "sub.host.com", 28,
		vfC06Outcome{Canon: "host.com"},
	},
	{
		"wildcard + CNAME exception, my", []vfC06Entry{{"*.host.com", "1.2.3.4"}, {"pass.host.com", "pass.host.com"}},
		"my.host.com", 1, vfC06Outcome{IPs: []string{"1.2.3.4"}},
	},
	{
		"wildcard + CNAME exception, my AAAA", []vfC06Entry{{"*.host.com", "1.2.3.4"}, {"pass.host.com", "pass.host.com"}},
		"my.host.com", 28, vfC06Outcome{},
	},
	{
		"wildcard + CNAME exception, pass", []vfC06Entry{{"*.host.com", "1.2.3.4"}, {"pass.host.com", "pass.host.com"}},
		"pass.host.com", 1, vfC06Outcome{Pass: true},
	},
	{
		"wildcard + CNAME exception, pass AAAA", []vfC06Entry{{"*.host.com", "1.2.3.4"}, {"pass.host.com", "pass.host.com"}},
		"pass.host.com", 28, vfC06Outcome{Pass: true},
	},
	{
		"A with AAAA exception, A", []vfC06Entry{{"host.com", "1.2.3.4"}, {"host.com", "AAAA"}}, "host.com", 1,
		vfC06Outcome{IPs: []string{"1.2.3.4"}},
	},
	{
		"A with AAAA exception, AAAA", []vfC06Entry{{"host.com", "1.2.3.4"}, {"host.com", "AAAA"}}, "host.com", 28,
		vfC06Outcome{Pass: true},
	},
	{"pass A only, A", []vfC06Entry{{"host.com", "A"}}, "host.com", 1, vfC06Outcome{Pass: true}},
	{"pass A only, AAAA", []vfC06Entry{{"host.com", "A"}}, "host.com", 28, vfC06Outcome{}},
	{"unrelated name", []vfC06Entry{{"host.com", "1.2.3.4"}}, "other.com", 1, vfC06Outcome{Pass: true}},
	{"wildcard does not cover its apex", []vfC06Entry{{"*.host.com", "1.2.3.4"}}, "host.com", 1, vfC06Outcome{Pass: true}},
	{
		"exact shadows wildcard", []vfC06Entry{{"*.host.com", "1.2.3.4"}, {"a.host.com", "1.2.3.5"}}, "a.host.com", 1,
		vfC06Outcome{IPs: []string{"1.2.3.5"}},
	},
	{
		"most specific wildcard", []vfC06Entry{{"*.host.com", "1.2.3.4"}, {"*.sub.host.com", "1.2.3.5"}},
		"x.sub.host.com", 1, vfC06Outcome{IPs: []string{"1.2.3.5"}},
	},
	{
		"CNAME beats address", []vfC06Entry{{"host.com", "1.2.3.4"}, {"host.com", "other.com"}}, "host.com", 1,
		vfC06Outcome{Canon: "other.com"},
	},
}

// TestVFC06DocExamples: the examples of AGHTechDoc.md §Rewrites, transcribed by
// hand, hold for the reference model (guards the model) and for CheckHost, in
// both orders of each table.
func TestVFC06DocExamples(t *testing.T) {
	vfkit.Begin(t)
	for _, c := range vfC06DocCases {
		m := vfC06Resolve(c.tab, c.host, c.qtype)
		if len(m.outcomes) != 1 || m.outcomes[0].String() != c.want.String() {
			t.Fatalf("VERIF-INCONCLUSIVE reference model disagrees with the documentation example %q: model %v, "+
				"documented %v", c.name, m.outcomes, c.want)
		}

		rev := append([]vfC06Entry{}, c.tab...)
		for i, j := 0, len(rev)-1; i < j; i, j = i+1, j-1 {
			rev[i], rev[j] = rev[j], rev[i]
		}
		orders := [][]vfC06Entry{c.tab, rev}
		dir, cleanup := vfC06TempDir(t)
		filters := make([]*DNSFilter, len(orders))
		for i, o := range orders {
			filters[i] = vfC06Build(t, dir, o, i%2)
		}
		vfC06CheckOne(t, c.tab, filters, orders, c.host, c.qtype, true)
		for _, d := range filters {
			d.Close()
		}
		cleanup()
	}
}

// TestVFC06RegressWildcardOtherTypeException freezes the finding
// "wildcard-other-type-exception-order": the documented "A record with AAAA
// exception" pair written for a wildcard key answers A questions only when the
// address entry is listed before the exception.
func TestVFC06RegressWildcardOtherTypeException(t *testing.T) {
	vfkit.Begin(t)

	type tc struct {
		tab   []vfC06Entry
		host  string
		qtype uint16
		want  vfC06Outcome
	}
	cases := []tc{
		{[]vfC06Entry{{"*.example.com", "AAAA"}, {"*.example.com", "1.2.3.4"}}, "www.example.com", 1,
			vfC06Outcome{IPs: []string{"1.2.3.4"}}},
		{[]vfC06Entry{{"*.example.com", "1.2.3.4"}, {"*.example.com", "AAAA"}}, "www.example.com", 1,
			vfC06Outcome{IPs: []string{"1.2.3.4"}}},
		{[]vfC06Entry{{"*.example.com", "A"}, {"*.example.com", "::1"}}, "www.example.com", 28,
			vfC06Outcome{IPs: []string{"::1"}}},
		{[]vfC06Entry{{"*.example.com", "AAAA"}, {"*.example.com", "A"}}, "www.example.com", 1,
			vfC06Outcome{Pass: true}},
		{[]vfC06Entry{{"sub.example.org", "www.example.com"}, {"*.example.com", "AAAA"}, {"*.example.com", "1.2.3.4"}},
			"sub.example.org", 1, vfC06Outcome{Canon: "www.example.com", IPs: []string{"1.2.3.4"}}},
	}

	_, open := vfkit.KnownOpen("C06", vfC06SigOtherExc)
	for _, c := range cases {
		m := vfC06Resolve(c.tab, c.host, c.qtype)
		if !m.tags[vfC06ShapeOtherExc] {
			t.Fatalf("VERIF-INCONCLUSIVE the model does not recognise the shape in %+v", c.tab)
		}

		dir, cleanup := vfC06TempDir(t)
		d := vfC06Build(t, dir, c.tab, 0)
		got := vfC06Lookup(t, d, c.tab, c.host, c.qtype)
		d.Close()
		cleanup()
		vfC06.Eval()
		vfC06.Class("regress")
		if c.want.accepts(got) {
			continue
		}

		what := fmt.Sprintf("%s: CheckHost(%q, %d) = %s, want %s with table %+v (the entries of a wildcard are cut "+
			"to the first one, internal/filtering/rewrites.go findRewrites)", vfC06SigOtherExc, c.host, c.qtype, got,
			c.want, c.tab)
		if open {
			vfC06.KnownLine(what)

			return
		}
		t.Fatalf("%s", what)
	}
}
