//go:build verif

package filtering

// Reference model of the custom-rewrite table (property C06), written from
// AGHTechDoc.md §Rewrites and the property statement.  It never calls into the
// code under test.  Only the standard library is used.

import (
	"fmt"
	"net/netip"
	"sort"
	"strings"
)

// DNS question types used by the model (numeric values are from RFC 1035 /
// RFC 3596; the harness does not depend on the implementation's constants).
const (
	vfC06TypeA    uint16 = 1
	vfC06TypeAAAA uint16 = 28
)

// vfC06Entry is one line of the table as the administrator writes it.
type vfC06Entry struct {
	Domain string `json:"domain"`
	Answer string `json:"answer"`
}

type vfC06Kind int

const (
	vfC06IP4 vfC06Kind = iota
	vfC06IP6
	vfC06ExcA
	vfC06ExcAAAA
	vfC06CNAME
)

func (k vfC06Kind) letter() string { return [...]string{"4", "6", "xA", "x6", "C"}[k] }

// vfC06Parsed is an entry as the documentation reads it.
type vfC06Parsed struct {
	pat    string   // lower-cased pattern
	wild   bool     // pattern is "*.<suffix>"
	labels []string // labels of the exact name resp. of the suffix
	kind   vfC06Kind
	ip     string // canonical text of the address for IP kinds
	target string // canonical name for CNAME kind
}

// vfC06Parse classifies an entry: IPv4 address -> A, IPv6 address -> AAAA,
// "A"/"AAAA" -> exceptions, anything else -> canonical name.
func vfC06Parse(e vfC06Entry) (p vfC06Parsed) {
	p.pat = strings.TrimSuffix(strings.ToLower(e.Domain), ".")
	if strings.HasPrefix(p.pat, "*.") && len(p.pat) > 2 {
		p.wild = true
		p.labels = strings.Split(p.pat[2:], ".")
	} else {
		p.labels = strings.Split(p.pat, ".")
	}

	switch e.Answer {
	case "A":
		p.kind = vfC06ExcA

		return p
	case "AAAA":
		p.kind = vfC06ExcAAAA

		return p
	}

	if ip, err := netip.ParseAddr(e.Answer); err == nil {
		p.ip = ip.String()
		if ip.Is4() {
			p.kind = vfC06IP4
		} else {
			p.kind = vfC06IP6
		}

		return p
	}

	p.kind = vfC06CNAME
	// host names are case-insensitive, in answers as in patterns
	p.target = strings.TrimSuffix(strings.ToLower(e.Answer), ".")

	return p
}

// matches reports whether the pattern covers the (lower-case) host: an exact
// pattern covers only itself, "*.suffix" covers every name strictly below
// suffix, at any depth.
func (p *vfC06Parsed) matches(host []string) (ok bool) {
	n := len(p.labels)
	if p.wild {
		if len(host) <= n {
			return false
		}
		host = host[len(host)-n:]
	} else if len(host) != n {
		return false
	}

	for i := range host {
		if host[i] != p.labels[i] {
			return false
		}
	}

	return true
}

// vfC06Outcome is one acceptable observable result of a lookup.
type vfC06Outcome struct {
	// Pass: the lookup is not rewritten at all (goes on to the other filters
	// and then upstream under its own name).
	Pass bool `json:"pass,omitempty"`
	// Canon is the canonical name the rewritten answer carries ("" = none).
	Canon string `json:"canon,omitempty"`
	// CanonIn, when set, replaces Canon: any of these names is acceptable
	// (used only for CNAME cycles, whose outcome the documentation leaves open).
	CanonIn []string `json:"canon_in,omitempty"`
	// IPs is the exact set of addresses of the rewritten answer (sorted).
	IPs []string `json:"ips,omitempty"`
	// AnySubset: any non-empty subset of IPs is acceptable (ambiguous tables).
	AnySubset bool `json:"any_subset,omitempty"`
}

func (o vfC06Outcome) String() string {
	if o.Pass {
		return "PASS"
	}
	c := o.Canon
	if o.CanonIn != nil {
		c = "one of " + strings.Join(o.CanonIn, ",")
	}
	s := fmt.Sprintf("REWRITTEN canon=%q ips=%v", c, o.IPs)
	if o.AnySubset {
		s += " (any non-empty subset)"
	}

	return s
}

// vfC06Model is one run of the reference resolver.
type vfC06Model struct {
	tab   []vfC06Parsed
	qtype uint16
	orig  string

	outcomes []vfC06Outcome
	tags     map[string]bool
	shape    []string

	maxHops   int
	viaWild   bool // some CNAME hop was taken through a wildcard pattern
	conflict  bool
	cycle     bool
	finalName map[string]bool // names at which some branch ended
}

// vfC06ShapeOtherExc tags the lookups that meet the shape of the finding
// vfC06SigOtherExc.
const (
	vfC06ShapeOtherExc = "shape:wildcard_value_next_to_other_type_exception"
	vfC06SigOtherExc   = "wildcard-other-type-exception-order"
)

// Ambiguity tags that make the outcome depend on which of several equally
// ranked entries is used; the table is then "ambiguous" in the design's sense.
var vfC06OrderTags = []string{"ambiguous:cname_group", "ambiguous:wildcard_multi_ip", "ambiguous:ip_and_exception"}

func (m *vfC06Model) orderAmbiguous() (ok bool) {
	for _, tg := range vfC06OrderTags {
		if m.tags[tg] {
			return true
		}
	}

	return false
}

func (m *vfC06Model) add(o vfC06Outcome) {
	sort.Strings(o.IPs)
	for _, have := range m.outcomes {
		if have.String() == o.String() {
			return
		}
	}
	m.outcomes = append(m.outcomes, o)
}

// vfC06Resolve runs the reference resolver for (host, qtype) over the table.
func vfC06Resolve(tab []vfC06Entry, host string, qtype uint16) (m *vfC06Model) {
	m = &vfC06Model{
		qtype:     qtype,
		orig:      strings.ToLower(host),
		tags:      map[string]bool{},
		finalName: map[string]bool{},
	}
	for _, e := range tab {
		m.tab = append(m.tab, vfC06Parse(e))
	}
	m.step(m.orig, 0, nil)

	return m
}

// best returns the winning group among matching entries of one kind class:
// the exact-name entries if there are any, else the entries of the most
// specific (longest-suffix) wildcard.
func vfC06Best(es []*vfC06Parsed) (grp []*vfC06Parsed, levels int, exactAndWild bool) {
	depth := map[int]bool{}
	bestDepth := -1
	exact := false
	for _, e := range es {
		if !e.wild {
			exact = true

			continue
		}
		depth[len(e.labels)] = true
		if len(e.labels) > bestDepth {
			bestDepth = len(e.labels)
		}
	}
	for _, e := range es {
		if exact && !e.wild || !exact && e.wild && len(e.labels) == bestDepth {
			grp = append(grp, e)
		}
	}

	return grp, len(depth), exact && len(depth) > 0
}

// passish records the outcome of reaching a pass-through exception.
func (m *vfC06Model) passish(cur string, hops int) {
	m.finalName[cur] = true
	m.add(vfC06Outcome{Pass: true})
	if hops > 0 {
		// The documentation says the exception passes the request upstream; after
		// a CNAME hop that can be read as "the whole request" or "the canonical
		// name".  Both are accepted.
		m.tags["ambiguous:exception_after_hop"] = true
		m.add(vfC06Outcome{Canon: cur})
	}
}

func (m *vfC06Model) step(cur string, hops int, chain []string) {
	if hops > m.maxHops {
		m.maxHops = hops
	}
	hl := strings.Split(cur, ".")

	var matched, cn, addr []*vfC06Parsed
	var desc []string
	for i := range m.tab {
		e := &m.tab[i]
		if !e.matches(hl) {
			continue
		}
		matched = append(matched, e)
		if e.kind == vfC06CNAME {
			cn = append(cn, e)
		} else {
			addr = append(addr, e)
		}
		lv := "e"
		if e.wild {
			lv = fmt.Sprintf("w%d", len(hl)-len(e.labels))
		}
		desc = append(desc, lv+e.kind.letter())
	}
	sort.Strings(desc)
	m.shape = append(m.shape, fmt.Sprintf("h%d[%s]", hops, strings.Join(desc, " ")))

	canon := ""
	if hops > 0 {
		canon = cur
	}

	if len(matched) == 0 {
		m.finalName[cur] = true
		if hops == 0 {
			m.tags["terminal:unmatched"] = true
			m.add(vfC06Outcome{Pass: true})
		} else {
			// CNAME to a name the table does not know: resolved upstream.
			m.tags["terminal:cname_upstream"] = true
			m.add(vfC06Outcome{Canon: cur})
		}

		return
	}

	if len(cn) > 0 {
		// CNAME entries take precedence over address entries.
		if len(addr) > 0 {
			m.conflict = true
			m.tags["conflict:cname_vs_address"] = true
		}
		grp, levels, exactAndWild := vfC06Best(cn)
		if exactAndWild {
			m.conflict = true
			m.tags["conflict:exact_vs_wildcard_cname"] = true
		}
		if levels > 1 {
			m.conflict = true
			m.tags["conflict:wildcard_levels_cname"] = true
		}

		seen := map[string]bool{}
		var targets []string
		for _, e := range grp {
			if !seen[e.target] {
				seen[e.target] = true
				targets = append(targets, e.target)
			}
		}
		sort.Strings(targets)
		if len(targets) > 1 {
			m.tags["ambiguous:cname_group"] = true
		}
		if len(grp) > len(targets) {
			m.tags["duplicate:cname"] = true
		}

		pat, wild := grp[0].pat, grp[0].wild
		for _, a := range targets {
			switch {
			case a == pat || a == cur:
				// "name to itself": pass-through exception.
				m.tags["terminal:self_exception"] = true
				m.shape = append(m.shape, "self")
				m.passish(cur, hops)
			case a == m.orig || vfC06In(chain, a):
				// CNAME cycle.  The documentation only demands termination; no
				// address may be produced.
				m.cycle = true
				if a == m.orig {
					m.tags["cycle:through_queried_name"] = true
				} else {
					m.tags["cycle:not_through_queried_name"] = true
				}
				clen := 1
				for i := len(chain) - 1; i >= 0 && chain[i] != a; i-- {
					clen++
				}
				if a == m.orig {
					clen = len(chain) + 1
				}
				m.tags[fmt.Sprintf("cycle_len:%d", min(clen, 7))] = true
				m.shape = append(m.shape, fmt.Sprintf("cycle%d", clen))
				m.finalName[cur] = true
				m.add(vfC06Outcome{Pass: true})
				// Any name on the way may be reported as the canonical one.
				m.add(vfC06Outcome{CanonIn: append([]string{m.orig}, chain...)})
			default:
				if wild {
					m.viaWild = true
				}
				next := append(append([]string{}, chain...), a)
				m.step(a, hops+1, next)
			}
		}

		return
	}

	// Address stage.
	m.finalName[cur] = true
	isAddrQ := m.qtype == vfC06TypeA || m.qtype == vfC06TypeAAAA
	relevant := func(es []*vfC06Parsed) (out []*vfC06Parsed) {
		for _, e := range es {
			switch {
			case !isAddrQ:
				// no address entry has a value for other question types
			case e.kind == vfC06ExcA || e.kind == vfC06ExcAAAA:
				out = append(out, e)
			case e.kind == vfC06IP4 && m.qtype == vfC06TypeA, e.kind == vfC06IP6 && m.qtype == vfC06TypeAAAA:
				out = append(out, e)
			}
		}

		return out
	}

	// Reading 1: specificity is decided among the entries that have something
	// to say about the requested type.  Reading 2: it is decided among all
	// address entries, then the winners are filtered by type.  "Within one
	// kind" of the property text allows both.
	g1, lv1, ew1 := vfC06Best(relevant(addr))
	gAll, _, _ := vfC06Best(addr)
	g2 := relevant(gAll)
	if ew1 {
		m.conflict = true
		m.tags["conflict:exact_vs_wildcard_address"] = true
	}
	if lv1 > 1 {
		m.conflict = true
		m.tags["conflict:wildcard_levels_address"] = true
	}

	// Shape of the finding "wildcard-other-type-exception-order": the winning
	// wildcard holds something for the requested type next to the exception of
	// the other type.
	if len(g1) > 1 && g1[0].wild {
		own, other := false, false
		for _, e := range g1 {
			switch {
			case e.kind == vfC06ExcA && m.qtype == vfC06TypeAAAA, e.kind == vfC06ExcAAAA && m.qtype == vfC06TypeA:
				other = true
			default:
				own = true
			}
		}
		if own && other {
			m.tags[vfC06ShapeOtherExc] = true
		}
	}

	o1 := m.evalGroup(g1, canon, true)
	o2 := m.evalGroup(g2, canon, false)
	same := len(o1) == len(o2)
	for i := 0; same && i < len(o1); i++ {
		same = o1[i].String() == o2[i].String()
	}
	if !same {
		m.tags["ambiguous:family_shadow"] = true
	}
	for _, o := range append(o1, o2...) {
		if o.Pass {
			m.passish(cur, hops)
		} else {
			m.add(o)
		}
	}
}

// evalGroup turns the winning address group into outcomes.
func (m *vfC06Model) evalGroup(g []*vfC06Parsed, canon string, tag bool) (out []vfC06Outcome) {
	tags := m.tags
	if !tag {
		// Second reading: keep only the ambiguity tags.
		tags = map[string]bool{}
		defer func() {
			for k := range tags {
				if strings.HasPrefix(k, "ambiguous:") {
					m.tags[k] = true
				}
			}
		}()
	}

	var ips []string
	seen := map[string]bool{}
	exc := false
	nIP := 0
	for _, e := range g {
		switch {
		case e.kind == vfC06ExcA && m.qtype == vfC06TypeA, e.kind == vfC06ExcAAAA && m.qtype == vfC06TypeAAAA:
			exc = true
		case e.kind == vfC06IP4 && m.qtype == vfC06TypeA, e.kind == vfC06IP6 && m.qtype == vfC06TypeAAAA:
			nIP++
			if !seen[e.ip] {
				seen[e.ip] = true
				ips = append(ips, e.ip)
			}
		}
	}
	sort.Strings(ips)
	if nIP > len(ips) {
		tags["duplicate:address"] = true
	}

	switch {
	case exc && len(ips) > 0:
		// Contradictory table: a value and a pass-through exception for the
		// same name and type.  Not decided by the documentation.
		tags["ambiguous:ip_and_exception"] = true
		tags["terminal:type_exception"] = true

		return []vfC06Outcome{{Pass: true}, {Canon: canon, IPs: ips, AnySubset: true}}
	case exc:
		tags["terminal:type_exception"] = true

		return []vfC06Outcome{{Pass: true}}
	case len(ips) > 0:
		tags["terminal:addresses"] = true
		if len(g) > 0 && g[0].wild && len(ips) > 1 {
			// Several values under one wildcard pattern: which of them is used
			// is not documented (DESIGN §3.3).
			tags["ambiguous:wildcard_multi_ip"] = true

			return []vfC06Outcome{{Canon: canon, IPs: ips, AnySubset: true}}
		}

		return []vfC06Outcome{{Canon: canon, IPs: ips}}
	default:
		// Matched by the table, no value for the requested type.
		if canon == "" {
			tags["terminal:matched_no_value"] = true
		} else {
			tags["terminal:cname_then_no_value"] = true
		}

		return []vfC06Outcome{{Canon: canon}}
	}
}

func vfC06In(ss []string, s string) (ok bool) {
	for _, x := range ss {
		if x == s {
			return true
		}
	}

	return false
}

// vfC06Got is the observable part of a filtering result.
type vfC06Got struct {
	Pass  bool     `json:"pass,omitempty"`
	Canon string   `json:"canon,omitempty"`
	IPs   []string `json:"ips,omitempty"`
}

func (g vfC06Got) String() string {
	if g.Pass {
		return "PASS"
	}

	return fmt.Sprintf("REWRITTEN canon=%q ips=%v", g.Canon, g.IPs)
}

// accepts reports whether the observed result is the outcome o.
func (o vfC06Outcome) accepts(g vfC06Got) (ok bool) {
	if o.Pass || g.Pass {
		return o.Pass && g.Pass
	}
	if o.CanonIn != nil {
		if !vfC06In(o.CanonIn, g.Canon) {
			return false
		}
	} else if o.Canon != g.Canon {
		return false
	}
	if o.AnySubset {
		if len(g.IPs) == 0 {
			return false
		}
		for _, ip := range g.IPs {
			if !vfC06In(o.IPs, ip) {
				return false
			}
		}

		return true
	}
	if len(o.IPs) != len(g.IPs) {
		return false
	}
	for i := range o.IPs {
		if o.IPs[i] != g.IPs[i] {
			return false
		}
	}

	return true
}

// vfC06TableAddrs returns the addresses of the requested family that the table
// holds for name (entries whose pattern covers name).
func vfC06TableAddrs(tab []vfC06Entry, name string, qtype uint16) (set map[string]bool) {
	set = map[string]bool{}
	hl := strings.Split(strings.ToLower(name), ".")
	for _, e := range tab {
		p := vfC06Parse(e)
		if !p.matches(hl) {
			continue
		}
		if p.kind == vfC06IP4 && qtype == vfC06TypeA || p.kind == vfC06IP6 && qtype == vfC06TypeAAAA {
			set[p.ip] = true
		}
	}

	return set
}

// vfC06TableSig is the shape of a table: sorted multiset of (pattern form,
// answer kind).
func vfC06TableSig(tab []vfC06Entry) (sig string) {
	var parts []string
	for _, e := range tab {
		p := vfC06Parse(e)
		f := "e"
		if p.wild {
			f = "w"
		}
		k := p.kind.letter()
		if p.kind == vfC06CNAME && p.target == p.pat {
			k = "S"
		}
		parts = append(parts, fmt.Sprintf("%s%d%s", f, len(p.labels), k))
	}
	sort.Strings(parts)

	return strings.Join(parts, ",")
}
