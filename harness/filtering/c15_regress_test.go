//go:build verif

package filtering

// Property C15: frozen minimal cases (plain tests, no generator).

import (
	"fmt"
	"testing"

	"github.com/AdguardTeam/AdGuardHome/internal/vfkit"
)

// vfC15Abort carries a failure out of a scripted scenario.
type vfC15Abort struct{ msg string }

type vfC15Recorder struct{}

func (vfC15Recorder) Fatalf(format string, args ...any) {
	panic(vfC15Abort{msg: fmt.Sprintf(format, args...)})
}

// vfC15Try runs a scripted scenario and returns its first failure, if any.
func vfC15Try(f func(tb vfC15TB)) (failure string) {
	defer func() {
		if r := recover(); r != nil {
			a, ok := r.(vfC15Abort)
			if !ok {
				panic(r)
			}
			failure = a.msg
		}
	}()

	f(vfC15Recorder{})

	return ""
}

// vfC15Scripted returns a source behaviour for l: the complete list holding
// the probe rule of version ver (status 200), or the given error status with
// the same body.
func vfC15Scripted(l *vfC15List, ver, status int) (a *vfC15Act) {
	if ver > l.Ver {
		l.Ver = ver
	}
	a = &vfC15Act{Kind: "ok", Variant: "fresh", Ver: ver, Body: []byte("||" + l.probeHost(ver) + "^\n")}
	if status != 200 {
		a.Kind, a.Status = "status", status
	}

	return a
}

// TestVFC15RegressOtherKindAllFailed: one block list and one allow list are
// refreshed together (as the scheduled refresh does).
//
//  1. both deliver version 1: both come into force;
//  2. the block list answers 404, the allow list delivers version 2: the allow
//     list's file and rules_count are those of version 2 - and so must be its
//     rules in force;
//  3. the block list delivers version 2, the allow list answers 404: the allow
//     list's refresh failed, so its rules in force must stay as they were.
//
// On the unchanged tree step 2 leaves version 1 of the allow list in force
// (refreshFiltersIntl returns before rebuilding the engines because every
// block list failed), and step 3 then changes the allow list's rules in force
// during a refresh in which the allow list itself failed.
func TestVFC15RegressOtherKindAllFailed(t *testing.T) {
	vfkit.Begin(t)
	vfC15Quiet()

	var w *vfC15World
	defer func() {
		if w != nil {
			w.close()
		}
	}()

	failure := vfC15Try(func(tb vfC15TB) {
		w = vfC15NewWorld(tb, []vfC15Spec{{Allow: false}, {Allow: true}})
		w.verify(tb)
		blk, alw := w.lists[0], w.lists[1]
		both := func(ba, aa *vfC15Act) *vfC15Plan {
			return &vfC15Plan{
				How: "direct", Block: true, Allow: true, Force: true,
				Due:  map[int]bool{blk.Idx: true, alw.Idx: true},
				Acts: map[int]*vfC15Act{blk.Idx: ba, alw.Idx: aa},
			}
		}

		w.run(tb, both(vfC15Scripted(blk, 1, 200), vfC15Scripted(alw, 1, 200)))
		w.verify(tb)
		w.run(tb, both(vfC15Scripted(blk, 2, 404), vfC15Scripted(alw, 2, 200)))
		w.verify(tb)
		w.run(tb, both(vfC15Scripted(blk, 2, 200), vfC15Scripted(alw, 3, 404)))
		w.verify(tb)
	})
	if failure == "" {
		return
	}

	if _, open := vfkit.KnownOpen("C15", vfC15SigStale); open {
		vfC15.KnownLine("signature=" + vfC15SigStale + " a list replaced by a refresh in which every list of the other kind " +
			"failed does not come into force (engines are not rebuilt)")

		return
	}

	t.Fatalf("%s", failure)
}

// TestVFC15RegressFirstRefreshOtherKindFailed is the case the generator
// shrinks the same finding to: on the very first refresh of both kinds the only
// block list is stored successfully while the only allow list answers 404; the
// block list's rules must be in force afterwards.
func TestVFC15RegressFirstRefreshOtherKindFailed(t *testing.T) {
	vfkit.Begin(t)
	vfC15Quiet()

	var w *vfC15World
	defer func() {
		if w != nil {
			w.close()
		}
	}()

	failure := vfC15Try(func(tb vfC15TB) {
		w = vfC15NewWorld(tb, []vfC15Spec{{Allow: false}, {Allow: true}})
		w.verify(tb)
		blk, alw := w.lists[0], w.lists[1]
		w.run(tb, &vfC15Plan{
			How: "direct", Block: true, Allow: true, Force: false,
			Due:  map[int]bool{blk.Idx: true, alw.Idx: true},
			Acts: map[int]*vfC15Act{blk.Idx: vfC15Scripted(blk, 1, 200), alw.Idx: vfC15Scripted(alw, 1, 404)},
		})
		w.verify(tb)
	})
	if failure == "" {
		return
	}

	if _, open := vfkit.KnownOpen("C15", vfC15SigStale); open {
		vfC15.KnownLine("signature=" + vfC15SigStale + " first scheduled refresh: block list stored, allow list 404, " +
			"block list not in force")

		return
	}

	t.Fatalf("%s", failure)
}

// TestVFC15RegressSameKindMixed is the control of the above: the failing and
// the succeeding list are of the same kind; the new form must be in force and
// the failed list untouched.
func TestVFC15RegressSameKindMixed(t *testing.T) {
	vfkit.Begin(t)
	vfC15Quiet()

	var w *vfC15World
	defer func() {
		if w != nil {
			w.close()
		}
	}()

	failure := vfC15Try(func(tb vfC15TB) {
		w = vfC15NewWorld(tb, []vfC15Spec{{Allow: false}, {Allow: false}})
		w.verify(tb)
		l1, l2 := w.lists[0], w.lists[1]
		plan := func(a1, a2 *vfC15Act) *vfC15Plan {
			return &vfC15Plan{
				How: "api", Block: true, Allow: false, Force: true,
				Due:  map[int]bool{l1.Idx: true, l2.Idx: true},
				Acts: map[int]*vfC15Act{l1.Idx: a1, l2.Idx: a2},
			}
		}

		w.run(tb, plan(vfC15Scripted(l1, 1, 200), vfC15Scripted(l2, 1, 200)))
		w.verify(tb)
		w.run(tb, plan(vfC15Scripted(l1, 2, 500), vfC15Scripted(l2, 2, 200)))
		w.verify(tb)
		w.run(tb, plan(vfC15Scripted(l1, 3, 200), vfC15Scripted(l2, 3, 404)))
		w.verify(tb)
	})
	if failure != "" {
		t.Fatalf("%s", failure)
	}
}
