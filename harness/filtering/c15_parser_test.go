//go:build verif

package filtering

// Property C15, parser part: rulelist.Parser.Parse over generated list texts,
// compared with the reference classifier of c15_model_test.go, plus the
// fixed-point (round-trip) oracle on its own output.  The tests live in package
// filtering (which imports rulelist) so that one binary covers the parser and
// the refresh path.

import (
	"bytes"
	"fmt"
	"hash/fnv"
	"io"
	stdlog "log"
	"runtime/debug"
	"strings"
	"sync"
	"testing"

	"github.com/AdguardTeam/AdGuardHome/internal/filtering/rulelist"
	"github.com/AdguardTeam/AdGuardHome/internal/vfkit"
	"github.com/AdguardTeam/golibs/log"
	"pgregory.net/rapid"
)

var vfC15 = vfkit.For("C15")

var vfC15QuietOnce sync.Once

func vfC15Quiet() {
	vfC15QuietOnce.Do(func() {
		log.SetOutput(io.Discard)
		stdlog.SetOutput(io.Discard)
	})
}

// ---- text generator ----

var vfC15Hosts = []string{
	"a.test", "ads.example", "cdn.x1.test", "www.example.org", "b.co.uk", "xn--e1afmkfd.test",
	"пример.test", "tracker.example.com", "x1.a.test",
}

func vfC15DrawRule(t *rapid.T, label string) string {
	h := rapid.SampledFrom(vfC15Hosts).Draw(t, label+"_host")
	switch rapid.IntRange(0, 16).Draw(t, label+"_rule") {
	case 16:
		// the header line of lists put together from several lists: neither
		// comment nor blank, so it counts -- wherever it stands
		return rapid.SampledFrom([]string{"[Adblock Plus 2.0]", "[Adblock Plus 3.1]", "[Adblock]"}).Draw(t, label+"_header")
	case 0, 1, 2:
		return "||" + h + "^"
	case 3:
		return "@@||" + h + "^"
	case 4:
		return "0.0.0.0 " + h
	case 5:
		return h
	case 6:
		return "||" + h + "^$important"
	case 7:
		return "/ads[0-9]+/"
	case 8:
		return "127.0.0.1\t" + h
	case 9:
		return "||" + h + "^$dnsrewrite=192.0.2.1"
	case 10:
		return h + "#@#.ad-banner"
	case 11:
		return "a\rb." + h
	case 12:
		return h + " # trailing comment"
	case 13:
		return "||caf\xe9." + h + "^"
	case 14:
		return rapid.SampledFrom([]string{"x<html>", "<htm>", "<!-- c -->", "<!doc", "<", "<htmlx"}).Draw(t, label+"_lt")
	default:
		return h + "##.ad\u200c"
	}
}

var (
	vfC15Pads = []string{
		" ", "\t", "  \t", "\r", " \r", "\u00a0", "\u2003", "\v", "\f", "\u0085", "\ufeff", "\u3000 ", "\xa0", "\xc2",
		"\u2028", "\u200b",
	}
	vfC15Blanks   = []string{"", "", " ", "\t", " \t ", "\r", "\u00a0", "\v", " \f", "\u2003 "}
	vfC15Comments = []string{
		"# comment", "! comment", "  # indented", "\t! indented", "#", "!", "!Title: no space", "# Title: hash",
		"! Title:", "!  Title: two spaces", "#||a.test^", "!||a.test^", "! Homepage: https://example.org/",
		"! c\x01trl", "#\x00", "# esc \x1b[0m", "! \x7f", "#\v", "\u00a0# nbsp comment", "! <html>",
	}
	vfC15CtlBytes = []byte{0x00, 0x01, 0x07, 0x08, 0x0b, 0x0c, 0x0e, 0x1a, 0x1b, 0x1f, 0x7f}
	// vfC15PlainCtlBytes are control bytes that are not white space.
	vfC15PlainCtlBytes = []byte{0x00, 0x01, 0x07, 0x08, 0x0e, 0x1a, 0x1b, 0x1f, 0x7f}
	vfC15HTML          = []string{
		"<html>", "<!DOCTYPE html>", "<HTML lang=\"en\">", "  <!doctype html>", "<!DocType HTML PUBLIC \"-//W3C//DTD\">",
		"\t<html><head><title>404 Not Found</title></head>", "<hTmL", "<!doctype",
	}
	vfC15Terms    = []string{"\n", "\n", "\n", "\n", "\n", "\n", "\r\n", "\r\n", "\r", "\n\r", "\r\r\n"}
	vfC15Binaries = []string{
		"\x1f\x8b\x08\x00\x00\x00\x00\x00\x00\x03\xcb\x48\xcd\xc9\xc9\x07\x00", "\x89PNG\r\n\x1a\n\x00\x00\x00\rIHDR",
		"\x7fELF\x02\x01\x01\x00", "PK\x03\x04\x14\x00", "\x00\x00\x00\x00", "\xff\xfe|\x00|\x00a\x00\n\x00",
	}
)

// vfC15DrawLine draws one logical line (without terminator) and its kind.
func vfC15DrawLine(t *rapid.T, label string, n *int, exotic bool) (line, kind string) {
	pads, blanks, comments, ctls := vfC15Pads, vfC15Blanks, vfC15Comments, vfC15CtlBytes
	if !exotic {
		// Only shapes every reading of the statement agrees on.
		pads, blanks, comments, ctls = vfC15Pads[:5], vfC15Blanks[:6], vfC15Comments[:13], vfC15PlainCtlBytes
	}

	switch k := rapid.IntRange(0, 99).Draw(t, label+"_kind"); {
	case k < 40:
		return vfC15DrawRule(t, label), "rule"
	case k < 52:
		l := vfC15DrawRule(t, label)
		side := rapid.IntRange(1, 3).Draw(t, label+"_side")
		if side&1 != 0 {
			l = rapid.SampledFrom(pads).Draw(t, label+"_lpad") + l
		}
		if side&2 != 0 {
			l += rapid.SampledFrom(pads).Draw(t, label+"_rpad")
		}

		return l, "padded"
	case k < 62:
		return rapid.SampledFrom(blanks).Draw(t, label+"_blank"), "blank"
	case k < 78:
		if rapid.IntRange(0, 3).Draw(t, label+"_title") == 0 {
			*n++
			pad := rapid.SampledFrom([]string{"", " ", "  ", "\t"}).Draw(t, label+"_tpad")

			return fmt.Sprintf("%s! Title: %sList %d%s", pad, pad, *n, pad), "title"
		}

		return rapid.SampledFrom(comments).Draw(t, label+"_comment"), "comment"
	case k < 84:
		l := []byte(vfC15DrawRule(t, label))
		c := rapid.SampledFrom(ctls).Draw(t, label+"_ctl")
		var pos int
		switch rapid.IntRange(0, 2).Draw(t, label+"_ctlpos") {
		case 0:
			pos = 0
		case 1:
			pos = len(l)
		default:
			pos = rapid.IntRange(0, len(l)).Draw(t, label+"_ctlat")
		}
		l = append(l[:pos:pos], append([]byte{c}, l[pos:]...)...)

		return string(l), "ctl"
	case k < 90:
		return rapid.SampledFrom(vfC15HTML).Draw(t, label+"_html"), "html"
	case k < 95:
		ln := rapid.SampledFrom([]int{1000, 1022, 1023, 1024, 1025, 2048, 4094, 4095, 4096, 4097, 5000}).Draw(t, label+"_len")
		pre := rapid.SampledFrom([]string{"||", "# ", "  ", "! Title: ", ""}).Draw(t, label+"_longpre")
		if ln < len(pre) {
			ln = len(pre)
		}

		return pre + strings.Repeat("a", ln-len(pre)), "longish"
	case k < 97:
		return rapid.SampledFrom(vfC15Binaries).Draw(t, label+"_bin"), "binary"
	default:
		return string(rapid.SliceOfN(rapid.Byte(), 0, 24).Draw(t, label+"_bytes")), "bytes"
	}
}

// vfC15DrawText draws a whole list text and the kinds of things in it.
func vfC15DrawText(t *rapid.T) (text []byte, kinds map[string]int) {
	kinds = map[string]int{}
	titles := 0
	buf := &bytes.Buffer{}

	shape := rapid.IntRange(0, 99).Draw(t, "shape")
	switch {
	case shape >= 97:
		kinds["doc:empty"]++
		buf.WriteString(rapid.SampledFrom([]string{"", "\n", " ", "\r\n\r\n", "\ufeff", "\t\n \n"}).Draw(t, "empty"))

		return buf.Bytes(), kinds
	case shape >= 93:
		kinds["doc:binary"]++
		buf.WriteString(rapid.SampledFrom(vfC15Binaries).Draw(t, "blob"))
		buf.Write(rapid.SliceOfN(rapid.Byte(), 0, 200).Draw(t, "blob_tail"))

		return buf.Bytes(), kinds
	}

	// Exotic texts also use Unicode white space, VT/FF, control bytes in
	// comments and a byte-order mark, on which the statement is silent.
	exotic := rapid.IntRange(0, 9).Draw(t, "exotic") >= 7
	if exotic {
		kinds["exotic"]++
	}
	if exotic && rapid.IntRange(0, 4).Draw(t, "bom") == 4 {
		kinds["bom"]++
		buf.WriteString("\xef\xbb\xbf")
	}

	if shape >= 83 {
		// An HTML page, possibly after blank lines and comments.
		kinds["doc:html"]++
		for i, n := 0, rapid.IntRange(0, 3).Draw(t, "html_pre"); i < n; i++ {
			if rapid.Bool().Draw(t, fmt.Sprintf("html_pre%d_blank", i)) {
				buf.WriteString(rapid.SampledFrom(vfC15Blanks[:6]).Draw(t, fmt.Sprintf("html_pre%d_b", i)))
			} else {
				buf.WriteString(rapid.SampledFrom(vfC15Comments[:13]).Draw(t, fmt.Sprintf("html_pre%d_c", i)))
			}
			buf.WriteString(rapid.SampledFrom(vfC15Terms).Draw(t, fmt.Sprintf("html_pre%d_t", i)))
		}
		buf.WriteString(rapid.SampledFrom(vfC15HTML).Draw(t, "html_first"))
		buf.WriteString(rapid.SampledFrom(vfC15Terms).Draw(t, "html_first_t"))
		buf.WriteString("<head><title>Error</title></head>\n<body>\n||a.test^\n</body></html>\n")

		return buf.Bytes(), kinds
	}

	n := rapid.IntRange(0, 24).Draw(t, "lines")
	if n == 0 {
		kinds["doc:no_lines"]++
	}
	for i := 0; i < n; i++ {
		label := fmt.Sprintf("l%d", i)
		line, kind := vfC15DrawLine(t, label, &titles, exotic)
		kinds[kind]++
		buf.WriteString(line)
		term := rapid.SampledFrom(vfC15Terms).Draw(t, label+"_term")
		if i == n-1 && rapid.IntRange(0, 2).Draw(t, "no_final_newline") == 0 {
			term = ""
			kinds["no_final_newline"]++
		}
		if term != "\n" && term != "" {
			kinds["term:"+fmt.Sprintf("%q", term)]++
		}
		buf.WriteString(term)
	}

	text = buf.Bytes()
	if shape >= 70 && len(text) > 0 {
		// Cut the text at an arbitrary byte, as a short transfer would.
		kinds["doc:cut"]++
		text = text[:rapid.IntRange(0, len(text)).Draw(t, "cut")]
	}

	return text, kinds
}

// ---- running the parser ----

// vfC15ChunkReader hands out data in pieces of the given sizes (cycled); if
// eofWithData is set the last piece comes together with io.EOF.
type vfC15ChunkReader struct {
	data        []byte
	sizes       []int
	i           int
	eofWithData bool
}

func (r *vfC15ChunkReader) Read(p []byte) (n int, err error) {
	if len(r.data) == 0 {
		return 0, io.EOF
	}

	sz := r.sizes[r.i%len(r.sizes)]
	r.i++
	sz = min(sz, len(p), len(r.data))
	n = copy(p, r.data[:sz])
	r.data = r.data[n:]
	if len(r.data) == 0 && r.eofWithData {
		err = io.EOF
	}

	return n, err
}

type vfC15ParseOut struct {
	Dst      []byte
	Res      *rulelist.ParseResult
	Err      error
	Panicked string
}

func vfC15RunParser(text []byte, bufLen int, sizes []int, eofWithData bool) (o vfC15ParseOut) {
	defer func() {
		if r := recover(); r != nil {
			o.Panicked = fmt.Sprintf("%v\n%s", r, debug.Stack())
		}
	}()

	dst := &bytes.Buffer{}
	src := &vfC15ChunkReader{data: bytes.Clone(text), sizes: sizes, eofWithData: eofWithData}
	o.Res, o.Err = rulelist.NewParser().Parse(dst, src, make([]byte, bufLen))
	o.Dst = dst.Bytes()

	return o
}

func vfC15Short(b []byte) string {
	if len(b) > 300 {
		return fmt.Sprintf("%q...(%d bytes)...%q", b[:120], len(b), b[len(b)-120:])
	}

	return fmt.Sprintf("%q", b)
}

// vfC15CheckParse asserts everything the parser part states about one text.
func vfC15CheckParse(t *rapid.T, text []byte, o vfC15ParseOut, exps []vfC15Expect, what string) (matched vfC15Expect) {
	if o.Panicked != "" {
		t.Fatalf("%s: panic: %s", what, o.Panicked)
	}
	if o.Res == nil {
		t.Fatalf("%s: Parse returned a nil result (documented: never nil); err=%v", what, o.Err)
	}

	found := false
	for _, e := range exps {
		if e.Err == (o.Err != nil) && e.Count == o.Res.RulesCount && bytes.Equal(e.Norm, o.Dst) {
			matched, found = e, true

			break
		}
	}
	if !found {
		e := exps[0]
		t.Fatalf("%s: text %s\n got: err=%v count=%d written=%s\nwant: rejected=%v (line %d) count=%d normal form=%s\n(%d readings of the statement tried)",
			what, vfC15Short(text), o.Err, o.Res.RulesCount, vfC15Short(o.Dst),
			e.Err, e.ErrLine, e.Count, vfC15Short(e.Norm), len(exps))
	}

	if o.Res.BytesWritten != len(o.Dst) {
		t.Fatalf("%s: BytesWritten=%d but %d bytes were written; text %s", what, o.Res.BytesWritten, len(o.Dst), vfC15Short(text))
	}
	if o.Res.Checksum != matched.CRCLines && o.Res.Checksum != matched.CRCNorm {
		t.Fatalf("%s: checksum %08x is neither CRC-32 of the rule lines (%08x) nor of the normal form (%08x); text %s",
			what, o.Res.Checksum, matched.CRCLines, matched.CRCNorm, vfC15Short(text))
	}
	if why := vfC15IsNormalForm(o.Dst); why != "" {
		t.Fatalf("%s: output is not in normal form (%s): %s from text %s", what, why, vfC15Short(o.Dst), vfC15Short(text))
	}

	return matched
}

// vfC15CheckFixedPoint re-parses an accepted output: same bytes, count,
// checksum, no error.
func vfC15CheckFixedPoint(t *rapid.T, text []byte, o vfC15ParseOut, bufLen int, sizes []int) {
	again := vfC15RunParser(o.Dst, bufLen, sizes, false)
	if again.Panicked != "" {
		t.Fatalf("re-parse of the normal form panicked: %s", again.Panicked)
	}
	if again.Err != nil {
		t.Fatalf("re-parse of the normal form %s (from text %s) is rejected: %v", vfC15Short(o.Dst), vfC15Short(text), again.Err)
	}
	if !bytes.Equal(again.Dst, o.Dst) {
		t.Fatalf("normal form is not a fixed point: %s re-parses to %s (text %s)", vfC15Short(o.Dst), vfC15Short(again.Dst), vfC15Short(text))
	}
	if again.Res.RulesCount != o.Res.RulesCount || again.Res.Checksum != o.Res.Checksum {
		t.Fatalf("re-parse of the normal form gives count=%d checksum=%08x, first parse count=%d checksum=%08x (text %s)",
			again.Res.RulesCount, again.Res.Checksum, o.Res.RulesCount, o.Res.Checksum, vfC15Short(text))
	}
}

func vfC15DrawIO(t *rapid.T, label string) (bufLen int, sizes []int, eofWithData bool) {
	bufLen = rapid.SampledFrom([]int{rulelist.DefaultRuleBufSize, rulelist.DefaultRuleBufSize, 1, 16, 512, 4096, 8192}).Draw(t, label+"_buf")
	sizes = rapid.SliceOfN(rapid.SampledFrom([]int{1, 2, 3, 7, 64, 511, 512, 1024, 4096, 65536, 1 << 20}), 1, 4).Draw(t, label+"_chunks")
	eofWithData = rapid.Bool().Draw(t, label+"_eof_with_data")

	return bufLen, sizes, eofWithData
}

func vfC15TextKey(text []byte) string {
	h := fnv.New64a()
	_, _ = h.Write(text)

	return fmt.Sprintf("parser|%d|%016x", len(text), h.Sum64())
}

// vfC15ParserCase runs the whole parser oracle on one text.
func vfC15ParserCase(t *rapid.T, text []byte, kinds map[string]int) {
	s := vfC15
	s.Eval()

	exps := vfC15Expectations(text)
	base := exps[0]

	// Production conditions (buffer of the default size, plain reader), then a
	// drawn buffer size and read chunking: the result must not depend on them.
	prod := vfC15RunParser(text, rulelist.DefaultRuleBufSize, []int{1 << 20}, false)
	matched := vfC15CheckParse(t, text, prod, exps, "parse")

	bufLen, sizes, eofWithData := vfC15DrawIO(t, "io")
	other := vfC15RunParser(text, bufLen, sizes, eofWithData)
	om := vfC15CheckParse(t, text, other, exps, fmt.Sprintf("parse(buf=%d chunks=%v eofWithData=%v)", bufLen, sizes, eofWithData))
	if vfC15Relevant(text)&vfC15PolLongOK == 0 {
		// (For a line at or over the token limit the outcome is left open, and
		// may then depend on how the bytes arrive.)
		if om.Err != matched.Err || !bytes.Equal(om.Norm, matched.Norm) || other.Res.Checksum != prod.Res.Checksum {
			t.Fatalf("result depends on buffer size / read chunking (buf=%d chunks=%v): %s count=%d err=%v vs %s count=%d err=%v; text %s",
				bufLen, sizes, vfC15Short(other.Dst), other.Res.RulesCount, other.Err,
				vfC15Short(prod.Dst), prod.Res.RulesCount, prod.Err, vfC15Short(text))
		}
	}

	if prod.Err == nil {
		vfC15CheckFixedPoint(t, text, prod, bufLen, sizes)
		// The reference is a fixed point too (guards the model itself).
		if again := vfC15Parse(matched.Norm, matched.Policy&^vfC15PolBOMStrip); again.Err || !bytes.Equal(again.Norm, matched.Norm) {
			t.Fatalf("VERIF-INCONCLUSIVE reference model is not idempotent on %s", vfC15Short(matched.Norm))
		}
	}

	// Coverage.
	for k := range kinds {
		s.Class("parser:has:" + k)
	}
	if len(exps) > 1 {
		s.Class("parser:ambiguous")
		if s.WantSample("parser:ambiguous") {
			s.Sample("parser:ambiguous", map[string]any{"text": string(vfC15Short(text)), "readings": len(exps)})
		}
	}
	switch {
	case base.Err && base.Count > 0:
		s.Class("parser:rejected_after_rules")
	case base.Err:
		s.Class("parser:rejected_at_start")
	case base.Count == 0:
		s.Class("parser:accepted_empty")
	default:
		s.Class("parser:accepted")
	}
	if !bytes.Equal(base.Norm, text) && base.Count > 0 {
		s.Class("parser:nontrivial")
		s.Nontrivial(vfC15TextKey(text))
		class := "parser:accepted_nontrivial"
		if base.Err {
			class = "parser:rejected_nontrivial"
		}
		if s.WantSample(class) {
			s.Sample(class, map[string]any{
				"text": vfC15Short(text), "normal_form": vfC15Short(base.Norm), "rules": base.Count, "rejected_line": base.ErrLine,
			})
		}
	}
}

// TestVFC15Parser: generated list texts of ordinary line lengths.
func TestVFC15Parser(t *testing.T) {
	vfkit.Begin(t)
	vfC15Quiet()

	rapid.Check(t, func(t *rapid.T) {
		text, kinds := vfC15DrawText(t)
		vfC15ParserCase(t, text, kinds)
	})
}

// TestVFC15ParserAfterManyRules: the same generated texts behind hundreds or
// thousands of ordinary rules: what the parser does with a line must not
// depend on how many rules came before it.
func TestVFC15ParserAfterManyRules(t *testing.T) {
	vfkit.Begin(t)
	vfC15Quiet()

	rapid.Check(t, func(t *rapid.T) {
		tail, kinds := vfC15DrawText(t)
		k := rapid.SampledFrom([]int{100, 511, 512, 513, 600, 3000}).Draw(t, "rules_before")
		buf := &bytes.Buffer{}
		for i := 0; i < k; i++ {
			fmt.Fprintf(buf, "||p%d.prefix.test^\n", i)
		}
		buf.Write(tail)
		kinds[fmt.Sprintf("after_rules:%d", k)]++
		vfC15ParserCase(t, buf.Bytes(), kinds)
	})
}

// TestVFC15ParserLong: texts with lines around the read-buffer sizes and the
// 64 KiB token limit.
func TestVFC15ParserLong(t *testing.T) {
	vfkit.Begin(t)
	vfC15Quiet()

	rapid.Check(t, func(t *rapid.T) {
		kinds := map[string]int{}
		buf := &bytes.Buffer{}
		titles := 0
		n := rapid.IntRange(1, 5).Draw(t, "lines")
		long := rapid.IntRange(0, n-1).Draw(t, "long_at")
		for i := 0; i < n; i++ {
			label := fmt.Sprintf("l%d", i)
			if i != long && rapid.IntRange(0, 3).Draw(t, label+"_also_long") != 0 {
				line, kind := vfC15DrawLine(t, label, &titles, false)
				kinds[kind]++
				buf.WriteString(line)
				buf.WriteString(rapid.SampledFrom(vfC15Terms).Draw(t, label+"_term"))

				continue
			}

			base := rapid.SampledFrom([]int{
				1024, 4096, 32768, 65534, 65535, 65536, 65537, 65538, 66000, 70000, 131072, 200000,
			}).Draw(t, label+"_len")
			ln := base + rapid.IntRange(-3, 3).Draw(t, label+"_delta")
			pre := rapid.SampledFrom([]string{"||", "", "", "# ", "! ", "  ", "\t||", "@@||"}).Draw(t, label+"_pre")
			post := rapid.SampledFrom([]string{"", "", "^", "   ", "\t", "\x01", " # c"}).Draw(t, label+"_post")
			term := rapid.SampledFrom([]string{"\n", "\n", "\r\n", ""}).Draw(t, label+"_term")
			fill := ln - len(pre) - len(post)
			if rapid.Bool().Draw(t, label+"_len_incl_cr") && term == "\r\n" {
				fill--
			}
			line := pre + strings.Repeat("a", max(fill, 0)) + post
			switch {
			case len(line)+len(term)-1 >= vfC15LongLimit:
				kinds["long:at_or_over_limit"]++
			case len(line) >= vfC15LongLimit-8:
				kinds["long:just_under_limit"]++
			default:
				kinds["long:under_limit"]++
			}
			buf.WriteString(line)
			buf.WriteString(term)
			if term == "" {
				// Without a line feed the next line joins this one.
				kinds["long:joined"]++
			}
		}

		vfC15ParserCase(t, buf.Bytes(), kinds)
	})
}
