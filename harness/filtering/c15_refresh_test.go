//go:build verif

package filtering

// Property C15, refresh part: a DNSFilter with block and allow lists served by
// a scripted list server (and local files) is refreshed through the admin API
// (forced) and through tryRefreshFilters (forced / scheduled); per request the
// source succeeds with generated content or fails in one of the enumerated
// ways.  Model: per list the last successfully stored normal form.  After every
// refresh the file bytes, rules_count (status API), the stored checksum and
// the rules in force (probe names) are compared with the model.

import (
	"bytes"
	"compress/gzip"
	"encoding/json"
	"fmt"
	"net/http"
	"net/http/httptest"
	"os"
	"path/filepath"
	"runtime/debug"
	"strconv"
	"strings"
	"sync"
	"syscall"
	"testing"
	"time"

	"github.com/AdguardTeam/AdGuardHome/internal/filtering/rulelist"
	"github.com/AdguardTeam/AdGuardHome/internal/vfkit"
	"github.com/miekg/dns"
	"pgregory.net/rapid"
)

// ---- scripted list server ----

// vfC15Act is what a list source does on the next request.
type vfC15Act struct {
	// Kind: ok | redirect_ok | status | redirect_loop | reset | cut | gzip_cut
	// | html | binary | missing | dir.
	Kind string
	// Body is the complete body the source would deliver.
	Body []byte
	// Cut is the number of body bytes delivered before the connection dies
	// (Kind cut).
	Cut int
	// CutClass names the offset class of Cut.
	CutClass string
	// ThenOK: only the first request is cut short; a request that follows it
	// (a client that tries again) gets the whole body.
	ThenOK  bool
	served  int
	Status  int
	Gzip    bool
	Chunked bool
	// Variant describes how Body was derived (fresh, same, same_rules,
	// shifted, empty, ...).
	Variant string
	Ver     int
}

func (a *vfC15Act) name() string {
	n := a.Kind
	if a.Kind == "status" {
		n += ":" + strconv.Itoa(a.Status)
	}
	if a.Kind == "cut" {
		n += ":" + a.CutClass
		if a.ThenOK {
			n += ":then_ok"
		}
	}
	if a.Kind == "ok" {
		n += ":" + a.Variant
	}

	return n
}

type vfC15Server struct {
	mu   sync.Mutex
	acts map[int]*vfC15Act
	hits map[int]int
	srv  *httptest.Server
}

func vfC15Gzip(b []byte) []byte {
	buf := &bytes.Buffer{}
	zw := gzip.NewWriter(buf)
	_, _ = zw.Write(b)
	_ = zw.Close()

	return buf.Bytes()
}

func (s *vfC15Server) ServeHTTP(w http.ResponseWriter, r *http.Request) {
	var idx int
	redirected := false
	if n, _ := fmt.Sscanf(r.URL.Path, "/l/%d", &idx); n != 1 {
		if n, _ = fmt.Sscanf(r.URL.Path, "/r/%d", &idx); n != 1 {
			http.NotFound(w, r)

			return
		}
		redirected = true
	}

	s.mu.Lock()
	a := s.acts[idx]
	s.hits[idx]++
	s.mu.Unlock()

	if a == nil {
		http.Error(w, "no script", http.StatusServiceUnavailable)

		return
	}

	switch a.Kind {
	case "status":
		w.Header().Set("Content-Type", "text/plain")
		w.WriteHeader(a.Status)
		_, _ = w.Write(a.Body)
	case "redirect_loop":
		http.Redirect(w, r, r.URL.Path, http.StatusFound)
	case "redirect_ok":
		if !redirected {
			http.Redirect(w, r, fmt.Sprintf("/r/%d", idx), http.StatusFound)

			return
		}
		s.send(w, a, a.Body, len(a.Body))
	case "reset":
		hj, ok := w.(http.Hijacker)
		if !ok {
			panic(http.ErrAbortHandler)
		}
		conn, _, err := hj.Hijack()
		if err == nil {
			_ = conn.Close()
		}
	case "cut":
		s.mu.Lock()
		again := a.ThenOK && a.served > 0
		a.served++
		s.mu.Unlock()
		if again {
			s.send(w, a, a.Body, len(a.Body))
		} else {
			s.send(w, a, a.Body, a.Cut)
		}
	case "gzip_cut":
		z := vfC15Gzip(a.Body)
		z = z[:len(z)/2]
		w.Header().Set("Content-Encoding", "gzip")
		w.Header().Set("Content-Length", strconv.Itoa(len(z)))
		w.WriteHeader(http.StatusOK)
		_, _ = w.Write(z)
	default:
		// ok, html, binary: a complete 200 response.
		body := a.Body
		if a.Gzip && strings.Contains(r.Header.Get("Accept-Encoding"), "gzip") {
			body = vfC15Gzip(body)
			w.Header().Set("Content-Encoding", "gzip")
		}
		s.send(w, a, body, len(body))
	}
}

// send delivers body[:upto] of a 200 response that announces the whole body
// (Content-Length, or chunked framing) and kills the connection if upto is
// short of it.
func (s *vfC15Server) send(w http.ResponseWriter, a *vfC15Act, body []byte, upto int) {
	w.Header().Set("Content-Type", "text/plain")
	fl, _ := w.(http.Flusher)
	if !a.Chunked {
		w.Header().Set("Content-Length", strconv.Itoa(len(body)))
	}
	w.WriteHeader(http.StatusOK)
	if fl != nil && (a.Chunked || upto < len(body)) {
		fl.Flush()
	}

	part := body[:upto]
	for len(part) > 0 {
		n := min(len(part), 700)
		_, _ = w.Write(part[:n])
		part = part[n:]
		if a.Chunked && fl != nil {
			fl.Flush()
		}
	}

	if upto < len(body) {
		if fl != nil {
			fl.Flush()
		}

		panic(http.ErrAbortHandler)
	}
}

// ---- world ----

// vfC15TB is what the world needs of a test handle (*rapid.T, *testing.T).
type vfC15TB interface {
	Fatalf(format string, args ...any)
}

// vfC15SigStale is the signature of the finding "a list that was refreshed
// successfully does not come into force when, in the same refresh, every list
// of the other kind failed".
const vfC15SigStale = "engines-not-rebuilt-when-all-lists-of-other-kind-fail"

type vfC15List struct {
	Idx   int
	ID    rulelist.URLFilterID
	Allow bool
	Local bool
	URL   string

	// Ver counts the contents generated for this list (served or not).
	Ver int

	// Model: the last successfully stored normal form.
	NF     []byte
	Count  int
	CRCs   [2]uint32
	Stored bool
	// Rules is the list of rule lines of NF.
	Rules []string
	// LastRaw is the source text NF was made from.
	LastRaw []byte

	// Force is the normal form whose rules are in force.
	Force []byte

	// Observed after the last change: inode of the file and the checksum kept
	// in the metadata.
	Ino    uint64
	HasIno bool
	Sum    uint32

	Hist []string
	act  *vfC15Act
}

func (l *vfC15List) kind() string {
	k := "block"
	if l.Allow {
		k = "allow"
	}
	if l.Local {
		return k + "_local"
	}

	return k + "_http"
}

func (l *vfC15List) probeHost(ver int) string {
	zone := "probe.test"
	if l.Allow {
		zone = "allowprobe.test"
	}
	if ver == 0 {
		return fmt.Sprintf("l%dcommon.%s", l.Idx, zone)
	}

	return fmt.Sprintf("l%dv%d.%s", l.Idx, ver, zone)
}

// vfC15Pending is what the last action expects of the state.
type vfC15Pending struct {
	what string
	// changed[idx] is true if the list must have been replaced by newNF.
	changed map[int]bool
	// open[idx]: a checksum coincidence leaves open whether the list was
	// replaced; newNF holds the candidate.
	open     map[int]bool
	newNF    map[int]vfC15Expect
	raw      map[int][]byte
	outcomes map[int]string
	// rewriteOK[idx]: the action may store the list again although its content
	// is the same (it is not a refresh).
	rewriteOK map[int]bool
}

type vfC15World struct {
	dir      string
	d        *DNSFilter
	handlers map[string]http.HandlerFunc
	srv      *vfC15Server
	client   *http.Client
	lists    []*vfC15List
	pending  *vfC15Pending
	refreshs int
	restarts int
	fillerN  int
}

func (w *vfC15World) filterPath(l *vfC15List) string {
	return filepath.Join(w.dir, "filters", strconv.Itoa(int(l.ID))+".txt")
}

// newFilter builds a DNSFilter over the data directory the way the program
// does at start-up.
func (w *vfC15World) newFilter(t vfC15TB) {
	w.handlers = map[string]http.HandlerFunc{}
	conf := &Config{
		DataDir:        w.dir,
		HTTPClient:     w.client,
		ConfigModified: func() {},
		HTTPRegister: func(method, url string, h http.HandlerFunc) {
			w.handlers[method+" "+url] = h
		},
		FilteringEnabled:           true,
		ProtectionEnabled:          true,
		FiltersUpdateIntervalHours: 24,
		SafeFSPatterns:             []string{filepath.Join(w.dir, "local", "*")},
		UserRules:                  []string{"||allowprobe.test^"},
	}
	for _, l := range w.lists {
		fy := FilterYAML{
			Enabled: true,
			URL:     l.URL,
			Name:    fmt.Sprintf("list %d", l.Idx),
			Filter:  Filter{ID: l.ID},
			white:   l.Allow,
		}
		if l.Allow {
			conf.WhitelistFilters = append(conf.WhitelistFilters, fy)
		} else {
			conf.Filters = append(conf.Filters, fy)
		}
	}

	d, err := New(conf, nil)
	if err != nil {
		t.Fatalf("VERIF-INCONCLUSIVE filtering.New: %v", err)
	}
	d.RegisterFilteringHandlers()
	d.EnableFilters(false)
	// admin calls queue their rebuild of the engines for the worker goroutine;
	// the world has none and works the queue off itself (see drain)
	d.filtersInitializerChan = make(chan filtersInitializerParams, 1)
	w.d = d
}

// drain carries out the rebuilds that admin calls have queued, as the worker
// goroutine would.
func (w *vfC15World) drain(t vfC15TB) {
	for {
		select {
		case params := <-w.d.filtersInitializerChan:
			if err := w.d.initFilteringGen(params.gen, params.allowFilters, params.blockFilters); err != nil {
				t.Fatalf("rebuilding the engines: %v", err)
			}
		default:
			return
		}
	}
}

func (w *vfC15World) close() {
	if w.d != nil {
		w.d.Close()
	}
	if w.srv != nil && w.srv.srv != nil {
		w.srv.srv.Close()
	}
	if w.client != nil {
		w.client.CloseIdleConnections()
	}
	_ = os.RemoveAll(w.dir)
}

// ---- content generator (unambiguous list texts) ----

var (
	vfC15SafeComments = []string{"# comment", "! comment", "  # indented", "!", "#", "! Homepage: https://example.org/", "#||a.test^"}
	vfC15SafeBlanks   = []string{"", " ", "\t", "  \t "}
	vfC15SafePads     = []string{"", "", " ", "\t", "  "}
	vfC15SafeTerms    = []string{"\n", "\n", "\n", "\r\n"}
)

func (w *vfC15World) fillerRule(t *rapid.T, label string) string {
	h := rapid.SampledFrom(vfC15Hosts).Draw(t, label+"_host")
	switch rapid.IntRange(0, 7).Draw(t, label+"_rule") {
	case 0, 1:
		return "||" + h + "^"
	case 2:
		return "@@||" + h + "^"
	case 3:
		return "0.0.0.0 " + h
	case 4:
		return "127.0.0.1\t" + h
	case 5:
		return "||" + h + "^$important"
	case 6:
		w.fillerN++

		return fmt.Sprintf("||f%d.%s^", w.fillerN, h)
	default:
		return h
	}
}

// vfC15Render decorates rule lines with comments, blank lines, padding and
// mixed line endings; the rule lines keep their order.
func vfC15Render(t *rapid.T, label string, rules []string, title string) []byte {
	buf := &bytes.Buffer{}
	emit := func(i int, s string) {
		buf.WriteString(rapid.SampledFrom(vfC15SafePads).Draw(t, fmt.Sprintf("%s_%d_lpad", label, i)))
		buf.WriteString(s)
		buf.WriteString(rapid.SampledFrom(vfC15SafePads).Draw(t, fmt.Sprintf("%s_%d_rpad", label, i)))
		buf.WriteString(rapid.SampledFrom(vfC15SafeTerms).Draw(t, fmt.Sprintf("%s_%d_term", label, i)))
	}
	noise := func(i int) {
		for j, n := 0, rapid.IntRange(0, 2).Draw(t, fmt.Sprintf("%s_%d_noise", label, i)); j < n; j++ {
			if rapid.Bool().Draw(t, fmt.Sprintf("%s_%d_%d_isblank", label, i, j)) {
				buf.WriteString(rapid.SampledFrom(vfC15SafeBlanks).Draw(t, fmt.Sprintf("%s_%d_%d_blank", label, i, j)))
			} else {
				buf.WriteString(rapid.SampledFrom(vfC15SafeComments).Draw(t, fmt.Sprintf("%s_%d_%d_comment", label, i, j)))
			}
			buf.WriteString(rapid.SampledFrom(vfC15SafeTerms).Draw(t, fmt.Sprintf("%s_%d_%d_term", label, i, j)))
		}
	}

	if title != "" {
		buf.WriteString("! Title: " + title + "\n")
	}
	for i, r := range rules {
		noise(i)
		emit(i, r)
	}
	noise(len(rules))

	b := buf.Bytes()
	if len(b) > 0 && b[len(b)-1] == '\n' && rapid.IntRange(0, 3).Draw(t, label+"_no_final_newline") == 0 {
		b = b[:len(b)-1]
		if len(b) > 0 && b[len(b)-1] == '\r' {
			b = b[:len(b)-1]
		}
	}

	return b
}

// freshRules draws the rule lines of a new version of a list: its version
// probe, the common probe and filler.
func (w *vfC15World) freshRules(t *rapid.T, label string, l *vfC15List, ver int) (rules []string) {
	rules = append(rules, "||"+l.probeHost(ver)+"^")
	if rapid.IntRange(0, 4).Draw(t, label+"_common") != 0 {
		rules = append(rules, "||"+l.probeHost(0)+"^")
	}
	for i, n := 0, rapid.IntRange(0, 5).Draw(t, label+"_filler"); i < n; i++ {
		r := w.fillerRule(t, fmt.Sprintf("%s_f%d", label, i))
		pos := rapid.IntRange(0, len(rules)).Draw(t, fmt.Sprintf("%s_f%d_pos", label, i))
		rules = append(rules[:pos:pos], append([]string{r}, rules[pos:]...)...)
	}

	return rules
}

// drawAct draws what the source of l does on the next request.
func (w *vfC15World) drawAct(t *rapid.T, label string, l *vfC15List) (a *vfC15Act) {
	l.Ver++
	a = &vfC15Act{Ver: l.Ver}
	title := ""
	if rapid.IntRange(0, 2).Draw(t, label+"_title") == 0 {
		title = fmt.Sprintf("List %d v%d", l.Idx, l.Ver)
	}

	fresh := func() []byte {
		return vfC15Render(t, label, w.freshRules(t, label, l, l.Ver), title)
	}

	// Weights: about 45 % good content, 55 % failures.
	var kinds []string
	if l.Local {
		kinds = []string{
			"ok", "ok", "ok", "ok", "same", "same_rules", "shifted", "empty",
			"missing", "missing", "dir", "html", "binary", "binary",
		}
	} else {
		kinds = []string{
			"ok", "ok", "ok", "ok", "ok", "redirect_ok", "same", "same_rules", "shifted", "empty",
			"status", "status", "redirect_loop", "reset", "cut", "cut", "cut", "cut", "gzip_cut", "html", "binary", "binary",
		}
	}
	k := rapid.SampledFrom(kinds).Draw(t, label+"_act")

	switch k {
	case "ok", "redirect_ok":
		a.Kind, a.Variant, a.Body = k, "fresh", fresh()
	case "same":
		// Byte-identical to the last good content.
		a.Kind, a.Variant = "ok", "same"
		if l.Stored {
			a.Body = l.LastRaw
		} else {
			a.Variant, a.Body = "fresh", fresh()
		}
	case "same_rules":
		// The same rules in new clothes (comments, padding, line ends).
		a.Kind, a.Variant = "ok", "same_rules"
		if l.Stored {
			a.Body = vfC15Render(t, label, l.Rules, title)
		} else {
			a.Variant, a.Body = "fresh", fresh()
		}
	case "shifted":
		// The same characters with a line break moved: two neighbouring rule
		// lines joined.  (A checksum over the rule lines cannot tell.)
		a.Kind, a.Variant = "ok", "shifted"
		if l.Stored && len(l.Rules) >= 2 {
			i := rapid.IntRange(0, len(l.Rules)-2).Draw(t, label+"_join")
			rules := append([]string{}, l.Rules[:i]...)
			rules = append(rules, l.Rules[i]+l.Rules[i+1])
			rules = append(rules, l.Rules[i+2:]...)
			a.Body = vfC15Render(t, label, rules, title)
		} else {
			a.Variant, a.Body = "fresh", fresh()
		}
	case "empty":
		a.Kind, a.Variant = "ok", "empty"
		a.Body = vfC15Render(t, label, nil, title)
	case "status":
		a.Kind = "status"
		a.Status = rapid.SampledFrom([]int{404, 500, 403, 503, 204, 206, 304, 401, 201}).Draw(t, label+"_status")
		a.Body = fresh()
	case "redirect_loop":
		a.Kind = "redirect_loop"
	case "reset":
		a.Kind = "reset"
	case "cut":
		a.Kind, a.Body = "cut", fresh()
		for len(a.Body) < 2 || !bytes.Contains(a.Body[:len(a.Body)-1], []byte{'\n'}) {
			a.Body = append(a.Body, "\n||pad.a.test^\n"...)
		}
		a.ThenOK = rapid.IntRange(0, 2).Draw(t, label+"_then_ok") == 0
		a.CutClass = rapid.SampledFrom([]string{"after_headers", "mid_line", "mid_line", "line_boundary", "last_byte"}).Draw(t, label+"_cutclass")
		switch a.CutClass {
		case "after_headers":
			a.Cut = 0
		case "last_byte":
			a.Cut = len(a.Body) - 1
		default:
			// Positions just after a line feed are line boundaries.
			var bounds, mids []int
			for i := 1; i < len(a.Body)-1; i++ {
				if a.Body[i-1] == '\n' {
					bounds = append(bounds, i)
				} else {
					mids = append(mids, i)
				}
			}
			if a.CutClass == "line_boundary" && len(bounds) > 0 {
				a.Cut = rapid.SampledFrom(bounds).Draw(t, label+"_cutat")
			} else {
				a.CutClass = "mid_line"
				a.Cut = rapid.SampledFrom(mids).Draw(t, label+"_cutat")
			}
		}
	case "gzip_cut":
		a.Kind, a.Body = "gzip_cut", fresh()
	case "html":
		a.Kind = "html"
		pre := rapid.SampledFrom([]string{"", "\n", "# served by example\n", "  \r\n! c\n"}).Draw(t, label+"_htmlpre")
		first := rapid.SampledFrom([]string{"<!DOCTYPE html>", "<html>", "<HTML lang=\"en\">", "  <!doctype html>"}).Draw(t, label+"_htmlfirst")
		a.Body = []byte(pre + first + "\n<head><title>Sign in</title></head>\n<body>\n||" + l.probeHost(l.Ver) + "^\n</body>\n</html>\n")
	case "binary":
		a.Kind = "binary"
		good := rapid.IntRange(0, 3).Draw(t, label+"_binafter")
		buf := &bytes.Buffer{}
		if good > 0 {
			rules := w.freshRules(t, label, l, l.Ver)
			buf.Write(vfC15Render(t, label, rules, title))
			buf.WriteString("\n")
		}
		bad := rapid.SampledFrom([]string{
			"\x1f\x8b\x08\x00\x00\x00\x00\x00\x00\x03\xcb\x48\xcd\xc9\xc9\x07\x00", "||a.test^\x00", "\x00\x00\x00\x00",
			"\x7fELF\x02\x01\x01\x00", "||a\x1b.test^", "x\x7f", "\x89PNG\r\n\x1a\n\x00\x00\x00\rIHDR",
		}).Draw(t, label+"_bad")
		buf.WriteString(bad)
		buf.WriteString("\n||" + l.probeHost(l.Ver) + "^\n")
		a.Body = buf.Bytes()
	case "missing", "dir":
		a.Kind = k
	}

	if !l.Local && (a.Kind == "ok" || a.Kind == "redirect_ok" || a.Kind == "html" || a.Kind == "binary" || a.Kind == "cut") {
		a.Chunked = rapid.IntRange(0, 3).Draw(t, label+"_chunked") == 0
		if a.Kind != "cut" {
			a.Gzip = rapid.IntRange(0, 3).Draw(t, label+"_gzip") == 0
		}
	}

	return a
}

// install makes the source of l behave as a says.
func (w *vfC15World) install(t vfC15TB, l *vfC15List, a *vfC15Act) {
	l.act = a
	if !l.Local {
		w.srv.mu.Lock()
		w.srv.acts[l.Idx] = a
		w.srv.mu.Unlock()

		return
	}

	if err := os.RemoveAll(l.URL); err != nil {
		t.Fatalf("VERIF-INCONCLUSIVE removing local list: %v", err)
	}
	var err error
	switch a.Kind {
	case "missing":
	case "dir":
		err = os.Mkdir(l.URL, 0o755)
	default:
		err = os.WriteFile(l.URL, a.Body, 0o644)
	}
	if err != nil {
		t.Fatalf("VERIF-INCONCLUSIVE preparing local list: %v", err)
	}
}

// expect computes, from the statement alone, what a refresh of l with its
// installed action must do, and records it in p.
func (w *vfC15World) expect(t vfC15TB, p *vfC15Pending, l *vfC15List) (outcome string) {
	a := l.act
	switch a.Kind {
	case "ok", "redirect_ok", "html", "binary":
		// The whole body arrives; its content decides.
	case "cut":
		if !a.ThenOK {
			return "fail"
		}
		// The transfer fails; a program that tries again gets the whole
		// body.  Either it gives up (nothing changes) or the second transfer
		// counts (the list is exactly the new content): nothing in between.
		exps := vfC15Expectations(a.Body)
		if len(exps) != 1 || exps[0].Err {
			return "fail"
		}
		if !bytes.Equal(exps[0].Norm, l.NF) {
			p.open[l.Idx] = true
			p.newNF[l.Idx] = exps[0]
			p.raw[l.Idx] = a.Body
		}
		vfC15.Class("refresh:cut_then_ok")

		return "fail_or_retried"
	default:
		return "fail"
	}

	exps := vfC15Expectations(a.Body)
	if len(exps) != 1 {
		t.Fatalf("VERIF-INCONCLUSIVE the refresh generator produced a text with %d readings: %q", len(exps), a.Body)
	}
	e := exps[0]
	switch {
	case e.Err:
		return "fail"
	case bytes.Equal(e.Norm, l.NF):
		return "unchanged"
	case e.CRCLines == l.CRCs[0] || e.CRCNorm == l.CRCs[1]:
		p.open[l.Idx] = true
		p.newNF[l.Idx] = e
		p.raw[l.Idx] = a.Body

		return "checksum_coincidence"
	default:
		p.changed[l.Idx] = true
		p.newNF[l.Idx] = e
		p.raw[l.Idx] = a.Body

		return "changed"
	}
}

// ---- observations ----

type vfC15Status struct {
	Filters []struct {
		ID         int    `json:"id"`
		RulesCount int    `json:"rules_count"`
		URL        string `json:"url"`
	} `json:"filters"`
	WhitelistFilters []struct {
		ID         int    `json:"id"`
		RulesCount int    `json:"rules_count"`
		URL        string `json:"url"`
	} `json:"whitelist_filters"`
}

func (w *vfC15World) call(t vfC15TB, method, path string, body []byte) (code int, resp []byte) {
	h := w.handlers[method+" "+path]
	if h == nil {
		t.Fatalf("VERIF-INCONCLUSIVE handler %s %s is not registered", method, path)
	}
	r := httptest.NewRequest(method, path, bytes.NewReader(body))
	r.Header.Set("Content-Type", "application/json")
	rec := httptest.NewRecorder()
	func() {
		defer func() {
			if p := recover(); p != nil {
				t.Fatalf("panic in %s %s: %v\n%s", method, path, p, debug.Stack())
			}
		}()
		h(rec, r)
	}()

	return rec.Code, rec.Body.Bytes()
}

func (w *vfC15World) statusCounts(t vfC15TB) (counts map[int]int) {
	code, body := w.call(t, http.MethodGet, "/control/filtering/status", nil)
	if code != http.StatusOK {
		t.Fatalf("GET /control/filtering/status: %d %s", code, body)
	}
	st := vfC15Status{}
	if err := json.Unmarshal(body, &st); err != nil {
		t.Fatalf("GET /control/filtering/status: %v in %s", err, body)
	}
	counts = map[int]int{}
	for _, f := range st.Filters {
		counts[f.ID] = f.RulesCount
	}
	for _, f := range st.WhitelistFilters {
		counts[f.ID] = f.RulesCount
	}

	return counts
}

// checksums reads the checksum kept in the list metadata.
func (w *vfC15World) checksums() (sums map[int]uint32) {
	sums = map[int]uint32{}
	w.d.conf.filtersMu.RLock()
	defer w.d.conf.filtersMu.RUnlock()

	for _, f := range w.d.conf.Filters {
		sums[int(f.ID)] = f.checksum
	}
	for _, f := range w.d.conf.WhitelistFilters {
		sums[int(f.ID)] = f.checksum
	}

	return sums
}

// inForce returns the probe names of l that the engines currently decide by a
// rule of l.
func (w *vfC15World) inForce(t vfC15TB, l *vfC15List) (hosts []string) {
	setts := &Settings{FilteringEnabled: true, ProtectionEnabled: true}
	for ver := 0; ver <= l.Ver; ver++ {
		host := l.probeHost(ver)
		var res Result
		var err error
		func() {
			defer func() {
				if p := recover(); p != nil {
					t.Fatalf("panic in CheckHost(%q): %v\n%s", host, p, debug.Stack())
				}
			}()
			res, err = w.d.CheckHost(host, dns.TypeA, setts)
		}()
		if err != nil {
			t.Fatalf("CheckHost(%q): %v", host, err)
		}

		id, text := -1, ""
		if len(res.Rules) > 0 {
			id, text = int(res.Rules[0].FilterListID), res.Rules[0].Text
		}
		switch {
		case !l.Allow && res.Reason == NotFilteredNotFound:
			// not in force
		case !l.Allow && res.Reason == FilteredBlockList && id == int(l.ID) && text == "||"+host+"^":
			hosts = append(hosts, host)
		case l.Allow && res.Reason == FilteredBlockList && id == 0:
			// only the custom rule applies: not in force
		case l.Allow && res.Reason == NotFilteredAllowList && id == int(l.ID) && text == "||"+host+"^":
			hosts = append(hosts, host)
		default:
			t.Fatalf("probe %q of list %d (%s): unexpected decision %s by list %d rule %q",
				host, l.ID, l.kind(), res.Reason, id, text)
		}
	}

	return hosts
}

// probesOf returns the probe names of l that a normal form holds a rule for.
func (l *vfC15List) probesOf(nf []byte) (hosts []string) {
	have := map[string]bool{}
	for _, line := range strings.Split(string(nf), "\n") {
		have[line] = true
	}
	for ver := 0; ver <= l.Ver; ver++ {
		if h := l.probeHost(ver); have["||"+h+"^"] {
			hosts = append(hosts, h)
		}
	}

	return hosts
}

func vfC15SameSet(a, b []string) bool {
	return strings.Join(a, ",") == strings.Join(b, ",")
}

func vfC15Leftovers(dir string) (names []string) {
	ents, err := os.ReadDir(dir)
	if err != nil {
		return nil
	}
	for _, e := range ents {
		if strings.HasPrefix(e.Name(), ".") && strings.Contains(e.Name(), ".txt") {
			names = append(names, filepath.Join(dir, e.Name()))
		}
	}

	return names
}

// verify compares the observable state with the model after an action (or at
// the start).
func (w *vfC15World) verify(t vfC15TB) {
	p := w.pending
	w.pending = nil
	if p == nil {
		p = vfC15NewPending("no action")
	}

	// 1. Files on disk.
	for _, l := range w.lists {
		path := w.filterPath(l)
		data, err := os.ReadFile(path)
		exists := err == nil
		if err != nil && !os.IsNotExist(err) {
			t.Fatalf("after %s: reading %s: %v", p.what, path, err)
		}

		if p.open[l.Idx] {
			// A content with the same checksum and other rules: the statement
			// allows keeping the old file; accept both, adopt what is there.
			e := p.newNF[l.Idx]
			switch {
			case exists && bytes.Equal(data, e.Norm) && !bytes.Equal(data, l.NF):
				p.changed[l.Idx] = true
				vfC15.Class("refresh:checksum_coincidence:replaced")
			default:
				vfC15.Class("refresh:checksum_coincidence:kept")
			}
		}

		if p.changed[l.Idx] {
			e := p.newNF[l.Idx]
			l.NF, l.Count, l.CRCs, l.Stored = e.Norm, e.Count, [2]uint32{e.CRCLines, e.CRCNorm}, true
			l.Rules, l.LastRaw = nil, p.raw[l.Idx]
			if len(e.Norm) > 0 {
				l.Rules = strings.Split(strings.TrimSuffix(string(e.Norm), "\n"), "\n")
			}
		}

		switch {
		case !l.Stored:
			if exists && len(data) != 0 {
				t.Fatalf("after %s: list %d (%s) was never refreshed successfully but %s holds %s (last source behaviour: %s)",
					p.what, l.ID, l.kind(), path, vfC15Short(data), l.actName())
			}
		case !exists:
			t.Fatalf("after %s: file %s of list %d (%s) is gone; model holds %s (last source behaviour: %s)",
				p.what, path, l.ID, l.kind(), vfC15Short(l.NF), l.actName())
		case !bytes.Equal(data, l.NF):
			t.Fatalf("after %s: file of list %d (%s) is %s\nwant (last successfully stored normal form) %s\n(outcome expected of this refresh: %s; last source behaviour: %s, body %s)",
				p.what, l.ID, l.kind(), vfC15Short(data), vfC15Short(l.NF), p.outcomes[l.Idx], l.actName(), vfC15Short(l.actBody()))
		}

		if exists {
			fi, serr := os.Stat(path)
			if serr != nil {
				t.Fatalf("VERIF-INCONCLUSIVE stat %s: %v", path, serr)
			}
			ino := fi.Sys().(*syscall.Stat_t).Ino
			if l.HasIno && !p.changed[l.Idx] && !p.rewriteOK[l.Idx] && ino != l.Ino {
				t.Fatalf("after %s: file of list %d (%s) was rewritten (inode %d -> %d) although its content did not change (outcome: %s; source behaviour: %s)",
					p.what, l.ID, l.kind(), l.Ino, ino, p.outcomes[l.Idx], l.actName())
			}
			l.Ino, l.HasIno = ino, true

			// Fixed point of what is stored (re-parse through the parser).
			again := vfC15RunParser(data, rulelist.DefaultRuleBufSize, []int{1 << 20}, false)
			if again.Panicked != "" || again.Err != nil || !bytes.Equal(again.Dst, data) || again.Res.RulesCount != l.Count {
				t.Fatalf("after %s: stored file of list %d is not a fixed point: %s re-parses to %s count=%d err=%v %s (model count %d)",
					p.what, l.ID, vfC15Short(data), vfC15Short(again.Dst), again.Res.RulesCount, again.Err, again.Panicked, l.Count)
			}
			if why := vfC15IsNormalForm(data); why != "" {
				t.Fatalf("after %s: stored file of list %d is not in normal form (%s): %s", p.what, l.ID, why, vfC15Short(data))
			}
		} else {
			l.HasIno = false
		}
	}

	// 2. No pending file left behind.
	left := append(vfC15Leftovers(filepath.Join(w.dir, "filters")), vfC15Leftovers(os.TempDir())...)
	if len(left) != 0 {
		t.Fatalf("after %s: temporary files left behind: %v", p.what, left)
	}
	ents, _ := os.ReadDir(filepath.Join(w.dir, "filters"))
	for _, e := range ents {
		known := false
		for _, l := range w.lists {
			known = known || e.Name() == strconv.Itoa(int(l.ID))+".txt"
		}
		if !known {
			t.Fatalf("after %s: unexpected file %s in the filters directory", p.what, e.Name())
		}
	}

	// 3. Rule counts (status API) and stored checksums.
	counts, sums := w.statusCounts(t), w.checksums()
	for _, l := range w.lists {
		got, ok := counts[int(l.ID)]
		if !ok {
			t.Fatalf("after %s: list %d is missing from the status API", p.what, l.ID)
		}
		if got != l.Count {
			t.Fatalf("after %s: rules_count of list %d (%s) is %d, want %d = rules of the last successfully stored form %s (outcome expected: %s; source behaviour: %s, body %s)",
				p.what, l.ID, l.kind(), got, l.Count, vfC15Short(l.NF), p.outcomes[l.Idx], l.actName(), vfC15Short(l.actBody()))
		}

		sum := sums[int(l.ID)]
		if sum != l.CRCs[0] && sum != l.CRCs[1] {
			t.Fatalf("after %s: checksum of list %d (%s) is %08x, want that of the stored form (%08x over rule lines / %08x over the file); outcome expected: %s; source behaviour: %s",
				p.what, l.ID, l.kind(), sum, l.CRCs[0], l.CRCs[1], p.outcomes[l.Idx], l.actName())
		}
		if !p.changed[l.Idx] && l.Stored && sum != l.Sum {
			t.Fatalf("after %s: checksum of list %d changed %08x -> %08x without a change of content", p.what, l.ID, l.Sum, sum)
		}
		l.Sum = sum

		if data, err := os.ReadFile(w.filterPath(l)); err == nil {
			again := vfC15RunParser(data, rulelist.DefaultRuleBufSize, []int{1 << 20}, false)
			if again.Res == nil || again.Res.Checksum != sum || again.Res.RulesCount != got {
				t.Fatalf("after %s: re-parse of the stored file of list %d gives count=%d checksum=%08x, metadata says count=%d checksum=%08x",
					p.what, l.ID, again.Res.RulesCount, again.Res.Checksum, got, sum)
			}
		}
	}

	// 4. Rules in force: for every list those of the last successfully stored
	// form.  A list whose refresh failed (or was not due, or brought nothing
	// new) keeps exactly what it had; a list that was replaced serves the new
	// form.
	for _, l := range w.lists {
		obs, want, before := w.inForce(t, l), l.probesOf(l.NF), l.probesOf(l.Force)
		if vfC15SameSet(obs, want) {
			l.Force = l.NF

			continue
		}

		how := "the successfully stored form did not come into force"
		if !p.changed[l.Idx] {
			how = "the rules in force changed although this list was not replaced"
			if vfC15SameSet(obs, before) {
				how = "an earlier successfully stored form is still not in force"
			}
		}
		t.Fatalf("after %s: rules in force of list %d (%s): %s\nprobe names decided by the list: %v\nwant %v (last successfully stored form %s)\nbefore this action: %v\n(outcomes expected of this refresh: %v; source behaviour of this list: %s, body %s)",
			p.what, l.ID, l.kind(), how, obs, want, vfC15Short(l.NF), before,
			p.outcomes, l.actName(), vfC15Short(l.actBody()))
	}
}

func (l *vfC15List) actName() string {
	if l.act == nil {
		return "none yet"
	}

	return l.act.name()
}

func (l *vfC15List) actBody() []byte {
	if l.act == nil {
		return nil
	}

	return l.act.Body
}

// ---- actions ----

// vfC15Plan is one refresh: how it is started, which kinds it covers, which
// lists are due and what every source does.
type vfC15Plan struct {
	How          string
	Block, Allow bool
	Force        bool
	Due          map[int]bool
	Acts         map[int]*vfC15Act
}

func (pl *vfC15Plan) selected(l *vfC15List) bool {
	return (l.Allow && pl.Allow) || (!l.Allow && pl.Block)
}

// outcomes computes, for the plan, the expected outcome per targeted list and
// whether the open shape vfC15SigStale is present.
func (w *vfC15World) outcomes(t vfC15TB, pl *vfC15Plan, p *vfC15Pending) (staleShape bool) {
	anyChanged, kindAllFailed := false, false
	for _, grp := range []bool{false, true} {
		targeted, failed := 0, 0
		for _, l := range w.lists {
			if l.Allow != grp || !pl.selected(l) {
				continue
			}
			l.act = pl.Acts[l.Idx]
			if !pl.Due[l.Idx] {
				p.outcomes[l.Idx] = "not_due"

				continue
			}

			targeted++
			out := w.expect(t, p, l)
			p.outcomes[l.Idx] = out
			switch out {
			case "fail":
				failed++
			case "changed", "checksum_coincidence":
				anyChanged = true
			}
		}
		if targeted > 0 && failed == targeted {
			kindAllFailed = true
		}
	}

	return anyChanged && kindAllFailed
}

func vfC15NewPending(what string) *vfC15Pending {
	return &vfC15Pending{
		what:    what,
		changed: map[int]bool{}, open: map[int]bool{}, newNF: map[int]vfC15Expect{}, raw: map[int][]byte{},
		outcomes: map[int]string{}, rewriteOK: map[int]bool{},
	}
}

// run executes a planned refresh: sets the due instants by shifting the stored
// ones (never by waiting, DESIGN 3.4), installs the source behaviours, records
// what must happen and starts the refresh.
func (w *vfC15World) run(t vfC15TB, pl *vfC15Plan) {
	w.refreshs++
	p := vfC15NewPending(fmt.Sprintf("refresh #%d (%s block=%v allow=%v force=%v)", w.refreshs, pl.How, pl.Block, pl.Allow, pl.Force))

	now := time.Now()
	w.d.conf.filtersMu.Lock()
	shift := func(fs []FilterYAML) {
		for i := range fs {
			for _, l := range w.lists {
				if l.ID != fs[i].ID {
					continue
				}
				if pl.Due[l.Idx] {
					fs[i].LastUpdated = now.Add(-25 * time.Hour)
				} else {
					fs[i].LastUpdated = now
				}
			}
		}
	}
	shift(w.d.conf.Filters)
	shift(w.d.conf.WhitelistFilters)
	w.d.conf.filtersMu.Unlock()

	for _, l := range w.lists {
		if pl.selected(l) {
			w.install(t, l, pl.Acts[l.Idx])
		}
	}
	if w.outcomes(t, pl, p) {
		vfC15.Class("refresh:changed_while_other_kind_all_failed")
	}
	switch {
	case pl.How == "api":
		vfC15.Class("refresh:mode:api")
	case pl.Force:
		vfC15.Class("refresh:mode:forced")
	default:
		vfC15.Class("refresh:mode:scheduled")
	}
	if pl.Block && pl.Allow {
		vfC15.Class("refresh:both_kinds")
	}

	for _, grp := range []bool{false, true} {
		targeted, failed := 0, 0
		for _, l := range w.lists {
			if l.Allow != grp || !pl.selected(l) {
				continue
			}
			out, a := p.outcomes[l.Idx], pl.Acts[l.Idx]
			if out == "not_due" {
				l.Hist = append(l.Hist, out)

				continue
			}

			targeted++
			l.Hist = append(l.Hist, a.name()+"="+out)
			vfC15.Class("refresh:act:" + a.name())
			vfC15.Class("refresh:outcome:" + out)
			vfC15.Class("refresh:list:" + l.kind() + ":" + out)
			if a.Chunked {
				vfC15.Class("refresh:chunked")
			}
			if a.Gzip {
				vfC15.Class("refresh:gzip")
			}
			switch out {
			case "fail":
				failed++
				if l.Stored {
					vfC15.Class("refresh:fail_after_success")
				}
			case "changed":
				if l.Stored {
					vfC15.Class("refresh:replaces_existing")
				}
			}
		}
		if failed > 0 && failed < targeted {
			vfC15.Class("refresh:mixed_outcomes_in_kind")
		}
		if targeted > 0 && failed == targeted {
			vfC15.Class("refresh:kind_all_failed")
		}
	}
	w.pending = p

	func() {
		defer func() {
			if r := recover(); r != nil {
				t.Fatalf("panic during %s: %v\n%s", p.what, r, debug.Stack())
			}
		}()

		if pl.How == "api" {
			body, _ := json.Marshal(map[string]bool{"whitelist": pl.Allow})
			code, resp := w.call(t, http.MethodPost, "/control/filtering/refresh", body)
			if code != http.StatusOK {
				t.Fatalf("%s: POST /control/filtering/refresh: %d %s", p.what, code, resp)
			}

			return
		}

		if _, _, ok := w.d.tryRefreshFilters(pl.Block, pl.Allow, pl.Force); !ok {
			t.Fatalf("VERIF-INCONCLUSIVE %s: refresh lock was held", p.what)
		}
	}()
}

// refresh draws a plan and runs it.
func (w *vfC15World) refresh(t *rapid.T, how string, block, allow, force bool) {
	label := fmt.Sprintf("r%d", w.refreshs+1)
	pl := &vfC15Plan{How: how, Block: block, Allow: allow, Force: force, Due: map[int]bool{}, Acts: map[int]*vfC15Act{}}
	for _, l := range w.lists {
		pl.Due[l.Idx] = force || rapid.IntRange(0, 3).Draw(t, fmt.Sprintf("%s_l%d_due", label, l.Idx)) != 0
	}
	for _, l := range w.lists {
		if pl.selected(l) {
			pl.Acts[l.Idx] = w.drawAct(t, fmt.Sprintf("%s_l%d", label, l.Idx), l)
		}
	}

	// A finding listed as open is kept out of the generated histories by
	// construction (HARNESS_GUIDE rule 10): one list of a kind whose lists
	// would all fail delivers its unchanged content instead.
	if _, open := vfkit.KnownOpen("C15", vfC15SigStale); open {
		probe := vfC15NewPending("plan")
		if w.outcomes(t, pl, probe) {
			vfC15.Excluded(vfC15SigStale)
			for _, grp := range []bool{false, true} {
				var first *vfC15List
				allFailed := true
				for _, l := range w.lists {
					if l.Allow != grp || !pl.selected(l) || !pl.Due[l.Idx] {
						continue
					}
					if first == nil {
						first = l
					}
					allFailed = allFailed && probe.outcomes[l.Idx] == "fail"
				}
				if first == nil || !allFailed {
					continue
				}
				a := &vfC15Act{Kind: "ok", Variant: "same", Ver: first.Ver, Body: first.LastRaw}
				if !first.Stored {
					a.Variant, a.Body = "empty", []byte("# nothing yet\n")
				}
				pl.Acts[first.Idx] = a
			}
		}
	}

	w.run(t, pl)
}

// failedRepoint asks, through POST /control/filtering/set_url, for another
// source of a list; the download from that source fails, the request is
// refused, and the list must be exactly what it was: file, count, rules in
// force, and -- seen at the next refresh -- "content whose checksum is
// unchanged is not rewritten".
func (w *vfC15World) failedRepoint(t *rapid.T) {
	l := rapid.SampledFrom(w.lists).Draw(t, "repoint_list")
	var target string
	kind := rapid.SampledFrom([]string{"404", "503", "local_missing", "outside_safe"}).Draw(t, "repoint_failure")
	switch kind {
	case "404":
		target = w.srv.srv.URL + "/gone/" + strconv.Itoa(w.refreshs)
	case "503":
		target = fmt.Sprintf("%s/l/%d", w.srv.srv.URL, 9000+l.Idx)
	case "local_missing":
		target = filepath.Join(w.dir, "local", fmt.Sprintf("missing-%d.txt", l.Idx))
	default:
		target = filepath.Join(w.dir, "elsewhere.txt")
	}
	body, _ := json.Marshal(map[string]any{
		"url": l.URL, "whitelist": l.Allow,
		"data": map[string]any{"name": fmt.Sprintf("list %d", l.Idx), "url": target, "enabled": true},
	})
	code, resp := w.call(t, http.MethodPost, "/control/filtering/set_url", body)
	if code == http.StatusOK {
		t.Fatalf("set_url of list %d (%s) to the failing source %s was accepted: %s", l.ID, l.kind(), target, resp)
	}
	w.pending = vfC15NewPending(fmt.Sprintf("refused re-point of list %d to %s", l.ID, target))
	l.Hist = append(l.Hist, "repoint=fail")
	vfC15.Class("refresh:failed_repoint:" + l.kind())
}

// mirrorRepoint points a list, through POST /control/filtering/set_url, to
// another location that serves the very content the list was last stored from
// (a mirror).  The request succeeds, and the list must be what it was: the same
// stored form, count and rules in force.
func (w *vfC15World) mirrorRepoint(t *rapid.T) {
	var cands []*vfC15List
	for _, l := range w.lists {
		if !l.Local && l.Stored && len(l.Rules) > 0 && l.LastRaw != nil {
			cands = append(cands, l)
		}
	}
	if len(cands) == 0 {
		t.Skip("no list stored from an http source yet")
	}
	l := rapid.SampledFrom(cands).Draw(t, "mirror_list")
	act := &vfC15Act{Kind: "ok", Variant: "mirror", Body: l.LastRaw}
	w.srv.mu.Lock()
	w.srv.acts[l.Idx] = act
	w.srv.mu.Unlock()
	l.act = act
	target := fmt.Sprintf("%s/r/%d", w.srv.srv.URL, l.Idx)
	if strings.Contains(l.URL, "/r/") {
		target = fmt.Sprintf("%s/l/%d", w.srv.srv.URL, l.Idx)
	}
	body, _ := json.Marshal(map[string]any{
		"url": l.URL, "whitelist": l.Allow,
		"data": map[string]any{"name": fmt.Sprintf("list %d", l.Idx), "url": target, "enabled": true},
	})
	code, resp := w.call(t, http.MethodPost, "/control/filtering/set_url", body)
	if code != http.StatusOK {
		t.Fatalf("set_url of list %d (%s) to the mirror %s was refused: %d %s", l.ID, l.kind(), target, code, resp)
	}
	l.URL = target
	w.pending = vfC15NewPending(fmt.Sprintf("re-point of list %d to a mirror with the same content", l.ID))
	w.pending.rewriteOK[l.Idx] = true
	l.Hist = append(l.Hist, "repoint=mirror")
	vfC15.Class("refresh:mirror_repoint:" + l.kind())
}

// addList adds one more block list through POST /control/filtering/add_url; its
// source delivers a first version at once.  The list then takes part in the
// refreshes like the others -- and none of the others may be touched by it.
func (w *vfC15World) addList(t *rapid.T) {
	if len(w.lists) >= 6 {
		t.Skip("enough lists")
	}
	l := &vfC15List{Idx: len(w.lists) + 1}
	l.URL = fmt.Sprintf("%s/l/%d", w.srv.srv.URL, l.Idx)
	label := fmt.Sprintf("add%d", l.Idx)
	l.Ver++
	body := vfC15Render(t, label, w.freshRules(t, label, l, l.Ver), "")
	exps := vfC15Expectations(body)
	if len(exps) != 1 || exps[0].Err || exps[0].Count == 0 {
		t.Skip("the drawn text is not a list with rules")
	}
	a := &vfC15Act{Kind: "ok", Variant: "fresh", Ver: l.Ver, Body: body}
	w.install(t, l, a)
	req, _ := json.Marshal(map[string]any{"name": fmt.Sprintf("list %d", l.Idx), "url": l.URL, "whitelist": false})
	code, resp := w.call(t, http.MethodPost, "/control/filtering/add_url", req)
	if code != http.StatusOK {
		t.Fatalf("add_url of a list with %d rules refused: %d %s", exps[0].Count, code, resp)
	}
	w.drain(t)
	// the identifier the program has given it
	_, sbody := w.call(t, http.MethodGet, "/control/filtering/status", nil)
	st := vfC15Status{}
	if err := json.Unmarshal(sbody, &st); err != nil {
		t.Fatalf("GET /control/filtering/status: %v", err)
	}
	for _, f := range st.Filters {
		if f.URL == l.URL {
			l.ID = rulelist.URLFilterID(f.ID)
		}
	}
	if l.ID == 0 {
		t.Fatalf("the added list %s is not in the status", l.URL)
	}
	for _, o := range w.lists {
		if o.ID == l.ID {
			t.Fatalf("the added list %s was given the identifier %d, which list %d (%s) has: both are stored in %s",
				l.URL, l.ID, o.Idx, o.kind(), w.filterPath(o))
		}
	}
	w.lists = append(w.lists, l)
	p := vfC15NewPending(fmt.Sprintf("add_url of list %d", l.Idx))
	p.changed[l.Idx] = true
	p.newNF[l.Idx] = exps[0]
	p.raw[l.Idx] = body
	p.outcomes[l.Idx] = "changed"
	w.pending = p
	l.Hist = append(l.Hist, "add=changed")
	vfC15.Class("refresh:add_list")
	if w.restarts > 0 {
		vfC15.Class("refresh:add_list_after_restart")
	}
}

func (w *vfC15World) restart(t vfC15TB) {
	w.d.Close()
	w.newFilter(t)
	w.pending = vfC15NewPending("restart")
	w.restarts++
	vfC15.Class("refresh:restart")
}

// vfC15Spec describes one list of a world.
type vfC15Spec struct {
	Allow bool
	Local bool
}

// vfC15NewWorld makes a data directory, a list server and a DNSFilter with the
// given lists (block lists first).
func vfC15NewWorld(t vfC15TB, specs []vfC15Spec) (w *vfC15World) {
	dir, err := os.MkdirTemp("", "vfc15-")
	if err != nil {
		t.Fatalf("VERIF-INCONCLUSIVE temp dir: %v", err)
	}
	w = &vfC15World{dir: dir}
	if err = os.Mkdir(filepath.Join(dir, "local"), 0o755); err != nil {
		w.close()
		t.Fatalf("VERIF-INCONCLUSIVE local dir: %v", err)
	}

	w.srv = &vfC15Server{acts: map[int]*vfC15Act{}, hits: map[int]int{}}
	w.srv.srv = httptest.NewUnstartedServer(w.srv)
	w.srv.srv.Start()
	w.client = &http.Client{Timeout: 30 * time.Second, Transport: &http.Transport{}}

	for i, sp := range specs {
		l := &vfC15List{Idx: i + 1, ID: rulelist.URLFilterID(i + 1), Allow: sp.Allow, Local: sp.Local}
		if l.Allow {
			l.ID = rulelist.URLFilterID(100 + i)
		}
		if l.Local {
			l.URL = filepath.Join(dir, "local", fmt.Sprintf("list%d.txt", l.Idx))
		} else {
			l.URL = fmt.Sprintf("%s/l/%d", w.srv.srv.URL, l.Idx)
		}
		w.lists = append(w.lists, l)
	}

	w.newFilter(t)

	return w
}

// TestVFC15Refresh: histories of refreshes against scripted sources.
func TestVFC15Refresh(t *testing.T) {
	vfkit.Begin(t)
	vfC15Quiet()

	rapid.Check(t, func(t *rapid.T) {
		s := vfC15
		s.Eval()

		nBlock := rapid.IntRange(1, 3).Draw(t, "block_lists")
		nAllow := rapid.IntRange(0, 2).Draw(t, "allow_lists")
		var specs []vfC15Spec
		for i := 0; i < nBlock+nAllow; i++ {
			specs = append(specs, vfC15Spec{
				Allow: i >= nBlock,
				Local: rapid.IntRange(0, 3).Draw(t, fmt.Sprintf("l%d_local", i+1)) == 0,
			})
		}
		w := vfC15NewWorld(t, specs)
		defer w.close()

		t.Repeat(map[string]func(*rapid.T){
			"refresh_api_block": func(t *rapid.T) { w.refresh(t, "api", true, false, true) },
			"refresh_api_allow": func(t *rapid.T) { w.refresh(t, "api", false, true, true) },
			"refresh_forced": func(t *rapid.T) {
				sel := rapid.IntRange(0, 2).Draw(t, "groups")
				w.refresh(t, "direct", sel != 2, sel != 1, true)
			},
			"refresh_scheduled": func(t *rapid.T) { w.refresh(t, "direct", true, true, false) },
			"refresh_scheduled_one": func(t *rapid.T) {
				sel := rapid.IntRange(1, 2).Draw(t, "groups")
				w.refresh(t, "direct", sel != 2, sel != 1, false)
			},
			"restart":        func(t *rapid.T) { w.restart(t) },
			"failed_repoint": func(t *rapid.T) { w.failedRepoint(t) },
			"mirror_repoint": func(t *rapid.T) { w.mirrorRepoint(t) },
			"add_list":       func(t *rapid.T) { w.addList(t) },
			"":               func(t *rapid.T) { w.verify(t) },
		})

		// Coverage of the history.
		s.ClassN("refresh:refreshes", w.refreshs)
		for _, l := range w.lists {
			s.Class("refresh:lists:" + l.kind())
			// Non-trivial: a failure after a success, and a later success
			// with other content.
			stage := 0
			for _, h := range l.Hist {
				switch {
				case stage == 0 && strings.HasSuffix(h, "=changed"):
					stage = 1
				case stage == 1 && strings.HasSuffix(h, "=fail"):
					stage = 2
				case stage == 2 && strings.HasSuffix(h, "=changed"):
					stage = 3
				}
			}
			if stage == 3 {
				s.Class("refresh:nontrivial")
				key := "refresh|" + l.kind() + "|" + strings.Join(l.Hist, ";")
				s.Nontrivial(key)
				if s.WantSample("refresh:nontrivial") {
					s.Sample("refresh:nontrivial", map[string]any{"list": l.kind(), "history": l.Hist})
				}
			}
		}
	})
}
