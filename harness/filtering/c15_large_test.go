//go:build verif

package filtering

// C15 (size of the source): "for all list texts".  The refresh histories work
// with sources of some hundred bytes; here the source of a list is large, from
// about a megabyte to more than a hundred megabytes, most of it comments and
// blank lines (so that the normal form and the engines stay small), with rules
// spread over its whole length and the rule that decides the probe name of the
// version on its last line.  A successful refresh must store the normal form
// of the whole source, count its rules and put them in force, whatever the
// size; the model, the observations and the oracle are the ones of
// TestVFC15Refresh (verify).

import (
	"bytes"
	"fmt"
	"strconv"
	"testing"

	"github.com/AdguardTeam/AdGuardHome/internal/vfkit"
	"pgregory.net/rapid"
)

// vfC15LargeBody builds a source of about size bytes for version ver of l.
func vfC15LargeBody(l *vfC15List, ver, size, commentLen, ruleEvery int, crlf bool) (body []byte) {
	last := []byte("||" + l.probeHost(ver) + "^\n")
	term := "\n"
	if crlf {
		term = "\r\n"
	}

	comment := append(bytes.Repeat([]byte("! padding "), commentLen/10+1)[:commentLen], term...)
	buf := bytes.NewBuffer(make([]byte, 0, size+len(comment)+64))
	fmt.Fprintf(buf, "! Title: large source v%d\n||%s^\n", ver, l.probeHost(0))
	num := make([]byte, 0, 64)
	for i := 1; buf.Len()+len(last) < size; i++ {
		switch {
		case i%ruleEvery == 0:
			num = append(num[:0], "||r"...)
			num = strconv.AppendInt(num, int64(i), 10)
			num = append(num, ".v"...)
			num = strconv.AppendInt(num, int64(ver), 10)
			num = append(num, ".largefiller.test^"...)
			num = append(num, term...)
			buf.Write(num)
		case i%97 == 0:
			buf.WriteString(term)
		default:
			buf.Write(comment)
		}
	}
	buf.Write(last)

	return buf.Bytes()
}

// TestVFC15LargeSource: a small first version, then two large ones.
func TestVFC15LargeSource(t *testing.T) {
	vfkit.Begin(t)
	vfC15Quiet()

	rapid.Check(t, func(t *rapid.T) {
		spec := vfC15Spec{Allow: rapid.Bool().Draw(t, "allow_list"), Local: rapid.Bool().Draw(t, "local_file")}
		w := vfC15NewWorld(t, []vfC15Spec{spec})
		defer w.close()
		l := w.lists[0]

		// size classes: windows of 16 MiB (rapid's integer ranges favour their
		// lower end, so the window is drawn first, then the place inside it)
		windows := []int{16, 32, 48, 64, 80, 96}
		if vfkit.Thorough() {
			windows = append(windows, 112, 128, 144)
		}
		large := func(label string) (size int) {
			win := rapid.SampledFrom(windows).Draw(t, label+"_window_mib")

			return win<<20 + rapid.IntRange(0, 16<<20-1).Draw(t, label+"_offset")
		}
		sizes := []int{
			rapid.SampledFrom([]int{1 << 10, 1 << 20, 5 << 20}).Draw(t, "first_size"),
			large("second"),
			large("third"),
		}
		for i, size := range sizes {
			label := fmt.Sprintf("v%d", i+1)
			commentLen := rapid.SampledFrom([]int{70, 900, 3000}).Draw(t, label+"_comment_len")
			ruleEvery := rapid.SampledFrom([]int{9, 150}).Draw(t, label+"_rule_every")
			crlf := rapid.IntRange(0, 3).Draw(t, label+"_crlf") == 0
			chunked := !spec.Local && rapid.IntRange(0, 2).Draw(t, label+"_chunked") == 0
			how := rapid.SampledFrom([]string{"forced", "scheduled", "api"}).Draw(t, label+"_how")

			l.Ver++
			a := &vfC15Act{Kind: "ok", Variant: "fresh", Ver: l.Ver, Chunked: chunked,
				Body: vfC15LargeBody(l, l.Ver, size, commentLen, ruleEvery, crlf)}
			pl := &vfC15Plan{How: how, Block: !spec.Allow, Allow: spec.Allow, Force: how != "scheduled",
				Due: map[int]bool{l.Idx: true}, Acts: map[int]*vfC15Act{l.Idx: a}}
			w.run(t, pl)
			if out := w.pending.outcomes[l.Idx]; out != "changed" {
				t.Fatalf("VERIF-INCONCLUSIVE the model expects %q of a fresh large source", out)
			}
			w.verify(t)

			vfC15.Eval()
			vfC15.Class(fmt.Sprintf("large_source:%dMiB", len(a.Body)>>24<<4))
			vfC15.Class("large_source:" + l.kind())
			vfC15.Nontrivial(fmt.Sprintf("large_source|%d|%d|%s|%d|%d|%t", i, len(a.Body), l.kind(), commentLen, ruleEvery, crlf))
		}
	})
}
