// Package vfkit is the shared support code of the /verif property harnesses.
// It is injected into the AdGuard Home module through a build overlay (it is
// never present in the working tree of /repo) and holds what every check needs:
// measured coverage counters, distinct-case fingerprints, samples, the
// known-findings list and small deterministic helpers.
package vfkit

import (
	"encoding/json"
	"fmt"
	"hash/fnv"
	"os"
	"sort"
	"strings"
	"sync"
	"sync/atomic"
	"time"
)

// Stats collects what one test process covered.  All methods are safe for
// concurrent use.
type Stats struct {
	mu         sync.Mutex
	prop       string
	evals      int64
	classes    map[string]int64
	nontrivial map[uint64]struct{}
	samples    map[string][]any
	notes      map[string]any
	excluded   map[string]int64
	known      []string
}

var (
	global   = map[string]*Stats{}
	globalMu sync.Mutex
)

// For returns the process-wide collector of a property.
func For(prop string) (s *Stats) {
	globalMu.Lock()
	defer globalMu.Unlock()

	s = global[prop]
	if s == nil {
		s = &Stats{
			prop:       prop,
			classes:    map[string]int64{},
			nontrivial: map[uint64]struct{}{},
			samples:    map[string][]any{},
			notes:      map[string]any{},
			excluded:   map[string]int64{},
		}
		global[prop] = s
	}

	return s
}

// Eval counts one generated case (one execution of a property body or one
// decision inside it, as the check defines).
func (s *Stats) Eval() { s.EvalN(1) }

// EvalN counts n generated cases.
func (s *Stats) EvalN(n int) {
	s.mu.Lock()
	s.evals += int64(n)
	s.mu.Unlock()
}

// Class counts an occurrence of a named class of cases.
func (s *Stats) Class(name string) { s.ClassN(name, 1) }

// ClassN adds n to a named class.
func (s *Stats) ClassN(name string, n int) {
	s.mu.Lock()
	s.classes[name] += int64(n)
	s.mu.Unlock()
}

// Excluded counts a case shape that was excluded by construction because of a
// listed known finding.
func (s *Stats) Excluded(name string) {
	s.mu.Lock()
	s.excluded[name]++
	s.mu.Unlock()
}

// Nontrivial records a case that is non-trivial by the check's stated rule.
// key is the canonical description whose hash decides distinctness.
func (s *Stats) Nontrivial(key string) {
	h := fnv.New64a()
	_, _ = h.Write([]byte(key))
	v := h.Sum64()

	s.mu.Lock()
	s.nontrivial[v] = struct{}{}
	s.mu.Unlock()
}

// maxSamplesPerClass bounds the samples kept per class.
const maxSamplesPerClass = 3

// Sample keeps v as an example of class (first few only).
func (s *Stats) Sample(class string, v any) {
	s.mu.Lock()
	defer s.mu.Unlock()

	if len(s.samples[class]) < maxSamplesPerClass {
		s.samples[class] = append(s.samples[class], v)
	}
}

// WantSample reports whether another sample of class would be kept; use it to
// avoid building expensive sample values.
func (s *Stats) WantSample(class string) (ok bool) {
	s.mu.Lock()
	defer s.mu.Unlock()

	return len(s.samples[class]) < maxSamplesPerClass
}

// Note stores a free-form measured value.
func (s *Stats) Note(key string, v any) {
	s.mu.Lock()
	s.notes[key] = v
	s.mu.Unlock()
}

// KnownLine records a KNOWN-FINDING line to be printed by the driver.
func (s *Stats) KnownLine(what string) {
	line := fmt.Sprintf("KNOWN-FINDING: property=%s %s", s.prop, what)
	s.mu.Lock()
	s.known = append(s.known, line)
	s.mu.Unlock()
	fmt.Println(line)
}

type dump struct {
	Property   string           `json:"property"`
	Evals      int64            `json:"evaluations"`
	Classes    map[string]int64 `json:"classes"`
	Nontrivial []uint64         `json:"nontrivial_hashes"`
	Samples    map[string][]any `json:"samples"`
	Notes      map[string]any   `json:"notes"`
	Excluded   map[string]int64 `json:"excluded"`
	Known      []string         `json:"known_lines"`
}

// Begin must be called first in every top-level harness test; it makes the
// collectors be written out when the test ends.  (Harness files cannot define
// TestMain, most packages of the repository already have one.)
func Begin(t interface{ Cleanup(func()) }) {
	t.Cleanup(Flush)
}

// Flush writes all collectors of this process to the file named by
// VERIF_STATS_OUT (one JSON document: list of per-property dumps).
func Flush() {
	path := os.Getenv("VERIF_STATS_OUT")
	if path == "" {
		return
	}

	globalMu.Lock()
	defer globalMu.Unlock()

	var out []dump
	for _, s := range global {
		s.mu.Lock()
		d := dump{
			Property: s.prop,
			Evals:    s.evals,
			Classes:  s.classes,
			Samples:  s.samples,
			Notes:    s.notes,
			Excluded: s.excluded,
			Known:    s.known,
		}
		for h := range s.nontrivial {
			d.Nontrivial = append(d.Nontrivial, h)
		}
		sort.Slice(d.Nontrivial, func(i, j int) bool { return d.Nontrivial[i] < d.Nontrivial[j] })
		s.mu.Unlock()
		out = append(out, d)
	}
	sort.Slice(out, func(i, j int) bool { return out[i].Property < out[j].Property })

	b, err := json.Marshal(out)
	if err != nil {
		fmt.Fprintf(os.Stderr, "vfkit: marshal stats: %v\n", err)

		return
	}

	err = os.WriteFile(path, b, 0o644)
	if err != nil {
		fmt.Fprintf(os.Stderr, "vfkit: write stats: %v\n", err)
	}
}

// finding is one entry of /verif/known_findings.json.
type finding struct {
	Property  string `json:"property"`
	Signature string `json:"signature"`
	Status    string `json:"status"`
	What      string `json:"what"`
}

var (
	findingsOnce sync.Once
	findings     []finding
)

func loadFindings() {
	path := os.Getenv("VERIF_KNOWN_FINDINGS")
	if path == "" {
		return
	}

	b, err := os.ReadFile(path)
	if err != nil {
		return
	}

	var doc struct {
		Findings []finding `json:"findings"`
	}
	if json.Unmarshal(b, &doc) == nil {
		findings = doc.Findings
	}
}

// KnownOpen reports whether an *open* known finding with this signature is
// listed for the property, and returns its description.
func KnownOpen(prop, signature string) (what string, ok bool) {
	findingsOnce.Do(loadFindings)
	for _, f := range findings {
		if f.Property == prop && f.Signature == signature && strings.EqualFold(f.Status, "open") {
			return f.What, true
		}
	}

	return "", false
}

// Tier returns "quick" or "thorough".
func Tier() (t string) {
	t = os.Getenv("VERIF_TIER")
	if t != "thorough" {
		t = "quick"
	}

	return t
}

// Thorough reports whether the thorough tier runs.
func Thorough() (ok bool) { return Tier() == "thorough" }

// Pick returns q in the quick tier and t in the thorough tier.
func Pick(q, t int) (n int) {
	if Thorough() {
		return t
	}

	return q
}

// WaitProgress waits for done.  It gives up, returning false, only when the
// progress counter has not moved for quiet: a program that is merely slow
// (a loaded machine, the race detector) keeps completing operations, a
// deadlocked one completes none.  A wall-clock bound on the whole program
// would call starvation a stall.
func WaitProgress(done <-chan struct{}, progress *atomic.Int64, quiet time.Duration) (finished bool) {
	last := progress.Load()
	lastMove := time.Now()
	tick := time.NewTicker(250 * time.Millisecond)
	defer tick.Stop()
	for {
		select {
		case <-done:
			return true
		case <-tick.C:
			if cur := progress.Load(); cur != last {
				last, lastMove = cur, time.Now()
			} else if time.Since(lastMove) > quiet {
				return false
			}
		}
	}
}
