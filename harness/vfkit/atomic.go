package vfkit

// Kernel-level observation of file replacement for the C14 harnesses: an
// inotify watch records every event a save causes in the destination directory
// (and in the staging directory), and CheckAtomicHistory judges the history.

import (
	"bytes"
	"crypto/sha256"
	"encoding/binary"
	"fmt"
	"os"
	"os/exec"
	"path/filepath"
	"regexp"
	"sort"
	"strconv"
	"strings"
	"sync"
	"syscall"
	"unsafe"
)

// FSEvent is one inotify event.
type FSEvent struct {
	Dir  string
	Name string
	Mask uint32
}

// String renders the event with symbolic mask bits.
func (e FSEvent) String() (s string) {
	var bits []string
	for _, b := range []struct {
		m uint32
		n string
	}{
		{syscall.IN_ACCESS, "ACCESS"}, {syscall.IN_MODIFY, "MODIFY"}, {syscall.IN_ATTRIB, "ATTRIB"},
		{syscall.IN_CLOSE_WRITE, "CLOSE_WRITE"}, {syscall.IN_CLOSE_NOWRITE, "CLOSE_NOWRITE"}, {syscall.IN_OPEN, "OPEN"},
		{syscall.IN_MOVED_FROM, "MOVED_FROM"}, {syscall.IN_MOVED_TO, "MOVED_TO"}, {syscall.IN_CREATE, "CREATE"},
		{syscall.IN_DELETE, "DELETE"}, {syscall.IN_DELETE_SELF, "DELETE_SELF"}, {syscall.IN_MOVE_SELF, "MOVE_SELF"},
		{syscall.IN_ISDIR, "ISDIR"}, {syscall.IN_Q_OVERFLOW, "Q_OVERFLOW"},
	} {
		if e.Mask&b.m != 0 {
			bits = append(bits, b.n)
		}
	}

	return fmt.Sprintf("%s %s/%s", strings.Join(bits, "|"), filepath.Base(e.Dir), e.Name)
}

// Watcher is an inotify instance over some directories.
type Watcher struct {
	fd   int
	dirs map[int32]string
}

// NewWatcher watches dirs (not recursively) for all events.
func NewWatcher(dirs ...string) (w *Watcher, err error) {
	fd, err := syscall.InotifyInit1(syscall.IN_NONBLOCK | syscall.IN_CLOEXEC)
	if err != nil {
		return nil, fmt.Errorf("inotify_init1: %w", err)
	}
	w = &Watcher{fd: fd, dirs: map[int32]string{}}
	seen := map[string]bool{}
	for _, d := range dirs {
		if seen[d] {
			continue
		}
		seen[d] = true
		// read-only accesses are not recorded: concurrent readers would flood
		// the queue and they cannot break atomicity
		const mask = syscall.IN_ALL_EVENTS &^ (syscall.IN_OPEN | syscall.IN_ACCESS | syscall.IN_CLOSE_NOWRITE)
		wd, aerr := syscall.InotifyAddWatch(fd, d, mask)
		if aerr != nil {
			_ = syscall.Close(fd)

			return nil, fmt.Errorf("inotify_add_watch %s: %w", d, aerr)
		}
		w.dirs[int32(wd)] = d
	}

	return w, nil
}

// NewOpenWatcher watches dirs (not recursively) for files being opened: the
// kernel's own record of which files a piece of code has read, whatever it did
// with the content.
func NewOpenWatcher(dirs ...string) (w *Watcher, err error) {
	fd, err := syscall.InotifyInit1(syscall.IN_NONBLOCK | syscall.IN_CLOEXEC)
	if err != nil {
		return nil, fmt.Errorf("inotify_init1: %w", err)
	}
	w = &Watcher{fd: fd, dirs: map[int32]string{}}
	for _, d := range dirs {
		wd, aerr := syscall.InotifyAddWatch(fd, d, syscall.IN_OPEN)
		if aerr != nil {
			_ = syscall.Close(fd)

			return nil, fmt.Errorf("inotify_add_watch %s: %w", d, aerr)
		}
		w.dirs[int32(wd)] = d
	}

	return w, nil
}

// IsOpen reports whether e is the opening of a file (not of a directory).
func (e FSEvent) IsOpen() (ok bool) {
	return e.Mask&syscall.IN_OPEN != 0 && e.Mask&syscall.IN_ISDIR == 0
}

// Drain returns all events queued so far.  Events are queued by the kernel
// inside the system call that causes them, so after a save has returned Drain
// sees its complete history.
func (w *Watcher) Drain() (evs []FSEvent, err error) {
	buf := make([]byte, 1<<16)
	for {
		n, rerr := syscall.Read(w.fd, buf)
		if rerr == syscall.EAGAIN || n == 0 {
			return evs, nil
		}
		if rerr == syscall.EINTR {
			continue
		}
		if rerr != nil {
			return evs, rerr
		}
		for off := 0; off+syscall.SizeofInotifyEvent <= n; {
			raw := (*syscall.InotifyEvent)(unsafe.Pointer(&buf[off]))
			nameLen := int(raw.Len)
			name := ""
			if nameLen > 0 {
				b := buf[off+syscall.SizeofInotifyEvent : off+syscall.SizeofInotifyEvent+nameLen]
				name = string(bytes.TrimRight(b, "\x00"))
			}
			if raw.Mask&syscall.IN_Q_OVERFLOW != 0 {
				return evs, fmt.Errorf("inotify queue overflow")
			}
			evs = append(evs, FSEvent{Dir: w.dirs[raw.Wd], Name: name, Mask: raw.Mask})
			off += syscall.SizeofInotifyEvent + nameLen
		}
	}
}

// Close releases the inotify instance.
func (w *Watcher) Close() { _ = syscall.Close(w.fd) }

// forbiddenOnDest are the events that mean the destination name itself was
// written in place, created non-atomically, or was absent for a moment.
const forbiddenOnDest = syscall.IN_MODIFY | syscall.IN_CLOSE_WRITE | syscall.IN_CREATE | syscall.IN_DELETE | syscall.IN_MOVED_FROM

// CheckAtomicHistory judges the event history of one save of destDir/destName:
// at every gap between two events (a crash point) the name must denote a
// complete old or complete new version, therefore the history may hold
// MOVED_TO (and reads / attribute changes) on the destination but no in-place
// modification, creation, deletion or move-away.  replaced reports whether the
// destination was replaced by a rename; crashPoints is the number of gaps
// enumerated.
func CheckAtomicHistory(evs []FSEvent, destDir, destName string) (replaced bool, crashPoints int, err error) {
	crashPoints = len(evs) + 1
	// What is renamed onto the destination must be a file written during this
	// save: one that was created, and then moved away, under the eyes of the
	// watcher (next to the destination or in the staging directory).  A file
	// that comes from elsewhere -- an old file of another format, say -- makes
	// the destination hold something that is neither the previous nor the new
	// version.
	created := map[string]bool{}
	movedAway := 0
	for i, e := range evs {
		if e.Dir != destDir || e.Name != destName {
			switch {
			case e.Mask&syscall.IN_CREATE != 0:
				created[e.Dir+"/"+e.Name] = true
			case e.Mask&syscall.IN_MOVED_FROM != 0 && created[e.Dir+"/"+e.Name]:
				movedAway++
			}

			continue
		}
		if e.Mask&syscall.IN_MOVED_TO != 0 {
			if movedAway == 0 {
				return replaced, crashPoints, fmt.Errorf("event %d of %d: the destination was replaced by a file that was not written during this save "+
					"(no file created under observation was moved away before): %s (history: %s)", i, len(evs), e, HistoryString(evs))
			}
			movedAway--
		}
		if e.Mask&forbiddenOnDest != 0 {
			return replaced, crashPoints, fmt.Errorf("event %d of %d on the destination is not atomic: %s (history: %s)",
				i, len(evs), e, HistoryString(evs))
		}
		if e.Mask&syscall.IN_MOVED_TO != 0 {
			replaced = true
		}
	}

	return replaced, crashPoints, nil
}

// HistoryString renders a history compactly.
func HistoryString(evs []FSEvent) (s string) {
	var parts []string
	for _, e := range evs {
		if e.Mask&(syscall.IN_OPEN|syscall.IN_ACCESS|syscall.IN_CLOSE_NOWRITE) != 0 && e.Mask&^(syscall.IN_OPEN|syscall.IN_ACCESS|syscall.IN_CLOSE_NOWRITE|syscall.IN_ISDIR) == 0 {
			continue
		}
		parts = append(parts, e.String())
	}
	if len(parts) > 40 {
		parts = append(parts[:20], append([]string{fmt.Sprintf("... %d more ...", len(parts)-40)}, parts[len(parts)-20:]...)...)
	}

	return strings.Join(parts, ", ")
}

// DirListing returns the sorted names in dir.
func DirListing(dir string) (names []string) {
	es, err := os.ReadDir(dir)
	if err != nil {
		return nil
	}
	for _, e := range es {
		names = append(names, e.Name())
	}
	sort.Strings(names)

	return names
}

// Sum is a short content hash.
func Sum(b []byte) (s string) {
	h := sha256.Sum256(b)

	return fmt.Sprintf("%x:%d", binary.BigEndian.Uint64(h[:8]), len(b))
}

// Reader samples the content of a path concurrently with saves.
type Reader struct {
	path string
	stop chan struct{}
	done sync.WaitGroup
	mu   sync.Mutex
	seen map[string]int
}

// StartReader starts n goroutines that keep re-reading path.
func StartReader(path string, n int) (r *Reader) {
	r = &Reader{path: path, stop: make(chan struct{}), seen: map[string]int{}}
	for i := 0; i < n; i++ {
		r.done.Add(1)
		go func() {
			defer r.done.Done()
			for {
				select {
				case <-r.stop:
					return
				default:
				}
				b, err := os.ReadFile(r.path)
				k := "ENOENT"
				if err == nil {
					k = Sum(b)
				} else if !os.IsNotExist(err) {
					k = "ERR:" + err.Error()
				}
				r.mu.Lock()
				r.seen[k]++
				r.mu.Unlock()
			}
		}()
	}

	return r
}

// Stop ends the sampling and returns what was observed (content hash -> count).
func (r *Reader) Stop() (seen map[string]int) {
	close(r.stop)
	r.done.Wait()

	return r.seen
}

// CheckSave performs one save under observation and judges it.
func CheckSave(
	t interface{ Fatalf(string, ...any) },
	kind string,
	w *Watcher,
	dir, name string,
	save func() error,
	wantReplace bool,
) (crashPoints int) {
	path := filepath.Join(dir, name)
	_, _ = w.Drain()
	tmpBefore := DirListing(os.TempDir())
	dirBefore := DirListing(dir)
	err := save()
	if err != nil {
		t.Fatalf("VERIF-INCONCLUSIVE %s: save failed: %v", kind, err)
	}
	evs, derr := w.Drain()
	if derr != nil {
		t.Fatalf("VERIF-INCONCLUSIVE %s: inotify: %v", kind, derr)
	}
	replaced, cp, aerr := CheckAtomicHistory(evs, dir, name)
	if aerr != nil {
		t.Fatalf("%s: %v", kind, aerr)
	}
	if wantReplace && !replaced {
		t.Fatalf("%s: the destination was not replaced by a rename; history: %s", kind, HistoryString(evs))
	}
	// no temporary file may survive, neither next to the destination nor in
	// the staging directory
	after := DirListing(dir)
	allowed := map[string]bool{name: true}
	for _, n := range dirBefore {
		allowed[n] = true
	}
	for _, n := range after {
		if !allowed[n] {
			t.Fatalf("%s: leftover file %q next to %s", kind, n, path)
		}
	}
	tb := map[string]bool{}
	for _, n := range tmpBefore {
		tb[n] = true
	}
	for _, n := range DirListing(os.TempDir()) {
		if !tb[n] {
			t.Fatalf("%s: leftover file %q in the staging directory", kind, n)
		}
	}

	return cp
}

var (
	reOpen   = regexp.MustCompile(`^(\d+)\s+openat\(AT_FDCWD, "([^"]+)", ([A-Z_|0-9]+)(?:, [0-7]+)?\)\s+= (\d+)`)
	reFdCall = regexp.MustCompile(`^(\d+)\s+(write|pwrite64|fsync|fdatasync|close|ftruncate)\((\d+)`)
	reRename = regexp.MustCompile(`^(\d+)\s+rename(?:at2?)?\((?:AT_FDCWD, )?"([^"]+)", (?:AT_FDCWD, )?"([^"]+)"`)
)

// StraceCheck re-executes this test binary under strace running helper and
// verifies the write/fsync/rename order for dest.  It returns the number of
// renames onto dest that were checked.
func StraceCheck(t interface{ Fatalf(string, ...any) }, dir, helper, dest string) (checked int, err error) {
	strace, lerr := exec.LookPath("strace")
	if lerr != nil {
		t.Fatalf("VERIF-INCONCLUSIVE strace not found: %v", lerr)
	}
	trace := filepath.Join(dir, "trace.txt")
	cmd := exec.Command(strace, "-f", "-o", trace, "-e", "trace=openat,write,pwrite64,fsync,fdatasync,rename,renameat,renameat2,close,ftruncate",
		os.Args[0], "-test.run", "^"+helper+"$", "-test.count=1")
	cmd.Env = append(os.Environ(), "VERIF_C14_CHILD="+dir, "VERIF_STATS_OUT=")
	out, rerr := cmd.CombinedOutput()
	if rerr != nil {
		t.Fatalf("VERIF-INCONCLUSIVE traced child failed: %v\n%s", rerr, out)
	}
	b, rerr := os.ReadFile(trace)
	if rerr != nil {
		t.Fatalf("VERIF-INCONCLUSIVE no trace: %v", rerr)
	}

	// file descriptors are shared between the threads of the child, so they are
	// tracked per process, not per thread
	type fdState struct {
		path       string
		wrote      bool
		syncedLast bool
	}
	fds := map[int]*fdState{}
	byPath := map[string]*fdState{}
	for _, line := range strings.Split(string(b), "\n") {
		if m := reOpen.FindStringSubmatch(line); m != nil {
			fd, _ := strconv.Atoi(m[4])
			st := &fdState{path: m[2], syncedLast: true}
			fds[fd] = st
			if strings.Contains(m[3], "O_WRONLY") || strings.Contains(m[3], "O_RDWR") {
				byPath[m[2]] = st
				if m[2] == dest {
					return checked, fmt.Errorf("the destination %s is opened for writing in place: %s", dest, line)
				}
			}

			continue
		}
		if m := reFdCall.FindStringSubmatch(line); m != nil {
			fd, _ := strconv.Atoi(m[3])
			st := fds[fd]
			if st == nil {
				continue
			}
			switch m[2] {
			case "write", "pwrite64", "ftruncate":
				st.wrote = true
				st.syncedLast = false
			case "fsync", "fdatasync":
				st.syncedLast = true
			case "close":
				delete(fds, fd)
			}

			continue
		}
		if m := reRename.FindStringSubmatch(line); m != nil {
			if m[3] != dest {
				continue
			}
			st := byPath[m[2]]
			if st == nil {
				return checked, fmt.Errorf("rename onto %s from %q, a file this process did not write", dest, m[2])
			}
			if st.wrote && !st.syncedLast {
				return checked, fmt.Errorf("rename onto %s of a file whose last write was not followed by fsync: %s", dest, line)
			}
			checked++
		}
	}
	if checked == 0 {
		return 0, fmt.Errorf("VERIF-INCONCLUSIVE no rename onto %s found in the trace", dest)
	}

	return checked, nil
}
