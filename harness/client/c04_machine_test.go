//go:build verif

package client

// C04, part 1: histories.  A rapid state machine drives client.Storage with
// add / update (rename, drop, add, move identifiers) / remove operations and
// DHCP lease changes over a small closed vocabulary in which names and
// identifiers collide all the time, and compares, after every step, the
// registry's content, every lookup by name / identifier / address and the
// effective filtering settings of requests with the reference model of
// c04_model_test.go.

import (
	"encoding/hex"
	"fmt"
	"net"
	"net/netip"
	"sort"
	"strings"
	"testing"

	"github.com/AdguardTeam/AdGuardHome/internal/vfkit"
	"pgregory.net/rapid"
)

var vfC04Names = []string{"a", "b", "c", "d", "e", "f", "g", "h", "i"}

func vfC04MustAddrs(ss ...string) (as []netip.Addr) {
	for _, s := range ss {
		as = append(as, netip.MustParseAddr(s))
	}

	return as
}

// vfC04Pool is the closed address vocabulary: documentation ranges, network
// and broadcast addresses, zoned link-local, unspecified, IPv4-mapped.
var vfC04Pool = vfC04MustAddrs(
	"10.0.0.1", "10.0.0.2", "10.0.0.0", "10.0.1.1", "10.1.0.1", "10.255.255.255",
	"192.0.2.1", "192.0.2.129", "0.0.0.0", "172.16.5.5",
	"2001:db8::1", "2001:db8::2", "2001:db8:1::1", "2001:db8:ffff:ffff:ffff:ffff:ffff:ffff",
	"fe80::1", "fe80::1%eth0", "fe80::1%eth1", "::", "::1", "::ffff:10.0.0.1", "::ffff:192.0.2.1",
)

var (
	vfC04Bits4 = []int{0, 8, 16, 24, 25, 30, 31, 32}
	vfC04Bits6 = []int{0, 10, 32, 48, 64, 96, 104, 127, 128}
)

// vfC04Prefixes is every masked network obtainable from the pool.
var vfC04Prefixes = func() (ps []netip.Prefix) {
	seen := map[netip.Prefix]bool{}
	for _, a := range vfC04Pool {
		a = a.WithZone("")
		bits := vfC04Bits6
		if a.Is4() {
			bits = vfC04Bits4
		}
		for _, b := range bits {
			p := netip.PrefixFrom(a, b).Masked()
			if !seen[p] {
				seen[p] = true
				ps = append(ps, p)
			}
		}
	}
	sort.Slice(ps, func(i, j int) bool { return ps[i].String() < ps[j].String() })

	return ps
}()

// vfC04LeaseOnlyMACs are link-layer addresses of lengths no client identifier
// can have.
var vfC04LeaseOnlyMACs = [][]byte{
	{0x02, 0x00, 0x5e, 0x00, 0x53, 0x01, 0x77},
	{0x02},
	{0x02, 0x00, 0x5e, 0x10, 0, 0, 0, 1, 2, 3, 4, 5, 6, 7, 8, 9},
}

var vfC04MACs = func() (ms [][]byte) {
	for _, s := range []string{
		"02005e005301", "02005e005302", "02005e005303", "02005e0053ff",
		"02005e1000000001", "02005e10000000fe",
		"00000000fe8000000000000002005e1000000001", "00000000fe8000000000000002005e10000000aa",
	} {
		b, err := hex.DecodeString(s)
		if err != nil {
			panic(err)
		}
		ms = append(ms, b)
	}

	return ms
}()

var vfC04CIDs = []string{"cid-a", "cid-b", "phone", "tv", "x1", "a", "10", "kid"}

var vfC04Services = []string{"youtube", "facebook", "tiktok"}

var vfC04Tags = []string{"device_pc", "user_child", "os_linux"}

// vfC04MACText spells a MAC in one of the notations net.ParseMAC reads and
// that cannot be read as an IP address (8-byte MACs are never spelled with
// colons for that reason).
func vfC04MACText(mac []byte, form int) (s string) {
	h := hex.EncodeToString(mac)
	groups := func(n int, sep string) string {
		var g []string
		for i := 0; i < len(h); i += n {
			g = append(g, h[i:i+n])
		}

		return strings.Join(g, sep)
	}
	switch form % 4 {
	case 0:
		if len(mac) == 8 {
			return groups(2, "-")
		}

		return groups(2, ":")
	case 1:
		if len(mac) == 8 {
			return strings.ToUpper(groups(2, "-"))
		}

		return strings.ToUpper(groups(2, ":"))
	case 2:
		return groups(2, "-")
	default:
		return groups(4, ".")
	}
}

func vfC04IDOfAddr(a netip.Addr, form int) vfC04ID {
	text := a.String()
	if form%5 == 4 && a.Is6() {
		text = a.StringExpanded()
	}

	return vfC04ID{Kind: vfC04IP, Key: a.String(), Text: text, Addr: a}
}

func vfC04IDOfPrefix(p netip.Prefix, form int) vfC04ID {
	text := p.String()
	if form%5 == 4 && p.Addr().Is6() {
		text = fmt.Sprintf("%s/%d", p.Addr().StringExpanded(), p.Bits())
	}

	return vfC04ID{Kind: vfC04CIDR, Key: p.String(), Text: text, Pref: p}
}

func vfC04IDOfMAC(mac []byte, form int) vfC04ID {
	return vfC04ID{Kind: vfC04MAC, Key: hex.EncodeToString(mac), Text: vfC04MACText(mac, form), MAC: mac}
}

func vfC04IDOfCID(cid string, form int) vfC04ID {
	text := cid
	switch form % 5 {
	case 3:
		text = strings.ToUpper(cid[:1]) + cid[1:]
	case 4:
		text = strings.ToUpper(cid)
	}

	return vfC04ID{Kind: vfC04CID, Key: cid, Text: text}
}

// respell returns the same identifier in another notation.
func (id vfC04ID) respell(form int) vfC04ID {
	switch id.Kind {
	case vfC04IP:
		return vfC04IDOfAddr(id.Addr, form)
	case vfC04CIDR:
		return vfC04IDOfPrefix(id.Pref, form)
	case vfC04MAC:
		return vfC04IDOfMAC(id.MAC, form)
	default:
		return vfC04IDOfCID(id.Key, form)
	}
}

// vfC04LastAddr returns the last address of a network.
func vfC04LastAddr(p netip.Prefix) netip.Addr {
	return vfC04HostAddr(p, ^uint64(0), ^uint64(0))
}

// vfC04HostAddr returns the address of network p whose host bits are taken
// from hi:lo.
func vfC04HostAddr(p netip.Prefix, hi, lo uint64) netip.Addr {
	p = p.Masked()
	b := p.Addr().AsSlice()
	var fill [16]byte
	for i := 0; i < 8; i++ {
		fill[i] = byte(hi >> (56 - 8*i))
		fill[8+i] = byte(lo >> (56 - 8*i))
	}
	f := fill[16-len(b):]
	for i := range b {
		for bit := 0; bit < 8; bit++ {
			if i*8+bit >= p.Bits() {
				b[i] |= f[i] & (0x80 >> bit)
			}
		}
	}
	a, _ := netip.AddrFromSlice(b)

	return a
}

// vfC04Machine is the state of one generated history.
type vfC04Machine struct {
	sys *vfC04Sys

	// universe is every identifier ever used in an attempted operation.
	universe []vfC04ID
	seenID   map[string]bool
	// probes are the addresses looked up after every step: the pool plus
	// first / last / one drawn address of every network ever used.
	probes   []netip.Addr
	seenAddr map[netip.Addr]bool

	history []string

	// reasons the history is non-trivial by the stated rule
	droppedID, movedID, rejectedClash, cidrSpecificity, dhcpDecided bool
}

func vfC04NewMachine(t *rapid.T) (mc *vfC04Machine) {
	sys, err := vfC04NewSys(t, nil)
	if err != nil {
		t.Fatalf("VERIF-INCONCLUSIVE cannot create the storage: %v", err)
	}
	mc = &vfC04Machine{sys: sys, seenID: map[string]bool{}, seenAddr: map[netip.Addr]bool{}}
	for _, a := range vfC04Pool {
		mc.addProbe(a)
	}

	return mc
}

func (mc *vfC04Machine) addProbe(a netip.Addr) {
	if !mc.seenAddr[a] {
		mc.seenAddr[a] = true
		mc.probes = append(mc.probes, a)
	}
}

// note registers the identifiers of an attempted operation.
func (mc *vfC04Machine) note(t *rapid.T, c *vfC04Client) {
	for _, id := range c.IDs {
		if mc.seenID[id.String()] {
			continue
		}
		mc.seenID[id.String()] = true
		mc.universe = append(mc.universe, id)
		switch id.Kind {
		case vfC04IP:
			mc.addProbe(id.Addr)
		case vfC04CIDR:
			mc.addProbe(id.Pref.Masked().Addr())
			mc.addProbe(vfC04LastAddr(id.Pref))
			r := rapid.Uint64().Draw(t, "host_bits_of_"+id.Key)
			mc.addProbe(vfC04HostAddr(id.Pref, r*0x9e3779b97f4a7c15, r))
		}
	}
}

// othersIDs lists the identifiers owned by clients other than self.
func (mc *vfC04Machine) othersIDs(self string) (ids []vfC04ID) {
	m := mc.sys.m
	for _, n := range m.names() {
		if n != self {
			ids = append(ids, m.clients[n].IDs...)
		}
	}

	return ids
}

// drawFreeID draws an identifier that no client other than self owns.  The
// kind is drawn; when every value of that kind is taken the next kind that has
// a free value is used (the vocabulary is small on purpose and long histories
// can exhaust a kind).
func (mc *vfC04Machine) drawFreeID(t *rapid.T, label, self string) vfC04ID {
	taken := map[string]bool{}
	nets := map[netip.Prefix]bool{}
	for _, id := range mc.othersIDs(self) {
		taken[id.String()] = true
		if id.Kind == vfC04CIDR {
			nets[id.Pref.Masked()] = true
		}
	}
	var freeIPs []netip.Addr
	for _, a := range vfC04Pool {
		if !taken["ip:"+a.String()] {
			freeIPs = append(freeIPs, a)
		}
	}
	var freeNets []netip.Prefix
	for _, p := range vfC04Prefixes {
		if !nets[p] {
			freeNets = append(freeNets, p)
		}
	}
	var freeMACs [][]byte
	for _, m := range vfC04MACs {
		if !taken["mac:"+hex.EncodeToString(m)] {
			freeMACs = append(freeMACs, m)
		}
	}
	var freeCIDs []string
	for _, c := range vfC04CIDs {
		if !taken["clientid:"+c] {
			freeCIDs = append(freeCIDs, c)
		}
	}
	avail := [4]int{vfC04IP: len(freeIPs), vfC04CIDR: len(freeNets), vfC04MAC: len(freeMACs), vfC04CID: len(freeCIDs)}

	form := rapid.IntRange(0, 4).Draw(t, label+"_form")
	kind := rapid.SampledFrom([]vfC04Kind{
		vfC04IP, vfC04IP, vfC04IP, vfC04CIDR, vfC04CIDR, vfC04CIDR, vfC04CIDR, vfC04MAC, vfC04MAC, vfC04CID, vfC04CID,
	}).Draw(t, label+"_kind")
	for i := 0; i < 4 && avail[kind] == 0; i++ {
		kind = (kind + 1) % 4
	}
	if avail[kind] == 0 {
		t.Skip("every identifier of the vocabulary is taken")
	}

	switch kind {
	case vfC04IP:
		return vfC04IDOfAddr(rapid.SampledFrom(freeIPs).Draw(t, label+"_ip"), form)
	case vfC04CIDR:
		p := rapid.SampledFrom(freeNets).Draw(t, label+"_net")
		if rapid.IntRange(0, 11).Draw(t, label+"_hostbits") == 0 {
			// spelled with host bits set: still the same network
			for _, a := range vfC04Pool {
				a = a.WithZone("")
				if p.Contains(a) && a != p.Addr() {
					p = netip.PrefixFrom(a, p.Bits())

					break
				}
			}
		}

		return vfC04IDOfPrefix(p, form)
	case vfC04MAC:
		return vfC04IDOfMAC(rapid.SampledFrom(freeMACs).Draw(t, label+"_mac"), form)
	default:
		return vfC04IDOfCID(rapid.SampledFrom(freeCIDs).Draw(t, label+"_cid"), form)
	}
}

// drawTakenID draws an identifier that another client owns (nil if none).
func (mc *vfC04Machine) drawTakenID(t *rapid.T, label, self string) *vfC04ID {
	others := mc.othersIDs(self)
	if len(others) == 0 {
		return nil
	}
	id := rapid.SampledFrom(others).Draw(t, label+"_of_other")
	id = id.respell(rapid.IntRange(0, 4).Draw(t, label+"_form"))
	if id.Kind == vfC04CIDR && rapid.IntRange(0, 5).Draw(t, label+"_other_hostbits") == 0 {
		// the same network spelled with other host bits: outcome left open
		last := vfC04LastAddr(id.Pref)
		if q := netip.PrefixFrom(last, id.Pref.Bits()); q != id.Pref {
			id = vfC04IDOfPrefix(q, 0)
		}
	}

	return &id
}

// drawSettings fills the non-identifying part of a client.
func vfC04DrawSettings(t *rapid.T, c *vfC04Client, label string) {
	bits := rapid.Uint16().Draw(t, label+"_settings")
	c.OwnSettings = bits&1 != 0
	c.Filtering = bits&2 != 0
	c.SafeBrowsing = bits&4 != 0
	c.Parental = bits&8 != 0
	c.SafeSearch = bits&16 != 0
	c.OwnBlocked = bits&32 != 0
	c.Blocked = nil
	for i, s := range vfC04Services {
		if bits&(64<<i) != 0 {
			c.Blocked = append(c.Blocked, s)
		}
	}
	c.Tags = nil
	for i, s := range vfC04Tags {
		if bits&(512<<i) != 0 {
			c.Tags = append(c.Tags, s)
		}
	}
	c.ss = &vfC04SafeSearch{owner: c.Name}
}

// drawName draws a client name: mostly unused, sometimes taken, rarely empty.
func (mc *vfC04Machine) drawName(t *rapid.T, label, self string) string {
	var free, taken []string
	for _, n := range vfC04Names {
		if _, ok := mc.sys.m.clients[n]; ok && n != self {
			taken = append(taken, n)
		} else if n != self {
			free = append(free, n)
		}
	}
	k := rapid.IntRange(0, 19).Draw(t, label+"_namekind")
	switch {
	case k == 11 && rapid.Bool().Draw(t, label+"_empty_name"):
		return ""
	case k >= 16 && len(taken) > 0, len(free) == 0:
		return rapid.SampledFrom(taken).Draw(t, label+"_taken_name")
	default:
		return rapid.SampledFrom(free).Draw(t, label+"_free_name")
	}
}

// drawNewClient draws a client for add (or for an update of a missing name).
func (mc *vfC04Machine) drawNewClient(t *rapid.T) (c *vfC04Client) {
	c = &vfC04Client{Name: mc.drawName(t, "new", "")}
	n := 1 + rapid.IntRange(0, 19).Draw(t, "new_nids")%4
	if rapid.IntRange(0, 30).Draw(t, "new_no_ids") == 17 {
		n = 0
	}
	for i := 0; i < n; i++ {
		c.IDs = append(c.IDs, mc.drawFreeID(t, fmt.Sprintf("new_id%d", i), ""))
	}
	if n > 0 && rapid.IntRange(0, 3).Draw(t, "new_collide") == 0 {
		if id := mc.drawTakenID(t, "new_taken", ""); id != nil {
			c.IDs[rapid.IntRange(0, n-1).Draw(t, "new_collide_at")] = *id
		}
	}
	vfC04DrawSettings(t, c, "new")

	return c
}

func (mc *vfC04Machine) log(t *rapid.T, format string, args ...any) {
	s := fmt.Sprintf(format, args...)
	mc.history = append(mc.history, s)
	t.Logf("%s", s)
}

func vfC04IDKeys(ids []vfC04ID) (ks []string) {
	for _, id := range ids {
		ks = append(ks, id.String())
	}

	return ks
}

// record classifies an attempted add/update.
func (mc *vfC04Machine) record(t *rapid.T, op, name string, c *vfC04Client, o vfC04Outcome) {
	res := "rejected"
	if o.Accepted {
		res = "accepted"
	}
	mc.log(t, "%s(%q -> name=%q ids=%v own=%t ownbs=%t) %s [%s]", op, name, c.Name, vfC04IDKeys(c.IDs),
		c.OwnSettings, c.OwnBlocked, res, o.Why)
	vfC04.Class(fmt.Sprintf("op:%s:%s:%s", op, res, o.Why))
	if strings.HasPrefix(o.Why, "clash:") && !o.Accepted {
		mc.rejectedClash = true
	}
}

func (mc *vfC04Machine) actAdd(t *rapid.T) {
	c := mc.drawNewClient(t)
	mc.note(t, c)
	o := mc.sys.add(t, c)
	mc.record(t, "add", "", c, o)
}

func (mc *vfC04Machine) actUpdate(t *rapid.T) {
	m := mc.sys.m
	names := m.names()
	if len(names) == 0 || rapid.IntRange(0, 15).Draw(t, "upd_missing") == 7 {
		// update of a name that does not exist
		var free []string
		for _, n := range vfC04Names {
			if _, ok := m.clients[n]; !ok {
				free = append(free, n)
			}
		}
		if len(free) == 0 {
			t.Skip("no unused name")
		}
		name := rapid.SampledFrom(free).Draw(t, "upd_missing_name")
		c := mc.drawNewClient(t)
		mc.note(t, c)
		o := mc.sys.update(t, name, c)
		mc.record(t, "update", name, c, o)

		return
	}

	name := rapid.SampledFrom(names).Draw(t, "upd_name")
	old := m.clients[name]
	c := &vfC04Client{Name: old.Name}
	*c = *old
	c.IDs = nil
	for i, id := range old.IDs {
		c.IDs = append(c.IDs, id.respell(rapid.IntRange(0, 4).Draw(t, fmt.Sprintf("upd_keep%d_form", i))))
	}

	what := rapid.IntRange(1, 31).Draw(t, "upd_what")
	if what&1 != 0 && rapid.Bool().Draw(t, "upd_rename") {
		c.Name = mc.drawName(t, "upd", name)
	}
	dropped := false
	if what&2 != 0 && len(c.IDs) > 0 {
		n := rapid.IntRange(1, len(c.IDs)).Draw(t, "upd_ndrop")
		if n == len(c.IDs) && rapid.IntRange(0, 4).Draw(t, "upd_drop_all") != 0 {
			n = len(c.IDs) - 1
		}
		for i := 0; i < n; i++ {
			at := rapid.IntRange(0, len(c.IDs)-1).Draw(t, fmt.Sprintf("upd_drop%d", i))
			c.IDs = append(c.IDs[:at:at], c.IDs[at+1:]...)
			dropped = true
		}
	}
	if what&4 != 0 {
		n := rapid.IntRange(1, 2).Draw(t, "upd_nadd")
		for i := 0; i < n; i++ {
			c.IDs = append(c.IDs, mc.drawFreeID(t, fmt.Sprintf("upd_add%d", i), name))
		}
	}
	if what&8 != 0 && rapid.Bool().Draw(t, "upd_collide") {
		if id := mc.drawTakenID(t, "upd_taken", name); id != nil {
			c.IDs = append(c.IDs, *id)
		}
	}
	if what&16 != 0 {
		vfC04DrawSettings(t, c, "upd")
	}
	c.ss = &vfC04SafeSearch{owner: c.Name}

	mc.note(t, c)
	o := mc.sys.update(t, name, c)
	mc.record(t, "update", name, c, o)
	if o.Accepted {
		if c.Name != name {
			vfC04.Class("op:update:renamed")
		}
		if dropped && vfC04Lost(old, c) {
			mc.droppedID = true
			vfC04.Class("op:update:dropped_identifier")
		}
	}
}

// vfC04Lost reports whether old owned an identifier that c does not.
func vfC04Lost(old, c *vfC04Client) bool {
	have := map[string]bool{}
	for _, id := range c.IDs {
		have[id.String()] = true
	}
	for _, id := range old.IDs {
		if !have[id.String()] {
			return true
		}
	}

	return false
}

// actMove moves one identifier from a client to another with two updates.
func (mc *vfC04Machine) actMove(t *rapid.T) {
	m := mc.sys.m
	names := m.names()
	if len(names) < 2 {
		t.Skip("need two clients")
	}
	from := rapid.SampledFrom(names).Draw(t, "move_from")
	var rest []string
	for _, n := range names {
		if n != from {
			rest = append(rest, n)
		}
	}
	to := rapid.SampledFrom(rest).Draw(t, "move_to")
	donor := m.clients[from]
	x := rapid.SampledFrom(donor.IDs).Draw(t, "move_id")

	d := &vfC04Client{}
	*d = *donor
	d.IDs = nil
	for _, id := range donor.IDs {
		if id.String() != x.String() {
			d.IDs = append(d.IDs, id)
		}
	}
	if len(d.IDs) == 0 {
		d.IDs = append(d.IDs, mc.drawFreeID(t, "move_refill", from))
		if d.IDs[0].String() == x.String() {
			t.Skip("refill drew the moved identifier")
		}
	}
	d.ss = &vfC04SafeSearch{owner: d.Name}
	mc.note(t, d)
	o := mc.sys.update(t, from, d)
	mc.record(t, "update", from, d, o)

	recv := m.clients[to]
	r := &vfC04Client{}
	*r = *recv
	r.IDs = append(append([]vfC04ID(nil), recv.IDs...), x.respell(rapid.IntRange(0, 4).Draw(t, "move_form")))
	r.ss = &vfC04SafeSearch{owner: r.Name}
	mc.note(t, r)
	o = mc.sys.update(t, to, r)
	mc.record(t, "update", to, r, o)
	if o.Accepted {
		mc.movedID = true
		vfC04.Class("op:update:moved_identifier")
	}
}

func (mc *vfC04Machine) actRemove(t *rapid.T) {
	m := mc.sys.m
	names := m.names()
	var name string
	if len(names) == 0 || rapid.IntRange(0, 6).Draw(t, "rm_missing") == 0 {
		name = rapid.SampledFrom(vfC04Names).Draw(t, "rm_any_name")
	} else {
		name = rapid.SampledFrom(names).Draw(t, "rm_name")
	}
	existed := mc.sys.remove(t, name)
	mc.log(t, "remove(%q) existed=%t", name, existed)
	vfC04.Class(fmt.Sprintf("op:remove:existed=%t", existed))
}

func (mc *vfC04Machine) actDHCP(t *rapid.T) {
	addr := rapid.SampledFrom(mc.probes).Draw(t, "lease_addr")
	if _, has := mc.sys.m.dhcp[addr]; has && rapid.IntRange(0, 2).Draw(t, "lease_del") == 0 {
		mc.sys.setLease(addr, nil)
		mc.log(t, "lease(%s) removed", addr)
		vfC04.Class("op:lease:removed")

		return
	}
	var mac []byte
	// prefer MACs that clients have used
	var used [][]byte
	for _, id := range mc.universe {
		if id.Kind == vfC04MAC {
			used = append(used, id.MAC)
		}
	}
	if len(used) > 0 && rapid.IntRange(0, 3).Draw(t, "lease_used_mac") != 0 {
		mac = rapid.SampledFrom(used).Draw(t, "lease_mac_used")
	} else {
		// a lease carries whatever link-layer address the DHCP client
		// reported (DHCPv6 takes it from the DUID, at any length): such an
		// address belongs to no client
		mac = rapid.SampledFrom(append(append([][]byte{}, vfC04MACs...), vfC04LeaseOnlyMACs...)).Draw(t, "lease_mac")
	}
	mc.sys.setLease(addr, mac)
	mc.log(t, "lease(%s) = %x", addr, mac)
	vfC04.Class("op:lease:set")
}

// actReload rebuilds the registry from its own content.
func (mc *vfC04Machine) actReload(t *rapid.T) {
	names := mc.sys.m.names()
	if len(names) == 0 {
		t.Skip("empty registry")
	}
	order := rapid.Permutation(names).Draw(t, "reload_order")
	mc.sys.reload(t, order)
	mc.log(t, "reload(%v)", order)
	vfC04.Class("op:reload")
}

// invariant looks up everything after every step.
func (mc *vfC04Machine) invariant(t *rapid.T) {
	sys := mc.sys
	sys.checkDump(t, "invariant")

	for _, n := range vfC04Names {
		sys.checkFindByName(t, n)
	}
	sys.checkFindByName(t, "")

	g := vfC04GlobalsFromBits(rapid.Uint8().Draw(t, "globals"))
	cids := append([]string{"unknown-cid"}, vfC04CIDs...)
	sweepCID := rapid.SampledFrom(cids).Draw(t, "sweep_clientid")

	for _, a := range mc.probes {
		sys.checkFindAddr(t, a)
		mc.seen(sys.checkApply(t, "", a, g))
		mc.seen(sys.checkApply(t, sweepCID, a, g))
	}
	// no address at all (a request whose source is unknown)
	mc.seen(sys.checkApply(t, sweepCID, netip.Addr{}, g))

	for _, id := range mc.universe {
		switch id.Kind {
		case vfC04CID:
			sys.checkFindID(t, id, id.Key)
		case vfC04MAC:
			sys.checkFindID(t, id, id.Text)
			sys.checkFindID(t, id, vfC04MACText(id.MAC, 2))
			if len(id.MAC) == 8 {
				mc.checkFindMAC8Colon(t, id)
			}
		}
	}
	for _, c := range vfC04CIDs {
		sys.checkFindID(t, vfC04IDOfCID(c, 0), c)
	}
	for _, mac := range vfC04MACs {
		sys.checkFindID(t, vfC04IDOfMAC(mac, 0), vfC04MACText(mac, 0))
	}

	// FindLoose: whatever it returns must be a current client, and when the
	// identifier resolves by itself it must resolve the same way.
	for i := 0; i < 2; i++ {
		a := rapid.SampledFrom(mc.probes).Draw(t, "loose_addr")
		cid := rapid.SampledFrom(cids).Draw(t, "loose_id")
		p, found := sys.s.FindLoose(a, cid)
		if found != (p != nil) {
			t.Fatalf("FindLoose(%s, %q): ok=%t client=%v", a, cid, found, p)
		}
		if owner := sys.m.owner(vfC04CID, cid); owner != "" && (!found || p.Name != owner) {
			t.Fatalf("FindLoose(%s, %q) = %v, the ClientID belongs to %q", a, cid, p, owner)
		}
		if found {
			cur, ok := sys.m.clients[p.Name]
			if !ok || cur.render() != vfC04RenderReal(p) {
				t.Fatalf("FindLoose(%s, %q) returned a client that is not in the registry (any more): %s", a, cid, vfC04RenderReal(p))
			}
		}
		vfC04.Class("find:loose")
	}
}

// checkFindMAC8Colon: an 8-byte MAC spelled with colons is also the spelling of
// an IPv6 address; the statement does not say which reading wins, so either
// owner is accepted.
func (mc *vfC04Machine) checkFindMAC8Colon(t *rapid.T, id vfC04ID) {
	sys := mc.sys
	text := net.HardwareAddr(id.MAC).String()
	ok := map[string]bool{sys.m.owner(vfC04MAC, id.Key): true}
	if a, err := netip.ParseAddr(text); err == nil {
		_, more, _ := sys.m.allowed("", a)
		for n := range more {
			ok[n] = true
		}
	}
	p, found := sys.s.Find(text)
	sys.checkFound(t, vfC04Lazy(func() string { return fmt.Sprintf("Find(%q)", text) }), p, found, ok, false)
	vfC04.Class("find:mac8_colon_ambiguous")
}

func (mc *vfC04Machine) seen(d vfC04Decision) {
	if d.Specificity {
		mc.cidrSpecificity = true
	}
	if d.How == "dhcp_mac" {
		mc.dhcpDecided = true
	}
}

// TestVFC04Machine: for all histories of add / update / remove / lease change,
// after every step the registry equals the model, every lookup follows the
// ownership of the moment, operations are accepted exactly when they share no
// name or identifier with another client, and rejected ones change nothing.
func TestVFC04Machine(t *testing.T) {
	vfkit.Begin(t)
	rapid.Check(t, func(t *rapid.T) {
		mc := vfC04NewMachine(t)
		defer mc.sys.close()

		t.Repeat(map[string]func(*rapid.T){
			"":        mc.invariant,
			"add":     mc.actAdd,
			"add_":    mc.actAdd,
			"update":  mc.actUpdate,
			"update_": mc.actUpdate,
			"move":    mc.actMove,
			"remove":  mc.actRemove,
			"dhcp":    mc.actDHCP,
			"reload":  mc.actReload,
		})

		vfC04.Eval()
		vfC04.Class("history")
		vfC04.ClassN("history_steps", len(mc.history))
		var why []string
		for _, r := range []struct {
			on   bool
			name string
		}{
			{mc.droppedID, "dropped_identifier"}, {mc.movedID, "moved_identifier"}, {mc.rejectedClash, "rejected_clash"},
			{mc.cidrSpecificity, "cidr_specificity"}, {mc.dhcpDecided, "dhcp_mac"},
		} {
			if r.on {
				why = append(why, r.name)
				vfC04.Class("nontrivial:" + r.name)
			}
		}
		if len(why) > 0 {
			vfC04.Nontrivial("history|" + strings.Join(mc.history, "|"))
			if len(why) >= 3 && vfC04.WantSample("history") {
				vfC04.Sample("history", map[string]any{
					"steps": mc.history, "nontrivial_because": why, "final_registry": mc.sys.modelDump(),
				})
			}
		} else {
			vfC04.Class("history_trivial")
		}
	})
}
