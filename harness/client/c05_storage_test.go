//go:build verif

package client

// C05 (client registry part): adding, updating and removing persistent clients
// while DNS request goroutines ask the registry for the settings of a request
// (by ClientID, address, network and the MAC of the DHCP lease), for names for
// the query log and for upstream configurations never races or panics.  Run
// under the race detector; the program is written to program.json first.

import (
	"context"
	"encoding/json"
	"fmt"
	"net"
	"net/netip"
	"os"
	"runtime"
	"runtime/debug"
	"strings"
	"sync"
	"sync/atomic"
	"testing"
	"time"

	"github.com/AdguardTeam/AdGuardHome/internal/dhcpsvc"
	"github.com/AdguardTeam/AdGuardHome/internal/filtering"
	"github.com/AdguardTeam/AdGuardHome/internal/vfkit"
	"github.com/AdguardTeam/golibs/logutil/slogutil"
	"pgregory.net/rapid"
)

var vfC05S = vfkit.For("C05")

// vfC05SDHCP is a DHCP double with a fixed lease table (read-only, so it adds
// no synchronisation of its own).
type vfC05SDHCP struct {
	macs map[netip.Addr]net.HardwareAddr
}

func (d *vfC05SDHCP) Leases() (ls []*dhcpsvc.Lease) {
	for ip, mac := range d.macs {
		ls = append(ls, &dhcpsvc.Lease{IP: ip, HWAddr: mac, Hostname: "lease-" + ip.String()})
	}

	return ls
}
func (d *vfC05SDHCP) HostByIP(netip.Addr) string { return "" }
func (d *vfC05SDHCP) MACByIP(ip netip.Addr) net.HardwareAddr {
	return d.macs[ip]
}

// vfC05SStep is one step of one goroutine.
type vfC05SStep struct {
	Op   string `json:"op"`
	Name string `json:"name,omitempty"`
	Addr string `json:"addr,omitempty"`
	ID   string `json:"id,omitempty"`
}

type vfC05SProgram struct {
	RuntimeDHCP bool           `json:"runtime_source_dhcp"`
	Readers     [][]vfC05SStep `json:"readers"`
	Writers     [][]vfC05SStep `json:"writers"`
}

var (
	vfC05SLeased   = []string{"10.20.30.40", "10.20.30.41", "10.20.30.42"}
	vfC05SAddrs    = []string{"10.20.30.40", "10.20.30.41", "10.20.30.42", "192.0.2.10", "192.0.2.77", "198.51.100.9", "2001:db8::5"}
	vfC05SIDs      = []string{"", "", "kid", "guest", "tv"}
	vfC05SNames    = []string{"alpha", "beta", "gamma", "delta"}
	vfC05SReadOps  = []string{"apply", "apply", "apply", "find", "find_loose", "find_by_name", "range", "size", "runtime", "range_runtime", "upstream_conf"}
	vfC05SWriteOps = []string{"add", "add", "update", "update", "remove", "update_dhcp", "update_address", "clear_upstream_cache"}
)

func vfC05SMac(i int) net.HardwareAddr { return net.HardwareAddr{0x02, 0, 0, 0, 0x55, byte(i)} }

func TestVFC05ClientStoragePrograms(t *testing.T) {
	vfkit.Begin(t)

	run := func(t interface{ Fatalf(string, ...any) }, p *vfC05SProgram) {
		ctx := context.Background()
		d := &vfC05SDHCP{macs: map[netip.Addr]net.HardwareAddr{}}
		for i, a := range vfC05SLeased {
			d.macs[netip.MustParseAddr(a)] = vfC05SMac(i)
		}
		s, err := NewStorage(ctx, &StorageConfig{
			Logger: slogutil.NewDiscardLogger(), Clock: vfC04Clock{}, DHCP: d, RuntimeSourceDHCP: p.RuntimeDHCP,
			InitialClients: []*Persistent{{
				// known by the hardware address of its lease only
				Name: "leased", UID: MustNewUID(), MACs: []net.HardwareAddr{vfC05SMac(0)},
				UseOwnSettings: true, BlockedServices: &filtering.BlockedServices{},
			}},
		})
		if err != nil {
			t.Fatalf("VERIF-INCONCLUSIVE NewStorage: %v", err)
		}
		defer func() { _ = s.Shutdown(ctx) }()

		var failMu sync.Mutex
		var failures []string
		fail := func(format string, args ...any) {
			failMu.Lock()
			defer failMu.Unlock()
			if len(failures) < 3 {
				failures = append(failures, fmt.Sprintf(format, args...))
			}
		}
		// Writers are serialised with each other the way home serialises
		// mutating API calls.
		var control sync.Mutex
		persistent := func(st vfC05SStep, variant int) (pc *Persistent) {
			pc = &Persistent{
				Name: st.Name, UID: MustNewUID(), UseOwnSettings: variant%2 == 0, FilteringEnabled: true,
				UseOwnBlockedServices: variant%3 == 0, BlockedServices: &filtering.BlockedServices{},
				Tags: []string{"device_pc"},
			}
			switch variant % 4 {
			case 0:
				pc.ClientIDs = []string{st.Name + "-id"}
			case 1:
				pc.IPs = []netip.Addr{netip.MustParseAddr(fmt.Sprintf("192.0.2.%d", 100+len(st.Name)+variant%7))}
			case 2:
				pc.MACs = []net.HardwareAddr{vfC05SMac(1 + variant%2)}
			default:
				pc.Subnets = []netip.Prefix{netip.MustParsePrefix(fmt.Sprintf("198.51.%d.0/24", 100+variant%5))}
			}

			return pc
		}
		do := func(st vfC05SStep, i int) {
			defer func() {
				if v := recover(); v != nil {
					fail("panic in %s: %v\n%s", st.Op, v, debug.Stack())
				}
			}()
			addr, _ := netip.ParseAddr(st.Addr)
			switch st.Op {
			case "apply":
				setts := &filtering.Settings{}
				s.ApplyClientFiltering(st.ID, addr, setts)
				_ = setts.ClientName
			case "find":
				if pc, ok := s.Find(st.Addr); ok {
					_ = pc.Name + fmt.Sprint(pc.IPs, pc.MACs)
				}
			case "find_loose":
				if pc, ok := s.FindLoose(addr, st.ID); ok {
					_ = pc.Name
				}
			case "find_by_name":
				if pc, ok := s.FindByName(st.Name); ok {
					_ = pc.Name + fmt.Sprint(pc.ClientIDs)
				}
			case "range":
				s.RangeByName(func(c *Persistent) (cont bool) { _ = c.Name; return true })
			case "size":
				_ = s.Size()
			case "runtime":
				if rc := s.ClientRuntime(addr); rc != nil {
					_, _ = rc.Info()
				}
			case "range_runtime":
				s.RangeRuntime(func(rc *Runtime) (cont bool) { _, _ = rc.Info(); return true })
			case "upstream_conf":
				_ = s.CustomUpstreamConfig(st.ID, addr)
			case "add":
				control.Lock()
				_ = s.Add(ctx, persistent(st, i))
				control.Unlock()
			case "update":
				control.Lock()
				_ = s.Update(ctx, st.Name, persistent(st, i+1))
				control.Unlock()
			case "remove":
				control.Lock()
				_ = s.RemoveByName(ctx, st.Name)
				control.Unlock()
			case "update_dhcp":
				s.UpdateDHCP(ctx)
			case "update_address":
				s.UpdateAddress(ctx, addr, "host-"+st.Name, nil)
			case "clear_upstream_cache":
				s.ClearUpstreamCache()
			}
		}

		var wg sync.WaitGroup
		var progress atomic.Int64
		start := make(chan struct{})
		spawn := func(steps []vfC05SStep, rounds int) {
			wg.Add(1)
			go func() {
				defer wg.Done()
				<-start
				for r := 0; r < rounds; r++ {
					for i, st := range steps {
						do(st, i+r)
						progress.Add(1)
						if i%4 == 3 {
							runtime.Gosched()
						}
					}
				}
			}()
		}
		for _, g := range p.Readers {
			spawn(g, 8)
		}
		for _, g := range p.Writers {
			spawn(g, 8)
		}
		done := make(chan struct{})
		go func() { wg.Wait(); close(done) }()
		close(start)
		if !vfkit.WaitProgress(done, &progress, 60*time.Second) {
			buf := make([]byte, 1<<20)
			n := runtime.Stack(buf, true)
			t.Fatalf("stall: the registry program completed no operation for 60s\n%s", buf[:n])
		}

		vfC05S.Eval()
		vfC05S.Class("clients:program")
		b, _ := json.Marshal(p)
		vfC05S.Nontrivial("clients|" + string(b))
		if len(failures) > 0 {
			t.Fatalf("%s", strings.Join(failures, "\n"))
		}
	}

	if rf := os.Getenv("VERIF_REPLAY_FILE"); rf != "" {
		b, err := os.ReadFile(rf)
		p := &vfC05SProgram{}
		if err != nil || json.Unmarshal(b, p) != nil {
			t.Fatalf("VERIF-INCONCLUSIVE replay file: %v", err)
		}
		for i := 0; i < 20; i++ {
			run(t, p)
		}

		return
	}

	rapid.Check(t, func(t *rapid.T) {
		p := &vfC05SProgram{RuntimeDHCP: rapid.Bool().Draw(t, "runtime_source_dhcp")}
		step := func(ops []string, label string) vfC05SStep {
			return vfC05SStep{
				Op:   rapid.SampledFrom(ops).Draw(t, label+"_op"),
				Name: rapid.SampledFrom(vfC05SNames).Draw(t, label+"_name"),
				Addr: rapid.SampledFrom(vfC05SAddrs).Draw(t, label+"_addr"),
				ID:   rapid.SampledFrom(vfC05SIDs).Draw(t, label+"_id"),
			}
		}
		nr := rapid.IntRange(2, 4).Draw(t, "n_readers")
		for g := 0; g < nr; g++ {
			n := rapid.IntRange(4, 16).Draw(t, fmt.Sprintf("r%d_len", g))
			var steps []vfC05SStep
			for i := 0; i < n; i++ {
				steps = append(steps, step(vfC05SReadOps, fmt.Sprintf("r%d_%d", g, i)))
			}
			p.Readers = append(p.Readers, steps)
		}
		nw := rapid.IntRange(1, 2).Draw(t, "n_writers")
		for g := 0; g < nw; g++ {
			n := rapid.IntRange(3, 12).Draw(t, fmt.Sprintf("w%d_len", g))
			var steps []vfC05SStep
			for i := 0; i < n; i++ {
				steps = append(steps, step(vfC05SWriteOps, fmt.Sprintf("w%d_%d", g, i)))
			}
			p.Writers = append(p.Writers, steps)
		}
		b, _ := json.MarshalIndent(p, "", " ")
		if err := os.WriteFile("program.json", b, 0o644); err != nil {
			t.Fatalf("VERIF-INCONCLUSIVE write program: %v", err)
		}
		run(t, p)
		if vfC05S.WantSample("clients_program") {
			vfC05S.Sample("clients_program", p)
		}
	})
}
