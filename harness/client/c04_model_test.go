//go:build verif

package client

// Reference model and shared helpers of the C04 check (persistent-client
// registry and lookup precedence).  The model is written from the property
// statement: a registry is a set of clients with unique names and unique
// identifiers; a request (ClientID, address) belongs to the owner of the
// ClientID, else of the exact address, else of the most specific containing
// CIDR, else of the MAC the DHCP lease of the address names, else to nobody.
// Nothing here calls the index, the clash detection or the lookup code of the
// package; only netip/net of the standard library are used.

import (
	"context"
	"encoding/hex"
	"fmt"
	"net"
	"net/netip"
	"slices"
	"sort"
	"strings"
	"time"

	"github.com/AdguardTeam/AdGuardHome/internal/dhcpsvc"
	"github.com/AdguardTeam/AdGuardHome/internal/filtering"
	"github.com/AdguardTeam/AdGuardHome/internal/schedule"
	"github.com/AdguardTeam/AdGuardHome/internal/vfkit"
	"github.com/AdguardTeam/golibs/logutil/slogutil"
	"pgregory.net/rapid"
)

var vfC04 = vfkit.For("C04")

// vfC04Kind is the kind of a client identifier.
type vfC04Kind uint8

const (
	vfC04IP vfC04Kind = iota
	vfC04CIDR
	vfC04MAC
	vfC04CID
)

func (k vfC04Kind) String() string {
	return [...]string{"ip", "cidr", "mac", "clientid"}[k]
}

// vfC04ID is one identifier: its kind is known by construction, Key is the
// canonical value that decides identity, Text is the spelling handed to the
// code under test.
type vfC04ID struct {
	Kind vfC04Kind
	Key  string
	Text string
	Addr netip.Addr   // kind ip
	Pref netip.Prefix // kind cidr, as spelled (possibly with host bits)
	MAC  []byte       // kind mac
}

func (id vfC04ID) String() string { return id.Kind.String() + ":" + id.Key }

// vfC04Client is the model of one persistent client.
type vfC04Client struct {
	Name   string
	IDs    []vfC04ID
	Serial uint32 // distinguishes versions of a client (stored in UpstreamsCacheSize)

	OwnSettings  bool
	Filtering    bool
	SafeBrowsing bool
	Parental     bool
	SafeSearch   bool
	OwnBlocked   bool
	Blocked      []string
	Tags         []string

	ss *vfC04SafeSearch

	rendered string
}

// vfC04SafeSearch is an inert filtering.SafeSearch whose pointer identity tells
// whose safe-search object ended up in the effective settings.
type vfC04SafeSearch struct{ owner string }

func (*vfC04SafeSearch) CheckHost(context.Context, string, uint16) (filtering.Result, error) {
	return filtering.Result{}, nil
}

func (*vfC04SafeSearch) Update(context.Context, filtering.SafeSearchConfig) error { return nil }

// vfC04DHCP is the map-backed DHCP double.
type vfC04DHCP struct {
	macs map[netip.Addr]net.HardwareAddr
}

func (d *vfC04DHCP) Leases() []*dhcpsvc.Lease   { return nil }
func (d *vfC04DHCP) HostByIP(netip.Addr) string { return "" }
func (d *vfC04DHCP) MACByIP(ip netip.Addr) net.HardwareAddr {
	return slices.Clone(d.macs[ip])
}

// vfC04Clock is a fixed clock (the upstream manager wants one).
type vfC04Clock struct{}

func (vfC04Clock) Now() time.Time { return time.Unix(1700000000, 0) }

// vfC04Model is the reference registry.
type vfC04Model struct {
	clients map[string]*vfC04Client
	dhcp    map[netip.Addr]string // address -> hex of the lease's MAC

	// sorted caches names(); it is dropped by every change of clients.
	sorted []string
}

// put stores c under its name, replacing the client named old (if not empty).
func (m *vfC04Model) put(old string, c *vfC04Client) {
	if old != "" {
		delete(m.clients, old)
	}
	m.clients[c.Name] = c
	m.sorted = nil
}

// del removes the client named name.
func (m *vfC04Model) del(name string) {
	delete(m.clients, name)
	m.sorted = nil
}

func vfC04NewModel() *vfC04Model {
	return &vfC04Model{clients: map[string]*vfC04Client{}, dhcp: map[netip.Addr]string{}}
}

// names returns the client names in ascending order.
func (m *vfC04Model) names() (names []string) {
	if m.sorted != nil || len(m.clients) == 0 {
		return m.sorted
	}
	for n := range m.clients {
		names = append(names, n)
	}
	sort.Strings(names)
	m.sorted = names

	return names
}

// owner returns the name of the client that owns the identifier, or "".
func (m *vfC04Model) owner(kind vfC04Kind, key string) (name string) {
	for _, n := range m.names() {
		for _, id := range m.clients[n].IDs {
			if id.Kind == kind && id.Key == key {
				return n
			}
		}
	}

	return ""
}

// vfC04Verdict is what the model says about an add or update.
type vfC04Verdict uint8

const (
	vfC04Accept vfC04Verdict = iota
	vfC04Reject
	vfC04Either // the statement leaves it open (same network spelled with different host bits)
)

// judge tells whether storing c (replacing the client named self, if any)
// must be accepted or rejected.  why names the first reason.
func (m *vfC04Model) judge(c *vfC04Client, self string) (v vfC04Verdict, why string) {
	if c.Name == "" {
		return vfC04Reject, "invalid:empty_name"
	}
	if len(c.IDs) == 0 {
		return vfC04Reject, "invalid:no_ids"
	}

	ambiguous := ""
	for _, n := range m.names() {
		if n == self {
			continue
		}
		o := m.clients[n]
		if o.Name == c.Name {
			return vfC04Reject, "clash:name"
		}
		for _, a := range c.IDs {
			for _, b := range o.IDs {
				if a.Kind != b.Kind {
					continue
				}
				if a.Key == b.Key {
					return vfC04Reject, "clash:" + a.Kind.String()
				}
				if a.Kind == vfC04CIDR && a.Pref.Masked() == b.Pref.Masked() {
					ambiguous = "ambiguous:cidr_same_network"
				}
			}
		}
	}
	if ambiguous != "" {
		return vfC04Either, ambiguous
	}

	return vfC04Accept, "ok"
}

// vfC04Decision is the model's answer for one request.
type vfC04Decision struct {
	// Names are the clients the statement allows (one name; several only when
	// equally specific networks of different clients contain the address); empty
	// means the request belongs to nobody.
	Names []string
	// How is the precedence level that decided: clientid, ip, cidr, dhcp_mac, none.
	How string
	// Levels counts the precedence levels that had a candidate.
	Levels int
	// Specificity is set when the CIDR level decided among containing networks
	// of different lengths that belong to different clients.
	Specificity bool
	// Contested is set when a lower level would have named a different client.
	Contested bool
}

// decide applies the stated precedence.  cid may be empty (no ClientID).
func (m *vfC04Model) decide(cid string, addr netip.Addr) (d vfC04Decision) {
	var byCID, byIP, byMAC string
	var byCIDR []string

	if cid != "" {
		byCID = m.owner(vfC04CID, cid)
	}
	if addr.IsValid() {
		byIP = m.owner(vfC04IP, addr.String())

		// most specific containing network; zones are not part of networks
		plain := addr.WithZone("")
		best := -1
		lens := map[int]map[string]bool{}
		for _, n := range m.names() {
			for _, id := range m.clients[n].IDs {
				if id.Kind != vfC04CIDR || !id.Pref.Masked().Contains(plain) {
					continue
				}
				b := id.Pref.Bits()
				if lens[b] == nil {
					lens[b] = map[string]bool{}
				}
				lens[b][n] = true
				if b > best {
					best = b
				}
			}
		}
		if best >= 0 {
			for n := range lens[best] {
				byCIDR = append(byCIDR, n)
			}
			sort.Strings(byCIDR)
			for b, owners := range lens {
				if b == best {
					continue
				}
				for n := range owners {
					if !lens[best][n] {
						d.Specificity = true
					}
				}
			}
		}

		if mac, ok := m.dhcp[addr]; ok {
			byMAC = m.owner(vfC04MAC, mac)
		}
	}

	levels := [][]string{}
	for _, l := range [][]string{vfC04One(byCID), vfC04One(byIP), byCIDR, vfC04One(byMAC)} {
		if len(l) > 0 {
			levels = append(levels, l)
		}
	}
	d.Levels = len(levels)
	switch {
	case byCID != "":
		d.Names, d.How = []string{byCID}, "clientid"
	case byIP != "":
		d.Names, d.How = []string{byIP}, "ip"
	case len(byCIDR) > 0:
		d.Names, d.How = byCIDR, "cidr"
	case byMAC != "":
		d.Names, d.How = []string{byMAC}, "dhcp_mac"
	default:
		d.How = "none"
	}
	if d.How != "cidr" {
		d.Specificity = false
	}
	for _, l := range levels[min(1, len(levels)):] {
		if !slices.Equal(l, d.Names) {
			d.Contested = true
		}
	}

	return d
}

func vfC04One(s string) []string {
	if s == "" {
		return nil
	}

	return []string{s}
}

// allowed returns the decision and the set of names ("" = nobody) a correct
// implementation may attribute the request to.  Beyond the strict reading it
// admits the readings the statement does not exclude: an address with a zone
// read without it, an IPv4-mapped IPv6 address read as IPv4.
func (m *vfC04Model) allowed(cid string, addr netip.Addr) (d vfC04Decision, ok map[string]bool, loose bool) {
	d = m.decide(cid, addr)
	ok = map[string]bool{}
	add := func(x vfC04Decision) {
		if len(x.Names) == 0 {
			ok[""] = true
		}
		for _, n := range x.Names {
			ok[n] = true
		}
	}
	add(d)
	strict := len(ok)
	// A ClientID or an address that is itself a stored identifier resolves to
	// its owner, full stop; the other readings only matter below that.
	if d.How != "clientid" && d.How != "ip" {
		if addr.Zone() != "" {
			add(m.decide(cid, addr.WithZone("")))
		}
		if addr.Is4In6() {
			add(m.decide(cid, addr.Unmap()))
		}
	}

	return d, ok, len(ok) > strict || len(d.Names) > 1
}

// render gives the canonical description of a client used to compare the
// registry's content with the model's.
func (c *vfC04Client) render() string {
	if c.rendered != "" {
		return c.rendered
	}
	var ids [4][]string
	for _, id := range c.IDs {
		ids[id.Kind] = append(ids[id.Kind], id.Key)
	}
	for i := range ids {
		sort.Strings(ids[i])
	}
	tags := slices.Clone(c.Tags)
	sort.Strings(tags)

	c.rendered = fmt.Sprintf("name=%q serial=%d ips=%v cidrs=%v macs=%v cids=%v own=%t f=%t sb=%t p=%t ss=%t ownbs=%t bs=%v tags=%v",
		c.Name, c.Serial, ids[vfC04IP], ids[vfC04CIDR], ids[vfC04MAC], ids[vfC04CID],
		c.OwnSettings, c.Filtering, c.SafeBrowsing, c.Parental, c.SafeSearch, c.OwnBlocked, c.Blocked, tags)

	return c.rendered
}

// vfC04RenderReal describes a client returned by the code under test in the
// same form.
func vfC04RenderReal(p *Persistent) string {
	var ids [4][]string
	for _, ip := range p.IPs {
		ids[vfC04IP] = append(ids[vfC04IP], ip.String())
	}
	for _, pr := range p.Subnets {
		ids[vfC04CIDR] = append(ids[vfC04CIDR], pr.String())
	}
	for _, mac := range p.MACs {
		ids[vfC04MAC] = append(ids[vfC04MAC], hex.EncodeToString(mac))
	}
	ids[vfC04CID] = append(ids[vfC04CID], p.ClientIDs...)
	for i := range ids {
		sort.Strings(ids[i])
	}
	tags := slices.Clone(p.Tags)
	sort.Strings(tags)
	var bs []string
	if p.BlockedServices != nil {
		bs = p.BlockedServices.IDs
	}

	return fmt.Sprintf("name=%q serial=%d ips=%v cidrs=%v macs=%v cids=%v own=%t f=%t sb=%t p=%t ss=%t ownbs=%t bs=%v tags=%v",
		p.Name, p.UpstreamsCacheSize, ids[vfC04IP], ids[vfC04CIDR], ids[vfC04MAC], ids[vfC04CID],
		p.UseOwnSettings, p.FilteringEnabled, p.SafeBrowsingEnabled, p.ParentalEnabled, p.SafeSearchConf.Enabled,
		p.UseOwnBlockedServices, bs, tags)
}

// vfC04Sys couples the registry under test with its model.
type vfC04Sys struct {
	s      *Storage
	dhcp   *vfC04DHCP
	m      *vfC04Model
	uidSeq uint32
	serial uint32
}

func vfC04NewSys(t *rapid.T, initial []*Persistent) (sys *vfC04Sys, err error) {
	d := &vfC04DHCP{macs: map[netip.Addr]net.HardwareAddr{}}
	s, err := NewStorage(context.Background(), &StorageConfig{
		Logger:         slogutil.NewDiscardLogger(),
		Clock:          vfC04Clock{},
		DHCP:           d,
		InitialClients: initial,
	})
	if err != nil {
		return nil, err
	}

	return &vfC04Sys{s: s, dhcp: d, m: vfC04NewModel()}, nil
}

func (sys *vfC04Sys) close() {
	_ = sys.s.Shutdown(context.Background())
}

// reload replaces the registry by a new one that is given the model's clients
// as its initial list (the way the configuration file is loaded), in the given
// order.  A registry that holds no shared name or identifier must load.
func (sys *vfC04Sys) reload(t *rapid.T, order []string) {
	var initial []*Persistent
	for _, n := range order {
		initial = append(initial, sys.persistent(t, sys.m.clients[n]))
	}
	s, err := NewStorage(context.Background(), &StorageConfig{
		Logger:         slogutil.NewDiscardLogger(),
		Clock:          vfC04Clock{},
		DHCP:           sys.dhcp,
		InitialClients: initial,
	})
	if err != nil {
		t.Fatalf("the registry's own content was rejected as initial client list (order %v): %v\nregistry:\n  %s",
			order, err, strings.Join(sys.modelDump(), "\n  "))
	}
	sys.close()
	sys.s = s
	sys.checkDump(t, fmt.Sprintf("after reloading in order %v", order))
}

// nextUID returns a fresh deterministic UID.
func (sys *vfC04Sys) nextUID() (uid UID) {
	sys.uidSeq++
	uid[0], uid[6], uid[8] = 0x01, 0x70, 0x80
	uid[12] = byte(sys.uidSeq >> 24)
	uid[13] = byte(sys.uidSeq >> 16)
	uid[14] = byte(sys.uidSeq >> 8)
	uid[15] = byte(sys.uidSeq)

	return uid
}

// persistent builds the value handed to the code under test from a model
// client, through the production identifier parser, and checks that every
// identifier was read as the kind it was built as.
func (sys *vfC04Sys) persistent(t *rapid.T, c *vfC04Client) (p *Persistent) {
	p = &Persistent{
		Name:                  c.Name,
		UID:                   sys.nextUID(),
		SafeSearch:            c.ss,
		BlockedServices:       &filtering.BlockedServices{Schedule: schedule.EmptyWeekly(), IDs: slices.Clone(c.Blocked)},
		Tags:                  slices.Clone(c.Tags),
		UpstreamsCacheSize:    c.Serial,
		UseOwnSettings:        c.OwnSettings,
		FilteringEnabled:      c.Filtering,
		SafeBrowsingEnabled:   c.SafeBrowsing,
		ParentalEnabled:       c.Parental,
		UseOwnBlockedServices: c.OwnBlocked,
		SafeSearchConf:        filtering.SafeSearchConfig{Enabled: c.SafeSearch},
	}
	texts := make([]string, 0, len(c.IDs))
	for _, id := range c.IDs {
		texts = append(texts, id.Text)
	}
	err := p.SetIDs(texts)
	if err != nil {
		t.Fatalf("identifiers %q of client %q rejected by the identifier parser: %v", texts, c.Name, err)
	}
	if got, want := vfC04RenderReal(p), c.render(); got != want {
		t.Fatalf("identifiers %q were not read as the kinds they are:\n got  %s\n want %s", texts, got, want)
	}

	return p
}

// dump lists the registry's content through RangeByName.
func (sys *vfC04Sys) dump() (out []string) {
	sys.s.RangeByName(func(c *Persistent) bool {
		out = append(out, vfC04RenderReal(c))

		return true
	})

	return out
}

// modelDump is what dump must return.
func (sys *vfC04Sys) modelDump() (out []string) {
	for _, n := range sys.m.names() {
		out = append(out, sys.m.clients[n].render())
	}

	return out
}

// checkDump compares the registry's content and size with the model's.
func (sys *vfC04Sys) checkDump(t *rapid.T, when string) {
	got, want := sys.dump(), sys.modelDump()
	if !slices.Equal(got, want) {
		t.Fatalf("%s: registry content differs from the model\n got:\n  %s\n want:\n  %s",
			when, strings.Join(got, "\n  "), strings.Join(want, "\n  "))
	}
	if n := sys.s.Size(); n != len(want) {
		t.Fatalf("%s: Size() = %d, model has %d clients", when, n, len(want))
	}
}

// vfC04Outcome describes what an operation did.
type vfC04Outcome struct {
	Verdict  vfC04Verdict
	Why      string
	Accepted bool
}

// add performs Add on both sides and checks the outcome in both directions.
func (sys *vfC04Sys) add(t *rapid.T, c *vfC04Client) (o vfC04Outcome) {
	sys.serial++
	c.Serial, c.rendered = sys.serial, ""
	o.Verdict, o.Why = sys.m.judge(c, "")

	err := sys.s.Add(context.Background(), sys.persistent(t, c))
	o.Accepted = err == nil
	sys.settle(t, fmt.Sprintf("Add(%s)", c.render()), o, err, func() { sys.m.put("", c) })

	return o
}

// update performs Update(name, c) on both sides.
func (sys *vfC04Sys) update(t *rapid.T, name string, c *vfC04Client) (o vfC04Outcome) {
	sys.serial++
	c.Serial, c.rendered = sys.serial, ""
	if _, ok := sys.m.clients[name]; !ok {
		o.Verdict, o.Why = vfC04Reject, "missing"
	} else {
		o.Verdict, o.Why = sys.m.judge(c, name)
	}

	err := sys.s.Update(context.Background(), name, sys.persistent(t, c))
	o.Accepted = err == nil
	sys.settle(t, fmt.Sprintf("Update(%q, %s)", name, c.render()), o, err, func() { sys.m.put(name, c) })

	return o
}

// settle asserts the outcome against the model's verdict, applies the
// operation to the model when it was accepted, and compares the content.
func (sys *vfC04Sys) settle(t *rapid.T, what string, o vfC04Outcome, err error, apply func()) {
	switch o.Verdict {
	case vfC04Accept:
		if err != nil {
			t.Fatalf("%s: rejected although it shares no name or identifier with another client: %v", what, err)
		}
	case vfC04Reject:
		if err == nil {
			t.Fatalf("%s: accepted, want rejection (%s)", what, o.Why)
		}
	}
	if err == nil {
		apply()
	}
	sys.checkDump(t, "after "+what+fmt.Sprintf(" -> err=%v", err))
}

// remove performs RemoveByName on both sides.
func (sys *vfC04Sys) remove(t *rapid.T, name string) (existed bool) {
	_, existed = sys.m.clients[name]
	got := sys.s.RemoveByName(context.Background(), name)
	if got != existed {
		t.Fatalf("RemoveByName(%q) = %t, model says the client exists: %t", name, got, existed)
	}
	sys.m.del(name)
	sys.checkDump(t, fmt.Sprintf("after RemoveByName(%q)", name))

	return existed
}

// setLease changes the DHCP double and the model; mac nil removes the lease.
func (sys *vfC04Sys) setLease(addr netip.Addr, mac []byte) {
	if mac == nil {
		delete(sys.dhcp.macs, addr)
		delete(sys.m.dhcp, addr)

		return
	}
	sys.dhcp.macs[addr] = slices.Clone(mac)
	sys.m.dhcp[addr] = hex.EncodeToString(mac)
}

// vfC04Globals are the settings in force before the client is looked up.
type vfC04Globals struct {
	Protection, Filtering, SafeSearch, SafeBrowsing, Parental bool
	HasBlocked                                                bool
}

func vfC04GlobalsFromBits(b uint8) vfC04Globals {
	return vfC04Globals{b&1 != 0, b&2 != 0, b&4 != 0, b&8 != 0, b&16 != 0, b&32 != 0}
}

var vfC04GlobalSS = &vfC04SafeSearch{owner: "<global>"}

// checkApply asserts the effective settings for request (cid, addr).
func (sys *vfC04Sys) checkApply(t *rapid.T, cid string, addr netip.Addr, g vfC04Globals) (d vfC04Decision) {
	d, ok, loose := sys.m.allowed(cid, addr)

	var globalBS *filtering.BlockedServices
	if g.HasBlocked {
		globalBS = &filtering.BlockedServices{Schedule: schedule.EmptyWeekly(), IDs: []string{"<global-service>"}}
	}
	rules := []filtering.ServiceEntry{{Name: "<global-rule>"}}
	setts := &filtering.Settings{
		ClientIP:            addr,
		ServicesRules:       rules,
		BlockedServices:     globalBS,
		ProtectionEnabled:   g.Protection,
		FilteringEnabled:    g.Filtering,
		SafeSearchEnabled:   g.SafeSearch,
		SafeBrowsingEnabled: g.SafeBrowsing,
		ParentalEnabled:     g.Parental,
		ClientSafeSearch:    vfC04GlobalSS,
	}
	sys.s.ApplyClientFiltering(cid, addr, setts)

	what := vfC04Lazy(func() string { return fmt.Sprintf("ApplyClientFiltering(clientid=%q, addr=%s)", cid, addr) })
	got := setts.ClientName
	if !ok[got] {
		t.Fatalf("%s attributed the request to %q, the precedence (decided by %s) allows %v\nregistry:\n  %s\nleases: %v",
			what, got, d.How, vfC04Keys(ok), strings.Join(sys.modelDump(), "\n  "), sys.m.dhcp)
	}

	vfC04.Class("decide:" + d.How)
	if loose {
		vfC04.Class("decide:ambiguous")
	}
	if d.Specificity {
		vfC04.Class("decide:cidr_specificity")
	}
	if d.Contested {
		vfC04.Class("decide:contested_" + d.How)
	}

	// Never touched by the client lookup.
	if setts.ProtectionEnabled != g.Protection || setts.ClientIP != addr ||
		len(setts.ServicesRules) != 1 || setts.ServicesRules[0].Name != "<global-rule>" {
		t.Fatalf("%s changed settings that do not belong to clients: %+v", what, setts)
	}

	if got == "" {
		if setts.FilteringEnabled != g.Filtering || setts.SafeSearchEnabled != g.SafeSearch ||
			setts.SafeBrowsingEnabled != g.SafeBrowsing || setts.ParentalEnabled != g.Parental ||
			setts.BlockedServices != globalBS || setts.ClientSafeSearch != filtering.SafeSearch(vfC04GlobalSS) ||
			len(setts.ClientTags) != 0 {
			t.Fatalf("%s: no client owns the request but the global settings were changed: %+v (globals %+v)", what, setts, g)
		}

		return d
	}

	c := sys.m.clients[got]
	wantF, wantSS, wantSB, wantP := g.Filtering, g.SafeSearch, g.SafeBrowsing, g.Parental
	var wantSSObj filtering.SafeSearch = vfC04GlobalSS
	if c.OwnSettings {
		wantF, wantSS, wantSB, wantP = c.Filtering, c.SafeSearch, c.SafeBrowsing, c.Parental
		wantSSObj = c.ss
		vfC04.Class("settings:own")
	} else {
		vfC04.Class("settings:global")
	}
	if setts.FilteringEnabled != wantF || setts.SafeSearchEnabled != wantSS ||
		setts.SafeBrowsingEnabled != wantSB || setts.ParentalEnabled != wantP {
		t.Fatalf("%s -> client %q (use own settings: %t; own filtering=%t safesearch=%t safebrowsing=%t parental=%t; "+
			"global filtering=%t safesearch=%t safebrowsing=%t parental=%t): effective filtering=%t safesearch=%t "+
			"safebrowsing=%t parental=%t", what, got, c.OwnSettings, c.Filtering, c.SafeSearch, c.SafeBrowsing, c.Parental,
			g.Filtering, g.SafeSearch, g.SafeBrowsing, g.Parental,
			setts.FilteringEnabled, setts.SafeSearchEnabled, setts.SafeBrowsingEnabled, setts.ParentalEnabled)
	}
	if setts.ClientSafeSearch != wantSSObj {
		t.Fatalf("%s -> client %q (use own settings: %t): wrong safe-search object %+v", what, got, c.OwnSettings, setts.ClientSafeSearch)
	}
	if c.OwnBlocked {
		vfC04.Class("settings:own_blocked_services")
		if setts.BlockedServices == nil || !slices.Equal(setts.BlockedServices.IDs, c.Blocked) {
			t.Fatalf("%s -> client %q uses own blocked services %v, effective %+v", what, got, c.Blocked, setts.BlockedServices)
		}
	} else {
		vfC04.Class("settings:global_blocked_services")
		if setts.BlockedServices != globalBS {
			t.Fatalf("%s -> client %q uses the global blocked services, effective were replaced by %+v", what, got, setts.BlockedServices)
		}
	}
	wantTags := slices.Clone(c.Tags)
	sort.Strings(wantTags)
	if !slices.Equal(setts.ClientTags, wantTags) {
		t.Fatalf("%s -> client %q: tags %v, want %v", what, got, setts.ClientTags, wantTags)
	}

	return d
}

func vfC04Keys(m map[string]bool) (ks []string) {
	for k := range m {
		if k == "" {
			k = "<nobody>"
		}
		ks = append(ks, k)
	}
	sort.Strings(ks)

	return ks
}

// checkFound asserts that a lookup result is one of the allowed clients in its
// current version.
func (sys *vfC04Sys) checkFound(t *rapid.T, what fmt.Stringer, p *Persistent, found bool, ok map[string]bool, full bool) {
	if found != (p != nil) {
		t.Fatalf("%s: ok=%t but client=%v", what, found, p)
	}
	name := ""
	if found {
		name = p.Name
	}
	if !ok[name] {
		t.Fatalf("%s = %q, want one of %v\nregistry:\n  %s\nleases: %v", what, name, vfC04Keys(ok),
			strings.Join(sys.modelDump(), "\n  "), sys.m.dhcp)
	}
	if found {
		// the serial tells versions of a client apart; the full content is
		// compared for lookups by name and in the dump after every operation
		cur := sys.m.clients[name]
		if p.UpstreamsCacheSize != cur.Serial || (full && vfC04RenderReal(p) != cur.render()) {
			t.Fatalf("%s returned a stale or foreign version of %q:\n got  %s\n want %s", what, name,
				vfC04RenderReal(p), cur.render())
		}
	}
}

// vfC04Lazy defers building a message until it is printed.
type vfC04Lazy func() string

func (f vfC04Lazy) String() string { return f() }

// checkFindAddr asserts Find(<address>) against the precedence without ClientID.
func (sys *vfC04Sys) checkFindAddr(t *rapid.T, addr netip.Addr) {
	_, ok, _ := sys.m.allowed("", addr)
	p, found := sys.s.Find(addr.String())
	sys.checkFound(t, vfC04Lazy(func() string { return fmt.Sprintf("Find(%q)", addr) }), p, found, ok, false)
	vfC04.Class("find:address")
}

// checkFindID asserts Find(<identifier text>) for ClientIDs and MACs.
func (sys *vfC04Sys) checkFindID(t *rapid.T, id vfC04ID, text string) {
	ok := map[string]bool{sys.m.owner(id.Kind, id.Key): true}
	p, found := sys.s.Find(text)
	sys.checkFound(t, vfC04Lazy(func() string { return fmt.Sprintf("Find(%q)", text) }), p, found, ok, false)
	vfC04.Class("find:" + id.Kind.String())
}

// checkFindByName asserts FindByName.
func (sys *vfC04Sys) checkFindByName(t *rapid.T, name string) {
	want := ""
	if _, ok := sys.m.clients[name]; ok {
		want = name
	}
	p, found := sys.s.FindByName(name)
	sys.checkFound(t, vfC04Lazy(func() string { return fmt.Sprintf("FindByName(%q)", name) }), p, found,
		map[string]bool{want: true}, true)
}
