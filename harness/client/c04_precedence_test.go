//go:build verif

package client

// C04, part 2: lookup inputs.  The registry is built so that the right answer
// is known by construction: a target address, a chain of nested networks that
// contain it at drawn prefix lengths (each owned by a drawn client), decoy
// networks that are longer but do not contain it, optionally an exact-address
// owner, a ClientID owner and a DHCP lease whose MAC has an owner.  Clients
// are inserted in a drawn order.  The request must go to the owner of the
// highest level present: ClientID, exact address, longest containing network,
// lease MAC; and get that client's own settings exactly when it opted out of
// the global ones.

import (
	"encoding/hex"
	"fmt"
	"net/netip"
	"sort"
	"strings"
	"testing"

	"github.com/AdguardTeam/AdGuardHome/internal/vfkit"
	"pgregory.net/rapid"
)

// vfC04DrawTarget draws an arbitrary address of a drawn family.
func vfC04DrawTarget(t *rapid.T) (a netip.Addr) {
	hi := rapid.Uint64().Draw(t, "target_hi")
	lo := rapid.Uint64().Draw(t, "target_lo")
	switch rapid.IntRange(0, 5).Draw(t, "target_family") {
	case 0, 1, 2:
		return vfC04HostAddr(netip.MustParsePrefix("0.0.0.0/0"), 0, lo)
	case 3:
		// IPv6 with a zone: networks ignore the zone
		return vfC04HostAddr(netip.MustParsePrefix("fe80::/64"), hi, lo).WithZone("eth0")
	default:
		return vfC04HostAddr(netip.MustParsePrefix("::/0"), hi, lo)
	}
}

// vfC04FlipBit returns a with bit i (0 = most significant) inverted.
func vfC04FlipBit(a netip.Addr, i int) netip.Addr {
	b := a.AsSlice()
	b[i/8] ^= 0x80 >> (i % 8)
	r, _ := netip.AddrFromSlice(b)

	return r
}

func TestVFC04Precedence(t *testing.T) {
	vfkit.Begin(t)
	rapid.Check(t, func(t *rapid.T) {
		target := vfC04DrawTarget(t)
		plain := target.WithZone("")
		nClients := rapid.IntRange(1, 6).Draw(t, "n_clients")
		clients := make([]*vfC04Client, nClients)
		for i := range clients {
			clients[i] = &vfC04Client{Name: fmt.Sprintf("c%d", i)}
			vfC04DrawSettings(t, clients[i], clients[i].Name)
		}
		ownerGen := rapid.IntRange(0, nClients-1)
		give := func(label string, id vfC04ID) (owner string) {
			c := clients[ownerGen.Draw(t, label+"_owner")]
			c.IDs = append(c.IDs, id)

			return c.Name
		}

		// the level that shall decide; higher levels are absent, lower ones are
		// present or not by a draw
		levels := []string{"clientid", "ip", "cidr", "dhcp_mac", "none"}
		top := rapid.IntRange(0, len(levels)-1).Draw(t, "deciding_level")
		present := func(level int) bool {
			switch {
			case level == top:
				return true
			case level < top:
				return false
			default:
				return rapid.IntRange(0, 2).Draw(t, "also_"+levels[level]) != 0
			}
		}
		hasCID, hasIP, hasCIDR, hasMAC := present(0), present(1), present(2), present(3)

		// chain of containing networks at distinct lengths
		nNets := 0
		if hasCIDR {
			nNets = rapid.IntRange(1, 5).Draw(t, "n_containing")
		}
		lens := map[int]bool{}
		var wantCIDR string
		longest := -1
		var desc []string
		for i := 0; i < nNets; i++ {
			b := rapid.IntRange(0, plain.BitLen()).Draw(t, fmt.Sprintf("net%d_bits", i))
			if lens[b] {
				continue
			}
			lens[b] = true
			p := netip.PrefixFrom(plain, b).Masked()
			o := give(fmt.Sprintf("net%d", i), vfC04IDOfPrefix(p, rapid.IntRange(0, 4).Draw(t, fmt.Sprintf("net%d_form", i))))
			desc = append(desc, fmt.Sprintf("%s=%s", p, o))
			if b > longest {
				longest, wantCIDR = b, o
			}
		}
		// decoys: networks that do not contain the target, most of them longer
		// than every containing one; and networks of the other family
		nDecoys := rapid.IntRange(0, 4).Draw(t, "n_decoys")
		seenDecoy := map[netip.Prefix]bool{}
		for i := 0; i < nDecoys; i++ {
			b := rapid.IntRange(1, plain.BitLen()).Draw(t, fmt.Sprintf("decoy%d_bits", i))
			flip := rapid.IntRange(0, b-1).Draw(t, fmt.Sprintf("decoy%d_flip", i))
			p := netip.PrefixFrom(vfC04FlipBit(plain, flip), b).Masked()
			if rapid.IntRange(0, 4).Draw(t, fmt.Sprintf("decoy%d_otherfamily", i)) == 0 {
				// the other family never contains the target, whatever its length
				if plain.Is4() {
					p = netip.PrefixFrom(netip.MustParseAddr("2001:db8::"), 32+b).Masked()
				} else {
					p = netip.PrefixFrom(netip.MustParseAddr("128.0.0.0"), 1+b%32).Masked()
				}
			}
			if seenDecoy[p] || p.Contains(plain) {
				continue
			}
			seenDecoy[p] = true
			o := give(fmt.Sprintf("decoy%d", i), vfC04IDOfPrefix(p, 0))
			desc = append(desc, fmt.Sprintf("decoy %s=%s", p, o))
		}

		// exact address
		wantIP := ""
		if hasIP {
			wantIP = give("exact", vfC04IDOfAddr(target, rapid.IntRange(0, 4).Draw(t, "exact_form")))
			desc = append(desc, fmt.Sprintf("ip %s=%s", target, wantIP))
		}
		if rapid.Bool().Draw(t, "has_neighbour_ip") {
			n := vfC04FlipBit(plain, plain.BitLen()-1)
			o := give("neighbour", vfC04IDOfAddr(n, 0))
			desc = append(desc, fmt.Sprintf("ip %s=%s", n, o))
		}
		if target.Zone() != "" && rapid.Bool().Draw(t, "has_other_zone_ip") {
			o := give("otherzone", vfC04IDOfAddr(plain.WithZone("eth1"), 0))
			desc = append(desc, fmt.Sprintf("ip %s=%s", plain.WithZone("eth1"), o))
		}

		// ClientID of the request
		reqCID, wantCID := "", ""
		switch {
		case !hasCID && rapid.Bool().Draw(t, "unknown_clientid"):
			reqCID = "nobodys-cid"
		case hasCID:
			reqCID = rapid.SampledFrom(vfC04CIDs).Draw(t, "clientid")
			wantCID = give("clientid", vfC04IDOfCID(reqCID, rapid.IntRange(0, 4).Draw(t, "clientid_form")))
			desc = append(desc, fmt.Sprintf("clientid %s=%s", reqCID, wantCID))
		}
		if rapid.Bool().Draw(t, "has_other_clientid") {
			other := "other-cid"
			o := give("other_clientid", vfC04IDOfCID(other, 0))
			desc = append(desc, fmt.Sprintf("clientid %s=%s", other, o))
		}

		// DHCP lease of the target address
		var leaseMAC []byte
		wantMAC := ""
		switch {
		case !hasMAC && rapid.Bool().Draw(t, "lease_to_unknown_mac"):
			leaseMAC = vfC04MACs[0] // leased to a MAC nobody owns
		case hasMAC:
			leaseMAC = rapid.SampledFrom(vfC04MACs[1:]).Draw(t, "lease_mac")
			wantMAC = give("mac", vfC04IDOfMAC(leaseMAC, rapid.IntRange(0, 3).Draw(t, "mac_form")))
			desc = append(desc, fmt.Sprintf("lease %s->%x=%s", target, leaseMAC, wantMAC))
		}

		// every client needs an identifier; fillers are unrelated to the request
		for i, c := range clients {
			if len(c.IDs) == 0 {
				c.IDs = append(c.IDs, vfC04IDOfCID(fmt.Sprintf("filler-%d", i), 0))
			}
		}

		// insert in a drawn order, a drawn share through the initial list
		order := rapid.Permutation(clients).Draw(t, "insert_order")
		sys, err := vfC04NewSys(t, nil)
		if err != nil {
			t.Fatalf("VERIF-INCONCLUSIVE cannot create the storage: %v", err)
		}
		defer sys.close()
		viaUpdate := rapid.SliceOfN(rapid.Bool(), len(order), len(order)).Draw(t, "via_update")
		for i, c := range order {
			if viaUpdate[i] && len(c.IDs) > 1 {
				// first with its last identifier only, then updated to the full set
				first := &vfC04Client{}
				*first = *c
				first.IDs = c.IDs[len(c.IDs)-1:]
				if o := sys.add(t, first); !o.Accepted {
					t.Fatalf("constructed client %s was rejected: %s", first.render(), o.Why)
				}
				if o := sys.update(t, c.Name, c); !o.Accepted {
					t.Fatalf("constructed client %s was rejected on update: %s", c.render(), o.Why)
				}

				continue
			}
			if o := sys.add(t, c); !o.Accepted {
				t.Fatalf("constructed client %s was rejected: %s", c.render(), o.Why)
			}
		}
		if leaseMAC != nil {
			sys.setLease(target, leaseMAC)
		}

		// the expectation by construction
		want, how := "", "none"
		switch {
		case wantCID != "":
			want, how = wantCID, "clientid"
		case wantIP != "":
			want, how = wantIP, "ip"
		case wantCIDR != "":
			want, how = wantCIDR, "cidr"
		case wantMAC != "":
			want, how = wantMAC, "dhcp_mac"
		}
		d := sys.m.decide(reqCID, target)
		got := ""
		if len(d.Names) == 1 {
			got = d.Names[0]
		}
		if len(d.Names) > 1 || got != want || d.How != how {
			t.Fatalf("VERIF-INCONCLUSIVE the model (%v by %s) disagrees with the construction (%q by %s): %v",
				d.Names, d.How, want, how, desc)
		}

		g := vfC04GlobalsFromBits(rapid.Uint8().Draw(t, "globals"))
		sys.checkApply(t, reqCID, target, g)
		// the same request without ClientID, and the lookups by identifier
		sys.checkApply(t, "", target, g)
		sys.checkFindAddr(t, target)
		if reqCID != "" {
			sys.checkFindID(t, vfC04IDOfCID(reqCID, 0), reqCID)
		}
		if leaseMAC != nil {
			sys.checkFindID(t, vfC04IDOfMAC(leaseMAC, 0), vfC04MACText(leaseMAC, 2))
		}
		// other addresses of every stored network: first, last, and the target's
		// neighbour
		var others []netip.Addr
		for _, c := range clients {
			for _, id := range c.IDs {
				if id.Kind == vfC04CIDR {
					others = append(others, id.Pref.Masked().Addr(), vfC04LastAddr(id.Pref))
				}
			}
		}
		others = append(others, vfC04FlipBit(plain, plain.BitLen()-1), plain)
		for _, a := range others {
			sys.checkApply(t, "", a, g)
			sys.checkApply(t, reqCID, a, g)
			sys.checkFindAddr(t, a)
		}

		// the same registry loaded as an initial client list, in another order
		if rapid.Bool().Draw(t, "reload") {
			sys.reload(t, vfC04Names2(rapid.Permutation(clients).Draw(t, "reload_order")))
			sys.checkApply(t, reqCID, target, g)
			sys.checkFindAddr(t, target)
			vfC04.Class("precedence:reloaded")
		}

		// coverage
		vfC04.Eval()
		vfC04.Class("precedence_case")
		vfC04.Class("precedence:decided_by_" + how)
		vfC04.Class(fmt.Sprintf("precedence:levels_present=%d", d.Levels))
		vfC04.Class(fmt.Sprintf("precedence:containing_networks=%d", len(lens)))
		sort.Strings(desc)
		if d.Levels >= 2 || len(lens) >= 2 || how == "dhcp_mac" {
			vfC04.Nontrivial(fmt.Sprintf("precedence|%s|%s|%s|%v", reqCID, target, hex.EncodeToString(leaseMAC), desc))
			vfC04.Class("nontrivial:precedence_contest")
		}
		if cls := "precedence_" + how; vfC04.WantSample(cls) {
			vfC04.Sample(cls, map[string]any{
				"request_clientid": reqCID, "request_addr": target.String(), "lease_mac": hex.EncodeToString(leaseMAC),
				"registry": strings.Join(desc, "; "), "attributed_to": want, "decided_by": how,
				"insert_order": vfC04Names2(order),
			})
		}
	})
}

func vfC04Names2(cs []*vfC04Client) (ns []string) {
	for _, c := range cs {
		ns = append(ns, c.Name)
	}

	return ns
}
