//go:build verif

package dhcpd

// C10 — DHCPv4 lease table.  This file holds the world the C10 tests drive: a
// production *server (Create -> v4Create, notify -> dbStore -> leases.json,
// dbLoad on restart), DHCP messages delivered through v4Server.packetHandler
// as wire bytes, static-lease operations through the registered HTTP handlers,
// a harness-owned clock (DESIGN §3.4), the reference model written from the
// property statement, and the invariants checked after every step.

import (
	"bytes"
	"encoding/json"
	"fmt"
	"io"
	"net"
	"net/http"
	"net/http/httptest"
	"net/netip"
	"os"
	"path/filepath"
	"regexp"
	"sort"
	"strings"
	"sync"
	"time"

	"github.com/AdguardTeam/AdGuardHome/internal/vfkit"
	"github.com/AdguardTeam/golibs/log"
	"github.com/insomniacslk/dhcp/dhcpv4"
)

var vfC10 = vfkit.For("C10")

func init() {
	log.SetOutput(io.Discard)
}

// vfC10T is what the world needs from a test handle (*testing.T, *rapid.T or
// the catching handle of the regression tests).
type vfC10T interface {
	Fatalf(format string, args ...any)
}

// vfC10LeaseSec is the configured lease duration.  The harness clock advances
// only by amounts whose sums never come within a minute of it (see
// vfC10Advances), so that the few milliseconds of real time a case takes can
// never decide whether a lease is expired.
const vfC10LeaseSec = 3600

// vfC10Advances are the clock steps, in minutes.  No sum of them is 60.
var vfC10Advances = []int{25, 50, 61, 180}

// vfC10Conf is the drawn DHCPv4 configuration.
type vfC10Conf struct {
	Gateway string `json:"gateway"`
	Mask    string `json:"mask"`
	Start   string `json:"range_start"`
	End     string `json:"range_end"`
}

// vfC10Op is one step of a history.
type vfC10Op struct {
	// Kind is one of: discover, req_selecting, req_initreboot, req_renew,
	// decline, release, static_add, static_update, static_remove, advance,
	// restart.
	Kind string `json:"kind"`
	// MAC is the hardware address of the client or of the reservation.
	MAC string `json:"mac,omitempty"`
	// IP is the requested address (option 50), ciaddr (renew, release) or the
	// address of the reservation; "" means none.
	IP string `json:"ip,omitempty"`
	// Host is the hostname option or the hostname of the reservation.
	Host string `json:"host,omitempty"`
	// BadSID makes a selecting REQUEST name another server.
	BadSID bool `json:"bad_sid,omitempty"`
	// Minutes is the clock step of an advance.
	Minutes int `json:"minutes,omitempty"`
	// AskLease is the lease time, in seconds, the client asks for (option
	// 51); 0 means it does not ask.
	AskLease int `json:"ask_lease,omitempty"`
}

// vfC10Reply is what came back for a DHCP message.
type vfC10Reply struct {
	// Type is "none" (no packet), "offer", "ack", "nak" or "other".
	Type string
	// YIAddr is the assigned address; invalid when zero.
	YIAddr netip.Addr
	// Lease is the lease time the reply promises (option 51); 0 if none.
	Lease time.Duration
}

func (r vfC10Reply) String() string {
	if r.YIAddr.IsValid() {
		return r.Type + ":" + r.YIAddr.String()
	}

	return r.Type
}

// vfC10Holder is an acknowledged dynamic lease in the model.
type vfC10Holder struct {
	IP        netip.Addr
	ExpiresAt time.Duration
}

// vfC10Entry is a lease as observed (API, memory or disk), reduced to text.
type vfC10Entry struct {
	MAC    string `json:"mac"`
	IP     string `json:"ip"`
	Host   string `json:"host"`
	Static bool   `json:"static"`
	Expiry string `json:"expires"`
}

func (e vfC10Entry) id() string { return fmt.Sprintf("%s|%s|static=%t", e.MAC, e.IP, e.Static) }

// vfC10Conn records what the server sends.
type vfC10Conn struct {
	pkts [][]byte
}

func (c *vfC10Conn) ReadFrom([]byte) (int, net.Addr, error) { return 0, nil, io.EOF }
func (c *vfC10Conn) WriteTo(p []byte, _ net.Addr) (int, error) {
	c.pkts = append(c.pkts, bytes.Clone(p))

	return len(p), nil
}
func (c *vfC10Conn) Close() error                     { return nil }
func (c *vfC10Conn) LocalAddr() net.Addr              { return &net.UDPAddr{IP: net.IPv4zero, Port: 67} }
func (c *vfC10Conn) SetDeadline(time.Time) error      { return nil }
func (c *vfC10Conn) SetReadDeadline(time.Time) error  { return nil }
func (c *vfC10Conn) SetWriteDeadline(time.Time) error { return nil }

// vfC10World is one server with its data directory, the model and the
// clients' memories.
type vfC10World struct {
	t    vfC10T
	dir  string
	conf vfC10Conf

	gateway netip.Addr
	subnet  netip.Prefix
	pool    []netip.Addr
	inPool  map[netip.Addr]bool

	srv      *server
	v4       *v4Server
	handlers map[string]http.HandlerFunc

	// model, written from the statement
	clock   time.Duration
	statics map[string]netip.Addr
	holders map[string]vfC10Holder

	// what the clients remember (only used to draw plausible messages)
	offered map[string]netip.Addr
	acked   map[string]netip.Addr

	// probes for the DNS-facing lookups
	probeIPs   []netip.Addr
	probeHosts map[string]struct{}

	trace []string
	xid   uint32

	// started is the real time the history began; only used to call a failure
	// inconclusive when the process was stalled for so long that real time
	// could have expired a lease (margin: one minute).
	started time.Time

	// bookkeeping for the non-trivial rule and classes
	changedSinceStart bool
	lastMemSig        string
	flags             map[string]bool
	shape             []string
}

// vfC10NewWorld creates the data directory and the first server.
func vfC10NewWorld(t vfC10T, conf vfC10Conf, extraIPs []string, hosts []string) (w *vfC10World) {
	dir, err := vfC10TempDir()
	if err != nil {
		t.Fatalf("VERIF-INCONCLUSIVE: temp dir: %v", err)
	}

	w = &vfC10World{
		t:          t,
		dir:        dir,
		conf:       conf,
		gateway:    netip.MustParseAddr(conf.Gateway),
		inPool:     map[netip.Addr]bool{},
		statics:    map[string]netip.Addr{},
		holders:    map[string]vfC10Holder{},
		offered:    map[string]netip.Addr{},
		acked:      map[string]netip.Addr{},
		probeHosts: map[string]struct{}{},
		flags:      map[string]bool{},
		started:    time.Now(),
	}

	ones, _ := net.IPMask(netip.MustParseAddr(conf.Mask).AsSlice()).Size()
	w.subnet = netip.PrefixFrom(w.gateway, ones).Masked()
	start, end := netip.MustParseAddr(conf.Start), netip.MustParseAddr(conf.End)
	for a := start; a.Compare(end) <= 0; a = a.Next() {
		w.pool = append(w.pool, a)
		w.inPool[a] = true
	}

	seen := map[netip.Addr]bool{}
	addProbe := func(a netip.Addr) {
		if a.IsValid() && !seen[a] {
			seen[a] = true
			w.probeIPs = append(w.probeIPs, a)
			w.probeHosts[vfC10GeneratedName(a)] = struct{}{}
		}
	}
	for _, a := range w.pool {
		addProbe(a)
	}
	addProbe(w.gateway)
	for _, s := range extraIPs {
		if a, perr := netip.ParseAddr(s); perr == nil {
			addProbe(a)
		}
	}
	for _, h := range hosts {
		w.noteHost(h)
	}

	w.srv, w.v4, w.handlers = w.create(true)

	return w
}

// vfC10TempDir creates the per-case data directory.  The server rewrites
// leases.json with an fsync on every message, which costs milliseconds on a
// disk; a memory file system is used when there is one (12x faster), the
// driver's private TMPDIR otherwise.
func vfC10TempDir() (dir string, err error) {
	if st, serr := os.Stat("/dev/shm"); serr == nil && st.IsDir() {
		dir, err = os.MkdirTemp("/dev/shm", "vfc10-")
		if err == nil {
			return dir, nil
		}
	}

	return os.MkdirTemp("", "vfc10-")
}

// vfC10GeneratedName is the default name AdGuard Home documents for a client
// without a usable hostname: the address with dashes.
func vfC10GeneratedName(a netip.Addr) string {
	return strings.ReplaceAll(a.String(), ".", "-")
}

// noteHost adds a hostname, and the forms the server may normalise it to, to
// the set of names probed through IPByHost.
func (w *vfC10World) noteHost(h string) {
	if h == "" {
		return
	}
	w.probeHosts[h] = struct{}{}
	w.probeHosts[strings.ToLower(h)] = struct{}{}
}

// close removes the data directory.
func (w *vfC10World) close() {
	_ = os.RemoveAll(w.dir)
}

// create builds a server on the data directory exactly as a start of AdGuard
// Home does (Create: v4Create + dbLoad).  With live=false no HTTP handlers
// are registered (used for the shadow restart).
func (w *vfC10World) create(live bool) (s *server, v4 *v4Server, handlers map[string]http.HandlerFunc) {
	handlers = map[string]http.HandlerFunc{}
	sc := &ServerConfig{
		ConfigModified:  func() {},
		Enabled:         true,
		InterfaceName:   "vf0",
		LocalDomainName: "lan",
		WorkDir:         w.dir,
		DataDir:         w.dir,
		Conf4: V4ServerConf{
			GatewayIP:     w.gateway,
			SubnetMask:    netip.MustParseAddr(w.conf.Mask),
			RangeStart:    netip.MustParseAddr(w.conf.Start),
			RangeEnd:      netip.MustParseAddr(w.conf.End),
			LeaseDuration: vfC10LeaseSec,
			ICMPTimeout:   0,
		},
	}
	if live {
		sc.HTTPRegister = func(_, url string, h http.HandlerFunc) { handlers[url] = h }
	}

	s, err := Create(sc)
	if err != nil {
		w.fail("VERIF-INCONCLUSIVE: Create(%+v): %v", w.conf, err)
	}

	v4, ok := s.srv4.(*v4Server)
	if !ok || v4.conf == nil {
		w.fail("VERIF-INCONCLUSIVE: no v4 server for %+v", w.conf)
	}

	// What Start() learns from the interface; the server identifier.
	v4.conf.dnsIPAddrs = []netip.Addr{w.gateway}

	return s, v4, handlers
}

// fail reports a failure together with the history that led to it.
func (w *vfC10World) fail(format string, args ...any) {
	msg := fmt.Sprintf(format, args...)
	if el := time.Since(w.started); el > 30*time.Second {
		msg = fmt.Sprintf("VERIF-INCONCLUSIVE: the history took %s of real time, leases may have expired by themselves; ", el) + msg
	}
	sb := &strings.Builder{}
	fmt.Fprintf(sb, "%s\nconfig: gateway %s mask %s pool %s-%s lease %ds\nhistory:\n", msg,
		w.conf.Gateway, w.conf.Mask, w.conf.Start, w.conf.End, vfC10LeaseSec)
	for i, l := range w.trace {
		fmt.Fprintf(sb, "  %2d. %s\n", i+1, l)
	}
	if w.srv != nil {
		fmt.Fprintf(sb, "memory table: %s\n", vfC10Fmt(w.memory()))
		disk, derr := w.disk()
		fmt.Fprintf(sb, "leases.json:  %s (err %v)\n", vfC10Fmt(disk), derr)
	}
	w.t.Fatalf("%s", sb.String())
}

func vfC10Fmt(es []vfC10Entry) string {
	parts := make([]string, 0, len(es))
	for _, e := range es {
		kind := "dyn"
		if e.Static {
			kind = "static"
		}
		parts = append(parts, fmt.Sprintf("{%s %s %q %s %s}", e.MAC, e.IP, e.Host, kind, e.Expiry))
	}

	return "[" + strings.Join(parts, " ") + "]"
}

// ---- observation ----

func vfC10EntryOf(mac net.HardwareAddr, ip netip.Addr, host string, static bool, expiry time.Time) vfC10Entry {
	e := vfC10Entry{MAC: mac.String(), IP: ip.String(), Host: host, Static: static}
	if !static {
		e.Expiry = expiry.Format(time.RFC3339)
	}

	return e
}

// api returns what the server reports through Interface.Leases().
func (w *vfC10World) api(s *server) (es []vfC10Entry) {
	for _, l := range s.Leases() {
		es = append(es, vfC10EntryOf(l.HWAddr, l.IP, l.Hostname, l.IsStatic, l.Expiry))
	}

	return es
}

// memory returns the complete in-memory table (what dbStore is given).
func (w *vfC10World) memory() (es []vfC10Entry) {
	w.v4.leasesLock.Lock()
	defer w.v4.leasesLock.Unlock()

	for _, l := range w.v4.leases {
		es = append(es, vfC10EntryOf(l.HWAddr, l.IP, l.Hostname, l.IsStatic, l.Expiry))
	}

	return es
}

// vfC10DiskDoc is leases.json as documented (version 1).
type vfC10DiskDoc struct {
	Version int `json:"version"`
	Leases  []struct {
		Expires  string `json:"expires"`
		IP       string `json:"ip"`
		Hostname string `json:"hostname"`
		MAC      string `json:"mac"`
		Static   bool   `json:"static"`
	} `json:"leases"`
}

// disk reads leases.json with an independent decoder.  A missing file is an
// empty table.
func (w *vfC10World) disk() (es []vfC10Entry, err error) {
	b, err := os.ReadFile(filepath.Join(w.dir, "leases.json"))
	if err != nil {
		if os.IsNotExist(err) {
			return nil, nil
		}

		return nil, err
	}

	doc := &vfC10DiskDoc{}
	err = json.Unmarshal(b, doc)
	if err != nil {
		return nil, fmt.Errorf("decoding %q: %w", b, err)
	}

	for _, l := range doc.Leases {
		mac, perr := net.ParseMAC(l.MAC)
		if perr != nil {
			return nil, fmt.Errorf("bad mac in %q: %w", b, perr)
		}
		ip, perr := netip.ParseAddr(l.IP)
		if perr != nil {
			return nil, fmt.Errorf("bad ip in %q: %w", b, perr)
		}
		es = append(es, vfC10Entry{MAC: mac.String(), IP: ip.String(), Host: l.Hostname, Static: l.Static, Expiry: l.Expires})
	}

	return es, nil
}

// ---- clock ----

// advance moves the harness clock forward by d: every stored expiry instant,
// in memory and in leases.json, moves back by d (DESIGN §3.4).
func (w *vfC10World) advance(d time.Duration) {
	isSet := func(ts time.Time) bool { return ts.Year() > 2000 }

	w.v4.leasesLock.Lock()
	for _, l := range w.v4.leases {
		if !l.IsStatic && isSet(l.Expiry) {
			l.Expiry = l.Expiry.Add(-d)
		}
	}
	w.v4.leasesLock.Unlock()

	path := filepath.Join(w.dir, "leases.json")
	b, err := os.ReadFile(path)
	if err != nil {
		if os.IsNotExist(err) {
			w.clock += d

			return
		}
		w.fail("VERIF-INCONCLUSIVE: reading leases.json: %v", err)
	}

	var doc map[string]any
	err = json.Unmarshal(b, &doc)
	if err != nil {
		w.fail("leases.json is not a JSON object: %v: %q", err, b)
	}
	ls, _ := doc["leases"].([]any)
	for _, x := range ls {
		m, ok := x.(map[string]any)
		if !ok {
			continue
		}
		if st, _ := m["static"].(bool); st {
			continue
		}
		s, _ := m["expires"].(string)
		ts, perr := time.Parse(time.RFC3339Nano, s)
		if perr != nil || !isSet(ts) {
			continue
		}
		// The file keeps whole seconds and the shift is a whole number of
		// seconds, so formatting commutes with the shift.
		m["expires"] = ts.Add(-d).Format(time.RFC3339)
	}
	nb, err := json.Marshal(doc)
	if err == nil {
		err = os.WriteFile(path, nb, 0o644)
	}
	if err != nil {
		w.fail("VERIF-INCONCLUSIVE: rewriting leases.json: %v", err)
	}

	w.clock += d
}

// ---- model helpers ----

func (w *vfC10World) activeHolder(mac string) (h vfC10Holder, ok bool) {
	h, ok = w.holders[mac]
	if !ok || h.ExpiresAt <= w.clock {
		return vfC10Holder{}, false
	}

	return h, true
}

// activeHolderOf returns the MAC that holds an acknowledged unexpired dynamic
// lease of ip.
func (w *vfC10World) activeHolderOf(ip netip.Addr) (mac string, ok bool) {
	macs := make([]string, 0, len(w.holders))
	for m := range w.holders {
		macs = append(macs, m)
	}
	sort.Strings(macs)
	for _, m := range macs {
		if h, hok := w.activeHolder(m); hok && h.IP == ip {
			return m, true
		}
	}

	return "", false
}

func (w *vfC10World) reservedFor(ip netip.Addr) (mac string, ok bool) {
	macs := make([]string, 0, len(w.statics))
	for m := range w.statics {
		macs = append(macs, m)
	}
	sort.Strings(macs)
	for _, m := range macs {
		if w.statics[m] == ip {
			return m, true
		}
	}

	return "", false
}

// expected returns the table the statement allows: the reservations plus the
// acknowledged, unexpired, unreleased dynamic leases.
func (w *vfC10World) expected() (ids []string) {
	for m, ip := range w.statics {
		ids = append(ids, vfC10Entry{MAC: m, IP: ip.String(), Static: true}.id())
	}
	for m := range w.holders {
		if h, ok := w.activeHolder(m); ok {
			ids = append(ids, vfC10Entry{MAC: m, IP: h.IP.String()}.id())
		}
	}
	sort.Strings(ids)

	return ids
}

// ---- DHCP messages ----

func vfC10MAC(s string) net.HardwareAddr {
	m, err := net.ParseMAC(s)
	if err != nil {
		panic(err)
	}

	return m
}

// exchange delivers req as wire bytes to the packet handler and parses what the
// server wrote to the socket.
func (w *vfC10World) exchange(req *dhcpv4.DHCPv4) (r vfC10Reply) {
	wire, err := dhcpv4.FromBytes(req.ToBytes())
	if err != nil {
		w.fail("VERIF-INCONCLUSIVE: request does not parse: %v", err)
	}

	conn := &vfC10Conn{}
	w.v4.packetHandler(conn, &net.UDPAddr{IP: net.IPv4bcast, Port: dhcpv4.ClientPort}, wire)
	switch len(conn.pkts) {
	case 0:
		return vfC10Reply{Type: "none"}
	case 1:
		// Go on.
	default:
		w.fail("server sent %d packets for one message", len(conn.pkts))
	}

	resp, err := dhcpv4.FromBytes(conn.pkts[0])
	if err != nil {
		w.fail("reply does not parse: %v", err)
	}
	if !bytes.Equal(resp.ClientHWAddr, req.ClientHWAddr) {
		w.fail("reply for %s carries chaddr %s", req.ClientHWAddr, resp.ClientHWAddr)
	}

	switch resp.MessageType() {
	case dhcpv4.MessageTypeOffer:
		r.Type = "offer"
	case dhcpv4.MessageTypeAck:
		r.Type = "ack"
	case dhcpv4.MessageTypeNak:
		r.Type = "nak"
	default:
		r.Type = "other"
	}
	if ip, ok := netip.AddrFromSlice(resp.YourIPAddr.To4()); ok && !ip.IsUnspecified() {
		r.YIAddr = ip
	}
	r.Lease = resp.IPAddressLeaseTime(0)

	return r
}

func (w *vfC10World) newMsg(mt dhcpv4.MessageType, mac string, mods ...dhcpv4.Modifier) (req *dhcpv4.DHCPv4) {
	w.xid++
	xid := dhcpv4.TransactionID{byte(w.xid >> 24), byte(w.xid >> 16), byte(w.xid >> 8), byte(w.xid)}
	all := append([]dhcpv4.Modifier{
		dhcpv4.WithTransactionID(xid),
		dhcpv4.WithHwAddr(vfC10MAC(mac)),
		dhcpv4.WithMessageType(mt),
		dhcpv4.WithBroadcast(true),
	}, mods...)
	req, err := dhcpv4.New(all...)
	if err != nil {
		w.fail("VERIF-INCONCLUSIVE: building message: %v", err)
	}

	return req
}

func vfC10IPOpt(ip string) net.IP {
	return net.IP(netip.MustParseAddr(ip).AsSlice())
}

// freeAddrs returns the pool addresses that appear in no lease entry of the
// in-memory table (reservations are entries too) and in no reservation of the
// model.
func (w *vfC10World) freeAddrs() (free []netip.Addr, macKnown map[string]bool) {
	used := map[string]bool{}
	macKnown = map[string]bool{}
	for _, e := range w.memory() {
		used[e.IP] = true
		macKnown[e.MAC] = true
	}
	for m, ip := range w.statics {
		used[ip.String()] = true
		macKnown[m] = true
	}
	for m := range w.holders {
		macKnown[m] = true
	}
	for _, a := range w.pool {
		if !used[a.String()] {
			free = append(free, a)
		}
	}

	return free, macKnown
}

// abandonedOffers lists the pool addresses whose only entry in the table is an
// offer that no client has ever had acknowledged (and that are not reserved).
func (w *vfC10World) abandonedOffers() (addrs []netip.Addr) {
	held := map[netip.Addr]bool{}
	for _, h := range w.holders {
		held[h.IP] = true
	}
	for _, ip := range w.statics {
		held[ip] = true
	}
	everAcked := map[netip.Addr]bool{}
	for _, ip := range w.acked {
		everAcked[ip] = true
	}
	for _, a := range w.pool {
		if !held[a] && !everAcked[a] {
			addrs = append(addrs, a)
		}
	}

	return addrs
}

// checkAssigned is the per-reply half of the statement: the address put into an
// OFFER or ACK for mac must be one this client may be given.
func (w *vfC10World) checkAssigned(mac string, r vfC10Reply) {
	y := r.YIAddr
	if res, ok := w.statics[mac]; ok {
		if y != res {
			w.fail("%s has the reservation %s but was sent %s", mac, res, r)
		}

		return
	}

	if !w.inPool[y] {
		w.fail("%s (no reservation) was sent %s, outside the pool", mac, r)
	}
	if y == w.gateway {
		w.fail("%s was sent the gateway address: %s", mac, r)
	}
	if other, ok := w.reservedFor(y); ok {
		w.fail("%s was sent %s, which is reserved for %s", mac, r, other)
	}
	if other, ok := w.activeHolderOf(y); ok && other != mac {
		w.fail("%s was sent %s while %s holds an acknowledged unexpired lease of that address", mac, r, other)
	}
}

// onReply applies an OFFER/ACK to the model and the client memory.
func (w *vfC10World) onReply(mac string, r vfC10Reply) {
	switch r.Type {
	case "offer":
		if !r.YIAddr.IsValid() {
			w.fail("OFFER to %s without an address", mac)
		}
		w.checkAssigned(mac, r)
		w.offered[mac] = r.YIAddr
	case "ack":
		if !r.YIAddr.IsValid() {
			return
		}
		w.checkAssigned(mac, r)
		w.acked[mac] = r.YIAddr
		if _, ok := w.statics[mac]; !ok {
			// the client holds the address for as long as the
			// acknowledgement says
			lease := r.Lease
			if lease <= 0 {
				lease = vfC10LeaseSec * time.Second
			}
			if lease != vfC10LeaseSec*time.Second {
				w.flags["ack_with_other_lease_time"] = true
			}
			w.holders[mac] = vfC10Holder{IP: r.YIAddr, ExpiresAt: w.clock + lease}
		}
	}
}

// ---- static-lease API ----

func (w *vfC10World) staticCall(path string, op vfC10Op) (ok bool, body string) {
	h := w.handlers[path]
	if h == nil {
		w.fail("VERIF-INCONCLUSIVE: handler %s is not registered", path)
	}
	b, _ := json.Marshal(map[string]string{"mac": op.MAC, "ip": op.IP, "hostname": op.Host})
	rec := httptest.NewRecorder()
	h(rec, httptest.NewRequest(http.MethodPost, path, bytes.NewReader(b)))

	return rec.Code == http.StatusOK, strings.TrimSpace(rec.Body.String())
}

// ---- known findings (HARNESS_GUIDE rule 10) ----

// Signatures of the findings of this check in known_findings.json.
const (
	vfC10SigDecline  = "decline-adds-replacement-lease-twice"
	vfC10SigOutside  = "static-outside-range-marks-offset-zero"
	vfC10SigSkip     = "rmdynamiclease-skips-entry-after-removed"
	vfC10SigRejected = "rejected-static-lease-removes-dynamic-leases"
	vfC10SigLoadName = "load-invents-hostname-that-clashes"
)

// vfC10Open returns the signatures listed as open.
var vfC10Open = sync.OnceValue(func() (open map[string]bool) {
	open = map[string]bool{}
	for _, sig := range []string{vfC10SigDecline, vfC10SigOutside, vfC10SigSkip, vfC10SigRejected, vfC10SigLoadName} {
		if _, ok := vfkit.KnownOpen("C10", sig); ok {
			open[sig] = true
		}
	}

	return open
})

var vfC10GeneratedRe = regexp.MustCompile(`^\d+-\d+-\d+-\d+$`)

// excludedShape returns the signature of the open known finding whose shape the
// step has, or "".  Such steps are not executed and are counted as excluded.
func (w *vfC10World) excludedShape(op vfC10Op) (sig string) {
	open := vfC10Open()
	if len(open) == 0 {
		return ""
	}

	if open[vfC10SigLoadName] && vfC10GeneratedRe.MatchString(op.Host) {
		return vfC10SigLoadName
	}

	mem := w.memory()
	switch op.Kind {
	case "decline":
		for _, e := range mem {
			if e.Static || e.MAC != op.MAC || e.IP != op.IP {
				continue
			}
			if open[vfC10SigDecline] {
				return vfC10SigDecline
			}
			if open[vfC10SigLoadName] && vfC10GeneratedRe.MatchString(e.Host) {
				return vfC10SigLoadName
			}
		}
	case "static_add", "static_update":
		ip, err := netip.ParseAddr(op.IP)
		inSubnet := err == nil && w.subnet.Contains(ip)
		if open[vfC10SigOutside] && inSubnet && !w.inPool[ip] && ip != w.gateway {
			return vfC10SigOutside
		}
		if op.Kind != "static_add" {
			return ""
		}
		host := strings.ReplaceAll(strings.ToLower(op.Host), " ", "-")
		touchesDynamic, conflictsStatic := false, !inSubnet
		for _, e := range mem {
			same := e.MAC == op.MAC || e.IP == op.IP
			switch {
			case e.Static && (same || (host != "" && e.Host == host)):
				conflictsStatic = true
			case !e.Static && (same || (host != "" && e.Host == host)):
				touchesDynamic = true
			}
		}
		if open[vfC10SigSkip] && touchesDynamic {
			return vfC10SigSkip
		}
		if open[vfC10SigRejected] && touchesDynamic && conflictsStatic {
			return vfC10SigRejected
		}
	}

	return ""
}

// ---- steps ----

// do executes one step, updates the model, checks every invariant and returns
// a short outcome for the trace.
func (w *vfC10World) do(op vfC10Op) (outcome string) {
	// Frozen histories name "the address the client was offered/acknowledged".
	switch op.IP {
	case "@offered":
		op.IP = w.offered[op.MAC].String()
	case "@acked":
		op.IP = w.acked[op.MAC].String()
	}
	if sig := w.excludedShape(op); sig != "" {
		vfC10.Excluded(sig)

		return "excluded"
	}

	w.trace = append(w.trace, vfC10OpString(op)+" -> ...")
	outcome = w.apply(op)
	w.trace[len(w.trace)-1] = vfC10OpString(op) + " -> " + outcome
	short, _, _ := strings.Cut(outcome, ":")
	w.shape = append(w.shape, op.Kind+"="+short)
	w.check()
	if sig := vfC10Fmt(w.memory()); sig != w.lastMemSig {
		w.lastMemSig = sig
		if op.Kind != "restart" {
			w.changedSinceStart = true
		}
	}

	return outcome
}

func vfC10OpString(op vfC10Op) string {
	b, _ := json.Marshal(op)

	return string(b)
}

func (w *vfC10World) apply(op vfC10Op) (outcome string) {
	w.noteHost(op.Host)

	var hostMod []dhcpv4.Modifier
	if op.Host != "" {
		hostMod = append(hostMod, dhcpv4.WithOption(dhcpv4.OptHostName(op.Host)))
	}
	if op.AskLease > 0 {
		hostMod = append(hostMod, dhcpv4.WithOption(dhcpv4.OptIPAddressLeaseTime(time.Duration(op.AskLease)*time.Second)))
		w.flags["client_asks_for_lease_time"] = true
	}

	switch op.Kind {
	case "discover":
		free, known := w.freeAddrs()
		mustOffer := !known[op.MAC] && len(free) > 0
		// An address that was only ever offered, never acknowledged, is
		// "neither leased nor reserved" too: with nothing else free, a new
		// client must be offered one of those.
		abandoned := w.abandonedOffers()
		if !known[op.MAC] && len(free) == 0 && len(abandoned) > 0 {
			mustOffer, free = true, abandoned
			w.flags["only_abandoned_offers_free"] = true
		}
		if op.IP != "" {
			hostMod = append(hostMod, dhcpv4.WithOption(dhcpv4.OptRequestedIPAddress(vfC10IPOpt(op.IP))))
		}
		r := w.exchange(w.newMsg(dhcpv4.MessageTypeDiscover, op.MAC, hostMod...))
		switch {
		case mustOffer:
			w.flags["offer_required"] = true
			if len(free) == 1 && len(w.statics) > 0 {
				w.flags["last_free_after_reservation"] = true
			}
			if r.Type != "offer" {
				what := "appear in no lease and no reservation"
				if w.flags["only_abandoned_offers_free"] && len(abandoned) > 0 && len(free) == len(abandoned) {
					what = "were at most offered, never acknowledged to anybody, and are not reserved"
				}
				w.fail("DISCOVER from the new client %s got %q although %v of the pool %s", op.MAC, r, free, what)
			}
		case !known[op.MAC]:
			// No pool address is free of lease entries.  Whether an entry of an
			// expired or never-acknowledged lease may be reused is not stated:
			// an offer is allowed (and then checked like any other), silence too.
			w.flags["exhausted"] = true
			if len(w.statics) > 0 {
				w.flags["exhausted_after_reservation"] = true
			}
			if r.Type == "offer" {
				w.flags["recycled"] = true
			}
		}
		w.onReply(op.MAC, r)

		return r.String()

	case "req_selecting":
		sid := w.gateway
		if op.BadSID {
			sid = w.gateway.Next().Next()
		}
		mods := append(hostMod, dhcpv4.WithOption(dhcpv4.OptServerIdentifier(net.IP(sid.AsSlice()))))
		if op.IP != "" {
			mods = append(mods, dhcpv4.WithOption(dhcpv4.OptRequestedIPAddress(vfC10IPOpt(op.IP))))
		}
		r := w.exchange(w.newMsg(dhcpv4.MessageTypeRequest, op.MAC, mods...))
		w.onReply(op.MAC, r)

		return r.String()

	case "req_initreboot":
		mods := hostMod
		if op.IP != "" {
			mods = append(mods, dhcpv4.WithOption(dhcpv4.OptRequestedIPAddress(vfC10IPOpt(op.IP))))
		}
		r := w.exchange(w.newMsg(dhcpv4.MessageTypeRequest, op.MAC, mods...))
		w.onReply(op.MAC, r)

		return r.String()

	case "req_renew":
		mods := hostMod
		if op.IP != "" {
			mods = append(mods, dhcpv4.WithClientIP(vfC10IPOpt(op.IP)))
		}
		r := w.exchange(w.newMsg(dhcpv4.MessageTypeRequest, op.MAC, mods...))
		w.onReply(op.MAC, r)

		return r.String()

	case "decline":
		var mods []dhcpv4.Modifier
		if op.IP != "" {
			mods = append(mods, dhcpv4.WithOption(dhcpv4.OptRequestedIPAddress(vfC10IPOpt(op.IP))))
		}
		effective := false
		if op.IP != "" {
			for _, e := range w.memory() {
				if e.MAC == op.MAC && e.IP == op.IP && !e.Static {
					effective = true
				}
			}
		}
		// The client gives the address up.
		if h, ok := w.holders[op.MAC]; ok && op.IP != "" && h.IP == netip.MustParseAddr(op.IP) {
			delete(w.holders, op.MAC)
		}
		r := w.exchange(w.newMsg(dhcpv4.MessageTypeDecline, op.MAC, mods...))
		if r.Type == "offer" {
			w.fail("DECLINE answered with an OFFER")
		}
		w.onReply(op.MAC, r)
		if effective {
			w.flags["decline_effective"] = true
		}

		return r.String()

	case "release":
		var mods []dhcpv4.Modifier
		if op.IP != "" {
			mods = append(mods, dhcpv4.WithClientIP(vfC10IPOpt(op.IP)))
		}
		if h, ok := w.holders[op.MAC]; ok && op.IP != "" && h.IP == netip.MustParseAddr(op.IP) {
			delete(w.holders, op.MAC)
			w.flags["release_effective"] = true
		}
		r := w.exchange(w.newMsg(dhcpv4.MessageTypeRelease, op.MAC, mods...))
		if r.Type == "offer" || r.YIAddr.IsValid() {
			w.fail("RELEASE answered with an address: %s", r)
		}

		return r.String()

	case "static_add", "static_update":
		path := "/control/dhcp/add_static_lease"
		if op.Kind == "static_update" {
			path = "/control/dhcp/update_static_lease"
		}
		ip, perr := netip.ParseAddr(op.IP)
		clean := w.cleanReservation(op, ip, perr == nil)
		ok, body := w.staticCall(path, op)
		if !ok {
			if clean && op.Kind == "static_add" {
				w.fail("a valid reservation (unused MAC, unused address inside the subnet, unused hostname) was rejected: %s", body)
			}

			// Rejected: nothing may change (model untouched).
			return "rejected: " + body
		}
		if perr != nil {
			w.fail("reservation with the unparsable address %q accepted", op.IP)
		}
		ip = ip.Unmap()
		if ip == w.gateway {
			w.fail("the gateway address %s was accepted as a reservation for %s", ip, op.MAC)
		}
		// Accepted: the reservation exists; the administrator thereby revokes
		// any dynamic lease of that client or of that address.
		delete(w.holders, op.MAC)
		if m, held := w.activeHolderOf(ip); held {
			delete(w.holders, m)
			w.flags["static_evicts_holder"] = true
		}
		for m, h := range w.holders {
			if h.IP == ip {
				delete(w.holders, m)
			}
		}
		w.statics[op.MAC] = ip
		if w.inPool[ip] {
			w.flags["static_inside_pool"] = true
		} else {
			w.flags["static_outside_pool"] = true
		}

		return "accepted"

	case "static_remove":
		ok, body := w.staticCall("/control/dhcp/remove_static_lease", op)
		if !ok {
			return "rejected: " + body
		}
		ip, perr := netip.ParseAddr(op.IP)
		if perr != nil {
			w.fail("removal with the unparsable address %q accepted", op.IP)
		}
		ip = ip.Unmap()
		// Accepted: the lease of that address is gone, whatever it was.
		for m, sip := range w.statics {
			if sip == ip {
				delete(w.statics, m)
				w.flags["static_removed"] = true
			}
		}
		for m, h := range w.holders {
			if h.IP == ip {
				delete(w.holders, m)
				w.flags["dynamic_removed_via_api"] = true
			}
		}

		return "accepted"

	case "advance":
		w.advance(time.Duration(op.Minutes) * time.Minute)

		return "ok"

	case "restart":
		if w.changedSinceStart {
			w.flags["restart_after_change"] = true
		}
		w.srv, w.v4, w.handlers = w.create(true)
		w.changedSinceStart = false

		return "ok"
	}

	w.fail("VERIF-INCONCLUSIVE: unknown op %q", op.Kind)

	return ""
}

// cleanReservation reports whether a reservation is valid beyond doubt: a MAC
// and an address that appear in no lease entry at all, the address inside the
// subnet and not the gateway, and a hostname (if any) of plain letters that no
// lease uses.
func (w *vfC10World) cleanReservation(op vfC10Op, ip netip.Addr, ipOK bool) (clean bool) {
	if !ipOK || !ip.Is4() || !w.subnet.Contains(ip) || ip == w.gateway {
		return false
	}
	for _, e := range w.memory() {
		if e.MAC == op.MAC || e.IP == ip.String() || (op.Host != "" && strings.EqualFold(e.Host, op.Host)) {
			return false
		}
	}
	for _, c := range op.Host {
		if !(c >= 'a' && c <= 'z') {
			return false
		}
	}

	return true
}

// ---- invariants ----

// check asserts everything the statement says about the state after a step.
func (w *vfC10World) check() {
	got := w.api(w.srv)
	mem := w.memory()

	// (1) at most one holder per address, at most one lease per client; dynamic
	// leases inside the pool, never the gateway.
	byIP, byMAC := map[string]vfC10Entry{}, map[string]vfC10Entry{}
	for _, e := range got {
		if o, dup := byIP[e.IP]; dup {
			w.fail("address %s is leased twice: %+v and %+v", e.IP, o, e)
		}
		if o, dup := byMAC[e.MAC]; dup {
			w.fail("client %s holds two leases: %+v and %+v", e.MAC, o, e)
		}
		byIP[e.IP], byMAC[e.MAC] = e, e
		ip := netip.MustParseAddr(e.IP)
		if !e.Static && (!w.inPool[ip] || ip == w.gateway) {
			w.fail("dynamic lease outside the pool or on the gateway: %+v", e)
		}
	}

	// (2) the reported table is exactly the reservations accepted so far plus
	// the acknowledged, unexpired, unreleased dynamic leases.
	var ids []string
	for _, e := range got {
		ids = append(ids, e.id())
	}
	sort.Strings(ids)
	want := w.expected()
	if strings.Join(ids, " ") != strings.Join(want, " ") {
		w.fail("lease table differs from the acknowledged leases and accepted reservations:\n  reported %v\n  expected %v", ids, want)
	}

	// (3) leases.json lists exactly the in-memory table, each lease once.
	disk, err := w.disk()
	if err != nil {
		w.fail("leases.json unreadable: %v", err)
	}
	active := map[string]bool{}
	for _, e := range got {
		active[e.id()] = true
	}
	// The hostname of an entry that is not a current lease (offered but never
	// acknowledged, or expired) is not covered by the statement.
	norm := func(es []vfC10Entry) (keys []string) {
		for _, e := range es {
			h := e.Host
			if !active[e.id()] {
				h = "*"
			}
			keys = append(keys, fmt.Sprintf("%s|%q|%s", e.id(), h, e.Expiry))
		}
		sort.Strings(keys)

		return keys
	}
	dk, mk := norm(disk), norm(mem)
	if strings.Join(dk, " ") != strings.Join(mk, " ") {
		w.fail("leases.json differs from the table in memory:\n  disk   %v\n  memory %v", dk, mk)
	}
	seen := map[string]bool{}
	for _, e := range disk {
		k := e.MAC + "|" + e.IP
		if seen[k] {
			w.fail("leases.json lists the lease %s of %s more than once", e.IP, e.MAC)
		}
		seen[k] = true
	}

	// (4) a restart now would restore the same table and the same answers.
	w.checkRestart(got)
}

// vfC10Answers are the DNS-facing lookups of a server.
type vfC10Answers struct {
	hostByIP map[netip.Addr]string
	macByIP  map[netip.Addr]string
	ipByHost map[string]netip.Addr
}

func (w *vfC10World) answers(s *server, hosts []string) (a vfC10Answers) {
	a = vfC10Answers{hostByIP: map[netip.Addr]string{}, macByIP: map[netip.Addr]string{}, ipByHost: map[string]netip.Addr{}}
	for _, ip := range w.probeIPs {
		a.hostByIP[ip] = s.HostByIP(ip)
		a.macByIP[ip] = s.MACByIP(ip).String()
	}
	for _, h := range hosts {
		a.ipByHost[h] = s.IPByHost(h)
	}

	return a
}

// checkRestart starts a second server from the data directory, as a restart of
// AdGuard Home would, and compares it with the running one.
func (w *vfC10World) checkRestart(got []vfC10Entry) {
	sh, _, _ := w.create(false)

	after := w.api(sh)
	key := func(es []vfC10Entry) string {
		var ks []string
		for _, e := range es {
			h := e.Host
			if h == "" {
				// A lease without a name: the server may give it the default
				// (address-derived) name when loading; not covered.
				h = "*"
			}
			ks = append(ks, fmt.Sprintf("%s|%q|%s", e.id(), h, e.Expiry))
		}
		sort.Strings(ks)

		return strings.Join(ks, " ")
	}
	blank := func(es []vfC10Entry) (out []vfC10Entry) {
		named := map[string]bool{}
		for _, e := range got {
			if e.Host != "" {
				named[e.id()] = true
			}
		}
		for _, e := range es {
			if !named[e.id()] {
				e.Host = ""
			}
			out = append(out, e)
		}

		return out
	}
	if b, a := key(got), key(blank(after)); a != b {
		w.fail("a restart would not restore the lease table:\n  before %s\n  after  %s", b, a)
	}

	for _, e := range got {
		w.probeHosts[e.Host] = struct{}{}
	}
	for _, e := range after {
		w.probeHosts[e.Host] = struct{}{}
	}
	delete(w.probeHosts, "")
	hosts := make([]string, 0, len(w.probeHosts))
	for h := range w.probeHosts {
		hosts = append(hosts, h)
	}
	sort.Strings(hosts)

	// Answers are compared for the current leases (reservations and
	// acknowledged unexpired dynamic leases); what is said about addresses of
	// expired or never-acknowledged entries is not covered by the statement.
	current := map[netip.Addr]vfC10Entry{}
	for _, e := range got {
		current[netip.MustParseAddr(e.IP)] = e
	}
	inMem := map[netip.Addr]bool{}
	for _, e := range w.memory() {
		inMem[netip.MustParseAddr(e.IP)] = true
	}

	b, a := w.answers(w.srv, hosts), w.answers(sh, hosts)
	for _, ip := range w.probeIPs {
		e, cur := current[ip]
		if !cur && inMem[ip] {
			continue
		}
		if b.macByIP[ip] != a.macByIP[ip] {
			w.fail("a restart would change MACByIP(%s): %q -> %q", ip, b.macByIP[ip], a.macByIP[ip])
		}
		if cur && e.Host == "" && b.hostByIP[ip] == "" {
			w.flags["ambiguous_unnamed_lease"] = true

			continue
		}
		if b.hostByIP[ip] != a.hostByIP[ip] {
			w.fail("a restart would change HostByIP(%s): %q -> %q", ip, b.hostByIP[ip], a.hostByIP[ip])
		}
	}
	// An answer counts only if it names the address of a current, named lease.
	normIP := func(ip netip.Addr) netip.Addr {
		if e, cur := current[ip]; cur && e.Host != "" {
			return ip
		}

		return netip.Addr{}
	}
	for _, h := range hosts {
		if normIP(b.ipByHost[h]) != normIP(a.ipByHost[h]) {
			w.fail("a restart would change IPByHost(%q): %v -> %v", h, b.ipByHost[h], a.ipByHost[h])
		}
	}
}
