//go:build verif

package dhcpd

import (
	"fmt"
	"strings"
	"testing"

	"github.com/AdguardTeam/AdGuardHome/internal/vfkit"
)

// vfC10Catch is a test handle that turns a failure into a value.
type vfC10Catch struct{ msg string }

type vfC10Failed struct{}

func (c *vfC10Catch) Fatalf(format string, args ...any) {
	c.msg = fmt.Sprintf(format, args...)
	panic(vfC10Failed{})
}

// vfC10Script is a frozen history.
type vfC10Script struct {
	name string
	// signature is the key of the finding in known_findings.json.
	signature string
	what      string
	conf      vfC10Conf
	ops       []vfC10Op
}

// run plays the script with every invariant checked after every step and
// returns the first failure.
func (sc vfC10Script) run() (failure string) {
	c := &vfC10Catch{}
	defer func() {
		if r := recover(); r != nil {
			if _, ok := r.(vfC10Failed); !ok {
				panic(r)
			}
			failure = c.msg
		}
	}()

	w := vfC10NewWorld(c, sc.conf, []string{"10.0.0.200"}, nil)
	defer w.close()
	for _, op := range sc.ops {
		w.do(op)
	}

	return ""
}

const (
	vfC10M1 = "02:00:00:00:00:01"
	vfC10M2 = "02:00:00:00:00:02"
	vfC10M3 = "02:00:00:00:00:03"
	vfC10MR = "02:00:00:00:01:01"
)

var vfC10Pool4 = vfC10Conf{Gateway: "10.0.0.1", Mask: "255.255.255.0", Start: "10.0.0.100", End: "10.0.0.103"}
var vfC10Pool2 = vfC10Conf{Gateway: "10.0.0.1", Mask: "255.255.255.0", Start: "10.0.0.100", End: "10.0.0.101"}

// vfC10Scripts are the minimal failing histories found on the unchanged tree
// (AdGuard Home v0.107.61-dev, 3a7a121), one per defect.
var vfC10Scripts = []vfC10Script{{
	name:      "decline_duplicates_lease",
	signature: vfC10SigDecline,
	what: "DISCOVER, REQUEST, DECLINE from one client leaves two identical entries of the replacement lease " +
		"in Leases() and leases.json (handleDecline adds what allocateLease already added); it also stores " +
		"leases.json before changing the table, so the file keeps the declined lease",
	conf: vfC10Pool4,
	ops: []vfC10Op{
		{Kind: "discover", MAC: vfC10M1},
		{Kind: "req_selecting", MAC: vfC10M1, IP: "@offered"},
		{Kind: "decline", MAC: vfC10M1, IP: "@acked"},
	},
}, {
	name:      "reservation_outside_pool_blocks_first_address",
	signature: vfC10SigOutside,
	what: "one reservation outside the pool marks pool offset 0 as leased: the first pool address is never " +
		"offered, the second of two new clients gets nothing from a pool of two",
	conf: vfC10Pool2,
	ops: []vfC10Op{
		{Kind: "static_add", MAC: vfC10MR, IP: "10.0.0.200", Host: "nas"},
		{Kind: "discover", MAC: vfC10M1},
		{Kind: "req_selecting", MAC: vfC10M1, IP: "@offered"},
		{Kind: "discover", MAC: vfC10M2},
	},
}, {
	name:      "reservation_on_neighbours_address",
	signature: vfC10SigSkip,
	what: "reserving for client 1 the address client 2 holds, when client 2's entry follows client 1's in the " +
		"table: client 2's lease is not removed (the entry after a removed one is skipped) and the address is " +
		"leased twice",
	conf: vfC10Pool4,
	ops: []vfC10Op{
		{Kind: "discover", MAC: vfC10M1},
		{Kind: "req_selecting", MAC: vfC10M1, IP: "10.0.0.100"},
		{Kind: "discover", MAC: vfC10M2},
		{Kind: "req_selecting", MAC: vfC10M2, IP: "10.0.0.101"},
		{Kind: "static_add", MAC: vfC10M1, IP: "10.0.0.101"},
	},
}, {
	name:      "reservation_takes_hostname_of_dynamic_lease",
	signature: vfC10SigSkip,
	what: "a reservation named like a dynamic lease is rejected as duplicate although the dynamic lease's " +
		"name was just cleared for it (stale hostname index); the cleared name is not stored",
	conf: vfC10Pool4,
	ops: []vfC10Op{
		{Kind: "discover", MAC: vfC10M1, Host: "alpha"},
		{Kind: "req_selecting", MAC: vfC10M1, IP: "10.0.0.100", Host: "alpha"},
		{Kind: "static_add", MAC: vfC10MR, IP: "10.0.0.103", Host: "alpha"},
	},
}, {
	name:      "rejected_reservation_removes_dynamic_lease",
	signature: vfC10SigRejected,
	what: "a reservation rejected for its duplicate hostname has already removed the client's acknowledged " +
		"dynamic lease from memory (not from leases.json)",
	conf: vfC10Pool4,
	ops: []vfC10Op{
		{Kind: "static_add", MAC: vfC10MR, IP: "10.0.0.103", Host: "nas"},
		{Kind: "discover", MAC: vfC10M1},
		{Kind: "req_selecting", MAC: vfC10M1, IP: "@offered"},
		{Kind: "static_add", MAC: vfC10M1, IP: "10.0.0.102", Host: "nas"},
	},
}, {
	name:      "unnamed_offer_takes_name_on_load",
	signature: vfC10SigLoadName,
	what: "on load an offered, never acknowledged lease is given the address-derived default name; a lease " +
		"stored under that name (e.g. carried over by DECLINE) is then dropped as duplicate: an acknowledged " +
		"lease is lost by a restart",
	conf: vfC10Pool4,
	ops: []vfC10Op{
		{Kind: "discover", MAC: vfC10M1},
		{Kind: "discover", MAC: vfC10M2, Host: "10-0-0-100"},
		{Kind: "req_selecting", MAC: vfC10M2, IP: "10.0.0.101", Host: "10-0-0-100"},
	},
}, {
	name:      "default_name_given_twice",
	signature: vfC10SigLoadName,
	what: "a client without a hostname is given the default name of its address although a reservation " +
		"already has that name; the table then holds the name twice and a restart drops one of the leases",
	conf: vfC10Pool4,
	ops: []vfC10Op{
		{Kind: "static_add", MAC: vfC10MR, IP: "10.0.0.103", Host: "10-0-0-100"},
		{Kind: "discover", MAC: vfC10M1},
		{Kind: "req_selecting", MAC: vfC10M1, IP: "@offered"},
	},
}}

// TestVFC10Regress replays the frozen histories.  A history that fails is a
// violation unless its finding is listed as open in known_findings.json.
func TestVFC10Regress(t *testing.T) {
	vfkit.Begin(t)
	for _, sc := range vfC10Scripts {
		failure := sc.run()
		vfC10.Class("regress:" + sc.name)
		if failure == "" {
			continue
		}
		first, _, _ := strings.Cut(failure, "\nconfig:")
		if _, open := vfkit.KnownOpen("C10", sc.signature); open {
			vfC10.KnownLine(fmt.Sprintf("signature=%s case=%s: %s", sc.signature, sc.name, strings.ReplaceAll(first, "\n", " ")))

			continue
		}
		t.Errorf("regression %s (%s):\n%s", sc.name, sc.what, failure)
	}
}
