//go:build verif && linux

package dhcpd

// C14 (lease database part): every save of leases.json -- through writeDB, the
// function all stores go through, and through the one-shot legacy migration --
// replaces the file atomically.

import (
	"encoding/json"
	"fmt"
	"net/netip"
	"os"
	"path/filepath"
	"strings"
	"sync"
	"testing"

	"github.com/AdguardTeam/AdGuardHome/internal/vfkit"
	"pgregory.net/rapid"
)

var vfC14 = vfkit.For("C14")

// vfC14Leases builds n leases whose content depends on gen.
func vfC14Leases(n int, gen int) (ls []*dbLease) {
	for i := 0; i < n; i++ {
		ls = append(ls, &dbLease{
			Expiry:   "2031-01-02T03:04:05Z",
			Hostname: fmt.Sprintf("host-%d-gen%d", i, gen),
			HWAddr:   fmt.Sprintf("02:00:%02x:%02x:%02x:%02x", gen&0xff, (i>>16)&0xff, (i>>8)&0xff, i&0xff),
			IP:       netip.AddrFrom4([4]byte{10, byte(i >> 16), byte(i >> 8), byte(i)}),
			IsStatic: i%3 == 0,
		})
	}

	return ls
}

var vfC14Sizes = []int{0, 1, 3, 50, 2000}

// TestVFC14LeaseDB: sequences of lease-database saves of generated sizes.
func TestVFC14LeaseDB(t *testing.T) {
	vfkit.Begin(t)
	rapid.Check(t, func(t *rapid.T) {
		dir, err := os.MkdirTemp("", "vfc14db")
		if err != nil {
			t.Fatalf("VERIF-INCONCLUSIVE mkdir: %v", err)
		}
		defer os.RemoveAll(dir)
		w, err := vfkit.NewWatcher(dir, os.TempDir())
		if err != nil {
			t.Fatalf("VERIF-INCONCLUSIVE watcher: %v", err)
		}
		defer w.Close()

		path := filepath.Join(dir, dataFilename)
		sizes := vfC14Sizes
		if vfkit.Thorough() {
			sizes = append(append([]int{}, sizes...), 20000, 150000)
		}
		versions := map[string]bool{"ENOENT": true}
		rd := vfkit.StartReader(path, 2)

		nSaves := rapid.IntRange(1, 6).Draw(t, "n_saves")
		prevN, prevGen := -1, -1
		for i := 0; i < nSaves; i++ {
			n := rapid.SampledFrom(sizes).Draw(t, fmt.Sprintf("save%d_n", i))
			gen := rapid.IntRange(0, 3).Draw(t, fmt.Sprintf("save%d_gen", i))
			if rapid.IntRange(0, 4).Draw(t, fmt.Sprintf("save%d_same", i)) == 0 && prevN >= 0 {
				n, gen = prevN, prevGen
			}
			leases := vfC14Leases(n, gen)
			cp := vfkit.CheckSave(t, "writeDB", w, dir, dataFilename, func() error { return writeDB(path, leases) }, true)

			b, rerr := os.ReadFile(path)
			if rerr != nil {
				t.Fatalf("after save: %v", rerr)
			}
			var dl dataLeases
			if jerr := json.Unmarshal(b, &dl); jerr != nil || len(dl.Leases) != n {
				t.Fatalf("after save of %d leases the file holds %d (err %v)", n, len(dl.Leases), jerr)
			}
			versions[vfkit.Sum(b)] = true

			vfC14.Eval()
			vfC14.ClassN("crash_points", cp)
			vfC14.Class(fmt.Sprintf("leasedb:size=%d", n))
			if i > 0 && (n != prevN || gen != prevGen) && len(b) > 0 {
				vfC14.Nontrivial(fmt.Sprintf("leasedb|%d|%d|%d|%d|pos%d", prevN, prevGen, n, gen, i))
				vfC14.Class("leasedb:replace_different")
			}
			if vfC14.WantSample("leasedb") {
				vfC14.Sample("leasedb", map[string]any{"leases": n, "bytes": len(b), "crash_points": cp, "position": i})
			}
			prevN, prevGen = n, gen
		}

		for k, c := range rd.Stop() {
			if !versions[k] {
				t.Fatalf("a concurrent reader saw %s (%d times), which is none of the saved versions", k, c)
			}
			vfC14.ClassN("reader_observations", c)
		}
	})
}

// TestVFC14LeaseDBConcurrent: overlapping stores of the lease database (the
// static-lease API, DHCP messages and a lease reset all store after releasing
// the lease lock, so stores do overlap in production).  Whatever the
// interleaving, the name must only ever be replaced by renames, readers must
// only see versions some store wrote, the end state must be one of them, and
// no temporary file may survive.
func TestVFC14LeaseDBConcurrent(t *testing.T) {
	vfkit.Begin(t)
	rapid.Check(t, func(t *rapid.T) {
		dir, err := os.MkdirTemp("", "vfc14dbc")
		if err != nil {
			t.Fatalf("VERIF-INCONCLUSIVE mkdir: %v", err)
		}
		defer os.RemoveAll(dir)
		ref, err := os.MkdirTemp("", "vfc14dbref")
		if err != nil {
			t.Fatalf("VERIF-INCONCLUSIVE mkdir: %v", err)
		}
		defer os.RemoveAll(ref)

		nWriters := rapid.IntRange(2, 4).Draw(t, "n_writers")
		nSaves := rapid.IntRange(2, 6).Draw(t, "saves_per_writer")
		sizes := []int{0, 1, 40, 300, 2500}
		type version struct {
			leases []*dbLease
		}
		plan := make([][]version, nWriters)
		versions := map[string]bool{"ENOENT": true}
		for wi := range plan {
			for j := 0; j < nSaves; j++ {
				n := rapid.SampledFrom(sizes).Draw(t, fmt.Sprintf("w%d_s%d_n", wi, j))
				ls := vfC14Leases(n, wi*16+j)
				plan[wi] = append(plan[wi], version{leases: ls})
				// the bytes of this version, from an undisturbed store
				rp := filepath.Join(ref, dataFilename)
				if werr := writeDB(rp, ls); werr != nil {
					t.Fatalf("VERIF-INCONCLUSIVE reference store: %v", werr)
				}
				b, rerr := os.ReadFile(rp)
				if rerr != nil {
					t.Fatalf("VERIF-INCONCLUSIVE reference read: %v", rerr)
				}
				versions[vfkit.Sum(b)] = true
			}
		}

		w, err := vfkit.NewWatcher(dir, os.TempDir())
		if err != nil {
			t.Fatalf("VERIF-INCONCLUSIVE watcher: %v", err)
		}
		defer w.Close()
		tmpBefore := vfkit.DirListing(os.TempDir())
		path := filepath.Join(dir, dataFilename)
		rd := vfkit.StartReader(path, 2)

		var wg sync.WaitGroup
		var errMu sync.Mutex
		var saveErrs []string
		start := make(chan struct{})
		for wi := range plan {
			wg.Add(1)
			go func(vs []version) {
				defer wg.Done()
				<-start
				for _, v := range vs {
					if werr := writeDB(path, v.leases); werr != nil {
						errMu.Lock()
						saveErrs = append(saveErrs, werr.Error())
						errMu.Unlock()
					}
				}
			}(plan[wi])
		}
		close(start)
		wg.Wait()
		seen := rd.Stop()

		evs, derr := w.Drain()
		if derr != nil {
			t.Fatalf("VERIF-INCONCLUSIVE inotify: %v", derr)
		}
		_, cp, aerr := vfkit.CheckAtomicHistory(evs, dir, dataFilename)
		if aerr != nil {
			t.Fatalf("overlapping stores (%d writers x %d): %v", nWriters, nSaves, aerr)
		}
		for k, c := range seen {
			if !versions[k] {
				t.Fatalf("overlapping stores (%d writers x %d): a concurrent reader saw %s (%d times), which is none of the stored versions; store errors: %v",
					nWriters, nSaves, k, c, saveErrs)
			}
		}
		b, rerr := os.ReadFile(path)
		if rerr != nil || !versions[vfkit.Sum(b)] {
			t.Fatalf("overlapping stores (%d writers x %d): the file ends as %s (err %v), which is none of the stored versions; store errors: %v",
				nWriters, nSaves, vfkit.Sum(b), rerr, saveErrs)
		}
		var dl dataLeases
		if jerr := json.Unmarshal(b, &dl); jerr != nil {
			t.Fatalf("overlapping stores: the file does not decode: %v", jerr)
		}
		for _, n := range vfkit.DirListing(dir) {
			if n != dataFilename {
				t.Fatalf("overlapping stores: leftover file %q next to the database; store errors: %v", n, saveErrs)
			}
		}
		tb := map[string]bool{}
		for _, n := range tmpBefore {
			tb[n] = true
		}
		for _, n := range vfkit.DirListing(os.TempDir()) {
			if !tb[n] && !strings.HasPrefix(n, "vfc14") {
				t.Fatalf("overlapping stores: leftover file %q in the staging directory", n)
			}
		}

		vfC14.Eval()
		vfC14.ClassN("crash_points", cp)
		vfC14.Class("leasedb:overlapping_stores")
		vfC14.Nontrivial(fmt.Sprintf("leasedb_concurrent|%d|%d|%d", nWriters, nSaves, len(evs)))
		if len(saveErrs) > 0 {
			vfC14.Class("leasedb:store_error_under_overlap")
		}
		if vfC14.WantSample("leasedb_concurrent") {
			vfC14.Sample("leasedb_concurrent", map[string]any{"writers": nWriters, "saves_each": nSaves, "events": len(evs), "crash_points": cp})
		}
	})
}

// TestVFC14LeaseMigration: the one-shot migration of the legacy leases.db.
func TestVFC14LeaseMigration(t *testing.T) {
	vfkit.Begin(t)
	rapid.Check(t, func(t *rapid.T) {
		work, err := os.MkdirTemp("", "vfc14mig")
		if err != nil {
			t.Fatalf("VERIF-INCONCLUSIVE mkdir: %v", err)
		}
		defer os.RemoveAll(work)
		data := filepath.Join(work, "data")
		if err = os.Mkdir(data, 0o755); err != nil {
			t.Fatalf("VERIF-INCONCLUSIVE mkdir: %v", err)
		}

		n := rapid.SampledFrom([]int{0, 1, 7, 300, 5000}).Draw(t, "n_old")
		old := []*leaseJSON{}
		for i := 0; i < n; i++ {
			exp := int64(1900000000 + i)
			if i%4 == 0 {
				exp = leaseExpireStatic
			}
			old = append(old, &leaseJSON{
				HWAddr: []byte{2, 0, 0, byte(i >> 16), byte(i >> 8), byte(i)}, IP: []byte{10, 9, byte(i >> 8), byte(i)},
				Hostname: fmt.Sprintf("old-%d", i), Expiry: exp,
			})
		}
		ob, _ := json.Marshal(old)
		if err = os.WriteFile(filepath.Join(work, dbFilename), ob, 0o644); err != nil {
			t.Fatalf("VERIF-INCONCLUSIVE write old db: %v", err)
		}
		existing := rapid.Bool().Draw(t, "existing_new_db")
		if existing {
			if err = writeDB(filepath.Join(data, dataFilename), vfC14Leases(5, 9)); err != nil {
				t.Fatalf("VERIF-INCONCLUSIVE seed: %v", err)
			}
		}

		w, err := vfkit.NewWatcher(data, os.TempDir())
		if err != nil {
			t.Fatalf("VERIF-INCONCLUSIVE watcher: %v", err)
		}
		defer w.Close()

		conf := &ServerConfig{WorkDir: work, DataDir: data}
		cp := vfkit.CheckSave(t, "migrateDB", w, data, dataFilename, func() error { return migrateDB(conf) }, true)

		b, rerr := os.ReadFile(filepath.Join(data, dataFilename))
		var dl dataLeases
		if rerr != nil || json.Unmarshal(b, &dl) != nil || len(dl.Leases) != n {
			t.Fatalf("migration of %d leases stored %d (read err %v)", n, len(dl.Leases), rerr)
		}
		vfC14.Eval()
		vfC14.ClassN("crash_points", cp)
		vfC14.Class("leasedb:migration")
		if existing {
			vfC14.Nontrivial(fmt.Sprintf("migration|%d|existing", n))
		} else if n > 0 {
			vfC14.Nontrivial(fmt.Sprintf("migration|%d|fresh", n))
		}
	})
}

// TestVFC14LeaseDBStraceHelper is the traced child: it performs saves when
// VERIF_C14_CHILD names a directory.
func TestVFC14LeaseDBStraceHelper(t *testing.T) {
	dir := os.Getenv("VERIF_C14_CHILD")
	if dir == "" {
		t.Skip("not a traced child")
	}
	path := filepath.Join(dir, dataFilename)
	for i, n := range []int{0, 3, 2000, 3, 20000} {
		if err := writeDB(path, vfC14Leases(n, i)); err != nil {
			t.Fatalf("save %d: %v", i, err)
		}
	}
}

// TestVFC14LeaseDBSyscalls runs the helper under strace and checks, for every
// rename onto the destination, that the data of the renamed file was synced to
// disk after its last write and before the rename (crash model: unsynced data
// may be lost, rename is atomic).
func TestVFC14LeaseDBSyscalls(t *testing.T) {
	vfkit.Begin(t)
	dir, err := os.MkdirTemp("", "vfc14st")
	if err != nil {
		t.Fatalf("VERIF-INCONCLUSIVE mkdir: %v", err)
	}
	defer os.RemoveAll(dir)
	n, serr := vfkit.StraceCheck(t, dir, "TestVFC14LeaseDBStraceHelper", filepath.Join(dir, dataFilename))
	if serr != nil {
		t.Fatalf("%v", serr)
	}
	vfC14.EvalN(n)
	vfC14.ClassN("leasedb:syscall_checked_renames", n)
	for i := 0; i < n; i++ {
		vfC14.Nontrivial(fmt.Sprintf("leasedb|strace|%d", i))
	}
}
