//go:build verif

package dhcpd

import (
	"fmt"
	"net/netip"
	"sort"
	"strings"
	"testing"

	"github.com/AdguardTeam/AdGuardHome/internal/vfkit"
	"pgregory.net/rapid"
)

// vfC10MACs is the closed set of hardware addresses.
var vfC10MACs = func() (macs []string) {
	for i := 1; i <= 10; i++ {
		macs = append(macs, fmt.Sprintf("02:00:00:00:00:%02x", i))
		if i == 1 || i == 3 {
			// an EUI-64 address (hlen 8) that starts like the 6-byte address
			// of another client
			macs = append(macs, fmt.Sprintf("02:00:00:00:00:%02x:00:09", i))
		}
	}

	return macs
}()

// vfC10Vocab is what a history draws from.
type vfC10Vocab struct {
	conf  vfC10Conf
	macs  []string
	ips   []string
	hosts []string
	pool  []string
}

// vfC10DrawVocab draws a small pool (2-8 addresses) inside a /24 or /28 and
// the vocabulary of addresses and names around it.
func vfC10DrawVocab(t *rapid.T, minMACs int) (v vfC10Vocab) {
	var first, size int
	outside := "10.0.1.7"
	var inSubnetFar []string
	if rapid.IntRange(0, 5).Draw(t, "wide_subnet") == 0 {
		// a /23 whose pool runs across the boundary of the third octet
		v.conf.Mask = "255.255.254.0"
		v.conf.Gateway = "10.0.0.1"
		size = rapid.IntRange(3, 8).Draw(t, "pool_size")
		before := rapid.IntRange(1, size-1).Draw(t, "pool_before_boundary")
		addr := func(i int) string {
			n := 256 - before + i
			return fmt.Sprintf("10.0.%d.%d", n/256, n%256)
		}
		v.conf.Start, v.conf.End = addr(0), addr(size-1)
		for i := 0; i < size; i++ {
			v.pool = append(v.pool, addr(i))
		}
		nm := rapid.IntRange(minMACs, len(vfC10MACs)).Draw(t, "n_macs")
		v.macs = vfC10MACs[:nm]
		v.ips = append(v.ips, v.pool...)
		v.ips = append(v.ips, v.pool...)
		v.ips = append(v.ips, v.conf.Gateway, addr(-1), addr(size), "10.0.2.7", "0.0.0.0", "10.0.0.200", "10.0.1.254")
		v.hosts = []string{"", "", "alpha", "beta", "gamma", "Alpha", "my pc", strings.ReplaceAll(v.pool[0], ".", "-"),
			strings.ReplaceAll(v.pool[size-1], ".", "-")}
		vfC10.Class("vocab:pool_across_third_octet")

		return v
	}
	if rapid.IntRange(0, 3).Draw(t, "narrow_subnet") == 0 {
		v.conf.Mask = "255.255.255.240"
		size = rapid.IntRange(2, 6).Draw(t, "pool_size")
		first = rapid.IntRange(2, 14-size+1).Draw(t, "pool_first")
		outside = "10.0.0.16"
		for _, c := range []int{2, 14} {
			if c < first || c >= first+size {
				inSubnetFar = append(inSubnetFar, fmt.Sprintf("10.0.0.%d", c))
			}
		}
	} else {
		v.conf.Mask = "255.255.255.0"
		size = rapid.IntRange(2, 8).Draw(t, "pool_size")
		first = rapid.SampledFrom([]int{2, 3, 10, 60, 100, 247}).Draw(t, "pool_first")
		inSubnetFar = []string{"10.0.0.200", "10.0.0.254"}
	}
	v.conf.Gateway = "10.0.0.1"
	v.conf.Start = fmt.Sprintf("10.0.0.%d", first)
	v.conf.End = fmt.Sprintf("10.0.0.%d", first+size-1)
	for i := 0; i < size; i++ {
		v.pool = append(v.pool, fmt.Sprintf("10.0.0.%d", first+i))
	}

	nm := rapid.IntRange(minMACs, len(vfC10MACs)).Draw(t, "n_macs")
	v.macs = vfC10MACs[:nm]

	v.ips = append(v.ips, v.pool...)
	// Pool addresses are listed twice so that they are drawn more often.
	v.ips = append(v.ips, v.pool...)
	v.ips = append(v.ips, v.conf.Gateway, fmt.Sprintf("10.0.0.%d", first-1), fmt.Sprintf("10.0.0.%d", first+size), outside, "0.0.0.0")
	v.ips = append(v.ips, inSubnetFar...)

	v.hosts = []string{"", "", "alpha", "beta", "gamma", "Alpha", "my pc", strings.ReplaceAll(v.pool[0], ".", "-"),
		strings.ReplaceAll(v.pool[size-1], ".", "-")}

	return v
}

func (v vfC10Vocab) world(t vfC10T) *vfC10World {
	return vfC10NewWorld(t, v.conf, v.ips, v.hosts)
}

// vfC10Finish records the measured coverage of one history.
func vfC10Finish(w *vfC10World, test string) {
	vfC10.Eval()
	vfC10.Class("test:" + test)
	for _, s := range w.shape {
		vfC10.Class("step:" + s)
	}
	vfC10.ClassN("steps_checked", len(w.shape))
	flags := make([]string, 0, len(w.flags))
	for f := range w.flags {
		flags = append(flags, f)
	}
	sort.Strings(flags)
	for _, f := range flags {
		vfC10.Class("history:" + f)
	}

	nontrivial := w.flags["exhausted_after_reservation"] || w.flags["last_free_after_reservation"] ||
		w.flags["decline_effective"] || w.flags["restart_after_change"]
	if nontrivial {
		vfC10.Class("nontrivial")
		vfC10.Nontrivial(test + "|" + strings.Join(w.shape, ","))
	}
	for _, f := range flags {
		cls := test + ":" + f
		if vfC10.WantSample(cls) {
			vfC10.Sample(cls, map[string]any{"config": w.conf, "history": w.trace})
		}
	}
}

// vfC10OwnAddr returns an address the client plausibly names: the one it was
// acknowledged or offered most of the time, any vocabulary address otherwise.
func vfC10OwnAddr(t *rapid.T, w *vfC10World, v vfC10Vocab, mac string, preferOffer bool) (ip string) {
	k := rapid.IntRange(0, 7).Draw(t, "addr_kind")
	a, hasA := w.acked[mac]
	o, hasO := w.offered[mac]
	if preferOffer {
		a, hasA, o, hasO = o, hasO, a, hasA
	}
	switch {
	case k <= 4 && hasA:
		return a.String()
	case k <= 5 && hasO:
		return o.String()
	case k == 6:
		return ""
	default:
		return rapid.SampledFrom(v.ips).Draw(t, "addr")
	}
}

// TestVFC10Machine drives generated histories of DHCP messages, reservation
// changes, clock steps and restarts; every invariant of the statement is
// checked after every step (see vfC10World.check).
func TestVFC10Machine(t *testing.T) {
	vfkit.Begin(t)
	rapid.Check(t, func(t *rapid.T) {
		v := vfC10DrawVocab(t, 3)
		w := v.world(t)
		defer w.close()

		mac := func() string { return rapid.SampledFrom(v.macs).Draw(t, "mac") }
		host := func() string { return rapid.SampledFrom(v.hosts).Draw(t, "host") }
		anyIP := func() string { return rapid.SampledFrom(v.ips).Draw(t, "ip") }

		// some clients ask for a lease time of their own
		ask := func() int { return rapid.SampledFrom([]int{0, 0, 0, 0, 60, 7 * 86400}).Draw(t, "ask_lease") }
		dora := func(m, h string) {
			a := ask()
			out := w.do(vfC10Op{Kind: "discover", MAC: m, Host: h, AskLease: a})
			if ip, ok := strings.CutPrefix(out, "offer:"); ok {
				w.do(vfC10Op{Kind: "req_selecting", MAC: m, IP: ip, Host: h, AskLease: a})
			}
		}

		// pickLease draws one entry of the table in memory.
		pickLease := func(static, dynamic bool) (e vfC10Entry, ok bool) {
			var cands []vfC10Entry
			for _, x := range w.memory() {
				if (x.Static && static) || (!x.Static && dynamic) {
					cands = append(cands, x)
				}
			}
			if len(cands) == 0 {
				return vfC10Entry{}, false
			}

			return cands[rapid.IntRange(0, len(cands)-1).Draw(t, "lease_idx")], true
		}

		staticArgs := func() (op vfC10Op) {
			op = vfC10Op{MAC: mac(), IP: anyIP(), Host: host()}
			switch rapid.IntRange(0, 5).Draw(t, "static_shape") {
			case 0:
				// the address some client currently has
				if e, ok := pickLease(false, true); ok {
					op.IP = e.IP
				}
			case 1:
				// the client that currently has a dynamic lease
				if e, ok := pickLease(false, true); ok {
					op.MAC = e.MAC
				}
			case 2:
				// the name some lease currently has
				if e, ok := pickLease(true, true); ok && e.Host != "" {
					op.Host = e.Host
				}
			}

			return op
		}

		actions := map[string]func(*rapid.T){
			"": func(*rapid.T) {},
			"discover": func(t *rapid.T) {
				op := vfC10Op{Kind: "discover", MAC: mac(), Host: host()}
				if rapid.IntRange(0, 3).Draw(t, "with_requested") == 0 {
					op.IP = anyIP()
				}
				w.do(op)
			},
			"dora": func(t *rapid.T) { dora(mac(), host()) },
			"fill": func(t *rapid.T) {
				// every client that has nothing asks for an address
				known := map[string]bool{}
				for _, e := range w.memory() {
					known[e.MAC] = true
				}
				ack := rapid.Bool().Draw(t, "fill_ack")
				for _, m := range v.macs {
					if known[m] {
						continue
					}
					if ack {
						dora(m, "")
					} else {
						w.do(vfC10Op{Kind: "discover", MAC: m})
					}
				}
			},
			"req_selecting": func(t *rapid.T) {
				m := mac()
				w.do(vfC10Op{Kind: "req_selecting", MAC: m, IP: vfC10OwnAddr(t, w, v, m, true), Host: host(),
					BadSID: rapid.IntRange(0, 7).Draw(t, "bad_sid") == 0})
			},
			"req_initreboot": func(t *rapid.T) {
				m := mac()
				w.do(vfC10Op{Kind: "req_initreboot", MAC: m, IP: vfC10OwnAddr(t, w, v, m, false), Host: host(), AskLease: ask()})
			},
			"req_renew": func(t *rapid.T) {
				m := mac()
				w.do(vfC10Op{Kind: "req_renew", MAC: m, IP: vfC10OwnAddr(t, w, v, m, false), Host: host(), AskLease: ask()})
			},
			"decline": func(t *rapid.T) {
				m := mac()
				w.do(vfC10Op{Kind: "decline", MAC: m, IP: vfC10OwnAddr(t, w, v, m, false)})
			},
			"release": func(t *rapid.T) {
				m := mac()
				w.do(vfC10Op{Kind: "release", MAC: m, IP: vfC10OwnAddr(t, w, v, m, false)})
			},
			"static_add": func(t *rapid.T) {
				op := staticArgs()
				op.Kind = "static_add"
				w.do(op)
			},
			"static_update": func(t *rapid.T) {
				op := staticArgs()
				op.Kind = "static_update"
				if e, ok := pickLease(true, false); ok && rapid.IntRange(0, 3).Draw(t, "update_existing") != 0 {
					op.MAC = e.MAC
				}
				w.do(op)
			},
			"static_remove": func(t *rapid.T) {
				op := vfC10Op{Kind: "static_remove", MAC: mac(), IP: anyIP(), Host: host()}
				k := rapid.IntRange(0, 9).Draw(t, "remove_shape")
				if e, ok := pickLease(true, k == 0); ok && k < 8 {
					op.MAC, op.IP, op.Host = e.MAC, e.IP, e.Host
					if k == 1 {
						op.Host = host()
					}
				}
				w.do(op)
			},
			"advance": func(t *rapid.T) {
				w.do(vfC10Op{Kind: "advance", Minutes: rapid.SampledFrom(vfC10Advances).Draw(t, "minutes")})
			},
			"restart": func(t *rapid.T) { w.do(vfC10Op{Kind: "restart"}) },
		}
		// Weights: rapid picks actions uniformly, so frequent ones get aliases.
		for _, dup := range []string{"dora", "dora", "discover", "decline", "static_add", "req_renew", "release"} {
			actions[dup+"_"] = actions[dup]
			if dup == "dora" {
				actions["dora__"] = actions[dup]
			}
		}

		t.Repeat(actions)
		vfC10Finish(w, "machine")
	})
}

// TestVFC10OfferWhenFree builds the pool state by construction: reservations
// inside and outside the pool (some removed again), optionally a restart, then
// exactly as many new clients as there are unreserved pool addresses.  Every
// one of them must be offered an address, all different, none reserved; one
// client more gets nothing once all of them are acknowledged.
func TestVFC10OfferWhenFree(t *testing.T) {
	vfkit.Begin(t)
	rapid.Check(t, func(t *rapid.T) {
		v := vfC10DrawVocab(t, len(vfC10MACs))
		w := v.world(t)
		defer w.close()

		// candidate reservation addresses: the pool, its neighbours, far ones
		var inside, outsidePool []string
		for _, ip := range v.ips {
			a := netip.MustParseAddr(ip)
			switch {
			case w.inPool[a]:
				inside = append(inside, ip)
			case w.subnet.Contains(a) && a != w.gateway && !a.IsUnspecified():
				outsidePool = append(outsidePool, ip)
			}
		}
		sort.Strings(inside)
		sort.Strings(outsidePool)
		inside = vfC10Dedup(inside)
		outsidePool = vfC10Dedup(outsidePool)

		resMACs := []string{"02:00:00:00:01:01", "02:00:00:00:01:02", "02:00:00:00:01:03", "02:00:00:00:01:04"}
		nRes := rapid.IntRange(0, len(resMACs)).Draw(t, "n_reservations")
		reserved := map[string]string{}
		usedIP := map[string]bool{}
		names := []string{"", "printer", "nas", "tv", "cam"}
		for i := 0; i < nRes; i++ {
			var ip string
			if rapid.Bool().Draw(t, "reservation_inside") || len(outsidePool) == 0 {
				ip = rapid.SampledFrom(inside).Draw(t, "res_ip")
			} else {
				ip = rapid.SampledFrom(outsidePool).Draw(t, "res_ip")
			}
			if usedIP[ip] {
				continue
			}
			name := ""
			if rapid.Bool().Draw(t, "named") {
				name = names[i+1]
			}
			out := w.do(vfC10Op{Kind: "static_add", MAC: resMACs[i], IP: ip, Host: name})
			if out == "excluded" {
				continue
			}
			if out != "accepted" {
				t.Fatalf("reservation %s -> %s on an empty table: %s", resMACs[i], ip, out)
			}
			usedIP[ip] = true
			reserved[resMACs[i]] = ip
		}
		// some reservations are removed again: their addresses are free again
		for _, m := range resMACs {
			ip, ok := reserved[m]
			if !ok || rapid.IntRange(0, 3).Draw(t, "remove_again") != 0 {
				continue
			}
			name := ""
			for _, e := range w.memory() {
				if e.MAC == m {
					name = e.Host
				}
			}
			out := w.do(vfC10Op{Kind: "static_remove", MAC: m, IP: ip, Host: name})
			if out != "accepted" {
				t.Fatalf("removing the reservation %s -> %s: %s", m, ip, out)
			}
			delete(reserved, m)
			delete(usedIP, ip)
			w.flags["reservation_removed_again"] = true
		}
		if rapid.IntRange(0, 2).Draw(t, "restart_before") == 0 {
			w.do(vfC10Op{Kind: "restart"})
		}

		free := 0
		for _, ip := range inside {
			if !usedIP[ip] {
				free++
			}
		}
		for _, ip := range reserved {
			if w.inPool[netip.MustParseAddr(ip)] {
				w.flags["reservation_inside_pool"] = true
			} else {
				w.flags["reservation_outside_pool"] = true
			}
		}

		ackAll := rapid.IntRange(0, 3).Draw(t, "ack_all") != 0
		given := map[string]string{}
		for i := 0; i < free; i++ {
			m := vfC10MACs[i]
			out := w.do(vfC10Op{Kind: "discover", MAC: m})
			ip, ok := strings.CutPrefix(out, "offer:")
			if !ok {
				// w.do has failed already (offer_required); defensive.
				t.Fatalf("client %d of %d got %q", i+1, free, out)
			}
			if prev, dup := given[ip]; dup {
				t.Fatalf("%s offered to %s and to %s", ip, prev, m)
			}
			given[ip] = m
			if ackAll || rapid.Bool().Draw(t, "ack") {
				out = w.do(vfC10Op{Kind: "req_selecting", MAC: m, IP: ip})
				if out != "ack:"+ip {
					t.Fatalf("REQUEST for the offered %s answered %q", ip, out)
				}
			} else {
				ackAll = false
				w.flags["offer_left_unacknowledged"] = true
			}
			if rapid.IntRange(0, 9).Draw(t, "restart_between") == 0 {
				w.do(vfC10Op{Kind: "restart"})
			}
		}
		w.flags["pool_filled"] = true

		// one client more than there are addresses
		extra := "02:00:00:00:02:01"
		out := w.do(vfC10Op{Kind: "discover", MAC: extra})
		if ackAll && strings.HasPrefix(out, "offer") {
			t.Fatalf("all %d unreserved pool addresses are acknowledged leases, yet a new client got %q", free, out)
		}
		// a reserved client asks now: whatever it is given must be its address
		// (checked in checkAssigned)
		for _, m := range resMACs {
			if _, ok := reserved[m]; ok {
				w.do(vfC10Op{Kind: "discover", MAC: m})

				break
			}
		}

		vfC10Finish(w, "offer_when_free")
	})
}

func vfC10Dedup(in []string) (out []string) {
	for i, s := range in {
		if i == 0 || in[i-1] != s {
			out = append(out, s)
		}
	}

	return out
}
