//go:build verif

package dhcpd

// C05 (DHCP part): changing DHCP leases through the admin API while DHCP
// packets are handled and while the DNS server asks the lease table
// (HostByIP / IPByHost / MACByIP / Leases) never races, panics or stalls.
// Run under the race detector; the program is written to program.json before
// it runs.  The end state is also checked against C10's structural invariant
// (no address twice, no hardware address twice, leases.json = memory).

import (
	"bytes"
	"encoding/json"
	"fmt"
	"net"
	"net/http"
	"net/http/httptest"
	"net/netip"
	"os"
	"runtime"
	"runtime/debug"
	"strings"
	"sync"
	"sync/atomic"
	"testing"
	"time"

	"github.com/AdguardTeam/AdGuardHome/internal/vfkit"
	"github.com/insomniacslk/dhcp/dhcpv4"
	"pgregory.net/rapid"
)

var vfC05D = vfkit.For("C05")

// vfC05DStep is one step of one goroutine.
type vfC05DStep struct {
	Op   string `json:"op"`
	MAC  string `json:"mac,omitempty"`
	IP   string `json:"ip,omitempty"`
	Host string `json:"host,omitempty"`
}

// vfC05DProgram is a concurrent program over one DHCP server.
type vfC05DProgram struct {
	Clients [][]vfC05DStep `json:"clients"` // DHCP messages; one goroutine each, as server4 starts one per packet
	Admins  [][]vfC05DStep `json:"admins"`  // lease changes through the HTTP handlers
	Readers [][]vfC05DStep `json:"readers"` // what the DNS server and the dashboard ask
}

const (
	vfC05DGateway = "192.168.10.1"
	vfC05DMask    = "255.255.255.0"
	vfC05DStart   = "192.168.10.10"
	vfC05DEnd     = "192.168.10.17"
)

func vfC05DMac(i int) string { return fmt.Sprintf("02:00:00:00:05:%02x", i) }

func TestVFC05DHCPPrograms(t *testing.T) {
	vfkit.Begin(t)

	run := func(t interface{ Fatalf(string, ...any) }, p *vfC05DProgram) {
		dir, err := vfC10TempDir()
		if err != nil {
			t.Fatalf("VERIF-INCONCLUSIVE temp dir: %v", err)
		}
		defer os.RemoveAll(dir)

		handlers := map[string]http.HandlerFunc{}
		gw := netip.MustParseAddr(vfC05DGateway)
		s, err := Create(&ServerConfig{
			ConfigModified: func() {}, Enabled: true, InterfaceName: "vf0", LocalDomainName: "lan",
			WorkDir: dir, DataDir: dir,
			HTTPRegister: func(_, url string, h http.HandlerFunc) { handlers[url] = h },
			Conf4: V4ServerConf{
				GatewayIP: gw, SubnetMask: netip.MustParseAddr(vfC05DMask),
				RangeStart: netip.MustParseAddr(vfC05DStart), RangeEnd: netip.MustParseAddr(vfC05DEnd),
				LeaseDuration: 3600,
			},
		})
		if err != nil {
			t.Fatalf("VERIF-INCONCLUSIVE Create: %v", err)
		}
		v4, ok := s.srv4.(*v4Server)
		if !ok || v4.conf == nil {
			t.Fatalf("VERIF-INCONCLUSIVE no v4 server")
		}
		v4.conf.dnsIPAddrs = []netip.Addr{gw}
		changes := 0
		var chMu sync.Mutex
		s.onLeaseChanged = append(s.onLeaseChanged, func(int) { chMu.Lock(); changes++; chMu.Unlock() })

		var failMu sync.Mutex
		var failures []string
		fail := func(format string, args ...any) {
			failMu.Lock()
			defer failMu.Unlock()
			if len(failures) < 3 {
				failures = append(failures, fmt.Sprintf(format, args...))
			}
		}
		guard := func(what string) {
			if v := recover(); v != nil {
				fail("panic in %s: %v\n%s", what, v, debug.Stack())
			}
		}
		var xidMu sync.Mutex
		var xid uint32
		send := func(mt dhcpv4.MessageType, st vfC05DStep, mods ...dhcpv4.Modifier) (yi netip.Addr, typ dhcpv4.MessageType) {
			defer guard("packetHandler " + st.Op)
			xidMu.Lock()
			xid++
			x := xid
			xidMu.Unlock()
			all := append([]dhcpv4.Modifier{
				dhcpv4.WithTransactionID(dhcpv4.TransactionID{byte(x >> 24), byte(x >> 16), byte(x >> 8), byte(x)}),
				dhcpv4.WithHwAddr(vfC10MAC(st.MAC)), dhcpv4.WithMessageType(mt), dhcpv4.WithBroadcast(true),
			}, mods...)
			if st.Host != "" {
				all = append(all, dhcpv4.WithOption(dhcpv4.OptHostName(st.Host)))
			}
			req, rerr := dhcpv4.New(all...)
			if rerr != nil {
				fail("VERIF-INCONCLUSIVE building message: %v", rerr)

				return yi, typ
			}
			wire, rerr := dhcpv4.FromBytes(req.ToBytes())
			if rerr != nil {
				fail("VERIF-INCONCLUSIVE parsing message: %v", rerr)

				return yi, typ
			}
			conn := &vfC10Conn{}
			v4.packetHandler(conn, &net.UDPAddr{IP: net.IPv4bcast, Port: dhcpv4.ClientPort}, wire)
			if len(conn.pkts) == 0 {
				return yi, typ
			}
			resp, rerr := dhcpv4.FromBytes(conn.pkts[0])
			if rerr != nil {
				fail("reply to %s does not parse: %v", st.Op, rerr)

				return yi, typ
			}
			if a, aok := netip.AddrFromSlice(resp.YourIPAddr.To4()); aok && !a.IsUnspecified() {
				yi = a
			}

			return yi, resp.MessageType()
		}
		post := func(path string, st vfC05DStep) {
			defer guard("POST " + path)
			h := handlers[path]
			if h == nil {
				fail("VERIF-INCONCLUSIVE no handler %s", path)

				return
			}
			b, _ := json.Marshal(map[string]string{"mac": st.MAC, "ip": st.IP, "hostname": st.Host})
			h(httptest.NewRecorder(), httptest.NewRequest(http.MethodPost, path, bytes.NewReader(b)))
		}
		do := func(st vfC05DStep) {
			switch st.Op {
			case "join":
				// DISCOVER, then REQUEST of what was offered
				yi, typ := send(dhcpv4.MessageTypeDiscover, st)
				if typ == dhcpv4.MessageTypeOffer && yi.IsValid() {
					send(dhcpv4.MessageTypeRequest, st,
						dhcpv4.WithOption(dhcpv4.OptRequestedIPAddress(net.IP(yi.AsSlice()))),
						dhcpv4.WithOption(dhcpv4.OptServerIdentifier(net.IP(gw.AsSlice()))))
				}
			case "discover":
				send(dhcpv4.MessageTypeDiscover, st)
			case "request":
				send(dhcpv4.MessageTypeRequest, st, dhcpv4.WithOption(dhcpv4.OptRequestedIPAddress(vfC10IPOpt(st.IP))))
			case "decline":
				send(dhcpv4.MessageTypeDecline, st, dhcpv4.WithOption(dhcpv4.OptRequestedIPAddress(vfC10IPOpt(st.IP))),
					dhcpv4.WithOption(dhcpv4.OptServerIdentifier(net.IP(gw.AsSlice()))))
			case "release":
				send(dhcpv4.MessageTypeRelease, st, dhcpv4.WithClientIP(vfC10IPOpt(st.IP)))
			case "static_add":
				post("/control/dhcp/add_static_lease", st)
			case "static_remove":
				post("/control/dhcp/remove_static_lease", st)
			case "static_update":
				post("/control/dhcp/update_static_lease", st)
			case "reset_leases":
				func() {
					defer guard("reset_leases")
					handlers["/control/dhcp/reset_leases"](httptest.NewRecorder(), httptest.NewRequest(http.MethodPost, "/control/dhcp/reset_leases", nil))
				}()
			case "status":
				func() {
					defer guard("status")
					rec := httptest.NewRecorder()
					handlers["/control/dhcp/status"](rec, httptest.NewRequest(http.MethodGet, "/control/dhcp/status", nil))
					var doc map[string]any
					if rec.Code == http.StatusOK && json.Unmarshal(rec.Body.Bytes(), &doc) != nil {
						fail("GET /control/dhcp/status: malformed JSON %q", rec.Body.String())
					}
				}()
			case "host_by_ip":
				func() { defer guard("HostByIP"); _ = s.HostByIP(netip.MustParseAddr(st.IP)) }()
			case "mac_by_ip":
				func() { defer guard("MACByIP"); _ = s.MACByIP(netip.MustParseAddr(st.IP)) }()
			case "ip_by_host":
				func() { defer guard("IPByHost"); _ = s.IPByHost(st.Host) }()
			case "leases":
				func() {
					defer guard("Leases")
					for _, l := range s.Leases() {
						_ = l.Hostname + l.IP.String() + l.HWAddr.String() + l.Expiry.String()
					}
				}()
			case "write_disk_config":
				func() { defer guard("WriteDiskConfig"); c := &ServerConfig{}; s.WriteDiskConfig(c) }()
			case "enabled":
				_ = s.Enabled()
			}
		}

		var wg sync.WaitGroup
		var progress atomic.Int64
		start := make(chan struct{})
		spawn := func(steps []vfC05DStep) {
			wg.Add(1)
			go func() {
				defer wg.Done()
				<-start
				for _, st := range steps {
					do(st)
					progress.Add(1)
					runtime.Gosched()
				}
			}()
		}
		for _, g := range p.Clients {
			spawn(g)
		}
		for _, g := range p.Admins {
			spawn(g)
		}
		for _, g := range p.Readers {
			spawn(g)
		}
		done := make(chan struct{})
		go func() { wg.Wait(); close(done) }()
		close(start)
		if !vfkit.WaitProgress(done, &progress, 60*time.Second) {
			buf := make([]byte, 1<<20)
			n := runtime.Stack(buf, true)
			t.Fatalf("stall: the DHCP program completed no operation for 60s\n%s", buf[:n])
		}

		// quiescent end state: every address and every hardware address at
		// most once, and the file lists the memory table
		seenIP, seenMAC := map[string]string{}, map[string]string{}
		mem := map[string]bool{}
		v4.leasesLock.Lock()
		for _, l := range v4.leases {
			id := fmt.Sprintf("%s|%s|%t", l.HWAddr, l.IP, l.IsStatic)
			if prev, dup := seenIP[l.IP.String()]; dup {
				fail("after the program address %s is in two lease entries: %s and %s", l.IP, prev, id)
			}
			seenIP[l.IP.String()] = id
			if prev, dup := seenMAC[l.HWAddr.String()]; dup {
				fail("after the program client %s is in two lease entries: %s and %s", l.HWAddr, prev, id)
			}
			seenMAC[l.HWAddr.String()] = id
			mem[id] = true
		}
		v4.leasesLock.Unlock()
		if v6, isV6 := s.srv6.(*v6Server); isV6 {
			v6.leasesLock.Lock()
			for _, l := range v6.leases {
				mem[fmt.Sprintf("%s|%s|%t", l.HWAddr, l.IP, l.IsStatic)] = true
			}
			v6.leasesLock.Unlock()
		}
		chMu.Lock()
		nchanges := changes
		chMu.Unlock()
		if nchanges > 0 {
			b, rerr := os.ReadFile(dir + "/leases.json")
			doc := &vfC10DiskDoc{}
			if rerr == nil {
				rerr = json.Unmarshal(b, doc)
			}
			if rerr != nil && !os.IsNotExist(rerr) {
				fail("leases.json after the program: %v", rerr)
			}
			if rerr == nil {
				// every change stores the table, so once the program is over
				// the file must list the table that is in memory
				disk := map[string]bool{}
				for _, l := range doc.Leases {
					mac, _ := net.ParseMAC(l.MAC)
					disk[fmt.Sprintf("%s|%s|%t", mac, l.IP, l.Static)] = true
				}
				for id := range mem {
					if !disk[id] {
						fail("after the program the lease %s is in memory but not in leases.json (%d entries there)", id, len(disk))
					}
				}
				for id := range disk {
					if !mem[id] {
						fail("after the program leases.json lists %s, which is not in memory (%d entries there)", id, len(mem))
					}
				}
				vfC05D.Class("dhcp:disk_compared_with_memory")
			}
		}

		vfC05D.Eval()
		vfC05D.Class("dhcp:program")
		if len(mem) > 0 {
			vfC05D.Class("dhcp:leases_at_end")
		}
		b, _ := json.Marshal(p)
		vfC05D.Nontrivial("dhcp|" + string(b))
		if len(failures) > 0 {
			t.Fatalf("%s", strings.Join(failures, "\n"))
		}
	}

	if rf := os.Getenv("VERIF_REPLAY_FILE"); rf != "" {
		b, err := os.ReadFile(rf)
		p := &vfC05DProgram{}
		if err != nil || json.Unmarshal(b, p) != nil {
			t.Fatalf("VERIF-INCONCLUSIVE replay file: %v", err)
		}
		for i := 0; i < 20; i++ {
			run(t, p)
		}

		return
	}

	// the IPv6 addresses reach the DHCPv6 half of the server (static leases,
	// lookups by address)
	ips := []string{"192.168.10.10", "192.168.10.11", "192.168.10.12", "192.168.10.13", "192.168.10.17", "192.168.10.40", "192.168.10.41", "192.168.10.1", "2001:db8:10::a", "2001:db8:10::b", "2001:db8:10::c"}
	adminIPs := []string{"192.168.10.10", "192.168.10.11", "192.168.10.40", "192.168.10.41", "2001:db8:10::a", "2001:db8:10::b", "2001:db8:10::c", "2001:db8:10::a"}
	hosts := []string{"alpha", "beta", "gamma", "Alpha", "192-168-10-10", ""}
	rapid.Check(t, func(t *rapid.T) {
		p := &vfC05DProgram{}
		stepOver := func(ops []string, label string, addrs []string) vfC05DStep {
			return vfC05DStep{
				Op:   rapid.SampledFrom(ops).Draw(t, label+"_op"),
				MAC:  vfC05DMac(rapid.IntRange(1, 6).Draw(t, label+"_mac")),
				IP:   rapid.SampledFrom(addrs).Draw(t, label+"_ip"),
				Host: rapid.SampledFrom(hosts).Draw(t, label+"_host"),
			}
		}
		step := func(ops []string, label string) vfC05DStep { return stepOver(ops, label, ips) }
		nc := rapid.IntRange(1, 4).Draw(t, "n_clients")
		for g := 0; g < nc; g++ {
			n := rapid.IntRange(2, 10).Draw(t, fmt.Sprintf("c%d_len", g))
			var steps []vfC05DStep
			for i := 0; i < n; i++ {
				// DHCPv4 messages carry IPv4 addresses only
				steps = append(steps, stepOver([]string{"join", "join", "discover", "request", "decline", "release"}, fmt.Sprintf("c%d_%d", g, i), ips[:8]))
			}
			p.Clients = append(p.Clients, steps)
		}
		na := rapid.IntRange(1, 2).Draw(t, "n_admins")
		for g := 0; g < na; g++ {
			n := rapid.IntRange(1, 8).Draw(t, fmt.Sprintf("a%d_len", g))
			var steps []vfC05DStep
			for i := 0; i < n; i++ {
				// the administrator works on both address families, with few
				// names, so that refused requests (address, hardware address or
				// name taken) are as common as accepted ones
				steps = append(steps, stepOver([]string{"static_add", "static_add", "static_add", "static_remove", "static_update", "reset_leases"},
					fmt.Sprintf("a%d_%d", g, i), adminIPs))
				if h := steps[len(steps)-1].Host; h != "" && rapid.Bool().Draw(t, fmt.Sprintf("a%d_%d_common_name", g, i)) {
					steps[len(steps)-1].Host = "alpha"
				}
			}
			p.Admins = append(p.Admins, steps)
		}
		nr := rapid.IntRange(1, 3).Draw(t, "n_readers")
		for g := 0; g < nr; g++ {
			n := rapid.IntRange(3, 15).Draw(t, fmt.Sprintf("r%d_len", g))
			var steps []vfC05DStep
			for i := 0; i < n; i++ {
				steps = append(steps, step([]string{"host_by_ip", "mac_by_ip", "ip_by_host", "leases", "status", "write_disk_config", "enabled"}, fmt.Sprintf("r%d_%d", g, i)))
			}
			p.Readers = append(p.Readers, steps)
		}
		b, _ := json.MarshalIndent(p, "", " ")
		if err := os.WriteFile("program.json", b, 0o644); err != nil {
			t.Fatalf("VERIF-INCONCLUSIVE write program: %v", err)
		}
		run(t, p)
		if vfC05D.WantSample("dhcp_program") {
			vfC05D.Sample("dhcp_program", p)
		}
	})
}

// TestVFC05DHCPLastAddress: two clients compete for the last free address of the
// pool, one confirming the offer it holds (REQUEST), the other just arriving
// (DISCOVER), in parallel as server4 handles packets.  Whatever the order, at
// most one of them may end up with an acknowledged lease of that address.
func TestVFC05DHCPLastAddress(t *testing.T) {
	vfkit.Begin(t)
	rapid.Check(t, func(t *rapid.T) {
		poolSize := rapid.IntRange(2, 4).Draw(t, "pool_size")
		rounds := rapid.SampledFrom([]int{50, 200, 400}).Draw(t, "rounds")
		if vfkit.Thorough() {
			rounds *= 3
		}
		dir, err := vfC10TempDir()
		if err != nil {
			t.Fatalf("VERIF-INCONCLUSIVE temp dir: %v", err)
		}
		defer os.RemoveAll(dir)
		gw := netip.MustParseAddr(vfC05DGateway)
		first := netip.MustParseAddr(vfC05DStart)
		last := first
		for i := 1; i < poolSize; i++ {
			last = last.Next()
		}
		s, err := Create(&ServerConfig{
			ConfigModified: func() {}, Enabled: true, InterfaceName: "vf0", LocalDomainName: "lan", WorkDir: dir, DataDir: dir,
			Conf4: V4ServerConf{
				GatewayIP: gw, SubnetMask: netip.MustParseAddr(vfC05DMask), RangeStart: first, RangeEnd: last, LeaseDuration: 3600,
			},
		})
		if err != nil {
			t.Fatalf("VERIF-INCONCLUSIVE Create: %v", err)
		}
		v4 := s.srv4.(*v4Server)
		v4.conf.dnsIPAddrs = []netip.Addr{gw}

		var xid uint32
		send := func(mt dhcpv4.MessageType, mac string, mods ...dhcpv4.Modifier) (yi netip.Addr, typ dhcpv4.MessageType) {
			x := atomic.AddUint32(&xid, 1)
			all := append([]dhcpv4.Modifier{
				dhcpv4.WithTransactionID(dhcpv4.TransactionID{byte(x >> 24), byte(x >> 16), byte(x >> 8), byte(x)}),
				dhcpv4.WithHwAddr(vfC10MAC(mac)), dhcpv4.WithMessageType(mt), dhcpv4.WithBroadcast(true),
			}, mods...)
			req, rerr := dhcpv4.New(all...)
			if rerr != nil {
				t.Fatalf("VERIF-INCONCLUSIVE building message: %v", rerr)
			}
			conn := &vfC10Conn{}
			v4.packetHandler(conn, &net.UDPAddr{IP: net.IPv4bcast, Port: dhcpv4.ClientPort}, req)
			if len(conn.pkts) == 0 {
				return yi, dhcpv4.MessageTypeNone
			}
			resp, rerr := dhcpv4.FromBytes(conn.pkts[0])
			if rerr != nil {
				t.Fatalf("reply does not parse: %v", rerr)
			}
			if a, ok := netip.AddrFromSlice(resp.YourIPAddr.To4()); ok && !a.IsUnspecified() {
				yi = a
			}

			return yi, resp.MessageType()
		}
		selecting := func(mac string, ip netip.Addr) (yi netip.Addr, typ dhcpv4.MessageType) {
			return send(dhcpv4.MessageTypeRequest, mac,
				dhcpv4.WithOption(dhcpv4.OptRequestedIPAddress(net.IP(ip.AsSlice()))),
				dhcpv4.WithOption(dhcpv4.OptServerIdentifier(net.IP(gw.AsSlice()))))
		}

		both := 0
		for r := 0; r < rounds; r++ {
			if rerr := s.resetLeases(); rerr != nil {
				t.Fatalf("VERIF-INCONCLUSIVE reset: %v", rerr)
			}
			// fill the pool up to the last address with acknowledged leases
			for i := 0; i < poolSize-1; i++ {
				mac := fmt.Sprintf("02:00:00:00:0f:%02x", i)
				if yi, typ := send(dhcpv4.MessageTypeDiscover, mac); typ == dhcpv4.MessageTypeOffer {
					selecting(mac, yi)
				}
			}
			macA, macB := "02:00:00:00:0a:01", "02:00:00:00:0b:01"
			x, typ := send(dhcpv4.MessageTypeDiscover, macA)
			if typ != dhcpv4.MessageTypeOffer {
				t.Fatalf("round %d: the first client got no offer for the last free address", r)
			}

			var wg sync.WaitGroup
			var ackA, offB netip.Addr
			var typA, typB dhcpv4.MessageType
			start := make(chan struct{})
			wg.Add(2)
			go func() { defer wg.Done(); <-start; ackA, typA = selecting(macA, x) }()
			go func() { defer wg.Done(); <-start; offB, typB = send(dhcpv4.MessageTypeDiscover, macB) }()
			close(start)
			wg.Wait()

			aHolds := typA == dhcpv4.MessageTypeAck && ackA == x
			bHolds := false
			if typB == dhcpv4.MessageTypeOffer && offB == x {
				if yi, typ2 := selecting(macB, x); typ2 == dhcpv4.MessageTypeAck && yi == x {
					bHolds = true
				}
			}
			vfC05D.Eval()
			switch {
			case aHolds && bHolds:
				t.Fatalf("round %d: the address %s was acknowledged to %s (REQUEST for its offer) and then to %s (DISCOVER in parallel, then REQUEST): two clients hold it; "+
					"the lease table lists %d leases", r, x, macA, macB, len(s.Leases()))
			case aHolds:
				vfC05D.Class("dhcp:last_address:first_client_kept_it")
			case bHolds:
				vfC05D.Class("dhcp:last_address:second_client_took_it")
				both++
			default:
				vfC05D.Class("dhcp:last_address:neither")
			}
		}
		vfC05D.Nontrivial(fmt.Sprintf("dhcp_last_address|%d|%d|%d", poolSize, rounds, both))
		if vfC05D.WantSample("dhcp_last_address") {
			vfC05D.Sample("dhcp_last_address", map[string]any{"pool_size": poolSize, "rounds": rounds, "second_client_took_it": both})
		}
	})
}
