//go:build verif

package dnsforward

// C16: ClientIDs come only from a well-formed DoH path /dns-query/<id> or a
// server name <id>.<configured server name>; lower-cased; must be a valid host
// name label else the request fails; plain and DNSCrypt never carry one; strict
// SNI check rejects names outside the configured domain.

import (
	"errors"
	"fmt"
	"net/netip"
	"strings"
	"testing"

	"github.com/AdguardTeam/AdGuardHome/internal/vfkit"
	"github.com/AdguardTeam/dnsproxy/proxy"
	"github.com/miekg/dns"
	"pgregory.net/rapid"
)

var vfC16 = vfkit.For("C16")

// vfValidLabel is RFC 1123 host-name label validity, written from the RFC.
func vfValidLabel(s string) (ok bool) {
	if len(s) == 0 || len(s) > 63 {
		return false
	}
	alnum := func(c byte) bool {
		return (c >= 'a' && c <= 'z') || (c >= 'A' && c <= 'Z') || (c >= '0' && c <= '9')
	}
	for i := 0; i < len(s); i++ {
		c := s[i]
		if alnum(c) {
			continue
		}
		if c == '-' && i > 0 && i < len(s)-1 {
			continue
		}

		return false
	}

	return true
}

// vfC16Expect is the reference outcome.
type vfC16Expect struct {
	ID        string
	Err       bool
	Ambiguous bool
	Source    string // none | path | sni
}

// vfCleanSegments resolves a URL path into its segments, dropping empty and "."
// segments and applying ".." (a re-implementation independent of path.Clean).
func vfCleanSegments(p string) (segs []string) {
	for _, s := range strings.Split(p, "/") {
		switch s {
		case "", ".":
		case "..":
			if len(segs) > 0 {
				segs = segs[:len(segs)-1]
			}
		default:
			segs = append(segs, s)
		}
	}

	return segs
}

// vfC16Case is a generated input.
type vfC16Case struct {
	Proto      proxy.Proto
	ServerName string
	Strict     bool
	// CliName is the server name the client presents (SNI, or Host header
	// without port for DoH without TLS state).
	CliName  string
	Path     string
	Host     string // DoH Host header (may carry a port)
	HTTPTLS  bool
	desc     string
	mixedDom bool
}

func vfC16Reference(c *vfC16Case) (e vfC16Expect) {
	switch c.Proto {
	case proxy.ProtoUDP, proxy.ProtoTCP, proxy.ProtoDNSCrypt:
		return vfC16Expect{Source: "none"}
	}

	if c.Proto == proxy.ProtoHTTPS {
		segs := vfCleanSegments(c.Path)
		if len(segs) == 0 || segs[0] != "dns-query" {
			return vfC16Expect{Err: true, Source: "path"}
		}
		switch len(segs) {
		case 1:
			// no id in the path: the server name decides
		case 2:
			if !vfValidLabel(segs[1]) {
				return vfC16Expect{Err: true, Source: "path"}
			}

			// the identifier of the path counts, but "with strict
			// server-name checking a name outside the configured domain is
			// rejected" holds for these requests as for all others
			if c.Strict && c.ServerName != "" {
				switch vfC16NameClass(c) {
				case "outside":
					vfC16.Class("path_id_with_name_outside_domain_strict")

					return vfC16Expect{Err: true, Source: "sni"}
				case "unclear":
					return vfC16Expect{Ambiguous: true, Source: "path"}
				}
			}

			return vfC16Expect{ID: strings.ToLower(segs[1]), Source: "path"}
		default:
			return vfC16Expect{Err: true, Source: "path"}
		}
	}

	s, cn := c.ServerName, c.CliName
	if s == "" {
		return vfC16Expect{Source: "none"}
	}
	if cn == s {
		return vfC16Expect{Source: "none"}
	}
	if c.mixedDom {
		// the domain parts differ in letter case only: the statement does not
		// say whether server names compare case-insensitively
		return vfC16Expect{Ambiguous: true, Source: "sni"}
	}
	if strings.HasSuffix(cn, "."+s) {
		label := cn[:len(cn)-len(s)-1]
		switch {
		case label == "":
			return vfC16Expect{Ambiguous: true, Source: "sni"}
		case !strings.Contains(label, "."):
			if !vfValidLabel(label) {
				return vfC16Expect{Err: true, Source: "sni"}
			}

			return vfC16Expect{ID: strings.ToLower(label), Source: "sni"}
		}
	}
	// outside the form <id>.<server name>
	if c.Strict {
		return vfC16Expect{Err: true, Source: "sni"}
	}

	return vfC16Expect{Source: "none"}
}

// vfC16NameClass says where the client's server name lies relative to the
// configured one: "inside" (equal, or one label under it), "outside" (not
// under it at all), or "unclear" (under it by more than one label, an empty
// label, or differing from it in letter case only -- the statement does not
// say which of the two these are).
func vfC16NameClass(c *vfC16Case) (class string) {
	s, cn := c.ServerName, c.CliName
	switch {
	case cn == s:
		return "inside"
	case c.mixedDom:
		return "unclear"
	case strings.HasSuffix(cn, "."+s):
		label := cn[:len(cn)-len(s)-1]
		if label == "" || strings.Contains(label, ".") {
			return "unclear"
		}

		return "inside"
	case strings.EqualFold(cn, s) || strings.HasSuffix(strings.ToLower(cn), "."+strings.ToLower(s)):
		return "unclear"
	default:
		return "outside"
	}
}

var vfC16IDs = []string{
	"alice", "Alice", "KID-1", "x", "0", "a-b", "xn--e1afmkfd", strings.Repeat("a", 63),
	// invalid labels
	"-id", "id-", "id_", "a b", "", strings.Repeat("b", 64), "ид", "a%2fb", "a.b", "*",
	// not letters of a host name, although Unicode case folding maps them to
	// (or near) ASCII ones: KELVIN SIGN, LATIN SMALL LETTER LONG S, fullwidth k
	"\u212aate", "ali\u017fe", "\uff4bid",
}

func vfC16Draw(t *rapid.T) (c *vfC16Case) {
	c = &vfC16Case{}
	c.Proto = rapid.SampledFrom([]proxy.Proto{
		proxy.ProtoUDP, proxy.ProtoTCP, proxy.ProtoDNSCrypt, proxy.ProtoTLS, proxy.ProtoTLS, proxy.ProtoQUIC, proxy.ProtoHTTPS, proxy.ProtoHTTPS,
	}).Draw(t, "proto")
	c.Strict = rapid.Bool().Draw(t, "strict")

	nl := rapid.IntRange(0, 4).Draw(t, "server_labels")
	if nl > 0 {
		var ls []string
		for i := 0; i < nl-1; i++ {
			ls = append(ls, rapid.SampledFrom([]string{"dns", "home", "a", "example"}).Draw(t, fmt.Sprintf("sl%d", i)))
		}
		ls = append(ls, rapid.SampledFrom([]string{"test", "com", "org"}).Draw(t, "stld"))
		c.ServerName = strings.Join(ls, ".")
	}

	id := rapid.SampledFrom(vfC16IDs).Draw(t, "id")
	s := c.ServerName
	form := rapid.SampledFrom([]string{
		"equal", "id", "id", "id", "subsub", "sibling", "lookalike", "suffix_evil", "empty", "trailing_dot", "dot_only", "othercase_id", "othercase_domain", "unrelated",
	}).Draw(t, "cliname_form")
	c.desc = form
	switch form {
	case "equal":
		c.CliName = s
	case "id":
		c.CliName = id + "." + s
	case "subsub":
		c.CliName = "a." + id + "." + s
	case "sibling":
		if i := strings.IndexByte(s, '.'); i >= 0 {
			c.CliName = "sib." + s[i+1:]
		} else {
			c.CliName = "sib"
		}
	case "lookalike":
		c.CliName = id + "x" + s
	case "suffix_evil":
		c.CliName = id + "." + s + ".evil"
	case "empty":
		c.CliName = ""
	case "trailing_dot":
		c.CliName = id + "." + s + "."
	case "dot_only":
		c.CliName = "." + s
	case "othercase_id":
		c.CliName = strings.ToUpper(id) + "." + s
	case "othercase_domain":
		c.CliName = id + "." + strings.ToUpper(s)
		c.mixedDom = s != "" && strings.ToUpper(s) != s
	default:
		c.CliName = "other.invalid"
	}
	if s == "" && form != "empty" && form != "equal" {
		// without a configured name the presented one is irrelevant
		c.CliName = strings.TrimPrefix(c.CliName, ".")
	}

	if c.Proto == proxy.ProtoHTTPS {
		pid := rapid.SampledFrom(vfC16IDs).Draw(t, "path_id")
		c.Path = rapid.SampledFrom([]string{
			"/dns-query", "/dns-query/", "/dns-query/" + pid, "/dns-query/" + pid + "/", "/dns-query/" + pid + "/extra",
			"/dns-query/./" + pid, "/dns-query/a/../" + pid, "//dns-query//" + pid, "/x/../dns-query/" + pid,
			"/dns-query/" + pid + "/..", "/DNS-QUERY/" + pid, "/dns-queryx/" + pid, "/other", "/", "/dns-query/../" + pid,
			"dns-query/" + pid, "/dns-query/" + pid + "/./", "/../dns-query/" + pid,
		}).Draw(t, "path")
		c.HTTPTLS = rapid.Bool().Draw(t, "http_tls")
		if !c.HTTPTLS {
			c.Host = c.CliName
			if c.CliName != "" && rapid.Bool().Draw(t, "host_port") {
				c.Host = c.CliName + ":443"
			}
		}
	}

	return c
}

// TestVFC16Extract compares the ClientID the pre-request hook attaches (or the
// failure it reports) with the reference, for all protocols.
func TestVFC16Extract(t *testing.T) {
	vfkit.Begin(t)

	worlds := map[string]*vfWorld{}
	defer func() {
		for _, w := range worlds {
			w.close()
		}
	}()
	// attributed collects the ClientIDs the server hands to the per-request
	// client-settings callback: the point where the id takes effect.
	var attributed []string

	rapid.Check(t, func(t *rapid.T) {
		c := vfC16Draw(t)
		key := fmt.Sprintf("%s|%t", c.ServerName, c.Strict)
		w := worlds[key]
		if w == nil {
			var err error
			wc := &vfWorldConf{
				ProtectionEnabled: true, FilteringEnabled: true, ServerName: c.ServerName, StrictSNI: c.Strict,
				OnApplyClient: func(id string, _ netip.Addr) { attributed = append(attributed, id) },
			}
			if c.ServerName != "" {
				// The certificate of the encrypted listeners is valid for more
				// than the configured server name, as certificates often are:
				// names of other services, wildcards.  The configured name
				// alone decides what lies inside its domain.
				parent := c.ServerName
				if i := strings.IndexByte(parent, '.'); i >= 0 {
					parent = parent[i+1:]
				}
				var cerr error
				wc.TLSCert, cerr = vfSelfSignedCert(c.ServerName, "other.invalid", "*.invalid", "sib."+parent, "*."+parent, "*.evil", "*."+c.ServerName+".evil")
				if cerr != nil {
					t.Fatalf("VERIF-INCONCLUSIVE certificate: %v", cerr)
				}
			}
			w, err = vfNewWorld(wc)
			if err != nil {
				t.Fatalf("VERIF-INCONCLUSIVE world: %v", err)
			}
			worlds[key] = w
		}

		want := vfC16Reference(c)
		q := vfQuery{
			Name: "probe.example.", Qtype: dns.TypeA, Addr: netip.MustParseAddrPort("198.18.0.5:4000"), Proto: c.Proto,
			SNI: c.CliName, HTTPPath: c.Path, HTTPHost: c.Host, HTTPTLS: c.HTTPTLS,
		}
		if c.CliName == "" {
			q.SNI = "\x00empty"
		}
		pctx := w.newPCtxC16(q)
		err := w.srv.HandleBefore(w.srv.dnsProxy, pctx)

		got := ""
		if err == nil {
			attributed = nil
			if perr := w.srv.handleDNSRequest(w.srv.dnsProxy, pctx); perr != nil || pctx.Res == nil {
				t.Fatalf("an admitted request failed in processing: %v", perr)
			}
			if len(attributed) != 1 {
				t.Fatalf("VERIF-INCONCLUSIVE the client-settings callback ran %d times for one request", len(attributed))
			}
			got = attributed[0]
		}

		vfC16.Eval()
		vfC16.Class("proto:" + string(c.Proto))
		vfC16.Class("form:" + c.desc)
		outcome := "none"
		switch {
		case want.Ambiguous:
			outcome = "ambiguous"
		case want.Err:
			outcome = "error"
		case want.ID != "":
			outcome = "id_from_" + want.Source
		}
		vfC16.Class("want:" + outcome)
		if outcome != "none" || c.Proto == proxy.ProtoTLS || c.Proto == proxy.ProtoQUIC || c.Proto == proxy.ProtoHTTPS {
			vfC16.Nontrivial(fmt.Sprintf("%s|%s|%s|strict=%t|%s|%q|tls=%t", c.Proto, c.desc, outcome, c.Strict, c.Path, c.CliName, c.HTTPTLS))
		}
		if vfC16.WantSample(outcome + "/" + string(c.Proto)) {
			vfC16.Sample(outcome+"/"+string(c.Proto), map[string]any{
				"proto": c.Proto, "server_name": c.ServerName, "strict": c.Strict, "client_server_name": c.CliName,
				"path": c.Path, "host": c.Host, "http_tls": c.HTTPTLS, "clientid": got, "error": fmt.Sprint(err),
			})
		}

		fail := func(format string, args ...any) {
			t.Fatalf("%s\ncase: proto=%s server=%q strict=%t client-name=%q path=%q host=%q httptls=%t\ngot id=%q err=%v; want %+v",
				fmt.Sprintf(format, args...), c.Proto, c.ServerName, c.Strict, c.CliName, c.Path, c.Host, c.HTTPTLS, got, err, want)
		}

		// universal validity invariants
		if got != "" {
			if c.Proto != proxy.ProtoTLS && c.Proto != proxy.ProtoQUIC && c.Proto != proxy.ProtoHTTPS {
				fail("ClientID on a protocol that cannot carry one")
			}
			if got != strings.ToLower(got) || !vfValidLabel(got) {
				fail("ClientID is not a lower-case host-name label")
			}
			if err != nil {
				fail("ClientID attached although the request failed")
			}
			cands := map[string]bool{}
			if segs := vfCleanSegments(c.Path); c.Proto == proxy.ProtoHTTPS && len(segs) == 2 {
				cands[strings.ToLower(segs[1])] = true
			}
			if i := strings.IndexByte(c.CliName, '.'); i > 0 {
				cands[strings.ToLower(c.CliName[:i])] = true
			}
			if !cands[got] {
				fail("ClientID is neither the extra path segment nor the extra left-most label")
			}
		}
		if err != nil {
			var bre *proxy.BeforeRequestError
			if !errors.As(err, &bre) || bre.Response == nil || bre.Response.Rcode != dns.RcodeServerFailure {
				fail("a failed ClientID extraction must answer SERVFAIL")
			}
		}

		if want.Ambiguous {
			return
		}
		if want.Err {
			if err == nil {
				fail("request must fail")
			}

			return
		}
		if err != nil {
			fail("request must not fail")
		}
		if got != want.ID {
			fail("wrong ClientID")
		}
	})
}

// newPCtxC16 is newPCtx with an explicit empty server name ("\x00empty").
func (w *vfWorld) newPCtxC16(q vfQuery) (pctx *proxy.DNSContext) {
	empty := q.SNI == "\x00empty"
	if empty {
		q.SNI = "placeholder"
	}
	pctx = w.newPCtx(q)
	if empty {
		switch q.Proto {
		case proxy.ProtoTLS:
			pctx.Conn = vfTLSConn{serverName: ""}
		case proxy.ProtoQUIC:
			pctx.QUICConnection = vfQUICConn{serverName: ""}
		case proxy.ProtoHTTPS:
			if pctx.HTTPRequest.TLS != nil {
				pctx.HTTPRequest.TLS.ServerName = ""
			} else {
				pctx.HTTPRequest.Host = ""
			}
		}
	} else if q.Proto == proxy.ProtoHTTPS && !q.HTTPTLS {
		pctx.HTTPRequest.Host = q.HTTPHost
	}

	return pctx
}

// TestVFC16EndToEnd checks that the extracted ClientID is the one the request
// is processed with: a persistent client identified by that ClientID with
// filtering switched off decides whether a blocked name is forwarded.
func TestVFC16EndToEnd(t *testing.T) {
	vfkit.Begin(t)
	rapid.Check(t, func(t *rapid.T) {
		c := &vfC01Conf{
			Subjects: []string{"ads.test"}, Custom: []vfRule{{Text: "||ads.test^", Kind: vfKDomain, Domain: "ads.test"}},
			Mode: "default", V4: netip.MustParseAddr("203.0.113.7"), V6: netip.MustParseAddr("2001:db8::7"), TTL: 10,
			Protection: "on", FilteringOn: true, Core: true,
			Client: &vfC01Client{Name: "kid laptop", IDKind: "clientid", ClientID: "kid-laptop", OwnSettings: true, FilteringOn: false,
				IP: netip.MustParseAddr("192.0.2.10"), Subnet: netip.MustParsePrefix("192.0.2.0/28")},
		}
		w, err := vfNewWorld(c.world())
		if err != nil {
			t.Fatalf("VERIF-INCONCLUSIVE world: %v", err)
		}
		defer w.close()

		proto := rapid.SampledFrom([]proxy.Proto{proxy.ProtoTLS, proxy.ProtoQUIC, proxy.ProtoHTTPS, proxy.ProtoUDP, proxy.ProtoTCP}).Draw(t, "proto")
		id := rapid.SampledFrom([]string{"kid-laptop", "KID-LAPTOP", "Kid-Laptop", "other", ""}).Draw(t, "id")
		q := &vfC01Query{vfQuery: vfQuery{
			Name: "x.ads.test.", Qtype: dns.TypeA, Addr: netip.MustParseAddrPort("198.18.0.9:1"), Proto: proto, ClientID: id,
		}}
		carries := proto == proxy.ProtoTLS || proto == proxy.ProtoQUIC || proto == proxy.ProtoHTTPS
		q.AsClient = carries && strings.EqualFold(id, "kid-laptop")
		o := w.run(q.vfQuery)
		vfC16.Eval()
		vfC16.Class("e2e:" + string(proto))
		if q.AsClient {
			vfC16.Nontrivial(fmt.Sprintf("e2e|%s|%s", proto, id))
			err = vfCheckForwarded(q, o)
		} else {
			err = vfCheckBlocked(c, q, vfVerdict{Blocked: true, Why: "network"}, o)
		}
		if err != nil {
			t.Fatalf("proto %s ClientID %q: processed as the wrong client: %v", proto, id, err)
		}
	})
}
