//go:build verif

package dnsforward

// C05 (protection pause): a request that notices an expired pause starts the
// worker that switches protection back on.  An admin call POST
// /control/protection that is served between that request's look at the pause
// and the worker's write sets a new state -- a new pause of an hour, or
// protection off for good -- which must still be there once everything has come
// to rest: the worker ends the pause that has expired, not the one set after
// it.  Real handler, real worker goroutine; the moment of the admin call within
// the burst of requests is generated.

import (
	"fmt"
	"net/http"
	"net/http/httptest"
	"strings"
	"sync"
	"testing"
	"time"

	"github.com/AdguardTeam/AdGuardHome/internal/vfkit"
	"pgregory.net/rapid"
)

// vfC05Spin keeps the processor busy for n steps without looking at a clock.
//
//go:noinline
func vfC05Spin(n int) (x uint64) {
	for i := 0; i < n; i++ {
		x = x*6364136223846793005 + 1442695040888963407
	}

	return x
}

func TestVFC05PauseWorkerVsAdmin(t *testing.T) {
	vfkit.Begin(t)
	rapid.Check(t, func(t *rapid.T) {
		w, err := vfNewWorld(&vfWorldConf{ProtectionEnabled: true, FilteringEnabled: true})
		if err != nil {
			t.Fatalf("VERIF-INCONCLUSIVE world: %v", err)
		}
		defer w.close()

		post := func(body string) (code int) {
			rec := httptest.NewRecorder()
			w.srv.handleSetProtection(rec, httptest.NewRequest(http.MethodPost, "/control/protection", strings.NewReader(body)))

			return rec.Code
		}
		rest := func() {
			deadline := time.Now().Add(10 * time.Second)
			for w.srv.protectionUpdateInProgress.Load() {
				if time.Now().After(deadline) {
					t.Fatalf("stall: the worker that ends a pause has not finished for 10 s")
				}
				time.Sleep(200 * time.Microsecond)
			}
		}

		rounds := rapid.IntRange(20, 80).Draw(t, "rounds")
		var trace []string
		for r := 0; r < rounds; r++ {
			label := fmt.Sprintf("r%d", r)
			lookers := rapid.IntRange(1, 6).Draw(t, label+"_requests")
			spin := rapid.IntRange(0, 30000).Draw(t, label+"_admin_after_steps")
			kind := rapid.SampledFrom([]string{"pause_hour", "off"}).Draw(t, label+"_admin")
			body := `{"enabled":false,"duration":3600000}`
			if kind == "off" {
				body = `{"enabled":false}`
			}

			// a pause that has expired by the time the requests come
			if code := post(`{"enabled":false,"duration":1}`); code != http.StatusOK {
				t.Fatalf("VERIF-INCONCLUSIVE pause refused: %d", code)
			}
			time.Sleep(2 * time.Millisecond)

			start := make(chan struct{})
			var wg sync.WaitGroup
			for i := 0; i < lookers; i++ {
				wg.Add(1)
				go func() {
					defer wg.Done()
					<-start
					_, _ = w.srv.UpdatedProtectionStatus()
				}()
			}
			code := 0
			wg.Add(1)
			go func() {
				defer wg.Done()
				<-start
				vfC05Spin(spin)
				code = post(body)
			}()
			close(start)
			wg.Wait()
			rest()

			trace = append(trace, fmt.Sprintf("[pause 1 ms expired; %d requests || after %d steps POST /control/protection %s -> %d]", lookers, spin, body, code))
			if code != http.StatusOK {
				t.Fatalf("POST /control/protection %s: status %d", body, code)
			}
			enabled, until := w.srv.dnsFilter.ProtectionStatus()
			vfC05.Eval()
			vfC05.Class("pause_worker:admin:" + kind)
			vfC05.Nontrivial(fmt.Sprintf("pause_worker|%d|%d|%s", lookers, spin, kind))
			if vfC05.WantSample("pause_worker") {
				vfC05.Sample("pause_worker", map[string]any{"round": trace[len(trace)-1], "enabled_at_rest": enabled, "paused_at_rest": until != nil})
			}
			lost := enabled || (kind == "pause_hour") != (until != nil)
			if lost {
				t.Fatalf("the call was answered 200, and at rest protection is enabled=%t paused=%t: the state set by the administrator is gone\nlast rounds: %v",
					enabled, until != nil, trace[max(0, len(trace)-3):])
			}
			// back to the start
			if code := post(`{"enabled":true}`); code != http.StatusOK {
				t.Fatalf("VERIF-INCONCLUSIVE enabling refused: %d", code)
			}
		}
	})
}
