//go:build verif

package dnsforward

// C06 (response assembly part): how a rewrite result becomes the DNS response:
// local answers never reach the upstream, a CNAME resolved upstream is asked
// under the canonical name and answered with the original question restored and
// the CNAME record first, a name matched without a value for the type gets an
// empty successful answer, exceptions pass through.

import (
	"fmt"
	"net/netip"
	"strings"
	"testing"

	"github.com/AdguardTeam/AdGuardHome/internal/filtering"
	"github.com/AdguardTeam/AdGuardHome/internal/vfkit"
	"github.com/miekg/dns"
	"pgregory.net/rapid"
)

var vfC06 = vfkit.For("C06")

// vfC06Case is a constructed scenario with its expectation.
type vfC06Case struct {
	Kind     string
	Table    []*filtering.LegacyRewrite
	Qname    string
	Qtype    uint16
	WantIPs  []string // local addresses expected in the answer
	WantCN   string   // canonical name expected as the first record ("" = none)
	Upstream string   // name the upstream must be asked for ("" = must not be asked)
	Empty    bool     // empty NOERROR expected
	// UpReply is what the upstream says when it is asked: "data" (the
	// fixture), "nodata" (NOERROR without records) or "nxdomain".
	UpReply string
	// Local: the name lies under the local domain ("lan") of a server whose
	// DHCP server is enabled and has no lease of that name; the client is in
	// a private network.
	Local bool
	// DHCPOn: the DHCP server is enabled although the queried name is not in
	// its domain (the canonical name is).
	DHCPOn bool
}

func vfC06Draw(t *rapid.T) (c *vfC06Case) {
	c = &vfC06Case{}
	base := vfDrawDomain(t, "base")
	c.Local = rapid.IntRange(0, 3).Draw(t, "local_domain_with_dhcp") == 0
	if c.Local {
		base = "lan"
	}
	name := "src." + base
	// the target lies outside the (wildcard) key's domain: a wildcard that
	// covers its own target is decided by the table check, not here
	target := "dst.t-" + vfDrawDomain(t, "target")
	if strings.HasSuffix(target, "."+base) {
		// the drawn domain lies below the key's: move it away
		target += ".tgt"
	}
	targetLocal := rapid.IntRange(0, 5).Draw(t, "target_in_local_domain_with_dhcp") == 0
	v4 := rapid.SampledFrom([]string{"10.1.2.3", "192.0.2.44", "0.0.0.0"}).Draw(t, "v4")
	v6 := rapid.SampledFrom([]string{"2001:db8::44", "::1"}).Draw(t, "v6")
	wild := rapid.Bool().Draw(t, "wildcard_key")
	key := name
	if wild {
		key = "*." + base
	}
	c.Qname = name
	if rapid.IntRange(0, 3).Draw(t, "mixcase") == 0 {
		c.Qname = vfMixCase(t, name, "casemask")
	}
	isA := rapid.Bool().Draw(t, "query_a")
	c.Qtype = dns.TypeAAAA
	ip, other := v6, v4
	if isA {
		c.Qtype = dns.TypeA
		ip, other = v4, v6
	}

	c.Kind = rapid.SampledFrom([]string{
		"addr_same_family", "addr_other_family_only", "addr_both", "cname_unknown_target", "cname_target_with_addr",
		"cname_target_other_family_only", "self_exception", "type_exception", "other_qtype_on_addr_name", "two_addrs", "cname_chain_local",
		"wildcard_cname_to_name_under_itself",
	}).Draw(t, "kind")
	if c.Local && (c.Kind == "self_exception" || c.Kind == "type_exception") {
		// an exception hands the name over to what would happen without the
		// table; for a name of the DHCP server that is not the upstream, and
		// the statement does not rank the two features
		c.Kind = "cname_unknown_target"
	}
	if targetLocal && !c.Local && !wild && (c.Kind == "cname_unknown_target" || c.Kind == "cname_target_with_addr") {
		// the canonical name lies in the local domain of an enabled DHCP
		// server (which has no lease of that name): a canonical name like
		// any other
		target = "dst-host.lan"
		c.DHCPOn = true
	}
	rw := func(d, a string) *filtering.LegacyRewrite { return &filtering.LegacyRewrite{Domain: d, Answer: a} }
	switch c.Kind {
	case "addr_same_family":
		c.Table = []*filtering.LegacyRewrite{rw(key, ip)}
		c.WantIPs = []string{ip}
	case "addr_other_family_only":
		c.Table = []*filtering.LegacyRewrite{rw(key, other)}
		c.Empty = true
	case "addr_both":
		c.Table = []*filtering.LegacyRewrite{rw(key, other), rw(key, ip)}
		c.WantIPs = []string{ip}
		if wild {
			// two entries under one wildcard: which one survives is a known
			// open finding of the table semantics; use an exact key here
			c.Table = []*filtering.LegacyRewrite{rw(name, other), rw(name, ip)}
		}
	case "two_addrs":
		ip2 := "10.9.9.9"
		if !isA {
			ip2 = "2001:db8::99"
		}
		c.Table = []*filtering.LegacyRewrite{rw(name, ip), rw(name, ip2)}
		c.WantIPs = []string{ip, ip2}
	case "cname_unknown_target":
		c.Table = []*filtering.LegacyRewrite{rw(key, target)}
		c.WantCN = target
		c.Upstream = target
	case "cname_target_with_addr":
		c.Table = []*filtering.LegacyRewrite{rw(key, target), rw(target, ip)}
		c.WantCN = target
		c.WantIPs = []string{ip}
	case "cname_chain_local":
		mid := "mid." + base
		c.Table = []*filtering.LegacyRewrite{rw(name, mid), rw(mid, target), rw(target, ip)}
		c.WantCN = target
		c.WantIPs = []string{ip}
	case "wildcard_cname_to_name_under_itself":
		// "*.base -> proxy.base": the canonical name is matched by nothing
		// but the wildcard that produced it, so it is resolved upstream
		under := "proxy." + base
		c.Table = []*filtering.LegacyRewrite{rw("*."+base, under)}
		c.WantCN = under
		c.Upstream = under
	case "cname_target_other_family_only":
		c.Table = []*filtering.LegacyRewrite{rw(key, target), rw(target, other)}
		c.WantCN = target
		c.Empty = true
	case "self_exception":
		c.Table = []*filtering.LegacyRewrite{rw("*."+base, ip), rw(name, name)}
		c.Upstream = name
	case "type_exception":
		exc := "AAAA"
		if isA {
			exc = "A"
		}
		c.Table = []*filtering.LegacyRewrite{rw(name, other), rw(name, exc)}
		c.Upstream = name
	case "other_qtype_on_addr_name":
		c.Table = []*filtering.LegacyRewrite{rw(key, ip)}
		c.Qtype = rapid.SampledFrom([]uint16{dns.TypeTXT, dns.TypeMX, dns.TypeHTTPS}).Draw(t, "other_qtype")
		c.Empty = true
	}
	c.UpReply = "data"
	if c.Upstream != "" {
		c.UpReply = rapid.SampledFrom([]string{"data", "data", "nodata", "nxdomain"}).Draw(t, "upstream_reply")
	}
	if rapid.Bool().Draw(t, "reverse_order") {
		for i, j := 0, len(c.Table)-1; i < j; i, j = i+1, j-1 {
			c.Table[i], c.Table[j] = c.Table[j], c.Table[i]
		}
	}

	return c
}

func (c *vfC06Case) describe() (m map[string]any) {
	var tab []string
	for _, r := range c.Table {
		tab = append(tab, r.Domain+" -> "+r.Answer)
	}

	return map[string]any{"kind": c.Kind, "local_domain_with_dhcp": c.Local, "target_in_local_domain": c.DHCPOn, "table": tab, "query": fmt.Sprintf("%s %s", c.Qname, dns.Type(c.Qtype)), "upstream_reply": c.UpReply}
}

// vfC06Check runs the case and returns an error describing the first deviation.
func vfC06Check(c *vfC06Case) (err error) {
	w, werr := vfNewWorld(&vfWorldConf{ProtectionEnabled: true, FilteringEnabled: true, Rewrites: c.Table, BlockedTTL: 10, DHCPEnabled: c.Local || c.DHCPOn})
	if werr != nil {
		return fmt.Errorf("VERIF-INCONCLUSIVE world: %w", werr)
	}
	defer w.close()

	wantRcode := dns.RcodeSuccess
	if c.UpReply == "nodata" || c.UpReply == "nxdomain" {
		if c.UpReply == "nxdomain" {
			wantRcode = dns.RcodeNameError
		}
		w.ups.answer = func(req *dns.Msg) (resp *dns.Msg) {
			resp = (&dns.Msg{}).SetRcode(req, wantRcode)
			resp.RecursionAvailable = true
			resp.Ns = []dns.RR{&dns.SOA{
				Hdr: dns.RR_Header{Name: "invalid.", Rrtype: dns.TypeSOA, Class: dns.ClassINET, Ttl: vfFixtureTTL},
				Ns:  "ns.vf-upstream.invalid.", Mbox: "hostmaster.vf-upstream.invalid.", Serial: 1, Refresh: 1, Retry: 1, Expire: 1, Minttl: 60,
			}}

			return resp
		}
	}

	client := "198.18.0.3:999"
	if c.Local || c.DHCPOn {
		client = "192.168.1.5:999"
	}
	o := w.run(vfQuery{Name: c.Qname + ".", Qtype: c.Qtype, Addr: netip.MustParseAddrPort(client)})
	if o.Err != nil || o.BeforeErr != nil || o.Res == nil {
		return fmt.Errorf("request failed: before=%v err=%v", o.BeforeErr, o.Err)
	}
	res := o.Res
	if len(res.Question) != 1 || res.Question[0] != o.Req.Question[0] {
		return fmt.Errorf("the question of the response is %v, the client asked %v", res.Question, o.Req.Question)
	}
	if res.Rcode != wantRcode {
		return fmt.Errorf("rcode %s, want %s", dns.RcodeToString[res.Rcode], dns.RcodeToString[wantRcode])
	}

	// upstream contact
	if c.Upstream == "" {
		if len(o.Asked) != 0 {
			return fmt.Errorf("the upstream was asked %v although the table answers this question", o.Asked)
		}
	} else {
		if len(o.Asked) != 1 || !strings.EqualFold(strings.TrimSuffix(o.Asked[0].Name, "."), c.Upstream) || o.Asked[0].Qtype != c.Qtype {
			return fmt.Errorf("the upstream was asked %v, want exactly (%s, %s)", o.Asked, c.Upstream, dns.Type(c.Qtype))
		}
	}

	ans := res.Answer
	if c.WantCN != "" {
		if len(ans) == 0 {
			return fmt.Errorf("no CNAME record in the answer")
		}
		cn, ok := ans[0].(*dns.CNAME)
		if !ok || !strings.EqualFold(cn.Hdr.Name, c.Qname+".") || !strings.EqualFold(strings.TrimSuffix(cn.Target, "."), c.WantCN) {
			return fmt.Errorf("first record is %v, want CNAME %s -> %s", ans[0], c.Qname, c.WantCN)
		}
		ans = ans[1:]
	}

	switch {
	case c.Empty:
		if len(ans) != 0 {
			return fmt.Errorf("expected no records (besides the CNAME), got %q", vfRRStrings(ans))
		}
	case c.Upstream != "":
		want := vfRRStrings(o.Upstream.Answer)
		if strings.Join(vfRRStrings(ans), "\n") != strings.Join(want, "\n") {
			return fmt.Errorf("records after the CNAME are %q, want the upstream's %q", vfRRStrings(ans), want)
		}
	default:
		var got []string
		owner := c.Qname
		if c.WantCN != "" {
			// the addresses are those of the name the alias leads to
			owner = c.WantCN
		}
		for _, rr := range ans {
			if !strings.EqualFold(strings.TrimSuffix(rr.Header().Name, "."), owner) {
				return fmt.Errorf("record %s is owned by %s, want %s", rr, rr.Header().Name, owner)
			}
			switch rr := rr.(type) {
			case *dns.A:
				got = append(got, rr.A.String())
			case *dns.AAAA:
				got = append(got, rr.AAAA.String())
			default:
				return fmt.Errorf("unexpected record %s", rr)
			}
		}
		want := map[string]bool{}
		for _, ip := range c.WantIPs {
			want[netip.MustParseAddr(ip).String()] = true
		}
		if len(got) != len(want) {
			return fmt.Errorf("addresses %v, want %v", got, c.WantIPs)
		}
		for _, g := range got {
			if !want[netip.MustParseAddr(g).String()] {
				return fmt.Errorf("address %s is not in the table for this name and type (want %v)", g, c.WantIPs)
			}
		}
	}

	return nil
}

// vfC06KnownSignature maps a case kind to the signature of a listed finding.
func vfC06KnownSignature(kind string) (sig string) {
	if kind == "cname_target_other_family_only" {
		return "cname-target-without-value-resolved-upstream"
	}

	return ""
}

// TestVFC06Response checks response assembly for constructed rewrite scenarios.
func TestVFC06Response(t *testing.T) {
	vfkit.Begin(t)
	rapid.Check(t, func(t *rapid.T) {
		c := vfC06Draw(t)
		if sig := vfC06KnownSignature(c.Kind); sig != "" {
			if _, open := vfkit.KnownOpen("C06", sig); open {
				vfC06.Excluded(sig)

				return
			}
		}
		err := vfC06Check(c)
		vfC06.Eval()
		vfC06.Class("response:" + c.Kind)
		if c.Upstream != "" {
			vfC06.Class("response:upstream_reply=" + c.UpReply)
		}
		vfC06.Nontrivial(fmt.Sprintf("response|%v", c.describe()))
		if vfC06.WantSample("response:" + c.Kind) {
			vfC06.Sample("response:"+c.Kind, c.describe())
		}
		if err != nil {
			t.Fatalf("%v\ncase: %v", err, c.describe())
		}
	})
}

// TestVFC06RegressCNAMETargetWithoutValue freezes the documented "CNAME+A
// records" example: sub.host.com -> host.com, host.com -> 1.2.3.4, AAAA
// question => CNAME only.
func TestVFC06RegressCNAMETargetWithoutValue(t *testing.T) {
	vfkit.Begin(t)
	c := &vfC06Case{
		Kind:  "cname_target_other_family_only",
		Table: []*filtering.LegacyRewrite{{Domain: "sub.host.com", Answer: "host.com"}, {Domain: "host.com", Answer: "1.2.3.4"}},
		Qname: "sub.host.com", Qtype: dns.TypeAAAA, WantCN: "host.com", Empty: true,
	}
	err := vfC06Check(c)
	vfC06.Eval()
	if err == nil {
		return
	}
	if what, open := vfkit.KnownOpen("C06", "cname-target-without-value-resolved-upstream"); open {
		vfC06.KnownLine(fmt.Sprintf("cname-target-without-value-resolved-upstream: %s (observed: %v)", what, err))

		return
	}
	t.Fatalf("documented example 'CNAME+A records', AAAA question: %v", err)
}
