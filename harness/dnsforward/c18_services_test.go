//go:build verif

package dnsforward

// C18 (use of the schedule on requests): whether a blocked service is blocked
// for a request follows the pause schedule that applies to it -- the client's
// own when the client has own blocked services, the global one otherwise.  Only
// the two clock-free schedules are used (full week and empty, in drawn zones),
// so the verdict does not depend on when the check runs.

import (
	"fmt"
	"net/netip"
	"testing"
	_ "time/tzdata"

	"github.com/AdguardTeam/AdGuardHome/internal/client"
	"github.com/AdguardTeam/AdGuardHome/internal/filtering"
	"github.com/AdguardTeam/AdGuardHome/internal/vfkit"
	"github.com/miekg/dns"
	"pgregory.net/rapid"
)

var vfC18 = vfkit.For("C18")

var vfC18Zones = []string{"UTC", "Pacific/Auckland", "America/Los_Angeles", "Asia/Kolkata", "Pacific/Kiritimati", "Etc/GMT+12", "Europe/Berlin", "Australia/Lord_Howe"}

func TestVFC18ServicesPause(t *testing.T) {
	vfkit.Begin(t)
	rapid.Check(t, func(t *rapid.T) {
		globalIDs := rapid.SliceOfNDistinct(rapid.SampledFrom(vfServiceIDs), 0, 3, rapid.ID[string]).Draw(t, "global_services")
		globalPaused := rapid.Bool().Draw(t, "global_paused")
		gzone := rapid.SampledFrom(vfC18Zones).Draw(t, "global_zone")
		hasClient := rapid.IntRange(0, 3).Draw(t, "has_client") > 0
		own := rapid.Bool().Draw(t, "client_own_services")
		clientIDs := rapid.SliceOfNDistinct(rapid.SampledFrom(vfServiceIDs), 0, 3, rapid.ID[string]).Draw(t, "client_services")
		clientPaused := rapid.Bool().Draw(t, "client_paused")
		czone := rapid.SampledFrom(vfC18Zones).Draw(t, "client_zone")

		wc := &vfWorldConf{
			ProtectionEnabled: true, FilteringEnabled: true, ServiceIDs: globalIDs, ServicesPaused: globalPaused, ServicesZone: gzone,
			Mode: filtering.BlockingModeNXDOMAIN,
		}
		cliAddr := netip.MustParseAddr("192.0.2.10")
		if hasClient {
			wc.Clients = []*client.Persistent{{
				Name: "kid", UID: client.MustNewUID(), IPs: []netip.Addr{cliAddr}, UseOwnBlockedServices: own,
				BlockedServices: &filtering.BlockedServices{Schedule: vfWeekIn(czone, clientPaused), IDs: clientIDs},
			}}
		}
		w, err := vfNewWorld(wc)
		if err != nil {
			t.Fatalf("VERIF-INCONCLUSIVE world: %v", err)
		}
		defer w.close()

		n := rapid.IntRange(2, 8).Draw(t, "n_queries")
		for i := 0; i < n; i++ {
			svc := rapid.SampledFrom(vfServiceIDs).Draw(t, fmt.Sprintf("q%d_service", i))
			dom := rapid.SampledFrom(vfServiceDomains[svc]).Draw(t, fmt.Sprintf("q%d_domain", i))
			if rapid.Bool().Draw(t, fmt.Sprintf("q%d_sub", i)) {
				dom = "www." + dom
			}
			asClient := hasClient && rapid.Bool().Draw(t, fmt.Sprintf("q%d_asclient", i))
			addr := netip.MustParseAddrPort("198.18.0.9:1")
			if asClient {
				addr = netip.AddrPortFrom(cliAddr, 1)
			}

			active, rule := globalIDs, "global"
			if globalPaused {
				active = nil
			}
			if asClient && own {
				active, rule = clientIDs, "client"
				if clientPaused {
					active = nil
				}
			}
			want := false
			for _, id := range active {
				if id == svc {
					want = true
				}
			}

			o := w.run(vfQuery{Name: dom + ".", Qtype: dns.TypeA, Addr: addr})
			if o.Err != nil || o.BeforeErr != nil || o.Res == nil {
				t.Fatalf("VERIF-INCONCLUSIVE request failed: %v %v", o.BeforeErr, o.Err)
			}
			got := len(o.Asked) == 0 && o.Res.Rcode == dns.RcodeNameError

			vfC18.Eval()
			vfC18.Class(fmt.Sprintf("services:%s_schedule/blocked=%t", rule, want))
			if asClient && own && (clientPaused != globalPaused || fmt.Sprint(clientIDs) != fmt.Sprint(globalIDs)) {
				vfC18.Nontrivial(fmt.Sprintf("svc|%v|%t|%s|%v|%t|%s|%s", globalIDs, globalPaused, gzone, clientIDs, clientPaused, czone, svc))
				vfC18.Class("services:client_differs_from_global")
			}
			if vfC18.WantSample("services_pause") {
				vfC18.Sample("services_pause", map[string]any{
					"global": globalIDs, "global_paused_all_week": globalPaused, "global_zone": gzone, "client_own": asClient && own,
					"client": clientIDs, "client_paused_all_week": clientPaused, "client_zone": czone, "query": dom, "blocked": got,
				})
			}
			if got != want {
				t.Fatalf("query %s (service %s) from %s: blocked=%t, want %t by the %s schedule\nglobal %v paused=%t zone=%s; client own=%t %v paused=%t zone=%s; upstream asked %v rcode %d",
					dom, svc, addr.Addr(), got, want, rule, globalIDs, globalPaused, gzone, asClient && own, clientIDs, clientPaused, czone, o.Asked, o.Res.Rcode)
			}
		}
	})
}
