//go:build verif

package dnsforward

// C18 (use of the schedule on requests): whether a blocked service is blocked
// for a request follows the pause schedule that applies to it -- the client's
// own when the client has own blocked services, the global one otherwise.  Only
// the two clock-free schedules are used (full week and empty, in drawn zones),
// so the verdict does not depend on when the check runs.

import (
	"bytes"
	"encoding/json"
	"fmt"
	"net/http"
	"net/http/httptest"
	"net/netip"
	"sync"
	"testing"
	_ "time/tzdata"

	"github.com/AdguardTeam/AdGuardHome/internal/client"
	"github.com/AdguardTeam/AdGuardHome/internal/filtering"
	"github.com/AdguardTeam/AdGuardHome/internal/vfkit"
	"github.com/miekg/dns"
	"pgregory.net/rapid"
)

var vfC18 = vfkit.For("C18")

var vfC18Zones = []string{"UTC", "Pacific/Auckland", "America/Los_Angeles", "Asia/Kolkata", "Pacific/Kiritimati", "Etc/GMT+12", "Europe/Berlin", "Australia/Lord_Howe"}

func TestVFC18ServicesPause(t *testing.T) {
	vfkit.Begin(t)
	rapid.Check(t, func(t *rapid.T) {
		globalIDs := rapid.SliceOfNDistinct(rapid.SampledFrom(vfServiceIDs), 0, 3, rapid.ID[string]).Draw(t, "global_services")
		globalPaused := rapid.Bool().Draw(t, "global_paused")
		gzone := rapid.SampledFrom(vfC18Zones).Draw(t, "global_zone")
		hasClient := rapid.IntRange(0, 3).Draw(t, "has_client") > 0
		own := rapid.Bool().Draw(t, "client_own_services")
		clientIDs := rapid.SliceOfNDistinct(rapid.SampledFrom(vfServiceIDs), 0, 3, rapid.ID[string]).Draw(t, "client_services")
		clientPaused := rapid.Bool().Draw(t, "client_paused")
		czone := rapid.SampledFrom(vfC18Zones).Draw(t, "client_zone")

		handlers := map[string]http.HandlerFunc{}
		webRegistered = false
		wc := &vfWorldConf{
			ProtectionEnabled: true, FilteringEnabled: true, ServiceIDs: globalIDs, ServicesPaused: globalPaused, ServicesZone: gzone,
			Mode:         filtering.BlockingModeNXDOMAIN,
			HTTPRegister: func(method, url string, h http.HandlerFunc) { handlers[method+" "+url] = h },
		}
		cliAddr := netip.MustParseAddr("192.0.2.10")
		if hasClient {
			wc.Clients = []*client.Persistent{{
				Name: "kid", UID: client.MustNewUID(), IPs: []netip.Addr{cliAddr}, UseOwnBlockedServices: own,
				BlockedServices: &filtering.BlockedServices{Schedule: vfWeekIn(czone, clientPaused), IDs: clientIDs},
			}}
		}
		w, err := vfNewWorld(wc)
		if err != nil {
			t.Fatalf("VERIF-INCONCLUSIVE world: %v", err)
		}
		defer w.close()
		w.flt.RegisterFilteringHandlers()

		// The global settings may then be changed at run time through either
		// generation of the API: the deprecated call sets the list only (the
		// pause schedule stays), the current one sets both.
		apiCall := func(method, path string, body any) {
			h := handlers[method+" "+path]
			if h == nil {
				t.Fatalf("VERIF-INCONCLUSIVE no handler %s %s", method, path)
			}
			b, _ := json.Marshal(body)
			rec := httptest.NewRecorder()
			h(rec, httptest.NewRequest(method, path, bytes.NewReader(b)))
			if rec.Code != http.StatusOK {
				t.Fatalf("%s %s %s refused: %d %s", method, path, b, rec.Code, rec.Body.String())
			}
		}
		for k, nChanges := 0, rapid.IntRange(0, 2).Draw(t, "n_api_changes"); k < nChanges; k++ {
			label := fmt.Sprintf("chg%d", k)
			ids := rapid.SliceOfNDistinct(rapid.SampledFrom(vfServiceIDs), 0, 3, rapid.ID[string]).Draw(t, label+"_services")
			if ids == nil {
				ids = []string{}
			}
			if rapid.Bool().Draw(t, label+"_legacy") {
				apiCall(http.MethodPost, "/control/blocked_services/set", ids)
				globalIDs = ids
				vfC18.Class("services:list_set_through_deprecated_api")
			} else {
				globalPaused = rapid.Bool().Draw(t, label+"_paused")
				gzone = rapid.SampledFrom(vfC18Zones).Draw(t, label+"_zone")
				apiCall(http.MethodPut, "/control/blocked_services/update", map[string]any{"ids": ids, "schedule": vfWeekIn(gzone, globalPaused)})
				globalIDs = ids
				vfC18.Class("services:updated_through_api")
			}
			// the schedule the API shows is the one in force
			rec := httptest.NewRecorder()
			handlers["GET /control/blocked_services/get"](rec, httptest.NewRequest(http.MethodGet, "/control/blocked_services/get", nil))
			var shown struct {
				Schedule map[string]any `json:"schedule"`
				IDs      []string       `json:"ids"`
			}
			if jerr := json.Unmarshal(rec.Body.Bytes(), &shown); jerr != nil {
				t.Fatalf("GET /control/blocked_services/get: %v: %s", jerr, rec.Body.String())
			}
			_, hasMon := shown.Schedule["mon"]
			if tz, _ := shown.Schedule["time_zone"].(string); tz != gzone || hasMon != globalPaused || fmt.Sprint(shown.IDs) != fmt.Sprint(globalIDs) {
				t.Fatalf("after the change GET /control/blocked_services/get shows %s, want ids %v, zone %s, paused all week %t",
					rec.Body.String(), globalIDs, gzone, globalPaused)
			}
		}

		n := rapid.IntRange(2, 8).Draw(t, "n_queries")
		for i := 0; i < n; i++ {
			svc := rapid.SampledFrom(vfServiceIDs).Draw(t, fmt.Sprintf("q%d_service", i))
			dom := rapid.SampledFrom(vfServiceDomains[svc]).Draw(t, fmt.Sprintf("q%d_domain", i))
			if rapid.Bool().Draw(t, fmt.Sprintf("q%d_sub", i)) {
				dom = "www." + dom
			}
			asClient := hasClient && rapid.Bool().Draw(t, fmt.Sprintf("q%d_asclient", i))
			addr := netip.MustParseAddrPort("198.18.0.9:1")
			if asClient {
				addr = netip.AddrPortFrom(cliAddr, 1)
			}

			active, rule := globalIDs, "global"
			if globalPaused {
				active = nil
			}
			if asClient && own {
				active, rule = clientIDs, "client"
				if clientPaused {
					active = nil
				}
			}
			want := false
			for _, id := range active {
				if id == svc {
					want = true
				}
			}

			o := w.run(vfQuery{Name: dom + ".", Qtype: dns.TypeA, Addr: addr})
			if o.Err != nil || o.BeforeErr != nil || o.Res == nil {
				t.Fatalf("VERIF-INCONCLUSIVE request failed: %v %v", o.BeforeErr, o.Err)
			}
			got := len(o.Asked) == 0 && o.Res.Rcode == dns.RcodeNameError

			vfC18.Eval()
			vfC18.Class(fmt.Sprintf("services:%s_schedule/blocked=%t", rule, want))
			if asClient && own && (clientPaused != globalPaused || fmt.Sprint(clientIDs) != fmt.Sprint(globalIDs)) {
				vfC18.Nontrivial(fmt.Sprintf("svc|%v|%t|%s|%v|%t|%s|%s", globalIDs, globalPaused, gzone, clientIDs, clientPaused, czone, svc))
				vfC18.Class("services:client_differs_from_global")
			}
			if vfC18.WantSample("services_pause") {
				vfC18.Sample("services_pause", map[string]any{
					"global": globalIDs, "global_paused_all_week": globalPaused, "global_zone": gzone, "client_own": asClient && own,
					"client": clientIDs, "client_paused_all_week": clientPaused, "client_zone": czone, "query": dom, "blocked": got,
				})
			}
			if got != want {
				t.Fatalf("query %s (service %s) from %s: blocked=%t, want %t by the %s schedule\nglobal %v paused=%t zone=%s; client own=%t %v paused=%t zone=%s; upstream asked %v rcode %d",
					dom, svc, addr.Addr(), got, want, rule, globalIDs, globalPaused, gzone, asClient && own, clientIDs, clientPaused, czone, o.Asked, o.Res.Rcode)
			}
		}
	})
}

// TestVFC18UpdateVsRequests: the pause schedule is changed through PUT
// /control/blocked_services/update while requests are being processed (each
// request asks the filter for the services in force).  Once the call has been
// answered, every request follows the new schedule -- whatever the requests in
// flight during the change did.
func TestVFC18UpdateVsRequests(t *testing.T) {
	vfkit.Begin(t)
	rapid.Check(t, func(t *rapid.T) {
		handlers := map[string]http.HandlerFunc{}
		webRegistered = false
		zone := rapid.SampledFrom(vfC18Zones).Draw(t, "zone")
		w, err := vfNewWorld(&vfWorldConf{
			ProtectionEnabled: true, FilteringEnabled: true, ServiceIDs: []string{"youtube"}, ServicesPaused: false, ServicesZone: zone,
			Mode:         filtering.BlockingModeNXDOMAIN,
			HTTPRegister: func(method, url string, h http.HandlerFunc) { handlers[method+" "+url] = h },
		})
		if err != nil {
			t.Fatalf("VERIF-INCONCLUSIVE world: %v", err)
		}
		defer w.close()
		w.flt.RegisterFilteringHandlers()
		put := handlers["PUT /control/blocked_services/update"]
		if put == nil {
			t.Fatalf("VERIF-INCONCLUSIVE no handler for PUT /control/blocked_services/update")
		}
		inForce := func() bool {
			setts := w.flt.Settings()
			w.flt.ApplyBlockedServices(setts)

			return len(setts.ServicesRules) > 0
		}

		workers := rapid.IntRange(2, 8).Draw(t, "request_goroutines")
		changes := rapid.IntRange(20, 200).Draw(t, "schedule_changes")
		stop := make(chan struct{})
		var wg sync.WaitGroup
		for g := 0; g < workers; g++ {
			wg.Add(1)
			go func() {
				defer wg.Done()
				for {
					select {
					case <-stop:
						return
					default:
						_ = inForce()
					}
				}
			}()
		}
		defer func() { close(stop); wg.Wait() }()

		paused := false
		for i := 0; i < changes; i++ {
			paused = !paused
			b, _ := json.Marshal(map[string]any{"ids": []string{"youtube"}, "schedule": vfWeekIn(zone, paused)})
			rec := httptest.NewRecorder()
			put(rec, httptest.NewRequest(http.MethodPut, "/control/blocked_services/update", bytes.NewReader(b)))
			if rec.Code != http.StatusOK {
				t.Fatalf("PUT /control/blocked_services/update refused: %d %s", rec.Code, rec.Body.String())
			}
			got := inForce()
			vfC18.Eval()
			if got == paused {
				t.Fatalf("change %d of %d: the schedule now pauses the blocking all week: %t (zone %s), the call was answered 200, and a request made afterwards finds the service blocked: %t (%d request goroutines running)",
					i+1, changes, paused, zone, got, workers)
			}
		}
		vfC18.Class("services:schedule_changed_while_requests_run")
		vfC18.Nontrivial(fmt.Sprintf("update_vs_requests|%s|%d|%d", zone, workers, changes))
	})
}
