//go:build verif

package dnsforward

// C01: a query blocked by rules is answered locally with the blocking-mode
// response and never forwarded; allowed / unmatched queries are forwarded and
// the upstream answer arrives intact; protection off blocks nothing; a client
// with filtering off is not subject to rule lists.

import (
	"fmt"
	"net"
	"net/netip"
	"sort"
	"strings"
	"testing"
	"time"

	"github.com/AdguardTeam/AdGuardHome/internal/client"
	"github.com/AdguardTeam/AdGuardHome/internal/filtering"
	"github.com/AdguardTeam/AdGuardHome/internal/vfkit"
	"github.com/AdguardTeam/dnsproxy/proxy"
	"github.com/AdguardTeam/urlfilter"
	"github.com/AdguardTeam/urlfilter/filterlist"
	"github.com/miekg/dns"
	"pgregory.net/rapid"
)

var vfC01 = vfkit.For("C01")

var (
	vfLabels = []string{"a", "b", "c", "ads", "cdn", "www", "x1", "track"}
	vfTLDs   = []string{"test", "example", "com", "org", "co.uk"}
)

// vfRuleKind enumerates the rule syntaxes of the generator.
type vfRuleKind int

const (
	vfKDomain    vfRuleKind = iota // ||d^
	vfKExact                       // d
	vfKHosts                       // IP d
	vfKException                   // @@||d^
	vfKWildcard                    // *.d  (general class only)
	vfKPipe                        // |d^  (general class only)
)

var vfKindNames = map[vfRuleKind]string{
	vfKDomain: "||d^", vfKExact: "d", vfKHosts: "ip d", vfKException: "@@||d^", vfKWildcard: "*.d", vfKPipe: "|d^",
}

// vfRule is a generated rule with what the constructive oracle needs.
type vfRule struct {
	Text      string
	Kind      vfRuleKind
	Domain    string
	IP        netip.Addr
	Important bool
	// Modifier is non-empty for rules outside the core grammar ($dnstype,
	// $client, $denyallow): they are judged by the reference arrangement only.
	Modifier string
}

var vfHostIPs = []string{"1.2.3.4", "0.0.0.0", "127.0.0.1", "10.9.8.7", "::1", "2001:db8::5", "::"}

// vfC01Client describes the persistent client of a configuration.
type vfC01Client struct {
	Name        string
	IDKind      string // ip | cidr | clientid
	IP          netip.Addr
	Subnet      netip.Prefix
	ClientID    string
	OwnSettings bool
	FilteringOn bool
	OwnServices bool
	ServiceIDs  []string
	SvcPaused   bool
}

var vfServiceDomains = map[string][]string{
	"4chan": {"4chan.org", "4cdn.org"},
	"500px": {"500px.com"},
	"9gag":  {"9gag.com"},
	// the service list gives one of amazon's rules a restriction by query
	// type: ||amazonaws.com^$dnstype=~CNAME
	"amazon": {"amazonaws.com", "a2z.com"},
}

var vfServiceIDs = []string{"4chan", "500px", "9gag", "amazon"}

func vfDrawDomain(t *rapid.T, label string) (d string) {
	n := rapid.IntRange(1, 2).Draw(t, label+"_nlabels")
	parts := make([]string, 0, 3)
	for i := 0; i < n; i++ {
		parts = append(parts, rapid.SampledFrom(vfLabels).Draw(t, fmt.Sprintf("%s_l%d", label, i)))
	}
	parts = append(parts, rapid.SampledFrom(vfTLDs).Draw(t, label+"_tld"))

	return strings.Join(parts, ".")
}

// vfRelated derives a name from a subject domain.
func vfRelated(t *rapid.T, subject string, label string) (name, rel string) {
	rel = rapid.SampledFrom([]string{"equal", "sub", "subsub", "super", "sibling", "lookalike"}).Draw(t, label+"_rel")
	switch rel {
	case "equal":
		name = subject
	case "sub":
		name = rapid.SampledFrom(vfLabels).Draw(t, label+"_s1") + "." + subject
	case "subsub":
		name = rapid.SampledFrom(vfLabels).Draw(t, label+"_s1") + "." +
			rapid.SampledFrom(vfLabels).Draw(t, label+"_s2") + "." + subject
	case "super":
		i := strings.IndexByte(subject, '.')
		name = subject[i+1:]
		for _, tld := range vfTLDs {
			if name == tld || name == "uk" {
				// a bare public suffix is a poor subject; use the sibling form
				name = "zz." + name
			}
		}
	case "sibling":
		i := strings.IndexByte(subject, '.')
		name = "sib." + subject[i+1:]
	default:
		name = "x" + subject
	}

	return name, rel
}

func vfDrawRule(t *rapid.T, subjects []string, label string, allowSide bool, cl *vfC01Client, core bool) (r vfRule) {
	subject := rapid.SampledFrom(subjects).Draw(t, label+"_subject")
	domain, _ := vfRelated(t, subject, label+"_dom")
	if rapid.IntRange(0, 2).Draw(t, label+"_usesubject") > 0 {
		domain = subject
	}
	r.Domain = domain

	kinds := []vfRuleKind{vfKDomain, vfKDomain, vfKExact, vfKHosts, vfKException}
	if allowSide {
		kinds = []vfRuleKind{vfKDomain, vfKDomain, vfKExact, vfKHosts}
	}
	if !core {
		kinds = append(kinds, vfKWildcard, vfKPipe)
	}
	r.Kind = rapid.SampledFrom(kinds).Draw(t, label+"_kind")

	switch r.Kind {
	case vfKDomain:
		r.Text = "||" + domain + "^"
	case vfKExact:
		r.Text = domain
	case vfKHosts:
		r.IP = netip.MustParseAddr(rapid.SampledFrom(vfHostIPs).Draw(t, label+"_ip"))
		r.Text = r.IP.String() + " " + domain
	case vfKException:
		r.Text = "@@||" + domain + "^"
	case vfKWildcard:
		r.Text = "*." + domain
		r.Modifier = "wildcard"
	case vfKPipe:
		r.Text = "|" + domain + "^"
		r.Modifier = "pipe"
	}

	isNet := r.Kind != vfKExact && r.Kind != vfKHosts
	if !isNet {
		return r
	}

	var mods []string
	if rapid.IntRange(0, 3).Draw(t, label+"_important") == 0 {
		r.Important = true
		mods = append(mods, "important")
	}
	if !core && rapid.IntRange(0, 2).Draw(t, label+"_hasmod") == 0 {
		switch rapid.IntRange(0, 2).Draw(t, label+"_modkind") {
		case 0:
			m := rapid.SampledFrom([]string{"dnstype=A", "dnstype=AAAA", "dnstype=~A", "dnstype=~AAAA", "dnstype=TXT|MX", "dnstype=~HTTPS"}).Draw(t, label+"_dnstype")
			mods = append(mods, m)
			r.Modifier = m
		case 1:
			var m string
			if cl != nil && rapid.Bool().Draw(t, label+"_clientname") {
				m = "client='" + cl.Name + "'"
			} else {
				m = "client=" + rapid.SampledFrom([]string{"192.0.2.10", "192.0.2.0/28", "~192.0.2.10", "2001:db8::1", "10.0.0.0/8", "fe80::1", "fe80::/10"}).Draw(t, label+"_clientaddr")
			}
			mods = append(mods, m)
			r.Modifier = m
		default:
			m := "denyallow=" + rapid.SampledFrom(vfLabels).Draw(t, label+"_da") + "." + domain
			mods = append(mods, m)
			r.Modifier = m
		}
	}
	if len(mods) > 0 {
		r.Text += "$" + strings.Join(mods, ",")
	}

	return r
}

// vfC01Conf is a generated configuration.
type vfC01Conf struct {
	Subjects    []string
	Block       [][]vfRule
	BlockOn     []bool
	Allow       [][]vfRule
	AllowOn     []bool
	Custom      []vfRule
	Mode        filtering.BlockingMode
	V4, V6      netip.Addr
	TTL         uint32
	Protection  string // on | off | paused_future | paused_past
	FilteringOn bool
	ServiceIDs  []string
	SvcPaused   bool
	Client      *vfC01Client
	Core        bool
	// CacheOn enables the DNS response cache of the proxy (the production
	// default); cacheSeen then remembers what the upstream answered.
	CacheOn   bool
	cacheSeen map[string][]string
	// focus are names that queries prefer: the names of rules a run-time
	// change has just taken out of force.
	focus []string
}

func vfTexts(rs []vfRule) (ss []string) {
	ss = []string{"! generated list"}
	for _, r := range rs {
		ss = append(ss, r.Text)
	}

	return ss
}

func vfDrawC01Conf(t *rapid.T) (c *vfC01Conf) {
	c = &vfC01Conf{}
	c.Core = rapid.Bool().Draw(t, "core_grammar")
	ns := rapid.IntRange(1, 3).Draw(t, "n_subjects")
	for i := 0; i < ns; i++ {
		c.Subjects = append(c.Subjects, vfDrawDomain(t, fmt.Sprintf("subj%d", i)))
	}
	if rapid.IntRange(0, 3).Draw(t, "rules_about_a_service_domain") == 0 {
		// rules (allow rules among them) about a name that a blockable service
		// owns: a rule that allows outranks the service
		id := rapid.SampledFrom(vfServiceIDs).Draw(t, "service_subject")
		c.Subjects = append(c.Subjects, vfServiceDomains[id][0])
	}

	if rapid.IntRange(0, 2).Draw(t, "has_client") > 0 {
		cl := &vfC01Client{Name: "kid laptop"}
		cl.IDKind = rapid.SampledFrom([]string{"ip", "cidr", "clientid"}).Draw(t, "client_idkind")
		cl.IP = netip.MustParseAddr("192.0.2.10")
		if cl.IDKind == "ip" {
			// also a link-local address, which identifies a client only together with its zone, and a global IPv6 one
			cl.IP = netip.MustParseAddr(rapid.SampledFrom([]string{"192.0.2.10", "192.0.2.10", "fe80::aa%eth0", "2001:db8::10"}).Draw(t, "client_ip"))
			if cl.IP.Zone() != "" {
				vfC01.Class("client:identified_by_zoned_link_local_address")
			}
		}
		cl.Subnet = netip.MustParsePrefix("192.0.2.0/28")
		cl.ClientID = "kid-laptop"
		cl.OwnSettings = rapid.Bool().Draw(t, "client_ownsettings")
		cl.FilteringOn = rapid.Bool().Draw(t, "client_filtering")
		cl.OwnServices = rapid.Bool().Draw(t, "client_ownservices")
		if cl.OwnServices {
			cl.ServiceIDs = rapid.SliceOfNDistinct(rapid.SampledFrom(vfServiceIDs), 0, 2, rapid.ID[string]).Draw(t, "client_services")
			cl.SvcPaused = rapid.Bool().Draw(t, "client_svcpaused")
		}
		c.Client = cl
	}

	nb := rapid.IntRange(0, 3).Draw(t, "n_blocklists")
	for i := 0; i < nb; i++ {
		n := rapid.IntRange(1, 4).Draw(t, fmt.Sprintf("bl%d_n", i))
		var rs []vfRule
		for j := 0; j < n; j++ {
			rs = append(rs, vfDrawRule(t, c.Subjects, fmt.Sprintf("bl%d_r%d", i, j), false, c.Client, c.Core))
		}
		c.Block = append(c.Block, rs)
		c.BlockOn = append(c.BlockOn, rapid.IntRange(0, 5).Draw(t, fmt.Sprintf("bl%d_disabled", i)) != 0)
	}
	na := rapid.IntRange(0, 2).Draw(t, "n_allowlists")
	for i := 0; i < na; i++ {
		n := rapid.IntRange(1, 2).Draw(t, fmt.Sprintf("al%d_n", i))
		var rs []vfRule
		for j := 0; j < n; j++ {
			rs = append(rs, vfDrawRule(t, c.Subjects, fmt.Sprintf("al%d_r%d", i, j), true, c.Client, c.Core))
		}
		c.Allow = append(c.Allow, rs)
		c.AllowOn = append(c.AllowOn, rapid.IntRange(0, 5).Draw(t, fmt.Sprintf("al%d_disabled", i)) != 0)
	}
	nc := rapid.IntRange(0, 6).Draw(t, "n_custom")
	for j := 0; j < nc; j++ {
		c.Custom = append(c.Custom, vfDrawRule(t, c.Subjects, fmt.Sprintf("cu_r%d", j), false, c.Client, c.Core))
	}

	c.Mode = rapid.SampledFrom([]filtering.BlockingMode{
		filtering.BlockingModeDefault, filtering.BlockingModeNullIP, filtering.BlockingModeCustomIP,
		filtering.BlockingModeNXDOMAIN, filtering.BlockingModeREFUSED,
	}).Draw(t, "mode")
	c.V4 = netip.MustParseAddr(rapid.SampledFrom([]string{"203.0.113.7", "10.1.1.1", "0.0.0.0"}).Draw(t, "custom_v4"))
	c.V6 = netip.MustParseAddr(rapid.SampledFrom([]string{"2001:db8:b10c::1", "::1", "::"}).Draw(t, "custom_v6"))
	c.TTL = rapid.SampledFrom([]uint32{10, 1, 3600, 86400}).Draw(t, "blocked_ttl")
	c.Protection = rapid.SampledFrom([]string{"on", "on", "on", "off", "paused_future", "paused_past"}).Draw(t, "protection")
	c.FilteringOn = rapid.IntRange(0, 5).Draw(t, "filtering_off") != 0
	c.ServiceIDs = rapid.SliceOfNDistinct(rapid.SampledFrom(vfServiceIDs), 0, 2, rapid.ID[string]).Draw(t, "services")
	c.SvcPaused = rapid.Bool().Draw(t, "services_paused")

	return c
}

func (c *vfC01Conf) world() (wc *vfWorldConf) {
	wc = &vfWorldConf{
		Mode: c.Mode, BlockingIPv4: c.V4, BlockingIPv6: c.V6, BlockedTTL: c.TTL,
		FilteringEnabled: c.FilteringOn, ServiceIDs: c.ServiceIDs, ServicesPaused: c.SvcPaused,
		UserRules: vfTexts(c.Custom)[1:],
	}
	if c.CacheOn {
		wc.CacheSize = 1 << 20
		c.cacheSeen = map[string][]string{}
	}
	for i, l := range c.Block {
		wc.BlockLists = append(wc.BlockLists, vfListConf{Rules: vfTexts(l), Enabled: c.BlockOn[i]})
	}
	for i, l := range c.Allow {
		wc.AllowLists = append(wc.AllowLists, vfListConf{Rules: vfTexts(l), Enabled: c.AllowOn[i]})
	}
	switch c.Protection {
	case "on":
		wc.ProtectionEnabled = true
	case "off":
		wc.ProtectionEnabled = false
	case "paused_future":
		u := time.Now().Add(6 * time.Hour)
		wc.DisabledUntil = &u
	case "paused_past":
		u := time.Now().Add(-6 * time.Hour)
		wc.DisabledUntil = &u
	}
	if cl := c.Client; cl != nil {
		p := &client.Persistent{
			Name: cl.Name, UID: client.MustNewUID(),
			UseOwnSettings: cl.OwnSettings, FilteringEnabled: cl.FilteringOn,
			UseOwnBlockedServices: cl.OwnServices,
			BlockedServices:       &filtering.BlockedServices{Schedule: vfEmptyWeek(), IDs: cl.ServiceIDs},
		}
		if cl.SvcPaused {
			p.BlockedServices.Schedule = vfFullWeek()
		}
		switch cl.IDKind {
		case "ip":
			p.IPs = []netip.Addr{cl.IP}
		case "cidr":
			p.Subnets = []netip.Prefix{cl.Subnet}
		default:
			p.ClientIDs = []string{cl.ClientID}
		}
		wc.Clients = []*client.Persistent{p}
		wc.ServerName = "dns.vf.test"
	}

	return wc
}

// vfEngine builds a fresh urlfilter engine over rule texts (trusted library).
func vfEngine(lists [][]string, ids []int) (e *urlfilter.DNSEngine) {
	var rl []filterlist.RuleList
	for i, l := range lists {
		rl = append(rl, &filterlist.StringRuleList{ID: ids[i], RulesText: strings.Join(l, "\n"), IgnoreCosmetic: true})
	}
	st, err := filterlist.NewRuleStorage(rl)
	if err != nil {
		panic(err)
	}

	return urlfilter.NewDNSEngine(st)
}

// vfVerdict is an expected outcome.
type vfVerdict struct {
	Blocked bool
	// Why is a short class name: allowlist, exception, network, hosts, service,
	// none, protection_off, client_filtering_off ...
	Why string
	// HostIPs are the addresses of matching hosts lines (blocked by hosts).
	HostIPs []netip.Addr
}

// vfMatchCore is the constructive matcher of the core grammar, written from the
// documented rule syntax (not from any library).
func vfMatchCore(r vfRule, name string) (ok bool) {
	switch r.Kind {
	case vfKDomain, vfKException:
		return name == r.Domain || strings.HasSuffix(name, "."+r.Domain)
	case vfKExact, vfKHosts:
		return name == r.Domain
	default:
		panic("not a core rule")
	}
}

// vfC01Model evaluates the expected verdict of a query.
type vfC01Model struct {
	c        *vfC01Conf
	allowEng *urlfilter.DNSEngine
	blockEng *urlfilter.DNSEngine
}

func vfNewC01Model(c *vfC01Conf) (m *vfC01Model) {
	m = &vfC01Model{c: c}
	var al, bl [][]string
	var aid, bid []int
	for i, l := range c.Allow {
		if c.AllowOn[i] {
			al = append(al, vfTexts(l))
			aid = append(aid, 200+i)
		}
	}
	bl = append(bl, vfTexts(c.Custom)[1:])
	bid = append(bid, 0)
	for i, l := range c.Block {
		if c.BlockOn[i] {
			bl = append(bl, vfTexts(l))
			bid = append(bid, 100+i)
		}
	}
	m.allowEng = vfEngine(al, aid)
	m.blockEng = vfEngine(bl, bid)

	return m
}

// clientFor tells which persistent client (if any) a query belongs to; known
// by construction of the query.
func (m *vfC01Model) clientFor(q *vfC01Query) (cl *vfC01Client) {
	if q.AsClient {
		return m.c.Client
	}

	return nil
}

// protectionOn is the effective protection state.
func (m *vfC01Model) protectionOn() (ok bool) {
	return m.c.Protection == "on" || m.c.Protection == "paused_past"
}

// services returns the service IDs in force for the query.
func (m *vfC01Model) services(cl *vfC01Client) (ids []string) {
	if cl != nil && cl.OwnServices {
		if cl.SvcPaused {
			return nil
		}

		return cl.ServiceIDs
	}
	if m.c.SvcPaused {
		return nil
	}

	return m.c.ServiceIDs
}

func vfServiceHit(ids []string, name string, qtype uint16) (id string) {
	for _, id = range ids {
		for _, d := range vfServiceDomains[id] {
			if d == "amazonaws.com" && qtype == dns.TypeCNAME {
				// the rule of the service says $dnstype=~CNAME
				continue
			}
			if name == d || strings.HasSuffix(name, "."+d) {
				return id
			}
		}
	}

	return ""
}

// reference computes the verdict with the reference arrangement built from the
// trusted rule library: allow engine first, then block engine, then services.
func (m *vfC01Model) reference(q *vfC01Query) (v vfVerdict) {
	name := strings.ToLower(strings.TrimSuffix(q.Name, "."))
	cl := m.clientFor(q)
	if !m.protectionOn() {
		return vfVerdict{Why: "protection_off"}
	}

	rulesApply := m.c.FilteringOn
	if cl != nil && cl.OwnSettings {
		rulesApply = cl.FilteringOn
	}

	if rulesApply {
		// the host the request came from, whatever the form of its address
		req := &urlfilter.DNSRequest{Hostname: name, DNSType: q.Qtype, ClientIP: q.Addr.Addr().Unmap().WithZone("")}
		if cl != nil {
			req.ClientName = cl.Name
		}
		if _, ok := m.allowEng.MatchRequest(req); ok {
			return vfVerdict{Why: "allowlist"}
		}
		res, ok := m.blockEng.MatchRequest(req)
		if ok && res.NetworkRule != nil {
			if res.NetworkRule.Whitelist {
				return vfVerdict{Why: "exception"}
			}

			return vfVerdict{Blocked: true, Why: "network"}
		} else if ok && len(res.HostRulesV4)+len(res.HostRulesV6) > 0 {
			v = vfVerdict{Blocked: true, Why: "hosts"}
			for _, hr := range res.HostRulesV4 {
				v.HostIPs = append(v.HostIPs, hr.IP)
			}
			for _, hr := range res.HostRulesV6 {
				v.HostIPs = append(v.HostIPs, hr.IP)
			}

			return v
		}
	}

	if id := vfServiceHit(m.services(cl), name, q.Qtype); id != "" {
		return vfVerdict{Blocked: true, Why: "service"}
	}
	if !rulesApply {
		return vfVerdict{Why: "filtering_off"}
	}

	return vfVerdict{Why: "none"}
}

// constructive computes the verdict for core-grammar configurations from the
// documented semantics alone.  ok is false when the configuration is outside
// the core grammar.
func (m *vfC01Model) constructive(q *vfC01Query) (v vfVerdict, ok bool) {
	if !m.c.Core {
		return v, false
	}
	name := strings.ToLower(strings.TrimSuffix(q.Name, "."))
	cl := m.clientFor(q)
	if !m.protectionOn() {
		return vfVerdict{Why: "protection_off"}, true
	}
	rulesApply := m.c.FilteringOn
	if cl != nil && cl.OwnSettings {
		rulesApply = cl.FilteringOn
	}
	if rulesApply {
		for i, l := range m.c.Allow {
			if !m.c.AllowOn[i] {
				continue
			}
			for _, r := range l {
				if vfMatchCore(r, name) {
					return vfVerdict{Why: "allowlist"}, true
				}
			}
		}
		var side []vfRule
		side = append(side, m.c.Custom...)
		for i, l := range m.c.Block {
			if m.c.BlockOn[i] {
				side = append(side, l...)
			}
		}
		// priority: @@$important > $important > @@ > plain
		best := -1
		var hostIPs []netip.Addr
		hostHit := false
		for _, r := range side {
			if !vfMatchCore(r, name) {
				continue
			}
			switch r.Kind {
			case vfKExact:
				hostHit = true
				hostIPs = append(hostIPs, netip.IPv4Unspecified())
			case vfKHosts:
				hostHit = true
				hostIPs = append(hostIPs, r.IP)
			case vfKDomain:
				p := 0
				if r.Important {
					p = 2
				}
				best = max(best, p)
			case vfKException:
				p := 1
				if r.Important {
					p = 3
				}
				best = max(best, p)
			}
		}
		switch {
		case best == 1 || best == 3:
			return vfVerdict{Why: "exception"}, true
		case best == 0 || best == 2:
			return vfVerdict{Blocked: true, Why: "network"}, true
		case hostHit:
			return vfVerdict{Blocked: true, Why: "hosts", HostIPs: hostIPs}, true
		}
	}
	if id := vfServiceHit(m.services(cl), name, q.Qtype); id != "" {
		return vfVerdict{Blocked: true, Why: "service"}, true
	}
	if !rulesApply {
		return vfVerdict{Why: "filtering_off"}, true
	}

	return vfVerdict{Why: "none"}, true
}

// vfC01Query is a generated query.
type vfC01Query struct {
	vfQuery
	Rel      string
	AsClient bool
}

var vfQtypes = []uint16{
	dns.TypeA, dns.TypeA, dns.TypeA, dns.TypeAAAA, dns.TypeAAAA, dns.TypeHTTPS, dns.TypeTXT, dns.TypeMX,
	dns.TypeCNAME, dns.TypePTR, dns.TypeANY, dns.TypeSRV,
}

func vfMixCase(t *rapid.T, s, label string) (out string) {
	mask := rapid.Uint64().Draw(t, label)
	b := []byte(s)
	for i := range b {
		if mask&(1<<(uint(i)%64)) != 0 && b[i] >= 'a' && b[i] <= 'z' {
			b[i] -= 32
		}
	}

	return string(b)
}

func vfDrawC01Query(t *rapid.T, c *vfC01Conf, label string) (q *vfC01Query) {
	q = &vfC01Query{}
	var subjects []string
	subjects = append(subjects, c.Subjects...)
	for _, l := range c.Block {
		for _, r := range l {
			subjects = append(subjects, r.Domain)
		}
	}
	for _, l := range c.Allow {
		for _, r := range l {
			subjects = append(subjects, r.Domain)
		}
	}
	for _, r := range c.Custom {
		subjects = append(subjects, r.Domain)
	}
	for _, id := range vfServiceIDs {
		subjects = append(subjects, vfServiceDomains[id]...)
	}
	// names of hosts-style lines and of configured services get extra weight
	for _, l := range append(append([][]vfRule{c.Custom}, c.Block...), c.Allow...) {
		for _, r := range l {
			if r.Kind == vfKHosts || r.Kind == vfKExact {
				subjects = append(subjects, r.Domain, r.Domain)
			}
		}
	}
	for _, id := range c.ServiceIDs {
		subjects = append(subjects, vfServiceDomains[id]...)
		subjects = append(subjects, vfServiceDomains[id]...)
	}
	for _, f := range c.focus {
		subjects = append(subjects, f, f, f)
	}
	if c.Client != nil {
		for _, id := range c.Client.ServiceIDs {
			subjects = append(subjects, vfServiceDomains[id]...)
		}
	}
	subj := rapid.SampledFrom(subjects).Draw(t, label+"_subject")
	name, rel := vfRelated(t, subj, label)
	q.Rel = rel
	if rapid.IntRange(0, 3).Draw(t, label+"_mixcase") == 0 {
		name = vfMixCase(t, name, label+"_casemask")
		q.Rel += "+case"
	}
	q.Name = name + "."
	q.Qtype = rapid.SampledFrom(vfQtypes).Draw(t, label+"_qtype")
	q.Proto = proxy.ProtoUDP

	q.Addr = netip.MustParseAddrPort("198.18.0.77:53000")
	if c.Client != nil && rapid.Bool().Draw(t, label+"_asclient") {
		q.AsClient = true
		switch c.Client.IDKind {
		case "ip":
			q.Addr = netip.AddrPortFrom(c.Client.IP, 53001)
		case "cidr":
			q.Addr = netip.AddrPortFrom(netip.MustParseAddr(rapid.SampledFrom([]string{"192.0.2.1", "192.0.2.10", "192.0.2.15"}).Draw(t, label+"_cidraddr")), 53002)
		default:
			q.ClientID = c.Client.ClientID
			q.Proto = proxy.ProtoTLS
		}
	} else if rapid.IntRange(0, 3).Draw(t, label+"_otheraddr") == 0 {
		// an address near, but outside, the client's identifiers
		q.Addr = netip.MustParseAddrPort(rapid.SampledFrom([]string{"192.0.2.16:1", "192.0.2.200:1", "[2001:db8::1]:1", "10.2.3.4:1",
			// a link-local client (its address always comes with the zone) and
			// an IPv4 host behind a dual-stack reverse proxy
			"[fe80::1%eth0]:1", "[::ffff:10.2.3.4]:1"}).Draw(t, label+"_addr"))
		if c.Client != nil && c.Client.IDKind != "clientid" && c.Client.Subnet.Contains(q.Addr.Addr()) {
			q.Addr = netip.MustParseAddrPort("198.18.0.78:1")
		}
	}

	return q
}

// vfCheckForwarded asserts the "forwarded intact" half.
func vfCheckForwarded(q *vfC01Query, o *vfOutcome) (err error) {
	if o.Err != nil || o.BeforeErr != nil {
		return fmt.Errorf("request failed: before=%v err=%v", o.BeforeErr, o.Err)
	}
	if len(o.Asked) != 1 || !strings.EqualFold(o.Asked[0].Name, q.Name) || o.Asked[0].Qtype != q.Qtype {
		return fmt.Errorf("expected exactly one upstream question for (%s, %s), upstream saw %v", q.Name, dns.Type(q.Qtype), o.Asked)
	}
	if o.Res == nil {
		return fmt.Errorf("no response")
	}
	want := o.Upstream
	if want == nil {
		return fmt.Errorf("harness: upstream response not recorded")
	}
	if o.Res.Rcode != want.Rcode {
		return fmt.Errorf("rcode %d, want upstream's %d", o.Res.Rcode, want.Rcode)
	}
	if len(o.Res.Question) != 1 || o.Res.Question[0] != o.Req.Question[0] {
		return fmt.Errorf("question changed: %v, sent %v", o.Res.Question, o.Req.Question)
	}
	got, exp := vfRRStrings(o.Res.Answer), vfRRStrings(want.Answer)
	if strings.Join(got, "\n") != strings.Join(exp, "\n") {
		return fmt.Errorf("answer differs from upstream's: got %q, want %q", got, exp)
	}
	if o.Res.Id != o.Req.Id || !o.Res.Response {
		return fmt.Errorf("bad header: id %d (sent %d) response=%t", o.Res.Id, o.Req.Id, o.Res.Response)
	}

	return nil
}

// noteUpstream remembers what the upstream answered (whatever the verdict was:
// the cache remembers it too).
func (c *vfC01Conf) noteUpstream(q *vfC01Query, o *vfOutcome) {
	if c.cacheSeen == nil || o.Upstream == nil {
		return
	}
	for _, a := range o.Asked {
		if strings.EqualFold(a.Name, q.Name) && a.Qtype == q.Qtype {
			c.cacheSeen[fmt.Sprintf("%s|%d", strings.ToLower(q.Name), q.Qtype)] = vfDropTTL(o.Upstream.Answer)
		}
	}
}

// vfCheckForwardedCached is vfCheckForwarded for a server with the DNS cache
// on: a question the upstream has answered before may be served from the
// cache, which then must be that answer (TTLs age, SVCB parameters come back
// in wire order, letter case of owner names is the cached one).
func vfCheckForwardedCached(c *vfC01Conf, q *vfC01Query, o *vfOutcome) (err error) {
	key := fmt.Sprintf("%s|%d", strings.ToLower(q.Name), q.Qtype)
	lower := func(ss []string) (out string) { return strings.ToLower(strings.Join(ss, "\n")) }
	if len(o.Asked) > 0 {
		return vfCheckForwarded(q, o)
	}
	if o.Err != nil || o.BeforeErr != nil || o.Res == nil {
		return fmt.Errorf("request failed: before=%v err=%v", o.BeforeErr, o.Err)
	}
	want, ok := c.cacheSeen[key]
	if !ok {
		return fmt.Errorf("the upstream was not asked for (%s, %s) and never answered it before", q.Name, dns.Type(q.Qtype))
	}
	if len(o.Res.Question) != 1 || o.Res.Question[0] != o.Req.Question[0] || o.Res.Id != o.Req.Id || !o.Res.Response {
		return fmt.Errorf("bad header/question in a reply from the cache: %v", o.Res)
	}
	if got := vfDropTTL(o.Res.Answer); lower(got) != lower(want) {
		return fmt.Errorf("answer from the cache %q differs from what the upstream answered %q", got, want)
	}

	return nil
}

// vfCheckBlocked asserts the "answered locally with the blocking-mode response"
// half.
func vfCheckBlocked(c *vfC01Conf, q *vfC01Query, v vfVerdict, o *vfOutcome) (err error) {
	if o.Err != nil || o.BeforeErr != nil {
		return fmt.Errorf("request failed: before=%v err=%v", o.BeforeErr, o.Err)
	}
	if len(o.Asked) != 0 {
		return fmt.Errorf("blocked query was sent upstream: %v", o.Asked)
	}
	res := o.Res
	if res == nil {
		return fmt.Errorf("no response")
	}
	if len(res.Question) != 1 || res.Question[0] != o.Req.Question[0] || res.Id != o.Req.Id || !res.Response {
		return fmt.Errorf("bad header/question: %v", res)
	}
	for _, rr := range append(append([]dns.RR{}, res.Answer...), res.Extra...) {
		if rr.Header().Ttl == vfFixtureTTL || strings.Contains(rr.String(), "vf-upstream") ||
			strings.Contains(rr.String(), "198.51.100.") || strings.Contains(rr.String(), "2001:db8:f1:") {
			return fmt.Errorf("upstream data in a blocked reply: %s", rr)
		}
	}

	// validity for every qtype
	switch res.Rcode {
	case dns.RcodeSuccess, dns.RcodeNameError, dns.RcodeRefused:
	default:
		return fmt.Errorf("unexpected rcode %s for a blocked query", dns.RcodeToString[res.Rcode])
	}

	if q.Qtype != dns.TypeA && q.Qtype != dns.TypeAAAA {
		if len(res.Answer) != 0 {
			return fmt.Errorf("blocked %s query has answers: %q", dns.Type(q.Qtype), vfRRStrings(res.Answer))
		}

		return nil
	}

	// mode table for A / AAAA
	var wantIPs []netip.Addr
	wantRcode := dns.RcodeSuccess
	zero := netip.IPv4Unspecified()
	if q.Qtype == dns.TypeAAAA {
		zero = netip.IPv6Unspecified()
	}
	ambiguousHosts := false
	switch c.Mode {
	case filtering.BlockingModeDefault:
		wantIPs = []netip.Addr{zero}
		if v.Why == "hosts" {
			var same []netip.Addr
			other := false
			for _, ip := range v.HostIPs {
				if ip.Is4() == (q.Qtype == dns.TypeA) {
					if !containsAddr(same, ip) {
						same = append(same, ip)
					}
				} else {
					other = true
				}
			}
			if len(same) > 0 {
				wantIPs = same
			} else if other {
				// cross-family hosts line only: the statement fixes no
				// address; validity predicate (DESIGN 3.3).
				ambiguousHosts = true
			}
		}
	case filtering.BlockingModeNullIP:
		wantIPs = []netip.Addr{zero}
	case filtering.BlockingModeCustomIP:
		if q.Qtype == dns.TypeA {
			wantIPs = []netip.Addr{c.V4}
		} else {
			wantIPs = []netip.Addr{c.V6}
		}
	case filtering.BlockingModeNXDOMAIN:
		wantRcode = dns.RcodeNameError
	case filtering.BlockingModeREFUSED:
		wantRcode = dns.RcodeRefused
	}

	if res.Rcode != wantRcode {
		return fmt.Errorf("mode %s: rcode %s, want %s", c.Mode, dns.RcodeToString[res.Rcode], dns.RcodeToString[wantRcode])
	}
	var got []netip.Addr
	for _, rr := range res.Answer {
		switch rr := rr.(type) {
		case *dns.A:
			if q.Qtype != dns.TypeA {
				return fmt.Errorf("A record in reply to AAAA")
			}
			ip, _ := netip.AddrFromSlice(rr.A.To4())
			got = append(got, ip)
		case *dns.AAAA:
			if q.Qtype != dns.TypeAAAA {
				return fmt.Errorf("AAAA record in reply to A")
			}
			ip, _ := netip.AddrFromSlice(rr.AAAA.To16())
			got = append(got, ip)
		default:
			return fmt.Errorf("unexpected record in blocked reply: %s", rr)
		}
		if !strings.EqualFold(rr.Header().Name, q.Name) {
			return fmt.Errorf("record owner %q, want %q", rr.Header().Name, q.Name)
		}
		if rr.Header().Ttl != c.TTL {
			return fmt.Errorf("blocked ttl %d, want %d", rr.Header().Ttl, c.TTL)
		}
	}
	if wantRcode != dns.RcodeSuccess {
		if len(got) != 0 {
			return fmt.Errorf("mode %s: answers in a %s reply", c.Mode, dns.RcodeToString[wantRcode])
		}

		return nil
	}
	if ambiguousHosts {
		for _, ip := range got {
			if !ip.IsUnspecified() {
				return fmt.Errorf("cross-family hosts block: address %s is neither absent nor unspecified", ip)
			}
		}

		return nil
	}
	sortAddrs(got)
	sortAddrs(wantIPs)
	if fmt.Sprint(got) != fmt.Sprint(wantIPs) {
		return fmt.Errorf("mode %s (%s): addresses %v, want %v", c.Mode, v.Why, got, wantIPs)
	}

	return nil
}

func containsAddr(s []netip.Addr, a netip.Addr) (ok bool) {
	for _, x := range s {
		if x == a {
			return true
		}
	}

	return false
}

func sortAddrs(s []netip.Addr) { sort.Slice(s, func(i, j int) bool { return s[i].Less(s[j]) }) }

func (c *vfC01Conf) describe() (m map[string]any) {
	m = map[string]any{
		"mode": c.Mode, "protection": c.Protection, "filtering": c.FilteringOn, "custom": vfTexts(c.Custom)[1:],
		"services": c.ServiceIDs, "services_paused": c.SvcPaused, "core_grammar": c.Core,
	}
	for i, l := range c.Block {
		m[fmt.Sprintf("block%d(enabled=%t)", i, c.BlockOn[i])] = vfTexts(l)[1:]
	}
	for i, l := range c.Allow {
		m[fmt.Sprintf("allow%d(enabled=%t)", i, c.AllowOn[i])] = vfTexts(l)[1:]
	}
	if c.Client != nil {
		m["client"] = *c.Client
	}

	return m
}

// aliasTarget returns a name under the domain of a plain blocking rule
// (||d^) that is in force, or "".
func (c *vfC01Conf) aliasTarget() (name string) {
	pick := func(rs []vfRule) (d string) {
		for _, r := range rs {
			if r.Kind == vfKDomain && r.Modifier == "" {
				return r.Domain
			}
		}

		return ""
	}
	if d := pick(c.Custom); d != "" {
		return "cdn-alias." + d
	}
	for i, l := range c.Block {
		if d := pick(l); c.BlockOn[i] && d != "" {
			return "cdn-alias." + d
		}
	}

	return ""
}

func (c *vfC01Conf) kindSet() (s string) {
	set := map[string]bool{}
	add := func(rs []vfRule, side string) {
		for _, r := range rs {
			k := side + ":" + vfKindNames[r.Kind]
			if r.Important {
				k += "$important"
			}
			if r.Modifier != "" {
				k += "$" + strings.SplitN(r.Modifier, "=", 2)[0]
			}
			set[k] = true
		}
	}
	for i, l := range c.Block {
		if c.BlockOn[i] {
			add(l, "b")
		}
	}
	for i, l := range c.Allow {
		if c.AllowOn[i] {
			add(l, "a")
		}
	}
	add(c.Custom, "c")
	var ks []string
	for k := range set {
		ks = append(ks, k)
	}
	sort.Strings(ks)

	return strings.Join(ks, ",")
}

// vfC01Case runs one configuration with its queries against w.
func vfC01Case(t *rapid.T, c *vfC01Conf, w *vfWorld, run func(q vfQuery) *vfOutcome, nq int, tag string) {
	vfC01CaseSettle(t, c, w, run, nq, tag, 0)
}

// vfC01CaseSettle is vfC01Case for a server whose rule engines are rebuilt in
// the background after a run-time change: a deviating outcome is asked for
// again until settle has passed, and only then is it a failure.
func vfC01CaseSettle(t *rapid.T, c *vfC01Conf, w *vfWorld, run func(q vfQuery) *vfOutcome, nq int, tag string, settle time.Duration) {
	m := vfNewC01Model(c)
	deadline := time.Now().Add(settle)
	for i := 0; i < nq; i++ {
		q := vfDrawC01Query(t, c, fmt.Sprintf("q%d", i))
		want := m.reference(q)
		cons, hasCons := m.constructive(q)
		if hasCons && (cons.Blocked != want.Blocked) {
			t.Fatalf("VERIF-INCONCLUSIVE oracles disagree (harness defect): constructive %+v, reference %+v for %s %s in %v",
				cons, want, q.Name, dns.Type(q.Qtype), c.describe())
		}

		// The upstream's answer for an allowed name may lead, by an alias, to
		// a name that a blocking rule matches: the allow rule is about the
		// name that was asked, and its answer reaches the client intact.
		var aliasAnswer func(req *dns.Msg) (resp *dns.Msg)
		// (Not with the DNS cache on: a cached answer of this kind is rightly
		// filtered once a later run-time change has taken the allow rule away.)
		if blockedName := c.aliasTarget(); c.cacheSeen == nil && blockedName != "" && (want.Why == "allowlist" || want.Why == "exception") &&
			(q.Qtype == dns.TypeA || q.Qtype == dns.TypeAAAA) && rapid.IntRange(0, 1).Draw(t, fmt.Sprintf("q%d_blocked_alias", i)) == 0 {
			aliasAnswer = func(req *dns.Msg) (resp *dns.Msg) {
				resp = (&dns.Msg{}).SetReply(req)
				resp.RecursionAvailable = true
				qn := req.Question[0].Name
				resp.Answer = []dns.RR{&dns.CNAME{Hdr: dns.RR_Header{Name: qn, Rrtype: dns.TypeCNAME, Class: dns.ClassINET, Ttl: vfFixtureTTL}, Target: blockedName + "."}}
				if req.Question[0].Qtype == dns.TypeA {
					resp.Answer = append(resp.Answer, &dns.A{Hdr: dns.RR_Header{Name: blockedName + ".", Rrtype: dns.TypeA, Class: dns.ClassINET, Ttl: vfFixtureTTL}, A: net.IPv4(198, 51, 100, 200).To4()})
				} else {
					resp.Answer = append(resp.Answer, &dns.AAAA{Hdr: dns.RR_Header{Name: blockedName + ".", Rrtype: dns.TypeAAAA, Class: dns.ClassINET, Ttl: vfFixtureTTL}, AAAA: net.ParseIP("2001:db8:f1::c8")})
				}

				return resp
			}
			vfC01.Class(tag + "allowed_name_answered_with_blocked_alias")
		}
		w.ups.mu.Lock()
		w.ups.answer = aliasAnswer
		w.ups.mu.Unlock()

		o := run(q.vfQuery)
		vfC01.Eval()
		cliClass := "anon"
		if q.AsClient {
			cliClass = "client:" + c.Client.IDKind
		}
		vfC01.Class(tag + "verdict:" + want.Why)
		vfC01.Class(tag + "qtype:" + dns.Type(q.Qtype).String())
		vfC01.Class(tag + "mode:" + string(c.Mode))
		vfC01.Class(tag + "protection:" + c.Protection)
		vfC01.Class(tag + "rel:" + q.Rel)
		if hasCons {
			vfC01.Class(tag + "oracle:constructive+reference")
		} else {
			vfC01.Class(tag + "oracle:reference")
		}
		if want.Blocked || want.Why == "allowlist" || want.Why == "exception" {
			vfC01.Nontrivial(fmt.Sprintf("%s|%s|%s|%s|%s|%s|%s", tag, c.kindSet(), want.Why, dns.Type(q.Qtype), c.Mode, c.Protection, cliClass))
		}
		if vfC01.WantSample(tag + want.Why) {
			s := map[string]any{"config": c.describe(), "query": fmt.Sprintf("%s %s from %s id=%q", q.Name, dns.Type(q.Qtype), q.Addr, q.ClientID),
				"expected": want.Why, "upstream_asked": fmt.Sprint(o.Asked)}
			if o.Res != nil {
				s["rcode"] = dns.RcodeToString[o.Res.Rcode]
				s["answer"] = vfRRStrings(o.Res.Answer)
			}
			vfC01.Sample(tag+want.Why, s)
		}

		check := func(o *vfOutcome) (err error) {
			if want.Blocked {
				return vfCheckBlocked(c, q, want, o)
			}

			if c.cacheSeen != nil {
				return vfCheckForwardedCached(c, q, o)
			}

			return vfCheckForwarded(q, o)
		}
		c.noteUpstream(q, o)
		err := check(o)
		for err != nil && settle > 0 && time.Now().Before(deadline) {
			time.Sleep(20 * time.Millisecond)
			o = run(q.vfQuery)
			c.noteUpstream(q, o)
			err = check(o)
			if err == nil {
				vfC01.Class(tag + "settled_after_retry")
			}
		}
		if err != nil {
			t.Fatalf("%s%s %s (client=%s, rel=%s): expected %s (blocked=%t): %v\nconfig: %v",
				tag, q.Name, dns.Type(q.Qtype), cliClass, q.Rel, want.Why, want.Blocked, err, c.describe())
		}
	}
}

// TestVFC01Verdict drives queries through HandleBefore + handleDNSRequest.
func TestVFC01Verdict(t *testing.T) {
	vfkit.Begin(t)
	rapid.Check(t, func(t *rapid.T) {
		c := vfDrawC01Conf(t)
		w, err := vfNewWorld(c.world())
		if err != nil {
			t.Fatalf("VERIF-INCONCLUSIVE world: %v\n%v", err, c.describe())
		}
		defer w.close()

		nq := rapid.IntRange(8, 30).Draw(t, "n_queries")
		vfC01Case(t, c, w, w.run, nq, "")
	})
}

// TestVFC01Wire sends the queries over real UDP and TCP sockets to a started
// server, so that dnsproxy's own wiring of the hooks is part of the path.
func TestVFC01Wire(t *testing.T) {
	vfkit.Begin(t)
	rapid.Check(t, func(t *rapid.T) {
		c := vfDrawC01Conf(t)
		if c.Client != nil {
			// over the wire every query comes from 127.0.0.1 without ClientID
			c.Client.IDKind = "ip"
			c.Client.IP = netip.MustParseAddr("127.0.0.1")
		}
		w, err := vfNewWorld(c.world())
		if err != nil {
			t.Fatalf("VERIF-INCONCLUSIVE world: %v\n%v", err, c.describe())
		}
		defer w.close()
		err = w.srv.Start()
		if err != nil {
			t.Fatalf("VERIF-INCONCLUSIVE start: %v", err)
		}

		udp := w.srv.dnsProxy.Addr(proxy.ProtoUDP).String()
		tcp := w.srv.dnsProxy.Addr(proxy.ProtoTCP).String()
		n := 0
		run := func(q vfQuery) (o *vfOutcome) {
			req := &dns.Msg{}
			req.Id = dns.Id()
			req.RecursionDesired = true
			req.Question = []dns.Question{{Name: q.Name, Qtype: q.Qtype, Qclass: dns.ClassINET}}
			o = &vfOutcome{Req: req.Copy()}
			w.ups.take()
			cl := &dns.Client{Net: "udp", Timeout: 5 * time.Second}
			addr := udp
			n++
			if n%2 == 0 {
				cl.Net, addr = "tcp", tcp
			}
			o.Res, _, o.Err = cl.Exchange(req, addr)
			o.Asked = w.ups.take()
			if len(o.Asked) > 0 {
				o.Upstream = w.ups.lastResponse()
			}

			return o
		}
		wrapped := func(q vfQuery) (o *vfOutcome) { return run(q) }

		nq := rapid.IntRange(4, 10).Draw(t, "n_queries")
		// every wire query is from 127.0.0.1: model it as the client when the
		// client is identified by that address
		vfC01CaseWire(t, c, w, wrapped, nq)
	})
}

// vfC01CaseWire is vfC01Case for the socket path, where the source address is
// fixed to loopback.
func vfC01CaseWire(t *rapid.T, c *vfC01Conf, w *vfWorld, run func(q vfQuery) *vfOutcome, nq int) {
	m := vfNewC01Model(c)
	for i := 0; i < nq; i++ {
		q := vfDrawC01Query(t, c, fmt.Sprintf("q%d", i))
		q.AsClient = c.Client != nil
		q.ClientID = ""
		q.Addr = netip.MustParseAddrPort("127.0.0.1:1")
		if q.Qtype == dns.TypeANY {
			q.Qtype = dns.TypeA
		}
		want := m.reference(q)
		o := run(q.vfQuery)
		vfC01.Eval()
		vfC01.Class("wire:verdict:" + want.Why)
		if want.Blocked || want.Why == "allowlist" || want.Why == "exception" {
			vfC01.Nontrivial(fmt.Sprintf("wire|%s|%s|%s|%s|%s", c.kindSet(), want.Why, dns.Type(q.Qtype), c.Mode, c.Protection))
		}
		var err error
		if o.Err != nil {
			t.Fatalf("VERIF-INCONCLUSIVE wire exchange failed: %v", o.Err)
		}
		if want.Blocked {
			err = vfCheckBlocked(c, q, want, o)
		} else {
			err = vfCheckForwarded(q, o)
		}
		if err != nil {
			t.Fatalf("wire: %s %s: expected %s (blocked=%t): %v\nconfig: %v", q.Name, dns.Type(q.Qtype), want.Why, want.Blocked, err, c.describe())
		}
	}
}

var _ = net.IPv4
