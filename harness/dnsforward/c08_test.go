//go:build verif

package dnsforward

// C08: queries for ignored names and from clients marked "ignore" never reach
// the query log (resp. statistics): not in memory, not on disk, not in the API;
// with anonymisation on every stored or reported client address is masked.

import (
	"context"
	"encoding/json"
	"fmt"
	"net"
	"net/http"
	"net/http/httptest"
	"net/netip"
	"os"
	"path/filepath"
	"sort"
	"strings"
	"testing"

	"github.com/AdguardTeam/AdGuardHome/internal/client"
	"github.com/AdguardTeam/AdGuardHome/internal/filtering"
	"github.com/AdguardTeam/AdGuardHome/internal/querylog"
	"github.com/AdguardTeam/AdGuardHome/internal/vfkit"
	"github.com/AdguardTeam/dnsproxy/proxy"
	"github.com/miekg/dns"
	"pgregory.net/rapid"
)

var vfC08 = vfkit.For("C08")

// vfC08Rule is an ignore rule of the core grammar.
type vfC08Rule struct {
	Kind   string // exact | domain | wildcard | root
	Domain string
	Text   string
}

func vfC08DrawRules(t *rapid.T, label string, domains []string) (rs []vfC08Rule) {
	n := rapid.IntRange(0, 3).Draw(t, label+"_n")
	for i := 0; i < n; i++ {
		r := vfC08Rule{}
		r.Kind = rapid.SampledFrom([]string{"exact", "domain", "domain", "wildcard", "root"}).Draw(t, fmt.Sprintf("%s_%d_kind", label, i))
		r.Domain = rapid.SampledFrom(domains).Draw(t, fmt.Sprintf("%s_%d_dom", label, i))
		switch r.Kind {
		case "exact":
			r.Text = r.Domain
			if rapid.IntRange(0, 3).Draw(t, fmt.Sprintf("%s_%d_fqdn", label, i)) == 0 {
				// the same name, spelled fully qualified
				r.Text += "."
				vfC08.Class("ignore_list:plain_name_with_final_dot")
			}
		case "domain":
			r.Text = "||" + r.Domain + "^"
		case "wildcard":
			r.Text = "*." + r.Domain
		default:
			r.Text = "|.^"
			r.Domain = "."
		}
		if r.Kind != "root" && rapid.IntRange(0, 3).Draw(t, fmt.Sprintf("%s_%d_upper", label, i)) == 0 {
			r.Text = strings.ToUpper(r.Text)
		}
		rs = append(rs, r)
	}

	return rs
}

// vfC08Ignored tells whether the (lower-case, dot-less; "." for the root) name
// is ignored by the rules; ambiguous for names the wildcard syntax may or may
// not cover.
func vfC08Ignored(rs []vfC08Rule, name string) (ignored, ambiguous bool) {
	for _, r := range rs {
		switch r.Kind {
		case "exact":
			if name == r.Domain {
				return true, false
			}
		case "domain":
			if name == r.Domain || strings.HasSuffix(name, "."+r.Domain) {
				return true, false
			}
		case "wildcard":
			if strings.HasSuffix(name, "."+r.Domain) {
				return true, false
			}
			if strings.Contains(name, "."+r.Domain) {
				ambiguous = true
			}
		default:
			if name == "." {
				return true, false
			}
		}
	}

	return false, ambiguous
}

// vfC08Client is a persistent client of the configuration.
type vfC08Client struct {
	Name        string
	IDKind      string // ip | cidr | mac | clientid
	Addr        netip.Addr
	IgnoreLog   bool
	IgnoreStats bool
}

// vfC08Conf is a generated configuration.
type vfC08Conf struct {
	// AnonymizeViaAPI: the server starts with the opposite anonymisation
	// setting and is switched to Anonymize through the query-log config API
	// before the queries.
	AnonymizeViaAPI bool
	Anonymize       bool
	// LegacyPartial, if not empty, is the body of a partial update sent to
	// the deprecated POST /control/querylog_config before the queries.  $ANON
	// stands for the value of Anonymize.
	LegacyPartial string
	RefuseAny     bool
	LogRules      []vfC08Rule
	StatRules     []vfC08Rule
	Clients       []*vfC08Client
	Domains       []string
}

var vfC08ClientAddrs = map[string][]string{
	"ip":   {"192.0.2.77", "2001:db8:77::77"},
	"cidr": {"198.51.100.130", "2001:db8:c1d::9"},
	// leases need not lie in private address space
	"mac":      {"10.20.30.40", "100.64.0.50", "2001:db8:1ea5::50"},
	"clientid": {"203.0.113.50", "2001:db8:1d::5"},
}

func vfC08Draw(t *rapid.T) (c *vfC08Conf) {
	c = &vfC08Conf{}
	c.Anonymize = rapid.Bool().Draw(t, "anonymize")
	c.AnonymizeViaAPI = rapid.IntRange(0, 2).Draw(t, "anonymize_via_api") == 0
	if rapid.IntRange(0, 3).Draw(t, "legacy_partial") == 0 {
		c.LegacyPartial = rapid.SampledFrom([]string{
			`{"interval":7}`, `{"interval":1}`, `{"enabled":true}`, `{"enabled":true,"interval":30}`,
			`{"anonymize_client_ip":$ANON}`, `{"anonymize_client_ip":$ANON,"interval":90}`, `{}`,
		}).Draw(t, "legacy_partial_body")
	}
	c.RefuseAny = rapid.Bool().Draw(t, "refuse_any")
	nd := rapid.IntRange(1, 3).Draw(t, "n_domains")
	for i := 0; i < nd; i++ {
		d := vfDrawDomain(t, fmt.Sprintf("dom%d", i))
		if rapid.IntRange(0, 5).Draw(t, fmt.Sprintf("dom%d_device", i)) == 0 {
			// the bare name of a device on the local network
			d = rapid.SampledFrom([]string{"r2", "x", "nas1", "printer-5", "tv"}).Draw(t, fmt.Sprintf("dom%d_device_name", i))
			vfC08.Class("ignore_list:device_name")
		}
		c.Domains = append(c.Domains, d)
	}
	c.LogRules = vfC08DrawRules(t, "logign", c.Domains)
	c.StatRules = vfC08DrawRules(t, "statign", c.Domains)

	kinds := rapid.SliceOfNDistinct(rapid.SampledFrom([]string{"ip", "cidr", "mac", "clientid"}), 0, 3, rapid.ID[string]).Draw(t, "client_kinds")
	for _, k := range kinds {
		cl := &vfC08Client{Name: "client-" + k, IDKind: k}
		cl.Addr = netip.MustParseAddr(rapid.SampledFrom(vfC08ClientAddrs[k]).Draw(t, "client_"+k+"_addr"))
		cl.IgnoreLog = rapid.Bool().Draw(t, "client_"+k+"_ignorelog")
		cl.IgnoreStats = rapid.Bool().Draw(t, "client_"+k+"_ignorestats")
		c.Clients = append(c.Clients, cl)
		if k == "cidr" && rapid.Bool().Draw(t, "client_cidr_has_wider") {
			// another client on a network that contains the first one's: the
			// most specific network owns an address
			wide := &vfC08Client{Name: "client-cidr-wide", IDKind: "cidr_wide"}
			wide.Addr = netip.MustParseAddr("198.51.7.7")
			if cl.Addr.Is6() {
				wide.Addr = netip.MustParseAddr("2001:db8:c1d:5::1")
			}
			wide.IgnoreLog = rapid.Bool().Draw(t, "client_cidr_wide_ignorelog")
			wide.IgnoreStats = rapid.Bool().Draw(t, "client_cidr_wide_ignorestats")
			c.Clients = append(c.Clients, wide)
		}
	}

	return c
}

func (c *vfC08Conf) describe() (m map[string]any) {
	var lr, sr []string
	for _, r := range c.LogRules {
		lr = append(lr, r.Text)
	}
	for _, r := range c.StatRules {
		sr = append(sr, r.Text)
	}
	cls := []string{}
	for _, cl := range c.Clients {
		cls = append(cls, fmt.Sprintf("%s@%s ignorelog=%t ignorestats=%t", cl.IDKind, cl.Addr, cl.IgnoreLog, cl.IgnoreStats))
	}

	return map[string]any{"anonymize": c.Anonymize, "anonymize_set_via_api": c.AnonymizeViaAPI, "legacy_partial_update": c.LegacyPartial, "refuse_any": c.RefuseAny, "querylog_ignored": lr, "stats_ignored": sr, "clients": cls}
}

// vfAnonOK reports whether ip has its last 16 (v4) / 80 (v6) bits zero.
func vfAnonOK(ip netip.Addr) (ok bool) {
	ip = ip.Unmap()
	b := ip.AsSlice()
	n := 10
	if ip.Is4() {
		n = 2
	}
	for _, x := range b[len(b)-n:] {
		if x != 0 {
			return false
		}
	}

	return true
}

// vfMask is the expected stored form of an address.
func vfMask(ip netip.Addr, anonymize bool) (out netip.Addr) {
	ip = ip.Unmap()
	if !anonymize {
		return ip
	}
	b := ip.AsSlice()
	n := 10
	if ip.Is4() {
		n = 2
	}
	for i := len(b) - n; i < len(b); i++ {
		b[i] = 0
	}
	out, _ = netip.AddrFromSlice(b)

	return out
}

func TestVFC08Ignore(t *testing.T) {
	vfkit.Begin(t)
	rapid.Check(t, func(t *rapid.T) {
		c := vfDrawC08World(t)
		defer c.w.close()
		c.runQueries(t)
	})
}

// vfC08Run bundles a world with its configuration and model.
type vfC08Run struct {
	conf     *vfC08Conf
	w        *vfWorld
	handlers map[string]http.HandlerFunc
}

func vfDrawC08World(t *rapid.T) (r *vfC08Run) {
	c := vfC08Draw(t)
	r = &vfC08Run{conf: c, handlers: map[string]http.HandlerFunc{}}

	wc := &vfWorldConf{
		ProtectionEnabled: true, FilteringEnabled: true, ServerName: "dns.vf.test",
		WithLogStats: true, Anonymize: c.Anonymize != c.AnonymizeViaAPI, RefuseAny: c.RefuseAny, QLogMemSize: 1000,
		QLogSentinel: true,
		HTTPRegister: func(method, url string, h http.HandlerFunc) { r.handlers[method+" "+url] = h },
		DHCPMAC:      map[netip.Addr]net.HardwareAddr{},
	}
	for _, ru := range c.LogRules {
		wc.QLogIgnored = append(wc.QLogIgnored, ru.Text)
	}
	for _, ru := range c.StatRules {
		wc.StatsIgnored = append(wc.StatsIgnored, ru.Text)
	}
	for _, cl := range c.Clients {
		p := &client.Persistent{
			Name: cl.Name, UID: client.MustNewUID(), IgnoreQueryLog: cl.IgnoreLog, IgnoreStatistics: cl.IgnoreStats,
			BlockedServices: &filtering.BlockedServices{Schedule: vfEmptyWeek()},
		}
		switch cl.IDKind {
		case "ip":
			p.IPs = []netip.Addr{cl.Addr}
		case "cidr":
			bits := 25
			if cl.Addr.Is6() {
				bits = 64
			}
			pref, _ := cl.Addr.Prefix(bits)
			p.Subnets = []netip.Prefix{pref}
		case "cidr_wide":
			bits := 16
			if cl.Addr.Is6() {
				bits = 48
			}
			pref, _ := cl.Addr.Prefix(bits)
			p.Subnets = []netip.Prefix{pref}
		case "mac":
			mac := net.HardwareAddr{0x02, 0, 0, 0, 0, 0x40}
			p.MACs = []net.HardwareAddr{mac}
			wc.DHCPMAC[cl.Addr] = mac
		default:
			p.ClientIDs = []string{"cid-" + strings.ReplaceAll(cl.Addr.String(), ":", "-")}
			p.ClientIDs[0] = "cid-client"
		}
		wc.Clients = append(wc.Clients, p)
	}

	// the two adapters of internal/home/clients.go, re-stated over the real
	// client storage (see the evidence assumptions)
	var storage *client.Storage
	wc.FindClient = func(ids []string) (qc *querylog.Client, err error) {
		if storage == nil {
			return nil, nil
		}
		for _, id := range ids {
			ip, _ := netip.ParseAddr(id)
			if p, ok := storage.FindLoose(ip, id); ok {
				return &querylog.Client{Name: p.Name, IgnoreQueryLog: p.IgnoreQueryLog}, nil
			}
		}

		return nil, nil
	}
	wc.ShouldCountCli = func(ids []string) (ok bool) {
		if storage == nil {
			return true
		}
		for _, id := range ids {
			ip, _ := netip.ParseAddr(id)
			if p, found := storage.FindLoose(ip, id); found {
				return !p.IgnoreStatistics
			}
		}

		return true
	}

	w, err := vfNewWorld(wc)
	if err != nil {
		t.Fatalf("VERIF-INCONCLUSIVE world: %v\n%v", err, c.describe())
	}
	storage = w.storage
	r.w = w
	if serr := w.qlog.Start(context.Background()); serr != nil {
		t.Fatalf("VERIF-INCONCLUSIVE qlog start: %v", serr)
	}
	w.stats.Start()

	if c.AnonymizeViaAPI {
		ign := wc.QLogIgnored
		if ign == nil {
			ign = []string{}
		}
		body, _ := json.Marshal(map[string]any{
			"enabled": true, "anonymize_client_ip": c.Anonymize, "interval": 86400000, "ignored": ign,
		})
		rec := httptest.NewRecorder()
		req := httptest.NewRequest(http.MethodPut, "/control/querylog/config/update", strings.NewReader(string(body)))
		r.handlers["PUT /control/querylog/config/update"](rec, req)
		if rec.Code != http.StatusOK {
			t.Fatalf("VERIF-INCONCLUSIVE querylog config update: %d %s", rec.Code, rec.Body.String())
		}
		vfC08.Class(fmt.Sprintf("anonymize_set_via_api=%t", c.Anonymize))
	}

	if c.LegacyPartial != "" {
		// A partial update through the deprecated endpoint: the settings it
		// does not name stay in force.
		body := strings.ReplaceAll(c.LegacyPartial, "$ANON", fmt.Sprint(c.Anonymize))
		rec := httptest.NewRecorder()
		req := httptest.NewRequest(http.MethodPost, "/control/querylog_config", strings.NewReader(body))
		h := r.handlers["POST /control/querylog_config"]
		if h == nil {
			t.Fatalf("VERIF-INCONCLUSIVE no legacy querylog_config handler")
		}
		h(rec, req)
		if rec.Code != http.StatusOK {
			t.Fatalf("VERIF-INCONCLUSIVE legacy querylog_config %s: %d %s", body, rec.Code, rec.Body.String())
		}
		vfC08.Class(fmt.Sprintf("legacy_partial_update:anonymize=%t", c.Anonymize))
	}

	return r
}

// vfC08Q is one generated query with its expectations.
type vfC08Q struct {
	Name       string
	Qtype      uint16
	Addr       netip.Addr
	ClientID   string
	Proto      proxy.Proto
	WantLogged bool
	WantCount  bool
	Ambiguous  bool
	Class      string
	// Owner is the persistent client the query belongs to, if any.
	Owner *vfC08Client
}

func (r *vfC08Run) runQueries(t *rapid.T) {
	c := r.conf
	n := rapid.IntRange(4, 14).Draw(t, "n_queries")
	var qs []*vfC08Q
	anyIgnored, anyKept := false, false
	for i := 0; i < n; i++ {
		q := &vfC08Q{Proto: proxy.ProtoUDP}
		label := fmt.Sprintf("q%d", i)
		if rapid.IntRange(0, 9).Draw(t, label+"_root") == 0 {
			q.Name = "."
			q.Qtype = dns.TypeNS
		} else {
			name, _ := vfRelated(t, rapid.SampledFrom(c.Domains).Draw(t, label+"_subject"), label)
			if rapid.IntRange(0, 2).Draw(t, label+"_mixcase") == 0 {
				name = vfMixCase(t, name, label+"_casemask")
			}
			q.Name = name + "."
			q.Qtype = rapid.SampledFrom([]uint16{dns.TypeA, dns.TypeA, dns.TypeAAAA, dns.TypeTXT, dns.TypeANY}).Draw(t, label+"_qtype")
		}

		var cl *vfC08Client
		if len(c.Clients) > 0 && rapid.Bool().Draw(t, label+"_fromclient") {
			cl = rapid.SampledFrom(c.Clients).Draw(t, label+"_client")
			q.Addr = cl.Addr
			if cl.IDKind == "cidr" && rapid.Bool().Draw(t, label+"_cidr_other") {
				// another address of the same subnet
				b := cl.Addr.AsSlice()
				b[len(b)-1] ^= 0x05
				q.Addr, _ = netip.AddrFromSlice(b)
			}
			if cl.IDKind == "clientid" {
				q.ClientID = "cid-client"
				q.Proto = rapid.SampledFrom([]proxy.Proto{proxy.ProtoTLS, proxy.ProtoQUIC, proxy.ProtoHTTPS}).Draw(t, label+"_proto")
			}
			q.Class = "client:" + cl.IDKind
			q.Owner = cl
		} else {
			q.Addr = netip.MustParseAddr(rapid.SampledFrom([]string{"198.18.5.6", "198.18.77.200", "2001:db8:aaaa:bbbb:cccc:dddd:eeee:ffff", "192.0.2.78"}).Draw(t, label+"_addr"))
			q.Class = "anon"
		}

		if q.ClientID == "" && rapid.IntRange(0, 3).Draw(t, label+"_shared_id") == 0 {
			// an encrypted request with a ClientID no client is registered
			// for (one DoH URL on several devices): the address still decides
			q.ClientID = "shared-doh"
			q.Proto = rapid.SampledFrom([]proxy.Proto{proxy.ProtoTLS, proxy.ProtoHTTPS}).Draw(t, label+"_shared_proto")
			q.Class += "+unregistered_clientid"
		}

		if q.Addr.Is4() && rapid.IntRange(0, 3).Draw(t, label+"_mapped") == 0 {
			// the same client seen through a 4-in-6 address (dual-stack DoH
			// listener, real-IP header of a proxy)
			q.Addr = netip.AddrFrom16(q.Addr.As16())
			q.Class += "+4in6"
		}

		lname := strings.ToLower(strings.TrimSuffix(q.Name, "."))
		if q.Name == "." {
			lname = "."
		}
		ignLog, ambL := vfC08Ignored(c.LogRules, lname)
		ignStat, ambS := vfC08Ignored(c.StatRules, lname)
		q.Ambiguous = (ambL && !ignLog) || (ambS && !ignStat)
		q.WantLogged = !ignLog && !(cl != nil && cl.IgnoreLog) && !(q.Qtype == dns.TypeANY && c.RefuseAny)
		q.WantCount = !ignStat && !(cl != nil && cl.IgnoreStats)
		if !q.WantLogged || !q.WantCount {
			anyIgnored = true
		}
		if q.WantLogged && q.WantCount {
			anyKept = true
		}
		qs = append(qs, q)
	}

	for _, q := range qs {
		o := r.w.run(vfQuery{Name: q.Name, Qtype: q.Qtype, Addr: netip.AddrPortFrom(q.Addr, 5000), Proto: q.Proto, ClientID: q.ClientID})
		if o.BeforeErr != nil || o.Err != nil {
			t.Fatalf("VERIF-INCONCLUSIVE query failed: %v %v", o.BeforeErr, o.Err)
		}
		vfC08.Eval()
		vfC08.Class(fmt.Sprintf("%s/anonymize=%t", q.Class, c.Anonymize))
		vfC08.Class(fmt.Sprintf("want:logged=%t,counted=%t", q.WantLogged, q.WantCount))
		if q.Ambiguous {
			vfC08.Class("ambiguous")
		}
	}
	if anyIgnored && anyKept {
		key := fmt.Sprintf("%v", c.describe())
		for _, q := range qs {
			key += fmt.Sprintf("|%s,%s,%t,%t", q.Class, strings.ToLower(q.Name), q.WantLogged, q.WantCount)
		}
		vfC08.Nontrivial(key)
		vfC08.Class("nontrivial_config")
	}

	r.checkLog(t, qs, "memory")
	r.checkStats(t, qs)
	r.ignoreForAWhile(t, qs, "memory")

	// flush to disk (the production shutdown path), then read file and API again
	if err := r.w.qlog.Shutdown(context.Background()); err != nil && !strings.Contains(err.Error(), "nothing to write") {
		t.Fatalf("VERIF-INCONCLUSIVE qlog shutdown: %v", err)
	}
	r.checkLog(t, qs, "file")
	r.checkFileBytes(t, qs)

	if err := r.w.stats.Close(); err != nil {
		t.Fatalf("VERIF-INCONCLUSIVE stats close: %v", err)
	}
	r.checkStatsDB(t, qs)

	// A client is marked to be ignored afterwards: the log API must stop
	// returning what it recorded for that client, and only that.
	var later []*vfC08Client
	for _, cl := range c.Clients {
		if !cl.IgnoreLog {
			later = append(later, cl)
		}
	}
	// (With anonymisation on the stored address no longer identifies the
	// client, so nothing can be demanded of it.)
	if len(later) > 0 && !c.Anonymize && rapid.Bool().Draw(t, "ignore_a_client_afterwards") {
		cl := rapid.SampledFrom(later).Draw(t, "client_ignored_afterwards")
		prev, ok := r.w.storage.FindByName(cl.Name)
		if !ok {
			t.Fatalf("VERIF-INCONCLUSIVE client %q not in the registry", cl.Name)
		}
		upd := prev.ShallowClone()
		upd.IgnoreQueryLog = true
		if uerr := r.w.storage.Update(context.Background(), cl.Name, upd); uerr != nil {
			t.Fatalf("VERIF-INCONCLUSIVE updating client %q: %v", cl.Name, uerr)
		}
		cl.IgnoreLog = true
		hidden := 0
		for _, q := range qs {
			if q.Owner == cl && q.WantLogged {
				q.WantLogged = false
				hidden++
			}
		}
		vfC08.Class("client_ignored_afterwards")
		if hidden > 0 {
			vfC08.Class("client_ignored_afterwards:hides_recorded_entries")
		}
		r.checkLog(t, qs, "file_after_ignoring_"+cl.IDKind)
	}

	if vfC08.WantSample(fmt.Sprintf("anonymize=%t", c.Anonymize)) {
		var sq []string
		for _, q := range qs {
			sq = append(sq, fmt.Sprintf("%s %s from %s id=%q -> logged=%t counted=%t", q.Name, dns.Type(q.Qtype), q.Addr, q.ClientID, q.WantLogged, q.WantCount))
		}
		vfC08.Sample(fmt.Sprintf("anonymize=%t", c.Anonymize), map[string]any{"config": c.describe(), "queries": sq})
	}
}

// maskedHidden reports whether, with anonymisation on, the stored (masked)
// address of q falls under an identifier of a client that is currently
// ignored for the log (or the statistics): the APIs look the stored address up
// when they are read and may then leave the entry out, which the statement
// allows (it promises what is absent, not what is present).
func (r *vfC08Run) maskedHidden(q *vfC08Q, logged bool) (hidden bool) {
	if !r.conf.Anonymize || q.ClientID == "cid-client" {
		// a registered ClientID identifies its client whatever the address
		return false
	}
	m := vfMask(q.Addr, true)
	for _, cl := range r.conf.Clients {
		if (logged && !cl.IgnoreLog) || (!logged && !cl.IgnoreStats) {
			continue
		}
		switch cl.IDKind {
		case "ip":
			if cl.Addr == m {
				return true
			}
		case "cidr", "cidr_wide":
			bits := map[string][2]int{"cidr": {25, 64}, "cidr_wide": {16, 48}}[cl.IDKind]
			b := bits[0]
			if cl.Addr.Is6() {
				b = bits[1]
			}
			if pref, err := cl.Addr.Prefix(b); err == nil && pref.Contains(m) {
				return true
			}
		}
	}

	return false
}

// ignoreForAWhile marks a client ignore-querylog, or puts a recorded name on the
// ignore list through the API, checks that the log API stops returning exactly
// the entries concerned ("currently ignored"), and undoes the change, so that
// the later stages see the original configuration.  Not done under
// anonymisation for clients (the stored address no longer identifies them).
func (r *vfC08Run) ignoreForAWhile(t *rapid.T, qs []*vfC08Q, stage string) {
	c := r.conf
	switch rapid.IntRange(0, 3).Draw(t, "ignore_for_a_while_"+stage) {
	case 0:
		var cands []*vfC08Client
		for _, cl := range c.Clients {
			if !cl.IgnoreLog {
				cands = append(cands, cl)
			}
		}
		if len(cands) == 0 || c.Anonymize {
			return
		}
		cl := rapid.SampledFrom(cands).Draw(t, "client_ignored_for_a_while_"+stage)
		set := func(v bool) {
			prev, ok := r.w.storage.FindByName(cl.Name)
			if !ok {
				t.Fatalf("VERIF-INCONCLUSIVE client %q not in the registry", cl.Name)
			}
			upd := prev.ShallowClone()
			upd.IgnoreQueryLog = v
			if uerr := r.w.storage.Update(context.Background(), cl.Name, upd); uerr != nil {
				t.Fatalf("VERIF-INCONCLUSIVE updating client %q: %v", cl.Name, uerr)
			}
			cl.IgnoreLog = v
		}
		set(true)
		var hidden []*vfC08Q
		for _, q := range qs {
			if q.Owner == cl && q.WantLogged {
				q.WantLogged = false
				hidden = append(hidden, q)
			}
		}
		r.checkLog(t, qs, stage+"_while_client_ignored")
		for _, q := range hidden {
			q.WantLogged = true
		}
		set(false)
		vfC08.Class("ignored_for_a_while:client:" + stage)
		if len(hidden) > 0 {
			vfC08.Class("ignored_for_a_while:client_hides_entries:" + stage)
		}
	case 1:
		var names []string
		for _, q := range qs {
			if q.WantLogged && !q.Ambiguous && q.Name != "." {
				names = append(names, strings.ToLower(strings.TrimSuffix(q.Name, ".")))
			}
		}
		if len(names) == 0 {
			return
		}
		name := rapid.SampledFrom(names).Draw(t, "name_ignored_for_a_while_"+stage)
		put := func(ignored []string) {
			if ignored == nil {
				ignored = []string{}
			}
			body, _ := json.Marshal(map[string]any{
				"enabled": true, "anonymize_client_ip": c.Anonymize, "interval": 86400000, "ignored": ignored,
			})
			rec := httptest.NewRecorder()
			r.handlers["PUT /control/querylog/config/update"](rec, httptest.NewRequest(http.MethodPut, "/control/querylog/config/update", strings.NewReader(string(body))))
			if rec.Code != http.StatusOK {
				t.Fatalf("VERIF-INCONCLUSIVE querylog config update %s: %d %s", body, rec.Code, rec.Body.String())
			}
		}
		var orig []string
		for _, ru := range c.LogRules {
			orig = append(orig, ru.Text)
		}
		for _, o := range orig {
			if strings.EqualFold(o, name) {
				return
			}
		}
		put(append(append([]string{}, orig...), name))
		var hidden []*vfC08Q
		for _, q := range qs {
			if q.WantLogged && strings.ToLower(strings.TrimSuffix(q.Name, ".")) == name {
				q.WantLogged = false
				hidden = append(hidden, q)
			}
		}
		r.checkLog(t, qs, stage+"_while_name_ignored")
		for _, q := range hidden {
			q.WantLogged = true
		}
		put(orig)
		vfC08.Class("ignored_for_a_while:name:" + stage)
	}
}

// expectedLog builds the multiset of (name, stored client) the log must hold.
func (r *vfC08Run) expected(qs []*vfC08Q, logged, api bool) (exp map[string]int, amb map[string]bool) {
	exp = map[string]int{}
	amb = map[string]bool{}
	if logged {
		exp[vfSentinelHost+" "+vfSentinelIP] = 1
	}
	for _, q := range qs {
		name := strings.ToLower(strings.TrimSuffix(q.Name, "."))
		if q.Name == "." {
			name = "."
		}
		k := name + " " + vfMask(q.Addr, r.conf.Anonymize).String()
		if q.Ambiguous || (api && r.maskedHidden(q, logged)) {
			amb[k] = true

			continue
		}
		want := q.WantCount
		if logged {
			want = q.WantLogged
		}
		if want {
			exp[k]++
		} else if _, ok := exp[k]; !ok {
			exp[k] = 0
		}
	}

	return exp, amb
}

func (r *vfC08Run) checkLog(t *rapid.T, qs []*vfC08Q, stage string) {
	rec := httptest.NewRecorder()
	r.handlers["GET /control/querylog"](rec, httptest.NewRequest(http.MethodGet, "/control/querylog?limit=1000", nil))
	if rec.Code != http.StatusOK {
		t.Fatalf("querylog API status %d", rec.Code)
	}
	var doc struct {
		Data []struct {
			Client   string `json:"client"`
			ClientID string `json:"client_id"`
			Question struct {
				Name string `json:"name"`
			} `json:"question"`
		} `json:"data"`
	}
	if err := json.Unmarshal(rec.Body.Bytes(), &doc); err != nil {
		t.Fatalf("querylog API json: %v", err)
	}

	got := map[string]int{}
	for _, e := range doc.Data {
		ip, err := netip.ParseAddr(e.Client)
		if err != nil {
			t.Fatalf("querylog API (%s): client %q is not an address", stage, e.Client)
		}
		if r.conf.Anonymize && !vfAnonOK(ip) {
			t.Fatalf("querylog API (%s): client address %s is not anonymised\nconfig: %v", stage, ip, r.conf.describe())
		}
		name := strings.ToLower(e.Question.Name)
		if name == "" {
			name = "."
		}
		got[name+" "+ip.String()]++
	}
	exp, amb := r.expected(qs, true, true)
	r.compare(t, "querylog API ("+stage+")", got, exp, amb)
	vfC08.Class("checked:log_" + stage)
}

func (r *vfC08Run) compare(t *rapid.T, what string, got, exp map[string]int, amb map[string]bool) {
	keys := map[string]bool{}
	for k := range got {
		keys[k] = true
	}
	for k := range exp {
		keys[k] = true
	}
	var ks []string
	for k := range keys {
		ks = append(ks, k)
	}
	sort.Strings(ks)
	for _, k := range ks {
		if amb[k] {
			continue
		}
		if got[k] != exp[k] {
			t.Fatalf("%s: (name client)=%q recorded %d times, want %d\nconfig: %v\nall recorded: %v\nall expected: %v",
				what, k, got[k], exp[k], r.conf.describe(), got, exp)
		}
	}
}

func (r *vfC08Run) checkFileBytes(t *rapid.T, qs []*vfC08Q) {
	// The rotated file is read too: the start-up rotation check of the query
	// log may rename a file that was flushed while it ran (both files are what
	// "on disk" means, and the API reads both).
	var b []byte
	for _, fn := range []string{"querylog.json.1", "querylog.json"} {
		fb, err := os.ReadFile(filepath.Join(r.w.dir, fn))
		if err != nil && !os.IsNotExist(err) {
			t.Fatalf("VERIF-INCONCLUSIVE read %s: %v", fn, err)
		}
		b = append(b, fb...)
	}
	got := map[string]int{}
	for _, line := range strings.Split(string(b), "\n") {
		if strings.TrimSpace(line) == "" {
			continue
		}
		var e struct {
			IP string `json:"IP"`
			QH string `json:"QH"`
		}
		if jerr := json.Unmarshal([]byte(line), &e); jerr != nil {
			t.Fatalf("querylog.json: bad line %q: %v", line, jerr)
		}
		ip, perr := netip.ParseAddr(e.IP)
		if perr != nil {
			t.Fatalf("querylog.json: bad IP in %q", line)
		}
		if r.conf.Anonymize && !vfAnonOK(ip) {
			t.Fatalf("querylog.json: client address %s is not anonymised\nconfig: %v", ip, r.conf.describe())
		}
		name := strings.ToLower(e.QH)
		if name == "" {
			name = "."
		}
		got[name+" "+ip.String()]++
	}
	// the raw bytes must not hold an un-anonymised client address anywhere
	if r.conf.Anonymize {
		for _, q := range qs {
			if vfAnonOK(q.Addr) {
				continue
			}
			if strings.Contains(string(b), `"`+q.Addr.Unmap().String()+`"`) {
				t.Fatalf("querylog.json holds the un-anonymised address %s", q.Addr)
			}
		}
	}
	exp, amb := r.expected(qs, true, false)
	r.compare(t, "querylog.json", got, exp, amb)
	vfC08.Class("checked:file_bytes")
}

func (r *vfC08Run) checkStats(t *rapid.T, qs []*vfC08Q) {
	rec := httptest.NewRecorder()
	r.handlers["GET /control/stats"](rec, httptest.NewRequest(http.MethodGet, "/control/stats", nil))
	if rec.Code != http.StatusOK {
		t.Fatalf("stats API status %d: %s", rec.Code, rec.Body.String())
	}
	var doc struct {
		Num        int                `json:"num_dns_queries"`
		TopQueried []map[string]int   `json:"top_queried_domains"`
		TopClients []map[string]int   `json:"top_clients"`
		Other      map[string]float64 `json:"-"`
	}
	if err := json.Unmarshal(rec.Body.Bytes(), &doc); err != nil {
		t.Fatalf("stats API json: %v: %s", err, rec.Body.String())
	}

	wantTotal, ambTotal := 0, 0
	wantDomains := map[string]int{}
	wantClients := map[string]int{}
	ambDomains := map[string]bool{}
	ambClients := map[string]bool{}
	for _, q := range qs {
		name := strings.ToLower(strings.TrimSuffix(q.Name, "."))
		if q.Name == "." {
			name = "."
		}
		if q.Ambiguous {
			ambTotal++
			ambDomains[name] = true

			continue
		}
		if !q.WantCount {
			if _, ok := wantDomains[name]; !ok {
				wantDomains[name] = 0
			}

			continue
		}
		wantTotal++
		wantDomains[name]++
		if q.ClientID != "" {
			wantClients[q.ClientID]++
		} else if r.maskedHidden(q, false) {
			ambClients[vfMask(q.Addr, true).String()] = true
		} else {
			wantClients[vfMask(q.Addr, r.conf.Anonymize).String()]++
		}
	}
	if doc.Num < wantTotal || doc.Num > wantTotal+ambTotal {
		t.Fatalf("stats: num_dns_queries %d, want %d (+%d ambiguous)\nconfig: %v", doc.Num, wantTotal, ambTotal, r.conf.describe())
	}
	gotDomains := map[string]int{}
	for _, m := range doc.TopQueried {
		for k, v := range m {
			gotDomains[k] += v
		}
	}
	for k := range gotDomains {
		if _, ok := wantDomains[k]; !ok && !ambDomains[k] {
			t.Fatalf("stats: domain %q counted but never queried", k)
		}
	}
	for k, v := range wantDomains {
		if ambDomains[k] {
			continue
		}
		if gotDomains[k] != v {
			t.Fatalf("stats: domain %q counted %d times, want %d\nconfig: %v\ntop_queried: %v", k, gotDomains[k], v, r.conf.describe(), gotDomains)
		}
	}
	for _, m := range doc.TopClients {
		for k := range m {
			ip, err := netip.ParseAddr(k)
			if err != nil {
				continue // a ClientID
			}
			if r.conf.Anonymize && !vfAnonOK(ip) {
				t.Fatalf("stats: top_clients holds the un-anonymised address %s\nconfig: %v", ip, r.conf.describe())
			}
		}
	}
	if ambTotal == 0 {
		gotClients := map[string]int{}
		for _, m := range doc.TopClients {
			for k, v := range m {
				gotClients[k] += v
			}
		}
		for k, v := range wantClients {
			if ambClients[k] {
				continue
			}
			if gotClients[k] != v {
				t.Fatalf("stats: client %q counted %d times, want %d\nconfig: %v\ntop_clients: %v\nstats document: %s", k, gotClients[k], v, r.conf.describe(), gotClients, rec.Body.String())
			}
		}
		for k, v := range gotClients {
			if ambClients[k] {
				continue
			}
			if wantClients[k] != v {
				t.Fatalf("stats: client %q counted %d times, want %d\nconfig: %v", k, v, wantClients[k], r.conf.describe())
			}
		}
	}
	vfC08.Class("checked:stats_api")
}

// checkStatsDB greps the raw statistics database for what must not be there.
func (r *vfC08Run) checkStatsDB(t *rapid.T, qs []*vfC08Q) {
	b, err := os.ReadFile(filepath.Join(r.w.dir, "stats.db"))
	if err != nil {
		t.Fatalf("VERIF-INCONCLUSIVE read stats.db: %v", err)
	}
	counted := map[string]bool{}
	for _, q := range qs {
		if q.WantCount || q.Ambiguous {
			counted[strings.ToLower(strings.TrimSuffix(q.Name, "."))] = true
		}
	}
	for _, q := range qs {
		name := strings.ToLower(strings.TrimSuffix(q.Name, "."))
		if name == "" || q.Ambiguous {
			continue
		}
		// a name of a few bytes occurs in a binary file by chance (and inside
		// other strings); those are judged through the API only
		if len(name) >= 6 && !q.WantCount && !vfCountedSuperstring(counted, name) && strings.Contains(string(b), name) {
			t.Fatalf("stats.db holds the ignored name %q\nconfig: %v", name, r.conf.describe())
		}
		if r.conf.Anonymize && !vfAnonOK(q.Addr) && q.ClientID == "" && strings.Contains(string(b), q.Addr.Unmap().String()) {
			t.Fatalf("stats.db holds the un-anonymised address %s", q.Addr)
		}
	}
	vfC08.Class("checked:stats_db_bytes")
}

// vfCountedSuperstring reports whether name occurs inside a counted name (then
// a byte search cannot tell them apart).
func vfCountedSuperstring(counted map[string]bool, name string) (ok bool) {
	for c := range counted {
		if strings.Contains(c, name) {
			return true
		}
	}

	return false
}
