//go:build verif

package dnsforward

// C02: an upstream answer that reveals a blocked CNAME target, address or HTTPS
// address hint is replaced by the blocking-mode response, wherever the record
// sits; otherwise (no match, or response filtering not applicable) the upstream
// answer is delivered unchanged.

import (
	"context"
	"encoding/json"
	"fmt"
	"net"
	"net/http"
	"net/http/httptest"
	"net/netip"
	"strings"
	"testing"

	"github.com/AdguardTeam/AdGuardHome/internal/client"
	"github.com/AdguardTeam/AdGuardHome/internal/filtering"
	"github.com/AdguardTeam/AdGuardHome/internal/vfkit"
	"github.com/AdguardTeam/dnsproxy/proxy"
	"github.com/AdguardTeam/urlfilter"
	"github.com/miekg/dns"
	"pgregory.net/rapid"
)

var vfC02 = vfkit.For("C02")

// vfC02RR is one generated record of the upstream answer.
type vfC02RR struct {
	Kind string // cname | a | aaaa | https | txt | mx | ns
	// Values are what response filtering looks at: the CNAME target, the
	// address, or the hint addresses (v4 hints first, then v6 hints, in the
	// order of the SVCB values).
	Values []string
	// V6Hint marks, per value, an ipv6hint address.
	V6Hint []bool
	RR     dns.RR
}

var (
	// the unspecified addresses are what rules against DNS rebinding name
	vfC02V4 = []string{"203.0.113.1", "203.0.113.2", "203.0.113.3", "192.0.2.99", "100.64.0.9", "0.0.0.0"}
	// the last one is an IPv4 address in its 4-in-6 form: it is the same address as 192.0.2.99 of the list above, and the
	// rules that name it are written over the IPv4 literal (the only text form Go prints for it); it is for AAAA records
	// only: an ipv6hint cannot carry it (miekg/dns refuses to pack it)
	vfC02V6 = []string{"2001:db8:aa::1", "2001:db8:aa::2", "2001:db8:bb::3", "fd00::9", "::", "::ffff:192.0.2.99"}
)

// vfC02AddrText returns the text a rule has to name to match the address: the
// canonical form, which for a 4-in-6 address is the IPv4 literal.
func vfC02AddrText(ip string) (v string) {
	v = net.ParseIP(ip).String()
	if v != ip {
		vfC02.Class("answer:ipv4_mapped_ipv6_address")
	}

	return v
}

func vfC02DrawAnswer(t *rapid.T, qname string, qtype uint16) (rrs []vfC02RR) {
	owner := qname
	chain := rapid.IntRange(0, 4).Draw(t, "cname_chain")
	for i := 0; i < chain; i++ {
		target := fmt.Sprintf("c%d.%s.", i, vfDrawDomain(t, fmt.Sprintf("cn%d", i)))
		rrs = append(rrs, vfC02RR{Kind: "cname", Values: []string{strings.TrimSuffix(target, ".")}, V6Hint: []bool{false},
			RR: &dns.CNAME{Hdr: dns.RR_Header{Name: owner, Rrtype: dns.TypeCNAME, Class: dns.ClassINET, Ttl: vfFixtureTTL}, Target: target}})
		owner = target
	}

	n := rapid.IntRange(0, 5).Draw(t, "n_records")
	kinds := []string{"a", "aaaa", "https", "txt", "mx", "ns"}
	switch qtype {
	case dns.TypeA:
		kinds = append(kinds, "a", "a", "a")
	case dns.TypeAAAA:
		kinds = append(kinds, "aaaa", "aaaa", "aaaa")
	case dns.TypeHTTPS:
		kinds = append(kinds, "https", "https", "https")
	}
	for i := 0; i < n; i++ {
		k := rapid.SampledFrom(kinds).Draw(t, fmt.Sprintf("rr%d_kind", i))
		hdr := dns.RR_Header{Name: owner, Class: dns.ClassINET, Ttl: vfFixtureTTL}
		switch k {
		case "a":
			ip := rapid.SampledFrom(vfC02V4).Draw(t, fmt.Sprintf("rr%d_ip", i))
			hdr.Rrtype = dns.TypeA
			rrs = append(rrs, vfC02RR{Kind: k, Values: []string{ip}, V6Hint: []bool{false}, RR: &dns.A{Hdr: hdr, A: net.ParseIP(ip).To4()}})
		case "aaaa":
			ip := rapid.SampledFrom(vfC02V6).Draw(t, fmt.Sprintf("rr%d_ip", i))
			hdr.Rrtype = dns.TypeAAAA
			rrs = append(rrs, vfC02RR{Kind: k, Values: []string{vfC02AddrText(ip)}, V6Hint: []bool{false}, RR: &dns.AAAA{Hdr: hdr, AAAA: net.ParseIP(ip)}})
		case "https":
			hdr.Rrtype = dns.TypeHTTPS
			h := &dns.HTTPS{SVCB: dns.SVCB{Hdr: hdr, Priority: 1, Target: "."}}
			r := vfC02RR{Kind: k}
			if rapid.Bool().Draw(t, fmt.Sprintf("rr%d_alpn", i)) {
				h.Value = append(h.Value, &dns.SVCBAlpn{Alpn: []string{"h2", "h3"}})
			}
			v6first := rapid.Bool().Draw(t, fmt.Sprintf("rr%d_v6first", i))
			addV4 := func() {
				ips := rapid.SliceOfNDistinct(rapid.SampledFrom(vfC02V4), 0, 2, rapid.ID[string]).Draw(t, fmt.Sprintf("rr%d_v4hint", i))
				if len(ips) == 0 {
					return
				}
				hint := &dns.SVCBIPv4Hint{}
				for _, ip := range ips {
					hint.Hint = append(hint.Hint, net.ParseIP(ip).To4())
					r.Values = append(r.Values, ip)
					r.V6Hint = append(r.V6Hint, false)
				}
				h.Value = append(h.Value, hint)
			}
			addV6 := func() {
				ips := rapid.SliceOfNDistinct(rapid.SampledFrom(vfC02V6[:5]), 0, 2, rapid.ID[string]).Draw(t, fmt.Sprintf("rr%d_v6hint", i))
				if len(ips) == 0 {
					return
				}
				hint := &dns.SVCBIPv6Hint{}
				for _, ip := range ips {
					hint.Hint = append(hint.Hint, net.ParseIP(ip))
					r.Values = append(r.Values, ip)
					r.V6Hint = append(r.V6Hint, true)
				}
				h.Value = append(h.Value, hint)
			}
			if v6first {
				addV6()
				addV4()
			} else {
				addV4()
				addV6()
			}
			r.RR = h
			rrs = append(rrs, r)
		case "txt":
			hdr.Rrtype = dns.TypeTXT
			rrs = append(rrs, vfC02RR{Kind: k, RR: &dns.TXT{Hdr: hdr, Txt: []string{"v=spf1 -all"}}})
		case "mx":
			hdr.Rrtype = dns.TypeMX
			rrs = append(rrs, vfC02RR{Kind: k, RR: &dns.MX{Hdr: hdr, Preference: 5, Mx: "mail.vf-upstream.invalid."}})
		default:
			hdr.Rrtype = dns.TypeNS
			rrs = append(rrs, vfC02RR{Kind: k, RR: &dns.NS{Hdr: hdr, Ns: "ns.vf-upstream.invalid."}})
		}
	}

	if rapid.Bool().Draw(t, "shuffle") && len(rrs) > 1 {
		perm := rapid.Permutation(rrs).Draw(t, "order")
		rrs = perm
	}

	return rrs
}

// vfC02Conf is a generated C02 configuration.
type vfC02Conf struct {
	Qname       string
	Qtype       uint16
	Answer      []vfC02RR
	Block       []string // one block list
	Allow       []string // one allow list
	Custom      []string
	Mode        filtering.BlockingMode
	V4, V6      netip.Addr
	TTL         uint32
	Protection  bool
	FilteringOn bool
	AAAAOff     bool
	// ClientOff: the query comes from a persistent client with own settings
	// and filtering disabled.
	ClientOff bool
	// QueryAllowed: an allow rule covers the queried name itself.
	QueryAllowed string
	WithLog      bool
	// CacheOn enables the proxy's DNS cache; Repeats is how often the same
	// query is sent (cache hits must be filtered like fresh answers).
	CacheOn bool
	Repeats int
	// UpRcode is the response code of the upstream answer: a negative answer
	// may carry the CNAME chain that led to it.
	UpRcode int
	// Planted describes the planted offending record, for the evidence.
	Planted string
}

// vfC02FilterableValues lists all (value, rrIndex) pairs response filtering may look at.
func vfC02FilterableValues(rrs []vfC02RR) (vals []string) {
	for _, r := range rrs {
		vals = append(vals, r.Values...)
	}

	return vals
}

func vfDrawC02Conf(t *rapid.T) (c *vfC02Conf) {
	c = &vfC02Conf{}
	c.Qname = "q." + vfDrawDomain(t, "qname") + "."
	if rapid.IntRange(0, 4).Draw(t, "qname_mixcase") == 0 {
		c.Qname = vfMixCase(t, c.Qname, "qname_casemask")
	}
	c.Qtype = rapid.SampledFrom([]uint16{dns.TypeA, dns.TypeA, dns.TypeAAAA, dns.TypeHTTPS, dns.TypeTXT, dns.TypeCNAME}).Draw(t, "qtype")
	c.Answer = vfC02DrawAnswer(t, c.Qname, c.Qtype)

	c.Mode = rapid.SampledFrom([]filtering.BlockingMode{
		filtering.BlockingModeDefault, filtering.BlockingModeNullIP, filtering.BlockingModeCustomIP,
		filtering.BlockingModeNXDOMAIN, filtering.BlockingModeREFUSED,
	}).Draw(t, "mode")
	c.V4 = netip.MustParseAddr("203.0.113.77")
	c.V6 = netip.MustParseAddr("2001:db8:b10c::77")
	c.TTL = rapid.SampledFrom([]uint32{10, 60, 3600}).Draw(t, "blocked_ttl")
	c.Protection = rapid.IntRange(0, 9).Draw(t, "protection_off") != 0
	c.FilteringOn = rapid.IntRange(0, 9).Draw(t, "filtering_off") != 0
	c.AAAAOff = rapid.IntRange(0, 3).Draw(t, "aaaa_disabled") == 0
	c.ClientOff = rapid.IntRange(0, 9).Draw(t, "client_filtering_off") == 0
	c.WithLog = rapid.IntRange(0, 3).Draw(t, "with_querylog") == 0
	c.CacheOn = rapid.Bool().Draw(t, "dns_cache")
	if rapid.IntRange(0, 4).Draw(t, "upstream_negative") == 0 {
		c.UpRcode = dns.RcodeNameError
	}
	c.Repeats = 1
	if c.CacheOn {
		c.Repeats = rapid.IntRange(2, 3).Draw(t, "repeats")
		// the log assertion counts entries of a single query
		c.WithLog = false
	}

	vals := vfC02FilterableValues(c.Answer)
	place := func(rule string, label string) {
		switch rapid.IntRange(0, 1).Draw(t, label+"_where") {
		case 0:
			c.Block = append(c.Block, rule)
		default:
			c.Custom = append(c.Custom, rule)
		}
	}

	// planted offending record(s)
	if len(vals) > 0 {
		np := rapid.SampledFrom([]int{0, 1, 1, 1, 2}).Draw(t, "n_planted")
		for i := 0; i < np; i++ {
			v := rapid.SampledFrom(vals).Draw(t, fmt.Sprintf("planted%d", i))
			rule := "||" + v + "^"
			switch rapid.IntRange(0, 6).Draw(t, fmt.Sprintf("planted%d_mod", i)) {
			case 6:
				// a hosts-file line, with the addresses such lists use
				if net.ParseIP(v) == nil {
					rule = rapid.SampledFrom([]string{"127.0.0.1 ", "0.0.0.0 ", "::1 ", "10.9.8.7 ", ""}).Draw(t, fmt.Sprintf("planted%d_hosts_ip", i)) + v
					vfC02.Class("rule:hosts_style_on_answer_value")
				}
			case 0:
				rule += "$important"
			case 1:
				rule += "$dnstype=" + rapid.SampledFrom([]string{"A", "AAAA", "CNAME", "HTTPS", "~A", "~CNAME", "~HTTPS"}).Draw(t, fmt.Sprintf("planted%d_dnstype", i))
			case 2:
				// a parent domain / covering form for names
				if !strings.ContainsAny(v, ":") && strings.Count(v, ".") >= 2 && net.ParseIP(v) == nil {
					rule = "||" + v[strings.IndexByte(v, '.')+1:] + "^"
				}
			}
			place(rule, fmt.Sprintf("planted%d", i))
			c.Planted += rule + " "
			// optional override for that same value
			switch rapid.IntRange(0, 5).Draw(t, fmt.Sprintf("override%d", i)) {
			case 0:
				place("@@||"+v+"^", fmt.Sprintf("override%d", i))
			case 1:
				c.Allow = append(c.Allow, "||"+v+"^")
			case 2:
				place("@@||"+v+"^$important", fmt.Sprintf("override%d", i))
			}
		}
	}
	// unrelated rules
	nu := rapid.IntRange(0, 3).Draw(t, "n_unrelated")
	for i := 0; i < nu; i++ {
		d := vfDrawDomain(t, fmt.Sprintf("unrel%d", i))
		place(rapid.SampledFrom([]string{"||zz-" + d + "^", "9.9.9.9 zz-" + d, "||198.51.100.200^", "@@||zz-" + d + "^"}).Draw(t, fmt.Sprintf("unrel%d_rule", i)), fmt.Sprintf("unrel%d", i))
	}

	if rapid.IntRange(0, 8).Draw(t, "query_allowlisted") == 0 {
		name := strings.ToLower(strings.TrimSuffix(c.Qname, "."))
		if rapid.Bool().Draw(t, "query_allow_in_list") {
			c.QueryAllowed = "||" + name + "^"
			c.Allow = append(c.Allow, c.QueryAllowed)
		} else {
			c.QueryAllowed = "@@||" + name + "^"
			c.Custom = append(c.Custom, c.QueryAllowed)
		}
	}

	return c
}

func (c *vfC02Conf) describe() (m map[string]any) {
	return map[string]any{
		"query": fmt.Sprintf("%s %s", c.Qname, dns.Type(c.Qtype)), "upstream_answer": vfRRStrings(vfC02RRs(c.Answer)),
		"block_list": c.Block, "allow_list": c.Allow, "custom": c.Custom, "mode": c.Mode, "protection": c.Protection,
		"filtering": c.FilteringOn, "aaaa_disabled": c.AAAAOff, "client_filtering_off": c.ClientOff,
		"query_allowlisted_by": c.QueryAllowed, "upstream_rcode": dns.RcodeToString[c.UpRcode],
	}
}

func vfC02RRs(rrs []vfC02RR) (out []dns.RR) {
	for _, r := range rrs {
		out = append(out, dns.Copy(r.RR))
	}

	return out
}

// vfC02Expect computes the expectation with the reference arrangement: is the
// answer replaced, and by the match of which value.
func vfC02Expect(c *vfC02Conf) (blocked bool, why string, ambiguous bool) {
	if c.Qtype == dns.TypeAAAA && c.AAAAOff {
		return false, "aaaa_disabled_local", false
	}
	if !c.Protection {
		return false, "gate:protection_off", false
	}
	if !c.FilteringOn || c.ClientOff {
		return false, "gate:filtering_off", false
	}

	var al, bl [][]string
	al = append(al, c.Allow)
	bl = append(bl, c.Custom, c.Block)
	allowEng := vfEngine(al, []int{200})
	blockEng := vfEngine(bl, []int{0, 100})
	addr := netip.MustParseAddr("198.18.0.77")

	check := func(host string, rrtype uint16) (filtered bool, allowed bool) {
		req := &urlfilter.DNSRequest{Hostname: strings.ToLower(host), DNSType: rrtype, ClientIP: addr}
		if _, ok := allowEng.MatchRequest(req); ok {
			return false, true
		}
		res, ok := blockEng.MatchRequest(req)
		if !ok {
			return false, false
		}
		if res.NetworkRule != nil {
			return !res.NetworkRule.Whitelist, res.NetworkRule.Whitelist
		}

		return len(res.HostRulesV4)+len(res.HostRulesV6) > 0, false
	}

	// request stage: is the queried name itself allowed or blocked?
	qn := strings.TrimSuffix(c.Qname, ".")
	if f, a := check(qn, c.Qtype); a {
		return false, "gate:query_allowlisted", false
	} else if f {
		return true, "query_itself_blocked", false
	}

	for _, r := range c.Answer {
		var rrtype uint16
		switch r.Kind {
		case "cname":
			rrtype = dns.TypeCNAME
		case "a":
			rrtype = dns.TypeA
		case "aaaa":
			rrtype = dns.TypeAAAA
		case "https":
			rrtype = dns.TypeHTTPS
		default:
			continue
		}
		for i, v := range r.Values {
			if r.Kind == "https" && r.V6Hint[i] && c.AAAAOff {
				// stripped before matching
				continue
			}
			if f, _ := check(v, rrtype); f {
				return true, "rr:" + r.Kind, false
			}
		}
	}

	return false, "clean", false
}

func vfC02World(c *vfC02Conf, reg func(method, url string, h http.HandlerFunc)) (wc *vfWorldConf) {
	wc = &vfWorldConf{
		Mode: c.Mode, BlockingIPv4: c.V4, BlockingIPv6: c.V6, BlockedTTL: c.TTL,
		ProtectionEnabled: c.Protection, FilteringEnabled: c.FilteringOn, AAAADisabled: c.AAAAOff,
		UserRules:  c.Custom,
		BlockLists: []vfListConf{{Rules: append([]string{"! block"}, c.Block...), Enabled: true}},
		AllowLists: []vfListConf{{Rules: append([]string{"! allow"}, c.Allow...), Enabled: true}},
	}
	if c.CacheOn {
		wc.CacheSize = 1 << 20
	}
	if c.ClientOff {
		wc.Clients = []*client.Persistent{{
			Name: "nofilter", UID: client.MustNewUID(), IPs: []netip.Addr{netip.MustParseAddr("198.18.0.77")},
			UseOwnSettings: true, FilteringEnabled: false,
			BlockedServices: &filtering.BlockedServices{Schedule: vfEmptyWeek()},
		}}
	}
	if c.WithLog {
		wc.WithLogStats = true
		wc.QLogSentinel = true
		wc.QLogMemSize = 100
		wc.HTTPRegister = reg
	}

	return wc
}

// vfStripV6Hints returns a copy of rrs with ipv6hint values removed.
func vfStripV6Hints(rrs []dns.RR) (out []dns.RR) {
	for _, rr := range rrs {
		rr = dns.Copy(rr)
		if h, ok := rr.(*dns.HTTPS); ok {
			var vals []dns.SVCBKeyValue
			for _, kv := range h.Value {
				if _, is6 := kv.(*dns.SVCBIPv6Hint); !is6 {
					vals = append(vals, kv)
				}
			}
			h.Value = vals
		}
		out = append(out, rr)
	}

	return out
}

func TestVFC02Response(t *testing.T) {
	vfkit.Begin(t)
	rapid.Check(t, func(t *rapid.T) {
		c := vfDrawC02Conf(t)
		handlers := map[string]http.HandlerFunc{}
		w, err := vfNewWorld(vfC02World(c, func(method, url string, h http.HandlerFunc) { handlers[method+" "+url] = h }))
		if err != nil {
			t.Fatalf("VERIF-INCONCLUSIVE world: %v\n%v", err, c.describe())
		}
		defer w.close()
		if c.WithLog {
			if serr := w.qlog.Start(context.Background()); serr != nil {
				t.Fatalf("VERIF-INCONCLUSIVE qlog start: %v", serr)
			}
		}

		upstreamRRs := vfC02RRs(c.Answer)
		w.ups.answer = func(req *dns.Msg) (resp *dns.Msg) {
			resp = (&dns.Msg{}).SetReply(req)
			resp.RecursionAvailable = true
			resp.Answer = vfC02RRs(c.Answer)
			resp.Rcode = c.UpRcode

			return resp
		}

		blocked, why, _ := vfC02Expect(c)
		q := &vfC01Query{vfQuery: vfQuery{
			Name: c.Qname, Qtype: c.Qtype, Addr: netip.MustParseAddrPort("198.18.0.77:5353"), Proto: proxy.ProtoUDP,
		}}
		var o *vfOutcome
		for rep := 0; rep < c.Repeats; rep++ {
			o = w.run(q.vfQuery)
			vfC02CheckOne(t, c, q, o, blocked, why, upstreamRRs, rep)
		}
		if c.CacheOn {
			vfC02.Class("cache_on")
		}

		if c.WithLog && why != "aaaa_disabled_local" && why != "query_itself_blocked" {
			vfC02CheckLog(t, c, handlers, blocked, o, upstreamRRs)
		}
	})
}

// vfC02CheckOne judges one response of a case; rep > 0 are repetitions that the
// DNS cache may answer.
func vfC02CheckOne(t *rapid.T, c *vfC02Conf, q *vfC01Query, o *vfOutcome, blocked bool, why string, upstreamRRs []dns.RR, rep int) {
	wantAsked := 1
	if rep > 0 {
		// a repetition may be served from the cache
		wantAsked = len(o.Asked)
		if wantAsked > 1 {
			t.Fatalf("upstream asked %d times for one query", wantAsked)
		}
	}
	_ = wantAsked

	vfC02.Eval()
	vfC02.Class("expect:" + why)
	vfC02.Class("mode:" + string(c.Mode))
	vfC02.Class("qtype:" + dns.Type(c.Qtype).String())
	nFilterable := len(vfC02FilterableValues(c.Answer))
	touched := c.Planted != ""
	if nFilterable > 0 && touched {
		first := -1
		for i, r := range c.Answer {
			if len(r.Values) > 0 && first < 0 {
				first = i
			}
		}
		kinds := ""
		for _, r := range c.Answer {
			kinds += r.Kind[:1]
		}
		vfC02.Nontrivial(fmt.Sprintf("%s|%s|%s|%s|aaaaoff=%t|%s", why, kinds, dns.Type(c.Qtype), c.Mode, c.AAAAOff, c.Planted))
		vfC02.Class("nontrivial")
	}
	if vfC02.WantSample(why) {
		s := c.describe()
		s["expected"] = why
		if o.Res != nil {
			s["reply_rcode"] = dns.RcodeToString[o.Res.Rcode]
			s["reply_answer"] = vfRRStrings(o.Res.Answer)
		}
		vfC02.Sample(why, s)
	}

	fail := func(format string, args ...any) {
		t.Fatalf("%s\nexpected: %s (blocked=%t)\ncase: %v\nreply: %v", fmt.Sprintf(format, args...), why, blocked, c.describe(), o.Res)
	}

	if o.Err != nil || o.BeforeErr != nil || o.Res == nil {
		fail("request failed: before=%v err=%v", o.BeforeErr, o.Err)
	}

	cc := &vfC01Conf{Mode: c.Mode, V4: c.V4, V6: c.V6, TTL: c.TTL}
	switch {
	case why == "aaaa_disabled_local":
		if len(o.Asked) != 0 || len(o.Res.Answer) != 0 || o.Res.Rcode != dns.RcodeSuccess {
			fail("AAAA disabled: expected local empty NOERROR, upstream asked %v", o.Asked)
		}

		return
	case why == "query_itself_blocked":
		if cerr := vfCheckBlocked(cc, q, vfVerdict{Blocked: true, Why: "network"}, o); cerr != nil {
			fail("%v", cerr)
		}

		return
	case blocked:
		// upstream was asked (once), but nothing of its answer is delivered
		if len(o.Asked) != wantAsked {
			fail("expected %d upstream question(s), saw %v", wantAsked, o.Asked)
		}
		o2 := *o
		o2.Asked = nil
		if cerr := vfCheckBlockedResponse(cc, q, &o2, upstreamRRs); cerr != nil {
			fail("%v", cerr)
		}
	default:
		if len(o.Asked) != wantAsked {
			fail("expected %d upstream question(s), saw %v", wantAsked, o.Asked)
		}
		want := upstreamRRs
		if c.AAAAOff && c.Protection && c.FilteringOn && !c.ClientOff && why == "clean" {
			want = vfStripV6Hints(want)
		}
		got := vfWireStrings(o.Res.Answer)
		exp := vfWireStrings(want)
		if c.CacheOn {
			// answers served from the cache carry aged TTLs
			got, exp = vfDropTTL(o.Res.Answer), vfDropTTL(want)
		}
		if strings.Join(got, "\n") != strings.Join(exp, "\n") {
			// where response filtering is not applicable (protection or
			// filtering off, allow-listed name) "unchanged" includes the
			// ipv6hint values, AAAA disabled or not
			fail("answer not delivered unchanged: got %q want %q", got, exp)
		}
		if o.Res.Rcode != c.UpRcode || len(o.Res.Question) != 1 || o.Res.Question[0] != o.Req.Question[0] {
			fail("rcode/question changed")
		}
	}

}

// vfCheckBlockedResponse is vfCheckBlocked plus: no record of the upstream
// answer may appear in the reply.
func vfCheckBlockedResponse(cc *vfC01Conf, q *vfC01Query, o *vfOutcome, upstreamRRs []dns.RR) (err error) {
	err = vfCheckBlocked(cc, q, vfVerdict{Blocked: true, Why: "network"}, o)
	if err != nil {
		return err
	}
	up := map[string]bool{}
	for _, rs := range vfDropTTL(upstreamRRs) {
		up[rs] = true
	}
	for _, rr := range o.Res.Answer {
		// the unspecified address is also what the blocking modes answer with:
		// such a record has just been judged to be the synthetic one
		if a, ok := rr.(*dns.A); ok && a.A.IsUnspecified() {
			continue
		} else if a6, ok6 := rr.(*dns.AAAA); ok6 && a6.AAAA.IsUnspecified() {
			continue
		}
		if up[vfDropTTL([]dns.RR{rr})[0]] {
			return fmt.Errorf("upstream record delivered in a blocked reply: %s", rr)
		}
	}

	return nil
}

// vfC02CheckLog reads the newest query-log entry through the HTTP API.
func vfC02CheckLog(t *rapid.T, c *vfC02Conf, handlers map[string]http.HandlerFunc, blocked bool, o *vfOutcome, upstreamRRs []dns.RR) {
	h := handlers["GET /control/querylog"]
	if h == nil {
		t.Fatalf("VERIF-INCONCLUSIVE querylog handler not registered")
	}
	rec := httptest.NewRecorder()
	h(rec, httptest.NewRequest(http.MethodGet, "/control/querylog?limit=5", nil))
	if rec.Code != http.StatusOK {
		t.Fatalf("querylog API status %d: %s", rec.Code, rec.Body.String())
	}
	var doc struct {
		Data []struct {
			Answer     []map[string]any `json:"answer"`
			OrigAnswer []map[string]any `json:"original_answer"`
			Reason     string           `json:"reason"`
			Question   map[string]any   `json:"question"`
		} `json:"data"`
	}
	if err := json.Unmarshal(rec.Body.Bytes(), &doc); err != nil {
		t.Fatalf("querylog API: bad json: %v", err)
	}
	data := doc.Data[:0]
	for _, d := range doc.Data {
		if name, _ := d.Question["name"].(string); name != vfSentinelHost {
			data = append(data, d)
		}
	}
	doc.Data = data
	if len(doc.Data) != 1 {
		t.Fatalf("querylog: %d entries after one query, want 1: %s", len(doc.Data), rec.Body.String())
	}
	e := doc.Data[0]
	vfC02.Class("log_checked")
	if blocked {
		if e.Reason != "FilteredBlackList" {
			t.Fatalf("querylog: reason %q for a response-blocked query, want FilteredBlackList\ncase: %v", e.Reason, c.describe())
		}
		nFilterable := 0
		for _, rr := range upstreamRRs {
			switch rr.(type) {
			case *dns.A, *dns.AAAA, *dns.CNAME, *dns.TXT, *dns.MX, *dns.NS, *dns.HTTPS:
				nFilterable++
			}
		}
		if len(e.OrigAnswer) == 0 {
			t.Fatalf("querylog: original_answer missing for a response-blocked query\ncase: %v\nentry: %s", c.describe(), rec.Body.String())
		}
		if len(e.Answer) != len(o.Res.Answer) {
			t.Fatalf("querylog: answer has %d records, client got %d", len(e.Answer), len(o.Res.Answer))
		}
	} else {
		if len(e.OrigAnswer) != 0 {
			t.Fatalf("querylog: original_answer present for an unfiltered query: %s", rec.Body.String())
		}
	}
}
