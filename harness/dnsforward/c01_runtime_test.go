//go:build verif

package dnsforward

// C01 (run-time changes): the verdict follows the configuration in force after
// it was changed through the admin API -- a list switched off and on again, new
// custom rules, filtering or protection toggled, another blocking mode, other
// blocked services.  Rule engines are rebuilt in the background after such a
// change, so a deviating outcome is retried for a few seconds before it counts.

import (
	"bytes"
	"context"
	"encoding/json"
	"fmt"
	"net/http"
	"net/http/httptest"
	"net/netip"
	"os"
	"path/filepath"
	"slices"
	"strings"
	"testing"
	"time"

	"github.com/AdguardTeam/AdGuardHome/internal/client"
	"github.com/AdguardTeam/AdGuardHome/internal/filtering"
	"github.com/AdguardTeam/AdGuardHome/internal/vfkit"
	"pgregory.net/rapid"
)

// vfC01Settle is how long a deviating outcome is retried after a change.
const vfC01Settle = 20 * time.Second

func TestVFC01Runtime(t *testing.T) {
	vfkit.Begin(t)
	rapid.Check(t, func(t *rapid.T) {
		c := vfDrawC01Conf(t)
		// protection states that depend on a stored instant stay with
		// TestVFC01Verdict; here the API sets the state
		if c.Protection != "on" && c.Protection != "off" {
			c.Protection = "on"
		}
		c.CacheOn = rapid.Bool().Draw(t, "dns_cache")
		if c.CacheOn {
			vfC01.Class("rt:dns_cache_on")
		}
		handlers := map[string]http.HandlerFunc{}
		wc := c.world()
		if c.Client != nil {
			// a second client, never the source of a query, for updates that
			// must be rejected because they would share its identifier
			wc.Clients = append(wc.Clients, &client.Persistent{
				Name: "printer", UID: client.MustNewUID(), IPs: []netip.Addr{netip.MustParseAddr("203.0.113.99")},
				BlockedServices: &filtering.BlockedServices{Schedule: vfEmptyWeek()},
			})
		}
		wc.LocalListURLs = true
		wc.HTTPRegister = func(method, url string, h http.HandlerFunc) { handlers[method+" "+url] = h }
		webRegistered = false
		w, err := vfNewWorld(wc)
		if err != nil {
			t.Fatalf("VERIF-INCONCLUSIVE world: %v\n%v", err, c.describe())
		}
		defer w.close()
		w.flt.Start()
		ctx := context.Background()

		call := func(method, path string, body any) {
			h := handlers[method+" "+path]
			if h == nil {
				t.Fatalf("VERIF-INCONCLUSIVE no handler %s %s", method, path)
			}
			b, _ := json.Marshal(body)
			rec := httptest.NewRecorder()
			h(rec, httptest.NewRequest(method, path, bytes.NewReader(b)))
			if rec.Code != http.StatusOK {
				t.Fatalf("%s %s %s refused: %d %s\nconfig: %v", method, path, b, rec.Code, rec.Body.String(), c.describe())
			}
		}

		// what the source of every list holds; the list itself (c.Block,
		// c.Allow) follows when it is refreshed, switched on or re-pointed
		srcBlock, srcAllow := slices.Clone(c.Block), slices.Clone(c.Allow)
		// refresh is what POST /control/filtering/refresh does: every enabled
		// list of the kind is read from its source again
		refresh := func(allow bool) {
			call(http.MethodPost, "/control/filtering/refresh", map[string]any{"whitelist": allow})
			lists, src, on := c.Block, srcBlock, c.BlockOn
			if allow {
				lists, src, on = c.Allow, srcAllow, c.AllowOn
			}
			for i := range lists {
				if !on[i] {
					continue
				}
				if !vfSameRules(lists[i], src[i]) {
					vfC01.Class(fmt.Sprintf("rt:refresh_changes_list:rules=%d", len(src[i])))
				}
				lists[i] = src[i]
			}
		}

		vfC01Case(t, c, w, w.run, rapid.IntRange(2, 8).Draw(t, "n_queries_before"), "rt0:")

		nPhases := rapid.IntRange(1, 4).Draw(t, "n_phases")
		lastToggled := ""
		repoints := 0
		for ph := 1; ph <= nPhases; ph++ {
			nOps := rapid.IntRange(1, 2).Draw(t, fmt.Sprintf("p%d_n_ops", ph))
			for k := 0; k < nOps; k++ {
				label := fmt.Sprintf("p%d_op%d", ph, k)
				kinds := []string{"set_rules", "filtering_config", "protection", "protection", "mode", "services", "add_list"}
				if len(c.Block)+len(c.Allow) > 0 {
					kinds = append(kinds, "remove_list")
				}
				if c.Protection == "paused_future" {
					kinds = append(kinds, "protection", "protection", "protection")
				}
				if len(c.Block) > 0 {
					kinds = append(kinds, "toggle_block", "toggle_block", "toggle_block", "repoint_block", "rewrite_source", "refresh")
				}
				if len(c.Allow) > 0 {
					kinds = append(kinds, "toggle_allow", "toggle_allow", "rewrite_source", "refresh", "repoint_allow")
				}
				if c.Client != nil {
					kinds = append(kinds, "client_update", "client_update_rejected")
				}
				kind := rapid.SampledFrom(kinds).Draw(t, label+"_kind")
				vfC01.Class("rt:op:" + kind)
				switch kind {
				case "toggle_block", "toggle_allow":
					urls, on, allow := w.blockURLs, c.BlockOn, false
					if kind == "toggle_allow" {
						urls, on, allow = w.allowURLs, c.AllowOn, true
					}
					i := rapid.IntRange(0, len(urls)-1).Draw(t, label+"_list")
					on[i] = !on[i]
					call(http.MethodPost, "/control/filtering/set_url", map[string]any{
						"url": urls[i], "whitelist": allow,
						"data": map[string]any{"name": fmt.Sprintf("list %d", i), "url": urls[i], "enabled": on[i]},
					})
					id := fmt.Sprintf("%s#%d", kind, i)
					if on[i] && lastToggled == id {
						vfC01.Class("rt:list_off_then_on_again")
					}
					lastToggled = id
					if !on[i] {
						// remember: the next toggle of the same list re-enables it
						continue
					}
					// a list that is switched on is read from its source again
					if allow {
						if !vfSameRules(c.Allow[i], srcAllow[i]) {
							vfC01.Class("rt:list_on_with_changed_source")
						}
						c.Allow[i] = srcAllow[i]
					} else {
						if !vfSameRules(c.Block[i], srcBlock[i]) {
							vfC01.Class("rt:list_on_with_changed_source")
						}
						c.Block[i] = srcBlock[i]
					}
				case "rewrite_source":
					// the publisher of a list changes it; nothing happens to the
					// verdicts until the list is read again
					allow := len(c.Block) == 0 || (len(c.Allow) > 0 && rapid.Bool().Draw(t, label+"_allowlist"))
					urls, src := w.blockURLs, srcBlock
					if allow {
						urls, src = w.allowURLs, srcAllow
					}
					i := rapid.IntRange(0, len(urls)-1).Draw(t, label+"_list")
					nr := rapid.SampledFrom([]int{0, 1, 2, 3}).Draw(t, label+"_n_rules")
					var rs []vfRule
					for j := 0; j < nr; j++ {
						rs = append(rs, vfDrawRule(t, c.Subjects, fmt.Sprintf("%s_r%d", label, j), allow, c.Client, c.Core))
					}
					if werr := os.WriteFile(urls[i], []byte(strings.Join(vfTexts(rs), "\n")+"\n"), 0o644); werr != nil {
						t.Fatalf("VERIF-INCONCLUSIVE writing list source: %v", werr)
					}
					for _, r := range src[i] {
						c.focus = append(c.focus, r.Domain)
					}
					src[i] = rs
					vfC01.Class(fmt.Sprintf("rt:rewrite_source:rules=%d", nr))
					if rapid.IntRange(0, 2).Draw(t, label+"_then_refresh") > 0 {
						refresh(allow)
					}
				case "refresh":
					refresh(len(c.Block) == 0 || (len(c.Allow) > 0 && rapid.Bool().Draw(t, label+"_allowlist")))
				case "repoint_block", "repoint_allow":
					// the list gets another source (a new URL) with other rules,
					// possibly none at all
					allow := kind == "repoint_allow"
					urls, lists, src, on := w.blockURLs, c.Block, srcBlock, c.BlockOn
					if allow {
						urls, lists, src, on = w.allowURLs, c.Allow, srcAllow, c.AllowOn
					}
					i := rapid.IntRange(0, len(urls)-1).Draw(t, label+"_list")
					nr := rapid.SampledFrom([]int{0, 0, 1, 2, 3}).Draw(t, label+"_n_rules")
					var rs []vfRule
					for j := 0; j < nr; j++ {
						rs = append(rs, vfDrawRule(t, c.Subjects, fmt.Sprintf("%s_r%d", label, j), allow, c.Client, c.Core))
					}
					repoints++
					newURL := filepath.Join(filepath.Dir(urls[i]), fmt.Sprintf("repointed-%d-%d.txt", i, repoints))
					if werr := os.WriteFile(newURL, []byte(strings.Join(vfTexts(rs), "\n")+"\n"), 0o644); werr != nil {
						t.Fatalf("VERIF-INCONCLUSIVE writing list source: %v", werr)
					}
					b, _ := json.Marshal(map[string]any{
						"url": urls[i], "whitelist": allow,
						"data": map[string]any{"name": fmt.Sprintf("list %d", i), "url": newURL, "enabled": on[i]},
					})
					rec := httptest.NewRecorder()
					handlers["POST /control/filtering/set_url"](rec, httptest.NewRequest(http.MethodPost, "/control/filtering/set_url", bytes.NewReader(b)))
					if rec.Code == http.StatusOK {
						// the names of the rules that have gone are worth asking for
						c.focus = nil
						for _, r := range lists[i] {
							c.focus = append(c.focus, r.Domain)
						}
						// a list that is switched off is read when it is switched on
						src[i] = rs
						if on[i] {
							lists[i] = rs
						}
						urls[i] = newURL
						vfC01.Class(fmt.Sprintf("rt:%s:accepted:rules=%d", kind, nr))
						if !on[i] {
							vfC01.Class("rt:repoint_of_disabled_list")
						}
					} else {
						// a refused edit leaves the list as it was
						vfC01.Class("rt:" + kind + ":refused")
					}
					lastToggled = ""
				case "add_list":
					// a new list, switched on at once; a source without rules is
					// refused
					allow := rapid.IntRange(0, 2).Draw(t, label+"_allowlist") == 0
					nr := rapid.SampledFrom([]int{0, 1, 1, 2, 3}).Draw(t, label+"_n_rules")
					var rs []vfRule
					for j := 0; j < nr; j++ {
						rs = append(rs, vfDrawRule(t, c.Subjects, fmt.Sprintf("%s_r%d", label, j), allow, c.Client, c.Core))
					}
					repoints++
					newURL := filepath.Join(w.dir, "src", fmt.Sprintf("added-%d.txt", repoints))
					werr := os.MkdirAll(filepath.Dir(newURL), 0o755)
					if werr == nil {
						werr = os.WriteFile(newURL, []byte(strings.Join(vfTexts(rs), "\n")+"\n"), 0o644)
					}
					if werr != nil {
						t.Fatalf("VERIF-INCONCLUSIVE writing list source: %v", werr)
					}
					b, _ := json.Marshal(map[string]any{"name": "added list", "url": newURL, "whitelist": allow})
					rec := httptest.NewRecorder()
					handlers["POST /control/filtering/add_url"](rec, httptest.NewRequest(http.MethodPost, "/control/filtering/add_url", bytes.NewReader(b)))
					switch {
					case rec.Code == http.StatusOK && nr == 0:
						t.Fatalf("a list without any rule was accepted by add_url: %s\nconfig: %v", rec.Body.String(), c.describe())
					case rec.Code == http.StatusOK && allow:
						c.Allow, c.AllowOn, srcAllow, w.allowURLs = append(c.Allow, rs), append(c.AllowOn, true), append(srcAllow, rs), append(w.allowURLs, newURL)
					case rec.Code == http.StatusOK:
						c.Block, c.BlockOn, srcBlock, w.blockURLs = append(c.Block, rs), append(c.BlockOn, true), append(srcBlock, rs), append(w.blockURLs, newURL)
					case nr > 0:
						t.Fatalf("add_url of a list with %d rules refused: %d %s\nconfig: %v", nr, rec.Code, rec.Body.String(), c.describe())
					}
					vfC01.Class(fmt.Sprintf("rt:add_list:allow=%t:accepted=%t", allow, rec.Code == http.StatusOK))
				case "remove_list":
					allow := len(c.Block) == 0 || (len(c.Allow) > 0 && rapid.Bool().Draw(t, label+"_allowlist"))
					urls := w.blockURLs
					if allow {
						urls = w.allowURLs
					}
					i := rapid.IntRange(0, len(urls)-1).Draw(t, label+"_list")
					call(http.MethodPost, "/control/filtering/remove_url", map[string]any{"url": urls[i], "whitelist": allow})
					if allow {
						for _, r := range c.Allow[i] {
							c.focus = append(c.focus, r.Domain)
						}
						c.Allow, c.AllowOn, srcAllow, w.allowURLs = slices.Delete(slices.Clone(c.Allow), i, i+1), slices.Delete(c.AllowOn, i, i+1), slices.Delete(srcAllow, i, i+1), slices.Delete(w.allowURLs, i, i+1)
					} else {
						for _, r := range c.Block[i] {
							c.focus = append(c.focus, r.Domain)
						}
						c.Block, c.BlockOn, srcBlock, w.blockURLs = slices.Delete(slices.Clone(c.Block), i, i+1), slices.Delete(c.BlockOn, i, i+1), slices.Delete(srcBlock, i, i+1), slices.Delete(w.blockURLs, i, i+1)
					}
					vfC01.Class(fmt.Sprintf("rt:remove_list:allow=%t", allow))
				case "client_update", "client_update_rejected":
					// what POST /control/clients/update does with the registry
					prev, ok := w.storage.FindByName(c.Client.Name)
					if !ok {
						t.Fatalf("the client %q is not in the registry any more\nconfig: %v", c.Client.Name, c.describe())
					}
					upd := prev.ShallowClone()
					if kind == "client_update" {
						c.Client.OwnSettings = rapid.Bool().Draw(t, label+"_ownsettings")
						c.Client.FilteringOn = rapid.Bool().Draw(t, label+"_filtering")
						upd.UseOwnSettings, upd.FilteringEnabled = c.Client.OwnSettings, c.Client.FilteringOn
						if uerr := w.storage.Update(ctx, c.Client.Name, upd); uerr != nil {
							t.Fatalf("updating the settings of client %q was refused: %v", c.Client.Name, uerr)
						}
					} else {
						// would share the printer's address (or its name)
						if rapid.Bool().Draw(t, label+"_clash_name") {
							upd.Name = "printer"
						} else {
							upd.IPs = append(slices.Clone(upd.IPs), netip.MustParseAddr("203.0.113.99"))
						}
						if uerr := w.storage.Update(ctx, c.Client.Name, upd); uerr == nil {
							t.Fatalf("an update of client %q that shares the name or address of another client was accepted", c.Client.Name)
						}
					}
				case "set_rules":
					n := rapid.IntRange(0, 4).Draw(t, label+"_n")
					c.Custom = nil
					for j := 0; j < n; j++ {
						c.Custom = append(c.Custom, vfDrawRule(t, c.Subjects, fmt.Sprintf("%s_r%d", label, j), false, c.Client, c.Core))
					}
					rules := vfTexts(c.Custom)[1:]
					if rules == nil {
						rules = []string{}
					}
					call(http.MethodPost, "/control/filtering/set_rules", map[string]any{"rules": rules})
				case "filtering_config":
					c.FilteringOn = !c.FilteringOn
					call(http.MethodPost, "/control/filtering/config", map[string]any{"enabled": c.FilteringOn, "interval": 24})
				case "protection":
					if rapid.IntRange(0, 2).Draw(t, label+"_via_dns_config") == 0 || (c.Protection == "paused_future" && rapid.Bool().Draw(t, label+"_end_pause_via_dns_config")) {
						if c.Protection == "paused_future" {
							vfC01.Class("rt:protection_set_via_dns_config_during_pause")
						}
						// the general settings call sets the switch as well; an
						// explicit value ends a pause
						on := rapid.Bool().Draw(t, label+"_enabled")
						c.Protection = map[bool]string{true: "on", false: "off"}[on]
						call(http.MethodPost, "/control/dns_config", map[string]any{"protection_enabled": on})
						vfC01.Class("rt:protection_via_dns_config")

						break
					}
					switch rapid.SampledFrom([]string{"on", "off", "paused_future", "paused_future"}).Draw(t, label+"_state") {
					case "on":
						c.Protection = "on"
						call(http.MethodPost, "/control/protection", map[string]any{"enabled": true})
					case "off":
						c.Protection = "off"
						call(http.MethodPost, "/control/protection", map[string]any{"enabled": false})
					default:
						c.Protection = "paused_future"
						call(http.MethodPost, "/control/protection", map[string]any{"enabled": false, "duration": 6 * 3600 * 1000})
					}
				case "mode":
					c.Mode = rapid.SampledFrom([]filtering.BlockingMode{
						filtering.BlockingModeDefault, filtering.BlockingModeNullIP, filtering.BlockingModeCustomIP,
						filtering.BlockingModeNXDOMAIN, filtering.BlockingModeREFUSED,
					}).Draw(t, label+"_mode")
					body := map[string]any{"blocking_mode": c.Mode}
					if c.Mode == filtering.BlockingModeCustomIP {
						c.V4 = netip.MustParseAddr(rapid.SampledFrom([]string{"203.0.113.7", "10.1.1.1"}).Draw(t, label+"_v4"))
						c.V6 = netip.MustParseAddr(rapid.SampledFrom([]string{"2001:db8:b10c::1", "::1"}).Draw(t, label+"_v6"))
						body["blocking_ipv4"], body["blocking_ipv6"] = c.V4, c.V6
					}
					call(http.MethodPost, "/control/dns_config", body)
				default:
					c.ServiceIDs = rapid.SliceOfNDistinct(rapid.SampledFrom(vfServiceIDs), 0, 2, rapid.ID[string]).Draw(t, label+"_services")
					c.SvcPaused = rapid.Bool().Draw(t, label+"_paused")
					ids := c.ServiceIDs
					if ids == nil {
						ids = []string{}
					}
					call(http.MethodPut, "/control/blocked_services/update", map[string]any{
						"ids": ids, "schedule": vfWeekIn("UTC", c.SvcPaused),
					})
				}
				if kind != "toggle_block" && kind != "toggle_allow" {
					lastToggled = ""
				}
			}
			vfC01CaseSettle(t, c, w, w.run, rapid.IntRange(3, 10).Draw(t, fmt.Sprintf("p%d_n_queries", ph)), "rt:", vfC01Settle)
		}
	})
}

// vfSameRules reports whether two rule lists have the same texts in order.
func vfSameRules(a, b []vfRule) (ok bool) {
	return slices.EqualFunc(a, b, func(x, y vfRule) bool { return x.Text == y.Text })
}
