//go:build verif

package dnsforward

// C03: access lists.  A request from an excluded client, or for a blocked host,
// is never processed: UDP/DNSCrypt get nothing, other transports REFUSED.  Allow
// list non-empty => admitted iff address or ClientID allowed; else excluded iff
// address or ClientID disallowed.

import (
	"bytes"
	"context"
	"encoding/json"
	"errors"
	"fmt"
	"net"
	"net/http"
	"net/http/httptest"
	"net/netip"
	"os"
	"path/filepath"
	"strings"
	"testing"
	"time"

	"github.com/AdguardTeam/AdGuardHome/internal/vfkit"
	"github.com/AdguardTeam/dnsproxy/proxy"
	"github.com/AdguardTeam/dnsproxy/upstream"
	"github.com/miekg/dns"
	"pgregory.net/rapid"
)

var vfC03 = vfkit.For("C03")

// errVFC03Retried ends a wire case in which a request had to be re-sent.
var errVFC03Retried = errors.New("retried")

var (
	vfC03Addrs = []string{
		"192.0.2.10", "192.0.2.11", "192.0.2.200", "198.51.100.5", "10.1.2.3", "127.0.0.1",
		"2001:db8::1", "2001:db8::2", "2001:db8:1::1", "fe80::1", "::1",
	}
	// vfC03MappedEntries are list entries spelled as IPv4-mapped IPv6 addresses
	// (what a dual-stack reverse proxy reports): the same client as the IPv4 form.
	vfC03MappedEntries = []string{"::ffff:192.0.2.10", "::ffff:10.1.2.3"}
	vfC03Nets          = []string{
		"192.0.2.0/24", "192.0.2.8/29", "192.0.2.10/32", "192.0.2.10/31", "0.0.0.0/0", "10.0.0.0/8", "198.51.100.0/30",
		"2001:db8::/32", "2001:db8::/127", "2001:db8::1/128", "::/0", "fe80::/10", "128.0.0.0/1", "0.0.0.0/1",
		// networks of IPv4 clients spelled in the IPv4-mapped form
		"::ffff:192.0.2.0/120", "::ffff:10.0.0.0/104",
	}
	vfC03IDs    = []string{"alice", "bob", "kid-1", "x", "Kids-Tablet"}
	vfC03Protos = []proxy.Proto{proxy.ProtoUDP, proxy.ProtoTCP, proxy.ProtoTLS, proxy.ProtoHTTPS, proxy.ProtoQUIC, proxy.ProtoDNSCrypt}
)

const vfC03ServerName = "dns.vf.test"

// vfC03Lists are generated access settings.
type vfC03Lists struct {
	Allowed      []string `json:"allowed_clients"`
	Disallowed   []string `json:"disallowed_clients"`
	BlockedHosts []string `json:"blocked_hosts"`
	// hostRules keeps the structured form of BlockedHosts for the oracle.
	hostRules []vfC03HostRule
	// defaultsAdopted are the default blocked hosts the server has put in
	// place of an empty list (as its API reports).
	defaultsAdopted []string
}

// vfC03HostRule is a blocked-host pattern of the core grammar.
type vfC03HostRule struct {
	Kind   string // exact | domain | wildcard | pipe
	Domain string
	// Dnstype, if non-zero, restricts the rule to that query type.
	Dnstype uint16
}

func vfC03DrawEntries(t *rapid.T, label string, exclude map[string]bool) (es []string) {
	n := rapid.IntRange(0, 4).Draw(t, label+"_n")
	for i := 0; i < n; i++ {
		var e string
		switch rapid.IntRange(0, 2).Draw(t, fmt.Sprintf("%s_%d_kind", label, i)) {
		case 0:
			e = rapid.SampledFrom(append(append([]string{}, vfC03Addrs...), vfC03MappedEntries...)).Draw(t, fmt.Sprintf("%s_%d_addr", label, i))
		case 1:
			e = rapid.SampledFrom(vfC03Nets).Draw(t, fmt.Sprintf("%s_%d_net", label, i))
		default:
			e = rapid.SampledFrom(vfC03IDs).Draw(t, fmt.Sprintf("%s_%d_id", label, i))
		}
		if exclude[e] {
			continue
		}
		exclude[e] = true
		es = append(es, e)
	}

	return es
}

func vfC03DrawLists(t *rapid.T, label string) (l *vfC03Lists) {
	l = &vfC03Lists{}
	seen := map[string]bool{}
	switch rapid.IntRange(0, 3).Draw(t, label+"_shape") {
	case 0:
		// block-list mode only
		l.Disallowed = vfC03DrawEntries(t, label+"_dis", seen)
	case 1:
		l.Allowed = vfC03DrawEntries(t, label+"_al", seen)
	default:
		l.Allowed = vfC03DrawEntries(t, label+"_al", seen)
		l.Disallowed = vfC03DrawEntries(t, label+"_dis", seen)
	}

	nh := rapid.IntRange(0, 3).Draw(t, label+"_nhosts")
	hseen := map[string]bool{}
	for i := 0; i < nh; i++ {
		d := vfDrawDomain(t, fmt.Sprintf("%s_h%d", label, i))
		r := vfC03HostRule{Domain: d}
		r.Kind = rapid.SampledFrom([]string{"exact", "domain", "domain", "wildcard", "pipe", "regex_nondigit"}).Draw(t, fmt.Sprintf("%s_h%d_kind", label, i))
		var text string
		switch r.Kind {
		case "exact":
			text = d
			if rapid.IntRange(0, 3).Draw(t, fmt.Sprintf("%s_h%d_fqdn", label, i)) == 0 {
				// the same name, spelled fully qualified
				text += "."
				vfC03.Class("hosts:exact_name_with_final_dot")
			}
		case "domain":
			text = "||" + d + "^"
		case "wildcard":
			text = "*." + d
		case "regex_nondigit":
			// a regular expression with a class written in upper case: names
			// under d whose part in front of d holds no digit
			text = `/^\D+\.` + strings.ReplaceAll(d, ".", `\.`) + `$/`
		default:
			text = "|" + d + "^"
		}
		if r.Kind != "exact" && r.Kind != "regex_nondigit" && rapid.IntRange(0, 3).Draw(t, fmt.Sprintf("%s_h%d_dnstype", label, i)) == 0 {
			r.Dnstype = dns.TypeA
			text += "$dnstype=A"
		}
		if r.Kind != "regex_nondigit" && rapid.IntRange(0, 4).Draw(t, fmt.Sprintf("%s_h%d_upper", label, i)) == 0 && r.Dnstype == 0 {
			text = strings.ToUpper(text[:1]) + text[1:]
			if r.Kind == "exact" {
				text = strings.ToUpper(text)
			}
		}
		if hseen[strings.ToLower(text)] {
			continue
		}
		hseen[strings.ToLower(text)] = true
		l.BlockedHosts = append(l.BlockedHosts, text)
		l.hostRules = append(l.hostRules, r)
	}

	return l
}

// vfC03Req is a generated request.
type vfC03Req struct {
	Addr     netip.Addr
	ClientID string
	Proto    proxy.Proto
	Name     string
	Qtype    uint16
}

func vfC03DrawReq(t *rapid.T, l *vfC03Lists, label string) (r *vfC03Req) {
	r = &vfC03Req{}
	a := rapid.SampledFrom(vfC03Addrs).Draw(t, label+"_addr")
	r.Addr = netip.MustParseAddr(a)
	if r.Addr.Is6() && r.Addr.IsLinkLocalUnicast() && rapid.Bool().Draw(t, label+"_zoned") {
		r.Addr = r.Addr.WithZone("eth0")
	}
	r.Proto = rapid.SampledFrom(vfC03Protos).Draw(t, label+"_proto")
	if r.Proto == proxy.ProtoTLS || r.Proto == proxy.ProtoHTTPS || r.Proto == proxy.ProtoQUIC {
		if rapid.IntRange(0, 2).Draw(t, label+"_hasid") > 0 {
			r.ClientID = rapid.SampledFrom(append([]string{"carol"}, vfC03IDs...)).Draw(t, label+"_id")
			if rapid.IntRange(0, 3).Draw(t, label+"_id_lower") == 0 {
				// the client spells it in lower case (the server folds case anyway)
				r.ClientID = strings.ToLower(r.ClientID)
			}
		}
	}
	if r.Proto == proxy.ProtoHTTPS && r.Addr.Is4() && rapid.IntRange(0, 3).Draw(t, label+"_mapped") == 0 {
		// DoH behind a trusted dual-stack reverse proxy: the client address
		// comes from a header in IPv4-mapped form
		r.Addr = netip.AddrFrom16(r.Addr.As16())
	}

	var subjects []string
	for _, h := range l.hostRules {
		subjects = append(subjects, h.Domain)
	}
	subjects = append(subjects, "free.example")
	name, _ := vfRelated(t, rapid.SampledFrom(subjects).Draw(t, label+"_subject"), label)
	if rapid.IntRange(0, 3).Draw(t, label+"_mixcase") == 0 {
		name = vfMixCase(t, name, label+"_casemask")
	}
	r.Name = name + "."
	r.Qtype = rapid.SampledFrom([]uint16{dns.TypeA, dns.TypeA, dns.TypeAAAA, dns.TypeTXT, dns.TypeHTTPS}).Draw(t, label+"_qtype")

	return r
}

// vfC03Model is the reference decision written from the statement.
type vfC03Model struct {
	allowedIPs, disIPs   []netip.Addr
	allowedNets, disNets []netip.Prefix
	allowedIDs, disIDs   []string
	hosts                []vfC03HostRule
}

func vfNewC03Model(l *vfC03Lists) (m *vfC03Model) {
	m = &vfC03Model{hosts: l.hostRules}
	split := func(es []string, ips *[]netip.Addr, nets *[]netip.Prefix, ids *[]string) {
		for _, e := range es {
			if ip, err := netip.ParseAddr(e); err == nil {
				*ips = append(*ips, ip)
			} else if p, perr := netip.ParsePrefix(e); perr == nil {
				if p.Addr().Is4In6() && p.Bits() >= 96 {
					// the IPv4 network, as the mapped address is the IPv4 client
					p = netip.PrefixFrom(p.Addr().Unmap(), p.Bits()-96)
					vfC03.Class("entry:mapped_network")
				}
				*nets = append(*nets, p)
			} else {
				*ids = append(*ids, e)
			}
		}
	}
	split(l.Allowed, &m.allowedIPs, &m.allowedNets, &m.allowedIDs)
	split(l.Disallowed, &m.disIPs, &m.disNets, &m.disIDs)

	return m
}

func vfAddrIn(a netip.Addr, ips []netip.Addr, nets []netip.Prefix, stripZoneForExact bool) (ok bool) {
	// an IPv4-mapped IPv6 address is the IPv4 client, on both sides
	a = a.Unmap()
	for _, ip := range ips {
		ip = ip.Unmap()
		if ip == a || (stripZoneForExact && ip == a.WithZone("")) {
			return true
		}
	}
	for _, n := range nets {
		if n.Contains(a.WithZone("")) {
			return true
		}
	}

	return false
}

func vfStrIn(s string, ss []string) (ok bool) {
	for _, x := range ss {
		if x == s {
			return true
		}
	}

	return false
}

// vfIDIn compares ClientIDs the way the statement's quantifier demands
// ("differing case"): they are host-name labels.
func vfIDIn(s string, ss []string) (ok bool) {
	for _, x := range ss {
		if strings.EqualFold(x, s) {
			return true
		}
	}

	return false
}

// clientExcluded is the statement's rule.  stripZone selects how a zoned
// address compares with exact-address entries (the statement does not say).
func (m *vfC03Model) clientExcluded(r *vfC03Req, stripZone bool) (excluded bool) {
	allowMode := len(m.allowedIPs)+len(m.allowedNets)+len(m.allowedIDs) > 0
	if allowMode {
		ipAllowed := vfAddrIn(r.Addr, m.allowedIPs, m.allowedNets, stripZone)
		idAllowed := r.ClientID != "" && vfIDIn(r.ClientID, m.allowedIDs)

		return !(ipAllowed || idAllowed)
	}

	ipDis := vfAddrIn(r.Addr, m.disIPs, m.disNets, stripZone)
	idDis := r.ClientID != "" && vfIDIn(r.ClientID, m.disIDs)

	return ipDis || idDis
}

// hostBlocked applies the blocked-host patterns of the core grammar.
func (m *vfC03Model) hostBlocked(name string, qtype uint16) (blocked bool, ambiguous bool) {
	name = strings.ToLower(strings.TrimSuffix(name, "."))
	for _, h := range m.hosts {
		if h.Dnstype != 0 && h.Dnstype != qtype {
			continue
		}
		switch h.Kind {
		case "exact":
			if name == h.Domain {
				return true, false
			}
		case "domain":
			if name == h.Domain || strings.HasSuffix(name, "."+h.Domain) {
				return true, false
			}
		case "regex_nondigit":
			if rest, ok := strings.CutSuffix(name, "."+h.Domain); ok && rest != "" && !strings.ContainsAny(rest, "0123456789") {
				return true, false
			}
		case "wildcard":
			// "*.d" is an unanchored pattern: certainly matches sub-domains of
			// d; other names containing ".d" are matched too by the rule
			// syntax, which the statement does not spell out.
			if strings.HasSuffix(name, "."+h.Domain) {
				return true, false
			}
			if strings.Contains(name, "."+h.Domain) {
				ambiguous = true
			}
		default:
			// "|d^": anchored at the start of the name
			if name == h.Domain {
				return true, false
			}
			if strings.HasPrefix(name, h.Domain) {
				ambiguous = true
			}
		}
	}

	return false, ambiguous
}

func (l *vfC03Lists) describe() (m map[string]any) {
	return map[string]any{"allowed": l.Allowed, "disallowed": l.Disallowed, "blocked_hosts": l.BlockedHosts}
}

func vfC03Query(r *vfC03Req) (q vfQuery) {
	return vfQuery{
		Name: r.Name, Qtype: r.Qtype, Addr: netip.AddrPortFrom(r.Addr, 40000), Proto: r.Proto, ClientID: r.ClientID,
	}
}

// vfC03CheckDecision compares one HandleBefore outcome with the model.
func vfC03CheckDecision(t *rapid.T, l *vfC03Lists, m *vfC03Model, r *vfC03Req, o *vfOutcome, via string) {
	// the quantifier names zoned IPv6 client addresses: the zone is the
	// interface the request came in on, the entry fe80::1 means that client
	exA := m.clientExcluded(r, true)
	exB := exA
	hostB, hostAmb := m.hostBlocked(r.Name, r.Qtype)
	ambiguous := exA != exB || (!exA && hostAmb && !hostB)
	wantExcluded := exA || hostB

	vfC03.Eval()
	vfC03.Class("proto:" + string(r.Proto))
	mode := "blockmode"
	if len(m.allowedIPs)+len(m.allowedNets)+len(m.allowedIDs) > 0 {
		mode = "allowmode"
	}
	vfC03.Class("mode:" + mode)
	vfC03.Class("via:" + via)
	if ambiguous {
		vfC03.Class("ambiguous")
	}
	kind := "admitted"
	switch {
	case exA && hostB:
		kind = "excluded:client+host"
	case exA:
		kind = "excluded:client"
	case hostB:
		kind = "excluded:host"
	}
	vfC03.Class("want:" + kind)

	// non-trivial: decision differs from "everything admitted", or differs
	// from the decision with the ClientID removed, or allow mode with only IDs
	noID := *r
	noID.ClientID = ""
	idMatters := m.clientExcluded(&noID, true) != exA
	if wantExcluded || idMatters || (mode == "allowmode" && len(m.allowedIPs)+len(m.allowedNets) == 0) {
		vfC03.Nontrivial(fmt.Sprintf("%s|%s|%s|id=%t|idmatters=%t|zoned=%t|%s", mode, kind, r.Proto, r.ClientID != "", idMatters, r.Addr.Zone() != "", via))
		if idMatters {
			vfC03.Class("clientid_decides")
		}
	}
	if vfC03.WantSample(kind + "/" + string(r.Proto)) {
		vfC03.Sample(kind+"/"+string(r.Proto), map[string]any{
			"lists": l.describe(), "client": r.Addr.String(), "clientid": r.ClientID, "proto": r.Proto,
			"question": fmt.Sprintf("%s %s", r.Name, dns.Type(r.Qtype)), "before_error": fmt.Sprint(o.BeforeErr),
		})
	}

	fail := func(format string, args ...any) {
		t.Fatalf("%s\nrequest: %s id=%q proto=%s %s %s (via %s)\nlists: %v\nwant: %s",
			fmt.Sprintf(format, args...), r.Addr, r.ClientID, r.Proto, r.Name, dns.Type(r.Qtype), via, l.describe(), kind)
	}

	if ambiguous {
		return
	}

	if !wantExcluded {
		if o.BeforeErr != nil {
			fail("admitted request was rejected before processing: %v", o.BeforeErr)
		}

		return
	}

	if o.BeforeErr == nil {
		fail("excluded request was admitted")
	}
	var bre *proxy.BeforeRequestError
	isBRE := errors.As(o.BeforeErr, &bre)
	if r.Proto == proxy.ProtoUDP || r.Proto == proxy.ProtoDNSCrypt {
		if isBRE {
			fail("excluded request over %s gets a reply (%v); it must get none", r.Proto, bre.Response)
		}

		return
	}
	if !isBRE || bre.Response == nil {
		fail("excluded request over %s must be answered REFUSED, got error without response: %v", r.Proto, o.BeforeErr)
	}
	resp := bre.Response
	if resp.Rcode != dns.RcodeRefused || len(resp.Answer) != 0 || !resp.Response || resp.Id != o.Req.Id ||
		len(resp.Question) != 1 || resp.Question[0] != o.Req.Question[0] {
		fail("excluded request over %s: reply is not a plain REFUSED for the request: %v", r.Proto, resp)
	}
}

// TestVFC03Decision checks the pre-request hook for all six protocols, with the
// lists installed by the production constructor and, in half of the cases,
// replaced through the POST /control/access/set handler.
func TestVFC03Decision(t *testing.T) {
	vfkit.Begin(t)
	rapid.Check(t, func(t *rapid.T) {
		first := vfC03DrawLists(t, "l0")
		// Without a configured server name only DNS-over-HTTPS can carry a
		// ClientID (in its path).
		noName := rapid.IntRange(0, 3).Draw(t, "no_server_name") == 0
		wc := &vfWorldConf{
			ProtectionEnabled: true, FilteringEnabled: true, ServerName: vfC03ServerName,
			Allowed: first.Allowed, Disallowed: first.Disallowed, BlockedHosts: first.BlockedHosts,
		}
		if noName {
			wc.ServerName = ""
			vfC03.Class("no_server_name")
		}
		w, err := vfNewWorld(wc)
		if err != nil {
			t.Fatalf("VERIF-INCONCLUSIVE world: %v\n%v", err, first.describe())
		}
		defer w.close()

		// The blocked-hosts list is the one the API reports: with none
		// configured the server puts its defaults there, and they are names
		// like any other.
		adoptDefaults := func(l *vfC03Lists) {
			rec := httptest.NewRecorder()
			w.srv.handleAccessList(rec, httptest.NewRequest(http.MethodGet, "/control/access/list", nil))
			var reported struct {
				BlockedHosts []string `json:"blocked_hosts"`
			}
			if jerr := json.Unmarshal(rec.Body.Bytes(), &reported); jerr != nil {
				t.Fatalf("VERIF-INCONCLUSIVE GET /control/access/list: %v: %s", jerr, rec.Body.String())
			}
			for _, h := range reported.BlockedHosts {
				known := false
				for _, have := range l.BlockedHosts {
					known = known || strings.EqualFold(have, h)
				}
				isDefault := vfStrIn(strings.ToLower(h), []string{"version.bind", "id.server", "hostname.bind"})
				if !known && isDefault && len(l.BlockedHosts) == len(l.defaultsAdopted) {
					// only an empty list is replaced by the defaults
					l.BlockedHosts = append(l.BlockedHosts, h)
					l.defaultsAdopted = append(l.defaultsAdopted, h)
					l.hostRules = append(l.hostRules, vfC03HostRule{Kind: "exact", Domain: strings.ToLower(h)})
					vfC03.Class("default_blocked_host_reported")
				}
			}
		}
		adoptDefaults(first)

		// Phases: the lists installed by Prepare, then up to two replacements
		// through POST /control/access/set while the server keeps serving.
		// Clients seen in an earlier phase come back in the later ones, so a
		// verdict remembered across a change of the lists shows.
		cur := first
		via := "prepare"
		type seenKey struct {
			addr netip.Addr
			id   string
		}
		seen := map[seenKey]bool{}
		var earlier []*vfC03Req
		nPhases := rapid.IntRange(1, 3).Draw(t, "n_phases")
		for ph := 0; ph < nPhases; ph++ {
			if ph > 0 {
				next := vfC03DrawLists(t, fmt.Sprintf("l%d", ph))
				body, _ := json.Marshal(next)
				rec := httptest.NewRecorder()
				w.srv.handleAccessSet(rec, httptest.NewRequest(http.MethodPost, "/control/access/set", bytes.NewReader(body)))
				if rec.Code == http.StatusOK {
					cur = next
					via = "http_set"
					if rapid.IntRange(0, 2).Draw(t, fmt.Sprintf("l%d_then_reconfigure", ph)) == 0 {
						// what a change of the general DNS settings that needs
						// a restart of the server does: the lists set at run
						// time stay in force
						if rerr := w.srv.Reconfigure(nil); rerr != nil {
							t.Fatalf("VERIF-INCONCLUSIVE reconfigure: %v", rerr)
						}
						w.srv.conf.UpstreamConfig.Upstreams = []upstream.Upstream{w.ups}
						// an empty blocked-hosts list is filled with the
						// defaults when the server is prepared again, and the
						// API says so
						adoptDefaults(cur)
						via = "http_set+reconfigure"
						vfC03.Class("lists_set_then_server_reconfigured")
					}
				} else {
					// a rejected update must leave the old lists in force
					via = "http_set_rejected"
					vfC03.Class("http_set_rejected")
				}
			}

			m := vfNewC03Model(cur)
			n := rapid.IntRange(3, 14).Draw(t, fmt.Sprintf("p%d_n_requests", ph))
			for i := 0; i < n; i++ {
				label := fmt.Sprintf("p%d_r%d", ph, i)
				var r *vfC03Req
				if len(earlier) > 0 && rapid.IntRange(0, 2).Draw(t, label+"_again") == 0 {
					// the same client (and question) as an earlier request
					cp := *earlier[rapid.IntRange(0, len(earlier)-1).Draw(t, label+"_which")]
					r = &cp
				} else {
					r = vfC03DrawReq(t, cur, label)
				}
				if noName && r.Proto != proxy.ProtoHTTPS {
					r.ClientID = ""
				}
				k := seenKey{addr: r.Addr, id: r.ClientID}
				if seen[k] && ph > 0 && via == "http_set" {
					vfC03.Class("client_seen_before_lists_changed")
				}
				o := w.run(vfC03Query(r))
				vfC03CheckDecision(t, cur, m, r, o, via)
				if o.BeforeErr == nil {
					// served: goes on to normal processing
					if o.Err != nil || o.Res == nil {
						t.Fatalf("admitted request failed in processing: %v", o.Err)
					}
				}
				seen[k] = true
				earlier = append(earlier, r)
			}
		}
	})
}

// vfC03Snapshot captures what the excluded request must leave untouched.
type vfC03Snapshot struct {
	LogEntries int
	StatsTotal float64
}

func vfC03TakeSnapshot(t *rapid.T, handlers map[string]http.HandlerFunc) (s vfC03Snapshot) {
	rec := httptest.NewRecorder()
	handlers["GET /control/querylog"](rec, httptest.NewRequest(http.MethodGet, "/control/querylog?limit=500", nil))
	var ql struct {
		Data []json.RawMessage `json:"data"`
	}
	if err := json.Unmarshal(rec.Body.Bytes(), &ql); err != nil {
		t.Fatalf("VERIF-INCONCLUSIVE querylog json: %v", err)
	}
	s.LogEntries = len(ql.Data)

	rec = httptest.NewRecorder()
	handlers["GET /control/stats"](rec, httptest.NewRequest(http.MethodGet, "/control/stats", nil))
	var st map[string]any
	if err := json.Unmarshal(rec.Body.Bytes(), &st); err != nil {
		t.Fatalf("VERIF-INCONCLUSIVE stats json: %v: %s", err, rec.Body.String())
	}
	s.StatsTotal, _ = st["num_dns_queries"].(float64)

	return s
}

// TestVFC03Wire sends requests over real UDP and TCP sockets from generated
// loopback source addresses to a started server with real query log and
// statistics: excluded => nothing (UDP) / REFUSED (TCP) and upstream, log and
// statistics untouched; admitted => served, logged and counted once.
func TestVFC03Wire(t *testing.T) {
	vfkit.Begin(t)
	rapid.Check(t, func(t *rapid.T) {
		srcs := []string{"127.0.0.1", "127.0.0.2", "127.0.0.9", "127.1.2.3"}
		l := &vfC03Lists{}
		seen := map[string]bool{}
		draw := func(label string) (es []string) {
			n := rapid.IntRange(0, 3).Draw(t, label+"_n")
			for i := 0; i < n; i++ {
				e := rapid.SampledFrom([]string{"127.0.0.1", "127.0.0.2", "127.0.0.0/29", "127.1.0.0/16", "127.0.0.9/32", "10.0.0.0/8", "alice"}).Draw(t, fmt.Sprintf("%s_%d", label, i))
				if !seen[e] {
					seen[e] = true
					es = append(es, e)
				}
			}

			return es
		}
		if rapid.Bool().Draw(t, "allow_mode") {
			l.Allowed = draw("al")
		}
		l.Disallowed = draw("dis")
		if rapid.Bool().Draw(t, "blocked_host") {
			l.BlockedHosts = []string{"||blocked.example^"}
			l.hostRules = []vfC03HostRule{{Kind: "domain", Domain: "blocked.example"}}
		}

		handlers := map[string]http.HandlerFunc{}
		wc := &vfWorldConf{
			ProtectionEnabled: true, FilteringEnabled: true,
			Allowed: l.Allowed, Disallowed: l.Disallowed, BlockedHosts: l.BlockedHosts,
			WithLogStats: true, QLogMemSize: 1000, QLogSentinel: true,
			HTTPRegister: func(method, url string, h http.HandlerFunc) { handlers[method+" "+url] = h },
		}
		w, err := vfNewWorld(wc)
		if err != nil {
			t.Fatalf("VERIF-INCONCLUSIVE world: %v", err)
		}
		defer w.close()
		if serr := w.qlog.Start(context.Background()); serr != nil {
			t.Fatalf("VERIF-INCONCLUSIVE qlog start: %v", serr)
		}
		w.stats.Start()
		if err = w.srv.Start(); err != nil {
			t.Fatalf("VERIF-INCONCLUSIVE start: %v", err)
		}
		udp := w.srv.dnsProxy.Addr(proxy.ProtoUDP).(*net.UDPAddr)
		tcp := w.srv.dnsProxy.Addr(proxy.ProtoTCP).(*net.TCPAddr)

		m := vfNewC03Model(l)
		n := rapid.IntRange(3, 8).Draw(t, "n_requests")
		for i := 0; i < n; i++ {
			src := rapid.SampledFrom(srcs).Draw(t, fmt.Sprintf("r%d_src", i))
			overTCP := rapid.Bool().Draw(t, fmt.Sprintf("r%d_tcp", i))
			name := rapid.SampledFrom([]string{"free.example.", "x.blocked.example.", "Blocked.Example.", "other.test."}).Draw(t, fmt.Sprintf("r%d_name", i))
			r := &vfC03Req{Addr: netip.MustParseAddr(src), Name: name, Qtype: dns.TypeA, Proto: proxy.ProtoUDP}
			if overTCP {
				r.Proto = proxy.ProtoTCP
			}
			hostB, _ := m.hostBlocked(r.Name, r.Qtype)
			wantExcluded := m.clientExcluded(r, true) || hostB

			exchange := func() (err error) {
				before := vfC03TakeSnapshot(t, handlers)
				w.ups.take()
				retried := false

				req := &dns.Msg{}
				req.SetQuestion(name, dns.TypeA)
				var resp *dns.Msg
				var xerr error
				if overTCP {
					d := net.Dialer{LocalAddr: &net.TCPAddr{IP: net.ParseIP(src)}, Timeout: 5 * time.Second}
					var c net.Conn
					c, xerr = d.Dial("tcp", tcp.String())
					if xerr != nil {
						t.Fatalf("VERIF-INCONCLUSIVE dial tcp from %s: %v", src, xerr)
					}
					co := &dns.Conn{Conn: c}
					_ = co.SetDeadline(time.Now().Add(5 * time.Second))
					xerr = co.WriteMsg(req)
					if xerr == nil {
						resp, xerr = co.ReadMsg()
					}
					_ = co.Close()
				} else {
					var c *net.UDPConn
					c, xerr = net.DialUDP("udp", &net.UDPAddr{IP: net.ParseIP(src)}, udp)
					if xerr != nil {
						t.Fatalf("VERIF-INCONCLUSIVE dial udp from %s: %v", src, xerr)
					}
					co := &dns.Conn{Conn: c}
					wait := 5 * time.Second
					if wantExcluded {
						// a late reply could only hide a violation, never fake one
						wait = 250 * time.Millisecond
					}
					for attempt := 0; attempt < 3; attempt++ {
						_ = co.SetDeadline(time.Now().Add(wait))
						xerr = co.WriteMsg(req)
						for xerr == nil {
							resp, xerr = co.ReadMsg()
							if xerr != nil || (resp.Id == req.Id && len(resp.Question) == 1 && resp.Question[0] == req.Question[0]) {
								break
							}
							// a datagram that answers another request (a late copy
							// from an earlier socket with the same port): not ours
							vfC03.Class("wire:stray_datagram_ignored")
							resp = nil
						}
						if xerr != nil {
							resp = nil
						}
						if wantExcluded || resp != nil {
							break
						}
						// an admitted request that timed out under load is re-sent;
						// every copy is a query of its own for the upstream, the log
						// and the statistics, so the exact counts of this case can no
						// longer be asserted
						retried = true
					}
					_ = co.Close()
				}

				if retried {
					vfC03.Class("wire:retried_under_load")
					if resp == nil {
						t.Fatalf("VERIF-INCONCLUSIVE admitted request got no reply after 3 attempts: %v", xerr)
					}

					return errVFC03Retried
				}
				asked := w.ups.take()
				after := vfC03TakeSnapshot(t, handlers)
				vfC03.Eval()
				vfC03.Class("via:wire")
				kind := "admitted"
				if wantExcluded {
					kind = "excluded"
					vfC03.Nontrivial(fmt.Sprintf("wire|%v|%s|%s|tcp=%t|%s", l.describe(), src, kind, overTCP, name))
				}
				vfC03.Class("wire:" + kind + ":" + string(r.Proto))

				var anomaly error
				fail := func(format string, args ...any) {
					if anomaly == nil {
						anomaly = fmt.Errorf("%s\nwire request from %s tcp=%t %s; lists %v; want %s; upstream asked %v; log %d->%d stats %v->%v",
							fmt.Sprintf(format, args...), src, overTCP, name, l.describe(), kind, asked,
							before.LogEntries, after.LogEntries, before.StatsTotal, after.StatsTotal)
					}
				}

				if wantExcluded {
					if overTCP {
						if xerr != nil || resp == nil || resp.Rcode != dns.RcodeRefused || len(resp.Answer) != 0 {
							fail("excluded TCP request must get REFUSED: resp=%v err=%v", resp, xerr)
						}
					} else if resp != nil {
						fail("excluded UDP request got a reply: %v", resp)
					}
					if len(asked) != 0 {
						fail("excluded request was resolved upstream")
					}
					if after != before {
						fail("excluded request was logged or counted")
					}

					return anomaly
				}
				if xerr != nil || resp == nil {
					t.Fatalf("VERIF-INCONCLUSIVE admitted request got no reply: %v", xerr)
				}
				if resp.Rcode != dns.RcodeSuccess || len(asked) != 1 {
					fail("admitted request not served normally: %v", resp)
				}
				if after.LogEntries != before.LogEntries+1 || after.StatsTotal != before.StatsTotal+1 {
					fail("admitted request not logged/counted exactly once")
				}

				return anomaly
			}

			// The server works asynchronously behind real sockets: under load a
			// late copy or a late worker of an earlier request can show in the
			// window of this one.  A real defect of the access check is
			// deterministic, so an anomaly counts only if the same request shows
			// it again after a quiet moment.
			err := exchange()
			if errors.Is(err, errVFC03Retried) {
				return
			}
			if err != nil {
				time.Sleep(700 * time.Millisecond)
				err2 := exchange()
				if errors.Is(err2, errVFC03Retried) {
					return
				}
				if err2 != nil {
					t.Fatalf("%v\n(seen again on repetition: %v)", err, err2)
				}
				vfC03.Class("wire:anomaly_not_reproduced")
			}
		}
	})
}

var (
	_ = os.Getenv
	_ = filepath.Join
)
