//go:build verif

package dnsforward

// C05: reconfiguring the live server never races with, crashes or stalls DNS
// serving.  Generated concurrent programs (DNS goroutines || admin goroutines
// driving the real HTTP handlers || config-save readers) run under the Go race
// detector; the program is written to program.json before it runs, so that a
// race report (which kills the process) leaves its replay behind.

import (
	"bytes"
	"context"
	"encoding/json"
	"fmt"
	"net"
	"net/http"
	"net/http/httptest"
	"net/netip"
	"os"
	"path/filepath"
	"runtime"
	"runtime/debug"
	"strings"
	"sync"
	"sync/atomic"
	"testing"
	"time"

	"github.com/AdguardTeam/AdGuardHome/internal/client"
	"github.com/AdguardTeam/AdGuardHome/internal/filtering"
	"github.com/AdguardTeam/AdGuardHome/internal/querylog"
	"github.com/AdguardTeam/AdGuardHome/internal/stats"
	"github.com/AdguardTeam/AdGuardHome/internal/vfkit"
	"github.com/AdguardTeam/dnsproxy/proxy"
	"github.com/miekg/dns"
	"pgregory.net/rapid"
)

var vfC05 = vfkit.For("C05")

// vfC05Op is one step of a goroutine of a program.
type vfC05Op struct {
	// Kind is "query" for DNS goroutines, an admin operation name otherwise.
	Kind string `json:"kind"`
	// Method, Path and Body describe the HTTP request of an admin operation.
	Method string `json:"method,omitempty"`
	Path   string `json:"path,omitempty"`
	Body   string `json:"body,omitempty"`
	// Name, Qtype, Addr, Proto, ClientID describe a query.
	Name     string `json:"name,omitempty"`
	Qtype    uint16 `json:"qtype,omitempty"`
	Addr     string `json:"addr,omitempty"`
	Proto    string `json:"proto,omitempty"`
	ClientID string `json:"client_id,omitempty"`
	// Yield makes the goroutine call runtime.Gosched this many times first.
	Yield int `json:"yield,omitempty"`
}

// vfC05Program is a concurrent program.
type vfC05Program struct {
	DNS     [][]vfC05Op `json:"dns_goroutines"`
	Admin   [][]vfC05Op `json:"admin_goroutines"`
	Readers [][]vfC05Op `json:"reader_goroutines"`
	Rounds  int         `json:"rounds"`
}

var vfC05Names = []string{"ads.test.", "x.ads.test.", "ok.ads.test.", "host.example.", "free.example.", "4chan.org.", "rw.example.", "cn.rw.example.", "Blocked.Access.",
	// blocked by the safe-browsing and the parental-control service: the reply
	// is built from a lookup of the service's block host
	"malware.sb.example.", "www.adult.pc.example.",
	// names the safe-search engine has rules for (several, so that not every
	// one is answered from its cache)
	"www.google.com.", "www.google.de.", "www.google.fr.", "www.bing.com.", "duckduckgo.com.", "www.youtube.com.", "yandex.ru.", "pixabay.com.",
	"www.google.co.uk.", "www.google.es.", "m.youtube.com.", "yandex.com."}

func vfC05DrawQuery(t *rapid.T, label string) (op vfC05Op) {
	op.Kind = "query"
	op.Name = rapid.SampledFrom(vfC05Names).Draw(t, label+"_name")
	op.Qtype = rapid.SampledFrom([]uint16{dns.TypeA, dns.TypeA, dns.TypeAAAA, dns.TypeHTTPS, dns.TypeTXT}).Draw(t, label+"_qtype")
	op.Addr = rapid.SampledFrom([]string{"192.0.2.10", "192.0.2.99", "198.18.0.7", "2001:db8::1", "10.0.0.5", "10.20.30.40", "10.20.30.41"}).Draw(t, label+"_addr")
	op.Proto = string(rapid.SampledFrom([]proxy.Proto{proxy.ProtoUDP, proxy.ProtoTCP, proxy.ProtoTLS, proxy.ProtoHTTPS}).Draw(t, label+"_proto"))
	if op.Proto == string(proxy.ProtoTLS) || op.Proto == string(proxy.ProtoHTTPS) {
		op.ClientID = rapid.SampledFrom([]string{"", "kid", "guest"}).Draw(t, label+"_cid")
	}
	op.Yield = rapid.IntRange(0, 3).Draw(t, label+"_yield")

	return op
}

// vfC05AdminKinds are the mutating admin operations (in production they are
// serialised by the global control lock; so they are here).
var vfC05AdminKinds = []string{
	"access_set", "protection_pause", "protection_on", "dns_config", "set_rules", "add_url", "remove_url", "refresh",
	"filtering_config", "rewrite_add", "rewrite_delete", "rewrite_update", "blocked_services", "safesearch_settings",
	"safebrowsing_toggle", "parental_toggle", "querylog_config", "querylog_clear", "stats_config", "stats_reset",
	"client_add", "client_update", "client_remove", "cache_clear",
}

// vfC05ReaderKinds are read-only admin operations and the configuration save;
// they are not serialised with anything.
var vfC05ReaderKinds = []string{
	"config_save", "filtering_status", "rewrite_list", "access_list", "dns_info", "stats_get", "querylog_get",
	"blocked_services_get", "check_host", "safesearch_status", "querylog_config_get", "stats_config_get",
}

func vfC05DrawAdmin(t *rapid.T, label string, listFile string) (op vfC05Op) {
	op.Kind = rapid.SampledFrom(vfC05AdminKinds).Draw(t, label+"_kind")
	op.Method = http.MethodPost
	pick := func(opts ...string) string { return rapid.SampledFrom(opts).Draw(t, label+"_arg") }
	switch op.Kind {
	case "access_set":
		op.Path = "/control/access/set"
		op.Body = pick(
			`{"allowed_clients":[],"disallowed_clients":["192.0.2.99"],"blocked_hosts":["blocked.access"]}`,
			`{"allowed_clients":["192.0.2.0/24","kid"],"disallowed_clients":[],"blocked_hosts":[]}`,
			`{"allowed_clients":[],"disallowed_clients":[],"blocked_hosts":["||blocked.access^","version.bind"]}`,
			`{"allowed_clients":[],"disallowed_clients":["guest","10.0.0.0/8"],"blocked_hosts":[]}`,
		)
	case "protection_pause":
		op.Path = "/control/protection"
		op.Body = pick(`{"enabled":false,"duration":1}`, `{"enabled":false,"duration":20}`, `{"enabled":false,"duration":1000}`, `{"enabled":false}`)
	case "protection_on":
		op.Path = "/control/protection"
		op.Body = `{"enabled":true}`
	case "dns_config":
		op.Path = "/control/dns_config"
		op.Body = pick(
			`{"blocking_mode":"nxdomain"}`, `{"blocking_mode":"default","blocked_response_ttl":30}`,
			`{"blocking_mode":"custom_ip","blocking_ipv4":"203.0.113.9","blocking_ipv6":"2001:db8::9"}`,
			`{"protection_enabled":true}`, `{"disable_ipv6":true}`, `{"disable_ipv6":false}`, `{"dnssec_enabled":true}`, `{"blocking_mode":"refused"}`,
		)
	case "set_rules":
		op.Path = "/control/filtering/set_rules"
		op.Body = pick(`{"rules":["||ads.test^","@@||ok.ads.test^"]}`, `{"rules":[]}`, `{"rules":["1.2.3.4 host.example","||free.example^$important"]}`)
	case "add_url":
		op.Path = "/control/filtering/add_url"
		op.Body = fmt.Sprintf(`{"name":"local","url":%q,"whitelist":%s}`, listFile, pick("false", "true"))
	case "remove_url":
		op.Path = "/control/filtering/remove_url"
		op.Body = fmt.Sprintf(`{"url":%q,"whitelist":%s}`, listFile, pick("false", "true"))
	case "refresh":
		op.Path = "/control/filtering/refresh"
		op.Body = pick(`{"whitelist":false}`, `{"whitelist":true}`)
	case "filtering_config":
		op.Path = "/control/filtering/config"
		op.Body = pick(`{"enabled":true,"interval":24}`, `{"enabled":false,"interval":24}`, `{"enabled":true,"interval":0}`)
	case "rewrite_add":
		op.Path = "/control/rewrite/add"
		op.Body = pick(`{"domain":"rw.example","answer":"10.1.1.1"}`, `{"domain":"*.rw.example","answer":"rw.example"}`, `{"domain":"cn.rw.example","answer":"free.example"}`)
	case "rewrite_delete":
		op.Path = "/control/rewrite/delete"
		op.Body = pick(`{"domain":"rw.example","answer":"10.1.1.1"}`, `{"domain":"*.rw.example","answer":"rw.example"}`, `{"domain":"cn.rw.example","answer":"free.example"}`)
	case "rewrite_update":
		op.Method = http.MethodPut
		op.Path = "/control/rewrite/update"
		op.Body = pick(
			`{"target":{"domain":"rw.example","answer":"10.1.1.1"},"update":{"domain":"rw.example","answer":"10.2.2.2"}}`,
			`{"target":{"domain":"rw.example","answer":"10.2.2.2"},"update":{"domain":"rw.example","answer":"10.1.1.1"}}`,
		)
	case "blocked_services":
		op.Method = http.MethodPut
		op.Path = "/control/blocked_services/update"
		op.Body = pick(`{"ids":["4chan"],"schedule":{"time_zone":"UTC"}}`, `{"ids":[],"schedule":{"time_zone":"UTC"}}`,
			`{"ids":["4chan","9gag"],"schedule":{"time_zone":"UTC","mon":{"start":0,"end":86400000}}}`)
	case "safesearch_settings":
		op.Method = http.MethodPut
		op.Path = "/control/safesearch/settings"
		op.Body = pick(`{"enabled":true,"bing":true,"duckduckgo":true,"ecosia":true,"google":true,"pixabay":true,"yandex":true,"youtube":true}`,
			`{"enabled":false,"bing":false,"duckduckgo":false,"ecosia":false,"google":false,"pixabay":false,"yandex":false,"youtube":false}`)
	case "safebrowsing_toggle":
		op.Path = pick("/control/safebrowsing/enable", "/control/safebrowsing/disable")
	case "parental_toggle":
		op.Path = pick("/control/parental/enable", "/control/parental/disable")
	case "querylog_config":
		op.Method = http.MethodPut
		op.Path = "/control/querylog/config/update"
		op.Body = pick(`{"enabled":true,"anonymize_client_ip":true,"interval":86400000,"ignored":["ads.test"]}`,
			`{"enabled":true,"anonymize_client_ip":false,"interval":604800000,"ignored":[]}`,
			`{"enabled":false,"anonymize_client_ip":false,"interval":86400000,"ignored":[]}`)
	case "querylog_clear":
		op.Path = "/control/querylog_clear"
	case "stats_config":
		op.Method = http.MethodPut
		op.Path = "/control/stats/config/update"
		op.Body = pick(`{"enabled":true,"interval":86400000,"ignored":["free.example"]}`, `{"enabled":true,"interval":604800000,"ignored":[]}`, `{"enabled":false,"interval":86400000,"ignored":[]}`)
	case "stats_reset":
		op.Path = "/control/stats_reset"
	case "cache_clear":
		op.Path = "/control/cache_clear"
	case "client_add", "client_update", "client_remove":
		op.Method, op.Path = "", ""
		op.Body = pick("kid", "guest", "laptop")
	}
	op.Yield = rapid.IntRange(0, 3).Draw(t, label+"_yield")

	return op
}

func vfC05DrawReader(t *rapid.T, label string) (op vfC05Op) {
	op.Kind = rapid.SampledFrom(vfC05ReaderKinds).Draw(t, label+"_kind")
	op.Method = http.MethodGet
	switch op.Kind {
	case "config_save":
		op.Method = ""
	case "filtering_status":
		op.Path = "/control/filtering/status"
	case "rewrite_list":
		op.Path = "/control/rewrite/list"
	case "access_list":
		op.Path = "/control/access/list"
	case "dns_info":
		op.Path = "/control/dns_info"
	case "stats_get":
		op.Path = "/control/stats"
	case "querylog_get":
		op.Path = "/control/querylog?limit=20"
	case "blocked_services_get":
		op.Path = "/control/blocked_services/get"
	case "check_host":
		op.Path = "/control/filtering/check_host?name=x.ads.test"
	case "safesearch_status":
		op.Path = "/control/safesearch/status"
	case "querylog_config_get":
		op.Path = "/control/querylog/config"
	case "stats_config_get":
		op.Path = "/control/stats/config"
	}
	op.Yield = rapid.IntRange(0, 2).Draw(t, label+"_yield")

	return op
}

func vfC05DrawProgram(t *rapid.T, listFile string) (p *vfC05Program) {
	p = &vfC05Program{Rounds: 1}
	nd := rapid.IntRange(2, 6).Draw(t, "n_dns")
	for g := 0; g < nd; g++ {
		n := rapid.IntRange(3, 25).Draw(t, fmt.Sprintf("dns%d_len", g))
		var ops []vfC05Op
		for i := 0; i < n; i++ {
			ops = append(ops, vfC05DrawQuery(t, fmt.Sprintf("dns%d_%d", g, i)))
		}
		p.DNS = append(p.DNS, ops)
	}
	na := rapid.IntRange(1, 4).Draw(t, "n_admin")
	for g := 0; g < na; g++ {
		n := rapid.IntRange(1, 8).Draw(t, fmt.Sprintf("adm%d_len", g))
		var ops []vfC05Op
		for i := 0; i < n; i++ {
			ops = append(ops, vfC05DrawAdmin(t, fmt.Sprintf("adm%d_%d", g, i), listFile))
		}
		p.Admin = append(p.Admin, ops)
	}
	nr := rapid.IntRange(0, 2).Draw(t, "n_readers")
	for g := 0; g < nr; g++ {
		n := rapid.IntRange(1, 8).Draw(t, fmt.Sprintf("rd%d_len", g))
		var ops []vfC05Op
		for i := 0; i < n; i++ {
			ops = append(ops, vfC05DrawReader(t, fmt.Sprintf("rd%d_%d", g, i)))
		}
		p.Readers = append(p.Readers, ops)
	}

	return p
}

// vfC05World builds the server under test with every module real.
type vfC05Env struct {
	w        *vfWorld
	handlers map[string]http.HandlerFunc
	// control mimics home's global control lock for mutating API calls.
	control  sync.Mutex
	listFile string
	nextID   atomic.Uint64
	unitID   atomic.Uint32
	// ready is set once the world is built; before that the save callback
	// has nothing to read.
	ready atomic.Bool
}

func vfNewC05Env() (e *vfC05Env, err error) {
	e = &vfC05Env{handlers: map[string]http.HandlerFunc{}}
	var regMu sync.Mutex
	reg := func(method, url string, h http.HandlerFunc) {
		regMu.Lock()
		defer regMu.Unlock()
		e.handlers[url] = h
	}
	listDir, err := os.MkdirTemp("", "vfc05lists")
	if err != nil {
		return nil, err
	}
	e.listFile = filepath.Join(listDir, "local.txt")
	if err = os.WriteFile(e.listFile, []byte("||local-list.example^\n||ads.test^\n"), 0o644); err != nil {
		return nil, err
	}

	webRegistered = false
	var storage *client.Storage
	wc := &vfWorldConf{
		BlockLists:        []vfListConf{{Rules: []string{"||ads.test^", "||cdn.test^"}, Enabled: true}},
		AllowLists:        []vfListConf{{Rules: []string{"||ok.ads.test^"}, Enabled: true}},
		UserRules:         []string{"1.2.3.4 host.example"},
		Rewrites:          []*filtering.LegacyRewrite{{Domain: "rw.example", Answer: "10.1.1.1"}},
		ProtectionEnabled: true, FilteringEnabled: true, ServiceIDs: []string{"4chan"}, ServerName: "dns.vf.test",
		WithLogStats: true, WithSafeSearch: true, QLogMemSize: 8, HTTPRegister: reg, SafeFS: []string{filepath.Join(listDir, "*")},
		SafeBrowsingEnabled: true, ParentalEnabled: true, SBHosts: []string{"malware.sb.example"}, PCHosts: []string{"adult.pc.example"},
		Clients: []*client.Persistent{{
			Name: "kid", UID: client.MustNewUID(), ClientIDs: []string{"kid"}, IPs: []netip.Addr{netip.MustParseAddr("192.0.2.10")},
			UseOwnSettings: true, FilteringEnabled: true, BlockedServices: &filtering.BlockedServices{Schedule: vfEmptyWeek()},
		}, {
			// known by the hardware address of its DHCP lease only
			Name: "leased", UID: client.MustNewUID(), MACs: []net.HardwareAddr{{0x02, 0, 0, 0, 0x05, 0x01}},
			UseOwnSettings: true, FilteringEnabled: true, BlockedServices: &filtering.BlockedServices{Schedule: vfEmptyWeek()},
		}},
		// 10.20.30.40 is leased to the client above, 10.20.30.41 to a device
		// no client describes
		DHCPMAC: map[netip.Addr]net.HardwareAddr{
			netip.MustParseAddr("10.20.30.40"): {0x02, 0, 0, 0, 0x05, 0x01},
			netip.MustParseAddr("10.20.30.41"): {0x02, 0, 0, 0, 0x05, 0x02},
		},
		// what home gives every module: saving the configuration reads every
		// module's configuration back
		ConfigModified: func() {
			if e.ready.Load() {
				e.configSave()
			}
		},
		FindClient: func(ids []string) (qc *querylog.Client, ferr error) {
			if storage == nil {
				return nil, nil
			}
			// what home's findMultiple / clientOrArtificial do for the query
			// log: the persistent client, else an artificial one, and in both
			// cases whether the access settings exclude the client
			for _, id := range ids {
				ip, _ := netip.ParseAddr(id)
				if p, ok := storage.FindLoose(ip, id); ok {
					qc = &querylog.Client{Name: p.Name, IgnoreQueryLog: p.IgnoreQueryLog}
					qc.Disallowed, qc.DisallowedRule = e.w.srv.IsBlockedClient(ip, id)

					return qc, nil
				}
			}
			if len(ids) > 0 && e.ready.Load() {
				ip, _ := netip.ParseAddr(ids[len(ids)-1])
				qc = &querylog.Client{}
				qc.Disallowed, qc.DisallowedRule = e.w.srv.IsBlockedClient(ip, ids[0])

				return qc, nil
			}

			return nil, nil
		},
		ShouldCountCli: func(ids []string) (ok bool) {
			if storage == nil {
				return true
			}
			for _, id := range ids {
				ip, _ := netip.ParseAddr(id)
				if p, found := storage.FindLoose(ip, id); found {
					return !p.IgnoreStatistics
				}
			}

			return true
		},
	}
	e.w, err = vfNewWorld(wc)
	if err != nil {
		return nil, err
	}
	storage = e.w.storage
	e.ready.Store(true)
	// HTTPS answers carry many address hints, so that response filtering takes
	// its per-hint path (nested lookups under the server lock) while admin
	// operations queue for the write lock
	e.w.ups.answer = func(req *dns.Msg) (resp *dns.Msg) {
		if req.Question[0].Qtype != dns.TypeHTTPS {
			return nil
		}
		resp = (&dns.Msg{}).SetReply(req)
		h := &dns.HTTPS{SVCB: dns.SVCB{
			Hdr:      dns.RR_Header{Name: req.Question[0].Name, Rrtype: dns.TypeHTTPS, Class: dns.ClassINET, Ttl: vfFixtureTTL},
			Priority: 1, Target: ".",
		}}
		v4, v6 := &dns.SVCBIPv4Hint{}, &dns.SVCBIPv6Hint{}
		for i := 0; i < 12; i++ {
			v4.Hint = append(v4.Hint, net.IPv4(198, 51, 100, byte(10+i)).To4())
			v6.Hint = append(v6.Hint, net.ParseIP(fmt.Sprintf("2001:db8:f1::%x", 10+i)))
		}
		h.Value = []dns.SVCBKeyValue{&dns.SVCBAlpn{Alpn: []string{"h2"}}, v4, v6}
		resp.Answer = []dns.RR{h}

		return resp
	}
	e.w.flt.Start()
	if err = e.w.qlog.Start(context.Background()); err != nil {
		return nil, err
	}
	e.w.stats.Start()

	return e, nil
}

func (e *vfC05Env) close() {
	e.w.close()
	_ = os.RemoveAll(filepath.Dir(e.listFile))
}

// configSave does what home's onConfigModified does: it reads every module's
// configuration back.
func (e *vfC05Env) configSave() {
	fc := &filtering.Config{}
	e.w.flt.WriteDiskConfig(fc)
	dc := &Config{}
	e.w.srv.WriteDiskConfig(dc)
	_ = e.w.srv.LocalPTRResolvers()
	_ = e.w.srv.AddrProcConfig()
	_ = e.w.srv.UpstreamTimeout()
	qc := &querylog.Config{}
	e.w.qlog.WriteDiskConfig(qc)
	sc := &stats.Config{}
	e.w.stats.WriteDiskConfig(sc)
	if e.w.storage != nil {
		e.w.storage.RangeByName(func(c *client.Persistent) (cont bool) { return true })
	}
}

// vfC05Result collects what the goroutines observed.
type vfC05Result struct {
	mu       sync.Mutex
	failures []string
	queries  int64
	adminOK  int64
	overlap  map[string]int
	stalled  bool
}

func (r *vfC05Result) fail(format string, args ...any) {
	r.mu.Lock()
	defer r.mu.Unlock()
	if len(r.failures) < 5 {
		r.failures = append(r.failures, fmt.Sprintf(format, args...))
	}
}

// runQuery sends one query through the production hooks and checks that the
// outcome is well-formed.
func (e *vfC05Env) runQuery(op vfC05Op, res *vfC05Result) {
	addr, _ := netip.ParseAddr(op.Addr)
	q := vfQuery{Name: op.Name, Qtype: op.Qtype, Addr: netip.AddrPortFrom(addr, 4000), Proto: proxy.Proto(op.Proto), ClientID: op.ClientID}
	req := &dns.Msg{}
	req.Id = uint16(e.nextID.Add(1))
	req.RecursionDesired = true
	req.Question = []dns.Question{{Name: q.Name, Qtype: q.Qtype, Qclass: dns.ClassINET}}
	pctx := e.w.newPCtxWith(q, req, e.nextID.Add(1)+1<<32)

	defer func() {
		if v := recover(); v != nil {
			res.fail("panic while serving %s %s: %v\n%s", op.Name, dns.Type(op.Qtype), v, debug.Stack())
		}
	}()

	sent := req.Copy()
	err := e.w.srv.HandleBefore(e.w.srv.dnsProxy, pctx)
	atomic.AddInt64(&res.queries, 1)
	if err != nil {
		// excluded by the access settings in force, or answered REFUSED
		return
	}
	err = e.w.srv.handleDNSRequest(e.w.srv.dnsProxy, pctx)
	if err != nil {
		res.fail("query %s %s failed: %v", op.Name, dns.Type(op.Qtype), err)

		return
	}
	resp := pctx.Res
	if resp == nil {
		res.fail("query %s %s got no response", op.Name, dns.Type(op.Qtype))

		return
	}
	if resp.Id != sent.Id || !resp.Response || len(resp.Question) != 1 ||
		!strings.EqualFold(resp.Question[0].Name, sent.Question[0].Name) || resp.Question[0].Qtype != sent.Question[0].Qtype {
		res.fail("malformed response to %s %s: %v", op.Name, dns.Type(op.Qtype), resp)

		return
	}
	b, perr := resp.Pack()
	if perr != nil {
		res.fail("response to %s %s does not pack: %v", op.Name, dns.Type(op.Qtype), perr)

		return
	}
	if uerr := (&dns.Msg{}).Unpack(b); uerr != nil {
		res.fail("response to %s %s does not unpack: %v", op.Name, dns.Type(op.Qtype), uerr)
	}
}

// runAdmin performs one admin operation.
func (e *vfC05Env) runAdmin(op vfC05Op, res *vfC05Result, mutating bool) {
	defer func() {
		if v := recover(); v != nil {
			res.fail("panic in admin operation %s %s: %v\n%s", op.Kind, op.Body, v, debug.Stack())
		}
	}()
	if mutating {
		e.control.Lock()
		defer e.control.Unlock()
	}
	ctx := context.Background()
	switch op.Kind {
	case "config_save":
		e.configSave()

		return
	case "client_add":
		p := &client.Persistent{
			Name: op.Body, UID: client.MustNewUID(), ClientIDs: []string{op.Body},
			UseOwnSettings: true, FilteringEnabled: op.Body != "guest", IgnoreQueryLog: op.Body == "guest",
			BlockedServices: &filtering.BlockedServices{Schedule: vfEmptyWeek()},
		}
		_ = e.w.storage.Add(ctx, p)

		return
	case "client_update":
		if cur, ok := e.w.storage.FindByName(op.Body); ok {
			n := cur.ShallowClone()
			n.FilteringEnabled = !n.FilteringEnabled
			n.UseOwnBlockedServices = !n.UseOwnBlockedServices
			_ = e.w.storage.Update(ctx, op.Body, n)
		}

		return
	case "client_remove":
		e.w.storage.RemoveByName(ctx, op.Body)

		return
	}

	h := e.handlers[strings.SplitN(op.Path, "?", 2)[0]]
	if h == nil {
		res.fail("VERIF-INCONCLUSIVE no handler captured for %s", op.Path)

		return
	}
	var body *bytes.Reader
	r := httptest.NewRequest(op.Method, op.Path, nil)
	if op.Body != "" {
		body = bytes.NewReader([]byte(op.Body))
		r = httptest.NewRequest(op.Method, op.Path, body)
		r.Header.Set("Content-Type", "application/json")
	}
	rec := httptest.NewRecorder()
	h(rec, r)
	if rec.Code == http.StatusOK {
		atomic.AddInt64(&res.adminOK, 1)
	}
}

// vfC05Watchdog is how long a program may go without completing a single query
// or admin operation before it counts as a stall (an operation normally takes
// well under a millisecond; a loaded machine slows programs down but does not
// stop them).
const vfC05Watchdog = 45 * time.Second

// execute runs the program's goroutines concurrently and returns what failed.
func (e *vfC05Env) execute(p *vfC05Program) (res *vfC05Result) {
	res = &vfC05Result{overlap: map[string]int{}}
	var wg sync.WaitGroup
	start := make(chan struct{})
	var inflightQueries, adminRunning, progress atomic.Int64
	var overlapMu sync.Mutex

	for _, ops := range p.DNS {
		wg.Add(1)
		go func(ops []vfC05Op) {
			defer wg.Done()
			<-start
			for _, op := range ops {
				for i := 0; i < op.Yield; i++ {
					runtime.Gosched()
				}
				inflightQueries.Add(1)
				e.runQuery(op, res)
				inflightQueries.Add(-1)
				progress.Add(1)
			}
		}(ops)
	}
	runAdm := func(ops []vfC05Op, mutating bool) {
		defer wg.Done()
		<-start
		for _, op := range ops {
			for i := 0; i < op.Yield; i++ {
				runtime.Gosched()
			}
			adminRunning.Add(1)
			before := inflightQueries.Load()
			e.runAdmin(op, res, mutating)
			if mutating && (before > 0 || inflightQueries.Load() > 0) {
				overlapMu.Lock()
				res.overlap[op.Kind]++
				overlapMu.Unlock()
			}
			adminRunning.Add(-1)
			progress.Add(1)
		}
	}
	for _, ops := range p.Admin {
		wg.Add(1)
		go runAdm(ops, true)
	}
	for _, ops := range p.Readers {
		wg.Add(1)
		go runAdm(ops, false)
	}

	done := make(chan struct{})
	go func() { wg.Wait(); close(done) }()
	close(start)
	if !vfkit.WaitProgress(done, &progress, vfC05Watchdog) {
		buf := make([]byte, 1<<20)
		n := runtime.Stack(buf, true)
		res.fail("stall: no query or admin operation of the program completed for %s (deadlock?)\n%s", vfC05Watchdog, buf[:n])
		res.stalled = true
	}

	return res
}

func vfC05RunProgram(t interface{ Fatalf(string, ...any) }, p *vfC05Program, times int) {
	for i := 0; i < times; i++ {
		e, err := vfNewC05Env()
		if err != nil {
			t.Fatalf("VERIF-INCONCLUSIVE env: %v", err)
		}
		// the list file path differs per environment
		for _, ops := range p.Admin {
			for j := range ops {
				if ops[j].Kind == "add_url" || ops[j].Kind == "remove_url" {
					ops[j].Body = vfReplaceListPath(ops[j].Body, e.listFile)
				}
			}
		}
		res := e.execute(p)
		if res.stalled {
			// closing a stalled server may block for ever; leak it
			t.Fatalf("%s", strings.Join(res.failures, "\n"))
		}
		e.close()

		vfC05.Eval()
		vfC05.ClassN("queries", int(res.queries))
		vfC05.ClassN("admin_ops_ok", int(res.adminOK))
		nover := 0
		for k, v := range res.overlap {
			vfC05.ClassN("overlap:"+k, v)
			nover += v
		}
		if nover > 0 {
			vfC05.Class("program_with_overlap")
			b, _ := json.Marshal(p)
			vfC05.Nontrivial(string(b))
		}
		if len(res.failures) > 0 {
			t.Fatalf("%s", strings.Join(res.failures, "\n"))
		}
	}
}

func vfReplaceListPath(body, listFile string) (out string) {
	var m map[string]any
	if json.Unmarshal([]byte(body), &m) != nil {
		return body
	}
	m["url"] = listFile
	b, _ := json.Marshal(m)

	return string(b)
}

// TestVFC05Programs generates and runs concurrent programs.  With
// VERIF_REPLAY_FILE set it re-runs that program 20 times instead.
func TestVFC05Programs(t *testing.T) {
	vfkit.Begin(t)
	if rf := os.Getenv("VERIF_REPLAY_FILE"); rf != "" {
		b, err := os.ReadFile(rf)
		if err != nil {
			t.Fatalf("VERIF-INCONCLUSIVE replay file: %v", err)
		}
		p := &vfC05Program{}
		if err = json.Unmarshal(b, p); err != nil {
			t.Fatalf("VERIF-INCONCLUSIVE replay file: %v", err)
		}
		vfC05RunProgram(t, p, 20)

		return
	}

	rapid.Check(t, func(t *rapid.T) {
		p := vfC05DrawProgram(t, "/LISTFILE")
		b, _ := json.MarshalIndent(p, "", " ")
		// written before execution: a race report kills the process
		if err := os.WriteFile("program.json", b, 0o644); err != nil {
			t.Fatalf("VERIF-INCONCLUSIVE write program: %v", err)
		}
		vfC05RunProgram(t, p, 1)
		if vfC05.WantSample("program") {
			vfC05.Sample("program", p)
		}
	})
}

// TestVFC05SafeSearchToggle: requests for names the safe-search engine has
// rules for, from many goroutines, while the administrator switches safe
// search off and on through PUT /control/safesearch/settings.  A dense program
// of one kind: the general programs seldom put a request between the engine's
// "is it on" and its use of the rules.  No panic, every request answered.
func TestVFC05SafeSearchToggle(t *testing.T) {
	vfkit.Begin(t)
	rapid.Check(t, func(t *rapid.T) {
		handlers := map[string]http.HandlerFunc{}
		w, err := vfNewWorld(&vfWorldConf{
			ProtectionEnabled: true, FilteringEnabled: true, WithSafeSearch: true,
			HTTPRegister: func(method, url string, h http.HandlerFunc) { handlers[method+" "+url] = h },
		})
		if err != nil {
			t.Fatalf("VERIF-INCONCLUSIVE world: %v", err)
		}
		defer w.close()
		w.flt.RegisterFilteringHandlers()
		put := handlers["PUT /control/safesearch/settings"]
		if put == nil {
			t.Fatalf("VERIF-INCONCLUSIVE no handler for PUT /control/safesearch/settings")
		}

		workers := rapid.IntRange(4, 8).Draw(t, "request_goroutines")
		perWorker := rapid.IntRange(100, 400).Draw(t, "requests_each")
		toggles := rapid.IntRange(10, 60).Draw(t, "settings_changes")
		names := []string{"www.google.com.", "www.google.de.", "www.bing.com.", "duckduckgo.com.", "www.youtube.com.", "yandex.ru.", "pixabay.com.", "free.example."}

		var wg sync.WaitGroup
		var mu sync.Mutex
		var failures []string
		fail := func(format string, args ...any) {
			mu.Lock()
			failures = append(failures, fmt.Sprintf(format, args...))
			mu.Unlock()
		}
		var progress atomic.Int64
		var nextID atomic.Uint64
		for g := 0; g < workers; g++ {
			wg.Add(1)
			go func(g int) {
				defer wg.Done()
				defer func() {
					if p := recover(); p != nil {
						fail("panic while a request was being processed: %v\n%s", p, debug.Stack())
					}
				}()
				for i := 0; i < perWorker; i++ {
					// a different name each time, so that the engine's own cache
					// does not answer
					name := fmt.Sprintf("%s", names[(g+i)%len(names)])
					qt := []uint16{dns.TypeA, dns.TypeAAAA, dns.TypeHTTPS}[i%3]
					q := vfQuery{Name: name, Qtype: qt, Addr: netip.MustParseAddrPort(fmt.Sprintf("198.18.%d.%d:4000", g, i%250+1)), Proto: proxy.ProtoUDP}
					req := &dns.Msg{}
					req.Id = uint16(nextID.Add(1))
					req.RecursionDesired = true
					req.Question = []dns.Question{{Name: q.Name, Qtype: q.Qtype, Qclass: dns.ClassINET}}
					pctx := w.newPCtxWith(q, req, nextID.Add(1)+1<<32)
					sent := req.Copy()
					if berr := w.srv.HandleBefore(w.srv.dnsProxy, pctx); berr != nil {
						fail("request %s %s refused before processing: %v", name, dns.Type(qt), berr)

						return
					}
					if herr := w.srv.handleDNSRequest(w.srv.dnsProxy, pctx); herr != nil || pctx.Res == nil {
						fail("request %s %s not answered: %v", name, dns.Type(qt), herr)

						return
					}
					if pctx.Res.Id != sent.Id || len(pctx.Res.Question) != 1 || !strings.EqualFold(pctx.Res.Question[0].Name, sent.Question[0].Name) {
						fail("response to %s %s does not echo id and question", name, dns.Type(qt))
					}
					progress.Add(1)
				}
			}(g)
		}
		wg.Add(1)
		go func() {
			defer wg.Done()
			defer func() {
				if p := recover(); p != nil {
					fail("panic in PUT /control/safesearch/settings: %v", p)
				}
			}()
			for i := 0; i < toggles; i++ {
				on := i%2 == 1
				body := fmt.Sprintf(`{"enabled":%t,"bing":true,"duckduckgo":true,"ecosia":true,"google":true,"pixabay":true,"yandex":true,"youtube":true}`, on)
				rec := httptest.NewRecorder()
				put(rec, httptest.NewRequest(http.MethodPut, "/control/safesearch/settings", strings.NewReader(body)))
				if rec.Code != http.StatusOK {
					fail("PUT /control/safesearch/settings %s: %d %s", body, rec.Code, rec.Body.String())
				}
				progress.Add(1)
				runtime.Gosched()
			}
		}()
		done := make(chan struct{})
		go func() { wg.Wait(); close(done) }()
		if !vfkit.WaitProgress(done, &progress, 60*time.Second) {
			t.Fatalf("stall: no request and no settings change finished for 60 s")
		}
		if len(failures) > 0 {
			t.Fatalf("%d failures, first: %s", len(failures), failures[0])
		}
		vfC05.Eval()
		vfC05.Class("safesearch_toggle")
		vfC05.Nontrivial(fmt.Sprintf("safesearch_toggle|%d|%d|%d", workers, perWorker, toggles))
	})
}
