//go:build verif

package dnsforward

// C16 (histories on a running server): whatever was served before -- requests
// with other ClientIDs, reconfigurations of the server (which re-create the
// proxy) -- a request is attributed to the ClientID it carries itself: the
// label of its own TLS server name, or none for plain UDP/TCP and for a TLS
// connection to the server name itself.  Real sockets, real TLS handshakes.

import (
	"crypto/ecdsa"
	"crypto/elliptic"
	"crypto/rand"
	"crypto/tls"
	"crypto/x509"
	"crypto/x509/pkix"
	"fmt"
	"math/big"
	"net"
	"net/netip"
	"strings"
	"sync"
	"testing"
	"time"

	"github.com/AdguardTeam/AdGuardHome/internal/vfkit"
	"github.com/AdguardTeam/dnsproxy/proxy"
	"github.com/AdguardTeam/dnsproxy/upstream"
	"github.com/miekg/dns"
	"pgregory.net/rapid"
)

const vfC16HistServerName = "dns.vf.test"

// vfSelfSignedCert makes a throw-away certificate for name and *.name, and for
// the further names given.
func vfSelfSignedCert(name string, more ...string) (cert *tls.Certificate, err error) {
	key, err := ecdsa.GenerateKey(elliptic.P256(), rand.Reader)
	if err != nil {
		return nil, err
	}
	tmpl := &x509.Certificate{
		SerialNumber: big.NewInt(1), Subject: pkix.Name{Organization: []string{"vf"}},
		NotBefore: time.Now().Add(-time.Hour), NotAfter: time.Now().Add(48 * time.Hour),
		KeyUsage: x509.KeyUsageDigitalSignature | x509.KeyUsageCertSign, ExtKeyUsage: []x509.ExtKeyUsage{x509.ExtKeyUsageServerAuth},
		BasicConstraintsValid: true, IsCA: true, DNSNames: append([]string{name, "*." + name}, more...),
	}
	der, err := x509.CreateCertificate(rand.Reader, tmpl, tmpl, &key.PublicKey, key)
	if err != nil {
		return nil, err
	}

	return &tls.Certificate{Certificate: [][]byte{der}, PrivateKey: key}, nil
}

// vfC16Script is the beginning of a scripted history.
var vfC16Script = []string{"dot", "reconfigure", "dot_reuse", "tcp", "tcp", "udp"}

func TestVFC16History(t *testing.T) {
	vfkit.Begin(t)
	cert, err := vfSelfSignedCert(vfC16HistServerName)
	if err != nil {
		t.Fatalf("VERIF-INCONCLUSIVE certificate: %v", err)
	}

	// a real upstream, for the requests that are processed right after a
	// reconfiguration
	pc, err := net.ListenPacket("udp", net.JoinHostPort(vfListenIP().String(), "0"))
	if err != nil {
		t.Fatalf("VERIF-INCONCLUSIVE upstream socket: %v", err)
	}
	upsSrv := &dns.Server{PacketConn: pc, Handler: dns.HandlerFunc(func(rw dns.ResponseWriter, q *dns.Msg) {
		r := (&dns.Msg{}).SetReply(q)
		if len(q.Question) == 1 && q.Question[0].Qtype == dns.TypeA {
			r.Answer = []dns.RR{&dns.A{Hdr: dns.RR_Header{Name: q.Question[0].Name, Rrtype: dns.TypeA, Class: dns.ClassINET, Ttl: 60}, A: net.IPv4(192, 0, 2, 99)}}
		}
		_ = rw.WriteMsg(r)
	})}
	go func() { _ = upsSrv.ActivateAndServe() }()
	defer func() { _ = upsSrv.Shutdown() }()

	rapid.Check(t, func(t *rapid.T) {
		var mu sync.Mutex
		var seen []string
		w, werr := vfNewWorld(&vfWorldConf{
			ProtectionEnabled: true, FilteringEnabled: true, ServerName: vfC16HistServerName, TLSCert: cert,
			UpstreamAddr:  pc.LocalAddr().String(),
			StrictSNI:     rapid.Bool().Draw(t, "strict_sni"),
			OnApplyClient: func(id string, _ netip.Addr) { mu.Lock(); seen = append(seen, id); mu.Unlock() },
		})
		if werr != nil {
			t.Fatalf("VERIF-INCONCLUSIVE world: %v", werr)
		}
		defer w.close()
		if serr := w.srv.Start(); serr != nil {
			t.Fatalf("VERIF-INCONCLUSIVE start: %v", serr)
		}

		var trace []string
		// DoT connections their clients have left open (keep-alive), with the
		// ClientID of their server name
		type keptConn struct {
			conn *dns.Conn
			id   string
			sni  string
		}
		var kept []keptConn
		defer func() {
			for _, k := range kept {
				_ = k.conn.Close()
			}
		}()
		idsBefore := map[string]bool{}
		reconfigured := false
		strict := w.srv.conf.TLSConf.StrictSNICheck
		curName := vfC16HistServerName
		// carried says what a TLS server name carries under the server name
		// configured now: the ClientID, or that the request must fail (a name
		// outside the domain with strict checking).
		carried := func(sni string) (id string, mustFail bool) {
			switch {
			case sni == curName:
				return "", false
			case strings.HasSuffix(sni, "."+curName) && !strings.Contains(strings.TrimSuffix(sni, "."+curName), "."):
				return strings.ToLower(strings.TrimSuffix(sni, "."+curName)), false
			default:
				return "", strict
			}
		}
		n := rapid.IntRange(3, 14).Draw(t, "n_ops")
		scripted := rapid.IntRange(0, 2).Draw(t, "scripted_beginning") == 0
		if scripted {
			n = max(n, len(vfC16Script)+2)
		}
		for i := 0; i < n; i++ {
			label := fmt.Sprintf("op%d", i)
			kinds := []string{"dot", "dot", "dot", "udp", "udp", "tcp", "tcp", "reconfigure"}
			if len(kept) > 0 {
				kinds = append(kinds, "dot_reuse", "dot_reuse", "rename_during_request")
			}
			kind := rapid.SampledFrom(kinds).Draw(t, label+"_kind")
			if scripted && i < len(vfC16Script) {
				// a third of the histories begin with a client that keeps its
				// connection open across a reconfiguration
				kind = vfC16Script[i]
				if kind == "dot_reuse" && len(kept) == 0 {
					kind = "dot"
				}
			}
			if kind == "reconfigure" {
				trace = append(trace, "reconfigure")
				if rerr := w.srv.Reconfigure(nil); rerr != nil {
					t.Fatalf("VERIF-INCONCLUSIVE reconfigure: %v\nhistory: %v", rerr, trace)
				}
				w.srv.conf.UpstreamConfig.Upstreams = []upstream.Upstream{w.ups}
				reconfigured = true

				continue
			}

			req := &dns.Msg{}
			req.SetQuestion(fmt.Sprintf("q%d.history.example.", i), dns.TypeA)
			if kind == "rename_during_request" {
				// the administrator saves the encryption settings with another
				// server name; a client with an open connection sends its next
				// request while the server is being reconfigured.  The request
				// is decided by the old settings or by the new ones.
				k := rapid.IntRange(0, len(kept)-1).Draw(t, label+"_conn")
				delay := rapid.SampledFrom([]int{5, 30, 60, 90}).Draw(t, label+"_delay_ms")
				newName := "dns.vf.test"
				if curName == newName {
					newName = "other.vf.test"
				}
				oldID, oldFail := carried(kept[k].sni)
				trace = append(trace, fmt.Sprintf("server name %s -> %s; %d ms into it a request on the open connection(%s)", curName, newName, delay, kept[k].sni))
				mu.Lock()
				seen = nil
				mu.Unlock()
				conf := w.srv.conf
				tlsConf := *conf.TLSConf
				tlsConf.ServerName = newName
				conf.TLSConf = &tlsConf
				done := make(chan error, 1)
				go func() { done <- w.srv.Reconfigure(&conf) }()
				time.Sleep(time.Duration(delay) * time.Millisecond)
				_ = kept[k].conn.SetDeadline(time.Now().Add(3 * time.Second))
				var resp *dns.Msg
				xerr := kept[k].conn.WriteMsg(req)
				if xerr == nil {
					resp, xerr = kept[k].conn.ReadMsg()
				}
				if rerr := <-done; rerr != nil {
					t.Fatalf("VERIF-INCONCLUSIVE reconfigure: %v\nhistory: %v", rerr, trace)
				}
				w.srv.conf.UpstreamConfig.Upstreams = []upstream.Upstream{w.ups}
				reconfigured = true
				curName = newName
				newID, newFail := carried(kept[k].sni)
				if xerr != nil {
					_ = kept[k].conn.Close()
					kept = append(kept[:k], kept[k+1:]...)
					vfC16.Class("history:request_during_rename_not_answered")

					continue
				}
				vfC16.Eval()
				vfC16.Class("history:rename_during_request")
				vfC16.Nontrivial(fmt.Sprintf("history|rename|%s|%s|%d|%d", kept[k].sni, newName, delay, len(trace)))
				if resp.Rcode != dns.RcodeSuccess {
					vfC16.Class("history:request_during_rename_failed")

					continue
				}
				mu.Lock()
				got := append([]string(nil), seen...)
				mu.Unlock()
				if len(got) != 1 {
					t.Fatalf("VERIF-INCONCLUSIVE %s: the client-settings callback ran %d times for one request\nhistory: %v", trace[len(trace)-1], len(got), trace)
				}
				okOld := !oldFail && got[0] == oldID
				okNew := !newFail && got[0] == newID
				if vfC16.WantSample("history/rename_during_request") {
					vfC16.Sample("history/rename_during_request", map[string]any{"history": append([]string(nil), trace...), "attributed_to": got[0], "by_old_settings": oldID, "by_new_settings": newID, "new_settings_reject": newFail})
				}
				if !okOld && !okNew {
					t.Fatalf("%s was served and attributed to ClientID %q; the old settings say %q (reject: %t), the new ones %q (reject: %t)\nhistory: %v",
						trace[len(trace)-1], got[0], oldID, oldFail, newID, newFail, trace)
				}

				continue
			}
			want := ""
			mustFail := false
			var resp *dns.Msg
			var xerr error
			mu.Lock()
			seen = nil
			mu.Unlock()
			switch kind {
			case "dot":
				id := rapid.SampledFrom([]string{"alice", "bob", "Carol", ""}).Draw(t, label+"_id")
				sni := curName
				if id != "" {
					sni = id + "." + curName
				}
				want = strings.ToLower(id)
				trace = append(trace, "dot("+sni+")")
				var conn *dns.Conn
				conn, xerr = dns.DialTimeoutWithTLS("tcp-tls", w.srv.dnsProxy.Addr(proxy.ProtoTLS).String(),
					&tls.Config{ServerName: sni, InsecureSkipVerify: true}, 5*time.Second)
				if xerr == nil {
					_ = conn.SetDeadline(time.Now().Add(10 * time.Second))
					xerr = conn.WriteMsg(req)
					if xerr == nil {
						resp, xerr = conn.ReadMsg()
					}
					if xerr == nil && len(kept) < 3 && (rapid.IntRange(0, 2).Draw(t, label+"_keep_open") == 0 || (scripted && i == 0)) {
						kept = append(kept, keptConn{conn: conn, id: want, sni: sni})
						trace[len(trace)-1] += " [kept open]"
					} else {
						_ = conn.Close()
					}
				}
			case "dot_reuse":
				// the next query on a connection opened earlier, perhaps before
				// a reconfiguration
				k := rapid.IntRange(0, len(kept)-1).Draw(t, label+"_conn")
				want, mustFail = carried(kept[k].sni)
				trace = append(trace, "dot again on the open connection("+kept[k].sni+")")
				_ = kept[k].conn.SetDeadline(time.Now().Add(3 * time.Second))
				xerr = kept[k].conn.WriteMsg(req)
				if xerr == nil {
					resp, xerr = kept[k].conn.ReadMsg()
				}
				if xerr != nil {
					// the server has closed it meanwhile: its right
					_ = kept[k].conn.Close()
					kept = append(kept[:k], kept[k+1:]...)
				} else if reconfigured {
					vfC16.Class("history:open_connection_served_after_reconfiguration")
				}
			default:
				trace = append(trace, kind)
				cl := &dns.Client{Net: kind, Timeout: 5 * time.Second}
				resp, _, xerr = cl.Exchange(req, w.srv.dnsProxy.Addr(proxy.Proto(kind)).String())
			}
			if xerr != nil || resp == nil {
				// a lost datagram under load decides nothing
				vfC16.Class("history:exchange_failed")
				trace = append(trace, fmt.Sprintf("  (failed: %v)", xerr))

				continue
			}
			if mustFail {
				vfC16.Eval()
				vfC16.Class("history:open_connection_outside_the_new_domain_strict")
				if resp.Rcode == dns.RcodeSuccess {
					t.Fatalf("%s was served although strict checking is on and the name is outside %s\nhistory: %v", trace[len(trace)-1], curName, trace)
				}

				continue
			}
			if resp.Rcode != dns.RcodeSuccess {
				t.Fatalf("%s: rcode %s for a valid request\nhistory: %v", trace[len(trace)-1], dns.RcodeToString[resp.Rcode], trace)
			}
			mu.Lock()
			got := append([]string(nil), seen...)
			mu.Unlock()
			if len(got) != 1 {
				t.Fatalf("VERIF-INCONCLUSIVE %s: the client-settings callback ran %d times for one request\nhistory: %v", trace[len(trace)-1], len(got), trace)
			}

			vfC16.Eval()
			vfC16.Class("history:" + kind)
			otherIDBefore := false
			for id := range idsBefore {
				if id != want {
					otherIDBefore = true
				}
			}
			if otherIDBefore {
				vfC16.Class("history:other_clientid_served_before")
				if reconfigured {
					vfC16.Class("history:other_clientid_before_and_reconfigured")
				}
				vfC16.Nontrivial(fmt.Sprintf("history|%s|want=%q|reconf=%t|%d", kind, want, reconfigured, len(trace)))
			}
			if vfC16.WantSample("history/" + kind) {
				vfC16.Sample("history/"+kind, map[string]any{"history": append([]string(nil), trace...), "attributed_to": got[0], "expected": want})
			}
			if got[0] != want {
				t.Fatalf("request %s was attributed to ClientID %q, it carries %q\nhistory: %v", trace[len(trace)-1], got[0], want, trace)
			}
			if want != "" {
				idsBefore[want] = true
			}
		}
	})
}

// TestVFC16Volume: the attribution of a request does not depend on how many
// requests, of which kind, the server has answered before.  In-process (the
// protocol doubles of TestVFC16Extract), so that thousands of earlier requests
// are cheap: ordinary questions, the questions the server answers by itself
// without looking at the client (Firefox canary, health check, AAAA when AAAA
// is switched off), with and without ClientIDs.
func TestVFC16Volume(t *testing.T) {
	vfkit.Begin(t)
	rapid.Check(t, func(t *rapid.T) {
		var attributed []string
		aaaaOff := rapid.Bool().Draw(t, "aaaa_disabled")
		w, err := vfNewWorld(&vfWorldConf{
			ProtectionEnabled: true, FilteringEnabled: true, ServerName: vfC16HistServerName, AAAADisabled: aaaaOff,
			OnApplyClient: func(id string, _ netip.Addr) { attributed = append(attributed, id) },
		})
		if err != nil {
			t.Fatalf("VERIF-INCONCLUSIVE world: %v", err)
		}
		defer w.close()

		protos := []proxy.Proto{proxy.ProtoTLS, proxy.ProtoQUIC, proxy.ProtoHTTPS, proxy.ProtoUDP, proxy.ProtoTCP}
		ids := []string{"alice", "bob", ""}
		var trace []string
		total := 0
		probe := func(label string) {
			p := rapid.SampledFrom(protos).Draw(t, label+"_proto")
			id := rapid.SampledFrom(ids).Draw(t, label+"_id")
			q := vfQuery{Name: "probe.example.", Qtype: dns.TypeA, Addr: netip.MustParseAddrPort("198.18.0.5:4000"), Proto: p, ClientID: id}
			want := id
			if p == proxy.ProtoUDP || p == proxy.ProtoTCP {
				want = ""
			}
			attributed = nil
			o := w.run(q)
			if o.BeforeErr != nil || o.Err != nil || o.Res == nil {
				t.Fatalf("probe over %s with ClientID %q failed: before=%v err=%v\nearlier: %v", p, id, o.BeforeErr, o.Err, trace)
			}
			vfC16.Eval()
			vfC16.Class("volume:probe")
			if total >= 1024 {
				vfC16.Class("volume:probe_after_1024_requests")
			}
			vfC16.Nontrivial(fmt.Sprintf("volume|%s|%q|%d|%v", p, id, total, trace))
			if len(attributed) != 1 || attributed[0] != want {
				t.Fatalf("request over %s carrying ClientID %q was attributed to %q after %d earlier requests\nearlier: %v",
					p, want, attributed, total, trace)
			}
			if vfC16.WantSample("volume") {
				vfC16.Sample("volume", map[string]any{"earlier": append([]string(nil), trace...), "proto": p, "carries": want, "attributed_to": attributed[0]})
			}
		}

		probe("first")
		nBulk := rapid.IntRange(1, 3).Draw(t, "n_bulks")
		for b := 0; b < nBulk; b++ {
			label := fmt.Sprintf("bulk%d", b)
			kind := rapid.SampledFrom([]string{"ordinary", "canary", "healthcheck", "aaaa"}).Draw(t, label+"_kind")
			count := rapid.SampledFrom([]int{3, 40, 1100, 2300}).Draw(t, label+"_count")
			withID := rapid.IntRange(0, 3).Draw(t, label+"_with_id") > 0
			p := rapid.SampledFrom(protos[:3]).Draw(t, label+"_proto")
			q := vfQuery{Name: "bulk.example.", Qtype: dns.TypeA, Addr: netip.MustParseAddrPort("198.18.0.6:4000"), Proto: p}
			switch kind {
			case "canary":
				q.Name = "use-application-dns.net."
			case "healthcheck":
				q.Name = "healthcheck.adguardhome.test."
			case "aaaa":
				q.Qtype = dns.TypeAAAA
			}
			for i := 0; i < count; i++ {
				if withID {
					q.ClientID = fmt.Sprintf("dev%d", i%7)
				}
				o := w.run(q)
				if o.BeforeErr != nil || o.Err != nil {
					t.Fatalf("bulk request %d (%s over %s) failed: before=%v err=%v", i, kind, p, o.BeforeErr, o.Err)
				}
			}
			total += count
			trace = append(trace, fmt.Sprintf("%d x %s over %s (ClientIDs: %t, aaaa_disabled: %t)", count, kind, p, withID, aaaaOff))
			vfC16.Class("volume:bulk:" + kind)
			for k := 0; k < 3; k++ {
				probe(fmt.Sprintf("%s_probe%d", label, k))
			}
		}
	})
}
