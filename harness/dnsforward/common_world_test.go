//go:build verif

package dnsforward

// Shared "world" builder of the dnsforward harnesses (C01 C02 C03 C08 C16 C05,
// and the response-assembly half of C06): a real filtering.DNSFilter fed through
// the production loading path, a real Server prepared with the production
// Prepare, an in-process recording upstream, and optionally real query log,
// statistics and persistent-client storage.  Nothing here is an oracle.

import (
	"context"
	"crypto/tls"
	"fmt"
	"io"
	"net"
	"net/http"
	"net/netip"
	"net/url"
	"os"
	"path/filepath"
	"sort"
	"strings"
	"sync"
	"time"

	"github.com/AdguardTeam/AdGuardHome/internal/aghnet"
	"github.com/AdguardTeam/AdGuardHome/internal/client"
	"github.com/AdguardTeam/AdGuardHome/internal/dhcpsvc"
	"github.com/AdguardTeam/AdGuardHome/internal/filtering"
	"github.com/AdguardTeam/AdGuardHome/internal/filtering/rulelist"
	"github.com/AdguardTeam/AdGuardHome/internal/filtering/safesearch"
	"github.com/AdguardTeam/AdGuardHome/internal/querylog"
	"github.com/AdguardTeam/AdGuardHome/internal/schedule"
	"github.com/AdguardTeam/AdGuardHome/internal/stats"
	"github.com/AdguardTeam/dnsproxy/proxy"
	"github.com/AdguardTeam/dnsproxy/upstream"
	"github.com/AdguardTeam/golibs/log"
	"github.com/AdguardTeam/golibs/logutil/slogutil"
	"github.com/AdguardTeam/golibs/netutil"
	"github.com/AdguardTeam/golibs/timeutil"
	"github.com/miekg/dns"
	"github.com/quic-go/quic-go"
)

func init() {
	log.SetOutput(io.Discard)
	filtering.InitModule()
}

// vfAsked is one question the upstream double received.
type vfAsked struct {
	Name  string
	Qtype uint16
}

// vfUpstream is the in-process upstream double.  It records every question and
// answers from answer (or the default fixture).
type vfUpstream struct {
	mu    sync.Mutex
	asked []vfAsked
	// last is a copy of the last response handed out.
	last   *dns.Msg
	answer func(req *dns.Msg) (resp *dns.Msg)
}

// type check
var _ upstream.Upstream = (*vfUpstream)(nil)

// Exchange implements the [upstream.Upstream] interface for *vfUpstream.
func (u *vfUpstream) Exchange(req *dns.Msg) (resp *dns.Msg, err error) {
	q := req.Question[0]
	u.mu.Lock()
	u.asked = append(u.asked, vfAsked{Name: q.Name, Qtype: q.Qtype})
	f := u.answer
	u.mu.Unlock()

	if f != nil {
		resp = f(req)
	}
	if resp == nil {
		resp = vfFixtureAnswer(req)
	}
	u.mu.Lock()
	u.last = resp.Copy()
	u.mu.Unlock()

	return resp, nil
}

// Address implements the [upstream.Upstream] interface for *vfUpstream.
func (u *vfUpstream) Address() (addr string) { return "vf-upstream.invalid:53" }

// Close implements the [upstream.Upstream] interface for *vfUpstream.
func (u *vfUpstream) Close() (err error) { return nil }

// take returns and clears the recorded questions.
func (u *vfUpstream) take() (asked []vfAsked) {
	u.mu.Lock()
	defer u.mu.Unlock()

	asked, u.asked = u.asked, nil

	return asked
}

// lastResponse returns a copy of the last response handed out.
func (u *vfUpstream) lastResponse() (resp *dns.Msg) {
	u.mu.Lock()
	defer u.mu.Unlock()

	return u.last
}

// vfFixtureTTL marks every record of the default upstream fixture.
const vfFixtureTTL = 777

// vfNameByte is a small deterministic function of the name.
func vfNameByte(name string) (b byte) {
	var h uint32 = 2166136261
	for _, c := range []byte(strings.ToLower(name)) {
		h = (h ^ uint32(c)) * 16777619
	}

	return byte(h%250) + 1
}

// vfFixtureAnswer is the default upstream answer: a deterministic function of
// the question, recognisable by vfFixtureTTL and by addresses in
// 198.51.100.0/24 and 2001:db8:f1::/48.
func vfFixtureAnswer(req *dns.Msg) (resp *dns.Msg) {
	resp = (&dns.Msg{}).SetReply(req)
	resp.RecursionAvailable = true
	q := req.Question[0]
	hdr := dns.RR_Header{Name: q.Name, Rrtype: q.Qtype, Class: dns.ClassINET, Ttl: vfFixtureTTL}
	b := vfNameByte(q.Name)
	switch q.Qtype {
	case dns.TypeA:
		resp.Answer = []dns.RR{&dns.A{Hdr: hdr, A: net.IPv4(198, 51, 100, b).To4()}}
	case dns.TypeAAAA:
		resp.Answer = []dns.RR{&dns.AAAA{Hdr: hdr, AAAA: net.ParseIP(fmt.Sprintf("2001:db8:f1::%x", b))}}
	case dns.TypeTXT:
		resp.Answer = []dns.RR{&dns.TXT{Hdr: hdr, Txt: []string{"vf-upstream " + strings.ToLower(q.Name)}}}
	case dns.TypeMX:
		resp.Answer = []dns.RR{&dns.MX{Hdr: hdr, Preference: 10, Mx: "mx.vf-upstream.invalid."}}
	case dns.TypeCNAME:
		resp.Answer = []dns.RR{&dns.CNAME{Hdr: hdr, Target: "cname.vf-upstream.invalid."}}
	case dns.TypePTR:
		resp.Answer = []dns.RR{&dns.PTR{Hdr: hdr, Ptr: "ptr.vf-upstream.invalid."}}
	case dns.TypeSRV:
		resp.Answer = []dns.RR{&dns.SRV{Hdr: hdr, Priority: 1, Weight: 1, Port: 443, Target: "srv.vf-upstream.invalid."}}
	case dns.TypeHTTPS:
		resp.Answer = []dns.RR{&dns.HTTPS{SVCB: dns.SVCB{
			Hdr: hdr, Priority: 1, Target: ".", Value: []dns.SVCBKeyValue{&dns.SVCBAlpn{Alpn: []string{"h2"}}},
		}}}
	default:
		h := hdr
		h.Rrtype = dns.TypeA
		resp.Answer = []dns.RR{&dns.A{Hdr: h, A: net.IPv4(198, 51, 100, b).To4()}}
	}

	return resp
}

// vfDHCP is a map-backed DHCP double for dnsforward and the client storage.
type vfDHCP struct {
	enabled bool
	macByIP map[netip.Addr]net.HardwareAddr
}

func (d *vfDHCP) HostByIP(_ netip.Addr) (host string) { return "" }
func (d *vfDHCP) IPByHost(_ string) (ip netip.Addr)   { return netip.Addr{} }
func (d *vfDHCP) Enabled() (ok bool)                  { return d.enabled }
func (d *vfDHCP) Leases() (leases []*dhcpsvc.Lease)   { return nil }
func (d *vfDHCP) MACByIP(ip netip.Addr) (mac net.HardwareAddr) {
	return d.macByIP[ip]
}

// The sentinel record of QLogSentinel.
const (
	vfSentinelHost = "sentinel.vf.invalid"
	vfSentinelIP   = "203.0.0.0"
)

// vfNoChecker is a hash-prefix checker double that never blocks.
type vfNoChecker struct{}

// Check implements the [filtering.Checker] interface for vfNoChecker.
func (vfNoChecker) Check(_ string) (block bool, err error) { return false, nil }

// vfHostChecker is a hash-prefix checker double that blocks the listed hosts
// and their sub-domains (the real checker also looks at the parent domains).
type vfHostChecker struct{ hosts []string }

// Check implements the [filtering.Checker] interface for vfHostChecker.
func (c vfHostChecker) Check(host string) (block bool, err error) {
	host = strings.ToLower(strings.TrimSuffix(host, "."))
	for _, h := range c.hosts {
		if host == h || strings.HasSuffix(host, "."+h) {
			return true, nil
		}
	}

	return false, nil
}

func slicesClone(ss []string) (out []string) { return append([]string(nil), ss...) }

// vfListConf is one filter list of a world.
type vfListConf struct {
	Rules   []string
	Enabled bool
}

// vfWorldConf describes a world.
type vfWorldConf struct {
	BlockLists []vfListConf
	AllowLists []vfListConf
	UserRules  []string

	Rewrites []*filtering.LegacyRewrite

	Mode         filtering.BlockingMode
	BlockingIPv4 netip.Addr
	BlockingIPv6 netip.Addr
	BlockedTTL   uint32

	ProtectionEnabled bool
	DisabledUntil     *time.Time
	FilteringEnabled  bool

	// ServiceIDs are the globally blocked services; ServicesPaused selects the
	// full-week pause schedule instead of the empty one.
	ServiceIDs     []string
	ServicesPaused bool
	// ServicesZone, if set, is the time zone of the global pause schedule.
	ServicesZone string

	// Clients are added to a real client.Storage which then provides
	// ApplyClientFiltering.
	Clients []*client.Persistent
	DHCPMAC map[netip.Addr]net.HardwareAddr
	// DHCPEnabled makes the DHCP server double report that it is enabled (it
	// has no leases): names under the local domain "lan" are then its.
	DHCPEnabled bool

	AAAADisabled bool
	RefuseAny    bool

	Allowed      []string
	Disallowed   []string
	BlockedHosts []string

	ServerName string
	StrictSNI  bool
	// UpstreamAddr, if set, is a real upstream server for the configuration:
	// what the server uses from a reconfiguration until the test puts its
	// in-process upstream back.
	UpstreamAddr string

	// WithLogStats creates real query log and statistics in the data dir.
	WithLogStats bool
	Anonymize    bool
	QLogIgnored  []string
	StatsIgnored []string
	QLogMemSize  uint
	// QLogSentinel pre-creates querylog.json with one recent record (see
	// vfNewWorld).
	QLogSentinel   bool
	FindClient     func(ids []string) (c *querylog.Client, err error)
	ShouldCountCli func(ids []string) (ok bool)

	// CacheSize, if not zero, enables the DNS cache of the proxy (bytes).
	CacheSize uint32

	// WithSafeSearch configures the default safe-search service as home does.
	WithSafeSearch bool

	// SafeBrowsingEnabled and ParentalEnabled are the global switches; SBHosts
	// and PCHosts are what the checker doubles of the two services block.
	SafeBrowsingEnabled bool
	ParentalEnabled     bool
	SBHosts             []string
	PCHosts             []string

	// SafeFS are the safe patterns for local filter-list files.
	SafeFS []string
	// LocalListURLs gives every filter list a local file as its source (and
	// allows that directory), so that the lists can be re-read at run time.
	LocalListURLs bool

	// TLSCert, if set, makes the server listen for DNS-over-TLS on a loopback
	// port with this certificate.
	TLSCert *tls.Certificate
	// OnApplyClient, if set, sees every call of the per-request client
	// settings callback (ClientID and address the server attributes the
	// request to) before the real one runs.
	OnApplyClient func(id string, addr netip.Addr)

	// ConfigModified, if set, is the callback every module gets for "the
	// configuration changed, save it".
	ConfigModified func()

	// HTTPRegister, if set, receives the handler registrations of all modules.
	HTTPRegister func(method, url string, handler http.HandlerFunc)
}

// vfListenIP is the loopback address the servers of this process listen on.
// dnsproxy sets SO_REUSEPORT on its sockets, and with it the kernel may hand a
// port that a server of another process (another shard, another check) already
// has to a server that asks for any free port; datagrams and connections are
// then spread over both servers.  Every process therefore listens on a
// loopback address of its own (127.<1..64>.<pid bits>), where a port cannot be
// shared with another process.
func vfListenIP() (ip net.IP) {
	pid := os.Getpid()

	return net.IPv4(127, byte(1+(pid>>16)&0x3f), byte(pid>>8), byte(pid))
}

// vfWorld is a built world.
type vfWorld struct {
	dir     string
	conf    *vfWorldConf
	flt     *filtering.DNSFilter
	srv     *Server
	ups     *vfUpstream
	storage *client.Storage
	qlog    querylog.QueryLog
	stats   stats.Interface
	dhcp    *vfDHCP
	anon    *aghnet.IPMut
	nextID  uint64
	// listIDs maps the filter list position to its ID: block lists first.
	blockIDs []int
	allowIDs []int
	// blockURLs and allowURLs are the sources of the lists.
	blockURLs []string
	allowURLs []string
}

// vfFullWeek is the all-week pause schedule in UTC; vfEmptyWeek pauses never.
func vfFullWeek() (w *schedule.Weekly) {
	w = &schedule.Weekly{}
	const day = `{"start":0,"end":86400000}`
	js := `{"time_zone":"UTC","sun":` + day + `,"mon":` + day + `,"tue":` + day + `,"wed":` + day +
		`,"thu":` + day + `,"fri":` + day + `,"sat":` + day + `}`
	if err := w.UnmarshalJSON([]byte(js)); err != nil {
		panic(err)
	}

	return w
}

// vfWeekIn is the all-week (full) or never (not full) pause schedule in zone.
func vfWeekIn(zone string, full bool) (w *schedule.Weekly) {
	w = &schedule.Weekly{}
	js := `{"time_zone":"` + zone + `"}`
	if full {
		const day = `{"start":0,"end":86400000}`
		js = `{"time_zone":"` + zone + `","sun":` + day + `,"mon":` + day + `,"tue":` + day + `,"wed":` + day +
			`,"thu":` + day + `,"fri":` + day + `,"sat":` + day + `}`
	}
	if err := w.UnmarshalJSON([]byte(js)); err != nil {
		panic(err)
	}

	return w
}

func vfEmptyWeek() (w *schedule.Weekly) {
	w = &schedule.Weekly{}
	if err := w.UnmarshalJSON([]byte(`{"time_zone":"UTC"}`)); err != nil {
		panic(err)
	}

	return w
}

// vfNewWorld builds a world.  The caller must call close.
func vfNewWorld(c *vfWorldConf) (w *vfWorld, err error) {
	dir, err := os.MkdirTemp("", "vfworld")
	if err != nil {
		return nil, fmt.Errorf("VERIF-INCONCLUSIVE mkdir: %w", err)
	}

	w = &vfWorld{dir: dir, conf: c, ups: &vfUpstream{}, dhcp: &vfDHCP{macByIP: c.DHCPMAC, enabled: c.DHCPEnabled}}
	defer func() {
		if err != nil {
			w.close()
		}
	}()

	fdir := filepath.Join(dir, "filters")
	err = os.MkdirAll(fdir, 0o755)
	if err != nil {
		return nil, fmt.Errorf("VERIF-INCONCLUSIVE mkdir: %w", err)
	}

	mkLists := func(lists []vfListConf, base int, kind string) (ys []filtering.FilterYAML, ids []int, werr error) {
		for i, l := range lists {
			id := base + i
			ids = append(ids, id)
			text := strings.Join(l.Rules, "\n") + "\n"
			werr = os.WriteFile(filepath.Join(fdir, fmt.Sprintf("%d.txt", id)), []byte(text), 0o644)
			if werr != nil {
				return nil, nil, fmt.Errorf("VERIF-INCONCLUSIVE write list: %w", werr)
			}
			y := filtering.FilterYAML{
				Enabled: l.Enabled,
				URL:     fmt.Sprintf("https://lists.vf.invalid/%s/%d.txt", kind, id),
				Name:    fmt.Sprintf("%s %d", kind, id),
			}
			if c.LocalListURLs {
				y.URL = filepath.Join(dir, "src", fmt.Sprintf("%s-%d.txt", kind, id))
				werr = os.MkdirAll(filepath.Dir(y.URL), 0o755)
				if werr == nil {
					werr = os.WriteFile(y.URL, []byte(text), 0o644)
				}
				if werr != nil {
					return nil, nil, fmt.Errorf("VERIF-INCONCLUSIVE write list source: %w", werr)
				}
			}
			y.ID = rulelist.URLFilterID(id)
			ys = append(ys, y)
		}

		return ys, ids, nil
	}

	var blockY, allowY []filtering.FilterYAML
	blockY, w.blockIDs, err = mkLists(c.BlockLists, 100, "block")
	if err != nil {
		return nil, err
	}
	allowY, w.allowIDs, err = mkLists(c.AllowLists, 200, "allow")
	if err != nil {
		return nil, err
	}
	for _, y := range blockY {
		w.blockURLs = append(w.blockURLs, y.URL)
	}
	for _, y := range allowY {
		w.allowURLs = append(w.allowURLs, y.URL)
	}
	safeFS := c.SafeFS
	if c.LocalListURLs {
		safeFS = append(slicesClone(safeFS), filepath.Join(dir, "src", "*"))
	}

	logger := slogutil.NewDiscardLogger()
	ctx := context.Background()
	confModified := c.ConfigModified
	if confModified == nil {
		confModified = func() {}
	}

	applyClient := func(_ string, _ netip.Addr, _ *filtering.Settings) {}
	var clientsContainer ClientsContainer = EmptyClientsContainer{}
	if len(c.Clients) > 0 || c.DHCPMAC != nil {
		w.storage, err = client.NewStorage(ctx, &client.StorageConfig{
			Logger: logger,
			Clock:  timeutil.SystemClock{},
			DHCP:   w.dhcp,
		})
		if err != nil {
			return nil, fmt.Errorf("VERIF-INCONCLUSIVE client storage: %w", err)
		}
		for _, p := range c.Clients {
			err = w.storage.Add(ctx, p)
			if err != nil {
				return nil, fmt.Errorf("world: adding client %q: %w", p.Name, err)
			}
		}
		applyClient = w.storage.ApplyClientFiltering
		clientsContainer = w.storage
	}

	if c.OnApplyClient != nil {
		inner := applyClient
		applyClient = func(id string, addr netip.Addr, setts *filtering.Settings) {
			c.OnApplyClient(id, addr)
			inner(id, addr, setts)
		}
	}

	sched := vfEmptyWeek()
	if c.ServicesPaused {
		sched = vfFullWeek()
	}
	if c.ServicesZone != "" {
		sched = vfWeekIn(c.ServicesZone, c.ServicesPaused)
	}

	ttl := c.BlockedTTL
	if ttl == 0 {
		ttl = 10
	}
	mode := c.Mode
	if mode == "" {
		mode = filtering.BlockingModeDefault
	}

	fconf := &filtering.Config{
		BlockingIPv4:            c.BlockingIPv4,
		BlockingIPv6:            c.BlockingIPv6,
		ApplyClientFiltering:    applyClient,
		BlockedServices:         &filtering.BlockedServices{Schedule: sched, IDs: c.ServiceIDs},
		ConfigModified:          confModified,
		HTTPRegister:            c.HTTPRegister,
		HTTPClient:              &http.Client{Timeout: time.Second},
		DataDir:                 dir,
		BlockingMode:            mode,
		Rewrites:                c.Rewrites,
		Filters:                 blockY,
		WhitelistFilters:        allowY,
		UserRules:               c.UserRules,
		SafeFSPatterns:          safeFS,
		BlockedResponseTTL:      ttl,
		FilteringEnabled:        c.FilteringEnabled,
		ProtectionEnabled:       c.ProtectionEnabled,
		ProtectionDisabledUntil: c.DisabledUntil,
		CacheTime:               30,
	}

	// hash-prefix checkers that never block (the real ones need the network)
	fconf.SafeBrowsingChecker = vfNoChecker{}
	fconf.ParentalControlChecker = vfNoChecker{}
	if len(c.SBHosts) > 0 {
		fconf.SafeBrowsingChecker = vfHostChecker{hosts: c.SBHosts}
	}
	if len(c.PCHosts) > 0 {
		fconf.ParentalControlChecker = vfHostChecker{hosts: c.PCHosts}
	}
	fconf.SafeBrowsingEnabled = c.SafeBrowsingEnabled
	fconf.ParentalEnabled = c.ParentalEnabled
	fconf.SafeBrowsingBlockHost = "standard-block.dns.adguard.com"
	fconf.ParentalBlockHost = "family-block.dns.adguard.com"

	if c.WithSafeSearch {
		fconf.SafeSearchConf = filtering.SafeSearchConfig{
			Bing: true, DuckDuckGo: true, Ecosia: true, Google: true, Pixabay: true, Yandex: true, YouTube: true,
		}
		fconf.SafeSearch, err = safesearch.NewDefault(ctx, &safesearch.DefaultConfig{
			Logger:         logger,
			ServicesConfig: fconf.SafeSearchConf,
			CacheSize:      1 << 20,
			CacheTTL:       30 * time.Minute,
		})
		if err != nil {
			return nil, fmt.Errorf("VERIF-INCONCLUSIVE safesearch: %w", err)
		}
	}

	w.flt, err = filtering.New(fconf, nil)
	if err != nil {
		return nil, fmt.Errorf("world: filtering.New: %w", err)
	}
	w.flt.EnableFilters(false)

	w.anon = aghnet.NewIPMut(nil)
	if c.Anonymize {
		w.anon.Store(querylog.AnonymizeIP)
	}

	if c.WithLogStats {
		var qIgn, sIgn *aghnet.IgnoreEngine
		qIgn, err = aghnet.NewIgnoreEngine(c.QLogIgnored)
		if err != nil {
			return nil, fmt.Errorf("world: qlog ignore engine: %w", err)
		}
		sIgn, err = aghnet.NewIgnoreEngine(c.StatsIgnored)
		if err != nil {
			return nil, fmt.Errorf("world: stats ignore engine: %w", err)
		}

		findClient := c.FindClient
		if findClient == nil {
			findClient = func(_ []string) (cl *querylog.Client, ferr error) { return nil, nil }
		}
		memSize := c.QLogMemSize
		if c.QLogSentinel {
			// A recent first record keeps the start-up rotation check of the
			// query log (a goroutine Start spawns) from renaming the file at
			// an arbitrary later moment: with no file at all that check races
			// with the first flush.
			line := fmt.Sprintf(`{"T":%q,"QH":%q,"QT":"A","QC":"IN","CP":"","IP":%q,"Result":{},"Elapsed":1000}`+"\n",
				time.Now().Format(time.RFC3339Nano), vfSentinelHost, vfSentinelIP)
			err = os.WriteFile(filepath.Join(dir, "querylog.json"), []byte(line), 0o644)
			if err != nil {
				return nil, fmt.Errorf("VERIF-INCONCLUSIVE sentinel: %w", err)
			}
		}
		w.qlog, err = querylog.New(querylog.Config{
			Logger:            logger,
			Ignored:           qIgn,
			Anonymizer:        w.anon,
			ConfigModified:    confModified,
			HTTPRegister:      c.HTTPRegister,
			FindClient:        findClient,
			BaseDir:           dir,
			RotationIvl:       24 * time.Hour,
			MemSize:           memSize,
			Enabled:           true,
			FileEnabled:       true,
			AnonymizeClientIP: c.Anonymize,
		})
		if err != nil {
			return nil, fmt.Errorf("VERIF-INCONCLUSIVE querylog.New: %w", err)
		}

		shouldCount := c.ShouldCountCli
		if shouldCount == nil {
			shouldCount = func(_ []string) (ok bool) { return true }
		}
		w.stats, err = stats.New(stats.Config{
			Logger:            logger,
			ConfigModified:    confModified,
			ShouldCountClient: shouldCount,
			HTTPRegister:      c.HTTPRegister,
			Ignored:           sIgn,
			Filename:          filepath.Join(dir, "stats.db"),
			Limit:             24 * time.Hour,
			Enabled:           true,
		})
		if err != nil {
			return nil, fmt.Errorf("VERIF-INCONCLUSIVE stats.New: %w", err)
		}
	}

	w.srv, err = NewServer(DNSCreateParams{
		DNSFilter:   w.flt,
		Stats:       w.stats,
		QueryLog:    w.qlog,
		DHCPServer:  w.dhcp,
		PrivateNets: netutil.SubnetSetFunc(netutil.IsLocallyServed),
		Anonymizer:  w.anon,
		Logger:      logger,
	})
	if err != nil {
		return nil, fmt.Errorf("VERIF-INCONCLUSIVE NewServer: %w", err)
	}

	sconf := &ServerConfig{
		UDPListenAddrs: []*net.UDPAddr{{IP: vfListenIP()}},
		TCPListenAddrs: []*net.TCPAddr{{IP: vfListenIP()}},
		TLSConf:        &TLSConfig{ServerName: c.ServerName, StrictSNICheck: c.StrictSNI},
		Config: Config{
			ClientsContainer:  clientsContainer,
			UpstreamDNS:       []string{"127.0.0.1:5"},
			BootstrapDNS:      []string{"127.0.0.1:5"},
			UpstreamMode:      UpstreamModeLoadBalance,
			EDNSClientSubnet:  &EDNSClientSubnet{Enabled: false},
			AAAADisabled:      c.AAAADisabled,
			RefuseAny:         c.RefuseAny,
			AllowedClients:    c.Allowed,
			DisallowedClients: c.Disallowed,
			BlockedHosts:      c.BlockedHosts,
			CacheSize:         c.CacheSize,
		},
		ConfigModified:  confModified,
		HTTPRegister:    c.HTTPRegister,
		UpstreamTimeout: time.Second,
		ServePlainDNS:   true,
	}
	if c.TLSCert != nil {
		sconf.TLSConf.Cert = c.TLSCert
		sconf.TLSConf.TLSListenAddrs = []*net.TCPAddr{{IP: vfListenIP()}}
	}
	if c.UpstreamAddr != "" {
		sconf.UpstreamDNS = []string{c.UpstreamAddr}
	}
	err = w.srv.Prepare(sconf)
	if err != nil {
		return nil, fmt.Errorf("world: Prepare: %w", err)
	}
	w.srv.conf.UpstreamConfig.Upstreams = []upstream.Upstream{w.ups}

	return w, nil
}

// close releases everything the world holds.
func (w *vfWorld) close() {
	if w.srv != nil && w.srv.isRunning {
		_ = w.srv.Stop()
	}
	if w.srv != nil && w.srv.addrProc != nil {
		_ = w.srv.addrProc.Close()
	}
	if w.qlog != nil {
		_ = w.qlog.Shutdown(context.Background())
	}
	if w.stats != nil {
		_ = w.stats.Close()
	}
	if w.storage != nil {
		_ = w.storage.Shutdown(context.Background())
	}
	if w.flt != nil {
		w.flt.Close()
	}
	_ = os.RemoveAll(w.dir)
}

// vfTLSConn is a double of *tls.Conn carrying a server name.
type vfTLSConn struct {
	net.Conn
	serverName string
}

// ConnectionState implements the tlsConn interface for vfTLSConn.
func (c vfTLSConn) ConnectionState() (cs tls.ConnectionState) {
	cs.ServerName = c.serverName

	return cs
}

// vfQUICConn is a double of quic.Connection carrying a server name.
type vfQUICConn struct {
	quic.Connection
	serverName string
}

// ConnectionState implements the quicConnection interface for vfQUICConn.
func (c vfQUICConn) ConnectionState() (cs quic.ConnectionState) {
	cs.TLS.ServerName = c.serverName

	return cs
}

// vfQuery is one DNS request to run through the server.
type vfQuery struct {
	Name  string // FQDN as on the wire (case preserved)
	Qtype uint16
	Addr  netip.AddrPort
	Proto proxy.Proto

	// ClientID, if not empty, is carried the way the protocol carries it: as
	// the left-most label of the server name (DoT, DoQ) or as the path segment
	// (DoH).  For protocols that cannot carry one it is ignored.
	ClientID string

	// SNI overrides the server name presented by the client (DoT/DoQ, and the
	// TLS state of DoH when HTTPTLS is set).
	SNI string

	// HTTPPath and HTTPHost override the DoH request path and Host header.
	HTTPPath string
	HTTPHost string
	// HTTPTLS makes the DoH request carry a TLS state with SNI.
	HTTPTLS bool
}

// vfOutcome is what a query produced.
type vfOutcome struct {
	Req       *dns.Msg
	Res       *dns.Msg
	Err       error
	BeforeErr error
	Asked     []vfAsked
	// Upstream is the response the upstream double gave, if it was asked.
	Upstream *dns.Msg
	PCtx     *proxy.DNSContext
}

// newPCtx builds the proxy context dnsproxy would hand to the hooks.
func (w *vfWorld) newPCtx(q vfQuery) (pctx *proxy.DNSContext) {
	req := &dns.Msg{}
	req.Id = dns.Id()
	req.RecursionDesired = true
	req.Question = []dns.Question{{Name: q.Name, Qtype: q.Qtype, Qclass: dns.ClassINET}}

	w.nextID++

	return w.newPCtxWith(q, req, w.nextID)
}

// newPCtxWith is newPCtx with the request message and the request ID given by
// the caller; it does not touch shared state and is safe for concurrent use.
func (w *vfWorld) newPCtxWith(q vfQuery, req *dns.Msg, id uint64) (pctx *proxy.DNSContext) {
	proto := q.Proto
	if proto == "" {
		proto = proxy.ProtoUDP
	}
	pctx = &proxy.DNSContext{
		Proto:     proto,
		Req:       req,
		Addr:      q.Addr,
		RequestID: id,
	}
	if q.Addr.IsValid() {
		pctx.IsPrivateClient = netutil.IsLocallyServed(q.Addr.Addr())
	}

	sni := q.SNI
	if sni == "" {
		sni = w.conf.ServerName
		if q.ClientID != "" && sni != "" {
			sni = q.ClientID + "." + sni
		}
	}
	switch proto {
	case proxy.ProtoTLS:
		pctx.Conn = vfTLSConn{serverName: sni}
	case proxy.ProtoQUIC:
		pctx.QUICConnection = vfQUICConn{serverName: sni}
	case proxy.ProtoHTTPS:
		p := q.HTTPPath
		if p == "" {
			p = "/dns-query"
			if q.ClientID != "" {
				p += "/" + q.ClientID
			}
		}
		host := q.HTTPHost
		if host == "" {
			host = w.conf.ServerName
		}
		r := &http.Request{Method: http.MethodPost, URL: &url.URL{Path: p}, Host: host, Header: http.Header{}}
		if q.HTTPTLS {
			hs := q.SNI
			if hs == "" {
				hs = w.conf.ServerName
			}
			r.TLS = &tls.ConnectionState{ServerName: hs}
		}
		pctx.HTTPRequest = r
	}

	return pctx
}

// run sends q through the production pre-request hook and request handler the
// way dnsproxy does (HandleBefore first; if it fails the request handler is not
// called), recording what the upstream double was asked.
func (w *vfWorld) run(q vfQuery) (o *vfOutcome) {
	pctx := w.newPCtx(q)
	o = &vfOutcome{Req: pctx.Req.Copy(), PCtx: pctx}
	w.ups.take()

	o.BeforeErr = w.srv.HandleBefore(w.srv.dnsProxy, pctx)
	if o.BeforeErr != nil {
		o.Asked = w.ups.take()

		return o
	}

	o.Err = w.srv.handleDNSRequest(w.srv.dnsProxy, pctx)
	o.Res = pctx.Res
	o.Asked = w.ups.take()
	if len(o.Asked) > 0 {
		o.Upstream = w.ups.lastResponse()
	}

	return o
}

// vfRRStrings renders RRs for messages and comparisons.
func vfRRStrings(rrs []dns.RR) (ss []string) {
	for _, rr := range rrs {
		ss = append(ss, rr.String())
	}

	return ss
}

// vfWireStrings renders rrs with the SVCB parameters of HTTPS records ordered
// by key, which is the order of the wire form (RFC 9460 2.2) and what comes
// back from the DNS cache.
func vfWireStrings(rrs []dns.RR) (ss []string) {
	for _, rr := range rrs {
		rr = dns.Copy(rr)
		if h, ok := rr.(*dns.HTTPS); ok {
			sort.SliceStable(h.Value, func(i, j int) bool { return h.Value[i].Key() < h.Value[j].Key() })
		}
		ss = append(ss, rr.String())
	}

	return ss
}

// vfDropTTL is vfWireStrings with every TTL set to zero.
func vfDropTTL(rrs []dns.RR) (ss []string) {
	var cp []dns.RR
	for _, rr := range rrs {
		rr = dns.Copy(rr)
		rr.Header().Ttl = 0
		cp = append(cp, rr)
	}

	return vfWireStrings(cp)
}
