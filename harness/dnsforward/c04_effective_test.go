//go:build verif

package dnsforward

// C04 (effect on requests): the owner's own filtering, safe-browsing, parental
// and blocked-services settings decide a request exactly when the owner opts
// out of the global ones; otherwise, and for requests without an owner, the
// global settings decide.  The verdict is observed on real requests through
// the server: blocked = the upstream is not asked for the name.  Schedules are only the two
// clock-free ones (full week, empty).

import (
	"fmt"
	"net"
	"net/netip"
	"strings"
	"testing"

	"github.com/AdguardTeam/AdGuardHome/internal/client"
	"github.com/AdguardTeam/AdGuardHome/internal/filtering"
	"github.com/AdguardTeam/AdGuardHome/internal/vfkit"
	"github.com/AdguardTeam/dnsproxy/proxy"
	"github.com/miekg/dns"
	"pgregory.net/rapid"
)

var vfC04E = vfkit.For("C04")

// vfC04Setts is one level of settings (global or a client's own).
type vfC04Setts struct {
	Filtering    bool     `json:"filtering"`
	SafeBrowsing bool     `json:"safebrowsing"`
	Parental     bool     `json:"parental"`
	Services     []string `json:"services"`
	SvcPaused    bool     `json:"services_paused"`
}

func vfC04DrawSetts(t *rapid.T, label string) (s vfC04Setts) {
	return vfC04Setts{
		Filtering:    rapid.Bool().Draw(t, label+"_filtering"),
		SafeBrowsing: rapid.Bool().Draw(t, label+"_sb"),
		Parental:     rapid.Bool().Draw(t, label+"_pc"),
		Services:     rapid.SliceOfNDistinct(rapid.SampledFrom(vfServiceIDs), 0, 3, rapid.ID[string]).Draw(t, label+"_services"),
		SvcPaused:    rapid.IntRange(0, 2).Draw(t, label+"_svc_paused") == 0,
	}
}

// vfC04Client is a generated persistent client.
type vfC04Client struct {
	Name        string     `json:"name"`
	Kind        string     `json:"kind"` // ip | cidr | mac | clientid
	OwnSettings bool       `json:"use_own_settings"`
	OwnServices bool       `json:"use_own_blocked_services"`
	Own         vfC04Setts `json:"own"`
}

const (
	vfC04RuleHost = "blocked-by-rule.example"
	vfC04SBHost   = "malware.example"
	vfC04PCHost   = "adult.example"
)

var vfC04ClientAddr = map[string]netip.Addr{
	"ip":       netip.MustParseAddr("192.0.2.10"),
	"cidr":     netip.MustParseAddr("198.51.100.77"),
	"mac":      netip.MustParseAddr("10.20.30.40"),
	"clientid": netip.MustParseAddr("203.0.113.50"),
}

func TestVFC04EffectiveSettings(t *testing.T) {
	vfkit.Begin(t)
	rapid.Check(t, func(t *rapid.T) {
		global := vfC04DrawSetts(t, "global")
		kinds := rapid.SliceOfNDistinct(rapid.SampledFrom([]string{"ip", "cidr", "mac", "clientid"}), 1, 3, rapid.ID[string]).Draw(t, "client_kinds")
		var clients []*vfC04Client
		wc := &vfWorldConf{
			ProtectionEnabled: true, FilteringEnabled: global.Filtering, Mode: filtering.BlockingModeNXDOMAIN,
			SafeBrowsingEnabled: global.SafeBrowsing, ParentalEnabled: global.Parental,
			SBHosts: []string{vfC04SBHost}, PCHosts: []string{vfC04PCHost},
			ServiceIDs: global.Services, ServicesPaused: global.SvcPaused,
			UserRules:  []string{"||" + vfC04RuleHost + "^"},
			ServerName: "dns.vf.test",
			DHCPMAC:    map[netip.Addr]net.HardwareAddr{},
		}
		if rapid.IntRange(0, 3).Draw(t, "no_server_name") == 0 {
			// no server name in the encryption settings (DoH behind a reverse
			// proxy): ClientIDs then come in the request path only
			wc.ServerName = ""
			vfC04E.Class("effective:no_server_name_configured")
		}
		for i, k := range kinds {
			label := fmt.Sprintf("c%d", i)
			c := &vfC04Client{
				Name: "client-" + k, Kind: k,
				OwnSettings: rapid.Bool().Draw(t, label+"_own_settings"),
				OwnServices: rapid.Bool().Draw(t, label+"_own_services"),
				Own:         vfC04DrawSetts(t, label),
			}
			clients = append(clients, c)
			p := &client.Persistent{
				Name: c.Name, UID: client.MustNewUID(),
				UseOwnSettings: c.OwnSettings, FilteringEnabled: c.Own.Filtering,
				SafeBrowsingEnabled: c.Own.SafeBrowsing, ParentalEnabled: c.Own.Parental,
				UseOwnBlockedServices: c.OwnServices,
				BlockedServices:       &filtering.BlockedServices{Schedule: vfWeekIn("UTC", c.Own.SvcPaused), IDs: c.Own.Services},
			}
			switch k {
			case "ip":
				p.IPs = []netip.Addr{vfC04ClientAddr[k]}
			case "cidr":
				p.Subnets = []netip.Prefix{netip.MustParsePrefix("198.51.100.64/26")}
			case "mac":
				mac := net.HardwareAddr{0x02, 0, 0, 0, 0x04, 0x01}
				p.MACs = []net.HardwareAddr{mac}
				wc.DHCPMAC[vfC04ClientAddr[k]] = mac
			default:
				p.ClientIDs = []string{"kid-1"}
			}
			wc.Clients = append(wc.Clients, p)
		}

		w, err := vfNewWorld(wc)
		if err != nil {
			t.Fatalf("VERIF-INCONCLUSIVE world: %v", err)
		}
		defer w.close()

		n := rapid.IntRange(4, 14).Draw(t, "n_queries")
		for i := 0; i < n; i++ {
			label := fmt.Sprintf("q%d", i)
			// who asks
			var owner *vfC04Client
			q := vfQuery{Addr: netip.MustParseAddrPort("198.18.0.9:4000"), Proto: proxy.ProtoUDP, Qtype: dns.TypeA}
			if rapid.IntRange(0, 3).Draw(t, label+"_known") > 0 {
				owner = clients[rapid.IntRange(0, len(clients)-1).Draw(t, label+"_client")]
				if owner.Kind == "clientid" {
					q.Proto = proxy.ProtoTLS
					if wc.ServerName == "" || rapid.IntRange(0, 2).Draw(t, label+"_doh_path") == 0 {
						q.Proto = proxy.ProtoHTTPS
					}
					q.ClientID = "kid-1"
					q.Addr = netip.AddrPortFrom(vfC04ClientAddr[owner.Kind], 4000)
				} else {
					q.Addr = netip.AddrPortFrom(vfC04ClientAddr[owner.Kind], 4000)
					if rapid.IntRange(0, 3).Draw(t, label+"_mapped") == 0 {
						// DoH behind a trusted dual-stack reverse proxy: the
						// address of the IPv4 host arrives in IPv4-mapped form
						q.Proto = proxy.ProtoHTTPS
						q.Addr = netip.AddrPortFrom(netip.AddrFrom16(q.Addr.Addr().As16()), 4000)
						vfC04E.Class("effective:from_mapped_address:" + owner.Kind)
					}
				}
			}

			// what is asked
			what := rapid.SampledFrom([]string{"rule", "sb", "pc", "service", "service", "free"}).Draw(t, label+"_what")
			var host, svc string
			switch what {
			case "rule":
				host = vfC04RuleHost
			case "sb":
				host = vfC04SBHost
			case "pc":
				host = vfC04PCHost
			case "service":
				svc = rapid.SampledFrom(vfServiceIDs).Draw(t, label+"_service")
				host = rapid.SampledFrom(vfServiceDomains[svc]).Draw(t, label+"_domain")
			default:
				host = "free.example"
			}
			if rapid.Bool().Draw(t, label+"_sub") {
				host = "www." + host
			}
			q.Name = host + "."
			q.Qtype = rapid.SampledFrom([]uint16{dns.TypeA, dns.TypeAAAA}).Draw(t, label+"_qtype")

			// the statement
			eff := global
			level := "global"
			if owner != nil && owner.OwnSettings {
				eff.Filtering, eff.SafeBrowsing, eff.Parental = owner.Own.Filtering, owner.Own.SafeBrowsing, owner.Own.Parental
				level = "own"
			}
			svcLevel := "global"
			if owner != nil && owner.OwnServices {
				eff.Services, eff.SvcPaused = owner.Own.Services, owner.Own.SvcPaused
				svcLevel = "own"
			}
			want := false
			switch what {
			case "rule":
				want = eff.Filtering
			case "sb":
				want = eff.SafeBrowsing
			case "pc":
				want = eff.Parental
			case "service":
				want = !eff.SvcPaused && vfStrIn(svc, eff.Services)
			}

			o := w.run(q)
			if o.BeforeErr != nil || o.Err != nil || o.Res == nil {
				t.Fatalf("request failed: before=%v err=%v", o.BeforeErr, o.Err)
			}
			// blocked = the upstream is not asked for the name (a safe-browsing
			// or parental block resolves the service's block host instead)
			got := true
			for _, a := range o.Asked {
				if strings.EqualFold(a.Name, q.Name) {
					got = false
				}
			}

			vfC04E.Eval()
			who := "unknown"
			if owner != nil {
				who = owner.Kind
			}
			vfC04E.Class("effective:who=" + who)
			vfC04E.Class("effective:what=" + what)
			vfC04E.Class(fmt.Sprintf("effective:settings_level=%s,services_level=%s", level, svcLevel))
			// non-trivial: the owner's level and the global level disagree on
			// this request, so choosing the wrong level shows
			var other bool
			switch what {
			case "rule":
				other = global.Filtering
			case "sb":
				other = global.SafeBrowsing
			case "pc":
				other = global.Parental
			case "service":
				other = !global.SvcPaused && vfStrIn(svc, global.Services)
			}
			if owner != nil {
				var ownWould bool
				switch what {
				case "rule":
					ownWould = owner.Own.Filtering
				case "sb":
					ownWould = owner.Own.SafeBrowsing
				case "pc":
					ownWould = owner.Own.Parental
				case "service":
					ownWould = !owner.Own.SvcPaused && vfStrIn(svc, owner.Own.Services)
				}
				if ownWould != other && what != "free" {
					vfC04E.Class("effective:levels_disagree")
					if what == "service" && owner.OwnServices && owner.Own.SvcPaused {
						vfC04E.Class("effective:own_services_paused_global_blocks")
					}
					vfC04E.Nontrivial(fmt.Sprintf("effective|%s|%s|own_settings=%t|own_services=%t|want=%t|paused=%t/%t",
						who, what, owner.OwnSettings, owner.OwnServices, want, owner.Own.SvcPaused, global.SvcPaused))
				}
			}
			if vfC04E.WantSample("effective/" + what + "/" + who) {
				vfC04E.Sample("effective/"+what+"/"+who, map[string]any{
					"global": global, "clients": clients, "from": q.Addr.Addr().String(), "clientid": q.ClientID,
					"question": host, "want_blocked": want, "got_blocked": got,
				})
			}
			if got != want {
				t.Fatalf("request for %s from %s (ClientID %q, owner %s): blocked=%t, want %t\nglobal: %+v\nclients: %s\nreply: rcode=%s answer=%v",
					host, q.Addr.Addr(), q.ClientID, who, got, want, global, vfC04Describe(clients), dns.RcodeToString[o.Res.Rcode], vfRRStrings(o.Res.Answer))
			}
			if want && (what == "rule" || what == "service") && o.Res.Rcode != dns.RcodeNameError {
				t.Fatalf("blocked request for %s answered %s, want NXDOMAIN (blocking mode nxdomain)", host, dns.RcodeToString[o.Res.Rcode])
			}
		}
	})
}

func vfC04Describe(cs []*vfC04Client) string {
	var parts []string
	for _, c := range cs {
		parts = append(parts, fmt.Sprintf("%+v", *c))
	}

	return strings.Join(parts, "; ")
}
