//go:build verif

package querylog

// C07 (records of unusual size): records are written whatever their size -- an
// answer received over TCP, DoT, DoH or DoQ may have up to 64 KiB --, while the
// file reader works with lines of at most 16 KiB.  Cursor paging must reach
// every recorded query all the same.  The generated histories of the other C07
// tests keep answers small (excluded by construction); this test holds the
// shape that the listed finding describes and a control just below the limit.

import (
	"bufio"
	"encoding/json"
	"fmt"
	"net"
	"net/url"
	"os"
	"path/filepath"
	"testing"
	"time"

	"github.com/AdguardTeam/AdGuardHome/internal/vfkit"
	"pgregory.net/rapid"
)

// vfC07SigLongLine is the signature of the listed finding.
const vfC07SigLongLine = "record-longer-than-16k-breaks-cursor-paging"

func TestVFC07RegressLongRecord(t *testing.T) {
	vfkit.Begin(t)
	st := vfkit.For("C07")

	run := func(records, longAt, answerLen, limit int) (got, lineLen int) {
		s := vfC07NewSys(t, vfC07Clients{}, 100, true, true, false)
		defer s.close()

		f, err := os.Create(filepath.Join(s.dir, "querylog.json"))
		if err != nil {
			t.Fatalf("VERIF-INCONCLUSIVE create: %v", err)
		}
		w := bufio.NewWriter(f)
		ts := time.Date(2021, 3, 1, 0, 0, 0, 0, time.UTC)
		for i := 0; i < records; i++ {
			ts = ts.Add(1500 * time.Millisecond)
			e := &logEntry{
				Time: ts, QHost: fmt.Sprintf("host-%d.long.test", i), QType: "TXT", QClass: "IN", ClientProto: "tls", IP: net.IP{192, 0, 2, 1}, Elapsed: time.Millisecond,
			}
			if i == longAt {
				// the packed answer as stored; its content does not matter here
				e.Answer = make([]byte, answerLen)
			}
			b, merr := json.Marshal(e)
			if merr != nil {
				t.Fatalf("VERIF-INCONCLUSIVE marshal: %v", merr)
			}
			if i == longAt {
				lineLen = len(b) + 1
			}
			_, _ = w.Write(b)
			_ = w.WriteByte('\n')
		}
		if err = w.Flush(); err != nil {
			t.Fatalf("VERIF-INCONCLUSIVE flush: %v", err)
		}
		_ = f.Close()

		cursor := ""
		for req := 0; req < 400; req++ {
			q := url.Values{"limit": {fmt.Sprint(limit)}}
			if cursor != "" {
				q.Set("older_than", cursor)
			}
			resp := s.get(q.Encode())
			if resp.Code != 200 {
				t.Fatalf("GET ?%s: status %d %s", q.Encode(), resp.Code, resp.Body)
			}
			got += len(resp.Data)
			if resp.Oldest == "" {
				return got, lineLen
			}
			cursor = resp.Oldest
		}
		t.Fatalf("cursor paging does not end after 400 requests")

		return got, lineLen
	}

	_, open := vfkit.KnownOpen("C07", vfC07SigLongLine)
	reported := false
	rapid.Check(t, func(t *rapid.T) {
		records := rapid.IntRange(30, 400).Draw(t, "records")
		longAt := rapid.IntRange(0, records-1).Draw(t, "long_record_at")
		// 11000 bytes of answer give a line just below the reader's 16 KiB
		answerLen := rapid.SampledFrom([]int{11000, 11000, 13000, 20000, 30000, 48000}).Draw(t, "answer_bytes")
		limit := rapid.SampledFrom([]int{5, 20, 100}).Draw(t, "limit")
		got, lineLen := run(records, longAt, answerLen, limit)
		st.Eval()
		above := lineLen > 16*1024
		st.Class(fmt.Sprintf("long_record:above_limit=%t", above))
		st.Nontrivial(fmt.Sprintf("long_record|%d|%d|%d|%d", records, longAt, answerLen, limit))
		if got == records {
			return
		}

		what := fmt.Sprintf("%s: cursor paging (limit %d) over %d file records of which #%d has an answer of %d bytes (a line of %d bytes) returned %d entries",
			vfC07SigLongLine, limit, records, longAt, answerLen, lineLen, got)
		if above && open {
			st.Excluded(vfC07SigLongLine)
			if !reported {
				reported = true
				st.KnownLine(what + ": the binary search for the cursor probes inside the long line, finds no timestamp, and the request comes back without " +
					"file records and without 'oldest' (internal/querylog/qlogfile.go readProbeLine, search.go setQLogReader)")
			}

			return
		}
		t.Fatalf("%s", what)
	})
}
