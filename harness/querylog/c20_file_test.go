//go:build verif

package querylog

import (
	"context"
	"errors"
	"fmt"
	"math"
	"os"
	"testing"

	"github.com/AdguardTeam/AdGuardHome/internal/vfkit"
	"github.com/AdguardTeam/golibs/logutil/slogutil"
	"pgregory.net/rapid"
)

// vfC20RevStats is what one complete reverse pass met, measured on the reader
// itself (its buffer fields are read for coverage accounting only, never for
// the verdict).
type vfC20RevStats struct {
	reinits   int
	edgeLong  int
	atLimit   map[int]int
	nlAtStart int
}

// vfC20ReadAll reads the file from its current position to the end and
// compares with the cursor model.  It makes at most len(rev)+3 reads.
func vfC20ReadAll(t vfC20Fataler, q *qLogFile, c *vfC20Cursor, st *vfC20RevStats, what string) {
	vfC20Guard(t, what, func() (complaint string) {
		lastStart := int64(-1)
		for i := 0; i <= len(c.rev)+1; i++ {
			before, startBefore, loaded := q.position, q.bufferStart, q.buffer != nil
			line, err := q.ReadNext()
			if msg := c.observe(line, err); msg != "" {
				return msg
			}
			if err != nil {
				// the end must be sticky
				line, err = q.ReadNext()
				if msg := c.observe(line, err); msg != "" || err == nil {
					return fmt.Sprintf("read after the end of the log returned %s, %v %s", vfC20Short(line), err, msg)
				}

				return ""
			}
			if st == nil {
				continue
			}

			// coverage accounting: where in the window did this line end?
			start := q.bufferStart
			if start != lastStart {
				st.reinits++
				lastStart = start
			}
			long := len(line) > vfC20Limit/2
			if loaded && startBefore != 0 && start != startBefore && long {
				// the window was moved for this line: how far from the limit
				// did the line end in the old window?
				if d := int(before-startBefore) - vfC20Limit; d >= -4 && d < 0 {
					st.atLimit[d]++
					st.edgeLong++
				}
			}
			if start == 0 {
				continue
			}
			rel := int(before - start)
			nl := rel - len(line) - 1
			if long && (vfC20Abs(rel-vfC20Limit) <= vfC20Edge || vfC20Abs(nl) <= vfC20Edge) {
				st.edgeLong++
			}
			if d := rel - vfC20Limit; d >= 0 && d <= 4 && long {
				st.atLimit[d]++
			}
			if nl == 0 {
				st.nlAtStart++
			}
		}

		return fmt.Sprintf("no end of log after %d reads of a file of %d lines", len(c.rev)+2, len(c.rev))
	})
}

func vfC20Abs(x int) int {
	if x < 0 {
		return -x
	}

	return x
}

// vfC20OpenFile writes f and opens it with the code under test.
func vfC20OpenFile(t *rapid.T, dir string, f *vfC20File) (q *qLogFile) {
	path := vfC20Write(t, dir, "querylog.json", f)
	q, err := newQLogFile(path)
	if err != nil {
		t.Fatalf("VERIF-INCONCLUSIVE opening %s: %v", path, err)
	}

	return q
}

// vfC20FileClasses counts the size classes of a generated file.
func vfC20FileClasses(f *vfC20File, mode string) {
	vfC20.Class("mode:" + mode)
	size := f.size()
	switch {
	case len(f.Lines) == 0:
		vfC20.Class("file:empty")
	case len(f.Lines) == 1:
		vfC20.Class("file:one_line")
	}
	switch {
	case size > 2*vfC20Window:
		vfC20.Class("file:>2_windows")
	case size > vfC20Window:
		vfC20.Class("file:>window")
	case size > 2*vfC20Limit:
		vfC20.Class("file:>probe_window")
	default:
		vfC20.Class("file:<=probe_window")
	}
	if d := size - vfC20Window; d >= -2 && d <= 3 {
		vfC20.Class("file:window_exact")
	}
	if d := size - 2*vfC20Window; d >= -2 && d <= 3 {
		vfC20.Class("file:window_exact")
	}
	if f.maxLine() == vfC20MaxLine {
		vfC20.Class("file:has_max_line")
	}
}

// TestVFC20FileReverse: SeekStart followed by reads returns every line of the
// file exactly once, newest first, then the end of the log — also when the pass
// is restarted in the middle.
func TestVFC20FileReverse(t *testing.T) {
	vfkit.Begin(t)
	rapid.Check(t, func(t *rapid.T) {
		mode := vfC20DrawMode(t, map[string]int{
			vfC20ModeSmall: 40, vfC20ModeMedium: 15, vfC20ModeBig: 20, vfC20ModeAlignedRev: 25,
		})
		b := vfC20NewBuilder(t)
		f, _ := b.build(mode)
		restartAfter := -1
		if len(f.Lines) > 0 && rapid.Bool().Draw(t, "restart") {
			restartAfter = rapid.IntRange(0, len(f.Lines)).Draw(t, "restart_after")
		}

		dir := vfC20TempDir(t)
		defer func() { _ = os.RemoveAll(dir) }()
		q := vfC20OpenFile(t, dir, f)
		defer func() { _ = q.Close() }()

		c := vfC20NewCursor(f)
		st := &vfC20RevStats{atLimit: map[int]int{}}

		if restartAfter >= 0 {
			vfC20Guard(t, "partial pass", func() (complaint string) {
				_, err := q.SeekStart()
				if err != nil {
					return fmt.Sprintf("SeekStart: %v", err)
				}
				c.set(0)
				for i := 0; i < restartAfter; i++ {
					line, rerr := q.ReadNext()
					if msg := c.observe(line, rerr); msg != "" {
						return msg
					}
				}

				return ""
			})
			vfC20.Class("reverse:restarted")
		}

		_, err := q.SeekStart()
		if err != nil {
			t.Fatalf("SeekStart: %v", err)
		}
		c.set(0)
		vfC20ReadAll(t, q, c, st, "reverse pass")

		vfC20.Eval()
		vfC20.Class("test:file_reverse")
		vfC20FileClasses(f, mode)
		vfC20.ClassN("reverse:lines_read", len(f.Lines))
		if st.reinits > 1 {
			vfC20.Class("reverse:window_moved")
		}
		if st.edgeLong > 0 {
			vfC20.Class("reverse:long_line_at_window_edge")
		}
		if st.nlAtStart > 0 {
			vfC20.Class("reverse:line_starts_at_window_byte_1")
		}
		for d, n := range st.atLimit {
			vfC20.ClassN(fmt.Sprintf("reverse:long_line_ends_at_limit%+d", d), n)
		}
		if f.size() > vfC20Window || st.edgeLong > 0 {
			vfC20.Nontrivial(fmt.Sprintf("rev|%d|%v|%d", b.base, f.lengths(), restartAfter))
			cls := "reverse_" + mode
			if vfC20.WantSample(cls) {
				vfC20.Sample(cls, map[string]any{
					"lines": len(f.Lines), "bytes": f.size(), "longest_line": f.maxLine(),
					"first_ts": vfC20TSText(f, 0), "last_ts": vfC20TSText(f, len(f.Lines)-1),
					"window_loads": st.reinits, "long_lines_at_window_edge": st.edgeLong,
					"long_line_end_minus_limit": fmt.Sprint(st.atLimit), "restart_after": restartAfter,
					"last_lengths": vfC20Tail(f.lengths(), 6),
				})
			}
		}
	})
}

func vfC20TSText(f *vfC20File, i int) (s string) {
	if i < 0 || i >= len(f.TS) {
		return ""
	}

	return fmt.Sprint(f.TS[i])
}

func vfC20Tail(s []int, n int) (r []int) {
	if len(s) <= n {
		return s
	}

	return s[len(s)-n:]
}

// vfC20Target is one seek target.
type vfC20Target struct {
	TS   int64  `json:"ts"`
	Kind string `json:"kind"`
	// Line is the index of the stored line for Kind "present".
	Line int `json:"line"`
}

// vfC20AbsentKind classifies an absent target against the file, by the
// meaning of the three words of the property text.
func vfC20AbsentKind(f *vfC20File, ts int64) (kind string) {
	n := len(f.TS)
	switch {
	case n == 0:
		return "empty"
	case ts < f.TS[0]:
		return "too_early"
	case ts > f.TS[n-1]:
		return "too_late"
	default:
		return "not_found"
	}
}

// vfC20AllTargets lists every present timestamp, a value in every gap that has
// room, both neighbours of the ends and far-away values.
func vfC20AllTargets(f *vfC20File) (ts []vfC20Target) {
	n := len(f.TS)
	for i, v := range f.TS {
		ts = append(ts, vfC20Target{TS: v, Kind: "present", Line: i})
		if i+1 < n && f.TS[i+1]-v >= 2 {
			ts = append(ts, vfC20Target{TS: v + 1 + (f.TS[i+1]-v-2)/2, Kind: "gap"})
		}
	}
	if n > 0 {
		ts = append(ts,
			vfC20Target{TS: f.TS[0] - 1, Kind: "before"},
			vfC20Target{TS: f.TS[n-1] + 1, Kind: "after"},
		)
	}
	ts = append(ts,
		vfC20Target{TS: 1, Kind: "before"},
		vfC20Target{TS: -5, Kind: "before"},
		vfC20Target{TS: math.MaxInt64, Kind: "after"},
	)

	return ts
}

// vfC20DrawTarget draws one target of a non-empty file.
func vfC20DrawTarget(t *rapid.T, f *vfC20File, hot []int) (tg vfC20Target) {
	n := len(f.TS)
	pickLine := func() int {
		switch k := rapid.IntRange(0, 9).Draw(t, "line_kind"); {
		case k == 0:
			return 0
		case k == 1:
			return n - 1
		case k <= 4 && len(hot) > 0:
			i := rapid.SampledFrom(hot).Draw(t, "hot_line") + rapid.IntRange(-1, 1).Draw(t, "hot_delta")

			return min(max(i, 0), n-1)
		default:
			return rapid.IntRange(0, n-1).Draw(t, "line")
		}
	}

	switch rapid.IntRange(0, 9).Draw(t, "target_kind") {
	case 0:
		return vfC20Target{TS: f.TS[0] - rapid.SampledFrom([]int64{1, 2, 1_000_000_000, 1 << 50}).Draw(t, "before_by"), Kind: "before"}
	case 1:
		return vfC20Target{TS: f.TS[n-1] + rapid.SampledFrom([]int64{1, 2, 1_000_000_000, 1 << 50}).Draw(t, "after_by"), Kind: "after"}
	case 2, 3, 4:
		i := pickLine()
		if i+1 < n && f.TS[i+1]-f.TS[i] >= 2 {
			gap := f.TS[i+1] - f.TS[i]
			v := f.TS[i] + rapid.SampledFrom([]int64{1, gap - 1, gap / 2}).Draw(t, "gap_at")

			return vfC20Target{TS: v, Kind: "gap"}
		}

		return vfC20Target{TS: f.TS[i], Kind: "present", Line: i}
	default:
		i := pickLine()

		return vfC20Target{TS: f.TS[i], Kind: "present", Line: i}
	}
}

// TestVFC20FileSeek: in one file, seeking a stored timestamp succeeds and
// positions on that entry (the next reads return it and its predecessors);
// seeking an absent one reports too-early / too-late / not-found by where the
// value lies, terminates within 100 probes, and leaves a reader that still
// returns whole lines in order.
func TestVFC20FileSeek(t *testing.T) {
	vfkit.Begin(t)
	logger := slogutil.NewDiscardLogger()
	ctx := context.Background()

	rapid.Check(t, func(t *rapid.T) {
		mode := vfC20DrawMode(t, map[string]int{
			vfC20ModeSmall: 35, vfC20ModeMedium: 25, vfC20ModeBig: 10, vfC20ModeAlignedSeek: 30,
		})
		b := vfC20NewBuilder(t)
		f, probe := b.build(mode)
		n := len(f.Lines)

		var targets []vfC20Target
		exhaustive := n <= 24 || (n <= 60 && rapid.IntRange(0, 3).Draw(t, "exhaustive") == 0)
		switch {
		case n == 0 && vfC20EmptyExcluded():
			vfC20.Excluded(vfC20KnownEmpty)
		case exhaustive:
			targets = rapid.Permutation(vfC20AllTargets(f)).Draw(t, "targets")
		default:
			var hot []int
			if probe != nil {
				hot = append(hot, probe.Line)
			}
			k := rapid.IntRange(8, 40).Draw(t, "n_targets")
			for i := 0; i < k; i++ {
				targets = append(targets, vfC20DrawTarget(t, f, hot))
			}
		}
		if probe != nil && n > 0 {
			// the line the first probe was aimed at, and its neighbours' gaps,
			// are always among the targets
			extra := []vfC20Target{{TS: f.TS[probe.Line], Kind: "present", Line: probe.Line}}
			if probe.Line > 0 {
				extra = append(extra, vfC20Target{TS: f.TS[probe.Line-1], Kind: "present", Line: probe.Line - 1})
			}
			if probe.Line+1 < n {
				extra = append(extra, vfC20Target{TS: f.TS[probe.Line+1], Kind: "present", Line: probe.Line + 1})
			}
			at := rapid.IntRange(0, len(targets)).Draw(t, "probe_targets_at")
			targets = append(targets[:at:at], append(extra, targets[at:]...)...)
		}
		// how far to read after each seek
		readAllOnce := rapid.IntRange(0, max(len(targets)-1, 0)).Draw(t, "read_all_at")
		shortReads := rapid.IntRange(1, 4).Draw(t, "short_reads")

		dir := vfC20TempDir(t)
		defer func() { _ = os.RemoveAll(dir) }()
		q := vfC20OpenFile(t, dir, f)
		defer func() { _ = q.Close() }()

		c := vfC20NewCursor(f)
		c.setUnknown() // nothing is stated about reads of a reader that was never positioned
		maxDepth := 0
		counts := map[string]int{}
		for ti, tg := range targets {
			var depth int
			var err error
			vfC20Guard(t, fmt.Sprintf("seekTS(%d)", tg.TS), func() (complaint string) {
				_, depth, err = q.seekTS(ctx, logger, tg.TS)

				return ""
			})
			maxDepth = max(maxDepth, depth)
			if depth > 100 {
				t.Fatalf("seekTS(%d) took %d probes", tg.TS, depth)
			}

			if tg.Kind == "present" {
				counts["seek:present"]++
				if err != nil {
					t.Fatalf("seekTS(%d): timestamp of stored line %d of %d not found: %v (file of %d bytes, line at %d..%d)",
						tg.TS, tg.Line, n, err, f.size(), f.Off[tg.Line], f.Off[tg.Line+1])
				}
				c.set(n - 1 - tg.Line)
			} else {
				want := vfC20AbsentKind(f, tg.TS)
				counts["seek:absent_"+want]++
				if err == nil {
					t.Fatalf("seekTS(%d): absent timestamp (%s) reported as found", tg.TS, want)
				}
				var ok bool
				switch want {
				case "too_early":
					ok = errors.Is(err, errTSTooEarly)
				case "too_late":
					ok = errors.Is(err, errTSTooLate)
				case "not_found":
					ok = errors.Is(err, errTSNotFound)
				default:
					ok = vfC20IsSeekClass(err)
				}
				if !ok {
					t.Fatalf("seekTS(%d): timestamp is absent (%s: file holds %d lines, %s .. %s) but the seek reported %q",
						tg.TS, want, n, vfC20TSText(f, 0), vfC20TSText(f, n-1), err)
				}
				c.seekFailed()
			}

			if ti == readAllOnce {
				vfC20ReadAll(t, q, c, nil, fmt.Sprintf("reads after seekTS(%d) [%s]", tg.TS, tg.Kind))

				continue
			}
			vfC20Guard(t, "reads after seek", func() (complaint string) {
				for i := 0; i < shortReads; i++ {
					line, rerr := q.ReadNext()
					if msg := c.observe(line, rerr); msg != "" {
						return fmt.Sprintf("read %d after seekTS(%d) [%s, line %d of %d]: %s", i, tg.TS, tg.Kind, tg.Line, n, msg)
					}
				}

				return ""
			})
		}

		// the reader is still usable for a complete pass
		if rapid.Bool().Draw(t, "final_pass") {
			_, err := q.SeekStart()
			if err != nil {
				t.Fatalf("SeekStart: %v", err)
			}
			c.set(0)
			vfC20ReadAll(t, q, c, nil, "reverse pass after the seeks")
		}

		vfC20.Eval()
		vfC20.Class("test:file_seek")
		vfC20FileClasses(f, mode)
		for k, v := range counts {
			vfC20.ClassN(k, v)
		}
		if exhaustive && n > 0 {
			vfC20.Class("seek:all_targets_of_file")
		}
		vfC20.ClassN(fmt.Sprintf("seek:max_depth_%02d_to_%02d", maxDepth/5*5, maxDepth/5*5+4), 1)

		longProbe := probe != nil && probe.Len > vfC20Limit/2 && (probe.Off <= vfC20Edge || probe.Len-probe.Off <= vfC20Edge)
		if probe != nil {
			switch {
			case probe.Off == 0:
				vfC20.Class("probe_aligned:first_byte")
			case probe.Off == probe.Len:
				vfC20.Class("probe_aligned:line_break")
			case probe.Off == probe.Len-1:
				vfC20.Class("probe_aligned:last_byte")
			default:
				vfC20.Class("probe_aligned:inside")
			}
			if probe.Len == vfC20MaxLine && (probe.Off == 0 || probe.Off >= probe.Len-1) {
				vfC20.Class("probe_aligned:max_line_end")
			}
			if f.Off[probe.Line]+int64(probe.Off) <= vfC20Limit {
				vfC20.Class("probe_aligned:within_first_16k")
			}
		}
		if len(targets) > 0 && (f.size() > vfC20Window || longProbe) {
			vfC20.Nontrivial(fmt.Sprintf("seek|%d|%v|%v", b.base, f.lengths(), targets))
			cls := "seek_" + mode
			if vfC20.WantSample(cls) {
				vfC20.Sample(cls, map[string]any{
					"lines": n, "bytes": f.size(), "longest_line": f.maxLine(), "first_probe_aimed_at": probe,
					"targets": len(targets), "first_targets": targets[:min(len(targets), 5)], "outcomes": counts,
					"max_depth": maxDepth,
				})
			}
		}
	})
}
