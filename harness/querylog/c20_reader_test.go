//go:build verif

package querylog

import (
	"context"
	"errors"
	"fmt"
	"io"
	"math"
	"os"
	"path/filepath"
	"sort"
	"strings"
	"testing"
	"time"

	"github.com/AdguardTeam/AdGuardHome/internal/vfkit"
	"github.com/AdguardTeam/golibs/logutil/slogutil"
	"pgregory.net/rapid"
)

// vfC20Op is one step of a reader history.
type vfC20Op struct {
	Op     string `json:"op"`
	TS     int64  `json:"ts,omitempty"`
	Kind   string `json:"kind,omitempty"`
	Reads  int    `json:"reads,omitempty"`
	Result string `json:"result,omitempty"`
}

// vfC20ReaderRead makes k reads (k < 0: until the end, plus one) and checks
// them against the model.
func vfC20ReaderRead(t vfC20Fataler, r *qLogReader, c *vfC20Cursor, k int, what string) {
	vfC20Guard(t, what, func() (complaint string) {
		limit := k
		if k < 0 {
			limit = len(c.rev) + 3
		}
		for i := 0; i < limit; i++ {
			line, err := r.ReadNext()
			if msg := c.observe(line, err); msg != "" {
				return fmt.Sprintf("read %d: %s", i, msg)
			}
			if err != nil && k < 0 {
				line, err = r.ReadNext()
				if msg := c.observe(line, err); msg != "" || err == nil {
					return fmt.Sprintf("read after the end of the log returned %s, %v %s", vfC20Short(line), err, msg)
				}

				return ""
			}
		}
		if k < 0 {
			return fmt.Sprintf("no end of log after %d reads of %d lines", limit, len(c.rev))
		}

		return ""
	})
}

// TestVFC20Reader: a reader over the rotated and the current file returns the
// lines of both, newest first; a seek to a stored timestamp of either file
// positions on it and reading continues across the file boundary; a seek to an
// absent timestamp either reports one of the three classes or (documented for
// values later than a file's last entry) positions at the start; histories of
// seeks and reads never confuse the reader.
func TestVFC20Reader(t *testing.T) {
	vfkit.Begin(t)
	logger := slogutil.NewDiscardLogger()
	ctx := context.Background()

	rapid.Check(t, func(t *rapid.T) {
		b := vfC20NewBuilder(t)
		emptyExcluded := vfC20EmptyExcluded()

		// the files, oldest first, as the application names them
		var files [2]*vfC20File
		var kinds [2]string
		var modes [2]string
		for i := range files {
			k := rapid.IntRange(0, 19).Draw(t, "file_kind")
			switch {
			case k == 0 || (k == 1 && i == 0):
				kinds[i] = "missing"
			case k == 2:
				kinds[i] = "empty"
				if emptyExcluded {
					vfC20.Excluded(vfC20KnownEmpty)
					kinds[i] = "missing"

					break
				}
				b.newFile()
				files[i] = b.finish()
			default:
				kinds[i] = "lines"
				modes[i] = vfC20DrawMode(t, map[string]int{
					vfC20ModeSmall: 60, vfC20ModeMedium: 25, vfC20ModeBig: 5, vfC20ModeAlignedSeek: 10,
				})
				files[i], _ = b.build(modes[i])
				if len(files[i].Lines) == 0 {
					kinds[i] = "empty"
					if emptyExcluded {
						vfC20.Excluded(vfC20KnownEmpty)
						kinds[i], files[i] = "missing", nil
					}
				}
			}
		}

		// chronological list of everything stored
		type stored struct {
			ts   int64
			file int
		}
		var all []stored
		for i, f := range files {
			if f == nil {
				continue
			}
			for _, ts := range f.TS {
				all = append(all, stored{ts: ts, file: i})
			}
		}
		n := len(all)
		nOld := 0
		if files[0] != nil {
			nOld = len(files[0].Lines)
		}
		nNew := n - nOld

		// classify an absent value
		absentKind := func(ts int64) (kind string) {
			switch {
			case n == 0:
				return "nothing_stored"
			case ts < all[0].ts:
				return "before_all"
			case ts > all[n-1].ts:
				return "after_all"
			case nOld > 0 && nNew > 0 && ts > all[nOld-1].ts && ts < all[nOld].ts:
				return "between_files"
			default:
				return "gap"
			}
		}

		drawTarget := func() (ts int64, kind string, line int) {
			far := []int64{1, -5, math.MaxInt64, 1 << 40}
			if n == 0 {
				v := rapid.SampledFrom(append(far, b.base)).Draw(t, "far_ts")

				return v, "absent", -1
			}
			switch k := rapid.IntRange(0, 11).Draw(t, "target_kind"); {
			case k == 0:
				return all[0].ts - rapid.SampledFrom([]int64{1, 1000, 1 << 50}).Draw(t, "before_by"), "absent", -1
			case k == 1:
				return all[n-1].ts + rapid.SampledFrom([]int64{1, 1000, 1 << 50}).Draw(t, "after_by"), "absent", -1
			case k == 2:
				return rapid.SampledFrom(far).Draw(t, "far_ts"), "absent", -1
			case k <= 4 && nOld > 0 && nNew > 0:
				// around the file boundary
				gap := all[nOld].ts - all[nOld-1].ts
				switch rapid.IntRange(0, 3).Draw(t, "boundary_kind") {
				case 0:
					return all[nOld-1].ts, "present", nOld - 1
				case 1:
					return all[nOld].ts, "present", nOld
				default:
					if gap >= 2 {
						return all[nOld-1].ts + rapid.SampledFrom([]int64{1, gap - 1, gap / 2}).Draw(t, "gap_at"), "absent", -1
					}

					return all[nOld].ts, "present", nOld
				}
			case k <= 6:
				i := rapid.IntRange(0, n-1).Draw(t, "line")
				if i+1 < n && all[i+1].ts-all[i].ts >= 2 {
					gap := all[i+1].ts - all[i].ts

					return all[i].ts + rapid.SampledFrom([]int64{1, gap - 1, gap / 2}).Draw(t, "gap_at"), "absent", -1
				}

				return all[i].ts, "present", i
			default:
				var i int
				switch rapid.IntRange(0, 5).Draw(t, "line_kind") {
				case 0:
					i = 0
				case 1:
					i = n - 1
				default:
					i = rapid.IntRange(0, n-1).Draw(t, "line")
				}

				return all[i].ts, "present", i
			}
		}

		dir := vfC20TempDir(t)
		defer func() { _ = os.RemoveAll(dir) }()
		names := []string{"querylog.json.1", "querylog.json"}
		paths := make([]string, 2)
		for i, f := range files {
			paths[i] = filepath.Join(dir, names[i])
			if f != nil {
				vfC20Write(t, dir, names[i], f)
			}
		}

		r, err := newQLogReader(ctx, logger, paths)
		if err != nil {
			t.Fatalf("VERIF-INCONCLUSIVE newQLogReader: %v", err)
		}
		defer func() { _ = r.Close() }()

		c := vfC20NewCursor(files[0], files[1])
		c.setUnknown()
		positioned := false
		counts := map[string]int{}
		fellThrough := false
		var hist []vfC20Op

		nOps := rapid.IntRange(2, 24).Draw(t, "n_ops")
		for oi := 0; oi < nOps; oi++ {
			opk := rapid.IntRange(0, 9).Draw(t, "op")
			if !positioned && opk >= 6 {
				// reads need a positioned reader (the application always seeks
				// first)
				opk = 0
			}
			switch {
			case opk == 0 || (opk == 1 && !positioned):
				vfC20Guard(t, "SeekStart", func() (complaint string) {
					if serr := r.SeekStart(); serr != nil {
						return serr.Error()
					}

					return ""
				})
				c.set(0)
				positioned = true
				hist = append(hist, vfC20Op{Op: "start"})
			case opk <= 5:
				ts, kind, line := drawTarget()
				var serr error
				vfC20Guard(t, fmt.Sprintf("seekTS(%d)", ts), func() (complaint string) {
					serr = r.seekTS(ctx, ts)

					return ""
				})
				op := vfC20Op{Op: "seek", TS: ts}
				if kind == "present" {
					op.Kind = "present"
					if all[line].file == 0 && nNew > 0 {
						op.Kind = "present_in_rotated"
						fellThrough = true
					}
					if serr != nil {
						t.Fatalf("seekTS(%d): timestamp of stored entry %d of %d (file %s, files hold %d+%d lines) not found: %v",
							ts, line, n, names[all[line].file], nOld, nNew, serr)
					}
					c.set(n - 1 - line)
					positioned = true
					op.Result = "found"
				} else {
					ak := absentKind(ts)
					op.Kind = "absent_" + ak
					switch {
					case serr != nil:
						if !vfC20IsSeekClass(serr) {
							t.Fatalf("seekTS(%d): absent timestamp (%s; files %s/%s hold %d+%d lines): the seek reported %q, which is none of not-found, too-early, too-late",
								ts, ak, kinds[0], kinds[1], nOld, nNew, serr)
						}
						c.seekFailed()
						op.Result = "error"
					case ak == "gap" || ak == "before_all":
						t.Fatalf("seekTS(%d): absent timestamp (%s; files hold %d+%d lines) reported as found", ts, ak, nOld, nNew)
					default:
						// documented: a value later than the last entry of a
						// file positions at the start of the log; positioning
						// on the newest entry older than the value is what the
						// comment in the code describes and is accepted too.
						older := 0
						for older < n && all[n-1-older].ts > ts {
							older++
						}
						if ak == "between_files" {
							// the value lies after the last entry of the rotated
							// file and before the first one of the current file:
							// a seek that reports success must not leave the
							// reader in front of entries newer than the value
							// ("without ... mis-positioning subsequent reads")
							c.set(older)
							fellThrough = true
						} else {
							c.setOneOf(0, older)
						}
						positioned = true
						op.Result = "start"
					}
				}
				counts["reader_seek:"+op.Kind+"->"+op.Result]++
				hist = append(hist, op)
			case opk <= 8:
				k := rapid.IntRange(1, 6).Draw(t, "reads")
				vfC20ReaderRead(t, r, c, k, fmt.Sprintf("op %d: %d reads after %v", oi, k, vfC20LastOp(hist)))
				hist = append(hist, vfC20Op{Op: "read", Reads: k})
			default:
				vfC20ReaderRead(t, r, c, -1, fmt.Sprintf("op %d: reading to the end after %v", oi, vfC20LastOp(hist)))
				hist = append(hist, vfC20Op{Op: "read_to_end"})
			}
		}

		// whatever happened, a pass from the start returns everything
		vfC20Guard(t, "SeekStart", func() (complaint string) {
			if serr := r.SeekStart(); serr != nil {
				return serr.Error()
			}

			return ""
		})
		c.set(0)
		vfC20ReaderRead(t, r, c, -1, "final pass from the start")

		vfC20.Eval()
		vfC20.Class("test:reader")
		vfC20.Class("reader_files:" + kinds[0] + "+" + kinds[1])
		for k, v := range counts {
			vfC20.ClassN(k, v)
		}
		for _, f := range files {
			if f != nil && f.size() > vfC20Window {
				vfC20.Class("reader:file>window")
			}
		}
		if nOld > 0 && nNew > 0 && fellThrough {
			var sb strings.Builder
			for _, op := range hist {
				fmt.Fprintf(&sb, "%s:%d:%d;", op.Op, op.TS, op.Reads)
			}
			vfC20.Nontrivial(fmt.Sprintf("reader|%d|%v|%v|%s", b.base, files[0].lengths(), files[1].lengths(), sb.String()))
			if vfC20.WantSample("reader_two_files") {
				vfC20.Sample("reader_two_files", map[string]any{
					"rotated_lines": nOld, "current_lines": nNew, "rotated_bytes": files[0].size(),
					"current_bytes": files[1].size(), "history": hist,
				})
			}
		} else if vfC20.WantSample("reader_" + kinds[0] + "+" + kinds[1]) {
			vfC20.Sample("reader_"+kinds[0]+"+"+kinds[1], map[string]any{
				"rotated_lines": nOld, "current_lines": nNew, "history": hist,
			})
		}
	})
}

func vfC20LastOp(hist []vfC20Op) (s string) {
	if len(hist) == 0 {
		return "opening"
	}
	op := hist[len(hist)-1]

	return fmt.Sprintf("%s(%d %s)=%s", op.Op, op.TS, op.Kind, op.Result)
}

// vfC20FixedFile builds a file from (length, timestamp) pairs without rapid.
func vfC20FixedFile(lens []int, base int64, step int64) (f *vfC20File) {
	f = &vfC20File{Off: []int64{0}}
	for i, n := range lens {
		ts := base + int64(i)*step
		line := vfC20MakeLine(time.Unix(0, ts).UTC().Format(time.RFC3339Nano), n, i, 0)
		f.Off = append(f.Off, f.size()+int64(len(line))+1)
		f.Lines = append(f.Lines, line)
		f.TS = append(f.TS, ts)
	}

	return f
}

// TestVFC20Regress replays fixed shapes without rapid: the classic three-line
// file, a longest-permitted line that starts on the first byte of a moved
// window, a file of exactly one window, and seeks in and across an empty file.
func TestVFC20Regress(t *testing.T) {
	vfkit.Begin(t)
	logger := slogutil.NewDiscardLogger()
	ctx := context.Background()
	const base = int64(1_600_000_000_000_000_000)

	write := func(t *testing.T, name string, f *vfC20File) (path string) {
		path = filepath.Join(t.TempDir(), name)
		if err := os.WriteFile(path, f.bytes(), 0o644); err != nil {
			t.Fatalf("VERIF-INCONCLUSIVE %v", err)
		}

		return path
	}

	// a longest line whose preceding line break is byte 0 of the first window:
	// tail of window-limit bytes after it, and at least one byte before the
	// window.
	fill := func(total int) (plan []int) {
		for total > vfC20Limit {
			plan = append(plan, vfC20MaxLine-100)
			total -= vfC20MaxLine - 99
		}
		if total < vfC20MinFill {
			panic("bad fixed plan")
		}

		return append(plan, total-1)
	}
	shapes := map[string][]int{
		"three_lines":        {150, 28, 28},
		"one_line":           {200},
		"max_line_at_edge":   append([]int{300, 9000, 9000, vfC20MaxLine}, fill(vfC20Window-vfC20Limit)...),
		"max_line_reinit":    append([]int{300, 9000, 9000, vfC20MaxLine}, fill(vfC20Window-vfC20Limit+1)...),
		"exactly_one_window": fill(vfC20Window),
		"window_plus_two":    fill(vfC20Window + 2),
	}
	names := make([]string, 0, len(shapes))
	for name := range shapes {
		names = append(names, name)
	}
	sort.Strings(names)
	for _, name := range names {
		lens := shapes[name]
		t.Run(name, func(t *testing.T) {
			f := vfC20FixedFile(lens, base, 1_000_000_007)
			q, err := newQLogFile(write(t, "querylog.json", f))
			if err != nil {
				t.Fatalf("VERIF-INCONCLUSIVE %v", err)
			}
			defer func() { _ = q.Close() }()

			c := vfC20NewCursor(f)
			if _, err = q.SeekStart(); err != nil {
				t.Fatalf("SeekStart: %v", err)
			}
			c.set(0)
			vfC20ReadAll(t, q, c, nil, "reverse pass")

			for i, ts := range f.TS {
				_, depth, serr := q.seekTS(ctx, logger, ts)
				if serr != nil || depth > 100 {
					t.Fatalf("seekTS of stored line %d: %v (depth %d)", i, serr, depth)
				}
				c.set(len(f.TS) - 1 - i)
				line, rerr := q.ReadNext()
				if msg := c.observe(line, rerr); msg != "" {
					t.Fatalf("after seekTS of stored line %d: %s", i, msg)
				}
				_, _, serr = q.seekTS(ctx, logger, ts+1)
				want := errTSNotFound
				if i == len(f.TS)-1 {
					want = errTSTooLate
				}
				if !errors.Is(serr, want) {
					t.Fatalf("seekTS just after stored line %d: %v, want %v", i, serr, want)
				}
			}
			if _, _, serr := q.seekTS(ctx, logger, f.TS[0]-1); !errors.Is(serr, errTSTooEarly) {
				t.Fatalf("seekTS before the first line: %v, want %v", serr, errTSTooEarly)
			}
			vfC20.Eval()
			vfC20.Class("test:regress")
		})
	}

	// Zero-length files.
	t.Run("empty_file", func(t *testing.T) {
		what := "seek in a zero-length log file reports an error that is none of not-found/too-early/too-late; " +
			"a reader whose current file is empty cannot seek to entries of the rotated file"
		failed := func(format string, args ...any) {
			if _, open := vfkit.KnownOpen("C20", vfC20KnownEmpty); open {
				vfC20.KnownLine(vfC20KnownEmpty + ": " + what)
				t.Logf(format, args...)

				return
			}
			t.Fatalf(format, args...)
		}

		empty := &vfC20File{Off: []int64{0}}
		q, err := newQLogFile(write(t, "querylog.json", empty))
		if err != nil {
			t.Fatalf("VERIF-INCONCLUSIVE %v", err)
		}
		defer func() { _ = q.Close() }()

		_, _, serr := q.seekTS(ctx, logger, base)
		if serr == nil || !vfC20IsSeekClass(serr) {
			failed("seekTS in an empty file reported %v", serr)

			return
		}

		// rotated file with entries, current file empty
		old := vfC20FixedFile([]int{100, 100, 100}, base, 1_000_000_000)
		dir := t.TempDir()
		paths := []string{filepath.Join(dir, "querylog.json.1"), filepath.Join(dir, "querylog.json")}
		if err = os.WriteFile(paths[0], old.bytes(), 0o644); err != nil {
			t.Fatalf("VERIF-INCONCLUSIVE %v", err)
		}
		if err = os.WriteFile(paths[1], nil, 0o644); err != nil {
			t.Fatalf("VERIF-INCONCLUSIVE %v", err)
		}
		r, err := newQLogReader(ctx, logger, paths)
		if err != nil {
			t.Fatalf("VERIF-INCONCLUSIVE %v", err)
		}
		defer func() { _ = r.Close() }()

		if serr = r.seekTS(ctx, old.TS[1]); serr != nil {
			failed("reader with an empty current file: seekTS of a stored entry of the rotated file: %v", serr)

			return
		}
		line, rerr := r.ReadNext()
		if rerr != nil || line != old.Lines[1] {
			t.Fatalf("after the seek read %s, %v", vfC20Short(line), rerr)
		}
		line, rerr = r.ReadNext()
		if rerr != nil || line != old.Lines[0] {
			t.Fatalf("second read %s, %v", vfC20Short(line), rerr)
		}
		if _, rerr = r.ReadNext(); !errors.Is(rerr, io.EOF) {
			t.Fatalf("third read: %v", rerr)
		}
		vfC20.Eval()
		vfC20.Class("test:regress")
	})
}
