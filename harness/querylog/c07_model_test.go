//go:build verif

package querylog

// C07 — reference model of the query log: what was recorded, how a recorded
// entry must look in the API, which entries a search term / a response status
// selects.  Everything here is written from the property text, the OpenAPI
// description of GET /control/querylog and the documented meaning of the
// settings; nothing calls the search / JSON / decoding code under test.

import (
	"encoding/json"
	"fmt"
	"math"
	"net"
	"net/netip"
	"reflect"
	"sort"
	"strconv"
	"strings"
	"time"

	"github.com/AdguardTeam/AdGuardHome/internal/filtering"
	"github.com/AdguardTeam/AdGuardHome/internal/vfkit"
	"github.com/AdguardTeam/AdGuardHome/internal/whois"
	"github.com/AdguardTeam/urlfilter/rules"
	"github.com/miekg/dns"
	"golang.org/x/net/idna"
	"pgregory.net/rapid"
)

var vfC07 = vfkit.For("C07")

// vfC07TB is what the helpers need of *rapid.T and *testing.T.
type vfC07TB interface {
	Fatalf(format string, args ...any)
	Logf(format string, args ...any)
}

// vfC07RR is one generated resource record of an answer together with the
// "value" text the API is expected to show for it.
type vfC07RR struct {
	Type  string `json:"type"`
	Value string `json:"value"`
	TTL   uint32 `json:"ttl"`
}

// vfC07Msg is a generated DNS response.
type vfC07Msg struct {
	Rcode int       `json:"rcode"`
	AD    bool      `json:"ad"`
	RRs   []vfC07RR `json:"rrs"`

	msg *dns.Msg
}

// vfC07Rec is one recorded query: the parameters it was recorded with and the
// instant the model assigned to it.
type vfC07Rec struct {
	Seq  int
	Time time.Time

	QName  string
	QType  uint16
	QClass uint16

	IP       net.IP
	ClientID string
	Proto    ClientProto
	Upstream string
	ECS      *net.IPNet

	Answer *vfC07Msg
	Orig   *vfC07Msg

	Result     filtering.Result
	NilResult  bool
	Consistent bool

	Elapsed time.Duration
	Cached  bool
	AD      bool

	// snapshots of the API form first seen, per anonymisation setting
	// (metamorphic oracle: the form never changes with the storage location).
	firstSeen [2]map[string]any
	seenWhere [2]string

	// expected API form per anonymisation setting (the client registry of a
	// case never changes)
	want     [2]map[string]any
	optional [2]map[string]bool
}

// vfC07Host is the documented normal form of a question name.
func vfC07Host(qname string) (host string) {
	if qname == "." {
		return qname
	}

	return strings.ToLower(strings.TrimSuffix(qname, "."))
}

func (r *vfC07Rec) host() (h string) { return vfC07Host(r.QName) }

func (r *vfC07Rec) describe() (s string) {
	return fmt.Sprintf("#%d %s %s %s ip=%s cid=%q reason=%d filtered=%t rules=%d",
		r.Seq, r.Time.Format(time.RFC3339Nano), r.host(), vfC07TypeName(r.QType), r.IP, r.ClientID,
		r.Result.Reason, r.Result.IsFiltered, len(r.Result.Rules))
}

// params builds the AddParams the entry is recorded with.
func (r *vfC07Rec) params() (p *AddParams) {
	q := &dns.Msg{}
	q.Id = uint16(1000 + r.Seq)
	q.RecursionDesired = true
	q.Question = []dns.Question{{Name: r.QName, Qtype: r.QType, Qclass: r.QClass}}

	p = &AddParams{
		Question:          q,
		ReqECS:            r.ECS,
		ClientID:          r.ClientID,
		Upstream:          r.Upstream,
		ClientProto:       r.Proto,
		ClientIP:          append(net.IP(nil), r.IP...),
		Elapsed:           r.Elapsed,
		Cached:            r.Cached,
		AuthenticatedData: r.AD,
	}
	if !r.NilResult {
		res := vfC07CloneResult(r.Result)
		p.Result = &res
	}
	if r.Answer != nil {
		p.Answer = r.Answer.msg.Copy()
	}
	if r.Orig != nil {
		p.OrigAnswer = r.Orig.msg.Copy()
	}

	return p
}

func vfC07CloneResult(in filtering.Result) (out filtering.Result) {
	out = in
	if in.Rules != nil {
		out.Rules = make([]*filtering.ResultRule, len(in.Rules))
		for i, r := range in.Rules {
			c := *r
			out.Rules[i] = &c
		}
	}
	out.IPList = append([]netip.Addr(nil), in.IPList...)
	if in.IPList == nil {
		out.IPList = nil
	}
	if in.DNSRewriteResult != nil {
		d := &filtering.DNSRewriteResult{RCode: in.DNSRewriteResult.RCode}
		if in.DNSRewriteResult.Response != nil {
			d.Response = filtering.DNSRewriteResultResponse{}
			for k, v := range in.DNSRewriteResult.Response {
				d.Response[k] = append([]rules.RRValue(nil), v...)
			}
		}
		out.DNSRewriteResult = d
	}

	return out
}

// ---- names of enumerations, from the OpenAPI document ----

var vfC07ReasonNames = []string{
	"NotFilteredNotFound", "NotFilteredWhiteList", "NotFilteredError", "FilteredBlackList",
	"FilteredSafeBrowsing", "FilteredParental", "FilteredInvalid", "FilteredSafeSearch",
	"FilteredBlockedService", "Rewrite", "RewriteEtcHosts", "RewriteRule",
}

const (
	vfC07RNotFound = iota
	vfC07RAllow
	vfC07RError
	vfC07RBlock
	vfC07RSafeBrowsing
	vfC07RParental
	vfC07RInvalid
	vfC07RSafeSearch
	vfC07RService
	vfC07RRewrite
	vfC07RHosts
	vfC07RRule
)

// vfC07TypeName and vfC07ClassName are the presentation names of miekg/dns.
func vfC07TypeName(t uint16) (s string) { return dns.Type(t).String() }

func vfC07ClassName(c uint16) (s string) { return dns.Class(c).String() }

// vfC07Anon is the documented anonymisation: the last two octets of an IPv4
// and the last ten of an IPv6 address are zeroed.
func vfC07Anon(ip net.IP) (out net.IP) {
	if v4 := ip.To4(); v4 != nil {
		out = append(net.IP(nil), v4...)
		out[2], out[3] = 0, 0

		return out
	}
	out = append(net.IP(nil), ip...)
	for i := 6; i < len(out); i++ {
		out[i] = 0
	}

	return out
}

// vfC07Clients is the client registry double of a case: identifier (ClientID
// or address text) -> information.
type vfC07Clients map[string]*Client

// find is the FindClient callback: the first identifier that is known wins.
func (c vfC07Clients) find(ids []string) (cl *Client, err error) {
	for _, id := range ids {
		if v, ok := c[id]; ok {
			cp := *v

			return &cp, nil
		}
	}

	return nil, nil
}

// of returns the client information that belongs to a record (ClientID first,
// then address), or nil.
func (c vfC07Clients) of(r *vfC07Rec) (cl *Client) {
	if r.ClientID != "" {
		if v, ok := c[r.ClientID]; ok {
			return v
		}
	}
	if v, ok := c[r.IP.String()]; ok {
		return v
	}

	return nil
}

// vfC07Norm turns a Go value into the generic form encoding/json decodes to.
func vfC07Norm(v any) (out any) {
	b, err := json.Marshal(v)
	if err != nil {
		panic(fmt.Sprintf("VERIF-INCONCLUSIVE marshal: %v", err))
	}
	err = json.Unmarshal(b, &out)
	if err != nil {
		panic(fmt.Sprintf("VERIF-INCONCLUSIVE unmarshal: %v", err))
	}

	return out
}

func vfC07AnswerJSON(m *vfC07Msg) (a []any) {
	for _, rr := range m.RRs {
		a = append(a, map[string]any{"type": rr.Type, "value": rr.Value, "ttl": float64(rr.TTL)})
	}

	return a
}

// vfC07Expect is the API form of a record according to the OpenAPI schema
// QueryLogItem.  Keys whose presence the documentation leaves open are listed
// in optional.
func vfC07Expect(r *vfC07Rec, clients vfC07Clients, anonymise bool) (want map[string]any, optional map[string]bool) {
	optional = map[string]bool{}
	host := r.host()
	question := map[string]any{
		"type":  vfC07TypeName(r.QType),
		"class": vfC07ClassName(r.QClass),
		"name":  host,
	}
	if u, err := idna.ToUnicode(host); err == nil && u != host && u != "" {
		question["unicode_name"] = u
	}

	ip := r.IP
	if anonymise {
		ip = vfC07Anon(r.IP)
	}

	ruleList := []any{}
	for _, rl := range r.Result.Rules {
		ruleList = append(ruleList, map[string]any{"filter_list_id": float64(rl.FilterListID), "text": rl.Text})
	}

	reason := ""
	if int(r.Result.Reason) >= 0 && int(r.Result.Reason) < len(vfC07ReasonNames) {
		reason = vfC07ReasonNames[r.Result.Reason]
	}

	want = map[string]any{
		"reason":       reason,
		"time":         r.Time.Format(time.RFC3339Nano),
		"client":       ip.String(),
		"client_proto": string(r.Proto),
		"cached":       r.Cached,
		"upstream":     r.Upstream,
		"question":     question,
		"rules":        ruleList,
		"elapsedMs":    float64(r.Elapsed) / 1e6,
	}

	cl := clients.of(r)
	switch {
	case anonymise:
		// Whether client information accompanies an anonymised address is not
		// documented.
		optional["client_info"] = true
	case cl == nil:
		optional["client_info"] = true
		want["client_info"] = nil
	default:
		want["client_info"] = vfC07Norm(cl)
	}

	if r.ClientID != "" {
		want["client_id"] = r.ClientID
	}
	if r.ECS != nil {
		want["ecs"] = r.ECS.String()
	}
	if len(r.Result.Rules) > 0 && r.Result.Rules[0].Text != "" {
		want["rule"] = r.Result.Rules[0].Text
		want["filterId"] = float64(r.Result.Rules[0].FilterListID)
	}
	if r.Result.ServiceName != "" {
		want["service_name"] = r.Result.ServiceName
	}
	if r.Answer != nil {
		want["status"] = dns.RcodeToString[r.Answer.Rcode]
		want["answer_dnssec"] = r.AD || r.Answer.AD
		if len(r.Answer.RRs) > 0 {
			want["answer"] = vfC07AnswerJSON(r.Answer)
		}
	}
	if r.Orig != nil && len(r.Orig.RRs) > 0 {
		want["original_answer"] = vfC07AnswerJSON(r.Orig)
	}

	return want, optional
}

// vfC07CompareEntry compares an API item with the expected form.
func vfC07CompareEntry(got, want map[string]any, optional map[string]bool) (err error) {
	keys := map[string]bool{}
	for k := range got {
		keys[k] = true
	}
	for k := range want {
		keys[k] = true
	}
	names := make([]string, 0, len(keys))
	for k := range keys {
		names = append(names, k)
	}
	sort.Strings(names)

	for _, k := range names {
		g, gok := got[k]
		w, wok := want[k]
		switch {
		case optional[k] && (!gok || !wok):
			continue
		case optional[k] && g == nil && w == nil:
			continue
		case !gok:
			return fmt.Errorf("key %q is missing (want %v)", k, w)
		case !wok:
			return fmt.Errorf("unexpected key %q = %v", k, g)
		}

		switch k {
		case "elapsedMs":
			s, ok := g.(string)
			if !ok {
				return fmt.Errorf("elapsedMs is %T, want a string", g)
			}
			f, perr := strconv.ParseFloat(s, 64)
			if perr != nil {
				return fmt.Errorf("elapsedMs %q: %v", s, perr)
			}
			wf := w.(float64)
			if math.Abs(f-wf) > 1e-9*math.Max(1, math.Abs(wf)) {
				return fmt.Errorf("elapsedMs = %q, want %v", s, wf)
			}
		case "time":
			s, _ := g.(string)
			gt, perr := time.Parse(time.RFC3339Nano, s)
			if perr != nil {
				return fmt.Errorf("time %q: %v", s, perr)
			}
			wt, _ := time.Parse(time.RFC3339Nano, w.(string))
			if !gt.Equal(wt) {
				return fmt.Errorf("time = %q, want %q", s, w)
			}
			if _, goff := gt.Zone(); goff != vfC07Offset(wt) {
				return fmt.Errorf("time = %q has another UTC offset than recorded %q", s, w)
			}
		case "client":
			s, _ := g.(string)
			gip := net.ParseIP(s)
			if gip == nil || !gip.Equal(net.ParseIP(w.(string))) {
				return fmt.Errorf("client = %v, want %v", g, w)
			}
		default:
			if !reflect.DeepEqual(g, w) {
				return fmt.Errorf("%s = %v, want %v", k, vfC07JSON(g), vfC07JSON(w))
			}
		}
	}

	return nil
}

func vfC07Offset(t time.Time) (off int) {
	_, off = t.Zone()

	return off
}

func vfC07JSON(v any) (s string) {
	b, err := json.Marshal(v)
	if err != nil {
		return fmt.Sprint(v)
	}

	return string(b)
}

// ---- search reference ----

// vfC07Quoted implements "a term in double quotes asks for the exact value".
func vfC07Quoted(term string) (inner string, strict bool) {
	if len(term) >= 2 && term[0] == '"' && term[len(term)-1] == '"' {
		return term[1 : len(term)-1], true
	}

	return term, false
}

func vfC07ASCII(s string) (ok bool) {
	for i := 0; i < len(s); i++ {
		if s[i] >= 0x80 {
			return false
		}
	}

	return true
}

// vfC07RefTerm: a term selects an entry when the domain name, the client's
// address, its ClientID or its name contains it (equals it, if quoted),
// ignoring case; a Unicode domain term also matches the IDNA form of the name.
// The result is 1 selected, 0 not selected, -1 open: an ASCII term that holds a
// malformed or partial "xn--" label has no documented IDNA form (the search is
// documented not to find parts of IDNA labels), so what else it may match is
// left open.
func vfC07RefTerm(r *vfC07Rec, clients vfC07Clients, rawTerm string) (sel int) {
	term, strict := vfC07Quoted(rawTerm)
	lt := strings.ToLower(term)

	fields := []string{r.host(), r.IP.String(), r.ClientID}
	if cl := clients.of(r); cl != nil {
		fields = append(fields, cl.Name)
	} else {
		fields = append(fields, "")
	}

	for _, f := range fields {
		lf := strings.ToLower(f)
		if strict && lf == lt {
			return 1
		} else if !strict && strings.Contains(lf, lt) {
			return 1
		}
	}

	a, err := idna.ToASCII(lt)
	if a != "" && a != lt {
		h := r.host()
		if (strict && h == a) || (!strict && strings.Contains(h, a)) {
			if err == nil && !vfC07ASCII(lt) {
				return 1
			}

			return -1
		}
	}

	return 0
}

// vfC07Statuses are the documented values of response_status.
var vfC07Statuses = []string{
	"all", "filtered", "blocked", "blocked_services", "blocked_safebrowsing", "blocked_parental",
	"whitelisted", "rewritten", "safe_search", "processed",
}

// vfC07RefStatus says whether a status filter selects the record: 1 yes, 0 no,
// -1 not determined by the documentation (inconsistent reason/filtered pairs;
// whether "processed" covers safe browsing / parental / safe search / invalid).
func vfC07RefStatus(r *vfC07Rec, status string) (sel int) {
	b := func(v bool) int {
		if v {
			return 1
		}

		return 0
	}
	reason := int(r.Result.Reason)
	rewritten := reason == vfC07RRewrite || reason == vfC07RHosts || reason == vfC07RRule

	switch status {
	case "all":
		return 1
	case "whitelisted":
		return b(reason == vfC07RAllow)
	case "rewritten":
		return b(rewritten)
	}

	if !r.Consistent {
		return -1
	}

	switch status {
	case "filtered":
		// all kinds of filtering: everything a filter matched
		return b(reason != vfC07RNotFound && reason != vfC07RError)
	case "blocked":
		return b(reason == vfC07RBlock || reason == vfC07RService)
	case "blocked_services":
		return b(reason == vfC07RService)
	case "blocked_safebrowsing":
		return b(reason == vfC07RSafeBrowsing)
	case "blocked_parental":
		return b(reason == vfC07RParental)
	case "safe_search":
		return b(reason == vfC07RSafeSearch)
	case "processed":
		// not blocked, not white-listed
		switch reason {
		case vfC07RBlock, vfC07RService, vfC07RAllow:
			return 0
		case vfC07RSafeBrowsing, vfC07RParental, vfC07RSafeSearch, vfC07RInvalid:
			return -1
		default:
			return 1
		}
	}

	return -1
}

// vfC07Filter is one search request's selection.
type vfC07Filter struct {
	Term   string `json:"search,omitempty"`
	Status string `json:"response_status,omitempty"`
	Kind   string `json:"kind"`
}

func (f vfC07Filter) String() (s string) {
	return fmt.Sprintf("%s[search=%q status=%q]", f.Kind, f.Term, f.Status)
}

// sel: 1 selected, 0 not selected, -1 open.
func (f vfC07Filter) sel(r *vfC07Rec, clients vfC07Clients) (sel int) {
	sel = 1
	if f.Term != "" {
		sel = vfC07RefTerm(r, clients, f.Term)
	}
	if sel == 0 || f.Status == "" {
		return sel
	}
	switch st := vfC07RefStatus(r, f.Status); {
	case st == 0:
		return 0
	case st == -1:
		return -1
	}

	return sel
}

// ---- generators ----

var (
	vfC07Labels        = []string{"a", "b", "ads", "cdn", "www", "x1", "tracker", "cli", "laptop", "a-b", "_dmarc"}
	vfC07EscapedLabels = []string{"a&b", "x<y", "q=1&r=2", "<b>"}
	vfC07IDNLabels     = []string{"пример", "bücher", "münchen", "例え"}
	vfC07TLDs          = []string{"test", "example", "com", "org", "co.uk"}

	vfC07IPs = []string{
		"192.0.2.1", "192.0.2.17", "192.0.2.171", "198.51.100.23", "10.1.2.3", "127.0.0.1", "203.0.113.200",
		"2001:db8::1", "2001:db8::17", "2001:db8:1:2:3:4:5:6", "fe80::1", "::1",
	}
	vfC07ClientIDs = []string{"", "", "", "cli123", "phone", "ads-box", "cli"}
	vfC07Upstreams = []string{
		"", "8.8.8.8:53", "tls://dns.example:853", "https://dns.example/dns-query?a=1&b=<2>",
		"[2001:db8::53]:53", "quic://dns.example", "sdns://AQcAAAAAAAAA",
	}
	vfC07Protos   = []ClientProto{ClientProtoPlain, ClientProtoPlain, ClientProtoDoH, ClientProtoDoQ, ClientProtoDoT, ClientProtoDNSCrypt}
	vfC07QTypes   = []uint16{dns.TypeA, dns.TypeA, dns.TypeAAAA, dns.TypeAAAA, dns.TypeHTTPS, dns.TypePTR, dns.TypeTXT, dns.TypeMX, dns.TypeANY, dns.TypeCNAME, 65280}
	vfC07Elapsed  = []time.Duration{0, 1, 999, time.Microsecond, 1234567, 54023928, time.Second, 3*time.Second + 1, 25 * time.Hour}
	vfC07Services = []string{"youtube", "tiktok", "9gag"}
	vfC07RuleText = []string{
		"||ads.example^", "@@||cdn.test^", "||tracker.com^$important", "0.0.0.0 ads.example", "|a.test^$dnsrewrite=192.0.2.9",
		"/regex[a-z]+\\.test/", "||пример.test^", "", "a \"quoted\" rule <&>", "||x1.org^$client='Laptop'",
	}
	vfC07ListIDs = []int{0, 1, 2, 1700000000, -1, -2, -3, -4, -5, 42}
)

// vfC07EscapedLabelsAllowed: names with JSON-escaped bytes are generated unless
// the finding about them is listed as open.
func vfC07EscapedLabelsAllowed() (ok bool) {
	if _, open := vfkit.KnownOpen("C07", vfC07SigEscaped); open {
		vfC07.Excluded(vfC07SigEscaped)

		return false
	}

	return true
}

func vfC07DrawHost(t *rapid.T, label string) (qname string, idn bool) {
	if rapid.IntRange(0, 39).Draw(t, label+"_root") == 0 {
		return ".", false
	}
	n := rapid.IntRange(1, 3).Draw(t, label+"_nlabels")
	parts := make([]string, 0, n+1)
	for i := 0; i < n; i++ {
		if rapid.IntRange(0, 6).Draw(t, label+"_idnlabel") == 0 {
			u := rapid.SampledFrom(vfC07IDNLabels).Draw(t, label+"_idn")
			a, err := idna.ToASCII(u)
			if err != nil {
				t.Fatalf("VERIF-INCONCLUSIVE idna %q: %v", u, err)
			}
			parts = append(parts, a)
			idn = true
		} else if rapid.IntRange(0, 11).Draw(t, label+"_escaped") == 0 && vfC07EscapedLabelsAllowed() {
			// bytes that are legal in a wire name and that encoding/json
			// escapes in the stored line
			parts = append(parts, rapid.SampledFrom(vfC07EscapedLabels).Draw(t, label+"_esclabel"))
		} else {
			parts = append(parts, rapid.SampledFrom(vfC07Labels).Draw(t, label+"_label"))
		}
	}
	parts = append(parts, rapid.SampledFrom(vfC07TLDs).Draw(t, label+"_tld"))
	qname = strings.Join(parts, ".") + "."
	if rapid.IntRange(0, 4).Draw(t, label+"_case") == 0 {
		// 0x20-style case mixing on the wire
		b := []byte(qname)
		mask := rapid.Uint32().Draw(t, label+"_casemask")
		for i := range b {
			if b[i] >= 'a' && b[i] <= 'z' && mask&(1<<(uint(i)%32)) != 0 {
				b[i] -= 'a' - 'A'
			}
		}
		qname = string(b)
	}

	return qname, idn
}

func vfC07DrawIP(t *rapid.T, label string) (ip net.IP) {
	ip = net.ParseIP(rapid.SampledFrom(vfC07IPs).Draw(t, label))
	if v4 := ip.To4(); v4 != nil && rapid.Bool().Draw(t, label+"_4byte") {
		ip = v4
	}

	return ip
}

// vfC07NewMsg builds the response with trusted miekg/dns.
func vfC07NewMsg(tb vfC07TB, qname string, qtype, qclass uint16, rcode int, ad bool, rrs []vfC07RR) (m *vfC07Msg) {
	msg := &dns.Msg{}
	msg.Id = 4242
	msg.Response = true
	msg.RecursionDesired = true
	msg.RecursionAvailable = true
	msg.Rcode = rcode
	msg.AuthenticatedData = ad
	msg.Question = []dns.Question{{Name: qname, Qtype: qtype, Qclass: qclass}}
	owner := strings.ToLower(qname)
	for _, rr := range rrs {
		r, err := dns.NewRR(fmt.Sprintf("%s %d IN %s %s", owner, rr.TTL, rr.Type, rr.Value))
		if err != nil || r == nil {
			tb.Fatalf("VERIF-INCONCLUSIVE building RR %v: %v", rr, err)
		}
		msg.Answer = append(msg.Answer, r)
	}
	if _, err := msg.Pack(); err != nil {
		tb.Fatalf("VERIF-INCONCLUSIVE packing %v: %v", msg, err)
	}

	return &vfC07Msg{Rcode: rcode, AD: ad, RRs: rrs, msg: msg}
}

var vfC07RRPool = []vfC07RR{
	{"A", "192.0.2.5", 300}, {"A", "0.0.0.0", 10}, {"A", "203.0.113.255", 0}, {"AAAA", "2001:db8::5", 3600},
	{"AAAA", "::", 10}, {"CNAME", "cdn.example.", 60}, {"CNAME", "xn--e1afmkfd.test.", 4294967295},
	{"TXT", "\"v=spf1 -all\"", 120}, {"TXT", "\"a b\" \"c\"", 1}, {"MX", "10 mail.example.", 7200},
	{"PTR", "host.example.", 30}, {"NS", "ns1.example.", 86400}, {"SRV", "1 2 443 srv.example.", 5},
	{"HTTPS", "1 . alpn=\"h2,h3\"", 300}, {"SOA", "ns.example. root.example. 1 2 3 4 5", 900},
}

func vfC07DrawMsg(t *rapid.T, label, qname string, qtype, qclass uint16) (m *vfC07Msg) {
	kind := rapid.IntRange(0, 9).Draw(t, label+"_kind")
	if kind == 0 {
		return nil
	}
	rcode := dns.RcodeSuccess
	var rrs []vfC07RR
	switch {
	case kind == 1:
		rcode = rapid.SampledFrom([]int{dns.RcodeNameError, dns.RcodeServerFailure, dns.RcodeRefused, dns.RcodeNotImplemented}).Draw(t, label+"_rcode")
	case kind == 2:
		// NOERROR, no data
	default:
		n := rapid.IntRange(1, 4).Draw(t, label+"_nrr")
		for i := 0; i < n; i++ {
			rrs = append(rrs, rapid.SampledFrom(vfC07RRPool).Draw(t, fmt.Sprintf("%s_rr%d", label, i)))
		}
	}
	ad := rapid.IntRange(0, 5).Draw(t, label+"_ad") == 0

	return vfC07NewMsg(t, qname, qtype, qclass, rcode, ad, rrs)
}

func vfC07DrawRules(t *rapid.T, label string, min, max int, withIP bool) (rl []*filtering.ResultRule) {
	n := rapid.IntRange(min, max).Draw(t, label+"_n")
	if n == 0 {
		if rapid.Bool().Draw(t, label+"_emptyslice") {
			return []*filtering.ResultRule{}
		}

		return nil
	}
	for i := 0; i < n; i++ {
		r := &filtering.ResultRule{
			Text:         rapid.SampledFrom(vfC07RuleText).Draw(t, fmt.Sprintf("%s_text%d", label, i)),
			FilterListID: rapid.SampledFrom(vfC07ListIDs).Draw(t, fmt.Sprintf("%s_list%d", label, i)),
		}
		if withIP || rapid.IntRange(0, 3).Draw(t, fmt.Sprintf("%s_ip%d", label, i)) == 0 {
			r.IP = netip.MustParseAddr(rapid.SampledFrom([]string{"0.0.0.0", "192.0.2.99", "::", "2001:db8::99"}).Draw(t, fmt.Sprintf("%s_ipv%d", label, i)))
		}
		rl = append(rl, r)
	}

	return rl
}

func vfC07DrawRewrite(t *rapid.T, label string) (d *filtering.DNSRewriteResult) {
	d = &filtering.DNSRewriteResult{}
	switch rapid.IntRange(0, 5).Draw(t, label+"_kind") {
	case 0:
		d.RCode = rapid.SampledFrom([]int{dns.RcodeNameError, dns.RcodeRefused, dns.RcodeServerFailure}).Draw(t, label+"_rcode")
	case 1:
		// present but empty
	default:
		d.Response = filtering.DNSRewriteResultResponse{}
		n := rapid.IntRange(1, 3).Draw(t, label+"_n")
		for i := 0; i < n; i++ {
			switch rapid.IntRange(0, 6).Draw(t, fmt.Sprintf("%s_t%d", label, i)) {
			case 0, 1:
				d.Response[dns.TypeA] = append(d.Response[dns.TypeA], netip.MustParseAddr(
					rapid.SampledFrom([]string{"192.0.2.9", "0.0.0.0", "127.0.0.1"}).Draw(t, fmt.Sprintf("%s_a%d", label, i))))
			case 2:
				d.Response[dns.TypeAAAA] = append(d.Response[dns.TypeAAAA], netip.MustParseAddr(
					rapid.SampledFrom([]string{"2001:db8::9", "::"}).Draw(t, fmt.Sprintf("%s_aaaa%d", label, i))))
			case 3:
				d.Response[dns.TypePTR] = append(d.Response[dns.TypePTR], "host.example.")
			case 4:
				d.Response[dns.TypeMX] = append(d.Response[dns.TypeMX], &rules.DNSMX{Exchange: "mail.example", Preference: 10})
			case 5:
				d.Response[dns.TypeTXT] = append(d.Response[dns.TypeTXT], "hello \"world\" <&>")
			default:
				d.Response[dns.TypeSRV] = append(d.Response[dns.TypeSRV], &rules.DNSSRV{Target: "srv.example", Priority: 1, Weight: 2, Port: 443})
			}
		}
	}

	return d
}

// vfC07DrawResult draws a filtering result of every reason with the payloads
// the filtering module attaches to it.
func vfC07DrawResult(t *rapid.T, label string) (res filtering.Result, nilResult, consistent bool) {
	consistent = true
	kind := rapid.IntRange(0, 23).Draw(t, label+"_reason")
	switch {
	case kind <= 6:
		if kind == 0 {
			return res, true, true
		}
	case kind == 7 || kind == 8:
		res.Reason = filtering.NotFilteredAllowList
		res.Rules = vfC07DrawRules(t, label+"_rules", 1, 2, false)
	case kind >= 9 && kind <= 11:
		res.Reason = filtering.FilteredBlockList
		res.IsFiltered = true
		res.Rules = vfC07DrawRules(t, label+"_rules", 0, 3, kind == 11)
	case kind == 12:
		res.Reason = filtering.FilteredSafeBrowsing
		res.IsFiltered = true
		res.Rules = []*filtering.ResultRule{{Text: "adguard-malware-shavar", FilterListID: -4}}
	case kind == 13:
		res.Reason = filtering.FilteredParental
		res.IsFiltered = true
		res.Rules = []*filtering.ResultRule{{Text: "parental CATEGORY_BLACKLISTED", FilterListID: -3}}
	case kind == 14:
		res.Reason = filtering.FilteredSafeSearch
		res.IsFiltered = true
		res.Rules = []*filtering.ResultRule{{IP: netip.MustParseAddr("203.0.113.9"), FilterListID: -5}}
		if rapid.Bool().Draw(t, label+"_sscanon") {
			res.CanonName = "forcesafesearch.example"
		}
	case kind == 15 || kind == 16:
		res.Reason = filtering.FilteredBlockedService
		res.IsFiltered = true
		res.ServiceName = rapid.SampledFrom(vfC07Services).Draw(t, label+"_svc")
		res.Rules = vfC07DrawRules(t, label+"_rules", 0, 1, false)
	case kind == 17:
		res.Reason = filtering.Rewritten
		if rapid.Bool().Draw(t, label+"_canon") {
			res.CanonName = "cdn.example"
		}
		nip := rapid.IntRange(0, 3).Draw(t, label+"_nip")
		for i := 0; i < nip; i++ {
			res.IPList = append(res.IPList, netip.MustParseAddr(
				rapid.SampledFrom([]string{"192.0.2.8", "2001:db8::8", "0.0.0.0"}).Draw(t, fmt.Sprintf("%s_ipl%d", label, i))))
		}
	case kind == 18:
		res.Reason = filtering.RewrittenAutoHosts
		res.DNSRewriteResult = vfC07DrawRewrite(t, label+"_rw")
		res.Rules = []*filtering.ResultRule{{Text: "192.0.2.9 host.example", FilterListID: -1}}
	case kind == 19 || kind == 20:
		res.Reason = filtering.RewrittenRule
		if rapid.IntRange(0, 3).Draw(t, label+"_canon") == 0 {
			res.CanonName = "new.example"
		} else {
			res.DNSRewriteResult = vfC07DrawRewrite(t, label+"_rw")
		}
		res.Rules = vfC07DrawRules(t, label+"_rules", 1, 3, false)
	case kind == 21:
		res.Reason = rapid.SampledFrom([]filtering.Reason{filtering.FilteredInvalid, filtering.NotFilteredError}).Draw(t, label+"_rare")
		res.IsFiltered = res.Reason == filtering.FilteredInvalid
	default:
		// a pair of reason and filtered flag the filtering module does not
		// produce; the status filters are not defined for it
		consistent = false
		res.Reason = filtering.Reason(rapid.IntRange(0, 11).Draw(t, label+"_anyreason"))
		res.IsFiltered = rapid.Bool().Draw(t, label+"_anyfiltered")
		res.Rules = vfC07DrawRules(t, label+"_rules", 0, 2, false)
		if rapid.Bool().Draw(t, label+"_anysvc") {
			res.ServiceName = rapid.SampledFrom(vfC07Services).Draw(t, label+"_svc")
		}
		if res.Reason == filtering.RewrittenAutoHosts {
			// keep out of the documented legacy translation of host-file
			// rewrites with an address list
			res.IPList = nil
		}
		filteredReason := res.Reason >= filtering.FilteredBlockList && res.Reason <= filtering.FilteredBlockedService
		if filteredReason == res.IsFiltered {
			consistent = true
		}
	}

	return res, false, consistent
}

// vfC07DrawRec draws everything of a record but its time and sequence number.
func vfC07DrawRec(t *rapid.T, label string) (r *vfC07Rec) {
	r = &vfC07Rec{}
	r.QName, _ = vfC07DrawHost(t, label+"_host")
	r.QType = rapid.SampledFrom(vfC07QTypes).Draw(t, label+"_qtype")
	r.QClass = dns.ClassINET
	if rapid.IntRange(0, 19).Draw(t, label+"_class") == 0 {
		r.QClass = rapid.SampledFrom([]uint16{dns.ClassCHAOS, dns.ClassANY, 4242}).Draw(t, label+"_classv")
	}
	r.IP = vfC07DrawIP(t, label+"_ip")
	r.ClientID = rapid.SampledFrom(vfC07ClientIDs).Draw(t, label+"_cid")
	r.Proto = rapid.SampledFrom(vfC07Protos).Draw(t, label+"_proto")
	r.Upstream = rapid.SampledFrom(vfC07Upstreams).Draw(t, label+"_ups")
	switch rapid.IntRange(0, 7).Draw(t, label+"_ecs") {
	case 0:
		_, r.ECS, _ = net.ParseCIDR("192.0.2.0/24")
	case 1:
		_, r.ECS, _ = net.ParseCIDR("2001:db8::/32")
	}
	r.Result, r.NilResult, r.Consistent = vfC07DrawResult(t, label+"_res")
	r.Answer = vfC07DrawMsg(t, label+"_ans", r.QName, r.QType, r.QClass)
	if r.Result.Reason != filtering.NotFilteredNotFound && rapid.IntRange(0, 2).Draw(t, label+"_hasorig") == 0 {
		r.Orig = vfC07DrawMsg(t, label+"_orig", r.QName, r.QType, r.QClass)
	}
	r.Elapsed = rapid.SampledFrom(vfC07Elapsed).Draw(t, label+"_elapsed")
	if rapid.IntRange(0, 3).Draw(t, label+"_elapsedrnd") == 0 {
		r.Elapsed = time.Duration(rapid.Int64Range(0, int64(10*time.Second)).Draw(t, label+"_elapsedns"))
	}
	r.Cached = rapid.IntRange(0, 3).Draw(t, label+"_cached") == 0
	r.AD = rapid.IntRange(0, 5).Draw(t, label+"_adflag") == 0

	return r
}

// vfC07DrawClients draws the client registry of a case.
func vfC07DrawClients(t *rapid.T) (c vfC07Clients) {
	all := []struct {
		id string
		c  *Client
	}{
		{"192.0.2.1", &Client{Name: "Laptop"}},
		{"2001:db8::1", &Client{Name: "ads phone Kitchen", WHOIS: &whois.Info{Country: "AQ", Orgname: "Example <Org> & Co"}}},
		{"cli123", &Client{Name: "Küche"}},
		{"phone", &Client{Name: "cli", Disallowed: true, DisallowedRule: "192.0.2.0/24"}},
		{"10.1.2.3", &Client{Name: "192 office Samsung"}},
		{"198.51.100.23", &Client{Name: ""}},
		{"ads-box", &Client{Name: "tracker.com"}},
	}
	c = vfC07Clients{}
	mask := rapid.IntRange(0, 1<<len(all)-1).Draw(t, "clients_mask")
	for i, e := range all {
		if mask&(1<<i) != 0 {
			c[e.id] = e.c
		}
	}

	return c
}

var vfC07Zones = []*time.Location{
	time.UTC, time.FixedZone("", 2*3600), time.FixedZone("", -(5*3600 + 1800)), time.FixedZone("", 14*3600),
}

var vfC07Gaps = []time.Duration{
	1, 1, 2, 999, time.Microsecond, time.Millisecond, time.Second, time.Second + 1, time.Hour, 25 * time.Hour,
}

// vfC07Base is the instant before the first entry of every history; it is far
// enough in the past for every rotation interval to have elapsed, whatever the
// wall clock says.
var vfC07Base = time.Date(2021, 3, 4, 5, 6, 7, 0, time.UTC)

// vfC07DrawTerm draws a search term related to the recorded entries.
func vfC07DrawTerm(t *rapid.T, label string, recs []*vfC07Rec, clients vfC07Clients) (f vfC07Filter) {
	kind := rapid.IntRange(0, 11).Draw(t, label+"_kind")
	var r *vfC07Rec
	if len(recs) > 0 {
		r = recs[rapid.IntRange(0, len(recs)-1).Draw(t, label+"_of")]
	}
	sub := func(s, lbl string) string {
		if s == "" {
			return "a"
		}
		rs := []rune(s)
		i := rapid.IntRange(0, len(rs)-1).Draw(t, lbl+"_from")
		j := rapid.IntRange(i+1, len(rs)).Draw(t, lbl+"_to")

		return string(rs[i:j])
	}
	mix := func(s string) string {
		switch rapid.IntRange(0, 3).Draw(t, label+"_mix") {
		case 0:
			return strings.ToUpper(s)
		case 1:
			return strings.ToLower(s)
		default:
			return s
		}
	}

	switch {
	case r == nil || kind == 0:
		f = vfC07Filter{Kind: "unrelated", Term: rapid.SampledFrom([]string{"zzz", "ads", "192.0.2", "cli", "example", "nomatch.invalid", "2001:db8", ".", "xn--"}).Draw(t, label+"_word")}
	case kind == 1 || kind == 2:
		f = vfC07Filter{Kind: "host_substring", Term: mix(sub(r.host(), label+"_h"))}
	case kind == 3:
		f = vfC07Filter{Kind: "host_exact", Term: `"` + mix(r.host()) + `"`}
	case kind == 4:
		f = vfC07Filter{Kind: "ip_substring", Term: sub(r.IP.String(), label+"_i")}
	case kind == 5:
		f = vfC07Filter{Kind: "ip_exact", Term: `"` + mix(r.IP.String()) + `"`}
	case kind == 6:
		if r.ClientID == "" {
			f = vfC07Filter{Kind: "clientid_substring", Term: "cli"}
		} else if rapid.Bool().Draw(t, label+"_cidexact") {
			f = vfC07Filter{Kind: "clientid_exact", Term: `"` + mix(r.ClientID) + `"`}
		} else {
			f = vfC07Filter{Kind: "clientid_substring", Term: mix(sub(r.ClientID, label+"_c"))}
		}
	case kind == 7:
		name := "Laptop"
		if cl := clients.of(r); cl != nil && cl.Name != "" {
			name = cl.Name
		}
		if words := strings.Fields(name); len(words) > 1 && rapid.IntRange(0, 2).Draw(t, label+"_nameword") == 0 {
			// a whole word of the name, typed in lower case
			f = vfC07Filter{Kind: "clientname_word", Term: strings.ToLower(words[rapid.IntRange(1, len(words)-1).Draw(t, label+"_word")])}
		} else if rapid.Bool().Draw(t, label+"_nameexact") {
			f = vfC07Filter{Kind: "clientname_exact", Term: `"` + mix(name) + `"`}
		} else {
			f = vfC07Filter{Kind: "clientname_substring", Term: mix(sub(name, label+"_n"))}
		}
	case kind == 8 || kind == 9:
		// Unicode form of an internationalised name: whole labels only (the
		// search is documented not to find parts of IDNA labels).
		u, err := idna.ToUnicode(r.host())
		if err != nil || u == r.host() {
			u = rapid.SampledFrom(vfC07IDNLabels).Draw(t, label+"_idnword")
		}
		labels := strings.Split(u, ".")
		i := rapid.IntRange(0, len(labels)-1).Draw(t, label+"_lfrom")
		j := rapid.IntRange(i+1, len(labels)).Draw(t, label+"_lto")
		term := strings.Join(labels[i:j], ".")
		if vfC07ASCII(term) {
			f = vfC07Filter{Kind: "host_labels", Term: mix(term)}
		} else if rapid.IntRange(0, 3).Draw(t, label+"_idnexact") == 0 && i == 0 && j == len(labels) {
			f = vfC07Filter{Kind: "idn_unicode_exact", Term: `"` + mix(term) + `"`}
		} else {
			f = vfC07Filter{Kind: "idn_unicode_labels", Term: mix(term)}
		}
	case kind == 10:
		// the punycode form
		f = vfC07Filter{Kind: "host_labels", Term: mix(r.host())}
	default:
		f = vfC07Filter{Kind: "status_only"}
	}

	if f.Kind == "status_only" || rapid.IntRange(0, 3).Draw(t, label+"_withstatus") == 0 {
		f.Status = rapid.SampledFrom(vfC07Statuses).Draw(t, label+"_status")
		if f.Kind != "status_only" {
			f.Kind += "+status"
		}
	}

	return f
}
